/- One-step behaviour of `parseQuoted` / `parseHex4` on an unloaded latch, by kind of the next input bytes. -/
import AJ.Lemmas.Latch
import AJ.Lemmas.Bits
import AJ.Model.JSer
import AJ.Spec.Unicode
namespace JD

/-- the closing quote ends the string -/
theorem pq_stop {cfg : Cfg} {stop : Byte} {fuel : Nat} {acc : List Byte} {hi : Nat} {s : St} {rest : List Byte}
    (h1 : s.l.loaded = false) (h2 : s.l.unread = stop :: rest) :
    parseQuoted cfg stop (fuel + 1) acc hi s =
      ((if acc.length > cfg.maxStrLen then .noMemory else .ok), acc.reverse, adv s stop rest) := by
  simp only [parseQuoted, cur_cons h1 h2, mv_ld, beq_self_eq_true, ↓reduceIte]

/-- a byte that is not the quote, the backslash or NUL is copied -/
theorem pq_plain {cfg : Cfg} {stop : Byte} {fuel : Nat} {acc : List Byte} {hi : Nat} {s : St} {c : Byte} {rest : List Byte}
    (h1 : s.l.loaded = false) (h2 : s.l.unread = c :: rest) (hs : c ≠ stop) (h0 : c ≠ 0) (hb : c ≠ 0x5C) :
    parseQuoted cfg stop (fuel + 1) acc hi s = parseQuoted cfg stop fuel (c :: acc) hi (adv s c rest) := by
  have e1 : (c == stop) = false := by simpa using hs
  have e2 : (c == 0) = false := by simpa using h0
  have e3 : (c == 0x5C) = false := by simpa using hb
  simp only [parseQuoted, cur_cons h1 h2, mv_ld, e1, e2, e3, Bool.false_eq_true, ↓reduceIte]

/-- backslash + letter (not `u`) -/
theorem pq_esc {cfg : Cfg} {stop : Byte} {fuel : Nat} {acc : List Byte} {hi : Nat} {s : St} {d : Byte} {rest : List Byte}
    (h1 : s.l.loaded = false) (h2 : s.l.unread = 0x5C :: d :: rest) (hs : stop ≠ 0x5C)
    (h0 : d ≠ 0) (hu : d ≠ 0x75) (hne : unescapeChar d ≠ 0) :
    parseQuoted cfg stop (fuel + 1) acc hi s =
      parseQuoted cfg stop fuel (unescapeChar d :: acc) hi (adv (adv s 0x5C (d :: rest)) d rest) := by
  have e1 : ((0x5C : Byte) == stop) = false := by simpa using (fun h => hs h.symm)
  have e2 : (d == 0) = false := by simpa using h0
  have e3 : (d == 0x75) = false := by simpa using hu
  have e4 : (unescapeChar d == 0) = false := by simpa using hne
  have hc : cur (adv s 0x5C (d :: rest)) = (d, ld (adv s 0x5C (d :: rest)) d rest) := cur_cons rfl rfl
  simp only [parseQuoted, cur_cons h1 h2, mv_ld, e1, hc, e2, e3, e4, Bool.false_eq_true, ↓reduceIte]
  rfl

theorem decodeHex_le_ne_zero {c : Byte} (h : decodeHex c ≤ 0x0F) : c ≠ 0 := by
  intro hc; subst hc
  have : decodeHex 0 = 208 := by decide
  omega

/-- one hexadecimal digit -/
theorem parseHex4_cons {n acc : Nat} {s : St} {c : Byte} {rest : List Byte}
    (h1 : s.l.loaded = false) (h2 : s.l.unread = c :: rest) (hv : decodeHex c ≤ 0x0F) :
    parseHex4 (n + 1) acc s = parseHex4 n ((acc * 16 + decodeHex c) % 65536) (adv s c rest) := by
  have e1 : (c == 0) = false := by simpa using decodeHex_le_ne_zero hv
  have e2 : ¬ decodeHex c > 0x0F := by omega
  simp only [parseHex4, cur_cons h1 h2, mv_ld, e1, e2, Bool.false_eq_true, ↓reduceIte]

/-- four hexadecimal digits: the 16-bit code unit -/
theorem parseHex4_four {s : St} {a b c d : Byte} {rest : List Byte}
    (h1 : s.l.loaded = false) (h2 : s.l.unread = a :: b :: c :: d :: rest)
    (ha : decodeHex a ≤ 0x0F) (hb : decodeHex b ≤ 0x0F) (hc : decodeHex c ≤ 0x0F) (hd : decodeHex d ≤ 0x0F) :
    parseHex4 4 0 s = (.ok, decodeHex a * 4096 + decodeHex b * 256 + decodeHex c * 16 + decodeHex d,
      adv (adv (adv (adv s a (b :: c :: d :: rest)) b (c :: d :: rest)) c (d :: rest)) d rest) := by
  rw [parseHex4_cons h1 h2 ha, parseHex4_cons rfl rfl hb, parseHex4_cons rfl rfl hc, parseHex4_cons rfl rfl hd]
  simp only [parseHex4]
  congr 2
  omega

/-- `\uXXXX` with unicode decoding on: what happens after the four digits, by kind of code unit -/
theorem pq_u {cfg : Cfg} {stop : Byte} {fuel : Nat} {acc : List Byte} {hi : Nat} {s : St} {a b c d : Byte} {rest : List Byte}
    (h1 : s.l.loaded = false) (h2 : s.l.unread = 0x5C :: 0x75 :: a :: b :: c :: d :: rest) (hs : stop ≠ 0x5C)
    (hcfg : cfg.decodeUnicode = true)
    (ha : decodeHex a ≤ 0x0F) (hb : decodeHex b ≤ 0x0F) (hc : decodeHex c ≤ 0x0F) (hd : decodeHex d ≤ 0x0F) :
    ∃ s', At s' rest (s.l.pos + 6) s.found ∧
      parseQuoted cfg stop (fuel + 1) acc hi s =
        (let cu := decodeHex a * 4096 + decodeHex b * 256 + decodeHex c * 16 + decodeHex d
         if 0xD800 ≤ cu && cu < 0xDC00 then parseQuoted cfg stop fuel acc (cu % 1024) s'
         else if 0xDC00 ≤ cu && cu < 0xE000 then
           parseQuoted cfg stop fuel ((encodeCodepoint (0x10000 + (hi * 1024 + cu % 1024))).reverse ++ acc) hi s'
         else parseQuoted cfg stop fuel ((encodeCodepoint cu).reverse ++ acc) hi s') := by
  have e1 : ((0x5C : Byte) == stop) = false := by simpa using (fun h => hs h.symm)
  have hcur : cur (adv s 0x5C (0x75 :: a :: b :: c :: d :: rest)) =
      (0x75, ld (adv s 0x5C (0x75 :: a :: b :: c :: d :: rest)) 0x75 (a :: b :: c :: d :: rest)) := cur_cons rfl rfl
  have hx := parseHex4_four (s := adv (adv s 0x5C (0x75 :: a :: b :: c :: d :: rest)) 0x75 (a :: b :: c :: d :: rest))
    (rest := rest) rfl rfl ha hb hc hd
  refine ⟨adv (adv (adv (adv (adv (adv s 0x5C (0x75 :: a :: b :: c :: d :: rest)) 0x75 (a :: b :: c :: d :: rest)) a
      (b :: c :: d :: rest)) b (c :: d :: rest)) c (d :: rest)) d rest, ⟨rfl, rfl, by simp, by simp⟩, ?_⟩
  have l1 : ((0x5C : Byte) == 0) = false := by decide
  have l2 : ((0x75 : Byte) == 0) = false := by decide
  simp only [parseQuoted, cur_cons h1 h2, mv_ld, e1, hcur, hcfg, hx, l1, l2, beq_self_eq_true, Bool.false_eq_true, ↓reduceIte]

/-- the closing quote, on a summarised state -/
theorem pq_close {cfg : Cfg} {stop : Byte} {fuel : Nat} {acc : List Byte} {hi : Nat} {s : St} {rest : List Byte}
    {p : Nat} {f : Bool} (h : At s (stop :: rest) p f) (hl : acc.length ≤ cfg.maxStrLen) :
    ∃ s', At s' rest (p + 1) f ∧ parseQuoted cfg stop (fuel + 1) acc hi s = (.ok, acc.reverse, s') := by
  refine ⟨adv s stop rest, h.adv, ?_⟩
  rw [pq_stop h.1 h.2.1]
  have : ¬ acc.length > cfg.maxStrLen := by omega
  simp only [this, ↓reduceIte]

/-- a byte that the string parser copies verbatim -/
def Plain (stop c : Byte) : Prop := c ≠ stop ∧ c ≠ 0 ∧ c ≠ 0x5C

instance (stop c : Byte) : Decidable (Plain stop c) := by unfold Plain; infer_instance

/-- plain bytes are appended one by one: one round of the loop each, wherever they are in the string -/
theorem parseQuoted_plain_prefix {cfg : Cfg} {stop : Byte} (pre : List Byte) (hp : ∀ c ∈ pre, Plain stop c) :
    ∀ (fuel : Nat) (acc : List Byte) (hi : Nat) (s : St) (tail : List Byte) (p : Nat) (f : Bool),
      At s (pre ++ tail) p f →
      ∃ s', At s' tail (p + pre.length) f ∧
        parseQuoted cfg stop (pre.length + fuel) acc hi s = parseQuoted cfg stop fuel (pre.reverse ++ acc) hi s' := by
  induction pre with
  | nil => intro fuel acc hi s tail p f h; exact ⟨s, by simpa using h, by simp⟩
  | cons c cs ih =>
    intro fuel acc hi s tail p f h
    have hc := hp c (by simp)
    have h' : At s (c :: (cs ++ tail)) p f := by simpa using h
    obtain ⟨s', hs', he⟩ := ih (fun x hx => hp x (by simp [hx])) fuel (c :: acc) hi _ tail _ f h'.adv
    refine ⟨s', ?_, ?_⟩
    · have : p + 1 + cs.length = p + (c :: cs).length := by simp; omega
      rw [← this]; exact hs'
    · have : (c :: cs).length + fuel = (cs.length + fuel) + 1 := by simp; omega
      rw [this, pq_plain h'.1 h'.2.1 hc.1 hc.2.1 hc.2.2, he]
      simp

/-! ### what `writeChar` emits is read back as the source byte -/

theorem escape_facts (c : Byte) (h : JSer.escapeChar c ≠ 0) :
    unescapeChar (JSer.escapeChar c) = c ∧ JSer.escapeChar c ≠ 0x75 ∧ c ≠ 0 := by
  have key : ∀ c : UInt8, (JSer.escapeChar c == 0 ||
      (unescapeChar (JSer.escapeChar c) == c && JSer.escapeChar c != 0x75 && c != 0)) = true := by
    apply Bits.all_bytes; decide +kernel
  have := key c
  simp only [Bool.or_eq_true, Bool.and_eq_true, beq_iff_eq, bne_iff_ne] at this
  rcases this with h0 | ⟨⟨h1, h2⟩, h3⟩
  · exact absurd h0 h
  · exact ⟨h1, h2, h3⟩

theorem noescape_facts (c : Byte) (h : JSer.escapeChar c = 0) : c ≠ 0x22 ∧ c ≠ 0x5C := by
  have key : ∀ c : UInt8, (JSer.escapeChar c != 0 || (c != 0x22 && c != 0x5C)) = true := by
    apply Bits.all_bytes; decide +kernel
  have := key c
  simp only [Bool.or_eq_true, Bool.and_eq_true, bne_iff_ne] at this
  rcases this with h0 | h1
  · exact absurd h h0
  · exact h1

/-- one source byte: whatever `writeChar c` emits costs one round of `parseQuoted` and yields `c` -/
theorem pq_writeChar {cfg : Cfg} (hcfg : cfg.decodeUnicode = true) (c : Byte) (fuel : Nat) (acc : List Byte) (hi : Nat)
    (s : St) (tail : List Byte) (p : Nat) (f : Bool) (h : At s (JSer.writeChar c ++ tail) p f) :
    ∃ s', At s' tail (p + (JSer.writeChar c).length) f ∧
      parseQuoted cfg 0x22 (fuel + 1) acc hi s = parseQuoted cfg 0x22 fuel (c :: acc) hi s' := by
  by_cases he : JSer.escapeChar c = 0
  · by_cases h0 : c = 0
    · subst h0
      have hw : JSer.writeChar 0 = [0x5C, 0x75, 0x30, 0x30, 0x30, 0x30] := by decide
      rw [hw] at h ⊢
      have d0 : decodeHex 0x30 = 0 := by decide
      obtain ⟨s', hs', heq⟩ := pq_u (cfg := cfg) (stop := 0x22) (fuel := fuel) (acc := acc) (hi := hi)
        (rest := tail) h.1 (by simpa using h.2.1) (by decide) hcfg
        (by rw [d0]; decide) (by rw [d0]; decide) (by rw [d0]; decide) (by rw [d0]; decide)
      refine ⟨s', ?_, ?_⟩
      · rw [h.2.2.1, h.2.2.2] at hs'; simpa using hs'
      · rw [heq, d0]
        have : encodeCodepoint 0 = [0] := by decide
        simp [this]
    · have hw : JSer.writeChar c = [c] := by
        simp only [JSer.writeChar, he, bne_self_eq_false, Bool.false_eq_true, ↓reduceIte, bne_iff_ne, ne_eq, h0,
          not_false_eq_true]
      rw [hw] at h ⊢
      obtain ⟨n1, n2⟩ := noescape_facts c he
      have h' : At s (c :: tail) p f := by simpa using h
      exact ⟨adv s c tail, by simpa using h'.adv, pq_plain h'.1 h'.2.1 n1 h0 n2⟩
  · obtain ⟨f1, f2, f3⟩ := escape_facts c he
    have hw : JSer.writeChar c = [0x5C, JSer.escapeChar c] := by
      simp only [JSer.writeChar, bne_iff_ne, ne_eq, he, not_false_eq_true, ↓reduceIte]
    rw [hw] at h ⊢
    have h' : At s (0x5C :: JSer.escapeChar c :: tail) p f := by simpa using h
    refine ⟨adv (adv s 0x5C (JSer.escapeChar c :: tail)) (JSer.escapeChar c) tail, ?_, ?_⟩
    · simpa using h'.adv.adv
    · rw [pq_esc h'.1 h'.2.1 (by decide) he f2 (by rw [f1]; exact f3), f1]

/-! ### The body of a JSON string as specified by RFC 8259 section 7, at byte level

`Body stop t v`: the text `t` (without the delimiters) is a well-formed string body and denotes the bytes `v`.
For `stop = 0x22` this is the grammar of the RFC (`unescaped = %x20-21 / %x23-5B / %x5D-10FFFF` read on UTF-8
bytes; the eight two-character escapes; `\uXXXX` with hex digits in either case, surrogates only in pairs).
`stop = 0x27` is the single-quote dialect of the library. -/

/-- the two-character escapes of RFC 8259: (letter after the backslash, denoted byte) -/
def rfcEscapes : List (Byte × Byte) :=
  [(0x22, 0x22), (0x5C, 0x5C), (0x2F, 0x2F), (0x62, 0x08), (0x66, 0x0C), (0x6E, 0x0A), (0x72, 0x0D), (0x74, 0x09)]

inductive Body (stop : Byte) : List Byte → List Byte → Prop
  | nil : Body stop [] []
  | plain (c : Byte) (t v : List Byte) : 0x20 ≤ c → c ≠ stop → c ≠ 0x5C → Body stop t v → Body stop (c :: t) (c :: v)
  | esc (l x : Byte) (t v : List Byte) : (l, x) ∈ rfcEscapes → Body stop t v → Body stop (0x5C :: l :: t) (x :: v)
  | bmp (h1 h2 h3 h4 : Byte) (d1 d2 d3 d4 : Nat) (t v : List Byte) :
      Spec.hexVal h1 = some d1 → Spec.hexVal h2 = some d2 → Spec.hexVal h3 = some d3 → Spec.hexVal h4 = some d4 →
      Spec.isSurrogate (d1 * 4096 + d2 * 256 + d3 * 16 + d4) = false → Body stop t v →
      Body stop (0x5C :: 0x75 :: h1 :: h2 :: h3 :: h4 :: t) (Spec.utf8 (d1 * 4096 + d2 * 256 + d3 * 16 + d4) ++ v)
  | pair (a1 a2 a3 a4 b1 b2 b3 b4 : Byte) (x1 x2 x3 x4 y1 y2 y3 y4 hiu lou : Nat) (t v : List Byte) :
      Spec.hexVal a1 = some x1 → Spec.hexVal a2 = some x2 → Spec.hexVal a3 = some x3 → Spec.hexVal a4 = some x4 →
      Spec.hexVal b1 = some y1 → Spec.hexVal b2 = some y2 → Spec.hexVal b3 = some y3 → Spec.hexVal b4 = some y4 →
      hiu = x1 * 4096 + x2 * 256 + x3 * 16 + x4 → lou = y1 * 4096 + y2 * 256 + y3 * 16 + y4 →
      (0xD800 ≤ hiu ∧ hiu < 0xDC00) → (0xDC00 ≤ lou ∧ lou < 0xE000) → Body stop t v →
      Body stop (0x5C :: 0x75 :: a1 :: a2 :: a3 :: a4 :: 0x5C :: 0x75 :: b1 :: b2 :: b3 :: b4 :: t)
        (Spec.utf8 (Spec.pairValue hiu lou) ++ v)

theorem rfcEscapes_facts {l x : Byte} (h : (l, x) ∈ rfcEscapes) :
    l ≠ 0 ∧ l ≠ 0x75 ∧ unescapeChar l = x ∧ x ≠ 0 := by
  have key : rfcEscapes.all (fun p => p.1 != 0 && p.1 != 0x75 && unescapeChar p.1 == p.2 && p.2 != 0) = true := by
    decide +kernel
  have := List.all_eq_true.mp key (l, x) h
  simp only [Bool.and_eq_true, bne_iff_ne, beq_iff_eq] at this
  exact ⟨this.1.1.1, this.1.1.2, this.1.2, this.2⟩

theorem ne_zero_of_ge_space {c : Byte} (h : 0x20 ≤ c) : c ≠ 0 := by
  intro hc; subst hc; exact absurd h (by decide)

/-- `skipSpaces` in front of a byte that starts a token -/
theorem skipSpaces_token {cfg : Cfg} {n : Nat} {s : St} {c : Byte} {rest : List Byte}
    (h1 : s.l.loaded = false) (h2 : s.l.unread = c :: rest) (h0 : c ≠ 0) (hw : isWs c = false) (hc : c ≠ 0x2F) :
    skipSpaces cfg (n + 1) s = (.ok, setFound (ld s c rest)) := by
  have e0 : (c == 0) = false := by simpa using h0
  have e1 : (c == 0x2F) = false := by simpa using hc
  simp only [skipSpaces, cur_cons h1 h2, e0, hw, e1, Bool.and_false, Bool.false_eq_true, ↓reduceIte]
  rfl

/-! ### further helpers for the property theorems of C17 / C01 (strings) -/

/-- every source byte becomes at least one output byte -/
theorem writeChar_length_pos (c : UInt8) : 1 ≤ (JSer.writeChar c).length := by
  have key : ∀ c : UInt8, decide (1 ≤ (JSer.writeChar c).length) = true := by
    apply Bits.all_bytes; decide +kernel
  exact of_decide_eq_true (key c)

theorem length_le_escaped (s : List UInt8) : s.length ≤ (s.flatMap JSer.writeChar).length := by
  induction s with
  | nil => simp
  | cons c cs ih =>
    have := writeChar_length_pos c
    simp only [List.flatMap_cons, List.length_append, List.length_cons]
    omega

/-- a value that starts with `"` is parsed by `parseQuoted` (no leading space, any nesting limit) -/
theorem parseVariant_quote {cfg : Cfg} {fuel limit : Nat} {s : St} {rest : List UInt8}
    (h1 : s.l.loaded = false) (h2 : s.l.unread = 0x22 :: rest) :
    parseVariant cfg (fuel + 1) limit s =
      (match parseQuoted cfg 0x22 (fuel + 1) [] 0 { adv s 0x22 rest with found := true } with
       | (.ok, str, s) => (.ok, .str str, s)
       | (e, _, s) => (e, .null, s)) := by
  have k0 : ((0x22 : UInt8) == 0) = false := by decide
  have k1 : isWs 0x22 = false := by decide
  have k2 : ((0x22 : UInt8) == 0x2F) = false := by decide
  have k3 : ((0x22 : UInt8) == 0x5B) = false := by decide
  have k4 : ((0x22 : UInt8) == 0x7B) = false := by decide
  have hc : cur { ld s 0x22 rest with found := true } = (0x22, { ld s 0x22 rest with found := true }) :=
    cur_loaded rfl
  simp only [parseVariant, skipSpaces, cur_cons h1 h2, k0, k1, k2, k3, k4, hc, Bool.and_false, Bool.false_eq_true,
    ↓reduceIte, beq_self_eq_true, Bool.true_or]
  rfl

/-- `{` followed by a token that is not `}`: the members loop starts on that token -/
theorem parseVariant_obj_open {cfg : Cfg} {fuel limit : Nat} {s : St} {c : UInt8} {rest : List UInt8}
    (h1 : s.l.loaded = false) (h2 : s.l.unread = 0x7B :: c :: rest)
    (h0 : c ≠ 0) (hw : isWs c = false) (hc : c ≠ 0x2F) (hd : c ≠ 0x7D) :
    parseVariant cfg (fuel + 1) (limit + 1) s =
      parseMembers cfg fuel limit (setFound (ld (setFound (adv s 0x7B (c :: rest))) c rest)) [] := by
  have k1 : ((0x7B : UInt8) == 0x5B) = false := by decide
  have e1 : (c == 0x7D) = false := by simpa using hd
  have s1 := skipSpaces_token (cfg := cfg) (n := fuel) h1 h2 (by decide) (by decide) (by decide)
  have s2 := skipSpaces_token (cfg := cfg) (n := fuel) (s := setFound (adv s 0x7B (c :: rest))) (c := c) (rest := rest)
    rfl rfl h0 hw hc
  simp only [parseVariant, s1, cur_setFound_ld, mv_setFound_ld, s2, k1, e1, beq_self_eq_true, Bool.false_eq_true,
    ↓reduceIte]

/-- one member `"key":value}` closing the object -/
theorem parseMembers_single {cfg : Cfg} {fuel limit : Nat} {s0 : St} {r0 : List UInt8}
    {ms : List (List UInt8 × Val)} {key : List UInt8} {q1 : St} {r1 : List UInt8} {v : Val} {q2 : St} {r2 : List UInt8}
    (hk : parseQuoted cfg 0x22 (fuel + 1) [] 0 (setFound (adv s0 0x22 r0)) = (.ok, key, q1))
    (h11 : q1.l.loaded = false) (h12 : q1.l.unread = 0x3A :: r1)
    (hv : parseVariant cfg fuel limit (setFound (adv q1 0x3A r1)) = (.ok, v, q2))
    (h21 : q2.l.loaded = false) (h22 : q2.l.unread = 0x7D :: r2) :
    parseMembers cfg (fuel + 1) limit (setFound (ld s0 0x22 r0)) ms =
      (.ok, .obj (setMember ms key v), setFound (adv q2 0x7D r2)) := by
  have s1 := skipSpaces_token (cfg := cfg) (n := fuel) h11 h12 (by decide) (by decide) (by decide)
  have s2 := skipSpaces_token (cfg := cfg) (n := fuel) h21 h22 (by decide) (by decide) (by decide)
  simp only [parseMembers, cur_setFound_ld, mv_setFound_ld, hk, s1, hv, s2, beq_self_eq_true, Bool.true_or,
    bne_self_eq_false, Bool.false_eq_true, ↓reduceIte]

theorem hexVal_le (c : UInt8) (v : Nat) (h : Spec.hexVal c = some v) : v ≤ 15 := by
  have key : ∀ c : UInt8, (match Spec.hexVal c with | some v => decide (v ≤ 15) | none => true) = true := by
    apply Bits.all_bytes; decide +kernel
  have := key c
  rw [h] at this
  simpa using this

/-- the tail of a string after some decoded escape: plain bytes, then the closing quote -/
theorem pq_plain_then_close {cfg : Cfg} {stop : UInt8} (post : List UInt8) (hpost : ∀ c ∈ post, Plain stop c)
    (k : Nat) (acc : List UInt8) (hi : Nat) (s : St) (rest : List UInt8) (p : Nat) (f : Bool)
    (h : At s (post ++ stop :: rest) p f) (hl : acc.length + post.length ≤ cfg.maxStrLen) :
    ∃ s', At s' rest (p + post.length + 1) f ∧
      parseQuoted cfg stop (post.length + (k + 1)) acc hi s = (.ok, acc.reverse ++ post, s') := by
  obtain ⟨s1, hs1, he1⟩ := parseQuoted_plain_prefix (cfg := cfg) post hpost (k + 1) acc hi s _ p f h
  obtain ⟨s2, hs2, he2⟩ := pq_close (cfg := cfg) (fuel := k) (acc := post.reverse ++ acc) (hi := hi) hs1
    (by simp; omega)
  exact ⟨s2, hs2, by rw [he1, he2]; simp⟩


end JD
