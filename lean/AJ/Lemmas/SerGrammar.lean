/- The grammar theorems of AJ/Lemmas/SerGrammarCore.lean stated with the predicates of the round-trip property C07
   (`RawFree`, `IntsInRange`, `StrsWithin`, `NoFloat`, `NoDupKeys`, `readBack`, `normInt`), and the agreement of `denote`
   with `C07.readBack` / `C07.normJ` / `C07.normInt`. Used by AJ/Props/C02.lean. -/
import AJ.Lemmas.SerGrammarCore
import AJ.Lemmas.JsonRoundTrip
import AJ.Lemmas.FloatText
namespace SerG
open JD JS JSer Spec.Json

theorem numVal_of_parse (cfg : Cfg) {lit : List Byte} (h : NumLit lit) : numVal cfg lit = C07.numValue cfg lit := by
  rw [numVal_eq cfg h]
  unfold C07.numValue
  cases parseNumber cfg lit <;> rfl

/-! ## the hypotheses, with the predicates of C07 -/

def PrintableS : Val → Prop
  | .str s => Printable s
  | _ => True

/-- every string value and every key is free of bare control characters -/
def PrintableStrs (v : Val) : Prop := C07.AllV PrintableS Printable v

def FloatOkS (cfg : Cfg) : Val → Prop
  | .num n => NumFloatOk cfg n
  | _ => True
/-- every float is one that the configuration writes as JSON -/
def FloatsOk (cfg : Cfg) (v : Val) : Prop := C07.AllV (FloatOkS cfg) (fun _ => True) v

/-- the hypotheses on a scalar node / on a key, bundled -/
def OkS (cfg : Cfg) (v : Val) : Prop :=
  C07.RawFreeS v ∧ C07.IntOkS v ∧ C07.StrOkS cfg.maxStrLen v ∧ PrintableS v ∧ FloatOkS cfg v
def OkK (cfg : Cfg) (k : List Byte) : Prop := k.length ≤ cfg.maxStrLen ∧ Printable k

open C07 in
mutual
theorem ok_of_allV (cfg : Cfg) : ∀ v, AllV (OkS cfg) (OkK cfg) v → Ok cfg v
  | .arr xs => by simp only [AllV, Ok]; exact okE_of_allE cfg xs
  | .obj ms => by simp only [AllV, Ok]; exact okM_of_allM cfg ms
  | .num n => by
    simp only [AllV, Ok]; intro h
    refine ⟨?_, h.2.2.2.2⟩
    have := h.2.1
    cases n <;> first | exact this | trivial
  | .str s => by simp only [AllV, Ok]; intro h; exact ⟨h.2.2.1, h.2.2.2.1⟩
  | .raw s => by simp only [AllV, Ok]; intro h; exact h.1
  | .null => by simp only [Ok]; intro _; trivial
  | .bool _ => by simp only [Ok]; intro _; trivial
theorem okE_of_allE (cfg : Cfg) : ∀ xs, AllE (OkS cfg) (OkK cfg) xs → OkE cfg xs
  | [] => by simp only [OkE]; intro _; trivial
  | x :: r => by simp only [AllE, OkE]; intro h; exact ⟨ok_of_allV cfg x h.1, okE_of_allE cfg r h.2⟩
theorem okM_of_allM (cfg : Cfg) : ∀ ms, AllM (OkS cfg) (OkK cfg) ms → OkM cfg ms
  | [] => by simp only [OkM]; intro _; trivial
  | (k, v) :: r => by
    simp only [AllM, OkM]; intro h; exact ⟨h.1, ok_of_allV cfg v h.2.1, okM_of_allM cfg r h.2.2⟩
end

theorem ok_of (cfg : Cfg) (v : Val) (h1 : C07.RawFree v) (h2 : C07.IntsInRange v) (h3 : C07.StrsWithin cfg.maxStrLen v)
    (h4 : PrintableStrs v) (h5 : FloatsOk cfg v) : Ok cfg v := by
  have a := C07.AllV_and v (C07.AllV_and v (C07.AllV_and v (C07.AllV_and v h1 h2) h3) h4) h5
  exact ok_of_allV cfg v
    (C07.AllV_mono (fun v h => ⟨h.1.1.1.1, h.1.1.1.2, h.1.1.2, h.1.2, h.2⟩) (fun k h => ⟨h.1.1.2, h.1.2⟩) v a)

/-- with the `NaN`/`Infinity` options off every float is fine -/
theorem floatsOk_default (cfg : Cfg) (hnan : cfg.nan = false) (hinf : cfg.inf = false) (v : Val) (h : C07.RawFree v) :
    FloatsOk cfg v := by
  refine C07.AllV_mono (fun v _ => ?_) (fun _ _ => trivial) v h
  cases v with
  | num n => cases n <;> first | trivial | exact Or.inl ⟨hnan, hinf⟩
  | _ => trivial

/-! ## agreement with the definitions of the round-trip property (C07) -/

theorem lastWins_eq (ms : List (List Byte × Val)) : Spec.Json.lastWins ms = C07.lastWins ms := rfl

mutual
theorem depth_eq : ∀ v : Val, C07.depth v = Spec.Json.depth v
  | .arr xs => by simp only [C07.depth, depth, depthE_eq xs]
  | .obj ms => by simp only [C07.depth, depth, depthM_eq ms]
  | .null => by simp only [C07.depth, depth]
  | .bool _ => by simp only [C07.depth, depth]
  | .num _ => by simp only [C07.depth, depth]
  | .str _ => by simp only [C07.depth, depth]
  | .raw _ => by simp only [C07.depth, depth]
theorem depthE_eq : ∀ xs : List Val, C07.depthE xs = depthList xs
  | [] => by simp only [C07.depthE, depthList]
  | x :: r => by simp only [C07.depthE, depthList, depth_eq x, depthE_eq r]
theorem depthM_eq : ∀ ms : List (List Byte × Val), C07.depthM ms = depthMembers ms
  | [] => by simp only [C07.depthM, depthMembers]
  | (k, v) :: r => by simp only [C07.depthM, depthMembers, depth_eq v, depthM_eq r]
end

/-- a number literal starts with a minus sign or a digit -/
theorem numLit_ne_null {t : List Byte} (h : NumLit t) : t ≠ C07.nullText := by
  obtain ⟨_, sg, ip, f, e, hsg, hip, _, _, rfl⟩ := h
  obtain ⟨d, ipr, rfl, hd⟩ := intPart_digits hip
  have hc := (Digits.AllDigits_cons.mp hd).1
  rcases hsg with rfl | rfl
  · intro e
    have : d = 0x6E := by simpa [C07.nullText] using congrArg List.head? e
    subst this; exact absurd hc (by decide)
  · intro e
    have : (0x2D : Byte) = 0x6E := by simpa [C07.nullText] using congrArg List.head? e
    exact absurd this (by decide)

theorem denoteFloat_eq (cfg : Cfg) (n : Num) (w places : Nat) (hok : FloatOk cfg w)
    (hp : printNum cfg n = writeFloat cfg w places) (hpl : places ≤ 46) : denoteFloat cfg w places = C07.numBack cfg n := by
  unfold denoteFloat C07.numBack
  rw [hp]
  split
  · rename_i h
    rcases hok with ⟨hnan, hinf⟩ | ⟨f1, f2⟩
    · rw [writeFloat_nonfinite cfg w places hnan hinf h]
      simp only [C07.nullText, ↓reduceIte]
    · rw [f1, f2] at h; exact absurd h (by decide)
  · rename_i h
    have h1 : SF.isNaN SF.b64 w = false := by cases e : SF.isNaN SF.b64 w <;> simp_all
    have h2 : SF.isInf SF.b64 w = false := by cases e : SF.isInf SF.b64 w <;> simp_all
    have hl := numLit_writeFloat cfg w places hpl h1 h2
    rw [if_neg (numLit_ne_null hl), numVal_of_parse cfg hl]

theorem denoteNum_eq (cfg : Cfg) (n : Num) (hi : C07.IntOkS (.num n)) (hf : NumFloatOk cfg n) :
    denoteNum cfg n = C07.numBack cfg n := by
  cases n with
  | uint m =>
    rw [(C07.int_readable cfg (.uint m) ⟨trivial, trivial, hi, trivial⟩).2]; simp only [denoteNum, C07.normJ]
  | sint i =>
    rw [(C07.int_readable cfg (.sint i) ⟨trivial, trivial, hi, trivial⟩).2]; simp only [denoteNum, C07.normJ]
  | f32 b => exact denoteFloat_eq cfg _ _ 6 hf rfl (by decide)
  | f64 b => exact denoteFloat_eq cfg _ _ 9 hf rfl (by decide)

/-- integers in range and floats that the configuration writes as JSON -/
def NumS (cfg : Cfg) (v : Val) : Prop := C07.IntOkS v ∧ FloatOkS cfg v

open C07 hiding depth lastWins in
mutual
/-- `denote` is the `readBack` of the round-trip property C07 -/
theorem denote_eq_readBack' (cfg : Cfg) : ∀ v, AllV (NumS cfg) (fun _ => True) v → denote cfg v = readBack cfg v
  | .arr xs => by
    simp only [AllV, denote, readBack]; intro h; rw [denoteE_eq cfg xs h]
  | .obj ms => by
    simp only [AllV, denote, readBack]; intro h; rw [denoteM_eq cfg ms h, lastWins_eq]
  | .num n => by simp only [AllV, denote, readBack]; intro h; exact denoteNum_eq cfg n h.1 h.2
  | .null => by simp only [denote, readBack]; intro _; trivial
  | .bool _ => by simp only [denote, readBack]; intro _; trivial
  | .str _ => by simp only [denote, readBack]; intro _; trivial
  | .raw _ => by simp only [denote, readBack]; intro _; trivial
theorem denoteE_eq (cfg : Cfg) : ∀ xs, AllE (NumS cfg) (fun _ => True) xs → denoteE cfg xs = readBackE cfg xs
  | [] => fun _ => rfl
  | x :: r => by
    simp only [AllE, denoteE, readBackE]; intro h
    rw [denote_eq_readBack' cfg x h.1, denoteE_eq cfg r h.2]
theorem denoteM_eq (cfg : Cfg) : ∀ ms, AllM (NumS cfg) (fun _ => True) ms → denoteM cfg ms = readBackM cfg ms
  | [] => fun _ => rfl
  | (k, v) :: r => by
    simp only [AllM, denoteM, readBackM]; intro h
    rw [denote_eq_readBack' cfg v h.2.1, denoteM_eq cfg r h.2.2]
end

theorem denote_eq_readBack_of (cfg : Cfg) (v : Val) (h1 : C07.IntsInRange v) (h2 : FloatsOk cfg v) :
    denote cfg v = C07.readBack cfg v :=
  denote_eq_readBack' cfg v (C07.AllV_mono (fun _ h => h) (fun _ _ => trivial) v (C07.AllV_and v h1 h2))

theorem denote_eq_readBack (cfg : Cfg) (hnan : cfg.nan = false) (hinf : cfg.inf = false) (v : Val)
    (h0 : C07.RawFree v) (h : C07.IntsInRange v) : denote cfg v = C07.readBack cfg v :=
  denote_eq_readBack_of cfg v h (floatsOk_default cfg hnan hinf v h0)

/-! ## `denote` on documents without floats / without repeated keys -/

theorem denoteM_keys (cfg : Cfg) (ms : List (List Byte × Val)) : (denoteM cfg ms).map (·.1) = ms.map (·.1) := by
  induction ms with
  | nil => rfl
  | cons m r ih => obtain ⟨k, v⟩ := m; simp only [denoteM, List.map_cons, ih]

/-- an object whose keys are distinct denotes its members one for one, in order -/
theorem denote_obj_nodup (cfg : Cfg) (ms : List (List Byte × Val)) (h : (ms.map (·.1)).Nodup) :
    denote cfg (.obj ms) = .obj (denoteM cfg ms) := by
  simp only [denote]
  rw [lastWins_eq, C07.lastWins_nodup _ (by rw [denoteM_keys]; exact h)]

open C07 hiding depth lastWins in
mutual
theorem denote_eq_normJ (cfg : Cfg) : ∀ v, NoFloat v → denote cfg v = normJ v
  | .arr xs => by simp only [NoFloat, AllV, denote, normJ]; intro h; rw [denoteE_eq_norm cfg xs h]
  | .obj ms => by simp only [NoFloat, AllV, denote, normJ]; intro h; rw [denoteM_eq_norm cfg ms h, lastWins_eq]
  | .num (.sint _) => by simp only [denote, denoteNum, normJ]; intro _; trivial
  | .num (.uint _) => by simp only [denote, denoteNum, normJ]; intro _; trivial
  | .num (.f32 _) => by simp only [NoFloat, AllV, FloatFreeS]; intro h; exact absurd h id
  | .num (.f64 _) => by simp only [NoFloat, AllV, FloatFreeS]; intro h; exact absurd h id
  | .null => by simp only [denote, normJ]; intro _; trivial
  | .bool _ => by simp only [denote, normJ]; intro _; trivial
  | .str _ => by simp only [denote, normJ]; intro _; trivial
  | .raw _ => by simp only [denote, normJ]; intro _; trivial
theorem denoteE_eq_norm (cfg : Cfg) : ∀ xs, AllE FloatFreeS (fun _ => True) xs → denoteE cfg xs = normElems xs
  | [] => fun _ => rfl
  | x :: r => by
    simp only [AllE, denoteE, normElems]; intro h; rw [denote_eq_normJ cfg x h.1, denoteE_eq_norm cfg r h.2]
theorem denoteM_eq_norm (cfg : Cfg) : ∀ ms, AllM FloatFreeS (fun _ => True) ms → denoteM cfg ms = normMembers ms
  | [] => fun _ => rfl
  | (k, v) :: r => by
    simp only [AllM, denoteM, normMembers]; intro h; rw [denote_eq_normJ cfg v h.2.1, denoteM_eq_norm cfg r h.2.2]
end

/-- without floats and without repeated keys the denoted document is the document itself, up to the tag of
    non-negative signed integers -/
theorem denote_eq_normInt (cfg : Cfg) (v : Val) (h1 : C07.NoFloat v) (h2 : C07.NoDupKeys v) : denote cfg v = C07.normInt v := by
  rw [denote_eq_normJ cfg v h1, C07.normJ_eq_normInt v h2]

end SerG
