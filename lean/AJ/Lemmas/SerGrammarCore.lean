/- What `JSer.compact` / `JSer.pretty` write is a text of the RFC 8259 grammar (`Spec.Json.Value`), and it denotes
   the document: strings (`Body`), numbers (`NumLit`), then the mutual induction over values / elements / members.
   This file does not depend on AJ/Lemmas/JsonRoundTrip.lean nor on AJ/Lemmas/JsonComplete.lean (which cannot be imported
   together), so that it can be used on both sides: AJ/Lemmas/SerGrammar.lean + AJ/Props/C02.lean (with C07), and
   AJ/Props/C02Parse.lean (with C01). -/
import AJ.Spec.Json
import AJ.Lemmas.NumLit
import AJ.Lemmas.Digits
import AJ.Lemmas.Quoted
import AJ.Lemmas.Bits
import AJ.Lemmas.FloatLen
import AJ.Props.C12
namespace SerG
open JD JS JSer Spec.Json

/-! ## strings -/

/-- a byte that the serializer writes in a form the RFC allows: not a "bare" control character, i.e. not one of
    0x01..0x1F other than the five that have a two-character escape (NUL is written `\u0000`) -/
def PrintableByte (c : Byte) : Prop := c ≥ 0x20 ∨ c ∈ [0x08, 0x09, 0x0A, 0x0C, 0x0D] ∨ c = 0

instance (c : Byte) : Decidable (PrintableByte c) := by unfold PrintableByte; infer_instance

def Printable (s : List Byte) : Prop := ∀ c ∈ s, PrintableByte c

instance (s : List Byte) : Decidable (Printable s) := by unfold Printable; infer_instance

/-- what `writeChar` does, byte by byte (all 256 cases by evaluation) -/
theorem writeChar_cases (c : Byte) :
    (escapeChar c ≠ 0 ∧ writeChar c = [0x5C, escapeChar c] ∧ (escapeChar c, c) ∈ rfcEscapes) ∨
    (c = 0 ∧ writeChar c = [0x5C, 0x75, 0x30, 0x30, 0x30, 0x30]) ∨
    (escapeChar c = 0 ∧ c ≠ 0 ∧ writeChar c = [c] ∧ c ≠ 0x22 ∧ c ≠ 0x5C ∧ (PrintableByte c → 0x20 ≤ c)) := by
  have key : ∀ c : UInt8, decide (
      (escapeChar c ≠ 0 ∧ writeChar c = [0x5C, escapeChar c] ∧ (escapeChar c, c) ∈ rfcEscapes) ∨
      (c = 0 ∧ writeChar c = [0x5C, 0x75, 0x30, 0x30, 0x30, 0x30]) ∨
      (escapeChar c = 0 ∧ c ≠ 0 ∧ writeChar c = [c] ∧ c ≠ 0x22 ∧ c ≠ 0x5C ∧ (PrintableByte c → 0x20 ≤ c))) = true := by
    apply Bits.all_bytes; decide +kernel
  exact of_decide_eq_true (key c)

theorem utf8_zero : Spec.utf8 (0 * 4096 + 0 * 256 + 0 * 16 + 0) = [0] := by decide

/-- one source byte in front of a string body -/
theorem body_writeChar (c : Byte) (hp : PrintableByte c) {t v : List Byte} (h : Body 0x22 t v) :
    Body 0x22 (writeChar c ++ t) (c :: v) := by
  rcases writeChar_cases c with ⟨_, hw, hm⟩ | ⟨rfl, hw⟩ | ⟨_, _, hw, n1, n2, hge⟩
  · rw [hw]; exact Body.esc _ _ t v hm h
  · rw [hw]
    have := Body.bmp (stop := 0x22) 0x30 0x30 0x30 0x30 0 0 0 0 t v (by decide) (by decide) (by decide) (by decide)
      (by decide) h
    rw [utf8_zero] at this
    exact this
  · rw [hw]; exact Body.plain c t v (hge hp) n1 n2 h

/-- the text between the quotes is an RFC string body that denotes exactly the source bytes -/
theorem body_escaped (s : List Byte) (hp : Printable s) : Body 0x22 (s.flatMap writeChar) s := by
  induction s with
  | nil => exact Body.nil
  | cons c cs ih =>
    rw [List.flatMap_cons]
    exact body_writeChar c (hp c (by simp)) (ih (fun x hx => hp x (by simp [hx])))

/-- no string body starts with a control character -/
theorem body_no_control {c : Byte} (hc : c < 0x20) (t v : List Byte) : ¬ Body 0x22 (c :: t) v := by
  intro h
  cases h with
  | plain _ _ _ hge => exact absurd hge (by simpa [UInt8.not_le] using hc)
  | esc => exact absurd hc (by decide)
  | bmp => exact absurd hc (by decide)
  | pair => exact absurd hc (by decide)

/-- a bare control character is copied as it is -/
theorem writeChar_control {c : Byte} (h1 : 0x01 ≤ c) (h2 : c ≤ 0x1F) (h3 : c ∉ [0x08, 0x09, 0x0A, 0x0C, 0x0D]) :
    writeChar c = [c] := by
  have key : ∀ c : UInt8, decide (0x01 ≤ c → c ≤ 0x1F → c ∉ [0x08, 0x09, 0x0A, 0x0C, 0x0D] → writeChar c = [c]) = true := by
    apply Bits.all_bytes; decide +kernel
  exact of_decide_eq_true (key c) h1 h2 h3

theorem not_printable_iff (c : Byte) :
    ¬ PrintableByte c ↔ (0x01 ≤ c ∧ c ≤ 0x1F ∧ c ∉ [0x08, 0x09, 0x0A, 0x0C, 0x0D]) := by
  have key : ∀ c : UInt8, decide (¬ PrintableByte c ↔ (0x01 ≤ c ∧ c ≤ 0x1F ∧ c ∉ [0x08, 0x09, 0x0A, 0x0C, 0x0D])) = true := by
    apply Bits.all_bytes; decide +kernel
  exact of_decide_eq_true (key c)

/-- inversion: a body that starts with what `writeChar c` wrote continues with a body -/
theorem body_writeChar_inv (c : Byte) {t v : List Byte} (h : Body 0x22 (writeChar c ++ t) v) :
    PrintableByte c ∧ ∃ v', Body 0x22 t v' := by
  rcases writeChar_cases c with ⟨hne, hw, hm⟩ | ⟨rfl, hw⟩ | ⟨_, h0, hw, n1, n2, _⟩
  · have f := escape_facts c hne
    rw [hw] at h
    refine ⟨?_, ?_⟩
    · have key : ∀ c : UInt8, decide (escapeChar c ≠ 0 → PrintableByte c) = true := by
        apply Bits.all_bytes; decide +kernel
      exact of_decide_eq_true (key c) hne
    · generalize he : escapeChar c = e at h f
      cases h with
      | plain _ _ _ _ _ hb => exact absurd rfl hb
      | esc _ _ _ v' _ hb => exact ⟨v', hb⟩
      | bmp => exact absurd rfl f.2.1
      | pair => exact absurd rfl f.2.1
  · refine ⟨Or.inr (Or.inr rfl), ?_⟩
    rw [hw] at h
    cases h with
    | plain _ _ _ _ _ hb => exact absurd rfl hb
    | esc _ _ _ _ hm => exact absurd rfl (rfcEscapes_facts hm).2.1
    | bmp _ _ _ _ _ _ _ _ _ v' _ _ _ _ _ hb => exact ⟨v', hb⟩
    | pair _ _ _ _ _ _ _ _ x1 x2 x3 x4 _ _ _ _ hiu _ _ _ a1 a2 a3 a4 _ _ _ _ ehi _ hr =>
      have e0 : Spec.hexVal 0x30 = some 0 := by decide
      rw [e0] at a1 a2 a3 a4
      cases a1; cases a2; cases a3; cases a4
      omega
  · rw [hw] at h
    have h' : Body 0x22 (c :: t) v := h
    refine ⟨?_, ?_⟩
    · apply Classical.byContradiction
      intro hnp
      have := (not_printable_iff c).mp hnp
      exact body_no_control (c := c) (by
        have : c ≤ 0x1F := this.2.1
        exact UInt8.lt_iff_toNat_lt.mpr (by have := UInt8.le_iff_toNat_le.mp this; simpa using Nat.lt_succ_of_le this)) t v h'
    · cases h' with
      | plain _ _ v' _ _ _ hb => exact ⟨v', hb⟩
      | esc => exact absurd rfl n2
      | bmp => exact absurd rfl n2
      | pair => exact absurd rfl n2

/-- **exactly** the strings without bare control characters are written as RFC string bodies -/
theorem body_escaped_iff (s : List Byte) : (∃ v, Body 0x22 (s.flatMap writeChar) v) ↔ Printable s := by
  constructor
  · induction s with
    | nil => intro _ c hc; cases hc
    | cons c cs ih =>
      rintro ⟨v, h⟩
      rw [List.flatMap_cons] at h
      obtain ⟨hp, v', hb⟩ := body_writeChar_inv c h
      intro x hx
      rcases List.mem_cons.mp hx with rfl | hx
      · exact hp
      · exact ih ⟨v', hb⟩ x hx
  · intro h; exact ⟨s, body_escaped s h⟩

/-! ## numbers -/

theorem digits1_of {ds : List Byte} (h : Digits.AllDigits ds) (hne : ds ≠ []) : Digits1 ds := ⟨hne, h⟩

/-- the decimal digits of a natural number are an RFC `int`: `0`, or digits without a leading zero -/
theorem intPart_digits_nat (n : Nat) : IntPart (digits n) := by
  obtain ⟨h1, _, h3, h4⟩ := Digits.digits_spec n
  by_cases h0 : n = 0
  · subst h0; exact Or.inl (by decide)
  · exact Or.inr ⟨digits1_of h1 h3, h4 h0⟩

/-- an optional minus sign and the digits of a number of at most 62 digits: an RFC number literal -/
theorem numLit_signed_digits (neg : Bool) (n : Nat) (hl : (digits n).length ≤ 62) :
    NumLit ((if neg then [0x2D] else []) ++ digits n) := by
  refine ⟨?_, (if neg then [0x2D] else []), digits n, [], [], ?_, intPart_digits_nat n, Or.inl rfl, Or.inl rfl, by simp⟩
  · cases neg <;> simp <;> omega
  · cases neg <;> simp

theorem numLit_uint (cfg : Cfg) (n : Nat) (h : n < 2 ^ 64) : NumLit (printNum cfg (.uint n)) := by
  have := FloatLen.digits_length_le_20 n h
  have e := numLit_signed_digits false n (by omega)
  rw [C12.int_print_unsigned]
  simpa using e

theorem numLit_sint (cfg : Cfg) (i : Int) (h1 : -(2 ^ 64 : Int) < i) (h2 : i < 2 ^ 64) : NumLit (printNum cfg (.sint i)) := by
  have := FloatLen.digits_length_le_20 i.natAbs (by omega)
  have e := numLit_signed_digits (decide (i < 0)) i.natAbs (by omega)
  rw [C12.int_print_signed]
  by_cases hn : i < 0
  · simpa [hn] using e
  · simpa [hn] using e

theorem numVal_uint (cfg : Cfg) (n : Nat) (h : n < 2 ^ 64) : numVal cfg (printNum cfg (.uint n)) = .num (.uint n) := by
  rw [numVal_eq cfg (numLit_uint cfg n h), C12.int_roundtrip cfg n h]; rfl

theorem numVal_sint_neg (cfg : Cfg) (i : Int) (h1 : -(2 ^ 63 : Int) ≤ i) (h2 : i < 0) :
    numVal cfg (printNum cfg (.sint i)) = .num (.sint i) := by
  rw [numVal_eq cfg (numLit_sint cfg i (by omega) (by omega)), C12.int_roundtrip_signed cfg i h1 h2]; rfl

theorem numVal_sint_nonneg (cfg : Cfg) (i : Int) (h1 : 0 ≤ i) (h2 : i < 2 ^ 64) :
    numVal cfg (printNum cfg (.sint i)) = .num (.uint i.toNat) := by
  rw [numVal_eq cfg (numLit_sint cfg i (by omega) h2), C12.int_roundtrip_signed_nonneg cfg i h1 h2]; rfl

/-- **the text of a finite float is an RFC number literal**: the integral part is printed by `digits` (no leading
    zero), a decimal point is followed by `decimalPlaces > 0` digits, the exponent is `e`, an optional `-`, digits;
    at most `17 + places ≤ 63` bytes -/
theorem numLit_writeFloat (cfg : Cfg) (v places : Nat) (hpl : places ≤ 46)
    (h1 : SF.isNaN SF.b64 v = false) (h2 : SF.isInf SF.b64 v = false) : NumLit (writeFloat cfg v places) := by
  have hl := FloatLen.writeFloat_length_le cfg v places
  refine ⟨by omega, ?_⟩
  simp only [writeFloat, h1, h2, Bool.false_eq_true, ↓reduceIte]
  generalize decompose (if SF.lt SF.b64 v 0 = true then SF.absBits SF.b64 v else v) places = p
  refine ⟨_, digits p.integral, _, _, ?_, intPart_digits_nat _, ?_, ?_, rfl⟩
  · split
    · exact Or.inr rfl
    · exact Or.inl rfl
  · split
    · rename_i hp
      refine Or.inr ⟨padDigits p.decimal p.decimalPlaces, digits1_of (FloatLen.padDigits_allDigits _ _) ?_, rfl⟩
      intro e
      have := FloatLen.padDigits_length p.decimal p.decimalPlaces
      rw [e] at this
      simp at this
      omega
    · exact Or.inl rfl
  · split
    · refine Or.inr ⟨0x65, (if p.exponent < 0 then [0x2D] else []), digits p.exponent.natAbs, Or.inl rfl, ?_,
        digits1_of (Digits.digits_spec _).1 (Digits.digits_spec _).2.2.1, rfl⟩
      split
      · exact Or.inr (Or.inr rfl)
      · exact Or.inl rfl
    · exact Or.inl rfl

theorem kwNull : "null".toUTF8.toList = [0x6E, 0x75, 0x6C, 0x6C] := by decide +kernel
theorem kwTrue : "true".toUTF8.toList = [0x74, 0x72, 0x75, 0x65] := by decide +kernel
theorem kwFalse : "false".toUTF8.toList = [0x66, 0x61, 0x6C, 0x73, 0x65] := by decide +kernel

theorem writeFloat_nonfinite (cfg : Cfg) (v places : Nat) (hnan : cfg.nan = false) (hinf : cfg.inf = false)
    (h : (SF.isNaN SF.b64 v || SF.isInf SF.b64 v) = true) : writeFloat cfg v places = [0x6E, 0x75, 0x6C, 0x6C] := by
  cases h1 : SF.isNaN SF.b64 v
  · have h2 : SF.isInf SF.b64 v = true := by simpa [h1] using h
    simp only [writeFloat, h1, h2, hinf, Bool.false_eq_true, ↓reduceIte, kwNull]
  · simp only [writeFloat, h1, hnan, Bool.false_eq_true, ↓reduceIte, kwNull]

/-! ## the document that the text denotes -/

/-- a float node: `null` when not finite (default configuration), else the value of its own text as a number literal -/
def denoteFloat (cfg : Cfg) (w places : Nat) : Val :=
  if SF.isNaN SF.b64 w || SF.isInf SF.b64 w then .null else numVal cfg (writeFloat cfg w places)

/-- integers exactly (a non-negative signed integer is read as unsigned) -/
def denoteNum (cfg : Cfg) : Num → Val
  | .uint n => .num (.uint n)
  | .sint i => if 0 ≤ i then .num (.uint i.toNat) else .num (.sint i)
  | .f32 b => denoteFloat cfg (cvt SF.b32 SF.b64 b) 6
  | .f64 b => denoteFloat cfg b 9

mutual
/-- the document denoted by the serialized text: same structure and order, strings and keys identical, numbers as above,
    objects with `lastWins` applied to their members (the identity when keys are distinct) -/
def denote (cfg : Cfg) : Val → Val
  | .arr xs => .arr (denoteE cfg xs)
  | .obj ms => .obj (Spec.Json.lastWins (denoteM cfg ms))
  | .num n => denoteNum cfg n
  | .null => .null
  | .bool b => .bool b
  | .str s => .str s
  | .raw s => .raw s
def denoteE (cfg : Cfg) : List Val → List Val
  | [] => []
  | x :: r => denote cfg x :: denoteE cfg r
def denoteM (cfg : Cfg) : List (List Byte × Val) → List (List Byte × Val)
  | [] => []
  | (k, v) :: r => (k, denote cfg v) :: denoteM cfg r
end

/-- a float that the configuration writes as JSON: any float when the `NaN`/`Infinity` options are off (non-finite
    ones are then written `null`), a finite one otherwise -/
def FloatOk (cfg : Cfg) (w : Nat) : Prop :=
  (cfg.nan = false ∧ cfg.inf = false) ∨ (SF.isNaN SF.b64 w = false ∧ SF.isInf SF.b64 w = false)
def NumFloatOk (cfg : Cfg) : Num → Prop
  | .f64 b => FloatOk cfg b
  | .f32 b => FloatOk cfg (cvt SF.b32 SF.b64 b)
  | _ => True
/-- an integer node that fits 64 bits: unsigned below 2^64, signed in [-2^63, 2^64) -/
def IntOk : Num → Prop
  | .uint n => n < 2 ^ 64
  | .sint i => -(2 ^ 63 : Int) ≤ i ∧ i < 2 ^ 64
  | _ => True

mutual
/-- the hypotheses of the theorems, as one recursive predicate: no raw node; integers in range; floats that the
    configuration writes as JSON; strings and keys within `cfg.maxStrLen` and without bare control characters -/
def Ok (cfg : Cfg) : Val → Prop
  | .arr xs => OkE cfg xs
  | .obj ms => OkM cfg ms
  | .num n => IntOk n ∧ NumFloatOk cfg n
  | .str s => s.length ≤ cfg.maxStrLen ∧ Printable s
  | .raw _ => False
  | .null => True
  | .bool _ => True
def OkE (cfg : Cfg) : List Val → Prop
  | [] => True
  | x :: r => Ok cfg x ∧ OkE cfg r
def OkM (cfg : Cfg) : List (List Byte × Val) → Prop
  | [] => True
  | (k, v) :: r => (k.length ≤ cfg.maxStrLen ∧ Printable k) ∧ Ok cfg v ∧ OkM cfg r
end

/-- a number node: its text is a value of the grammar and denotes `denoteNum` -/
theorem value_num (cfg : Cfg) (L : Nat) (n : Num)
    (hi : IntOk n) (hf : NumFloatOk cfg n) : Value cfg L (printNum cfg n) (denoteNum cfg n) := by
  have fl : ∀ w places, places ≤ 46 → FloatOk cfg w → Value cfg L (writeFloat cfg w places) (denoteFloat cfg w places) := by
    intro w places hp hok
    unfold denoteFloat
    split
    · rename_i h
      rcases hok with ⟨hnan, hinf⟩ | ⟨f1, f2⟩
      · rw [writeFloat_nonfinite cfg w places hnan hinf h]; exact Value.null L
      · rw [f1, f2] at h; exact absurd h (by decide)
    · rename_i h
      have h1 : SF.isNaN SF.b64 w = false := by cases e : SF.isNaN SF.b64 w <;> simp_all
      have h2 : SF.isInf SF.b64 w = false := by cases e : SF.isInf SF.b64 w <;> simp_all
      exact Value.num L _ (numLit_writeFloat cfg w places hp h1 h2)
  cases n with
  | uint m =>
    have hm : m < 2 ^ 64 := hi
    have := Value.num (cfg := cfg) L _ (numLit_uint cfg m hm)
    rw [numVal_uint cfg m hm] at this
    exact this
  | sint i =>
    have hr : -(2 ^ 63 : Int) ≤ i ∧ i < 2 ^ 64 := hi
    have := Value.num (cfg := cfg) L _ (numLit_sint cfg i (by omega) hr.2)
    simp only [denoteNum]
    split
    · rename_i h0; rw [numVal_sint_nonneg cfg i h0 hr.2] at this; exact this
    · rename_i h0; rw [numVal_sint_neg cfg i hr.1 (by omega)] at this; exact this
  | f32 b => exact fl _ 6 (by decide) hf
  | f64 b => exact fl _ 9 (by decide) hf

theorem value_str (cfg : Cfg) (L : Nat) (s : List Byte) (hp : Printable s) (hl : s.length ≤ cfg.maxStrLen) :
    Value cfg L (writeString s) (.str s) := Value.str L _ s (body_escaped s hp) hl

theorem ws_nil : Ws [] := by intro c hc; cases hc

/-! ## `serializeJson`: the compact text -/

mutual
theorem compact_value (cfg : Cfg) :
    ∀ (v : Val) (L : Nat), Ok cfg v → depth v ≤ L → Value cfg L (compact cfg v) (denote cfg v)
  | .arr [], L, _, hd => by
    simp only [depth] at hd
    obtain ⟨L', rfl⟩ : ∃ L', L = L' + 1 := ⟨L - 1, by omega⟩
    simp only [compact, compactElems, denote, denoteE]
    exact Value.arrEmpty L' [] ws_nil
  | .arr (x :: xs), L, h, hd => by
    simp only [depth] at hd
    obtain ⟨L', rfl⟩ : ∃ L', L = L' + 1 := ⟨L - 1, by omega⟩
    simp only [compact, denote]
    exact Value.arr L' _ _ (compact_elems cfg (x :: xs) L' (by simp) (by simpa only [Ok] using h) (by omega))
  | .obj [], L, _, hd => by
    simp only [depth] at hd
    obtain ⟨L', rfl⟩ : ∃ L', L = L' + 1 := ⟨L - 1, by omega⟩
    simp only [compact, compactMembers, denote, denoteM]
    exact Value.objEmpty L' [] ws_nil
  | .obj (m :: ms), L, h, hd => by
    simp only [depth] at hd
    obtain ⟨L', rfl⟩ : ∃ L', L = L' + 1 := ⟨L - 1, by omega⟩
    simp only [compact, denote]
    exact Value.obj L' _ _ (compact_members cfg (m :: ms) L' (by simp) (by simpa only [Ok] using h) (by omega))
  | .null, L, _, _ => by simp only [compact, denote, kwNull]; exact Value.null L
  | .bool true, L, _, _ => by simp only [compact, denote, kwTrue]; exact Value.true L
  | .bool false, L, _, _ => by simp only [compact, denote, kwFalse]; exact Value.false L
  | .num n, L, h, _ => by
    simp only [compact, denote]
    simp only [Ok] at h
    exact value_num cfg L n h.1 h.2
  | .str s, L, h, _ => by
    simp only [compact, denote]
    simp only [Ok] at h
    exact value_str cfg L s h.2 h.1
  | .raw s, L, h, _ => by
    simp only [Ok] at h
theorem compact_elems (cfg : Cfg) :
    ∀ (xs : List Val) (L : Nat), xs ≠ [] → OkE cfg xs → depthList xs ≤ L →
      Elements cfg L (compactElems cfg xs) (denoteE cfg xs)
  | [], _, hne, _, _ => absurd rfl hne
  | [x], L, _, h, hd => by
    simp only [OkE] at h
    simp only [depthList] at hd
    simp only [compactElems, denoteE]
    have := Elements.one L [] _ _ [] ws_nil (compact_value cfg x L h.1 (by omega)) ws_nil
    simpa using this
  | x :: y :: r, L, _, h, hd => by
    simp only [OkE] at h
    simp only [depthList] at hd
    simp only [compactElems, denoteE]
    have ih := compact_elems cfg (y :: r) L (by simp) (by simp only [OkE]; exact h.2) (by simp only [depthList]; omega)
    have := Elements.cons L [] _ _ [] _ _ ws_nil (compact_value cfg x L h.1 (by omega)) ws_nil ih
    simpa [denoteE] using this
theorem compact_members (cfg : Cfg) :
    ∀ (ms : List (List Byte × Val)) (L : Nat), ms ≠ [] → OkM cfg ms → depthMembers ms ≤ L →
      Members cfg L (compactMembers cfg ms) (denoteM cfg ms)
  | [], _, hne, _, _ => absurd rfl hne
  | [(k, v)], L, _, h, hd => by
    simp only [OkM] at h
    simp only [depthMembers] at hd
    simp only [compactMembers, denoteM, writeString]
    have := Members.one L [] _ k [] [] _ _ [] ws_nil (body_escaped k h.1.2) h.1.1 ws_nil ws_nil
      (compact_value cfg v L h.2.1 (by omega)) ws_nil
    simpa using this
  | (k, v) :: (k2, v2) :: r, L, _, h, hd => by
    simp only [OkM] at h
    simp only [depthMembers] at hd
    simp only [compactMembers, denoteM, writeString]
    have ih := compact_members cfg ((k2, v2) :: r) L (by simp) (by simp only [OkM]; exact h.2.2)
      (by simp only [depthMembers]; omega)
    have := Members.cons L [] _ k [] [] _ _ [] _ _ ws_nil (body_escaped k h.1.2) h.1.1 ws_nil ws_nil
      (compact_value cfg v L h.2.1 (by omega)) ws_nil ih
    simpa [denoteM] using this
end

/-! ## `serializeJsonPretty`: line ends and indentation are insignificant whitespace -/

theorem ws_append {a b : List Byte} (ha : Ws a) (hb : Ws b) : Ws (a ++ b) := by
  intro c hc
  rcases List.mem_append.mp hc with h | h
  · exact ha c h
  · exact hb c h

theorem ws_crlf : Ws crlf := by
  intro c hc
  simp only [crlf, List.mem_cons, List.not_mem_nil, or_false] at hc
  rcases hc with rfl | rfl
  · exact Or.inr (Or.inr (Or.inr rfl))
  · exact Or.inr (Or.inr (Or.inl rfl))

/-- whatever the (8-bit, wrapping) nesting counter is, the indentation consists of spaces -/
theorem ws_indent (n : Nat) : Ws (indent n) := by
  intro c hc
  simp only [indent, List.mem_flatten, List.mem_replicate] at hc
  obtain ⟨l, ⟨_, rfl⟩, hc⟩ := hc
  simp only [tab, List.mem_cons, List.not_mem_nil, or_false, or_self] at hc
  exact Or.inl hc

theorem ws_space : Ws [0x20] := by
  intro c hc
  simp only [List.mem_cons, List.not_mem_nil, or_false] at hc
  exact Or.inl hc

mutual
theorem pretty_value (cfg : Cfg) :
    ∀ (v : Val) (n L : Nat), Ok cfg v → depth v ≤ L → Value cfg L (pretty cfg n v) (denote cfg v)
  | .arr [], n, L, _, hd => by
    simp only [depth] at hd
    obtain ⟨L', rfl⟩ : ∃ L', L = L' + 1 := ⟨L - 1, by omega⟩
    simp only [pretty, denote, denoteE]
    exact Value.arrEmpty L' [] ws_nil
  | .arr (x :: xs), n, L, h, hd => by
    simp only [depth] at hd
    obtain ⟨L', rfl⟩ : ∃ L', L = L' + 1 := ⟨L - 1, by omega⟩
    simp only [pretty, denote]
    have := Value.arr L' _ _ (pretty_elems cfg (x :: xs) (n + 1) L' crlf (indent n) (by simp) ws_crlf
      (ws_indent n) (by simpa only [Ok] using h) (by omega))
    simpa [List.append_assoc] using this
  | .obj [], n, L, _, hd => by
    simp only [depth] at hd
    obtain ⟨L', rfl⟩ : ∃ L', L = L' + 1 := ⟨L - 1, by omega⟩
    simp only [pretty, denote, denoteM]
    exact Value.objEmpty L' [] ws_nil
  | .obj (m :: ms), n, L, h, hd => by
    simp only [depth] at hd
    obtain ⟨L', rfl⟩ : ∃ L', L = L' + 1 := ⟨L - 1, by omega⟩
    simp only [pretty, denote]
    have := Value.obj L' _ _ (pretty_members cfg (m :: ms) (n + 1) L' crlf (indent n) (by simp) ws_crlf
      (ws_indent n) (by simpa only [Ok] using h) (by omega))
    simpa [List.append_assoc] using this
  | .null, n, L, _, _ => by simp only [pretty, denote, kwNull]; exact Value.null L
  | .bool true, n, L, _, _ => by simp only [pretty, denote, kwTrue]; exact Value.true L
  | .bool false, n, L, _, _ => by simp only [pretty, denote, kwFalse]; exact Value.false L
  | .num x, n, L, h, _ => by
    simp only [pretty, denote]
    simp only [Ok] at h
    exact value_num cfg L x h.1 h.2
  | .str s, n, L, h, _ => by
    simp only [pretty, denote]
    simp only [Ok] at h
    exact value_str cfg L s h.2 h.1
  | .raw s, n, L, h, _ => by
    simp only [Ok] at h
theorem pretty_elems (cfg : Cfg) :
    ∀ (xs : List Val) (n L : Nat) (w1 w2 : List Byte), xs ≠ [] → Ws w1 → Ws w2 → OkE cfg xs →
      depthList xs ≤ L → Elements cfg L (w1 ++ prettyElems cfg n xs ++ w2) (denoteE cfg xs)
  | [], _, _, _, _, hne, _, _, _, _ => absurd rfl hne
  | [x], n, L, w1, w2, _, h1, h2, h, hd => by
    simp only [OkE] at h
    simp only [depthList] at hd
    simp only [prettyElems, denoteE]
    have := Elements.one L (w1 ++ indent n) _ _ (crlf ++ w2) (ws_append h1 (ws_indent n))
      (pretty_value cfg x n L h.1 (by omega)) (ws_append ws_crlf h2)
    simpa [List.append_assoc] using this
  | x :: y :: r, n, L, w1, w2, _, h1, h2, h, hd => by
    simp only [OkE] at h
    simp only [depthList] at hd
    simp only [prettyElems, denoteE]
    have ih := pretty_elems cfg (y :: r) n L crlf w2 (by simp) ws_crlf h2 (by simp only [OkE]; exact h.2)
      (by simp only [depthList]; omega)
    have := Elements.cons L (w1 ++ indent n) _ _ [] _ _ (ws_append h1 (ws_indent n))
      (pretty_value cfg x n L h.1 (by omega)) ws_nil ih
    simpa [denoteE, List.append_assoc] using this
theorem pretty_members (cfg : Cfg) :
    ∀ (ms : List (List Byte × Val)) (n L : Nat) (w1 w2 : List Byte), ms ≠ [] → Ws w1 → Ws w2 →
      OkM cfg ms → depthMembers ms ≤ L →
      Members cfg L (w1 ++ prettyMembers cfg n ms ++ w2) (denoteM cfg ms)
  | [], _, _, _, _, hne, _, _, _, _ => absurd rfl hne
  | [(k, v)], n, L, w1, w2, _, h1, h2, h, hd => by
    simp only [OkM] at h
    simp only [depthMembers] at hd
    simp only [prettyMembers, denoteM, writeString]
    have := Members.one L (w1 ++ indent n) _ k [] [0x20] _ _ (crlf ++ w2) (ws_append h1 (ws_indent n))
      (body_escaped k h.1.2) h.1.1 ws_nil ws_space (pretty_value cfg v n L h.2.1 (by omega))
      (ws_append ws_crlf h2)
    simpa [List.append_assoc] using this
  | (k, v) :: (k2, v2) :: r, n, L, w1, w2, _, h1, h2, h, hd => by
    simp only [OkM] at h
    simp only [depthMembers] at hd
    simp only [prettyMembers, denoteM, writeString]
    have ih := pretty_members cfg ((k2, v2) :: r) n L crlf w2 (by simp) ws_crlf h2
      (by simp only [OkM]; exact h.2.2) (by simp only [depthMembers]; omega)
    have := Members.cons L (w1 ++ indent n) _ k [] [0x20] _ _ [] _ _ (ws_append h1 (ws_indent n))
      (body_escaped k h.1.2) h.1.1 ws_nil ws_space (pretty_value cfg v n L h.2.1 (by omega)) ws_nil ih
    simpa [denoteM, List.append_assoc] using this
end
/-! ## the finding, at the level of values: a string with a bare control character is NOT written as JSON -/

theorem numLit_head {t : List Byte} (h : NumLit t) : ∃ c r, t = c :: r ∧ (c = 0x2D ∨ (0x30 ≤ c ∧ c ≤ 0x39)) := by
  obtain ⟨_, sg, ip, f, e, hsg, hip, _, _, rfl⟩ := h
  obtain ⟨d, ipr, rfl, hd⟩ := intPart_digits hip
  have hc := (Digits.AllDigits_cons.mp hd).1
  rcases hsg with rfl | rfl
  · exact ⟨d, ipr ++ (f ++ e), by simp, Or.inr hc⟩
  · exact ⟨0x2D, d :: (ipr ++ (f ++ e)), by simp, Or.inl rfl⟩

/-- a value of the grammar that starts with a quote is a string literal -/
theorem value_quote_inv {cfg : Cfg} {L : Nat} {T : List Byte} {d : Val} (h : Value cfg L T d) (t : List Byte)
    (hT : T = 0x22 :: t) : ∃ body s, t = body ++ [0x22] ∧ Body 0x22 body s ∧ d = .str s := by
  cases h with
  | null => cases hT
  | «true» => cases hT
  | «false» => cases hT
  | num _ _ hl =>
    obtain ⟨c, r, e, hc⟩ := numLit_head hl
    rw [e] at hT
    have : c = 0x22 := (List.cons.inj hT).1
    subst this
    rcases hc with hc | hc
    · exact absurd hc (by decide)
    · exact absurd hc (by decide)
  | str _ body s hb _ => exact ⟨body, s, by simpa using hT.symm, hb, rfl⟩
  | arrEmpty => simp at hT
  | arr => simp at hT
  | objEmpty => simp at hT
  | obj => simp at hT

/-- the text of a string node is a value of the grammar only if the string has no bare control character -/
theorem value_writeString_inv {cfg : Cfg} {L : Nat} {s : List Byte} {d : Val} (h : Value cfg L (writeString s) d) :
    Printable s := by
  obtain ⟨body, s', e, hb, _⟩ := value_quote_inv h (s.flatMap writeChar ++ [0x22]) (by simp [writeString])
  have : s.flatMap writeChar = body := List.append_cancel_right e
  exact (body_escaped_iff s).mp ⟨s', by rw [this]; exact hb⟩


end SerG
