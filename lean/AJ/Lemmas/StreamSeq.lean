/- Successive calls of a deserializer on one stream of bytes (property C16): the generic part.

   `C16.stream f k t`: at most `k` calls of `f`, each on the bytes the previous call left (`t.drop consumed`), recording
   (code, document) of every call, stopping after the first call that does not answer `Ok` and when nothing is left.
   It is the `streamLoop` of the driver (Main.lean) — the function the correspondence suite `stream` compares with the real
   library on counting readers, `std::istream` and block-buffered streams — minus the printing.

   Nothing here depends on the deserializer: `f` is any function `bytes → code × document × consumed`. -/
import AJ.Model.JD
import AJ.Lemmas.MpProjectEq
import AJ.Lemmas.MpPrefix
namespace C16
open JD

/-- at most `k` successive calls on one stream; the result of each call, in order -/
def stream (f : List Byte → Code × Val × Nat) : Nat → List Byte → List (Code × Val)
  | 0, _ => []
  | k + 1, t =>
    ((f t).1, (f t).2.1) ::
      (if (f t).1 = .ok then (if t.drop (f t).2.2 = [] then [] else stream f k (t.drop (f t).2.2)) else [])

/-- what the loop does after an `Ok` call: stop if nothing is left, else go on -/
def cont (f : List Byte → Code × Val × Nat) (k : Nat) (t : List Byte) : List (Code × Val) :=
  if t = [] then [] else stream f k t

theorem stream_zero (f : List Byte → Code × Val × Nat) (t : List Byte) : stream f 0 t = [] := rfl

theorem cont_zero (f : List Byte → Code × Val × Nat) (t : List Byte) : cont f 0 t = [] := by
  unfold cont; split <;> rfl

theorem cont_nil (f : List Byte → Code × Val × Nat) (k : Nat) : cont f k [] = [] := by
  unfold cont; rw [if_pos rfl]

theorem cont_of_ne (f : List Byte → Code × Val × Nat) (k : Nat) {t : List Byte} (h : t ≠ []) :
    cont f k t = stream f k t := by
  unfold cont; rw [if_neg h]

/-- a call that answers `Ok`: its document is recorded and the loop goes on with what the call left -/
theorem stream_ok (f : List Byte → Code × Val × Nat) (k : Nat) {t : List Byte} {v : Val} {n : Nat}
    (h : f t = (.ok, v, n)) : stream f (k + 1) t = (.ok, v) :: cont f k (t.drop n) := by
  simp only [stream, cont, h, ↓reduceIte]

/-- a call that does not answer `Ok` is the last one -/
theorem stream_stop (f : List Byte → Code × Val × Nat) (k : Nat) {t : List Byte} (h : (f t).1 ≠ .ok) :
    stream f (k + 1) t = [((f t).1, (f t).2.1)] := by
  simp only [stream, h, ↓reduceIte]

/-- fewer calls: a prefix of the results -/
theorem stream_take (f : List Byte → Code × Val × Nat) : ∀ (k j : Nat) (t : List Byte),
    stream f k t = (stream f (k + j) t).take k := by
  intro k
  induction k with
  | zero => intro j t; rfl
  | succ k ih =>
    intro j t
    have e : k + 1 + j = (k + j) + 1 := by omega
    rw [e]
    simp only [stream, List.take_succ_cons]
    congr 1
    by_cases h1 : (f t).1 = .ok
    · rw [if_pos h1, if_pos h1]
      by_cases h2 : t.drop (f t).2.2 = []
      · rw [if_pos h2, if_pos h2, List.take_nil]
      · rw [if_neg h2, if_neg h2]; exact ih j _
    · rw [if_neg h1, if_neg h1, List.take_nil]

theorem stream_length_le (f : List Byte → Code × Val × Nat) : ∀ (k : Nat) (t : List Byte), (stream f k t).length ≤ k := by
  intro k
  induction k with
  | zero => intro t; exact Nat.le_refl _
  | succ k ih =>
    intro t
    simp only [stream, List.length_cons]
    by_cases h1 : (f t).1 = .ok
    · rw [if_pos h1]
      by_cases h2 : t.drop (f t).2.2 = []
      · rw [if_pos h2]; simp
      · rw [if_neg h2]; have := ih (t.drop (f t).2.2); omega
    · rw [if_neg h1]; simp

/-- a segment that `f` accepts as exactly one document, whatever follows it -/
def Exact (f : List Byte → Code × Val × Nat) (e : List Byte) (v : Val) : Prop :=
  e ≠ [] ∧ ∀ rest, f (e ++ rest) = (.ok, v, e.length)

/-- **Back-to-back segments, generic.** If every segment is accepted as exactly one document whatever follows, the
    loop over the concatenation returns the documents one after the other and then goes on with `rest`. -/
theorem cont_exact (f : List Byte → Code × Val × Nat) (rest : List Byte) (j : Nat) :
    ∀ (segs : List (List Byte × Val)), (∀ s ∈ segs, Exact f s.1 s.2) →
      cont f (segs.length + j) ((segs.map (·.1)).flatten ++ rest) = segs.map (fun s => (Code.ok, s.2)) ++ cont f j rest := by
  intro segs
  induction segs with
  | nil => intro _; simp
  | cons s ss ih =>
    intro h
    obtain ⟨hne, hex⟩ := h s (List.mem_cons_self ..)
    have hcat : ((s :: ss).map (·.1)).flatten ++ rest = s.1 ++ ((ss.map (·.1)).flatten ++ rest) := by simp
    have hnz : s.1 ++ ((ss.map (·.1)).flatten ++ rest) ≠ [] := by
      intro h0; exact hne (List.append_eq_nil_iff.mp h0).1
    rw [hcat, cont_of_ne f _ hnz]
    have e : (s :: ss).length + j = (ss.length + j) + 1 := by simp only [List.length_cons]; omega
    rw [e, stream_ok f _ (hex _), List.drop_left, ih (fun x hx => h x (List.mem_cons_of_mem _ hx))]
    rfl

theorem stream_exact (f : List Byte → Code × Val × Nat) (rest : List Byte) (j : Nat)
    (segs : List (List Byte × Val)) (hne : segs ≠ []) (h : ∀ s ∈ segs, Exact f s.1 s.2) :
    stream f (segs.length + j) ((segs.map (·.1)).flatten ++ rest) = segs.map (fun s => (Code.ok, s.2)) ++ cont f j rest := by
  rw [← cont_exact f rest j segs h]
  refine (cont_of_ne f _ ?_).symm
  cases segs with
  | nil => exact absurd rfl hne
  | cons s ss =>
    intro h0
    have : s.1 = [] := by
      simp only [List.map_cons, List.flatten_cons, List.append_assoc, List.append_eq_nil_iff] at h0
      exact h0.1
    exact (h s (List.mem_cons_self ..)).1 this

/-- the same with nothing after the last segment, for any number `k` of calls: the first `k` documents -/
theorem stream_exact_take (f : List Byte → Code × Val × Nat) (segs : List (List Byte × Val)) (hne : segs ≠ [])
    (h : ∀ s ∈ segs, Exact f s.1 s.2) (k : Nat) :
    stream f k (segs.map (·.1)).flatten = (segs.map (fun s => (Code.ok, s.2))).take k := by
  have hall : ∀ j, stream f (segs.length + j) (segs.map (·.1)).flatten = segs.map (fun s => (Code.ok, s.2)) := by
    intro j
    have := stream_exact f [] j segs hne h
    rw [List.append_nil, cont_nil, List.append_nil] at this
    exact this
  by_cases hk : k ≤ segs.length
  · obtain ⟨j, hj⟩ : ∃ j, segs.length = k + j := ⟨segs.length - k, by omega⟩
    have h0 := hall 0
    rw [Nat.add_zero, hj] at h0
    rw [stream_take f k j, h0]
  · obtain ⟨j, rfl⟩ : ∃ j, k = segs.length + j := ⟨k - segs.length, by omega⟩
    rw [hall j, List.take_of_length_le (by simp)]

/-- the bytes left after `k` calls (each on what the previous one left) -/
def leftover (f : List Byte → Code × Val × Nat) : Nat → List Byte → List Byte
  | 0, t => t
  | k + 1, t => leftover f k (t.drop (f t).2.2)

theorem leftover_exact (f : List Byte → Code × Val × Nat) (rest : List Byte) :
    ∀ (segs : List (List Byte × Val)), (∀ s ∈ segs, Exact f s.1 s.2) →
      leftover f segs.length ((segs.map (·.1)).flatten ++ rest) = rest := by
  intro segs
  induction segs with
  | nil => intro _; rfl
  | cons s ss ih =>
    intro h
    obtain ⟨_, hex⟩ := h s (List.mem_cons_self ..)
    have hcat : ((s :: ss).map (·.1)).flatten ++ rest = s.1 ++ ((ss.map (·.1)).flatten ++ rest) := by simp
    rw [hcat]
    simp only [List.length_cons, leftover, hex, List.drop_left]
    exact ih (fun x hx => h x (List.mem_cons_of_mem _ hx))

/-! ## a boolean test for lists of results (for kernel-evaluated examples; `JD.Val` has no `DecidableEq`) -/

def resEqb : List (Code × Val) → List (Code × Val) → Bool
  | [], [] => true
  | (c, v) :: xs, (c', v') :: ys => decide (c = c') && Val.eqb v v' && resEqb xs ys
  | _, _ => false

theorem resEqb_sound : ∀ a b, resEqb a b = true → a = b
  | [], [], _ => rfl
  | [], _ :: _, h => by simp only [resEqb] at h; cases h
  | _ :: _, [], h => by simp only [resEqb] at h; cases h
  | (c, v) :: xs, (c', v') :: ys, h => by
    simp only [resEqb, Bool.and_eq_true, decide_eq_true_eq] at h
    rw [h.1.1, Val.eqb_sound v v' h.1.2, resEqb_sound xs ys h.2]

end C16

/-! ## MessagePack reader model: `IncompleteInput` is answered only when the reader is exhausted

Same cut of the model into pieces as AJ/Lemmas/MpPrefix.lean (`pvAfter`, `pvTail`, `roTail`, `roVal`). -/
namespace MD
open JD SF

/-- an `IncompleteInput` result leaves nothing unread -/
def Inc4 (y : Code × Val × R × Bool) : Prop := y.1 = .incomplete → y.2.2.1.unread = []
def Inc3 {α : Type} (y : Code × α × R) : Prop := y.1 = .incomplete → y.2.2.unread = []

theorem readBytes_none {r r' : R} {n : Nat} (h : r.readBytes n = (none, r')) : r'.unread = [] := by
  unfold R.readBytes at h
  split at h
  · cases h
  · simp only [Prod.mk.injEq, true_and] at h; rw [← h]

theorem skipBytes_false {r r' : R} {n : Nat} (h : r.skipBytes n = (false, r')) : r'.unread = [] := by
  unfold R.skipBytes at h
  split at h
  · cases h
  · simp only [Prod.mk.injEq, true_and] at h; rw [← h]

theorem read_none {r r' : R} (h : r.read = (none, r')) : r'.unread = [] := by
  unfold R.read at h
  split at h
  · rename_i hu; simp only [Prod.mk.injEq, true_and] at h; rw [← h]; exact hu
  · cases h

theorem rdLeaf_inc (g : List Byte → Val) (n : Nat) (r : R) : Inc4 (rdLeaf g n r) := by
  unfold rdLeaf
  cases hx : r.readBytes n with
  | mk o r' =>
    cases o with
    | none => exact fun _ => readBytes_none hx
    | some bs => intro h; cases h

theorem skLeaf_inc (n : Nat) (r : R) : Inc4 (skLeaf n r) := by
  unfold skLeaf
  cases hx : r.skipBytes n with
  | mk o r' =>
    cases o with
    | false => exact fun _ => skipBytes_false hx
    | true => intro h; cases h

theorem hdrOf_none (sb s2 : Nat) (r : R) (h : (hdrOf sb s2 r).1 = none) : (hdrOf sb s2 r).2.unread = [] := by
  unfold hdrOf at h ⊢
  by_cases hs : sb > 0
  · rw [if_pos hs] at h ⊢
    cases hx : r.readBytes sb with
    | mk o r' =>
      rw [hx] at h
      cases o with
      | none => exact readBytes_none hx
      | some bs => cases h
  · rw [if_neg hs] at h; cases h

theorem keyLenOf_none (c : Nat) (r : R) (h : (keyLenOf c r).1 = some none) : (keyLenOf c r).2.unread = [] := by
  unfold keyLenOf at h ⊢
  by_cases h1 : (c / 32 == 5) = true
  · rw [if_pos h1] at h; cases h
  · rw [if_neg h1] at h ⊢
    by_cases h2 : (0xd9 ≤ c && c ≤ 0xdb) = true
    · rw [if_pos h2] at h ⊢
      cases hx : r.readBytes (2^(c - 0xd9)) with
      | mk o r' =>
        rw [hx] at h
        cases o with
        | none => exact readBytes_none hx
        | some bs => cases h
    · rw [if_neg h2] at h; cases h

section inc
variable {env : Env} {RA : RAfun} {RO : ROfun} {PV : PVfun}

theorem pvTail_inc
    (hA : ∀ l ef ha n r acc, Inc3 (RA l ef ha n r acc))
    (hO : ∀ l fl ho n r ms, Inc3 (RO l fl ho n r ms))
    (limit : Nat) (flt : Flt) (hd : Bool) (code : Byte) (x : Option (List Byte × Nat) × R)
    (hx : x.1 = none → x.2.unread = []) :
    Inc4 (pvTail env RA RO limit flt hd code x) := by
  obtain ⟨o, r⟩ := x
  cases o with
  | none => exact fun _ => hx rfl
  | some y =>
    obtain ⟨hb, size⟩ := y
    simp only [pvTail]
    refine ite_elim (P := Inc4) (fun _ => ?_) (fun _ => ?_)
    · cases limit with
      | zero => intro h; cases h
      | succ l =>
        simp only
        refine ite_elim (P := Inc4) (fun _ => ?_) (fun _ => ?_)
        · exact hA l flt.subIdx true size r []
        · exact hA l flt.subIdx false size r []
    refine ite_elim (P := Inc4) (fun _ => ?_) (fun _ => ?_)
    · cases limit with
      | zero => intro h; cases h
      | succ l =>
        simp only
        refine ite_elim (P := Inc4) (fun _ => ?_) (fun _ => ?_)
        · exact hO l flt true size r []
        · exact hO l flt false size r []
    refine ite_elim (P := Inc4) (fun _ => ?_) (fun _ => ?_)
    · refine ite_elim (P := Inc4) (fun _ => ?_) (fun _ => skLeaf_inc _ _)
      exact ite_elim (P := Inc4) (fun _ => (fun h => by cases h)) (fun _ => rdLeaf_inc _ _ _)
    · refine ite_elim (P := Inc4) (fun _ => ?_) (fun _ => skLeaf_inc _ _)
      exact ite_elim (P := Inc4) (fun _ => (fun h => by cases h)) (fun _ => rdLeaf_inc _ _ _)

theorem pvAfter_inc
    (hA : ∀ l ef ha n r acc, Inc3 (RA l ef ha n r acc))
    (hO : ∀ l fl ho n r ms, Inc3 (RO l fl ho n r ms))
    (limit : Nat) (flt : Flt) (hd : Bool) (code : Byte) (r : R) :
    Inc4 (pvAfter env RA RO limit flt hd code r) := by
  simp only [pvAfter]
  have hl : ∀ (c : Prop) [Decidable c] (g : List Byte → Val) (n : Nat),
      Inc4 (if c then rdLeaf g n r else skLeaf n r) := by
    intro c _ g n
    exact ite_elim (P := Inc4) (fun _ => rdLeaf_inc _ _ _) (fun _ => skLeaf_inc _ _)
  refine ite_elim (P := Inc4) (fun _ => hl _ _ _) (fun _ => ?_)
  refine ite_elim (P := Inc4) (fun _ => (fun h => by cases h)) (fun _ => ?_)
  refine ite_elim (P := Inc4) (fun _ => (fun h => by cases h)) (fun _ => ?_)
  refine ite_elim (P := Inc4) (fun _ => (fun h => by cases h)) (fun _ => ?_)
  refine ite_elim (P := Inc4) (fun _ => hl _ _ _) (fun _ => ?_)
  refine ite_elim (P := Inc4) (fun _ => hl _ _ _) (fun _ => ?_)
  refine ite_elim (P := Inc4) (fun _ => (fun h => by cases h)) (fun _ => ?_)
  exact pvTail_inc hA hO limit flt hd code _ (hdrOf_none _ _ r)

theorem roVal_inc
    (hV : ∀ l fl b r, Inc4 (PV l fl b r))
    (hO : ∀ l fl ho n r ms, Inc3 (RO l fl ho n r ms))
    (limit : Nat) (flt : Flt) (ho : Bool) (n : Nat) (ms : List (List Byte × Val)) (key : List Byte) (r : R) :
    Inc3 (roVal PV RO limit flt ho n ms key r) := by
  simp only [roVal]
  have hv := hV limit (flt.subKey key) (ho && (flt.subKey key).allow) r
  generalize PV limit (flt.subKey key) (ho && (flt.subKey key).allow) r = x at hv
  obtain ⟨e, v, r1, b⟩ := x
  cases e <;> simp only
  · exact hO _ _ _ _ _ _
  all_goals exact hv

theorem roTail_inc
    (hV : ∀ l fl b r, Inc4 (PV l fl b r))
    (hO : ∀ l fl ho n r ms, Inc3 (RO l fl ho n r ms))
    (limit : Nat) (flt : Flt) (ho : Bool) (n : Nat) (ms : List (List Byte × Val)) (x : Option (Option Nat) × R)
    (hx : x.1 = some none → x.2.unread = []) :
    Inc3 (roTail env PV RO limit flt ho n ms x) := by
  obtain ⟨o, r⟩ := x
  cases o with
  | none => intro h; cases h
  | some y =>
    cases y with
    | none => exact fun _ => hx rfl
    | some len =>
      simp only [roTail]
      refine ite_elim (P := Inc3) (fun _ => (fun h => by cases h)) (fun _ => ?_)
      cases hz : r.readBytes len with
      | mk o2 r2 =>
        cases o2 with
        | none => exact fun _ => readBytes_none hz
        | some key => exact roVal_inc hV hO limit flt ho n ms key r2

end inc

theorem inc_mutual (env : Env) : ∀ f,
    (∀ limit flt hd r, Inc4 (parseVariant env f limit flt hd r)) ∧
    (∀ limit ef ha n r acc, Inc3 (readArray env f limit ef ha n r acc)) ∧
    (∀ limit flt ho n r ms, Inc3 (readObject env f limit flt ho n r ms)) := by
  intro f
  induction f with
  | zero =>
    refine ⟨?_, ?_, ?_⟩
    · intro limit flt hd r h; simp only [parseVariant] at h; cases h
    · intro limit ef ha n r acc h; simp only [readArray] at h; cases h
    · intro limit flt ho n r ms h; simp only [readObject] at h; cases h
  | succ f ih =>
    obtain ⟨ihV, ihA, ihO⟩ := ih
    refine ⟨?_, ?_, ?_⟩
    · intro limit flt hd r
      rw [pv_succ]
      cases hx : r.read with
      | mk o r' =>
        cases o with
        | none => exact fun _ => read_none hx
        | some code => exact pvAfter_inc ihA ihO limit flt hd code r'
    · intro limit ef ha n r acc
      rw [ra_succ_eq]
      refine ite_elim (P := Inc3) (fun _ => (fun h => by cases h)) (fun _ => ?_)
      have hv := ihV limit ef (ha && ef.allow) r
      generalize parseVariant env f limit ef (ha && ef.allow) r = x at hv
      obtain ⟨e, v, r1, b⟩ := x
      cases e <;> simp only
      · exact ihA _ _ _ _ _ _
      all_goals exact hv
    · intro limit flt ho n r ms
      rw [ro_succ_eq]
      refine ite_elim (P := Inc3) (fun _ => (fun h => by cases h)) (fun _ => ?_)
      cases hx : r.read with
      | mk o r' =>
        cases o with
        | none => exact fun _ => read_none hx
        | some code => exact roTail_inc ihV ihO limit flt ho n ms _ (keyLenOf_none _ r')

/-- **`IncompleteInput` means that the input ended**: every byte of the input was consumed (any filter, any input). -/
theorem run_incomplete_all (env : Env) (L : Nat) (flt : Flt) (inp : List Byte) (h : (run env L flt inp).1 = .incomplete) :
    (run env L flt inp).2.2 = inp.length := by
  have hq := (run_facts env L flt inp).1.1
  have hi := (inc_mutual env (2 * inp.length + 4)).1 L flt true { unread := inp }
  rw [run_proj] at h ⊢
  generalize parseVariant env (2 * inp.length + 4) L flt true { unread := inp } = out at hq hi h ⊢
  obtain ⟨e, v, r, b⟩ := out
  simp only at hq h ⊢
  have he : e = .incomplete := by
    cases b
    · simp only [Bool.false_eq_true, ↓reduceIte] at h; cases h
    · simpa using h
  have := hi he
  simp only at this
  rw [this] at hq
  simpa using hq

end MD
