/- Removing insignificant whitespace from a JSON text: a three-state machine (outside a string literal / inside /
   just after a backslash inside), and the facts needed to show that `JSer.pretty` and `JSer.compact` differ only by
   such whitespace (C02). -/
import AJ.Lemmas.JsonRoundTrip
namespace C02
open JD JS JSer

/-- where the scanner is: outside any string literal, inside one, inside one right after a backslash -/
inductive SS | out | str | esc
deriving DecidableEq, Repr

/-- the four JSON whitespace bytes (RFC 8259 section 2) -/
def isWsByte (c : UInt8) : Bool := c == 0x20 || c == 0x09 || c == 0x0D || c == 0x0A

def next : SS → UInt8 → SS
  | .out, c => if c == 0x22 then .str else .out
  | .str, c => if c == 0x5C then .esc else if c == 0x22 then .out else .str
  | .esc, _ => .str

/-- a byte is dropped exactly when it is whitespace outside a string literal -/
def keep : SS → UInt8 → Bool
  | .out, c => !isWsByte c
  | _, _ => true

def stripGo : SS → List UInt8 → List UInt8
  | _, [] => []
  | st, c :: cs => (if keep st c then [c] else []) ++ stripGo (next st c) cs

def endState (st : SS) (t : List UInt8) : SS := t.foldl next st

/-- the text without the whitespace bytes that occur outside string literals -/
def stripWs (t : List UInt8) : List UInt8 := stripGo .out t

theorem endState_append (st : SS) (a b : List UInt8) : endState st (a ++ b) = endState (endState st a) b := by
  simp [endState, List.foldl_append]

theorem stripGo_append (st : SS) (a b : List UInt8) :
    stripGo st (a ++ b) = stripGo st a ++ stripGo (endState st a) b := by
  induction a generalizing st with
  | nil => simp [stripGo, endState]
  | cons c cs ih => simp only [List.cons_append, stripGo, ih, endState, List.foldl_cons, List.append_assoc]

/-- `a` starts and ends outside string literals and strips to `b` -/
def Strips (a b : List UInt8) : Prop := endState .out a = .out ∧ stripGo .out a = b

theorem Strips.nil : Strips [] [] := ⟨rfl, rfl⟩

theorem Strips.append {a b a' b' : List UInt8} (h : Strips a b) (h' : Strips a' b') : Strips (a ++ a') (b ++ b') := by
  refine ⟨?_, ?_⟩
  · rw [endState_append, h.1, h'.1]
  · rw [stripGo_append, h.1, h.2, h'.2]

/-- a byte outside strings that is neither whitespace nor a quote is kept and changes nothing -/
def inert (c : UInt8) : Bool := !isWsByte c && c != 0x22

theorem Strips.one {c : UInt8} (h : inert c = true) : Strips [c] [c] := by
  simp only [inert, Bool.and_eq_true, Bool.not_eq_true', bne_iff_ne, ne_eq] at h
  have e : (c == 0x22) = false := by simpa using h.2
  refine ⟨?_, ?_⟩
  · simp [endState, next, e]
  · simp [stripGo, keep, h.1]

theorem Strips.ws {c : UInt8} (h : isWsByte c = true) : Strips [c] [] := by
  have e : (c == 0x22) = false := by
    rw [beq_eq_false_iff_ne]; rintro rfl; exact absurd h (by decide)
  refine ⟨?_, ?_⟩
  · simp [endState, next, e]
  · simp [stripGo, keep, h]

theorem Strips.cons {c : UInt8} {a b : List UInt8} (h : inert c = true) (h' : Strips a b) : Strips (c :: a) (c :: b) :=
  (Strips.one h).append h'

theorem strips_inert (a : List UInt8) (h : ∀ c ∈ a, inert c = true) : Strips a a := by
  induction a with
  | nil => exact .nil
  | cons c cs ih => exact Strips.cons (h c (by simp)) (ih (fun x hx => h x (by simp [hx])))

theorem strips_ws (a : List UInt8) (h : ∀ c ∈ a, isWsByte c = true) : Strips a [] := by
  induction a with
  | nil => exact .nil
  | cons c cs ih => exact (Strips.ws (h c (by simp))).append (ih (fun x hx => h x (by simp [hx])))

/-! ### string literals -/

theorem writeChar_in_string (c : UInt8) : endState .str (writeChar c) = .str ∧ stripGo .str (writeChar c) = writeChar c := by
  have key : ∀ c : UInt8, (decide (endState .str (writeChar c) = .str) && decide (stripGo .str (writeChar c) = writeChar c)) = true := by
    apply Bits.all_bytes; decide +kernel
  simpa using key c

theorem escaped_in_string (s : List UInt8) :
    endState .str (s.flatMap writeChar) = .str ∧ stripGo .str (s.flatMap writeChar) = s.flatMap writeChar := by
  induction s with
  | nil => exact ⟨rfl, rfl⟩
  | cons c cs ih =>
    obtain ⟨a, b⟩ := writeChar_in_string c
    simp only [List.flatMap_cons, endState_append, stripGo_append, a, b, ih.1, ih.2, and_self]

/-- a serialized string is a string literal: the scanner passes it unchanged and is outside again after it -/
theorem strips_writeString (s : List UInt8) : Strips (writeString s) (writeString s) := by
  obtain ⟨a, b⟩ := escaped_in_string s
  have e : writeString s = [0x22] ++ (s.flatMap writeChar ++ [0x22]) := by simp [writeString]
  refine ⟨?_, ?_⟩
  · rw [e, endState_append, endState_append]
    show endState (endState .str (s.flatMap writeChar)) [0x22] = .out
    rw [a]; rfl
  · rw [e, stripGo_append, stripGo_append]
    show [0x22] ++ (stripGo .str (s.flatMap writeChar) ++ stripGo (endState .str (s.flatMap writeChar)) [0x22]) = _
    rw [a, b]; rfl

/-! ### indentation and line ends -/

theorem strips_indent (n : Nat) : Strips (indent n) [] := by
  apply strips_ws
  intro c hc
  simp only [indent, List.mem_flatten, List.mem_replicate] at hc
  obtain ⟨l, ⟨_, rfl⟩, hc⟩ := hc
  simp only [tab, List.mem_cons, List.not_mem_nil, or_false, or_self] at hc
  subst hc; decide

theorem strips_crlf : Strips crlf [] := ⟨by decide, by decide⟩

/-! ### numbers and keywords contain neither whitespace nor quotes -/

theorem inert_digit {c : UInt8} (h : 0x30 ≤ c ∧ c ≤ 0x39) : inert c = true := by
  have key : ∀ c : UInt8, (!(decide (0x30 ≤ c) && decide (c ≤ 0x39)) || inert c) = true := by
    apply Bits.all_bytes; decide +kernel
  have := key c
  simpa [h.1, h.2] using this

theorem digits_inert (n : Nat) : ∀ c ∈ digits n, inert c = true := by
  obtain ⟨h, _⟩ := Digits.digits_spec n
  exact fun c hc => inert_digit (h c hc)

theorem padDigits_inert (n w : Nat) : ∀ c ∈ padDigits n w, inert c = true := by
  intro c hc
  simp only [padDigits, List.mem_append, List.mem_replicate] at hc
  rcases hc with ⟨_, rfl⟩ | hc
  · decide
  · exact digits_inert n c (List.mem_of_mem_drop hc)

theorem forall_append {P : UInt8 → Prop} {a b : List UInt8} (ha : ∀ c ∈ a, P c) (hb : ∀ c ∈ b, P c) :
    ∀ c ∈ a ++ b, P c := by
  intro c hc; rcases List.mem_append.mp hc with h | h
  · exact ha c h
  · exact hb c h

theorem forall_cons {P : UInt8 → Prop} {x : UInt8} {b : List UInt8} (hx : P x) (hb : ∀ c ∈ b, P c) :
    ∀ c ∈ x :: b, P c := by
  intro c hc; rcases List.mem_cons.mp hc with h | h
  · exact h ▸ hx
  · exact hb c h

theorem forall_ite {P : UInt8 → Prop} {d : Prop} [Decidable d] {a b : List UInt8} (ha : ∀ c ∈ a, P c) (hb : ∀ c ∈ b, P c) :
    ∀ c ∈ (if d then a else b), P c := by
  split
  · exact ha
  · exact hb

theorem writeFloat_inert (cfg : Cfg) (v places : Nat) : ∀ c ∈ writeFloat cfg v places, inert c = true := by
  have k1 : ∀ c ∈ "NaN".toUTF8.toList, inert c = true := by decide +kernel
  have k2 : ∀ c ∈ "null".toUTF8.toList, inert c = true := by decide +kernel
  have k3 : ∀ c ∈ "-Infinity".toUTF8.toList, inert c = true := by decide +kernel
  have k4 : ∀ c ∈ "Infinity".toUTF8.toList, inert c = true := by decide +kernel
  have nil : ∀ c ∈ ([] : List UInt8), inert c = true := fun c hc => absurd hc (by simp)
  simp only [writeFloat]
  split
  · cases cfg.nan
    · exact k2
    · exact k1
  · split
    · cases cfg.inf
      · exact k2
      · simp only [↓reduceIte]; split
        · exact k3
        · exact k4
    · refine forall_append (forall_append (forall_append ?_ (digits_inert _)) ?_) ?_
      · exact forall_ite (forall_cons (by decide) nil) nil
      · exact forall_ite (forall_cons (by decide) (padDigits_inert _ _)) nil
      · exact forall_ite (forall_cons (by decide)
          (forall_append (forall_ite (forall_cons (by decide) nil) nil) (digits_inert _))) nil

theorem printNum_inert (cfg : Cfg) (n : Num) : ∀ c ∈ printNum cfg n, inert c = true := by
  have nil : ∀ c ∈ ([] : List UInt8), inert c = true := fun c hc => absurd hc (by simp)
  cases n with
  | uint m => exact digits_inert m
  | sint i => exact forall_append (forall_ite (forall_cons (by decide) nil) nil) (digits_inert _)
  | f32 b => exact writeFloat_inert cfg _ _
  | f64 b => exact writeFloat_inert cfg _ _


/-! ### the pretty text strips to the compact text -/

theorem strips_kw : Strips "null".toUTF8.toList "null".toUTF8.toList ∧ Strips "true".toUTF8.toList "true".toUTF8.toList ∧
    Strips "false".toUTF8.toList "false".toUTF8.toList := by
  rw [JD.kw_null_rt, JD.kw_true_rt, JD.kw_false_rt]
  exact ⟨⟨by decide, by decide⟩, ⟨by decide, by decide⟩, ⟨by decide, by decide⟩⟩

theorem Strips.cons' {c : UInt8} {a b : List UInt8} (h : inert c = true) (h' : Strips a b) : Strips (c :: a) (c :: b) :=
  Strips.cons h h'

theorem Strips.snoc {c : UInt8} {a b : List UInt8} (h' : Strips a b) (h : inert c = true) : Strips (a ++ [c]) (b ++ [c]) :=
  h'.append (Strips.one h)

theorem Strips.wsl {a b w : List UInt8} (h : Strips a b) (hw : Strips w []) : Strips (w ++ a) b := by
  simpa using hw.append h

theorem Strips.wsr {a b w : List UInt8} (h : Strips a b) (hw : Strips w []) : Strips (a ++ w) b := by
  simpa using h.append hw

open C07 in
mutual
theorem strips_pretty (cfg : Cfg) : ∀ (v : Val) (n : Nat), RawFree v → Strips (pretty cfg n v) (compact cfg v)
  | .arr [], n, _ => by simp only [pretty, compact, compactElems]; exact ⟨by decide, by decide⟩
  | .arr (x :: xs), n, h => by
    simp only [pretty, compact]
    have ih := strips_prettyElems cfg (x :: xs) (n + 1) (by simpa only [RawFree, AllV] using h)
    have : Strips (crlf ++ prettyElems cfg (n + 1) (x :: xs) ++ indent n ++ [0x5D]) (compactElems cfg (x :: xs) ++ [0x5D]) :=
      (((ih.wsl strips_crlf).wsr (strips_indent n)).snoc (by decide))
    exact Strips.cons (c := 0x5B) (by decide) (by simpa [List.append_assoc] using this)
  | .obj [], n, _ => by simp only [pretty, compact, compactMembers]; exact ⟨by decide, by decide⟩
  | .obj (m :: ms), n, h => by
    simp only [pretty, compact]
    have ih := strips_prettyMembers cfg (m :: ms) (n + 1) (by simpa only [RawFree, AllV] using h)
    have : Strips (crlf ++ prettyMembers cfg (n + 1) (m :: ms) ++ indent n ++ [0x7D]) (compactMembers cfg (m :: ms) ++ [0x7D]) :=
      (((ih.wsl strips_crlf).wsr (strips_indent n)).snoc (by decide))
    exact Strips.cons (c := 0x7B) (by decide) (by simpa [List.append_assoc] using this)
  | .null, n, _ => by simp only [pretty, compact]; exact strips_kw.1
  | .bool true, n, _ => by simp only [pretty, compact]; exact strips_kw.2.1
  | .bool false, n, _ => by simp only [pretty, compact]; exact strips_kw.2.2
  | .num x, n, _ => by simp only [pretty, compact]; exact strips_inert _ (printNum_inert cfg x)
  | .str s, n, _ => by simp only [pretty, compact]; exact strips_writeString s
  | .raw s, n, h => by
    have : RawFreeS (.raw s) := by simpa only [RawFree, AllV] using h
    exact absurd this (by simp [RawFreeS])
theorem strips_prettyElems (cfg : Cfg) : ∀ (xs : List Val) (n : Nat), AllE RawFreeS (fun _ => True) xs →
    Strips (prettyElems cfg n xs) (compactElems cfg xs)
  | [], n, _ => by simp only [prettyElems, compactElems]; exact .nil
  | [x], n, h => by
    simp only [prettyElems, compactElems]
    simp only [AllE] at h
    exact ((strips_pretty cfg x n h.1).wsl (strips_indent n)).wsr strips_crlf
  | x :: y :: r, n, h => by
    simp only [prettyElems, compactElems]
    simp only [AllE] at h
    have a := (strips_pretty cfg x n h.1).wsl (strips_indent n)
    have b := strips_prettyElems cfg (y :: r) n (by simp only [AllE]; exact h.2)
    have := a.append (Strips.cons (c := 0x2C) (by decide) (b.wsl strips_crlf))
    simpa [List.append_assoc] using this
theorem strips_prettyMembers (cfg : Cfg) : ∀ (ms : List (List UInt8 × Val)) (n : Nat), AllM RawFreeS (fun _ => True) ms →
    Strips (prettyMembers cfg n ms) (compactMembers cfg ms)
  | [], n, _ => by simp only [prettyMembers, compactMembers]; exact .nil
  | [(k, v)], n, h => by
    simp only [prettyMembers, compactMembers]
    simp only [AllM] at h
    have a := (strips_writeString k).wsl (strips_indent n)
    have c : Strips [0x3A, 0x20] [0x3A] := ⟨by decide, by decide⟩
    have := ((a.append c).append (strips_pretty cfg v n h.2.1)).wsr strips_crlf
    simpa [List.append_assoc] using this
  | (k, v) :: m :: r, n, h => by
    simp only [prettyMembers, compactMembers]
    simp only [AllM] at h
    have a := (strips_writeString k).wsl (strips_indent n)
    have c : Strips [0x3A, 0x20] [0x3A] := ⟨by decide, by decide⟩
    have b := strips_prettyMembers cfg (m :: r) n h.2.2
    have := ((a.append c).append (strips_pretty cfg v n h.2.1)).append
      (Strips.cons (c := 0x2C) (by decide) (b.wsl strips_crlf))
    simpa [List.append_assoc] using this
end


/-- stripping is idempotent: the result contains no whitespace outside string literals -/
theorem stripGo_idem (st : SS) (t : List UInt8) : stripGo st (stripGo st t) = stripGo st t := by
  induction t generalizing st with
  | nil => rfl
  | cons c cs ih =>
    simp only [stripGo]
    cases hk : keep st c
    · -- dropped: whitespace outside a string, the state does not change
      have hst : st = .out := by cases st <;> simp_all [keep]
      subst hst
      have hw : isWsByte c = true := by simpa [keep] using hk
      have e : (c == 0x22) = false := by
        rw [beq_eq_false_iff_ne]; rintro rfl; exact absurd hw (by decide)
      simp only [Bool.false_eq_true, ↓reduceIte, List.nil_append, next, e]
      exact ih .out
    · simp only [↓reduceIte, List.singleton_append, stripGo, hk, ih]

end C02
