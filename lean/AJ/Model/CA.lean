/- Model of copyArray (src/ArduinoJson/Array/Utilities.hpp), document -> C array direction.
   A destination array is a list of cells of fixed length; "writing" replaces cells, so the length of the result is the
   size the caller gave — the harness checks the same thing on the binary with guard bytes and exactly-sized heap blocks. -/
import AJ.Model.Conv
open JD

namespace CA

/-- elements seen by `JsonArrayConst` iteration: the elements of an array, nothing for any other value (a null JsonArrayConst) -/
def elems : Val → List Val
  | .arr xs => xs
  | _ => []

/-- `copyArray(JsonArrayConst src, T* dst, size_t len)`: walks the array and the destination together and stops at the shorter;
    returns the cells (converted prefix, untouched rest) and the number of elements copied -/
def copy1 {α} (conv : Val → α) : List Val → List α → List α × Nat
  | x :: xs, _ :: ds => let (r, n) := copy1 conv xs ds; (conv x :: r, n + 1)
  | _, ds => (ds, 0)

/-- `copyArray(JsonArrayConst src, T (&dst)[N1][N2])`: every element of the outer array is viewed as an array and copied into its row -/
def copy2 {α} (conv : Val → α) : List Val → List (List α) → List (List α) × Nat
  | x :: xs, row :: rows => let (r, n) := copy2 conv xs rows; ((copy1 conv (elems x) row).1 :: r, n + 1)
  | _, rows => (rows, 0)

/-- bytes of a value seen as `JsonString` (the empty string with a null pointer for anything that is not a string) -/
def strOf : Val → List Byte
  | .str s => s
  | _ => []

/-- `copyArray(JsonVariantConst src, char (&dst)[N])`, N ≥ 1: at most N-1 bytes, then a terminator; the rest is untouched -/
def copyStr (v : Val) (dst : List Byte) : List Byte :=
  let len := min (dst.length - 1) (strOf v).length
  if dst.length = 0 then dst else (strOf v).take len ++ [0] ++ dst.drop (len + 1)

end CA
