/- Model of Variant/VariantCompare.hpp, Numbers/arithmeticCompare.hpp, Strings/StringAdapters.hpp (stringCompare),
   JsonArrayConst/JsonObjectConst operator== and the six operators of Variant/VariantOperators.hpp. -/
import AJ.Model.Conv
namespace Cmp
open SF JD

inductive CR | differ | equal | greater | less
deriving Repr, DecidableEq

/-- `VariantComparer::reverseResult` -/
def CR.reverse : CR → CR
  | .greater => .less
  | .less => .greater
  | r => r

/-- a value as the visitor sees it: JsonInteger, JsonUInt, JsonFloat (double) or bool -/
inductive NumV | i (v : Int) | u (n : Nat) | d (bits : Nat) | b (v : Bool)
deriving Repr, DecidableEq

def ofOrd (lt gt : Bool) : CR := if lt then .less else if gt then .greater else .equal

def toDouble : NumV → Nat
  | .i v => Conv.ofInt b64 v
  | .u n => Conv.ofInt b64 n
  | .d x => x
  | .b v => Conv.ofInt b64 (if v then 1 else 0)

/-- `arithmeticCompare(lhs, rhs)` -/
def arith (l r : NumV) : CR :=
  match l, r with
  | .d _, _ | _, .d _ =>
    let a := toDouble l; let c := toDouble r
    if lt b64 a c then .less else if gt b64 a c then .greater
    else if isNaN b64 a || isNaN b64 c then .differ else .equal
  | .i a, .i c => ofOrd (a < c) (a > c)
  | .u a, .u c => ofOrd (a < c) (a > c)
  | .b a, .b c => ofOrd (!a && c) (a && !c)
  | .i a, .u c => if a < 0 then .less else ofOrd (a.toNat < c) (a.toNat > c)
  | .u a, .i c => if c < 0 then .greater else ofOrd (a < c.toNat) (a > c.toNat)
  | .b a, .i c => let a : Int := if a then 1 else 0; ofOrd (a < c) (a > c)
  | .i a, .b c => let c : Int := if c then 1 else 0; ofOrd (a < c) (a > c)
  | .b a, .u c => let a : Nat := if a then 1 else 0; ofOrd (a < c) (a > c)
  | .u a, .b c => let c : Nat := if c then 1 else 0; ofOrd (a < c) (a > c)

def numOf : Val → Option NumV
  | .bool v => some (.b v)
  | .num (.uint n) => some (.u n)
  | .num (.sint v) => some (.i v)
  | .num (.f32 x) => some (.d (cvt b32 b64 x))
  | .num (.f64 x) => some (.d x)
  | _ => none

/-- sign of `s1[i] - s2[i]` with `char` signed -/
def schar (c : Byte) : Int := if c ≥ 0x80 then (c.toNat : Int) - 256 else c.toNat

/-- `stringCompare(s1, s2)`: < 0, 0, > 0 -/
def stringCompare : List Byte → List Byte → Int
  | [], [] => 0
  | [], _ :: _ => -1
  | _ :: _, [] => 1
  | a :: as, c :: cs => if a != c then schar a - schar c else stringCompare as cs

/-- `memcmp` over the common prefix, then the lengths (RawComparer) -/
def rawCompare : List Byte → List Byte → Int
  | [], [] => 0
  | [], _ :: _ => -1
  | _ :: _, [] => 1
  | a :: as, c :: cs => if a != c then (a.toNat : Int) - c.toNat else rawCompare as cs

def lookup (ms : List (List Byte × Val)) (k : List Byte) : Option Val := (ms.find? (fun p => p.1 == k)).map (·.2)

mutual
/-- `compare(lhs, rhs)` for two variants; `none` as a value = unbound / null reference -/
def compareF : Nat → Val → Val → CR
  | 0, _, _ => .differ
  | fuel+1, a, b =>
    match a with
    | .arr la => (match b with | .arr lb => if arrEqF fuel la lb then .equal else .differ | _ => .differ)
    | .obj ma => (match b with | .obj mb => if objEqF fuel mb mb ma then .equal else .differ | _ => .differ)
    | .str sa =>
      (match b with
       | .str sb => let i := stringCompare sa sb; (if i < 0 then CR.greater else if i > 0 then .less else .equal).reverse
       | _ => .differ)
    | .raw ra =>
      (match b with
       | .raw rb => let n := rawCompare rb ra; (if n < 0 then CR.less else if n > 0 then .greater else .equal).reverse
       | _ => .differ)
    | .null => (match b with | .null => .equal | _ => .differ)
    | _ =>
      match numOf a, numOf b with
      | some x, some y => (arith y x).reverse
      | _, _ => .differ
/-- `JsonArrayConst == JsonArrayConst` -/
def arrEqF : Nat → List Val → List Val → Bool
  | _, [], [] => true
  | _, [], _ :: _ => false
  | _, _ :: _, [] => false
  | fuel, a :: as, c :: cs => if compareF fuel a c != .equal then false else arrEqF fuel as cs
/-- `JsonObjectConst lhs == rhs`: every member of lhs is found in rhs (first match) with an equal value, and the counts agree.
    First argument: the whole lhs (for the count), second: members still to visit. -/
def objEqF : Nat → List (List Byte × Val) → List (List Byte × Val) → List (List Byte × Val) → Bool
  | _, whole, [], rhs => whole.length == rhs.length
  | fuel, whole, (k, v) :: rest, rhs =>
    match lookup rhs k with
    | none => false
    | some rv => if compareF fuel v rv != .equal then false else objEqF fuel whole rest rhs
end

def depth : Val → Nat
  | .arr xs => 1 + depthL xs
  | .obj ms => 1 + depthM ms
  | _ => 0
where
  depthL : List Val → Nat
    | [] => 0
    | x :: r => max (depth x) (depthL r)
  depthM : List (List Byte × Val) → Nat
    | [] => 0
    | (_, x) :: r => max (depth x) (depthM r)

def compare (a b : Val) : CR := compareF (depth a + depth b + 2) a b

/-- the six operators `== != < <= > >=` of `lhs ? rhs`, from `r = compare(lhs, rhs)` -/
def ops (r : CR) : List Bool :=
  [r == .equal, r != .equal, r == .less, r == .less || r == .equal, r == .greater, r == .greater || r == .equal]

/-- the same six operators when they are evaluated as `compare(rhs, lhs)` (the `operator?(const T& lhs, TVariant rhs)` overloads,
    which are the ones selected for two variants) -/
def opsRev (r : CR) : List Bool :=
  [r == .equal, r != .equal, r == .greater, r == .greater || r == .equal, r == .less, r == .less || r == .equal]

/-- `a ? b` for two variants -/
def variantOps (a b : Val) : List Bool := opsRev (compare b a)

/-- variant against a C++ scalar: `compare(variant, scalar)` = the visitor applied to the variant's value, no reversal -/
inductive Scalar | num (x : NumV) | str (s : List Byte) | nullStr
deriving Repr

def compareScalar (a : Val) (s : Scalar) : CR :=
  match s with
  | .num y => (match numOf a with | some x => arith x y | none => .differ)
  | .str sb =>
    (match a with
     | .str sa => let i := stringCompare sb sa; if i < 0 then .greater else if i > 0 then .less else .equal
     | _ => .differ)
  | .nullStr => (match a with | .null => .equal | _ => .differ)
end Cmp
