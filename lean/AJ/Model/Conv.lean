/- Model of Numbers/convertNumber.hpp (`canConvertNumber`, `convertNumber`), of `VariantData::asIntegral/asFloat/isInteger`
   and of `Number::convertTo` for numeric strings. A C++ cast whose behaviour would be undefined (float → integer out of range)
   is represented by `none`: the property theorem shows it is unreachable. -/
import AJ.Model.JD
namespace Conv
open SF JD

/-- the ten integral targets of `as<T>()` reduce to (signed?, width in bits) -/
structure IT where
  signed : Bool
  bits : Nat
deriving Repr, DecidableEq

def IT.min (t : IT) : Int := if t.signed then -(2 ^ (t.bits - 1) : Nat) else 0
def IT.max (t : IT) : Int := if t.signed then (2 ^ (t.bits - 1) : Nat) - 1 else (2 ^ t.bits : Nat) - 1
def IT.bytes (t : IT) : Nat := t.bits / 8

def i8 : IT := ⟨true, 8⟩
def u8 : IT := ⟨false, 8⟩
def i16 : IT := ⟨true, 16⟩
def u16 : IT := ⟨false, 16⟩
def i32 : IT := ⟨true, 32⟩
def u32 : IT := ⟨false, 32⟩
def i64 : IT := ⟨true, 64⟩
def u64 : IT := ⟨false, 64⟩
def allIT : List IT := [i8, u8, i16, u16, i32, u32, i64, u64]

/-- how a number is stored in a variant (or produced by `parseNumber`) -/
inductive Src
  | u (bits : Nat) (n : Nat)      -- Uint32 / Uint64
  | i (bits : Nat) (v : Int)      -- Int32 / Int64
  | f32 (b : Nat)
  | f64 (b : Nat)
deriving Repr, DecidableEq

def srcOfNum : Num → Src
  | .uint n => if n < 2 ^ 32 then .u 32 n else .u 64 n
  | .sint v => if -(2 ^ 31 : Int) ≤ v ∧ v < 2 ^ 31 then .i 32 v else .i 64 v
  | .f32 b => .f32 b
  | .f64 b => .f64 b

/-- exact integer as a floating-point datum of format `f` (`static_cast<float/double>(integer)`, round to nearest even) -/
def ofInt (f : Fmt) (v : Int) : Nat := roundPos f (v < 0) v.natAbs 0

/-- `highest_for<TOut>()` of `FloatTraits<TIn>` (generated from the source) -/
def highestFor (f : Fmt) (t : IT) : Nat :=
  if f.mbits == 52 then (if t.signed then Gen.hi64_i64 else Gen.hi64_u64)
  else if t.bits == 32 then (if t.signed then Gen.hi32_i32 else Gen.hi32_u32)
  else (if t.signed then Gen.hi32_i64 else Gen.hi32_u64)

/-- `canConvertNumber<TOut>(TIn value)` for an integral target -/
def canConvInt (s : Src) (t : IT) : Bool :=
  match s with
  | .u sb n => if t.bits ≤ sb then (n : Int) ≤ t.max else true
  | .i sb v =>
    if t.signed then (if t.bits < sb then t.min ≤ v && v ≤ t.max else true)
    else (if t.bits ≥ sb then v ≥ 0 else v ≥ 0 && v ≤ t.max)
  | .f32 b =>
    if t.bits < 32 then ge b32 b (ofInt b32 t.min) && le b32 b (ofInt b32 t.max)
    else ge b32 b (ofInt b32 t.min) && le b32 b (highestFor b32 t)
  | .f64 b =>
    if t.bits < 64 then ge b64 b (ofInt b64 t.min) && le b64 b (ofInt b64 t.max)
    else ge b64 b (ofInt b64 t.min) && le b64 b (highestFor b64 t)

/-- truncation toward zero of a finite datum; `none` for NaN / infinity -/
def truncInt (f : Fmt) (bits : Nat) : Option Int :=
  match decode f bits with
  | .fin neg m e =>
    let mag : Nat := if e ≥ 0 then m * 2 ^ e.toNat else m / 2 ^ ((-e).toNat)
    some (if neg then -(mag : Int) else mag)
  | _ => none

/-- `TOut(value)`: `none` where the C++ conversion is undefined behaviour -/
def castInt (s : Src) (t : IT) : Option Int :=
  match s with
  | .u _ n => some ((n : Int) % (2 ^ t.bits : Nat) |> fun r => if t.signed && r > t.max then r - (2 ^ t.bits : Nat) else r)
  | .i _ v => some (((v % (2 ^ t.bits : Nat)) + (2 ^ t.bits : Nat)) % (2 ^ t.bits : Nat) |> fun r => if t.signed && r > t.max then r - (2 ^ t.bits : Nat) else r)
  | .f32 b => match truncInt b32 b with
    | some z => if t.min ≤ z ∧ z ≤ t.max then some z else none
    | none => none
  | .f64 b => match truncInt b64 b with
    | some z => if t.min ≤ z ∧ z ≤ t.max then some z else none
    | none => none

/-- `convertNumber<TOut>(value)` -/
def convInt (s : Src) (t : IT) : Option Int := if canConvInt s t then castInt s t else some 0

/-- `convertNumber<float/double>(value)`: always allowed; result bits in the target format -/
def convFloat (s : Src) (dst : Fmt) : Nat :=
  match s with
  | .u _ n => ofInt dst n
  | .i _ v => ofInt dst v
  | .f32 b => if dst.mbits == 23 then b else cvt b32 b64 b
  | .f64 b => if dst.mbits == 52 then b else cvt b64 b32 b

/-- `is<T>()` for an integral T: stored as an integer that fits -/
def isInt (s : Src) (t : IT) : Bool :=
  match s with
  | .u _ _ | .i _ _ => canConvInt s t
  | _ => false

/-- numeric source of a value through `asIntegral/asFloat`: numbers, booleans, numeric strings -/
inductive VSrc | num (s : Src) | bool (b : Bool) | zero | fault
deriving Repr

def vsrc (cfg : Cfg) : Val → VSrc
  | .num n => .num (srcOfNum n)
  | .bool b => .bool b
  | .str s =>
    -- `parseNumber(const char*)`: the C string ends at the first NUL
    match parseNumber cfg (s.takeWhile (· != 0)) with
    | .uint n => .num (.u 64 n)
    | .sint v => .num (.i 64 v)
    | .f32 b => .num (.f32 b)
    | .f64 b => .num (.f64 b)
    | .invalid => .zero
    | .fault => .fault
  | _ => .zero

def asInt (cfg : Cfg) (v : Val) (t : IT) : Option Int :=
  match vsrc cfg v with
  | .num s => convInt s t
  | .bool b => some (if b then 1 else 0)
  | .zero => some 0
  | .fault => none

def asFloatBits (cfg : Cfg) (v : Val) (dst : Fmt) : Option Nat :=
  match vsrc cfg v with
  | .num s => some (convFloat s dst)
  | .bool b => some (ofInt dst (if b then 1 else 0))
  | .zero => some 0
  | .fault => none

def isIntV (v : Val) (t : IT) : Bool := match v with | .num n => isInt (srcOfNum n) t | _ => false
def isFloatV (v : Val) : Bool := match v with | .num _ => true | _ => false
end Conv
