/- history interpreter over the L0 document model (prototype) -/
import AJ.Model.DL
import AJ.Model.Conv
import AJ.Model.JSer
import AJ.Model.MD
import AJ.Model.JDD
import AJ.Model.MDD
namespace DH
open DL JD

structure Ref where
  doc : Option Nat := none
  loc : Option Loc := none
deriving Inhabited, BEq

structure W where
  docs : Array Doc
  refs : Array Ref
  log : List String := []     -- newest first, already tagged
  dead : Array (Option Ref) := Array.replicate 10 none   -- ghost: binding of a reference when it was seen dangling (used by `liveq` only)
  geo : PL.Geo := ⟨256, 4, 4, 16, 16⟩
  strOverhead : Nat := 15
  maxStrLen : Nat := 65535

def LIT : List (List Byte) := ["lit0".toUTF8.toList, "lit1".toUTF8.toList, [], "a".toUTF8.toList, "key".toUTF8.toList, "123".toUTF8.toList, "-4.5e2".toUTF8.toList]

def newDocG (g : PL.Geo) (so : Nat) (alloc : Nat) (mx : Nat := 65535) : Doc := { g := g, alloc := alloc, pl := PL.init g, strOverhead := so, maxStrLen := mx }
def W.initG (g : PL.Geo) (so : Nat) (mx : Nat := 65535) : W :=
  { docs := #[newDocG g so 0 mx, newDocG g so 1 mx, newDocG g so 2 mx], refs := Array.replicate 10 {}, geo := g, strOverhead := so, maxStrLen := mx }
def W.init : W := W.initG ⟨256, 4, 4, 16, 16⟩ 15

/-- move the per-document allocator log into the world log -/
def W.flushDoc (w : W) (i : Nat) : W :=
  let d := w.docs[i]!
  let tagged := d.pl.log.map (fun e => s!"a{d.alloc}:{e}")
  { w with docs := w.docs.set! i { d with pl := { d.pl with log := [] } }, log := tagged ++ w.log }
def W.flush (w : W) : W := (w.flushDoc 0).flushDoc 1 |>.flushDoc 2

def unhex (s : String) : List UInt8 :=
  if s == "-" then [] else
  let v (c : Char) : Nat := if c.isDigit then c.toNat - 48 else if c.toNat ≥ 97 then c.toNat - 87 else c.toNat - 55
  let rec go : List Char → List UInt8
    | a :: b :: r => UInt8.ofNat (v a * 16 + v b) :: go r
    | _ => []
  go s.toList
def hexToNat (s : String) : Nat := s.toList.foldl (fun a c => a * 16 + (if c.isDigit then c.toNat - 48 else if c.toNat ≥ 97 then c.toNat - 87 else c.toNat - 55)) 0

def parseArg (kind arg : String) : Option Arg :=
  match kind with
  | "null" => some .null
  | "bool" => some (.bool (arg == "1"))
  | "i" | "i8" => some (.sint arg.toInt!)
  | "u" | "u16" => some (.uint arg.toNat!)
  | "f" => some (.f32 (hexToNat arg))
  | "d" => some (.f64 (hexToNat arg))
  | "sl" => some (.strLinked (LIT[arg.toNat!]!))
  | "sc" | "sv" | "sj" | "sva" => some (.strCopied (unhex arg))      -- "sva": a view that aliases a longer string the document or the caller already holds
  | "sp" => some (.strCopied ((unhex arg).takeWhile (· != 0)))      -- char*: zero-terminated
  | "sjl" => some (.strLinked ((unhex arg).takeWhile (· != 0)))
  | "raw" => some (.raw (unhex arg))
  | _ => none

def isVoidKind (k : String) : Bool :=
  k == "null" || k == "sl" || k == "sc" || k == "sv" || k == "sva" || k == "sp" || k == "sj" || k == "sjl" || k == "raw" || k == "ref" || k == "doc"

/-- perform `set` of (kind,arg) on location l of document di (bound). -/
def W.setAt (w : W) (di : Nat) (l : Loc) (kind arg : String) : Bool × W :=
  let d := w.docs[di]!
  if kind == "ref" || kind == "doc" then
    let (sdoc, sval) : Option Doc × VData :=
      if kind == "doc" then let s := w.docs[arg.toNat!]!; (some s, s.root)
      else
        let r := w.refs[arg.toNat!]!
        match r.doc, r.loc with
        | some sd, some sl => let s := w.docs[sd]!; (some s, s.get sl)
        | _, _ => (none, .null)
    let d' := match sdoc with
      | some s => copyInto d l s sval
      | none => d.clearV l
    (!d'.overflowed, { w with docs := w.docs.set! di d' })
  else
    match parseArg kind arg with
    | none => (false, w)
    | some a =>
      let d := d.clearV l
      let (ok, d) := d.setArg l a
      (ok, { w with docs := w.docs.set! di d })

def W.unboundResult (w : W) (r : Ref) (kind : String) : Bool :=
  match r.doc with
  | some di => isVoidKind kind && !(w.docs[di]!).overflowed
  | none => false

/-- slots that hold a value reachable from `v` (elements of arrays, the value slot of every member; key slots excluded) -/
def valueSlotsF (d : Doc) : Nat → VData → List Nat
  | 0, _ => []
  | f + 1, .arr h _ => let c := d.chain h; c ++ c.flatMap (fun i => valueSlotsF d f (d.get (.slot i)))
  | f + 1, .obj h _ =>
    let c := d.chain h
    let vs := (c.zipIdx.filter (fun p => p.2 % 2 == 1)).map (·.1)
    vs ++ vs.flatMap (fun i => valueSlotsF d f (d.get (.slot i)))
  | _ + 1, _ => []

/-- deserj / deserm <ref> <limit> <hex>: deserializeJson / deserializeMsgPack into the value a reference designates -/
def deserInto (w : W) (json : Bool) (r lim hex : String) : String × W :=
  let codeName (c : JD.Code) : String := match c with
    | .ok => "Ok" | .empty => "EmptyInput" | .incomplete => "IncompleteInput" | .invalid => "InvalidInput"
    | .noMemory => "NoMemory" | .tooDeep => "TooDeep" | .fuel => "FAULT"
  let s := w.refs[r.toNat!]!
  match s.doc, s.loc with
  | some di, some l =>
    let d := w.docs[di]!
    let input := unhex hex
    let (c, d', _) := if json then JDD.runAt {} lim.toNat! d l input
                      else MDD.runAt { maxStrLen := Gen.string_max_length } lim.toNat! d l input
    (codeName c, { w with docs := w.docs.set! di d' })
  | _, _ => ("NoMemory", w)           -- an unbound reference has no data to deserialize into

def step (w : W) (ws : List String) : String × W :=
  match ws with
  | "obs" :: rs =>
    let ds := (w.docs.toList.map (fun (d : Doc) => s!"{d.show d.root} n={d.nesting d.root} z={d.size d.root} o={if d.overflowed then 1 else 0} ; "))
    let rs := rs.map (fun r =>
      let s := w.refs[r.toNat!]!
      match s.doc, s.loc with
      | some di, some l => let d : Doc := w.docs[di]!; s!"r{r}={d.show (d.get l)} z={d.size (d.get l)} n={d.nesting (d.get l)} "
      | _, _ => s!"r{r}=? z=0 n=0 ")
    (String.join ds ++ String.join rs, w)
  | ["rd2", r, t1, a1, t2, a2] =>
    -- read-only access through two chained subscripts (member `m <hexkey>` or element `e <index>`): nothing changes; the value seen is shown
    let s := w.refs[r.toNat!]!
    match s.doc, s.loc with
    | some di, some l =>
      let d := w.docs[di]!
      let sub (l : Loc) (t a : String) : Option Loc :=
        if t == "m" then (d.findKey l (unhex a)).map (fun p => Loc.slot p.2)
        else match d.get l with
          | .arr h _ => ((d.chain h)[a.toNat!]?).map Loc.slot
          | _ => none
      match (sub l t1 a1).bind (fun l1 => sub l1 t2 a2) with
      | some l2 => (d.show (d.get l2), w)
      | none => ("?", w)
    | _, _ => ("?", w)
  | ["deserj", r, lim, hex] => deserInto w true r lim hex
  | ["deserm", r, lim, hex] => deserInto w false r lim hex
  | ["failat", d, k] =>
    let di := d.toNat!; let doc : Doc := w.docs[di]!
    ("", { w with docs := w.docs.set! di { doc with pl := { doc.pl with failAt := (doc.pl.calls + k.toNat!) :: doc.pl.failAt } } })
  | ["failfrom", d, k] =>
    let di := d.toNat!; let doc : Doc := w.docs[di]!
    ("", { w with docs := w.docs.set! di { doc with pl := { doc.pl with failFrom := some (doc.pl.calls + k.toNat!) } } })
  | ["reset"] => ("", W.initG w.geo w.strOverhead w.maxStrLen)
  | ["geo", a, b, c, so] => ("", W.initG ⟨a.toNat!, b.toNat!, c.toNat!, 16, 16⟩ so.toNat!)
  | ["geo", a, b, c, so, mx] => ("", W.initG ⟨a.toNat!, b.toNat!, c.toNat!, 16, 16⟩ so.toNat! mx.toNat!)
  | ["root", r, d] => ("", { w with refs := w.refs.set! r.toNat! ⟨some d.toNat!, some .root⟩ })
  | "mem" :: r :: r2 :: k :: _kk =>          -- optional 4th field: source kind of the key (irrelevant to a lookup)
    let s := w.refs[r2.toNat!]!
    let res : Ref := match s.doc, s.loc with
      | some di, some l => ⟨some di, ((w.docs[di]!).findKey l (unhex k)).map (fun p => Loc.slot p.2)⟩
      | di, _ => ⟨di, none⟩
    ("", { w with refs := w.refs.set! r.toNat! res })
  | "memw" :: r :: r2 :: k :: kk =>          -- optional 4th field: source kind of the key; "sjl" = linked (stored by address)
    let s := w.refs[r2.toNat!]!
    match s.doc, s.loc with
    | some di, some l =>
      let (m, d) := (w.docs[di]!).getOrAddMember l (unhex k) (kk == ["sjl"])
      match m with
      | some id => ("", { w with docs := w.docs.set! di (d.clearV (.slot id)), refs := w.refs.set! r.toNat! ⟨some di, some (.slot id)⟩ })
      | none => ("", { w with docs := w.docs.set! di d, refs := w.refs.set! r.toNat! ⟨some di, none⟩ })
    | di, _ => ("", { w with refs := w.refs.set! r.toNat! ⟨di, none⟩ })
  | ["elem", r, r2, i] =>
    let s := w.refs[r2.toNat!]!
    let res : Ref := match s.doc, s.loc with
      | some di, some l =>
        let d := w.docs[di]!
        match d.get l with
        | .arr h _ => ⟨some di, ((d.chain h)[i.toNat!]?).map Loc.slot⟩
        | _ => ⟨some di, none⟩
      | di, _ => ⟨di, none⟩
    ("", { w with refs := w.refs.set! r.toNat! res })
  | ["elemw", r, r2, i] =>
    let s := w.refs[r2.toNat!]!
    match s.doc, s.loc with
    | some di, some l =>
      let (m, d) := (w.docs[di]!).getOrAddElement l i.toNat!
      match m with
      | some id => ("", { w with docs := w.docs.set! di (d.clearV (.slot id)), refs := w.refs.set! r.toNat! ⟨some di, some (.slot id)⟩ })
      | none => ("", { w with docs := w.docs.set! di d, refs := w.refs.set! r.toNat! ⟨some di, none⟩ })
    | di, _ => ("", { w with refs := w.refs.set! r.toNat! ⟨di, none⟩ })
  | ["set", r, kind, arg] =>
    let s := w.refs[r.toNat!]!
    match s.doc, s.loc with
    | some di, some l => let (ok, w) := w.setAt di l kind arg; ((if ok then "1" else "0"), w)
    | _, _ => ((if w.unboundResult s kind then "1" else "0"), w)
  | "setm" :: r :: key :: kind :: arg :: kk =>
    let s := w.refs[r.toNat!]!
    match s.doc, s.loc with
    | some di, some l =>
      let (m, d) := (w.docs[di]!).getOrAddMember l (unhex key) (kk == ["sjl"])
      let w := { w with docs := w.docs.set! di d }
      match m with
      | some id => let (ok, w) := w.setAt di (.slot id) kind arg; ((if ok then "1" else "0"), w)
      | none => ((if w.unboundResult s kind then "1" else "0"), w)
    | _, _ => ((if w.unboundResult s kind then "1" else "0"), w)
  | ["sete", r, i, kind, arg] =>
    let s := w.refs[r.toNat!]!
    match s.doc, s.loc with
    | some di, some l =>
      let (m, d) := (w.docs[di]!).getOrAddElement l i.toNat!
      let w := { w with docs := w.docs.set! di d }
      match m with
      | some id => let (ok, w) := w.setAt di (.slot id) kind arg; ((if ok then "1" else "0"), w)
      | none => ((if w.unboundResult s kind then "1" else "0"), w)
    | _, _ => ((if w.unboundResult s kind then "1" else "0"), w)
  | ["add", r, kind, arg] =>
    let s := w.refs[r.toNat!]!
    match s.doc, s.loc with
    | some di, some l =>
      let d := w.docs[di]!
      let d := match d.get l with | .null => d.set l (.arr d.null d.null) | _ => d
      match d.get l with
      | .arr _ _ =>
        match d.allocVariant with
        | (none, d) => ("0", { w with docs := w.docs.set! di d })
        | (some id, d) =>
          let (ok, w) := ({ w with docs := w.docs.set! di d }).setAt di (.slot id) kind arg
          let d := w.docs[di]!
          if ok then ("1", { w with docs := w.docs.set! di (d.appendOne l id) })
          else ("0", { w with docs := w.docs.set! di (d.freeVariant id) })
      | _ => ("0", { w with docs := w.docs.set! di d })
    | _, _ => ("0", w)
  | ["addv", r, r2] =>
    let s := w.refs[r2.toNat!]!
    match s.doc, s.loc with
    | some di, some l =>
      let d := w.docs[di]!
      let d := match d.get l with | .null => d.set l (.arr d.null d.null) | _ => d
      match d.get l with
      | .arr _ _ =>
        let (m, d) := d.addElement l
        ("", { w with docs := w.docs.set! di d, refs := w.refs.set! r.toNat! ⟨some di, m.map Loc.slot⟩ })
      | _ => ("", { w with docs := w.docs.set! di d, refs := w.refs.set! r.toNat! ⟨some di, none⟩ })
    | di, _ => ("", { w with refs := w.refs.set! r.toNat! ⟨di, none⟩ })
  | [op, r, r2] =>
    if op == "toarr" || op == "toobj" then
      let s := w.refs[r2.toNat!]!
      match s.doc, s.loc with
      | some di, some l =>
        let d := (w.docs[di]!).clearV l
        let d := d.set l (if op == "toarr" then .arr d.null d.null else .obj d.null d.null)
        ("", { w with docs := w.docs.set! di d, refs := w.refs.set! r.toNat! ⟨some di, some l⟩ })
      | di, _ => ("", { w with refs := w.refs.set! r.toNat! ⟨di, none⟩ })
    else if op == "remi" then
      let s := w.refs[r.toNat!]!
      match s.doc, s.loc with
      | some di, some l =>
        let d := w.docs[di]!
        match d.get l with
        | .arr h _ =>
          match (d.chain h)[r2.toNat!]? with
          | some id => ("", { w with docs := w.docs.set! di (d.removeOne l id) })
          | none => ("", w)
        | _ => ("", w)
      | _, _ => ("", w)
    else if op == "remk" then
      let s := w.refs[r.toNat!]!
      match s.doc, s.loc with
      | some di, some l =>
        let d := w.docs[di]!
        match d.findKey l (unhex r2) with
        | some (k, v) => ("", { w with docs := w.docs.set! di (d.removePair l k v) })
        | none => ("", w)
      | _, _ => ("", w)
    else if op == "copydoc" then
      let di := r.toNat!; let ei := r2.toNat!
      let src := w.docs[ei]!
      let tmp := copyInto (newDocG w.geo w.strOverhead src.alloc w.maxStrLen) .root src src.root
      let w := w.flush
      let tagged := tmp.pl.log.map (fun e => s!"a{tmp.alloc}:{e}")
      let tmp := { tmp with pl := { tmp.pl with log := [] } }
      let old : Doc := (w.docs[di]!).clearAll
      let oldTagged := old.pl.log.map (fun e => s!"a{old.alloc}:{e}")
      ("", { w with docs := w.docs.set! di tmp, log := oldTagged ++ tagged ++ w.log })
    else if op == "swapdoc" then
      let di := r.toNat!; let ei := r2.toNat!
      let a : Doc := w.docs[di]!; let b : Doc := w.docs[ei]!
      ("", { w with docs := (w.docs.set! di b).set! ei a })
    else ("bad-op", w)
  | ["clear", r] =>
    let s := w.refs[r.toNat!]!
    match s.doc, s.loc with
    | some di, some l => ("", { w with docs := w.docs.set! di ((w.docs[di]!).clearV l) })
    | _, _ => ("", w)
  | ["cleardoc", d] => ("", { w with docs := w.docs.set! d.toNat! ((w.docs[d.toNat!]!).clearAll) })
  | ["shrink", d] =>
    let di := d.toNat!; let doc : Doc := w.docs[di]!
    ("", { w with docs := w.docs.set! di { doc with pl := PL.shrink doc.g doc.pl } })
  | ["nofail", d] =>
    let di := d.toNat!; let doc : Doc := w.docs[di]!
    ("", { w with docs := w.docs.set! di { doc with pl := { doc.pl with failAt := [], failFrom := none } } })
  | ["liveq"] =>
    -- which references may still be used: unbound (u), root of document d (R<d>), reachable slot of document d (S<d>), dangling (x).
    -- A reference seen dangling stays dangling until it is bound to something else (its slot id may be reused, the C++ pointer is stale).
    -- only value positions count: a slot that was released and handed out again as the KEY slot of a new member no longer designates a value
    let reach := w.docs.toList.map (fun (d : Doc) => valueSlotsF d d.fuel d.root)
    let isDangling (r : Ref) : Bool :=
      match r.doc, r.loc with
      | some di, some (.slot id) => !((reach.getD di []).contains id)
      | _, _ => false
    let dead := (List.range 10).map (fun i =>
      let r := w.refs[i]!
      match w.dead[i]! with
      | some old => if old == r then some old else (if isDangling r then some r else none)
      | none => if isDangling r then some r else none)
    let one (i : Nat) : String :=
      let r := w.refs[i]!
      if (dead.getD i none).isSome then "x" else
      match r.doc, r.loc with
      | some di, some .root => s!"R{di}"
      | some di, some (.slot _) => s!"S{di}"
      | some di, none => s!"u{di}"
      | none, _ => "u"
    (" ".intercalate ((List.range 10).map one), { w with dead := dead.toArray })
  | ["ledger"] =>
    -- live blocks per allocator: pools that hold a block, a heap-allocated pool table, string nodes
    let count (a : Nat) : Nat := w.docs.toList.foldl (fun acc (d : Doc) =>
      if d.alloc == a then acc + (d.pl.pools.filter (·.hasBlock)).length + (if d.pl.tableHeap then 1 else 0) + d.strings.length else acc) 0
    (s!"L0={count 0} L1={count 1} L2={count 2} ", w)
  | ["hser", d] =>
    let doc : Doc := w.docs[d.toNat!]!
    let v := doc.toVal doc.root
    let j := JSer.compact {} v; let m := MD.ser v
    (s!"{if j.isEmpty then "-" else hexBytes j} {if m.isEmpty then "-" else hexBytes m}", w)
  | ["obsx", r] =>
    let s := w.refs[r.toNat!]!
    let (v, bound) : Val × Bool := match s.doc, s.loc with
      | some di, some l => let d : Doc := w.docs[di]!; (d.toVal (d.get l), true)
      | _, _ => (.null, false)
    let _ := bound
    let gi (t : Conv.IT) : String := match Conv.asInt {} v t with | some z => toString z | none => "UB"
    let f := match Conv.asFloatBits {} v SF.b32 with | some b => hexNat b 8 | none => "UB"
    let dd := match Conv.asFloatBits {} v SF.b64 with | some b => hexNat b 16 | none => "UB"
    let asBool : Bool := match v with
      | .null => false | .bool b => b
      | .num (.uint n) => n != 0 | .num (.sint z) => z != 0
      | .num (.f32 b) => b % 2^31 != 0 | .num (.f64 b) => b % 2^63 != 0
      | _ => true
    let b (x : Bool) := if x then "1" else "0"
    let isStr := match v with | .str _ => true | _ => false
    let isb := b (Conv.isIntV v Conv.i64) ++ b (Conv.isFloatV v) ++ b (match v with | .bool _ => true | _ => false) ++ b isStr ++ b isStr ++
               b (match v with | .arr _ => true | _ => false) ++ b (match v with | .obj _ => true | _ => false) ++ b (match v with | .null => true | _ => false)
    let str := match v with | .str x => "S" ++ hexBytes x | _ => "null"
    (s!"i64={gi Conv.i64} u64={gi Conv.u64} i8={gi Conv.i8} f={f} d={dd} b={b asBool} is={isb} str={str}", w)
  | _ => ("bad-op", w)
end DH
