/- Prototype L0 document model: slots with next pointers, collections with head/tail, extension slots,
   reference-counted de-duplicated strings, on top of the pool model PL. Mirrors VariantImpl.hpp,
   CollectionImpl.hpp, ArrayImpl.hpp, ObjectImpl.hpp, StringPool.hpp, ResourceManager*.hpp. -/
import Std.Data.HashMap
import AJ.Model.PL
import AJ.Model.JD
namespace DL
open JD (Byte storeDouble Num)
/- All definitions of this file are total (structural recursion only). Walks along `next` links and recursion over
   the tree are by structural recursion on a fuel argument; the fuel `Doc.fuel = nullSlot + 1` exceeds the number of
   distinct non-null slot ids of the geometry, hence the length of every acyclic chain and the depth of every tree
   without sharing (proved in AJ/Lemmas/DocInv.lean: under `WF` the fuel never runs out). -/

inductive VData
  | null | bool (b : Bool) | i32 (v : Int) | u32 (v : Nat) | f32 (bits : Nat)
  | i64 (slot : Nat) | u64 (slot : Nat) | f64 (slot : Nat)
  | linked (s : List Byte) | owned (node : Nat) | raw (node : Nat)
  | arr (head tail : Nat) | obj (head tail : Nat)
deriving Repr, Inhabited

inductive Cell
  | free
  | ext (payload : Int)            -- 64-bit payload (int value or double bits)
  | var (v : VData) (next : Nat)
deriving Repr, Inhabited

structure StrNode where
  id : Nat
  bytes : List Byte
  refs : Nat
deriving Repr

structure Doc where
  g : PL.Geo
  alloc : Nat                       -- allocator identity (tag in the log)
  pl : PL.St
  cells : Std.HashMap Nat Cell := {}
  strings : List StrNode := []
  nextNode : Nat := 0
  overflowed : Bool := false
  root : VData := .null
  strOverhead : Nat := 15           -- sizeForLength(n) = n + strOverhead
  maxStrLen : Nat := 65535          -- StringNode::maxLength = 2^(8*ARDUINOJSON_STRING_LENGTH_SIZE) - 1

instance : Inhabited Doc := ⟨{ g := ⟨256, 4, 4, 16, 16⟩, alloc := 0, pl := PL.init ⟨256, 4, 4, 16, 16⟩ }⟩

def Doc.null (d : Doc) : Nat := d.g.nullSlot
/-- fuel for every walk: more than the number of distinct non-null slot ids -/
def Doc.fuel (d : Doc) : Nat := d.g.nullSlot + 1
/-- content of a slot (slots never written are free) -/
def Doc.cell (d : Doc) (id : Nat) : Cell := d.cells.getD id .free

inductive Loc | root | slot (id : Nat)
deriving Repr, BEq, Inhabited

def Doc.get (d : Doc) : Loc → VData
  | .root => d.root
  | .slot id => match d.cell id with | .var v _ => v | _ => .null
def Doc.nextOf (d : Doc) (id : Nat) : Nat :=
  match d.cell id with | .var _ n => n | _ => d.null
def Doc.set (d : Doc) (l : Loc) (v : VData) : Doc :=
  match l with
  | .root => { d with root := v }
  | .slot id => { d with cells := d.cells.insert id (.var v (d.nextOf id)) }
def Doc.setNext (d : Doc) (id n : Nat) : Doc :=
  match d.cell id with
  | .var v _ => { d with cells := d.cells.insert id (.var v n) }
  | _ => d

/-! strings -/
def Doc.saveString (d : Doc) (s : List Byte) : Option Nat × Doc :=
  match d.strings.find? (·.bytes == s) with
  | some n => (some n.id, { d with strings := d.strings.map (fun x => if x.id == n.id then { x with refs := x.refs + 1 } else x) })
  | none =>
    -- StringNode::create refuses a length beyond maxLength without calling the allocator; ResourceManager::saveString sets the flag
    if s.length > d.maxStrLen then (none, { d with overflowed := true }) else
    let (ok, pl) := d.pl.alloc (s.length + d.strOverhead)
    if !ok then (none, { d with pl := pl, overflowed := true })
    else (some d.nextNode, { d with pl := pl, strings := ⟨d.nextNode, s, 1⟩ :: d.strings, nextNode := d.nextNode + 1 })
def Doc.derefString (d : Doc) (node : Nat) : Doc :=
  match d.strings.find? (·.id == node) with
  | none => d
  | some n =>
    if n.refs ≤ 1 then { d with strings := d.strings.filter (·.id != node), pl := d.pl.dealloc }
    else { d with strings := d.strings.map (fun x => if x.id == node then { x with refs := x.refs - 1 } else x) }
def Doc.strBytes (d : Doc) (node : Nat) : List Byte :=
  match d.strings.find? (·.id == node) with | some n => n.bytes | none => []

/-! slots -/
def Doc.allocVariant (d : Doc) : Option Nat × Doc :=
  match PL.allocSlot d.g d.pl with
  | (some id, pl) => (some id, { d with pl := pl, cells := d.cells.insert id (.var .null d.null) })
  | (none, pl) => (none, { d with pl := pl, overflowed := true })
def Doc.allocExt (d : Doc) (payload : Int) : Option Nat × Doc :=
  match PL.allocSlot d.g d.pl with
  | (some id, pl) => (some id, { d with pl := pl, cells := d.cells.insert id (.ext payload) })
  | (none, pl) => (none, { d with pl := pl, overflowed := true })
def Doc.extOf (d : Doc) (id : Nat) : Int := match d.cell id with | .ext p => p | _ => 0

/-- release slot `id` to the pool -/
def Doc.freeCell (d : Doc) (id : Nat) : Doc :=
  { d with pl := PL.freeSlot d.pl id, cells := d.cells.insert id .free }

/-- CollectionData::clear: walk the chain from `id`, releasing every slot with `free1` (which clears the variant
    stored there first); the `next` link is read before the slot is released. -/
def walkFree (free1 : Doc → Nat → Doc) : Nat → Doc → Nat → Doc
  | 0, d, _ => d
  | w+1, d, id =>
    if id = d.null then d else
    let next := d.nextOf id
    walkFree free1 w (free1 d id) next

/-- VariantData::clear on the value stored at `l` (fuel = nesting depth that can be descended) -/
def Doc.clearVF : Nat → Doc → Loc → Doc
  | 0, d, l => d.set l .null
  | f+1, d, l =>
    let v := d.get l
    let d := match v with
      | .owned n | .raw n => d.derefString n
      | _ => d
    let d := match v with
      | .i64 s | .u64 s | .f64 s => d.freeCell s
      | _ => d
    let d := match v with
      | .arr h _ | .obj h _ => walkFree (fun d id => (Doc.clearVF f d (.slot id)).freeCell id) d.fuel d h
      | _ => d
    d.set l .null
def Doc.clearV (d : Doc) (l : Loc) : Doc := Doc.clearVF d.fuel d l
/-- ResourceManager::freeVariant: clear the variant, then release its slot -/
def Doc.freeVariant (d : Doc) (id : Nat) : Doc := (d.clearV (.slot id)).freeCell id
/-- CollectionData::clear: free every slot of the chain -/
def Doc.clearChain (d : Doc) (id : Nat) : Doc := walkFree Doc.freeVariant d.fuel d id

/-! scalars -/
inductive Arg
  | null | bool (b : Bool) | sint (v : Int) | uint (v : Nat) | f32 (bits : Nat) | f64 (bits : Nat)
  | strLinked (s : List Byte) | strCopied (s : List Byte) | raw (s : List Byte)
deriving Repr

/-- set a scalar/string on an already cleared variant; returns success as the C++ converter does -/
def Doc.setArg (d : Doc) (l : Loc) (a : Arg) : Bool × Doc :=
  match a with
  | .null => (!d.overflowed, d)
  | .bool b => (true, d.set l (.bool b))
  | .sint v =>
    if -2^31 ≤ v ∧ v < 2^31 then (true, d.set l (.i32 v)) else
    match d.allocExt v with
    | (some s, d) => (true, d.set l (.i64 s))
    | (none, d) => (false, d)
  | .uint v =>
    if v < 2^32 then (true, d.set l (.u32 v)) else
    match d.allocExt v with
    | (some s, d) => (true, d.set l (.u64 s))
    | (none, d) => (false, d)
  | .f32 b => (true, d.set l (.f32 b))
  | .f64 b =>
    match storeDouble b with
    | .f32 f => (true, d.set l (.f32 f))
    | _ =>
      match d.allocExt b with
      | (some s, d) => (true, d.set l (.f64 s))
      | (none, d) => (false, d)
  | .strLinked s => let d := d.set l (.linked s); (!d.overflowed, d)
  | .strCopied s =>
    match d.saveString s with
    | (some n, d) => let d := d.set l (.owned n); (!d.overflowed, d)
    | (none, d) => (!d.overflowed, d)
  | .raw s =>
    match d.saveString s with
    | (some n, d) => let d := d.set l (.raw n); (!d.overflowed, d)
    | (none, d) => (!d.overflowed, d)

/-! collections -/
def Doc.appendOne (d : Doc) (l : Loc) (id : Nat) : Doc :=
  match d.get l with
  | .arr h t =>
    if t ≠ d.null then (d.setNext t id).set l (.arr h id) else d.set l (.arr id id)
  | _ => d
def Doc.appendPair (d : Doc) (l : Loc) (k v : Nat) : Doc :=
  let d := d.setNext k v
  match d.get l with
  | .obj h t =>
    if t ≠ d.null then (d.setNext t k).set l (.obj h v) else d.set l (.obj k v)
  | _ => d

/-- ids met when following `next` from `id` until the null id -/
def Doc.chainF (d : Doc) : Nat → Nat → List Nat
  | 0, _ => []
  | f+1, id => if id = d.null then [] else id :: Doc.chainF d f (d.nextOf id)
def Doc.chain (d : Doc) (id : Nat) : List Nat := d.chainF d.fuel id

def Doc.keyBytes (d : Doc) (id : Nat) : Option (List Byte) :=
  match d.get (.slot id) with
  | .linked s => some s
  | .owned n => some (d.strBytes n)
  | _ => none

def Doc.findIn (d : Doc) (key : List Byte) : List Nat → Option (Nat × Nat)
  | k :: v :: rest => if d.keyBytes k = some key then some (k, v) else Doc.findIn d key rest
  | _ => none
/-- findKey: returns (key slot, value slot) -/
def Doc.findKey (d : Doc) (l : Loc) (key : List Byte) : Option (Nat × Nat) :=
  match d.get l with
  | .obj h _ => d.findIn key (d.chain h)
  | _ => none

def Doc.addElement (d : Doc) (l : Loc) : Option Nat × Doc :=
  match d.allocVariant with
  | (some id, d) => (some id, d.appendOne l id)
  | (none, d) => (none, d)

/-- ObjectData::addMember with a copied or linked key -/
def Doc.addMember (d : Doc) (l : Loc) (key : List Byte) (linked : Bool) : Option Nat × Doc :=
  match d.allocVariant with
  | (none, d) => (none, d)
  | (some k, d) =>
    match d.allocVariant with
    | (none, d) => (none, d)
    | (some v, d) =>
      if linked then (some v, (d.set (.slot k) (.linked key)).appendPair l k v)
      else
        match d.saveString key with
        | (some n, d) => (some v, (d.set (.slot k) (.owned n)).appendPair l k v)
        | (none, d) => (none, d)

def Doc.getOrAddMember (d : Doc) (l : Loc) (key : List Byte) (linked : Bool) : Option Nat × Doc :=
  let d := match d.get l with | .null => d.set l (.obj d.null d.null) | _ => d
  match d.get l with
  | .obj _ _ =>
    match d.findKey l key with
    | some (_, v) => (some v, d)
    | none => d.addMember l key linked
  | _ => (none, d)

def Doc.getOrAddElement (d : Doc) (l : Loc) (index : Nat) : Option Nat × Doc :=
  let d := match d.get l with | .null => d.set l (.arr d.null d.null) | _ => d
  match d.get l with
  | .arr h _ =>
    let ch := d.chain h
    if index < ch.length then (ch[index]?, d) else
    let rec pad (fuel : Nat) (d : Doc) (n : Nat) (last : Option Nat) : Option Nat × Doc :=
      match fuel with
      | 0 => (last, d)
      | fuel+1 =>
        if n == 0 then (last, d) else
        match d.addElement l with
        | (some id, d) => pad fuel d (n - 1) (some id)
        | (none, d) => (none, d)
    pad (index + 2) d (index + 1 - ch.length) none
  | _ => (none, d)

def prevIn (target : Nat) : List Nat → Option Nat
  | a :: b :: rest => if b = target then some a else prevIn target (b :: rest)
  | _ => none
def Doc.prevOf (d : Doc) (h target : Nat) : Option Nat := prevIn target (d.chain h)

/-- CollectionData::removeOne -/
def Doc.removeOne (d : Doc) (l : Loc) (id : Nat) : Doc :=
  let fix (h t : Nat) (mk : Nat → Nat → VData) : Doc :=
    let prev := d.prevOf h id
    let next := d.nextOf id
    let d := match prev with | some p => d.setNext p next | none => d
    let h' := if prev.isNone then next else h
    let t' := if next = d.null then (prev.getD d.null) else t
    let d := d.set l (mk h' t')
    d.freeVariant id
  match d.get l with
  | .arr h t => fix h t .arr
  | .obj h t => fix h t .obj
  | _ => d
def Doc.removePair (d : Doc) (l : Loc) (k v : Nat) : Doc :=
  let d := d.setNext k (d.nextOf v)
  let d := d.freeVariant v
  d.removeOne l k

/-! deep copy between documents (JsonVariantCopier): source is read from `src`, destination lives in `d` -/
/-- key bytes and "linked" flag of a source key slot, as `JsonObject::set` passes them to `operator[]` -/
def Doc.keyOf (src : Doc) (k : Nat) : List Byte × Bool :=
  match src.get (.slot k) with
  | .linked s => (s, true)
  | .owned n => (src.strBytes n, false)
  | _ => ([], false)
/-- JsonObject::set(JsonObjectConst): `(*this)[key].set(value)` for each member, stopping at the first one that reports failure.
    The member proxy gets or adds the member (failure: stop); the set reports `!overflowed()` - the flag is sticky, so in a document
    that is already flagged the first member is copied and the loop stops. -/
def copyMembers (l : Loc) (src : Doc) (copy : Doc → Nat → Nat → Doc) (d : Doc) : List Nat → Doc
  | k :: v :: rest =>
    let (key, linked) := src.keyOf k
    match d.getOrAddMember l key linked with
    | (some m, d) =>
      let d := copy d m v
      if d.overflowed then d else copyMembers l src copy d rest
    | (none, d) => d
  | _ => d
/-- JsonArray::set(JsonArrayConst): `add(element)` for each element, stopping at the first add that reports failure.
    add = allocVariant (failure: stop), set the new slot to a copy of the element; the set reports `!overflowed()`; on failure
    the slot is released again (with whatever was copied into it) and the loop stops, otherwise the slot is appended. -/
def copyElems (l : Loc) (copy : Doc → Nat → Nat → Doc) : Doc → List Nat → Doc
  | d, [] => d
  | d, e :: rest =>
    match d.allocVariant with
    | (none, d) => d
    | (some id, d) =>
      let d := copy d id e
      if d.overflowed then d.freeVariant id else copyElems l copy (d.appendOne l id) rest
def copyIntoF : Nat → Doc → Loc → Doc → VData → Doc
  | 0, d, l, _, _ => d.clearV l
  | f+1, d, l, src, sv =>
  let d := d.clearV l
  match sv with
  | .null => d
  | .bool b => (d.setArg l (.bool b)).2
  | .i32 v => (d.setArg l (.sint v)).2
  | .u32 v => (d.setArg l (.uint v)).2
  | .f32 b => (d.setArg l (.f32 b)).2
  | .i64 s => (d.setArg l (.sint (src.extOf s))).2
  | .u64 s => (d.setArg l (.uint (src.extOf s).toNat)).2
  | .f64 s => (d.setArg l (.f64 (src.extOf s).toNat)).2
  | .linked s => (d.setArg l (.strLinked s)).2
  | .owned n => (d.setArg l (.strCopied (src.strBytes n))).2
  | .raw n => (d.setArg l (.raw (src.strBytes n))).2
  | .arr h _ =>
    let d := d.set l (.arr d.null d.null)
    copyElems l (fun d id e => copyIntoF f d (.slot id) src (src.get (.slot e))) d (src.chain h)
  | .obj h _ =>
    let d := d.set l (.obj d.null d.null)
    copyMembers l src (fun d m v => copyIntoF f d (.slot m) src (src.get (.slot v))) d (src.chain h)
def copyInto (d : Doc) (l : Loc) (src : Doc) (sv : VData) : Doc := copyIntoF src.fuel d l src sv

def Doc.clearAll (d : Doc) : Doc :=
  let pl := PL.clear d.g d.pl
  let pl := d.strings.foldl (fun pl _ => pl.dealloc) pl
  { d with pl := pl, cells := {}, strings := [], overflowed := false, root := .null }

/-! canonical view -/
def hexDigit (n : Nat) : Char := if n < 10 then Char.ofNat (48 + n) else Char.ofNat (87 + n)
def hexBytes (bs : List Byte) : String := String.ofList (bs.flatMap (fun b => [hexDigit (b.toNat / 16), hexDigit (b.toNat % 16)]))
def hexNat (n digits : Nat) : String := String.ofList ((List.range digits).reverse.map (fun i => hexDigit (n / 16^i % 16)))

/-- consecutive (key slot, value slot) pairs of an object chain -/
def pairUp {α} (f : Nat → Nat → α) : List Nat → List α
  | k :: v :: rest => f k v :: pairUp f rest
  | _ => []

def Doc.showF (d : Doc) : Nat → VData → String
  | 0, _ => "N"
  | f+1, v =>
  match v with
  | .null => "N" | .bool true => "T" | .bool false => "F"
  | .i32 x => s!"I{x}" | .u32 x => s!"U{x}" | .f32 b => "f" ++ hexNat b 8
  | .i64 s => s!"I{d.extOf s}" | .u64 s => s!"U{d.extOf s}" | .f64 s => "d" ++ hexNat (d.extOf s).toNat 16
  | .linked s => "S" ++ hexBytes s | .owned n => "S" ++ hexBytes (d.strBytes n) | .raw n => "R" ++ hexBytes (d.strBytes n)
  | .arr h _ => "[" ++ ",".intercalate ((d.chain h).map (fun e => Doc.showF d f (d.get (.slot e)))) ++ "]"
  | .obj h _ =>
    "{" ++ ",".intercalate (pairUp (fun k v => hexBytes ((d.keyBytes k).getD []) ++ ":" ++ Doc.showF d f (d.get (.slot v))) (d.chain h)) ++ "}"
def Doc.show (d : Doc) (v : VData) : String := d.showF d.fuel v
instance : Inhabited JD.Val := ⟨.null⟩

/-- the value as an ordered tree -/
def Doc.toValF (d : Doc) : Nat → VData → JD.Val
  | 0, _ => .null
  | f+1, v =>
  match v with
  | .null => .null | .bool b => .bool b
  | .i32 x => .num (.sint x) | .u32 x => .num (.uint x) | .f32 b => .num (.f32 b)
  | .i64 s => .num (.sint (d.extOf s)) | .u64 s => .num (.uint (d.extOf s).toNat) | .f64 s => .num (.f64 (d.extOf s).toNat)
  | .linked s => .str s | .owned n => .str (d.strBytes n) | .raw n => .raw (d.strBytes n)
  | .arr h _ => .arr ((d.chain h).map (fun e => Doc.toValF d f (d.get (.slot e))))
  | .obj h _ => .obj (pairUp (fun k v => ((d.keyBytes k).getD [], Doc.toValF d f (d.get (.slot v)))) (d.chain h))
def Doc.toVal (d : Doc) (v : VData) : JD.Val := d.toValF d.fuel v
/-- slot ids of all variants reachable from `v` (elements, keys and member values, recursively) -/
def Doc.reachF (d : Doc) : Nat → VData → List Nat
  | 0, _ => []
  | f+1, v =>
  match v with
  | .arr h _ | .obj h _ => (d.chain h).flatMap (fun e => e :: Doc.reachF d f (d.get (.slot e)))
  | _ => []
def Doc.reach (d : Doc) (v : VData) : List Nat := d.reachF d.fuel v
def Doc.size (d : Doc) (v : VData) : Nat :=
  match v with | .arr h _ => (d.chain h).length | .obj h _ => (d.chain h).length / 2 | _ => 0
def Doc.nestingF (d : Doc) : Nat → VData → Nat
  | 0, _ => 0
  | f+1, v =>
  match v with
  | .arr h _ => 1 + ((d.chain h).map (fun e => Doc.nestingF d f (d.get (.slot e)))).foldl max 0
  | .obj h _ => 1 + ((d.chain h).map (fun e => Doc.nestingF d f (d.get (.slot e)))).foldl max 0
  | _ => 0
def Doc.nesting (d : Doc) (v : VData) : Nat := d.nestingF d.fuel v
end DL
