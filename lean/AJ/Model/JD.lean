/- Prototype of the JsonDeserializer model (unfiltered), Latch included. Mirrors
   src/ArduinoJson/Json/JsonDeserializer.hpp and Numbers/parseNumber.hpp of the pinned tree. -/
import AJ.Model.SF
import AJ.Gen.Tables
namespace JD
open SF

abbrev Byte := UInt8

structure Cfg where
  comments : Bool := false
  nan : Bool := false
  inf : Bool := false
  decodeUnicode : Bool := true
  maxStrLen : Nat := 65535

inductive Code | ok | empty | incomplete | invalid | noMemory | tooDeep | fuel
deriving DecidableEq, Repr

inductive Num
  | uint (n : Nat) | sint (n : Int) | f32 (bits : Nat) | f64 (bits : Nat)
deriving Repr, DecidableEq

inductive Val
  | null | bool (b : Bool) | num (n : Num) | str (s : List Byte) | raw (s : List Byte)
  | arr (xs : List Val) | obj (ms : List (List Byte × Val))
deriving Repr

/-! ## Latch over a reader -/
structure Latch where
  unread : List Byte
  cur : Byte := 0
  loaded : Bool := false
  pos : Nat := 0          -- bytes taken from the reader
deriving Repr

def Latch.current (l : Latch) : Byte × Latch :=
  if l.loaded then (l.cur, l) else
  match l.unread with
  | [] => (0, { l with cur := 0, loaded := true })
  | c :: cs => (c, { l with unread := cs, cur := c, loaded := true, pos := l.pos + 1 })

def Latch.move (l : Latch) : Latch := { l with loaded := false }

/-! ## parseNumber -/
def isDigit (c : Byte) : Bool := 0x30 ≤ c && c ≤ 0x39
@[irreducible] def digitVal (c : Byte) : Nat := c.toNat - 48

def pos64 : List Nat := Gen.pos64
def neg64 : List Nat := Gen.neg64
def pos32 : List Nat := Gen.pos32
def neg32 : List Nat := Gen.neg32

/-- make_float: `none` = table index out of bounds (a fault of the C++) -/
def makeFloat (f : Fmt) (tblPos tblNeg : List Nat) (m : Nat) (e : Int) : Option Nat :=
  let tbl := if e > 0 then tblPos else tblNeg
  let rec go (fuel : Nat) (acc : Nat) (e : Nat) (idx : Nat) : Option Nat :=
    match fuel with
    | 0 => some acc
    | fuel+1 =>
      if e = 0 then some acc else
      if e % 2 = 1 then
        match tbl[idx]? with
        | none => none
        | some t => go fuel (mul f acc t) (e / 2) (idx + 1)
      else go fuel acc (e / 2) (idx + 1)
  go 64 m e.natAbs 0

inductive PNum | invalid | uint (n : Nat) | sint (n : Int) | f32 (bits : Nat) | f64 (bits : Nat) | fault
deriving Repr, DecidableEq

/-- leading digits accumulated into the 64-bit mantissa; stops before a digit that would overflow -/
def takeDigitsMant (maxU : Nat) : Nat → List Byte → Nat × List Byte
  | mant, [] => (mant, [])
  | mant, c :: cs =>
    if isDigit c then
      if mant > maxU / 10 then (mant, c :: cs)
      else if mant * 10 > maxU - digitVal c then (mant, c :: cs)
      else takeDigitsMant maxU (mant * 10 + digitVal c) cs
    else (mant, c :: cs)

def reduceMant (mmax : Nat) : Nat → Nat → Int → Nat × Int
  | 0, m, off => (m, off)
  | fuel+1, m, off => if m > mmax then reduceMant mmax fuel (m / 10) (off + 1) else (m, off)

def skipDigitsCount : List Byte → Int → List Byte × Int
  | [], off => ([], off)
  | c :: cs, off => if isDigit c then skipDigitsCount cs (off + 1) else (c :: cs, off)

def fracDigits (mmax : Nat) : List Byte → Nat → Int → List Byte × Nat × Int
  | [], m, off => ([], m, off)
  | c :: cs, m, off =>
    if isDigit c then
      if m < mmax / 10 then fracDigits mmax cs (m * 10 + digitVal c) (off - 1)
      else fracDigits mmax cs m off
    else (c :: cs, m, off)

/-- exponent digits, saturating (the accumulator stops growing once it reaches 100000) -/
def expDigits : List Byte → Nat → List Byte × Nat
  | [], e => ([], e)
  | c :: cs, e =>
    if isDigit c then expDigits cs (if e < 100000 then e * 10 + digitVal c else e)
    else (c :: cs, e)

def negBits (f : Fmt) (neg : Bool) (b : Nat) : Nat := if neg then (if b ≥ f.signBit then b - f.signBit else b + f.signBit) else b

def parseNumber (cfg : Cfg) (s : List Byte) : PNum :=
  let (neg, s) := match s with
    | 0x2D :: r => (true, r)
    | 0x2B :: r => (false, r)
    | _ => (false, s)
  let c0 := s.headD 0
  if cfg.nan && (c0 == 0x6E || c0 == 0x4E) then .f64 (nanBits b64) else
  if cfg.inf && (c0 == 0x69 || c0 == 0x49) then .f64 (infBits b64 neg) else
  if !(isDigit c0) && c0 != 0x2E then .invalid else
  let maxU := 2^64 - 1
  let mmax := Gen.mantissa_max64
  let emax : Int := Gen.exponent_max64
  let (mant, s) := takeDigitsMant maxU 0 s
  if s.isEmpty && !neg then .uint mant else
  if s.isEmpty && neg && mant ≤ 2^63 then .sint (-(mant : Int)) else
  let (mant, off) := reduceMant mmax 32 mant 0
  let (s, off) := skipDigitsCount s off
  let (s, mant, off) := match s with
    | 0x2E :: r => fracDigits mmax r mant off
    | _ => (s, mant, off)
  let (s, e) : List Byte × Int :=
    match s with
    | c :: r =>
      if c == 0x65 || c == 0x45 then
        let (negE, r) := match r with
          | 0x2D :: r' => (true, r')
          | 0x2B :: r' => (false, r')
          | _ => (false, r)
        let (r', e) := expDigits r 0
        (r', if negE then -(e : Int) else (e : Int))
      else (s, 0)
    | [] => ([], 0)
  let e := e + off
  if !s.isEmpty then .invalid else
  (
    if mant == 0 then .f32 (negBits b32 neg 0) else
    if e > emax then .f64 (infBits b64 neg) else
    if e < -(emax + 17) then .f32 (negBits b32 neg 0) else
    let isDouble := e < -(Gen.exponent_max32 : Int) || e > (Gen.exponent_max32 : Int) || mant > Gen.mantissa_max32
    let viaDouble : PNum :=
      match makeFloat b64 pos64 neg64 (ofNat b64 mant) e with
      | none => .fault
      | some r => .f64 (negBits b64 neg r)
    if isDouble then viaDouble
    else
      match makeFloat b32 pos32 neg32 (ofNat b32 mant) e with
      | none => .fault
      | some r => if isInf b32 r then viaDouble else .f32 (negBits b32 neg r)
  )

/-! ## binary64 -> binary32 and back, for VariantData::setFloat(double) -/
def cvt (src dst : Fmt) (bits : Nat) : Nat :=
  match decode src bits with
  | .nan => nanBits dst
  | .inf n => infBits dst n
  | .fin n m e => roundPos dst n m e

def storeDouble (bits : Nat) : Num :=
  let f := cvt b64 b32 bits
  -- value == float(value) ?  (NaN is never equal)
  match decode b64 bits with
  | .nan => .f64 bits
  | _ => if cvt b32 b64 f == bits || (decode b64 bits == .fin false 0 (1 - 1023 - 52) ∨ false) then .f32 f else
         (match decode b64 bits, decode b32 f with
          | .fin _ 0 _, .fin _ 0 _ => .f32 f       -- ±0 == ±0
          | _, _ => .f64 bits)

/-! ## the parser -/
structure St where
  l : Latch
  found : Bool := false
deriving Repr

def cur (s : St) : Byte × St := let (c, l) := s.l.current; (c, { s with l := l })
def mv (s : St) : St := { s with l := s.l.move }

def isWs (c : Byte) : Bool := c == 0x20 || c == 0x09 || c == 0x0D || c == 0x0A

def skipBlock : Nat → Bool → St → Code × St      -- inside /* ... */
  | 0, _, s => (.fuel, s)
  | fuel+1, wasStar, s =>
    let (c, s) := cur s
    if c == 0 then (.incomplete, s)
    else if c == 0x2F && wasStar then (.ok, mv s)
    else skipBlock fuel (c == 0x2A) (mv s)

def skipLine : Nat → St → Code × St               -- after "//": move first, then look
  | 0, s => (.fuel, s)
  | fuel+1, s =>
    let s := mv s
    let (c, s) := cur s
    if c == 0 then (.incomplete, s) else if c == 0x0A then (.ok, s) else skipLine fuel s

def skipSpaces (cfg : Cfg) : Nat → St → Code × St
  | 0, s => (.fuel, s)
  | fuel+1, s =>
    let (c, s) := cur s
    if c == 0 then ((if s.found then .incomplete else .empty), s)
    else if isWs c then skipSpaces cfg fuel (mv s)
    else if cfg.comments && c == 0x2F then
      let s := mv s
      let (d, s) := cur s
      if d == 0x2A then
        match skipBlock fuel false (mv s) with
        | (.ok, s) => skipSpaces cfg fuel s
        | r => r
      else if d == 0x2F then
        match skipLine fuel s with
        | (.ok, s) => skipSpaces cfg fuel s
        | r => r
      else (.invalid, s)
    else (.ok, { s with found := true })

def skipKeyword : List Byte → St → Code × St
  | [], s => (.ok, s)
  | k :: ks, s =>
    let (c, s) := cur s
    if c == 0 then (.incomplete, s) else if c != k then (.invalid, s) else skipKeyword ks (mv s)

def decodeHex (c : Byte) : Nat :=
  -- char is signed in the C++: bytes ≥ 0x80 are negative, hence `<= '9'`
  if c ≤ 0x39 || c ≥ 0x80 then (c.toNat + 256 - 0x30) % 256
  else
    let u := c &&& 0xDF
    if u < 0x41 then 0xFF else (u.toNat + 256 - 0x41 + 10) % 256

def parseHex4 : Nat → Nat → St → Code × Nat × St
  | 0, acc, s => (.ok, acc, s)
  | n+1, acc, s =>
    let (c, s) := cur s
    if c == 0 then (.incomplete, acc, s) else
    let v := decodeHex c
    if v > 0x0F then (.invalid, acc, s) else parseHex4 n ((acc * 16 + v) % 65536) (mv s)

/-- `char((x | 0x80) & 0xBF)` -/
def contByte (x : Nat) : Nat := ((x ||| 0x80) &&& 0xBF) % 256

/-- `Utf8::encodeCodepoint(uint32_t)`: the bytes are produced into a reverse buffer and emitted back to front;
    `codepoint16` is a `uint16_t` -/
def encodeCodepoint (cp : Nat) : List Byte :=
  if cp < 0x80 then [UInt8.ofNat cp] else
  let b1 := contByte cp
  let c16 := (cp >>> 6) % 65536
  if c16 < 0x20 then [UInt8.ofNat ((c16 ||| 0xC0) % 256), UInt8.ofNat b1]
  else
    let b2 := contByte c16
    let c16 := c16 >>> 6
    if c16 < 0x10 then [UInt8.ofNat ((c16 ||| 0xE0) % 256), UInt8.ofNat b2, UInt8.ofNat b1]
    else
      let b3 := contByte c16
      let c16 := c16 >>> 6
      [UInt8.ofNat ((c16 ||| 0xF0) % 256), UInt8.ofNat b3, UInt8.ofNat b2, UInt8.ofNat b1]

/-- `EscapeSequence::unescapeChar`, as a lookup in the table generated from the source -/
def unescapeChar (c : Byte) : Byte :=
  match Gen.unescapeNZ.find? (fun p => p.1 == c.toNat) with
  | some p => UInt8.ofNat p.2
  | none => 0

/-- parseQuotedString; `acc` reversed; `hi` = pending high surrogate (10 bits) -/
def parseQuoted (cfg : Cfg) (stop : Byte) : Nat → List Byte → Nat → St → Code × List Byte × St
  | 0, acc, _, s => (.fuel, acc, s)
  | fuel+1, acc, hi, s =>
    let (c, s) := cur s
    let s := mv s
    if c == stop then ((if acc.length > cfg.maxStrLen then .noMemory else .ok), acc.reverse, s)
    else if c == 0 then (.incomplete, acc.reverse, s)
    else if c == 0x5C then
      let (d, s) := cur s
      if d == 0 then (.incomplete, acc.reverse, s)
      else if d == 0x75 then
        if cfg.decodeUnicode then
          match parseHex4 4 0 (mv s) with
          | (.ok, cu, s) =>
            if 0xD800 ≤ cu && cu < 0xDC00 then parseQuoted cfg stop fuel acc (cu % 1024) s
            else if 0xDC00 ≤ cu && cu < 0xE000 then
              parseQuoted cfg stop fuel ((encodeCodepoint (0x10000 + (hi * 1024 + cu % 1024))).reverse ++ acc) hi s
            else parseQuoted cfg stop fuel ((encodeCodepoint cu).reverse ++ acc) hi s
          | (e, _, s) => (e, acc.reverse, s)
        else parseQuoted cfg stop fuel (0x5C :: acc) hi s      -- keep '\', 'u' is re-read next round
      else
        let u := unescapeChar d
        if u == 0 then (.invalid, acc.reverse, s) else parseQuoted cfg stop fuel (u :: acc) hi (mv s)
    else parseQuoted cfg stop fuel (c :: acc) hi s

def inUnquoted (c : Byte) : Bool := (0x30 ≤ c && c ≤ 0x39) || (0x5F ≤ c && c ≤ 0x7A) || (0x41 ≤ c && c ≤ 0x5A)

def parseUnquoted : Nat → List Byte → St → List Byte × St
  | 0, acc, s => (acc.reverse, s)
  | fuel+1, acc, s =>
    let (c, s) := cur s
    if inUnquoted c then parseUnquoted fuel (c :: acc) (mv s) else (acc.reverse, s)

def inNumber (cfg : Cfg) (c : Byte) : Bool :=
  (0x30 ≤ c && c ≤ 0x39) || c == 0x2B || c == 0x2D || c == 0x2E ||
  (if cfg.nan || cfg.inf then (0x41 ≤ c && c ≤ 0x5A) || (0x61 ≤ c && c ≤ 0x7A) else c == 0x65 || c == 0x45)

/-- `c = current(); while (canBeInNumber(c) && n < 63) { move(); buf[n++] = c; c = current(); }`
    — the look-ahead is loaded even when the loop stops because of the 63-byte limit. -/
def scanNumber (cfg : Cfg) : Nat → List Byte → St → List Byte × St
  | 0, acc, s => let (_, s) := cur s; (acc.reverse, s)
  | n+1, acc, s =>
    let (c, s) := cur s
    if inNumber cfg c then scanNumber cfg n (c :: acc) (mv s) else (acc.reverse, s)

def parseNumeric (cfg : Cfg) (s : St) : Code × Val × St :=
  let (buf, s) := scanNumber cfg (Gen.number_buffer - 1) [] s
  match parseNumber cfg buf with
  | .uint n => (.ok, .num (.uint n), s)
  | .sint n => (.ok, .num (.sint n), s)
  | .f32 b => (.ok, .num (.f32 b), s)
  | .f64 b => (.ok, .num (storeDouble b), s)
  | .invalid => (.invalid, .null, s)
  | .fault => (.fuel, .null, s)

def setMember (ms : List (List Byte × Val)) (k : List Byte) (v : Val) : List (List Byte × Val) :=
  match ms with
  | [] => [(k, v)]
  | (k', v') :: rest => if k' == k then (k', v) :: rest else (k', v') :: setMember rest k v

mutual
def parseVariant (cfg : Cfg) : (fuel : Nat) → (limit : Nat) → St → Code × Val × St
  | 0, _, s => (.fuel, .null, s)
  | fuel+1, limit, s =>
    match skipSpaces cfg (fuel+1) s with
    | (.ok, s) =>
      let (c, s) := cur s
      if c == 0x5B then
        match limit with
        | 0 => (.tooDeep, .arr [], s)
        | limit'+1 =>
          let s := mv s
          match skipSpaces cfg (fuel+1) s with
          | (.ok, s) =>
            let (d, s) := cur s
            if d == 0x5D then (.ok, .arr [], mv s) else parseElems cfg fuel limit' s []
          | (e, s) => (e, .arr [], s)
      else if c == 0x7B then
        match limit with
        | 0 => (.tooDeep, .obj [], s)
        | limit'+1 =>
          let s := mv s
          match skipSpaces cfg (fuel+1) s with
          | (.ok, s) =>
            let (d, s) := cur s
            if d == 0x7D then (.ok, .obj [], mv s) else parseMembers cfg fuel limit' s []
          | (e, s) => (e, .obj [], s)
      else if c == 0x22 || c == 0x27 then
        match parseQuoted cfg c (fuel+1) [] 0 (mv s) with
        | (.ok, str, s) => (.ok, .str str, s)
        | (e, _, s) => (e, .null, s)
      else if c == 0x74 then
        match skipKeyword "true".toUTF8.toList s with | (e, s) => (e, .bool true, s)
      else if c == 0x66 then
        match skipKeyword "false".toUTF8.toList s with | (e, s) => (e, .bool false, s)
      else if c == 0x6E then
        match skipKeyword "null".toUTF8.toList s with | (e, s) => (e, .null, s)
      else parseNumeric cfg s
    | (e, s) => (e, .null, s)
def parseElems (cfg : Cfg) : (fuel : Nat) → (limit : Nat) → St → List Val → Code × Val × St
  | 0, _, s, acc => (.fuel, .arr acc.reverse, s)
  | fuel+1, limit, s, acc =>
    match parseVariant cfg fuel limit s with
    | (.ok, v, s) =>
      match skipSpaces cfg (fuel+1) s with
      | (.ok, s) =>
        let (c, s) := cur s
        if c == 0x5D then (.ok, .arr (v :: acc).reverse, mv s)
        else if c == 0x2C then parseElems cfg fuel limit (mv s) (v :: acc)
        else (.invalid, .arr (v :: acc).reverse, s)
      | (e, s) => (e, .arr (v :: acc).reverse, s)
    | (e, v, s) => (e, .arr (v :: acc).reverse, s)
def parseMembers (cfg : Cfg) : (fuel : Nat) → (limit : Nat) → St → List (List Byte × Val) → Code × Val × St
  | 0, _, s, ms => (.fuel, .obj ms, s)
  | fuel+1, limit, s, ms =>
    -- key
    let (c, s) := cur s
    let keyRes : Code × List Byte × St :=
      if c == 0x22 || c == 0x27 then parseQuoted cfg c (fuel+1) [] 0 (mv s)
      else if inUnquoted c then let (k, s) := parseUnquoted (fuel+1) [] s; ((if k.length > cfg.maxStrLen then .noMemory else .ok), k, s)
      else (.invalid, [], s)
    match keyRes with
    | (.ok, key, s) =>
      match skipSpaces cfg (fuel+1) s with
      | (.ok, s) =>
        let (c, s) := cur s
        if c != 0x3A then (.invalid, .obj ms, s) else
        let s := mv s
        match parseVariant cfg fuel limit s with
        | (.ok, v, s) =>
          let ms := setMember ms key v
          match skipSpaces cfg (fuel+1) s with
          | (.ok, s) =>
            let (c, s) := cur s
            if c == 0x7D then (.ok, .obj ms, mv s)
            else if c == 0x2C then
              match skipSpaces cfg (fuel+1) (mv s) with
              | (.ok, s) => parseMembers cfg fuel limit s ms
              | (e, s) => (e, .obj ms, s)
            else (.invalid, .obj ms, s)
          | (e, s) => (e, .obj ms, s)
        | (e, v, s) => (e, .obj (setMember ms key v), s)
      | (e, s) => (e, .obj ms, s)
    | (e, _, s) => (e, .obj ms, s)
end

def isNumberVal : Val → Bool | .num _ => true | _ => false

def run (cfg : Cfg) (limit : Nat) (input : List Byte) : Code × Val × Nat :=
  let s0 : St := { l := { unread := input } }
  match parseVariant cfg (2 * input.length + 4) limit s0 with
  | (.ok, v, s) =>
    if s.l.cur != 0 && !isWs s.l.cur && isNumberVal v then (.invalid, v, s.l.pos) else (.ok, v, s.l.pos)
  | (e, v, s) => (e, v, s.l.pos)

/-! ## Filter (Deserialization/Filter.hpp) over a filter document -/
inductive Flt | all | doc (v : Option Val)     -- AllowAllFilter | Filter(variant) ; none = unbound

def isTrueVal : Val → Bool
  | .bool true => true
  | .num (.uint 1) => true
  | .num (.sint 1) => true
  | .num (.f32 0x3f800000) => true
  | .num (.f64 0x3ff0000000000000) => true
  | _ => false
def truthy : Val → Bool
  | .null => false
  | .bool b => b
  | .num (.uint n) => n != 0
  | .num (.sint n) => n != 0
  | .num (.f32 b) => b % 2^31 != 0       -- ±0 is falsy ; NaN is truthy (x != 0)
  | .num (.f64 b) => b % 2^63 != 0
  | _ => true
def Flt.allow : Flt → Bool | .all => true | .doc none => false | .doc (some v) => truthy v
def Flt.allowArray : Flt → Bool
  | .all => true | .doc none => false
  | .doc (some v) => isTrueVal v || (match v with | .arr _ => true | _ => false)
def Flt.allowObject : Flt → Bool
  | .all => true | .doc none => false
  | .doc (some v) => isTrueVal v || (match v with | .obj _ => true | _ => false)
def Flt.allowValue : Flt → Bool | .all => true | .doc none => false | .doc (some v) => isTrueVal v
def lookupKey (ms : List (List Byte × Val)) (k : List Byte) : Option Val :=
  (ms.find? (fun p => p.1 == k)).map (·.2)
def isNullOpt : Option Val → Bool | none => true | some .null => true | _ => false
def Flt.subKey (f : Flt) (key : List Byte) : Flt :=     -- filter[key.c_str()]
  match f with
  | .all => .all
  | .doc none => .doc none
  | .doc (some v) =>
    if isTrueVal v then f else
    match v with
    | .obj ms =>
      let m := lookupKey ms key
      if isNullOpt m then .doc (lookupKey ms [0x2A]) else .doc m
    | _ => .doc none
def Flt.subIdx (f : Flt) : Flt :=                        -- filter[0]
  match f with
  | .all => .all
  | .doc none => .doc none
  | .doc (some v) =>
    if isTrueVal v then f else
    match v with
    | .arr (x :: _) => if isNullOpt (some x) then .doc none else .doc (some x)
    | .arr [] => .doc none
    | .obj ms => .doc (lookupKey ms [0x2A])           -- variant_[0] is unbound on an object, then "*"
    | _ => .doc none

def skipQuoted (stop : Byte) : Nat → St → Code × St
  | 0, s => (.fuel, s)
  | fuel+1, s =>
    let (c, s) := cur s
    let s := mv s
    if c == stop then (.ok, s)
    else if c == 0 then (.incomplete, s)
    else if c == 0x5C then
      let (d, s) := cur s
      if d != 0 then skipQuoted stop fuel (mv s) else skipQuoted stop fuel s
    else skipQuoted stop fuel s
def skipUnquoted : Nat → St → St
  | 0, s => s
  | fuel+1, s => let (c, s) := cur s; if inUnquoted c then skipUnquoted fuel (mv s) else s
def skipNumeric (cfg : Cfg) : Nat → St → St
  | 0, s => s
  | fuel+1, s => let (c, s) := cur s; if inNumber cfg c then skipNumeric cfg fuel (mv s) else s

mutual
def skipVariant (cfg : Cfg) : (fuel : Nat) → (limit : Nat) → St → Code × St
  | 0, _, s => (.fuel, s)
  | fuel+1, limit, s =>
    match skipSpaces cfg (fuel+1) s with
    | (.ok, s) =>
      let (c, s) := cur s
      if c == 0x5B then
        match limit with
        | 0 => (.tooDeep, s)
        | limit'+1 => skipElems cfg fuel limit' (mv s)
      else if c == 0x7B then
        match limit with
        | 0 => (.tooDeep, s)
        | limit'+1 =>
          let s := mv s
          match skipSpaces cfg (fuel+1) s with
          | (.ok, s) =>
            let (d, s) := cur s
            if d == 0x7D then (.ok, mv s) else skipMembers cfg fuel limit' s
          | r => r
      else if c == 0x22 || c == 0x27 then skipQuoted c (fuel+1) (mv s)
      else if c == 0x74 then skipKeyword "true".toUTF8.toList s
      else if c == 0x66 then skipKeyword "false".toUTF8.toList s
      else if c == 0x6E then skipKeyword "null".toUTF8.toList s
      else (.ok, skipNumeric cfg (fuel+1) s)
    | r => r
def skipElems (cfg : Cfg) : (fuel : Nat) → (limit : Nat) → St → Code × St
  | 0, _, s => (.fuel, s)
  | fuel+1, limit, s =>
    match skipVariant cfg fuel limit s with
    | (.ok, s) =>
      match skipSpaces cfg (fuel+1) s with
      | (.ok, s) =>
        let (c, s) := cur s
        if c == 0x5D then (.ok, mv s)
        else if c == 0x2C then skipElems cfg fuel limit (mv s)
        else (.invalid, s)
      | r => r
    | r => r
def skipMembers (cfg : Cfg) : (fuel : Nat) → (limit : Nat) → St → Code × St
  | 0, _, s => (.fuel, s)
  | fuel+1, limit, s =>
    let (c, s) := cur s
    let (kc, s) := if c == 0x22 || c == 0x27 then skipQuoted c (fuel+1) (mv s) else (Code.ok, skipUnquoted (fuel+1) s)
    if kc != .ok then (kc, s) else
    match skipSpaces cfg (fuel+1) s with
    | (.ok, s) =>
      let (c, s) := cur s
      if c != 0x3A then (.invalid, s) else
      match skipVariant cfg fuel limit (mv s) with
      | (.ok, s) =>
        match skipSpaces cfg (fuel+1) s with
        | (.ok, s) =>
          let (c, s) := cur s
          if c == 0x7D then (.ok, mv s)
          else if c == 0x2C then
            match skipSpaces cfg (fuel+1) (mv s) with
            | (.ok, s) => skipMembers cfg fuel limit s
            | r => r
          else (.invalid, s)
        | r => r
      | r => r
    | r => r
end

/- the filtered parser -/
mutual
def fparseVariant (cfg : Cfg) : (fuel : Nat) → (limit : Nat) → Flt → St → Code × Val × St
  | 0, _, _, s => (.fuel, .null, s)
  | fuel+1, limit, flt, s =>
    match skipSpaces cfg (fuel+1) s with
    | (.ok, s) =>
      let (c, s) := cur s
      if c == 0x5B then
        if flt.allowArray then
          match limit with
          | 0 => (.tooDeep, .arr [], s)
          | limit'+1 =>
            let s := mv s
            match skipSpaces cfg (fuel+1) s with
            | (.ok, s) =>
              let (d, s) := cur s
              if d == 0x5D then (.ok, .arr [], mv s) else fparseElems cfg fuel limit' flt.subIdx s []
            | (e, s) => (e, .arr [], s)
        else
          match limit with
          | 0 => (.tooDeep, .null, s)
          | limit'+1 => let (e, s) := skipElems cfg fuel limit' (mv s); (e, .null, s)
      else if c == 0x7B then
        if flt.allowObject then
          match limit with
          | 0 => (.tooDeep, .obj [], s)
          | limit'+1 =>
            let s := mv s
            match skipSpaces cfg (fuel+1) s with
            | (.ok, s) =>
              let (d, s) := cur s
              if d == 0x7D then (.ok, .obj [], mv s) else fparseMembers cfg fuel limit' flt s []
            | (e, s) => (e, .obj [], s)
        else
          match limit with
          | 0 => (.tooDeep, .null, s)
          | limit'+1 =>
            let s := mv s
            match skipSpaces cfg (fuel+1) s with
            | (.ok, s) =>
              let (d, s) := cur s
              if d == 0x7D then (.ok, .null, mv s) else let (e, s) := skipMembers cfg fuel limit' s; (e, .null, s)
            | (e, s) => (e, .null, s)
      else if c == 0x22 || c == 0x27 then
        if flt.allowValue then
          match parseQuoted cfg c (fuel+1) [] 0 (mv s) with
          | (.ok, str, s) => (.ok, .str str, s)
          | (e, _, s) => (e, .null, s)
        else let (e, s) := skipQuoted c (fuel+1) (mv s); (e, .null, s)
      else if c == 0x74 then
        match skipKeyword "true".toUTF8.toList s with | (e, s) => (e, (if flt.allowValue then .bool true else .null), s)
      else if c == 0x66 then
        match skipKeyword "false".toUTF8.toList s with | (e, s) => (e, (if flt.allowValue then .bool false else .null), s)
      else if c == 0x6E then
        match skipKeyword "null".toUTF8.toList s with | (e, s) => (e, .null, s)
      else if flt.allowValue then parseNumeric cfg s
      else (.ok, .null, skipNumeric cfg (fuel+1) s)
    | (e, s) => (e, .null, s)
def fparseElems (cfg : Cfg) : (fuel : Nat) → (limit : Nat) → Flt → St → List Val → Code × Val × St
  | 0, _, _, s, acc => (.fuel, .arr acc.reverse, s)
  | fuel+1, limit, ef, s, acc =>
    let (e, vs, s) : Code × List Val × St :=
      if ef.allow then
        match fparseVariant cfg fuel limit ef s with
        | (e, v, s) => (e, v :: acc, s)
      else
        match skipVariant cfg fuel limit s with
        | (e, s) => (e, acc, s)
    match e with
    | .ok =>
      match skipSpaces cfg (fuel+1) s with
      | (.ok, s) =>
        let (c, s) := cur s
        if c == 0x5D then (.ok, .arr vs.reverse, mv s)
        else if c == 0x2C then fparseElems cfg fuel limit ef (mv s) vs
        else (.invalid, .arr vs.reverse, s)
      | (e, s) => (e, .arr vs.reverse, s)
    | e => (e, .arr vs.reverse, s)
def fparseMembers (cfg : Cfg) : (fuel : Nat) → (limit : Nat) → Flt → St → List (List Byte × Val) → Code × Val × St
  | 0, _, _, s, ms => (.fuel, .obj ms, s)
  | fuel+1, limit, flt, s, ms =>
    let (c, s) := cur s
    let keyRes : Code × List Byte × St :=
      if c == 0x22 || c == 0x27 then parseQuoted cfg c (fuel+1) [] 0 (mv s)
      else if inUnquoted c then let (k, s) := parseUnquoted (fuel+1) [] s; ((if k.length > cfg.maxStrLen then .noMemory else .ok), k, s)
      else (.invalid, [], s)
    match keyRes with
    | (.ok, key, s) =>
      match skipSpaces cfg (fuel+1) s with
      | (.ok, s) =>
        let (c, s) := cur s
        if c != 0x3A then (.invalid, .obj ms, s) else
        let s := mv s
        let mf := flt.subKey key
        let (e, ms, s) : Code × List (List Byte × Val) × St :=
          if mf.allow then
            match fparseVariant cfg fuel limit mf s with
            | (e, v, s) => (e, setMember ms key v, s)
          else
            match skipVariant cfg fuel limit s with
            | (e, s) => (e, ms, s)
        match e with
        | .ok =>
          match skipSpaces cfg (fuel+1) s with
          | (.ok, s) =>
            let (c, s) := cur s
            if c == 0x7D then (.ok, .obj ms, mv s)
            else if c == 0x2C then
              match skipSpaces cfg (fuel+1) (mv s) with
              | (.ok, s) => fparseMembers cfg fuel limit flt s ms
              | (e, s) => (e, .obj ms, s)
            else (.invalid, .obj ms, s)
          | (e, s) => (e, .obj ms, s)
        | e => (e, .obj ms, s)
      | (e, s) => (e, .obj ms, s)
    | (e, _, s) => (e, .obj ms, s)
end

def frun (cfg : Cfg) (limit : Nat) (flt : Flt) (input : List Byte) : Code × Val × Nat :=
  let s0 : St := { l := { unread := input } }
  match fparseVariant cfg (2 * input.length + 4) limit flt s0 with
  | (.ok, v, s) =>
    if s.l.cur != 0 && !isWs s.l.cur && isNumberVal v then (.invalid, v, s.l.pos) else (.ok, v, s.l.pos)
  | (e, v, s) => (e, v, s.l.pos)

end JD
