/- Slot-level model of deserializeJson: the JSON deserializer of AJ/Model/JD.lean (same reader, same lexing routines) writing
   into the slot-level document of AJ/Model/DL.lean through the operations the C++ uses - VariantData::toArray/toObject,
   ArrayData::addElement, ObjectData::getMember / addMember(StringNode*), VariantData::clear, setBoolean/setInteger/setFloat,
   and the StringBuilder (Memory/StringBuilder.hpp) with its allocation pattern: a 31-byte buffer, doubled (2n+1) when full,
   shrunk to the exact size when the string is new, kept for reuse when an equal string is already stored.
   Unfiltered (Filter = AllowAll); the filtered runs are related to the unfiltered one at the level of values (C11).
   Total: structural recursion on the same fuel as JD. -/
import AJ.Model.JD
import AJ.Model.DL
open JD DL

namespace JDD

/-- deserializer state: reader, document, capacity of the StringBuilder's node (none: no node) -/
structure S where
  s : JD.St
  d : Doc
  b : Option Nat := none

/-- `StringBuilder::startString`: allocate the initial buffer unless one is kept from an earlier string -/
def startString (x : S) : S :=
  match x.b with
  | some _ => x
  | none =>
    let (ok, pl) := x.d.pl.alloc (31 + x.d.strOverhead)
    if ok then { x with d := { x.d with pl := pl }, b := some 31 }
    else { x with d := { x.d with pl := pl, overflowed := true } }

/-- `k` calls of `StringBuilder::append(char)` starting with `size` bytes in the buffer: when the buffer is full it is resized to
    `2*size+1` (`StringNode::resize`: beyond the maximal length no allocator call, the node is released; a failed reallocation
    releases the node too); without a node the characters are dropped -/
def appendN (maxLen : Nat) : Nat → Nat → S → S
  | 0, _, x => x
  | k+1, size, x =>
    match x.b with
    | none => x
    | some cap =>
      if size == cap then
        let newCap := size * 2 + 1
        if newCap > maxLen then
          appendN maxLen k size { x with d := { x.d with pl := x.d.pl.dealloc, overflowed := true }, b := none }
        else
          let (ok, pl) := x.d.pl.realloc (newCap + x.d.strOverhead) true
          if ok then appendN maxLen k (size + 1) { x with d := { x.d with pl := pl }, b := some newCap }
          else appendN maxLen k size { x with d := { x.d with pl := pl.dealloc, overflowed := true }, b := none }
      else appendN maxLen k (size + 1) x

/-- `StringBuilder::save` (requires a node): an equal stored string gains a reference and the buffer is kept;
    otherwise the buffer is reallocated to the exact size and becomes the stored node -/
def save (x : S) (bytes : List Byte) : Nat × S :=
  match x.d.strings.find? (·.bytes == bytes) with
  | some n =>
    (n.id, { x with d := { x.d with strings := x.d.strings.map (fun y => if y.id == n.id then { y with refs := y.refs + 1 } else y) } })
  | none =>
    let (_, pl) := x.d.pl.realloc (bytes.length + x.d.strOverhead) false
    (x.d.nextNode, { x with d := { x.d with pl := pl, strings := ⟨x.d.nextNode, bytes, 1⟩ :: x.d.strings, nextNode := x.d.nextNode + 1 }, b := none })

/-- a string token through the builder: lexing by `JD.parseQuoted`, then the allocation events of the bytes it appended.
    A lexical error wins; otherwise NoMemory iff the builder lost its node -/
def quoted (cfg : Cfg) (fuel : Nat) (stop : Byte) (x : S) : Code × List Byte × S :=
  let x := startString x
  let (c, bytes, s) := parseQuoted cfg stop fuel [] 0 x.s
  let x := appendN cfg.maxStrLen bytes.length 0 { x with s := s }
  let c := if c == .ok || c == .noMemory then (if x.b.isSome then .ok else .noMemory) else c
  (c, bytes, x)

def unquoted (cfg : Cfg) (fuel : Nat) (x : S) : Code × List Byte × S :=
  let x := startString x
  let (bytes, s) := parseUnquoted fuel [] x.s
  let x := appendN cfg.maxStrLen bytes.length 0 { x with s := s }
  ((if x.b.isSome then .ok else .noMemory), bytes, x)

/-- `ObjectData::addMember(StringNode*)`: key slot, value slot, the key slot takes the saved node, the pair is appended -/
def addMemberNode (d : Doc) (l : Loc) (node : Nat) : Option Nat × Doc :=
  match d.allocVariant with
  | (none, d) => (none, d)
  | (some k, d) =>
    match d.allocVariant with
    | (none, d) => (none, d)
    | (some v, d) =>
      let d := d.set (.slot k) (.owned node)
      (some v, d.appendPair l k v)

/-- `parseNumericValue` -/
def numeric (cfg : Cfg) (l : Loc) (x : S) : Code × S :=
  let (buf, s) := scanNumber cfg (Gen.number_buffer - 1) [] x.s
  let x := { x with s := s }
  let store (a : Arg) : Code × S :=
    let (ok, d) := x.d.setArg l a
    ((if ok then .ok else .noMemory), { x with d := d })
  match parseNumber cfg buf with
  | .uint n => store (.uint n)
  | .sint n => store (.sint n)
  | .f32 b => store (.f32 b)
  | .f64 b => store (.f64 b)
  | .invalid => (.invalid, x)
  | .fault => (.fuel, x)

mutual
def parseVariant (cfg : Cfg) : (fuel : Nat) → (limit : Nat) → Loc → S → Code × S
  | 0, _, _, x => (.fuel, x)
  | fuel+1, limit, l, x =>
    match skipSpaces cfg (fuel+1) x.s with
    | (.ok, s) =>
      let (c, s) := cur s
      let x := { x with s := s }
      if c == 0x5B then
        let x := { x with d := x.d.set l (.arr x.d.null x.d.null) }           -- variant.toArray()
        match limit with
        | 0 => (.tooDeep, x)
        | limit'+1 =>
          match skipSpaces cfg (fuel+1) (mv x.s) with
          | (.ok, s) =>
            let (e, s) := cur s
            if e == 0x5D then (.ok, { x with s := mv s }) else parseElems cfg fuel limit' l { x with s := s }
          | (e, s) => (e, { x with s := s })
      else if c == 0x7B then
        let x := { x with d := x.d.set l (.obj x.d.null x.d.null) }           -- variant.toObject()
        match limit with
        | 0 => (.tooDeep, x)
        | limit'+1 =>
          match skipSpaces cfg (fuel+1) (mv x.s) with
          | (.ok, s) =>
            let (e, s) := cur s
            if e == 0x7D then (.ok, { x with s := mv s }) else parseMembers cfg fuel limit' l { x with s := s }
          | (e, s) => (e, { x with s := s })
      else if c == 0x22 || c == 0x27 then
        match quoted cfg (fuel+1) c { x with s := mv x.s } with
        | (.ok, bytes, x) =>
          let (node, x) := save x bytes
          (.ok, { x with d := x.d.set l (.owned node) })
        | (e, _, x) => (e, x)
      else if c == 0x74 then
        let x := { x with d := x.d.set l (.bool true) }
        match skipKeyword "true".toUTF8.toList x.s with | (e, s) => (e, { x with s := s })
      else if c == 0x66 then
        let x := { x with d := x.d.set l (.bool false) }
        match skipKeyword "false".toUTF8.toList x.s with | (e, s) => (e, { x with s := s })
      else if c == 0x6E then
        match skipKeyword "null".toUTF8.toList x.s with | (e, s) => (e, { x with s := s })
      else numeric cfg l x
    | (e, s) => (e, { x with s := s })
def parseElems (cfg : Cfg) : (fuel : Nat) → (limit : Nat) → Loc → S → Code × S
  | 0, _, _, x => (.fuel, x)
  | fuel+1, limit, l, x =>
    match x.d.addElement l with
    | (none, d) => (.noMemory, { x with d := d })
    | (some id, d) =>
      match parseVariant cfg fuel limit (.slot id) { x with d := d } with
      | (.ok, x) =>
        match skipSpaces cfg (fuel+1) x.s with
        | (.ok, s) =>
          let (c, s) := cur s
          if c == 0x5D then (.ok, { x with s := mv s })
          else if c == 0x2C then parseElems cfg fuel limit l { x with s := mv s }
          else (.invalid, { x with s := s })
        | (e, s) => (e, { x with s := s })
      | r => r
def parseMembers (cfg : Cfg) : (fuel : Nat) → (limit : Nat) → Loc → S → Code × S
  | 0, _, _, x => (.fuel, x)
  | fuel+1, limit, l, x =>
    let (c, s) := cur x.s
    let x := { x with s := s }
    let keyRes : Code × List Byte × S :=
      if c == 0x22 || c == 0x27 then quoted cfg (fuel+1) c { x with s := mv x.s }
      else if inUnquoted c then unquoted cfg (fuel+1) x
      else (.invalid, [], startString x)
    match keyRes with
    | (.ok, key, x) =>
      match skipSpaces cfg (fuel+1) x.s with
      | (.ok, s) =>
        let (c, s) := cur s
        let x := { x with s := s }
        if c != 0x3A then (.invalid, x) else
        let x := { x with s := mv x.s }
        -- object.getMember(key): an existing member is cleared and reused, otherwise the key is saved and a member added
        let slot : Option Nat × S :=
          match x.d.findKey l key with
          | some (_, v) => (some v, { x with d := x.d.clearV (.slot v) })
          | none =>
            let (node, x) := save x key
            match addMemberNode x.d l node with
            | (some v, d) => (some v, { x with d := d })
            | (none, d) => (none, { x with d := d })
        match slot with
        | (none, x) => (.noMemory, x)
        | (some v, x) =>
          match parseVariant cfg fuel limit (.slot v) x with
          | (.ok, x) =>
            match skipSpaces cfg (fuel+1) x.s with
            | (.ok, s) =>
              let (c, s) := cur s
              if c == 0x7D then (.ok, { x with s := mv s })
              else if c == 0x2C then
                match skipSpaces cfg (fuel+1) (mv s) with
                | (.ok, s) => parseMembers cfg fuel limit l { x with s := s }
                | (e, s) => (e, { x with s := s })
              else (.invalid, { x with s := s })
            | (e, s) => (e, { x with s := s })
          | r => r
      | (e, s) => (e, { x with s := s })
    | (e, _, x) => (e, x)
end

/-- is the value at the root a number (VariantData::isFloat: any numeric type) -/
def rootIsNumber (d : Doc) : Bool :=
  match d.root with
  | .i32 _ | .u32 _ | .f32 _ | .i64 _ | .u64 _ | .f64 _ => true
  | _ => false

/-- `doDeserialize`: clear the document, parse into the root, destroy the deserializer (its StringBuilder releases a kept
    buffer), shrink the pools. Returns the code, the document and the number of bytes consumed. -/
def run (cfg : Cfg) (limit : Nat) (d : Doc) (input : List Byte) : Code × Doc × Nat :=
  let d := d.clearAll
  let x0 : S := { s := { l := { unread := input } }, d := d }
  let (c, x) := parseVariant cfg (2 * input.length + 4) limit .root x0
  let c := match c with
    | .ok => if x.s.l.cur != 0 && !isWs x.s.l.cur && rootIsNumber x.d then .invalid else .ok
    | e => e
  let d := match x.b with | some _ => { x.d with pl := x.d.pl.dealloc } | none => x.d
  let d := { d with pl := PL.shrink d.g d.pl }
  (c, d, x.s.l.pos)

/-- is the value at location `l` a number -/
def locIsNumber (d : Doc) (l : Loc) : Bool :=
  match d.get l with
  | .i32 _ | .u32 _ | .f32 _ | .i64 _ | .u64 _ | .f64 _ => true
  | _ => false

/-- `deserializeJson(JsonVariant dst, …)`: the destination is a value inside a document - it is cleared, parsed into, the
    deserializer is destroyed; the rest of the document is untouched and the pools are not shrunk -/
def runAt (cfg : Cfg) (limit : Nat) (d : Doc) (l : Loc) (input : List Byte) : Code × Doc × Nat :=
  let d := d.clearV l
  let x0 : S := { s := { l := { unread := input } }, d := d }
  let (c, x) := parseVariant cfg (2 * input.length + 4) limit l x0
  let c := match c with
    | .ok => if x.s.l.cur != 0 && !isWs x.s.l.cur && locIsNumber x.d l then .invalid else .ok
    | e => e
  let d := match x.b with | some _ => { x.d with pl := x.d.pl.dealloc } | none => x.d
  (c, d, x.s.l.pos)

end JDD
