/- Slot-level model of the FILTERED deserializeJson: JDD (AJ/Model/JDD.lean) with the Filter threaded through exactly as in
   JsonDeserializer.hpp - `filter.allowArray()/allowObject()/allowValue()` decide between building and skipping, `filter[0]`
   and `filter[key]` select the sub-filter, a member or element whose filter does not `allow()` is skipped without touching the
   document. What the document-level model adds over JD.fparseVariant is the memory behaviour: the key of EVERY member of a
   visited object goes through the StringBuilder (a buffer is allocated, grown, kept), whether or not the member is kept, while
   the contents of skipped values (skipVariant) never touch the builder. Total: structural recursion on the same fuel as JD. -/
import AJ.Model.JDD
open JD DL

namespace JDDF
open JDD

mutual
def parseVariant (cfg : Cfg) : (fuel : Nat) → (limit : Nat) → Flt → Loc → S → Code × S
  | 0, _, _, _, x => (.fuel, x)
  | fuel+1, limit, flt, l, x =>
    match skipSpaces cfg (fuel+1) x.s with
    | (.ok, s) =>
      let (c, s) := cur s
      let x := { x with s := s }
      if c == 0x5B then
        if flt.allowArray then
          let x := { x with d := x.d.set l (.arr x.d.null x.d.null) }
          match limit with
          | 0 => (.tooDeep, x)
          | limit'+1 =>
            match skipSpaces cfg (fuel+1) (mv x.s) with
            | (.ok, s) =>
              let (e, s) := cur s
              if e == 0x5D then (.ok, { x with s := mv s }) else parseElems cfg fuel limit' flt.subIdx l { x with s := s }
            | (e, s) => (e, { x with s := s })
        else
          match limit with
          | 0 => (.tooDeep, x)
          | limit'+1 => let (e, s) := skipElems cfg fuel limit' (mv x.s); (e, { x with s := s })
      else if c == 0x7B then
        if flt.allowObject then
          let x := { x with d := x.d.set l (.obj x.d.null x.d.null) }
          match limit with
          | 0 => (.tooDeep, x)
          | limit'+1 =>
            match skipSpaces cfg (fuel+1) (mv x.s) with
            | (.ok, s) =>
              let (e, s) := cur s
              if e == 0x7D then (.ok, { x with s := mv s }) else parseMembers cfg fuel limit' flt l { x with s := s }
            | (e, s) => (e, { x with s := s })
        else
          match limit with
          | 0 => (.tooDeep, x)
          | limit'+1 =>
            match skipSpaces cfg (fuel+1) (mv x.s) with
            | (.ok, s) =>
              let (e, s) := cur s
              if e == 0x7D then (.ok, { x with s := mv s })
              else let (e, s) := skipMembers cfg fuel limit' s; (e, { x with s := s })
            | (e, s) => (e, { x with s := s })
      else if c == 0x22 || c == 0x27 then
        if flt.allowValue then
          match quoted cfg (fuel+1) c { x with s := mv x.s } with
          | (.ok, bytes, x) =>
            let (node, x) := save x bytes
            (.ok, { x with d := x.d.set l (.owned node) })
          | (e, _, x) => (e, x)
        else let (e, s) := skipQuoted c (fuel+1) (mv x.s); (e, { x with s := s })
      else if c == 0x74 then
        let x := if flt.allowValue then { x with d := x.d.set l (.bool true) } else x
        match skipKeyword "true".toUTF8.toList x.s with | (e, s) => (e, { x with s := s })
      else if c == 0x66 then
        let x := if flt.allowValue then { x with d := x.d.set l (.bool false) } else x
        match skipKeyword "false".toUTF8.toList x.s with | (e, s) => (e, { x with s := s })
      else if c == 0x6E then
        match skipKeyword "null".toUTF8.toList x.s with | (e, s) => (e, { x with s := s })
      else if flt.allowValue then numeric cfg l x
      else (.ok, { x with s := skipNumeric cfg (fuel+1) x.s })
    | (e, s) => (e, { x with s := s })
def parseElems (cfg : Cfg) : (fuel : Nat) → (limit : Nat) → Flt → Loc → S → Code × S
  | 0, _, _, _, x => (.fuel, x)
  | fuel+1, limit, ef, l, x =>
    let r : Code × S :=
      if ef.allow then
        match x.d.addElement l with
        | (none, d) => (.noMemory, { x with d := d })
        | (some id, d) => parseVariant cfg fuel limit ef (.slot id) { x with d := d }
      else
        match skipVariant cfg fuel limit x.s with
        | (e, s) => (e, { x with s := s })
    match r with
    | (.ok, x) =>
      match skipSpaces cfg (fuel+1) x.s with
      | (.ok, s) =>
        let (c, s) := cur s
        if c == 0x5D then (.ok, { x with s := mv s })
        else if c == 0x2C then parseElems cfg fuel limit ef l { x with s := mv s }
        else (.invalid, { x with s := s })
      | (e, s) => (e, { x with s := s })
    | r => r
def parseMembers (cfg : Cfg) : (fuel : Nat) → (limit : Nat) → Flt → Loc → S → Code × S
  | 0, _, _, _, x => (.fuel, x)
  | fuel+1, limit, flt, l, x =>
    let (c, s) := cur x.s
    let x := { x with s := s }
    let keyRes : Code × List Byte × S :=
      if c == 0x22 || c == 0x27 then quoted cfg (fuel+1) c { x with s := mv x.s }
      else if inUnquoted c then unquoted cfg (fuel+1) x
      else (.invalid, [], startString x)
    match keyRes with
    | (.ok, key, x) =>
      match skipSpaces cfg (fuel+1) x.s with
      | (.ok, s) =>
        let (c, s) := cur s
        let x := { x with s := s }
        if c != 0x3A then (.invalid, x) else
        let x := { x with s := mv x.s }
        let mf := flt.subKey key
        let r : Code × S :=
          if mf.allow then
            let slot : Option Nat × S :=
              match x.d.findKey l key with
              | some (_, v) => (some v, { x with d := x.d.clearV (.slot v) })
              | none =>
                let (node, x) := save x key
                match addMemberNode x.d l node with
                | (some v, d) => (some v, { x with d := d })
                | (none, d) => (none, { x with d := d })
            match slot with
            | (none, x) => (.noMemory, x)
            | (some v, x) => parseVariant cfg fuel limit mf (.slot v) x
          else
            match skipVariant cfg fuel limit x.s with
            | (e, s) => (e, { x with s := s })
        match r with
        | (.ok, x) =>
          match skipSpaces cfg (fuel+1) x.s with
          | (.ok, s) =>
            let (c, s) := cur s
            if c == 0x7D then (.ok, { x with s := mv s })
            else if c == 0x2C then
              match skipSpaces cfg (fuel+1) (mv s) with
              | (.ok, s) => parseMembers cfg fuel limit flt l { x with s := s }
              | (e, s) => (e, { x with s := s })
            else (.invalid, { x with s := s })
          | (e, s) => (e, { x with s := s })
        | r => r
      | (e, s) => (e, { x with s := s })
    | (e, _, x) => (e, x)
end

/-- filtered `doDeserialize` -/
def run (cfg : Cfg) (limit : Nat) (flt : Flt) (d : Doc) (input : List Byte) : Code × Doc × Nat :=
  let d := d.clearAll
  let x0 : S := { s := { l := { unread := input } }, d := d }
  let (c, x) := parseVariant cfg (2 * input.length + 4) limit flt .root x0
  let c := match c with
    | .ok => if x.s.l.cur != 0 && !isWs x.s.l.cur && rootIsNumber x.d then .invalid else .ok
    | e => e
  let d := match x.b with | some _ => { x.d with pl := x.d.pl.dealloc } | none => x.d
  let d := { d with pl := PL.shrink d.g d.pl }
  (c, d, x.s.l.pos)

end JDDF
