/- Prototype of TextFormatter::writeFloat / FloatParts.hpp on the softfloat. -/
import AJ.Model.JD
namespace JS
open SF JD

def digits (n : Nat) : List UInt8 := (Nat.toDigits 10 n).map (fun c => UInt8.ofNat c.toNat)

def tenE7 : Nat := Gen.positive_exp_threshold_bits      -- ARDUINOJSON_POSITIVE_EXPONENTIATION_THRESHOLD (1e7)
def tenEm5 : Nat := Gen.negative_exp_threshold_bits     -- ARDUINOJSON_NEGATIVE_EXPONENTIATION_THRESHOLD (1e-5)
def ten : Nat := 0x4024000000000000

/-- normalize: returns (value', powersOf10) -/
def normalize (v : Nat) : Nat × Int := Id.run do
  let mut value := v
  let mut p : Int := 0
  let mut index : Int := 8
  let mut bit : Nat := 256
  if ge b64 value tenE7 then
    for _ in [0:9] do
      if index ≥ 0 then
        let i := index.toNat
        if ge b64 value (pos64[i]!) then
          value := mul b64 value (neg64[i]!)
          p := p + bit
        bit := bit / 2
        index := index - 1
  if gt b64 value 0 && le b64 value tenEm5 then
    for _ in [0:9] do
      if index ≥ 0 then
        let i := index.toNat
        if lt b64 value (mul b64 (neg64[i]!) ten) then
          value := mul b64 value (pos64[i]!)
          p := p - bit
        bit := bit / 2
        index := index - 1
  return (value, p)

structure Parts where
  integral : Nat
  decimal : Nat
  exponent : Int
  decimalPlaces : Nat

def decompose (v : Nat) (places : Nat) : Parts := Id.run do
  let mut maxDec := 10^places
  let mut places := places
  let (value, exponent0) := normalize v
  let mut exponent := exponent0
  let mut integral := toNatTrunc b64 value % 2^32
  let mut tmp := integral
  for _ in [0:12] do
    if tmp ≥ 10 then
      maxDec := maxDec / 10
      places := places - 1
      tmp := tmp / 10
  let rem := mul b64 (sub b64 value (ofNat b64 integral)) (ofNat b64 maxDec)
  let mut decimal := toNatTrunc b64 rem % 2^32
  let rem2 := sub b64 rem (ofNat b64 decimal)
  decimal := (decimal + toNatTrunc b64 (mul b64 rem2 0x4000000000000000) % 2^32) % 2^32
  if decimal ≥ maxDec then
    decimal := 0
    integral := (integral + 1) % 2^32
    if exponent != 0 && integral ≥ 10 then
      exponent := exponent + 1
      integral := 1
  for _ in [0:12] do
    if decimal % 10 == 0 && places > 0 then
      decimal := decimal / 10
      places := places - 1
  return { integral, decimal, exponent, decimalPlaces := places }

def padDigits (n width : Nat) : List UInt8 :=
  let d := digits n
  (List.replicate (width - d.length) (0x30 : UInt8)) ++ d.drop (d.length - width)   -- keeps the low `width` digits

def writeFloat (cfg : Cfg) (v : Nat) (places : Nat) : List UInt8 :=
  if isNaN b64 v then (if cfg.nan then "NaN" else "null").toUTF8.toList
  else if isInf b64 v then
    (if cfg.inf then (if lt b64 v 0 then "-Infinity" else "Infinity") else "null").toUTF8.toList
  else
    let neg := lt b64 v 0
    let v := if neg then absBits b64 v else v
    let p := decompose v places
    (if neg then [0x2D] else []) ++ digits p.integral ++
    (if p.decimalPlaces > 0 then 0x2E :: padDigits p.decimal p.decimalPlaces else []) ++
    (if p.exponent != 0 then 0x65 :: ((if p.exponent < 0 then [0x2D] else []) ++ digits p.exponent.natAbs) else [])

def printNum (cfg : Cfg) : Num → List UInt8
  | .uint n => digits n
  | .sint n => (if n < 0 then [0x2D] else []) ++ digits n.natAbs
  | .f32 b => writeFloat cfg (cvt b32 b64 b) 6
  | .f64 b => writeFloat cfg b 9
end JS
