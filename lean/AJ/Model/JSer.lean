/- Model of JsonSerializer.hpp / PrettyJsonSerializer.hpp / TextFormatter.hpp (string part) and of the bounded
   writer of Serialization/serialize.hpp + Writers/StaticStringWriter.hpp. Total, structural. -/
import AJ.Model.JS
namespace JSer
open JD JS

/-- `EscapeSequence::escapeChar`, as a lookup in the table generated from the source; 0 = no escape -/
def escapeChar (c : Byte) : Byte :=
  match Gen.escapeNZ.find? (fun p => p.1 == c.toNat) with
  | some p => UInt8.ofNat p.2
  | none => 0

/-- `TextFormatter::writeChar` -/
def writeChar (c : Byte) : List Byte :=
  let e := escapeChar c
  if e != 0 then [0x5C, e]
  else if c != 0 then [c]
  else [0x5C, 0x75, 0x30, 0x30, 0x30, 0x30]          -- \u0000

def writeString (s : List Byte) : List Byte := 0x22 :: s.flatMap writeChar ++ [0x22]

def scalar (cfg : Cfg) : Val → List Byte
  | .null => "null".toUTF8.toList
  | .bool true => "true".toUTF8.toList
  | .bool false => "false".toUTF8.toList
  | .num n => printNum cfg n
  | .str s => writeString s
  | .raw s => s
  | _ => []

mutual
def compact (cfg : Cfg) : Val → List Byte
  | .arr xs => 0x5B :: compactElems cfg xs ++ [0x5D]
  | .obj ms => 0x7B :: compactMembers cfg ms ++ [0x7D]
  | .null => "null".toUTF8.toList
  | .bool true => "true".toUTF8.toList
  | .bool false => "false".toUTF8.toList
  | .num n => printNum cfg n
  | .str s => writeString s
  | .raw s => s
def compactElems (cfg : Cfg) : List Val → List Byte
  | [] => []
  | [x] => compact cfg x
  | x :: y :: r => compact cfg x ++ 0x2C :: compactElems cfg (y :: r)
def compactMembers (cfg : Cfg) : List (List Byte × Val) → List Byte
  | [] => []
  | [(k, v)] => writeString k ++ 0x3A :: compact cfg v
  | (k, v) :: m :: r => writeString k ++ 0x3A :: compact cfg v ++ 0x2C :: compactMembers cfg (m :: r)
end

def tab : List Byte := [0x20, 0x20]           -- ARDUINOJSON_TAB
def crlf : List Byte := [0x0D, 0x0A]
/-- `indent()`: `nesting_` is a `uint8_t` -/
def indent (n : Nat) : List Byte := (List.replicate (n % 256) tab).flatten

mutual
def pretty (cfg : Cfg) (n : Nat) : Val → List Byte
  | .arr [] => [0x5B, 0x5D]
  | .arr (x :: xs) => 0x5B :: crlf ++ prettyElems cfg (n + 1) (x :: xs) ++ indent n ++ [0x5D]
  | .obj [] => [0x7B, 0x7D]
  | .obj (m :: ms) => 0x7B :: crlf ++ prettyMembers cfg (n + 1) (m :: ms) ++ indent n ++ [0x7D]
  | .null => "null".toUTF8.toList
  | .bool true => "true".toUTF8.toList
  | .bool false => "false".toUTF8.toList
  | .num x => printNum cfg x
  | .str s => writeString s
  | .raw s => s
def prettyElems (cfg : Cfg) (n : Nat) : List Val → List Byte
  | [] => []
  | [x] => indent n ++ pretty cfg n x ++ crlf
  | x :: y :: r => indent n ++ pretty cfg n x ++ 0x2C :: crlf ++ prettyElems cfg n (y :: r)
def prettyMembers (cfg : Cfg) (n : Nat) : List (List Byte × Val) → List Byte
  | [] => []
  | [(k, v)] => indent n ++ writeString k ++ [0x3A, 0x20] ++ pretty cfg n v ++ crlf
  | (k, v) :: m :: r => indent n ++ writeString k ++ [0x3A, 0x20] ++ pretty cfg n v ++ 0x2C :: crlf ++ prettyMembers cfg n (m :: r)
end

/-- `serialize(source, buffer, bufferSize)` for a text format: the bytes stored, whether a NUL is stored, the count -/
structure BufOut where
  ret : Nat
  stored : List Byte        -- content of the first `cap` bytes that the call defines
  nul : Bool
deriving Repr

def toBuffer (text : List Byte) (cap : Nat) (producesText : Bool) : BufOut :=
  let stored := text.take cap
  { ret := stored.length, stored := stored, nul := producesText && stored.length < cap }

/-- the whole buffer afterwards, given that it held `fill` everywhere before -/
def bufferAfter (text : List Byte) (cap : Nat) (producesText : Bool) (fill : Byte) : List Byte :=
  let o := toBuffer text cap producesText
  let a := o.stored ++ (if o.nul then [0] else [])
  a ++ List.replicate (cap - a.length) fill
end JSer
