/- Prototype model of MsgPackDeserializer (with filter) and MsgPackSerializer. -/
import AJ.Model.JD
namespace MD
open JD SF

structure R where            -- bounded reader
  unread : List Byte
  pos : Nat := 0

def R.read (r : R) : Option Byte × R :=
  match r.unread with
  | [] => (none, r)
  | c :: cs => (some c, { unread := cs, pos := r.pos + 1 })

/-- readBytes(p, n) == n ? Ok : IncompleteInput ; a short read still consumes what is there -/
def R.readBytes (r : R) (n : Nat) : Option (List Byte) × R :=
  if r.unread.length ≥ n then (some (r.unread.take n), { unread := r.unread.drop n, pos := r.pos + n })
  else (none, { unread := [], pos := r.pos + r.unread.length })

def R.skipBytes (r : R) (n : Nat) : Bool × R :=
  if r.unread.length ≥ n then (true, { unread := r.unread.drop n, pos := r.pos + n })
  else (false, { unread := [], pos := r.pos + r.unread.length })

def beNat (bs : List Byte) : Nat := bs.foldl (fun a b => a * 256 + b.toNat) 0

structure Env where
  maxStrLen : Nat := 65535

def readInteger (bs : List Byte) (signed : Bool) : Val :=
  let w := bs.length
  let u := beNat bs
  let half : Nat := 2^(8*w-1)
  let full : Nat := 2^(8*w)
  if signed then
    .num (.sint (if u ≥ half then Int.ofNat u - Int.ofNat full else Int.ofNat u))
  else .num (.uint u)

set_option maxRecDepth 8000 in
mutual
def parseVariant (env : Env) : (fuel : Nat) → (limit : Nat) → Flt → Bool → R → Code × Val × R × Bool
  -- Bool argument: destination present (non-null pointer); last result: foundSomething
  | 0, _, _, _, r => (.fuel, .null, r, true)
  | fuel+1, limit, flt, hasDst, r =>
    match r.read with
    | (none, r) => (.incomplete, .null, r, false)
    | (some code, r) =>
      let allowValue := hasDst && flt.allowValue
      let c := code.toNat
      let fin (e : Code) (v : Val) (r : R) : Code × Val × R × Bool := (e, v, r, true)
      if 0xcc ≤ c && c ≤ 0xd3 then
        let width := 2^((c - 0xcc) % 4)
        if allowValue then
          match r.readBytes width with
          | (some bs, r) => fin .ok (readInteger bs (c ≥ 0xd0)) r
          | (none, r) => fin .incomplete .null r
        else
          match r.skipBytes width with
          | (true, r) => fin .ok .null r
          | (false, r) => fin .incomplete .null r
      else if c == 0xc0 then fin .ok .null r
      else if c == 0xc1 then fin .invalid .null r
      else if c == 0xc2 || c == 0xc3 then fin .ok (if allowValue then .bool (c == 0xc3) else .null) r
      else if c == 0xca then
        if allowValue then
          match r.readBytes 4 with
          | (some bs, r) => fin .ok (.num (.f32 (beNat bs))) r
          | (none, r) => fin .incomplete .null r
        else match r.skipBytes 4 with | (true, r) => fin .ok .null r | (false, r) => fin .incomplete .null r
      else if c == 0xcb then
        if allowValue then
          match r.readBytes 8 with
          | (some bs, r) => fin .ok (.num (storeDouble (beNat bs))) r
          | (none, r) => fin .incomplete .null r
        else match r.skipBytes 8 with | (true, r) => fin .ok .null r | (false, r) => fin .incomplete .null r
      else if c ≤ 0x7f || c ≥ 0xe0 then
        fin .ok (if allowValue then .num (.sint (if c ≥ 0x80 then (c : Int) - 256 else c)) else .null) r
      else
        let sizeBytes : Nat :=
          if c == 0xc4 || c == 0xc7 || c == 0xd9 then 1
          else if c == 0xc5 || c == 0xc8 || c == 0xda || c == 0xdc || c == 0xde then 2
          else if c == 0xc6 || c == 0xc9 || c == 0xdb || c == 0xdd || c == 0xdf then 4
          else 0
        let isExt0 := 0xc7 ≤ c && c ≤ 0xc9
        let (size0, isExt) : Nat × Bool :=
          if 0xd4 ≤ c && c ≤ 0xd8 then (2^(c - 0xd4), true) else (0, isExt0)
        let size1 := if c / 16 == 9 || c / 16 == 8 then c % 16 else size0
        let size2 := if c / 32 == 5 then c % 32 else size1
        let hdr : Option (List Byte × Nat) × R :=
          if sizeBytes > 0 then
            match r.readBytes sizeBytes with
            | (some bs, r) => (some (bs, beNat bs), r)
            | (none, r) => (none, r)
          else (some ([], size2), r)
        match hdr with
        | (none, r) => fin .incomplete .null r
        | (some (hb, size), r) =>
          if c == 0xdc || c == 0xdd || c / 16 == 9 then
            match limit with
            | 0 => fin .tooDeep .null r
            | limit'+1 =>
              if hasDst && flt.allowArray then
                match readArray env fuel limit' flt.subIdx true size r [] with
                | (e, vs, r) => fin e (.arr vs) r
              else
                match readArray env fuel limit' flt.subIdx false size r [] with
                | (e, _, r) => fin e .null r
          else if c == 0xde || c == 0xdf || c / 16 == 8 then
            match limit with
            | 0 => fin .tooDeep .null r
            | limit'+1 =>
              if hasDst && flt.allowObject then
                match readObject env fuel limit' flt true size r [] with
                | (e, ms, r) => fin e (.obj ms) r
              else
                match readObject env fuel limit' flt false size r [] with
                | (e, _, r) => fin e .null r
          else if c == 0xd9 || c == 0xda || c == 0xdb || c / 32 == 5 then
            if allowValue then
              if size > env.maxStrLen then fin .noMemory .null r else
              match r.readBytes size with
              | (some bs, r) => fin .ok (.str bs) r
              | (none, r) => fin .incomplete .null r
            else match r.skipBytes size with | (true, r) => fin .ok .null r | (false, r) => fin .incomplete .null r
          else
            let size := if isExt then size + 1 else size
            if allowValue then
              let total := 1 + sizeBytes + size
              if total > env.maxStrLen then fin .noMemory .null r else
              match r.readBytes size with
              | (some bs, r) => fin .ok (.raw (code :: hb ++ bs)) r
              | (none, r) => fin .incomplete .null r
            else match r.skipBytes size with | (true, r) => fin .ok .null r | (false, r) => fin .incomplete .null r
def readArray (env : Env) : (fuel : Nat) → (limit : Nat) → Flt → Bool → Nat → R → List Val → Code × List Val × R
  | 0, _, _, _, _, r, acc => (.fuel, acc.reverse, r)
  | fuel+1, limit, ef, hasArr, n, r, acc =>
    if n == 0 then (.ok, acc.reverse, r) else
    let keep := hasArr && ef.allow
    match parseVariant env fuel limit ef keep r with
    | (.ok, v, r, _) => readArray env fuel limit ef hasArr (n - 1) r (if keep then v :: acc else acc)
    | (e, v, r, _) => (e, (if keep then v :: acc else acc).reverse, r)
def readObject (env : Env) : (fuel : Nat) → (limit : Nat) → Flt → Bool → Nat → R → List (List Byte × Val) → Code × List (List Byte × Val) × R
  | 0, _, _, _, _, r, ms => (.fuel, ms, r)
  | fuel+1, limit, flt, hasObj, n, r, ms =>
    if n == 0 then (.ok, ms, r) else
    -- readKey
    match r.read with
    | (none, r) => (.incomplete, ms, r)
    | (some code, r) =>
      let c := code.toNat
      let keyLen : Option (Option Nat) × R :=      -- none = invalid ; some none = incomplete
        if c / 32 == 5 then (some (some (c % 32)), r)
        else if 0xd9 ≤ c && c ≤ 0xdb then
          -- size bytes are read one by one
          let w := 2^(c - 0xd9)
          match r.readBytes w with
          | (some bs, r) => (some (some (beNat bs)), r)
          | (none, r) => (some none, r)
        else (none, r)
      match keyLen with
      | (none, r) => (.invalid, ms, r)
      | (some none, r) => (.incomplete, ms, r)
      | (some (some len), r) =>
        if len > env.maxStrLen then (.noMemory, ms, r) else
        match r.readBytes len with
        | (none, r) => (.incomplete, ms, r)
        | (some key, r) =>
          let mf := flt.subKey key
          let keep := hasObj && mf.allow
          match parseVariant env fuel limit mf keep r with
          | (.ok, v, r, _) => readObject env fuel limit flt hasObj (n - 1) r (if keep then ms ++ [(key, v)] else ms)
          | (e, v, r, _) => (e, (if keep then ms ++ [(key, v)] else ms), r)
end

def run (env : Env) (limit : Nat) (flt : Flt) (input : List Byte) : Code × Val × Nat :=
  match parseVariant env (2 * input.length + 4) limit flt true { unread := input } with
  | (e, v, r, found) => ((if found then e else .empty), v, r.pos)

/-- ARDUINOJSON_USE_DOUBLE=0: `VariantData::setFloat(double)` always stores `static_cast<float>(value)`, so the document obtained is the
    one of the default configuration with every stored double rounded to binary32 -/
def narrowDoubles : Val → Val
  | .num (.f64 b) => .num (.f32 (cvt b64 b32 b))
  | .arr xs => .arr (narrowList xs)
  | .obj ms => .obj (narrowMembers ms)
  | v => v
where
  narrowList : List Val → List Val
    | [] => []
    | x :: r => narrowDoubles x :: narrowList r
  narrowMembers : List (List Byte × Val) → List (List Byte × Val)
    | [] => []
    | (k, x) :: r => (k, narrowDoubles x) :: narrowMembers r

/-! ## serializer -/
def beN (k n : Nat) : List Byte := (List.range k).reverse.map (fun i => UInt8.ofNat (n / 256^i % 256))

def encUInt (n : Nat) : List Byte :=
  if n ≤ 0x7F then [UInt8.ofNat n]
  else if n ≤ 0xFF then 0xCC :: beN 1 n
  else if n ≤ 0xFFFF then 0xCD :: beN 2 n
  else if n ≤ 0xFFFFFFFF then 0xCE :: beN 4 n
  else 0xCF :: beN 8 n
def encInt (v : Int) : List Byte :=
  if v > 0 then encUInt v.toNat
  else if v ≥ -0x20 then beN 1 (v + 256).toNat
  else if v ≥ -0x80 then 0xD0 :: beN 1 (v + 256).toNat
  else if v ≥ -0x8000 then 0xD1 :: beN 2 (v + 65536).toNat
  else if v ≥ -0x80000000 then 0xD2 :: beN 4 (v + 2^32).toNat
  else 0xD3 :: beN 8 (v + 2^64).toNat

/-- float32: integer shortcut when the value is integral and fits int64 -/
def encF32 (bits : Nat) : List Byte :=
  match decode b32 bits with
  | .fin neg m e =>
    -- canConvertNumber<int64>(f): f >= -2^63 && f <= highest_for<int64> (0x5EFFFFFF)
    let inRange := ge b32 bits 0xDF000000 && le b32 bits 0x5EFFFFFF
    let isInt := e ≥ 0 || m % 2^((-e).toNat) == 0
    if inRange && isInt then
      let mag := if e ≥ 0 then m * 2^e.toNat else m / 2^((-e).toNat)
      encInt (if neg then -(mag : Int) else mag)
    else 0xCA :: beN 4 bits
  | _ => 0xCA :: beN 4 bits
def encF64 (bits : Nat) : List Byte :=
  let f := cvt b64 b32 bits
  let same := match decode b64 bits with
    | .nan => false
    | _ => cvt b32 b64 f == bits || (match decode b64 bits, decode b32 f with | .fin _ 0 _, .fin _ 0 _ => true | _, _ => false)
  if same then encF32 f else 0xCB :: beN 8 bits

def strHdr (n : Nat) : List Byte :=
  if n < 0x20 then [UInt8.ofNat (0xA0 + n)] else if n < 0x100 then 0xD9 :: beN 1 n
  else if n < 0x10000 then 0xDA :: beN 2 n else 0xDB :: beN 4 n
def arrHdr (n : Nat) : List Byte :=
  if n < 0x10 then [UInt8.ofNat (0x90 + n)] else if n < 0x10000 then 0xDC :: beN 2 n else 0xDD :: beN 4 n
def mapHdr (n : Nat) : List Byte :=
  if n < 0x10 then [UInt8.ofNat (0x80 + n)] else if n < 0x10000 then 0xDE :: beN 2 n else 0xDF :: beN 4 n

/-- `Converter<MsgPackBinary>::toJson`: the raw bytes stored for a binary value set through the API -/
def binRaw (data : List Byte) : List Byte :=
  let n := data.length
  (if n ≥ 0x10000 then 0xC6 :: beN 4 n else if n ≥ 0x100 then 0xC5 :: beN 2 n else 0xC4 :: beN 1 n) ++ data

/-- `Converter<MsgPackExtension>::toJson` -/
def extRaw (type : Nat) (data : List Byte) : List Byte :=
  let n := data.length
  (if n ≥ 0x10000 then 0xC9 :: beN 4 n
   else if n ≥ 0x100 then 0xC8 :: beN 2 n
   else if n == 16 then [0xD8] else if n == 8 then [0xD7] else if n == 4 then [0xD6] else if n == 2 then [0xD5] else if n == 1 then [0xD4]
   else 0xC7 :: beN 1 n) ++ UInt8.ofNat type :: data

mutual
def ser : Val → List Byte
  | .null => [0xC0]
  | .bool b => [if b then 0xC3 else 0xC2]
  | .num (.uint n) => encUInt n
  | .num (.sint v) => encInt v
  | .num (.f32 b) => encF32 b
  | .num (.f64 b) => encF64 b
  | .str s => strHdr s.length ++ s
  | .raw s => s
  | .arr xs => arrHdr xs.length ++ serElems xs
  | .obj ms => mapHdr ms.length ++ serMembers ms
def serElems : List Val → List Byte
  | [] => []
  | x :: r => ser x ++ serElems r
def serMembers : List (List Byte × Val) → List Byte
  | [] => []
  | (k, v) :: r => (strHdr k.length ++ k) ++ ser v ++ serMembers r
end
end MD
