/- Slot-level model of deserializeMsgPack (unfiltered): the reader and header decoding of AJ/Model/MD.lean writing into the
   slot-level document of AJ/Model/DL.lean through VariantData::toArray/toObject, ArrayData::addElement,
   ObjectData::addMember(StringNode*) (no lookup: repeated keys are kept), setBoolean/setInteger/setFloat, and the StringBuffer
   (Memory/StringBuffer.hpp): `reserve(n)` keeps a node that is large enough, otherwise releases it and allocates one of exactly
   n bytes; `save()` bumps the reference count of an equal stored string and keeps the buffer, or shrinks the buffer to the
   exact size (only if it is larger) and stores it. Total: structural recursion on the same fuel as MD. -/
import AJ.Model.MD
import AJ.Model.JDD
open JD DL MD

namespace MDD

/-- deserializer state: reader, document, capacity of the StringBuffer's node (none: no node) -/
structure S where
  r : MD.R
  d : Doc
  b : Option Nat := none

/-- `StringBuffer::reserve(n)`: true iff a buffer of at least n bytes is available afterwards -/
def reserve (maxLen : Nat) (x : S) (n : Nat) : Bool × S :=
  let x := match x.b with
    | some cap => if n > cap then { x with d := { x.d with pl := x.d.pl.dealloc }, b := none } else x
    | none => x
  match x.b with
  | some _ => (true, x)
  | none =>
    if n > maxLen then (false, { x with d := { x.d with overflowed := true } })      -- StringNode::create refuses without calling the allocator
    else
      let (ok, pl) := x.d.pl.alloc (n + x.d.strOverhead)
      if ok then (true, { x with d := { x.d with pl := pl }, b := some n })
      else (false, { x with d := { x.d with pl := pl, overflowed := true } })

/-- `StringBuffer::save()` of `bytes` (a buffer is present) -/
def save (x : S) (bytes : List Byte) : Nat × S :=
  match x.d.strings.find? (·.bytes == bytes) with
  | some n =>
    (n.id, { x with d := { x.d with strings := x.d.strings.map (fun y => if y.id == n.id then { y with refs := y.refs + 1 } else y) } })
  | none =>
    let pl := match x.b with
      | some cap => if cap != bytes.length then (x.d.pl.realloc (bytes.length + x.d.strOverhead) false).2 else x.d.pl
      | none => x.d.pl
    (x.d.nextNode, { x with d := { x.d with pl := pl, strings := ⟨x.d.nextNode, bytes, 1⟩ :: x.d.strings, nextNode := x.d.nextNode + 1 }, b := none })

/-- `readString(n)`: reserve, then read n bytes into the buffer -/
def readString (env : Env) (x : S) (n : Nat) : Code × List Byte × S :=
  match reserve env.maxStrLen x n with
  | (false, x) => (.noMemory, [], x)
  | (true, x) =>
    match x.r.readBytes n with
    | (some bs, r) => (.ok, bs, { x with r := r })
    | (none, r) => (.incomplete, [], { x with r := r })

def store (x : S) (l : Loc) (a : Arg) : Code × S :=
  let (ok, d) := x.d.setArg l a
  ((if ok then .ok else .noMemory), { x with d := d })

set_option maxRecDepth 8000 in
mutual
def parseVariant (env : Env) : (fuel : Nat) → (limit : Nat) → Loc → S → Code × S × Bool
  | 0, _, _, x => (.fuel, x, true)
  | fuel+1, limit, l, x =>
    match x.r.read with
    | (none, r) => (.incomplete, { x with r := r }, false)
    | (some code, r) =>
      let x := { x with r := r }
      let c := code.toNat
      let fin (p : Code × S) : Code × S × Bool := (p.1, p.2, true)
      if 0xcc ≤ c && c ≤ 0xd3 then
        let width := 2^((c - 0xcc) % 4)
        match x.r.readBytes width with
        | (some bs, r) =>
          match MD.readInteger bs (c ≥ 0xd0) with
          | .num (.uint n) => fin (store { x with r := r } l (.uint n))
          | .num (.sint n) => fin (store { x with r := r } l (.sint n))
          | _ => fin (.ok, { x with r := r })
        | (none, r) => fin (.incomplete, { x with r := r })
      else if c == 0xc0 then fin (.ok, x)
      else if c == 0xc1 then fin (.invalid, x)
      else if c == 0xc2 || c == 0xc3 then fin (.ok, { x with d := x.d.set l (.bool (c == 0xc3)) })
      else if c == 0xca then
        match x.r.readBytes 4 with
        | (some bs, r) => fin (.ok, { x with r := r, d := x.d.set l (.f32 (beNat bs)) })
        | (none, r) => fin (.incomplete, { x with r := r })
      else if c == 0xcb then
        match x.r.readBytes 8 with
        | (some bs, r) => fin (store { x with r := r } l (.f64 (beNat bs)))
        | (none, r) => fin (.incomplete, { x with r := r })
      else if c ≤ 0x7f || c ≥ 0xe0 then
        fin (.ok, { x with d := x.d.set l (.i32 (if c ≥ 0x80 then (c : Int) - 256 else c)) })
      else
        let sizeBytes : Nat :=
          if c == 0xc4 || c == 0xc7 || c == 0xd9 then 1
          else if c == 0xc5 || c == 0xc8 || c == 0xda || c == 0xdc || c == 0xde then 2
          else if c == 0xc6 || c == 0xc9 || c == 0xdb || c == 0xdd || c == 0xdf then 4
          else 0
        let isExt0 := 0xc7 ≤ c && c ≤ 0xc9
        let (size0, isExt) : Nat × Bool :=
          if 0xd4 ≤ c && c ≤ 0xd8 then (2^(c - 0xd4), true) else (0, isExt0)
        let size1 := if c / 16 == 9 || c / 16 == 8 then c % 16 else size0
        let size2 := if c / 32 == 5 then c % 32 else size1
        let hdr : Option (List Byte × Nat) × MD.R :=
          if sizeBytes > 0 then
            match x.r.readBytes sizeBytes with
            | (some bs, r) => (some (bs, beNat bs), r)
            | (none, r) => (none, r)
          else (some ([], size2), x.r)
        match hdr with
        | (none, r) => fin (.incomplete, { x with r := r })
        | (some (hb, size), r) =>
          let x := { x with r := r }
          if c == 0xdc || c == 0xdd || c / 16 == 9 then
            match limit with
            | 0 => fin (.tooDeep, x)
            | limit'+1 => fin (readArray env fuel limit' l size { x with d := x.d.set l (.arr x.d.null x.d.null) })
          else if c == 0xde || c == 0xdf || c / 16 == 8 then
            match limit with
            | 0 => fin (.tooDeep, x)
            | limit'+1 => fin (readObject env fuel limit' l size { x with d := x.d.set l (.obj x.d.null x.d.null) })
          else if c == 0xd9 || c == 0xda || c == 0xdb || c / 32 == 5 then
            match readString env x size with
            | (.ok, bs, x) =>
              let (node, x) := save x bs
              fin (.ok, { x with d := x.d.set l (.owned node) })
            | (e, _, x) => fin (e, x)
          else
            let size := if isExt then size + 1 else size
            let total := 1 + sizeBytes + size
            match reserve env.maxStrLen x total with
            | (false, x) => fin (.noMemory, x)
            | (true, x) =>
              match x.r.readBytes size with
              | (some bs, r) =>
                let (node, x) := save { x with r := r } (code :: hb ++ bs)
                fin (.ok, { x with d := x.d.set l (.raw node) })
              | (none, r) => fin (.incomplete, { x with r := r })
def readArray (env : Env) : (fuel : Nat) → (limit : Nat) → Loc → Nat → S → Code × S
  | 0, _, _, _, x => (.fuel, x)
  | fuel+1, limit, l, n, x =>
    if n == 0 then (.ok, x) else
    match x.d.addElement l with
    | (none, d) => (.noMemory, { x with d := d })
    | (some id, d) =>
      match parseVariant env fuel limit (.slot id) { x with d := d } with
      | (.ok, x, _) => readArray env fuel limit l (n - 1) x
      | (e, x, _) => (e, x)
def readObject (env : Env) : (fuel : Nat) → (limit : Nat) → Loc → Nat → S → Code × S
  | 0, _, _, _, x => (.fuel, x)
  | fuel+1, limit, l, n, x =>
    if n == 0 then (.ok, x) else
    match x.r.read with
    | (none, r) => (.incomplete, { x with r := r })
    | (some code, r) =>
      let x := { x with r := r }
      let c := code.toNat
      let keyLen : Option (Option Nat) × MD.R :=      -- none = invalid ; some none = incomplete
        if c / 32 == 5 then (some (some (c % 32)), x.r)
        else if 0xd9 ≤ c && c ≤ 0xdb then
          match x.r.readBytes (2^(c - 0xd9)) with
          | (some bs, r) => (some (some (beNat bs)), r)
          | (none, r) => (some none, r)
        else (none, x.r)
      match keyLen with
      | (none, r) => (.invalid, { x with r := r })
      | (some none, r) => (.incomplete, { x with r := r })
      | (some (some len), r) =>
        match readString env { x with r := r } len with
        | (.ok, key, x) =>
          let (node, x) := save x key
          match JDD.addMemberNode x.d l node with
          | (none, d) => (.noMemory, { x with d := d })
          | (some v, d) =>
            match parseVariant env fuel limit (.slot v) { x with d := d } with
            | (.ok, x, _) => readObject env fuel limit l (n - 1) x
            | (e, x, _) => (e, x)
        | (e, _, x) => (e, x)
end

/-- `doDeserialize` for MessagePack: clear, parse into the root, release a kept buffer, shrink -/
def run (env : Env) (limit : Nat) (d : Doc) (input : List Byte) : Code × Doc × Nat :=
  let d := d.clearAll
  let (c, x, found) := parseVariant env (2 * input.length + 4) limit .root { r := { unread := input }, d := d }
  let c := if found then c else .empty
  let d := match x.b with | some _ => { x.d with pl := x.d.pl.dealloc } | none => x.d
  let d := { d with pl := PL.shrink d.g d.pl }
  (c, d, x.r.pos)

/-- `deserializeMsgPack(JsonVariant dst, …)` into a value inside a document -/
def runAt (env : Env) (limit : Nat) (d : Doc) (l : Loc) (input : List Byte) : Code × Doc × Nat :=
  let d := d.clearV l
  let (c, x, found) := parseVariant env (2 * input.length + 4) limit l { r := { unread := input }, d := d }
  let c := if found then c else .empty
  let d := match x.b with | some _ => { x.d with pl := x.d.pl.dealloc } | none => x.d
  (c, d, x.r.pos)

end MDD
