/- Slot-level model of the FILTERED deserializeMsgPack: MDD (AJ/Model/MDD.lean) with the Filter threaded through exactly as in
   MsgPackDeserializer.hpp: the destination is a pointer that is null when the value is ignored (`Option Loc`), `allowValue =
   variant && filter.allowValue()`, an array/object is created only when the destination exists and the filter allows it, an element
   or member gets a slot only when the collection exists and its filter `allow()`s. What the document-level model adds over MD.parseVariant
   is the memory behaviour: EVERY key - of kept members, of skipped members and of the members of skipped objects - goes through
   `StringBuffer::reserve` (a buffer of its size is allocated, or a larger kept one reused); skipped string/binary values do not.
   Total: structural recursion on the same fuel as MD. -/
import AJ.Model.MDD
open JD DL MD

namespace MDDF
open MDD

set_option maxRecDepth 8000 in
mutual
def parseVariant (env : Env) : (fuel : Nat) → (limit : Nat) → Flt → Option Loc → S → Code × S × Bool
  | 0, _, _, _, x => (.fuel, x, true)
  | fuel+1, limit, flt, dst, x =>
    match x.r.read with
    | (none, r) => (.incomplete, { x with r := r }, false)
    | (some code, r) =>
      let x := { x with r := r }
      let c := code.toNat
      let fin (p : Code × S) : Code × S × Bool := (p.1, p.2, true)
      let skip (x : S) (n : Nat) : Code × S :=
        match x.r.skipBytes n with
        | (true, r) => (.ok, { x with r := r })
        | (false, r) => (.incomplete, { x with r := r })
      -- the destination when the value is allowed
      let av : Option Loc := if flt.allowValue then dst else none
      if 0xcc ≤ c && c ≤ 0xd3 then
        let width := 2^((c - 0xcc) % 4)
        match av with
        | some l =>
          match x.r.readBytes width with
          | (some bs, r) =>
            match MD.readInteger bs (c ≥ 0xd0) with
            | .num (.uint n) => fin (store { x with r := r } l (.uint n))
            | .num (.sint n) => fin (store { x with r := r } l (.sint n))
            | _ => fin (.ok, { x with r := r })
          | (none, r) => fin (.incomplete, { x with r := r })
        | none => fin (skip x width)
      else if c == 0xc0 then fin (.ok, x)
      else if c == 0xc1 then fin (.invalid, x)
      else if c == 0xc2 || c == 0xc3 then
        match av with
        | some l => fin (.ok, { x with d := x.d.set l (.bool (c == 0xc3)) })
        | none => fin (.ok, x)
      else if c == 0xca then
        match av with
        | some l =>
          match x.r.readBytes 4 with
          | (some bs, r) => fin (.ok, { x with r := r, d := x.d.set l (.f32 (beNat bs)) })
          | (none, r) => fin (.incomplete, { x with r := r })
        | none => fin (skip x 4)
      else if c == 0xcb then
        match av with
        | some l =>
          match x.r.readBytes 8 with
          | (some bs, r) => fin (store { x with r := r } l (.f64 (beNat bs)))
          | (none, r) => fin (.incomplete, { x with r := r })
        | none => fin (skip x 8)
      else if c ≤ 0x7f || c ≥ 0xe0 then
        match av with
        | some l => fin (.ok, { x with d := x.d.set l (.i32 (if c ≥ 0x80 then (c : Int) - 256 else c)) })
        | none => fin (.ok, x)
      else
        let sizeBytes : Nat :=
          if c == 0xc4 || c == 0xc7 || c == 0xd9 then 1
          else if c == 0xc5 || c == 0xc8 || c == 0xda || c == 0xdc || c == 0xde then 2
          else if c == 0xc6 || c == 0xc9 || c == 0xdb || c == 0xdd || c == 0xdf then 4
          else 0
        let isExt0 := 0xc7 ≤ c && c ≤ 0xc9
        let (size0, isExt) : Nat × Bool :=
          if 0xd4 ≤ c && c ≤ 0xd8 then (2^(c - 0xd4), true) else (0, isExt0)
        let size1 := if c / 16 == 9 || c / 16 == 8 then c % 16 else size0
        let size2 := if c / 32 == 5 then c % 32 else size1
        let hdr : Option (List Byte × Nat) × MD.R :=
          if sizeBytes > 0 then
            match x.r.readBytes sizeBytes with
            | (some bs, r) => (some (bs, beNat bs), r)
            | (none, r) => (none, r)
          else (some ([], size2), x.r)
        match hdr with
        | (none, r) => fin (.incomplete, { x with r := r })
        | (some (hb, size), r) =>
          let x := { x with r := r }
          if c == 0xdc || c == 0xdd || c / 16 == 9 then
            match limit with
            | 0 => fin (.tooDeep, x)
            | limit'+1 =>
              match (if flt.allowArray then dst else none) with
              | some l => fin (readArray env fuel limit' flt.subIdx (some l) size { x with d := x.d.set l (.arr x.d.null x.d.null) })
              | none => fin (readArray env fuel limit' flt.subIdx none size x)
          else if c == 0xde || c == 0xdf || c / 16 == 8 then
            match limit with
            | 0 => fin (.tooDeep, x)
            | limit'+1 =>
              match (if flt.allowObject then dst else none) with
              | some l => fin (readObject env fuel limit' flt (some l) size { x with d := x.d.set l (.obj x.d.null x.d.null) })
              | none => fin (readObject env fuel limit' flt none size x)
          else if c == 0xd9 || c == 0xda || c == 0xdb || c / 32 == 5 then
            match av with
            | some l =>
              match readString env x size with
              | (.ok, bs, x) =>
                let (node, x) := save x bs
                fin (.ok, { x with d := x.d.set l (.owned node) })
              | (e, _, x) => fin (e, x)
            | none => fin (skip x size)
          else
            let size := if isExt then size + 1 else size
            match av with
            | some l =>
              let total := 1 + sizeBytes + size
              match reserve env.maxStrLen x total with
              | (false, x) => fin (.noMemory, x)
              | (true, x) =>
                match x.r.readBytes size with
                | (some bs, r) =>
                  let (node, x) := save { x with r := r } (code :: hb ++ bs)
                  fin (.ok, { x with d := x.d.set l (.raw node) })
                | (none, r) => fin (.incomplete, { x with r := r })
            | none => fin (skip x size)
def readArray (env : Env) : (fuel : Nat) → (limit : Nat) → Flt → Option Loc → Nat → S → Code × S
  | 0, _, _, _, _, x => (.fuel, x)
  | fuel+1, limit, ef, arr, n, x =>
    if n == 0 then (.ok, x) else
    let slot : Option (Option Loc) × S :=          -- none: addElement failed
      match (if ef.allow then arr else none) with
      | some l =>
        match x.d.addElement l with
        | (none, d) => (none, { x with d := d })
        | (some id, d) => (some (some (.slot id)), { x with d := d })
      | none => (some none, x)
    match slot with
    | (none, x) => (.noMemory, x)
    | (some dst, x) =>
      match parseVariant env fuel limit ef dst x with
      | (.ok, x, _) => readArray env fuel limit ef arr (n - 1) x
      | (e, x, _) => (e, x)
def readObject (env : Env) : (fuel : Nat) → (limit : Nat) → Flt → Option Loc → Nat → S → Code × S
  | 0, _, _, _, _, x => (.fuel, x)
  | fuel+1, limit, flt, obj, n, x =>
    if n == 0 then (.ok, x) else
    match x.r.read with
    | (none, r) => (.incomplete, { x with r := r })
    | (some code, r) =>
      let x := { x with r := r }
      let c := code.toNat
      let keyLen : Option (Option Nat) × MD.R :=      -- none = invalid ; some none = incomplete
        if c / 32 == 5 then (some (some (c % 32)), x.r)
        else if 0xd9 ≤ c && c ≤ 0xdb then
          match x.r.readBytes (2^(c - 0xd9)) with
          | (some bs, r) => (some (some (beNat bs)), r)
          | (none, r) => (some none, r)
        else (none, x.r)
      match keyLen with
      | (none, r) => (.invalid, { x with r := r })
      | (some none, r) => (.incomplete, { x with r := r })
      | (some (some len), r) =>
        match readString env { x with r := r } len with
        | (.ok, key, x) =>
          let mf := flt.subKey key
          let slot : Option (Option Loc) × S :=
            match (if mf.allow then obj else none) with
            | some l =>
              let (node, x) := save x key
              match JDD.addMemberNode x.d l node with
              | (none, d) => (none, { x with d := d })
              | (some v, d) => (some (some (.slot v)), { x with d := d })
            | none => (some none, x)
          match slot with
          | (none, x) => (.noMemory, x)
          | (some dst, x) =>
            match parseVariant env fuel limit mf dst x with
            | (.ok, x, _) => readObject env fuel limit flt obj (n - 1) x
            | (e, x, _) => (e, x)
        | (e, _, x) => (e, x)
end

/-- filtered `doDeserialize` for MessagePack -/
def run (env : Env) (limit : Nat) (flt : Flt) (d : Doc) (input : List Byte) : Code × Doc × Nat :=
  let d := d.clearAll
  let (c, x, found) := parseVariant env (2 * input.length + 4) limit flt (some .root) { r := { unread := input }, d := d }
  let c := if found then c else .empty
  let d := match x.b with | some _ => { x.d with pl := x.d.pl.dealloc } | none => x.d
  let d := { d with pl := PL.shrink d.g d.pl }
  (c, d, x.r.pos)

end MDDF
