/- Prototype model of MemoryPoolList + allocator oracle (Memory/MemoryPool.hpp, MemoryPoolList.hpp).
   Free list kept as a list (the intrusive representation is the L0/L1 refinement of Appendix C). -/
namespace PL

structure Geo where
  poolCap : Nat
  initPools : Nat
  idBytes : Nat
  slotSize : Nat := 16
  poolSize : Nat := 16     -- sizeof(MemoryPool<T>)

def Geo.nullSlot (g : Geo) : Nat := 2^(8*g.idBytes) - 1
def Geo.maxPools (g : Geo) : Nat := (g.nullSlot / g.poolCap + 1) % 2^(8*g.idBytes)
def Geo.wrap (g : Geo) (n : Nat) : Nat := n % 2^(8*g.idBytes)

structure Pool where
  cap : Nat
  usage : Nat
  hasBlock : Bool
deriving Repr

structure St where
  pools : List Pool := []          -- count_ = pools.length
  tableCap : Nat
  tableHeap : Bool := false
  free : List Nat := []
  -- allocator oracle: position-indexed one-shot failures
  calls : Nat := 0
  failAt : List Nat := []
  failFrom : Option Nat := none     -- every call from this position on fails
  log : List String := []
deriving Repr

def init (g : Geo) : St := { tableCap := g.initPools }

def St.alloc (s : St) (size : Nat) : Bool × St :=
  let n := s.calls + 1
  let fail := s.failAt.contains n || (match s.failFrom with | some k => n ≥ k | none => false)
  (!fail, { s with calls := n, log := s!"A{size}{if fail then "!" else ""}" :: s.log })
def St.realloc (s : St) (size : Nat) (growing : Bool) : Bool × St :=
  let n := s.calls + 1
  let fail := growing && (s.failAt.contains n || (match s.failFrom with | some k => n ≥ k | none => false))
  (!fail, { s with calls := n, log := s!"R{size}{if fail then "!" else ""}" :: s.log })
def St.dealloc (s : St) : St := { s with log := "D" :: s.log }

def allocFromLastPool (g : Geo) (s : St) : Option Nat × St :=
  match s.pools.getLast? with
  | none => (none, s)
  | some p =>
    if !p.hasBlock then (none, s)
    else if p.usage ≥ p.cap then (none, s)
    else
      let idx := s.pools.length - 1
      let id := g.wrap (idx * g.poolCap + p.usage)
      (some id, { s with pools := s.pools.dropLast ++ [{ p with usage := p.usage + 1 }] })

def increaseCapacity (g : Geo) (s : St) : Bool × St :=
  if s.tableCap ≥ g.maxPools then (false, s) else
  let newCap := g.wrap (s.tableCap * 2)
  let newCap := if newCap > g.maxPools || newCap < s.tableCap then g.maxPools else newCap
  if !s.tableHeap then
    let (ok, s) := s.alloc (newCap * g.poolSize)
    if !ok then (false, s) else (true, { s with tableHeap := true, tableCap := newCap })
  else
    let (ok, s) := s.realloc (newCap * g.poolSize) true
    if !ok then (false, s) else (true, { s with tableCap := newCap })

def addPool (g : Geo) (s : St) : Bool × St :=
  if s.pools.length ≥ g.maxPools then (false, s) else
  let (ok, s) := if s.pools.length == s.tableCap then increaseCapacity g s else (true, s)
  if !ok then (false, s) else
  let count := s.pools.length + 1
  let cap := if g.wrap count == g.maxPools then g.nullSlot - (g.maxPools - 1) * g.poolCap else g.poolCap
  let (got, s) := s.alloc (cap * g.slotSize)
  (true, { s with pools := s.pools ++ [{ cap := if got then cap else 0, usage := 0, hasBlock := got }] })

def allocSlot (g : Geo) (s : St) : Option Nat × St :=
  match s.free with
  | id :: rest => (some id, { s with free := rest })
  | [] =>
    let (r, s1) := if s.pools.isEmpty then (none, s) else allocFromLastPool g s
    match r with
    | some id => (some id, s1)
    | none =>
      let (ok, s2) := addPool g s
      if !ok then (none, s2) else allocFromLastPool g s2

def freeSlot (s : St) (id : Nat) : St := { s with free := id :: s.free }

def clear (g : Geo) (s : St) : St :=
  let s := s.pools.foldl (fun s p => if p.hasBlock then s.dealloc else s) s
  let s := { s with pools := [], free := [] }
  if s.tableHeap then { (s.dealloc) with tableHeap := false, tableCap := g.initPools } else s

def shrink (g : Geo) (s : St) : St :=
  let s := match s.pools.getLast? with
    | none => s
    | some p =>
      let (_, s) := s.realloc (p.usage * g.slotSize) false
      -- the harness allocator returns a non-null block even for size 0 (also for a pool whose creation
      -- failed: reallocate(nullptr, 0)); an allocator returning null here leaves the pool untouched
      { s with pools := s.pools.dropLast ++ [{ p with cap := p.usage, hasBlock := true }] }
  if s.tableHeap && s.pools.length != s.tableCap then
    let (_, s) := s.realloc (s.pools.length * g.poolSize) false
    { s with tableCap := s.pools.length }
  else s

def usage (s : St) : Nat := s.pools.foldl (fun a p => a + p.usage) 0
end PL
