/- Prototype softfloat: IEEE-754 binary formats as bit patterns (Nat), exact dyadic semantics,
   round-to-nearest-even. Executable and kernel-reducible. Validated here against Lean's native Float. -/
namespace SF

structure Fmt where
  mbits : Nat   -- explicit mantissa bits (52 / 23)
  ebits : Nat   -- exponent bits (11 / 8)
deriving Repr

def b64 : Fmt := ⟨52, 11⟩
def b32 : Fmt := ⟨23, 8⟩

def Fmt.bias (f : Fmt) : Nat := 2^(f.ebits-1) - 1
def Fmt.emax (f : Fmt) : Nat := 2^f.ebits - 1          -- all-ones exponent field
def Fmt.signBit (f : Fmt) : Nat := 2^(f.mbits + f.ebits)

inductive FP
  | nan
  | inf (neg : Bool)
  | fin (neg : Bool) (m : Nat) (e : Int)     -- value = (-1)^neg * m * 2^e ; m = 0 is zero
deriving Repr, DecidableEq

def decode (f : Fmt) (bits : Nat) : FP :=
  let neg := bits / f.signBit % 2 == 1
  let ex := bits / 2^f.mbits % 2^f.ebits
  let mant := bits % 2^f.mbits
  if ex == f.emax then (if mant == 0 then .inf neg else .nan)
  else if ex == 0 then .fin neg mant (1 - (f.bias : Int) - f.mbits)
  else .fin neg (mant + 2^f.mbits) ((ex : Int) - f.bias - f.mbits)

def nanBits (f : Fmt) : Nat := f.emax * 2^f.mbits + 2^(f.mbits-1)
def infBits (f : Fmt) (neg : Bool) : Nat := (if neg then f.signBit else 0) + f.emax * 2^f.mbits

/-- round-to-nearest-even of n / 2^k -/
def rneShift (n k : Nat) : Nat :=
  if k = 0 then n else
  let q := n / 2^k
  let r := n % 2^k
  let half := 2^(k-1)
  if r > half then q + 1 else if r < half then q else if q % 2 = 1 then q + 1 else q

/-- encode the exact value m * 2^e (m > 0) rounded to nearest even -/
def roundPos (f : Fmt) (neg : Bool) (m : Nat) (e : Int) : Nat :=
  let s := if neg then f.signBit else 0
  if m = 0 then s else
  let len := Nat.log2 m + 1                 -- bit length
  -- target: mantissa with mbits+1 bits; exponent of lsb
  let emin : Int := 1 - (f.bias : Int) - f.mbits      -- lsb exponent of subnormals / smallest normal
  let e' : Int := max (e + len - (f.mbits + 1)) emin  -- lsb exponent after rounding
  let mr : Nat := if e' ≥ e then rneShift m (e' - e).toNat else m * 2^((e - e').toNat)
  -- mr may be 2^(mbits+1) after rounding up: renormalise
  let (mr, e') := if mr ≥ 2^(f.mbits+1) then (mr / 2, e' + 1) else (mr, e')
  if mr < 2^f.mbits then s + mr            -- subnormal (e' = emin) ; exponent field 0
  else
    let ex : Int := e' + f.bias + f.mbits
    if ex ≥ f.emax then infBits f neg
    else s + ex.toNat * 2^f.mbits + (mr - 2^f.mbits)

def mul (f : Fmt) (a b : Nat) : Nat :=
  match decode f a, decode f b with
  | .nan, _ | _, .nan => nanBits f
  | .inf n1, .inf n2 => infBits f (n1 != n2)
  | .inf n1, .fin n2 m _ | .fin n2 m _, .inf n1 => if m = 0 then nanBits f else infBits f (n1 != n2)
  | .fin n1 m1 e1, .fin n2 m2 e2 => roundPos f (n1 != n2) (m1 * m2) (e1 + e2)

def ofNat (f : Fmt) (n : Nat) : Nat := roundPos f false n 0

/-- exact comparison of two finite/infinite values; NaN compares false -/
def cmpKey (f : Fmt) (bits : Nat) : Option (Int × Int) :=   -- (signed mantissa, exponent) for finite
  match decode f bits with
  | .fin neg m e => some ((if neg then -(m : Int) else m), e)
  | _ => none

def lt (f : Fmt) (a b : Nat) : Bool :=
  match decode f a, decode f b with
  | .nan, _ | _, .nan => false
  | .inf na, .inf nb => na && !nb
  | .inf na, .fin .. => na
  | .fin .., .inf nb => !nb
  | .fin na ma ea, .fin nb mb eb =>
    let e := min ea eb
    let va : Int := (if na then -1 else 1) * (ma * 2^((ea - e).toNat) : Nat)
    let vb : Int := (if nb then -1 else 1) * (mb * 2^((eb - e).toNat) : Nat)
    va < vb
def le (f : Fmt) (a b : Nat) : Bool :=
  match decode f a, decode f b with
  | .nan, _ | _, .nan => false
  | _, _ => !(lt f b a)
def ge (f : Fmt) (a b : Nat) : Bool := le f b a
def gt (f : Fmt) (a b : Nat) : Bool := lt f b a

/-- a - b for finite operands (others: nan) -/
def sub (f : Fmt) (a b : Nat) : Nat :=
  match decode f a, decode f b with
  | .fin na ma ea, .fin nb mb eb =>
    let e := min ea eb
    let va : Int := (if na then -1 else 1) * (ma * 2^((ea - e).toNat) : Nat)
    let vb : Int := (if nb then -1 else 1) * (mb * 2^((eb - e).toNat) : Nat)
    let d := va - vb
    if d = 0 then 0 else roundPos f (d < 0) d.natAbs e
  | _, _ => nanBits f

/-- truncation toward zero of a non-negative finite value -/
def toNatTrunc (f : Fmt) (a : Nat) : Nat :=
  match decode f a with
  | .fin _ m e => if e ≥ 0 then m * 2^e.toNat else m / 2^((-e).toNat)
  | _ => 0
def isNaN (f : Fmt) (a : Nat) : Bool := decode f a == .nan
def isInf (f : Fmt) (a : Nat) : Bool := match decode f a with | .inf _ => true | _ => false
def signOf (f : Fmt) (a : Nat) : Bool := a / f.signBit % 2 == 1
def absBits (f : Fmt) (a : Nat) : Nat := a % f.signBit
end SF
