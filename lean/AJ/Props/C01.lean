/- C01 — "Valid JSON deserializes to exactly the value it denotes", and C16 — "One call consumes one document".

   The specification is `Spec.Json` (AJ/Spec/Json.lean): `Value cfg L t v` says that the byte string `t` is a value
   of the RFC 8259 grammar within the limits of the deserializer (nesting ≤ `L`, strings ≤ `cfg.maxStrLen` bytes)
   and denotes the document `v`; `Doc` adds the surrounding white space.
   Helper lemmas: AJ/Lemmas/JsonComplete.lean (parser), AJ/Lemmas/NumLit.lean (number literals). -/
import AJ.Lemmas.JsonComplete
import AJ.Lemmas.JsonSpecFacts
set_option linter.unusedSimpArgs false
namespace C01
open JD Spec.Json

/-- **Completeness of the value parser** (main theorem). For every configuration that decodes `\u` escapes
    (whatever its comments/NaN/Infinity flags), from an unloaded latch standing on `w ++ t ++ rest` where `w` is
    white space and `t` a value text denoting `v` within the limits, `parseVariant` with any fuel
    `≥ |w| + |t| + 1` and the limit `L` returns `Ok` and exactly `v`, having consumed exactly `w ++ t`:
    * if `v` is not a number the latch is unloaded, `rest` is unread, `|w| + |t|` more bytes were taken;
    * if `v` is a number the latch is LOADED with the byte that follows the literal (the end marker 0 if there is
      none) — it has been taken from the reader but not consumed — and the tail of `rest` is unread.
    The only side condition: after a number literal, the next byte must not be one that the scanner would add to the
    literal (`Delim`; in a JSON text a number is followed by white space, `,`, `]`, `}` or the end). -/
theorem value_complete (cfg : Cfg) (hu : cfg.decodeUnicode = true) {L : Nat} {t : List Byte} {v : Val}
    (h : Value cfg L t v) (fuel : Nat) (w rest : List Byte) (s : St)
    (hw : Ws w) (h1 : s.l.loaded = false) (h2 : s.l.unread = w ++ t ++ rest)
    (hfuel : w.length + t.length + 1 ≤ fuel) (hd : NumLit t → Delim cfg rest) :
    ∃ s', parseVariant cfg fuel L s = (.ok, v, s') ∧ s'.found = true ∧
      (if isNumberVal v then
         s'.l.loaded = true ∧ s'.l.cur = rest.headD 0 ∧ s'.l.unread = rest.tail ∧
         s'.l.pos = s.l.pos + w.length + t.length + min 1 rest.length
       else s'.l.loaded = false ∧ s'.l.unread = rest ∧ s'.l.pos = s.l.pos + w.length + t.length) := by
  have hs : At s (w ++ (t ++ rest)) s.l.pos s.found := ⟨h1, by rw [h2, List.append_assoc], rfl, rfl⟩
  obtain ⟨s', hp, hpost⟩ := complete_value hu h fuel w rest s s.l.pos s.found hw hs.pos hfuel hd
  refine ⟨s', hp, ?_⟩
  unfold Post at hpost
  split at hpost
  · rename_i hn
    obtain ⟨f1, f2, f3, f4, f5⟩ := hpost.fields
    exact ⟨f5, by simp only [hn, ↓reduceIte]; exact ⟨f1, f2, f3, f4⟩⟩
  · rename_i hn
    exact ⟨hpost.2.2.2, by simp only [hn, ↓reduceIte]; exact ⟨hpost.1, hpost.2.1, hpost.2.2.1⟩⟩

/-- a non-number value: the result does not depend on what follows it -/
theorem run_value (cfg : Cfg) (hu : cfg.decodeUnicode = true) {L : Nat} {t : List Byte} {v : Val}
    (h : Value cfg L t v) (hn : isNumberVal v = false) (w rest : List Byte) (hw : Ws w) :
    JD.run cfg L (w ++ t ++ rest) = (.ok, v, w.length + t.length) := by
  have hrun : JD.run cfg L (w ++ t ++ rest) =
      (match parseVariant cfg (2 * (w ++ t ++ rest).length + 4) L { l := { unread := w ++ t ++ rest } } with
       | (.ok, v, s) =>
         if s.l.cur != 0 && !isWs s.l.cur && isNumberVal v then (.invalid, v, s.l.pos) else (.ok, v, s.l.pos)
       | (e, v, s) => (e, v, s.l.pos)) := rfl
  have hnl : NumLit t → Delim cfg rest := fun hl => by rw [value_numLit h hl] at hn; cases hn
  obtain ⟨s', hp, _, hpost⟩ := value_complete cfg hu h (2 * (w ++ t ++ rest).length + 4) w rest
    { l := { unread := w ++ t ++ rest } } hw rfl rfl (by simp; omega) hnl
  rw [hn] at hpost
  simp only [Bool.false_eq_true, ↓reduceIte] at hpost
  rw [hrun, hp]
  simp only [hn, Bool.and_false, Bool.false_eq_true, ↓reduceIte, hpost.2.2]
  simp

/-- a number followed by a delimiter: `Ok` exactly when the delimiter is white space or the end -/
theorem run_number (cfg : Cfg) {L : Nat} {t : List Byte} (h : NumLit t) (w rest : List Byte) (hw : Ws w)
    (hd : Delim cfg rest) :
    JD.run cfg L (w ++ t ++ rest) =
      ((if rest.headD 0 != 0 && !isWs (rest.headD 0) then .invalid else .ok), numVal cfg t,
        w.length + t.length + min 1 rest.length) := by
  have hrun : JD.run cfg L (w ++ t ++ rest) =
      (match parseVariant cfg (2 * (w ++ t ++ rest).length + 4) L { l := { unread := w ++ t ++ rest } } with
       | (.ok, v, s) =>
         if s.l.cur != 0 && !isWs s.l.cur && isNumberVal v then (.invalid, v, s.l.pos) else (.ok, v, s.l.pos)
       | (e, v, s) => (e, v, s.l.pos)) := rfl
  obtain ⟨s', hp, hS, hnum⟩ := pv_num cfg (L := L) (fuel := 2 * (w ++ t ++ rest).length + 4) (s := { l := { unread := w ++ t ++ rest } })
    (p := 0) (f := false) h hd hw (At.pos ⟨rfl, by simp, rfl, rfl⟩) (by simp; omega)
  obtain ⟨_, f2, _, f4, _⟩ := hS.fields
  rw [hrun, hp]
  simp only [hnum, Bool.and_true, f2, f4]
  split <;> simp

/-- **C01: a valid JSON text deserializes to exactly the document it denotes.** -/
theorem valid_json (cfg : Cfg) (hu : cfg.decodeUnicode = true) {L : Nat} {t : List Byte} {v : Val}
    (h : Doc cfg L t v) : (JD.run cfg L t).1 = .ok ∧ (JD.run cfg L t).2.1 = v := by
  obtain ⟨w1, body, w2, rfl, hw1, hw2, hv⟩ := h
  cases hnum : isNumberVal v with
  | false => rw [run_value cfg hu hv hnum w1 w2 hw1]; exact ⟨rfl, rfl⟩
  | true =>
    cases hv with
    | num _ _ hl =>
      rw [run_number cfg hl w1 w2 hw1 (delim_ws_end cfg hw2)]
      refine ⟨?_, rfl⟩
      cases w2 with
      | nil => rfl
      | cons c r =>
        have := (ws_head hw2).2
        simp [this]
    | _ => simp [isNumberVal] at hnum

/-- the limits of the specification are upper bounds: a text within `L` is within every `L' ≥ L` -/
theorem limits_monotone {cfg : Cfg} {L L' : Nat} {t : List Byte} {v : Val} (h : Value cfg L t v) (hl : L ≤ L') :
    Value cfg L' t v := value_mono h L' hl

/-- the denoted document is never deeper than the text, nor are its strings longer. (The converse fails: a value
    overwritten by a repeated key is in the text but not in the document, see `Examples` below; this is why
    `valid_json` bounds the text and not the document.) -/
theorem document_within_limits {cfg : Cfg} {L : Nat} {t : List Byte} {v : Val} (h : Value cfg L t v) :
    depth v ≤ L ∧ StrOk cfg.maxStrLen v := value_within h

end C01

namespace C16
open JD Spec.Json

/-- **C16: one call consumes one document.** Whatever follows a (non-number) value — more documents, garbage,
    nothing — the call returns the same result and has taken exactly the bytes of the leading white space and of
    the value from the reader. -/
theorem exact_consumption (cfg : Cfg) (hu : cfg.decodeUnicode = true) {L : Nat} {t : List Byte} {v : Val}
    (h : Value cfg L t v) (hn : isNumberVal v = false) (w rest : List Byte) (hw : Ws w) :
    JD.run cfg L (w ++ t ++ rest) = (.ok, v, w.length + t.length) :=
  C01.run_value cfg hu h hn w rest hw

/-- for a number the deserializer has to look one byte further: it takes that byte from the reader (if there is one) -/
theorem exact_consumption_number (cfg : Cfg) {L : Nat} {t : List Byte} (h : NumLit t) (w rest : List Byte) (hw : Ws w)
    (hd : Delim cfg rest) :
    (JD.run cfg L (w ++ t ++ rest)).2.1 = numVal cfg t ∧
    (JD.run cfg L (w ++ t ++ rest)).2.2 = w.length + t.length + min 1 rest.length := by
  rw [C01.run_number cfg h w rest hw hd]; exact ⟨rfl, rfl⟩

end C16

/-! ## Non-vacuity: explicit texts with their derivations -/
namespace C01.Examples
open JD Spec.Json

abbrev c0 : Cfg := {}

theorem n1 : NumLit [0x31] :=                                  -- 1
  ⟨by decide, [], [0x31], [], [], Or.inl rfl, Or.inr ⟨⟨by decide, by decide⟩, by decide⟩, Or.inl rfl, Or.inl rfl, rfl⟩
theorem nm0 : NumLit [0x2D, 0x30] :=                           -- -0
  ⟨by decide, [0x2D], [0x30], [], [], Or.inr rfl, Or.inl rfl, Or.inl rfl, Or.inl rfl, rfl⟩
theorem nf : NumLit [0x32, 0x2E, 0x35, 0x65, 0x33] :=          -- 2.5e3
  ⟨by decide, [], [0x32], [0x2E, 0x35], [0x65, 0x33], Or.inl rfl, Or.inr ⟨⟨by decide, by decide⟩, by decide⟩,
    Or.inr ⟨[0x35], ⟨by decide, by decide⟩, rfl⟩,
    Or.inr ⟨0x65, [], [0x33], Or.inl rfl, Or.inl rfl, ⟨by decide, by decide⟩, rfl⟩, rfl⟩

theorem v1 : numVal c0 [0x31] = .num (.uint 1) := by rfl
theorem vm0 : numVal c0 [0x2D, 0x30] = .num (.sint 0) := by rfl
theorem vf : numVal c0 [0x32, 0x2E, 0x35, 0x65, 0x33] = .num (.f32 0x451C4000) := by
  have : parseNumber c0 [0x32, 0x2E, 0x35, 0x65, 0x33] = .f32 0x451C4000 := by decide +kernel
  show floatVal c0 _ = _
  unfold floatVal
  rw [this]

/-- the text `[1,-0 , 2.5e3]` -/
def arrText : List Byte := [0x5B, 0x31, 0x2C, 0x2D, 0x30, 0x20, 0x2C, 0x20, 0x32, 0x2E, 0x35, 0x65, 0x33, 0x5D]

theorem arr_value : Value c0 1 arrText (.arr [.num (.uint 1), .num (.sint 0), .num (.f32 0x451C4000)]) := by
  rw [← v1, ← vm0, ← vf]
  exact Value.arr 0 [0x31, 0x2C, 0x2D, 0x30, 0x20, 0x2C, 0x20, 0x32, 0x2E, 0x35, 0x65, 0x33] _
    (Elements.cons 0 [] [0x31] _ [] [0x2D, 0x30, 0x20, 0x2C, 0x20, 0x32, 0x2E, 0x35, 0x65, 0x33] _
      (by decide) (Value.num 0 _ n1) (by decide)
      (Elements.cons 0 [] [0x2D, 0x30] _ [0x20] [0x20, 0x32, 0x2E, 0x35, 0x65, 0x33] _
        (by decide) (Value.num 0 _ nm0) (by decide)
        (Elements.one 0 [0x20] [0x32, 0x2E, 0x35, 0x65, 0x33] _ [] (by decide) (Value.num 0 _ nf) (by decide))))

/-- C16 on `[1,-0 , 2.5e3]` followed by ANY bytes: 14 bytes are taken, the array is returned -/
example (rest : List Byte) :
    JD.run c0 1 (arrText ++ rest) = (.ok, .arr [.num (.uint 1), .num (.sint 0), .num (.f32 0x451C4000)], 14) :=
  C16.exact_consumption c0 rfl arr_value rfl [] rest (by decide)

/-- the text ` {"k":[1,-0 , 2.5e3],"k":"\n"}` + LF: a repeated key, the last value wins -/
def docText : List Byte :=
  [0x20, 0x7B, 0x22, 0x6B, 0x22, 0x3A] ++ arrText ++ [0x2C, 0x22, 0x6B, 0x22, 0x3A, 0x22, 0x5C, 0x6E, 0x22, 0x7D, 0x0A]

theorem doc_value : Doc c0 2 docText (.obj [([0x6B], .str [0x0A])]) := by
  have hk : Body 0x22 [0x6B] [0x6B] := Body.plain 0x6B [] [] (by decide) (by decide) (by decide) Body.nil
  have hs : Body 0x22 [0x5C, 0x6E] [0x0A] := Body.esc 0x6E 0x0A [] [] (by decide) Body.nil
  refine ⟨[0x20], [0x7B, 0x22, 0x6B, 0x22, 0x3A] ++ arrText ++ [0x2C, 0x22, 0x6B, 0x22, 0x3A, 0x22, 0x5C, 0x6E, 0x22, 0x7D],
    [0x0A], rfl, by decide, by decide, ?_⟩
  exact Value.obj 1 ([0x22, 0x6B, 0x22, 0x3A] ++ arrText ++ [0x2C, 0x22, 0x6B, 0x22, 0x3A, 0x22, 0x5C, 0x6E, 0x22])
    [([0x6B], .arr [.num (.uint 1), .num (.sint 0), .num (.f32 0x451C4000)]), ([0x6B], .str [0x0A])]
    (Members.cons 1 [] [0x6B] [0x6B] [] [] arrText _ [] [0x22, 0x6B, 0x22, 0x3A, 0x22, 0x5C, 0x6E, 0x22] _
      (by decide) hk (by decide) (by decide) (by decide) arr_value (by decide)
      (Members.one 1 [] [0x6B] [0x6B] [] [] [0x22, 0x5C, 0x6E, 0x22] _ []
        (by decide) hk (by decide) (by decide) (by decide) (Value.str 1 [0x5C, 0x6E] [0x0A] hs (by decide)) (by decide)))

/-- C01 on that text -/
example : (JD.run c0 2 docText).1 = .ok ∧ (JD.run c0 2 docText).2.1 = .obj [([0x6B], .str [0x0A])] :=
  C01.valid_json c0 rfl doc_value

-- the same, evaluated directly (independent of the theorem); with the limit 1 the text is refused although the
-- denoted document is only one level deep: the limits are about the text
example : (JD.run c0 2 docText).1 = .ok ∧ (JD.run c0 2 docText).2.2 = 30 := by decide +kernel
example : (JD.run c0 1 docText).1 = .tooDeep := by decide +kernel
example : depth (.obj [([0x6B], .str [0x0A])]) = 1 := by simp [depth, depthMembers]

/-- Why `valid_json` bounds the TEXT: with the bounds on the denoted document instead
    (`depth v ≤ L`, `StrOk cfg.maxStrLen v`) the statement is false — this valid text denotes a document of depth 1
    with strings of one byte, and the deserializer with nesting limit 1 answers `TooDeep`, because the array that
    the repeated key overwrites is two levels deep. -/
theorem bounds_on_document_do_not_suffice :
    ∃ (t : List Byte) (v : Val) (L : Nat), (∃ L', Doc c0 L' t v) ∧ depth v ≤ L ∧ StrOk c0.maxStrLen v ∧
      (JD.run c0 L t).1 ≠ .ok :=
  ⟨docText, _, 1, ⟨2, doc_value⟩, by simp [depth, depthMembers], by simp [StrOk, StrOkMembers], by decide +kernel⟩

end C01.Examples
