/- Aggregate: C01 value-level theorems (C01.lean) and the refinement of the slot-level deserializer to the value-level one (C01Doc.lean). -/
import AJ.Props.C01
import AJ.Props.C01Doc
