/- C01 at slot level — THE SLOT-LEVEL DESERIALIZER REFINES THE ABSTRACT ONE.

   `JDD.run cfg limit d input` (AJ/Model/JDD.lean) is `deserializeJson` writing into the slot-level document `DL.Doc`
   (slots with next pointers, head/tail collections, extension slots, reference-counted strings, the StringBuilder and its
   allocation pattern), validated against the C++ including allocation-failure schedules. `JD.run cfg limit input`
   (AJ/Model/JD.lean) is the value-level deserializer that all the grammar theorems are about (C01 `valid_json`, C10
   `accepts_iff`, C11 projection, C12 numbers, C15 depth, C16 consumption, C17 unicode).

   Main theorem `C01.slot_level_refines`: for every configuration whose string limit is at least the initial StringBuilder
   capacity (31; the real limits are 255, 65535, 2^32-1), every nesting limit, input and starting document (any content:
   it is cleared first; hypotheses: the geometry and the pool invariant), with `(c, d', n) := JDD.run …` and
   `(c0, v0, n0) := JD.run …`:
   * if no allocation failed (`d'.overflowed = false`): `c = c0`, `n = n0` and the document left — for EVERY code, also
     the partial document left by a syntax error — reads back as the abstract value: `d'.toVal d'.root = v0`;
   * unconditionally: either `c = c0 ∧ n = n0`, or `c = NoMemory` with the overflow flag set.
   Helper lemmas: AJ/Lemmas/JddSim*.lean (a simulation by induction on the fuel over the three mutual routines, in the
   local specification `Pre`/`Post`/`Fr` of AJ/Lemmas/DocCopy.lean). -/
import AJ.Lemmas.JddSimAll
import AJ.Props.C01
import AJ.Props.C10
import AJ.Props.C15
set_option linter.unusedSimpArgs false
set_option linter.unusedVariables false

namespace JDD
open DL
open JD (Byte Val Cfg Code St)

/-- the cleared document is a fresh place for the root -/
theorem sim_clearAll_pre {d : Doc} (gok : PL.GeoOK d.g) (hp : PL.Inv d.g d.pl) : Pre d.clearAll .root := by
  have hpl : d.clearAll.pl = (PL.clear d.g d.pl).rel [] d.strings.length := foldl_dealloc _ _
  have hI : PL.Inv d.clearAll.g d.clearAll.pl := by
    rw [hpl]
    exact (PL.clear_inv gok hp).congr rfl rfl rfl rfl
  exact ⟨gok, hI, rfl, fun i e => (by cases e), ⟨[], ⟨List.nodup_nil, fun n hn => (by cases hn),
    fun n hn => (by cases hn), fun r hr => (by cases hr)⟩⟩⟩

theorem sim_rootIsNumber (d : Doc) (v : VData) (s : Forest) (hv : d.root = v) :
    JD.isNumberVal (d.valOf v s) = rootIsNumber d := by
  unfold rootIsNumber
  rw [hv]
  cases v <;> rfl

/-- the value built at the root reads back from a document that differs in its allocator state only -/
theorem sim_final_toVal {d0 d dF : Doc} {v : VData} {s : Forest} (P : Post d0 d .root v s) (hg : dF.g = d.g)
    (hc : dF.cells = d.cells) (hs : dF.strings = d.strings) (hr : dF.root = d.root) :
    dF.toVal dF.root = d.valOf v s := by
  have hroot : d.root = v := P.att.get
  have hn : dF.null = d.null := by simp only [Doc.null, hg]
  have hcell : ∀ j, dF.cell j = d.cell j := fun j => by simp only [Doc.cell, hc]
  have ag : Agree d dF s.ids := ⟨hn, fun j _ => hcell j⟩
  have hsc : ∀ w, dF.scalar w = d.scalar w := fun w =>
    scalar_congr (fun n _ => strBytes_of_strings hs n) (fun e _ => hcell e)
  have sa : SAgree d dF s.ids := fun j _ => hsc _
  have hfu : dF.fuel = d.fuel := by simp only [Doc.fuel, hg]
  rw [hr, hroot, toVal_eq (VOK_congr ag P.att.vok) (by rw [hfu]; exact P.ids_lt_fuel)]
  simp only [Doc.valOf]
  rw [vals_congr noOv s ag sa, mkVal_congr (hsc v)]

end JDD

namespace C01
open DL JDD
open JD (Byte Val Cfg Code St)

/-- `JDD.run` in terms of its parse: the code is adjusted for a number followed by garbage, the document left differs
    from the one the parse left in its allocator state only (builder released, pools shrunk) -/
theorem sim_run_proj (cfg : Cfg) (limit : Nat) (d : Doc) (input : List Byte) :
    ∃ dF : Doc,
      JDD.run cfg limit d input =
        ((match (JDD.parseVariant cfg (2 * input.length + 4) limit .root
              { s := { l := { unread := input } }, d := d.clearAll }).1 with
          | .ok =>
            if (JDD.parseVariant cfg (2 * input.length + 4) limit .root
                  { s := { l := { unread := input } }, d := d.clearAll }).2.s.l.cur != 0 &&
                !JD.isWs (JDD.parseVariant cfg (2 * input.length + 4) limit .root
                  { s := { l := { unread := input } }, d := d.clearAll }).2.s.l.cur &&
                rootIsNumber (JDD.parseVariant cfg (2 * input.length + 4) limit .root
                  { s := { l := { unread := input } }, d := d.clearAll }).2.d then .invalid else .ok
          | e => e), dF,
         (JDD.parseVariant cfg (2 * input.length + 4) limit .root
            { s := { l := { unread := input } }, d := d.clearAll }).2.s.l.pos) ∧
      dF.g = (JDD.parseVariant cfg (2 * input.length + 4) limit .root
            { s := { l := { unread := input } }, d := d.clearAll }).2.d.g ∧
      dF.cells = (JDD.parseVariant cfg (2 * input.length + 4) limit .root
            { s := { l := { unread := input } }, d := d.clearAll }).2.d.cells ∧
      dF.strings = (JDD.parseVariant cfg (2 * input.length + 4) limit .root
            { s := { l := { unread := input } }, d := d.clearAll }).2.d.strings ∧
      dF.root = (JDD.parseVariant cfg (2 * input.length + 4) limit .root
            { s := { l := { unread := input } }, d := d.clearAll }).2.d.root ∧
      dF.overflowed = (JDD.parseVariant cfg (2 * input.length + 4) limit .root
            { s := { l := { unread := input } }, d := d.clearAll }).2.d.overflowed ∧
      dF.nextNode = (JDD.parseVariant cfg (2 * input.length + 4) limit .root
            { s := { l := { unread := input } }, d := d.clearAll }).2.d.nextNode ∧
      (PL.Inv (JDD.parseVariant cfg (2 * input.length + 4) limit .root
            { s := { l := { unread := input } }, d := d.clearAll }).2.d.g (JDD.parseVariant cfg (2 * input.length + 4) limit .root
            { s := { l := { unread := input } }, d := d.clearAll }).2.d.pl →
        PL.Inv dF.g dF.pl ∧ ∀ y, PL.live dF.g dF.pl y ↔
          PL.live (JDD.parseVariant cfg (2 * input.length + 4) limit .root
            { s := { l := { unread := input } }, d := d.clearAll }).2.d.g (JDD.parseVariant cfg (2 * input.length + 4) limit .root
            { s := { l := { unread := input } }, d := d.clearAll }).2.d.pl y) := by
  simp only [JDD.run]
  generalize JDD.parseVariant cfg (2 * input.length + 4) limit .root
    { s := { l := { unread := input } }, d := d.clearAll } = rv
  obtain ⟨c, x⟩ := rv
  simp only
  cases x.b with
  | none =>
    refine ⟨_, rfl, rfl, rfl, rfl, rfl, rfl, rfl, fun hI => ?_⟩
    obtain ⟨a, b, _⟩ := PL.shrink_ok (g := x.d.g) hI
    exact ⟨a, b⟩
  | some cap =>
    refine ⟨_, rfl, rfl, rfl, rfl, rfl, rfl, rfl, fun hI => ?_⟩
    have hI' : PL.Inv x.d.g x.d.pl.dealloc := hI.congr rfl rfl rfl rfl
    obtain ⟨a, b, _⟩ := PL.shrink_ok (g := x.d.g) hI'
    exact ⟨a, fun y => (b y).trans (live_congr rfl rfl y)⟩

/-- the two outcomes of a run: no allocation failed and everything agrees, or one failed and the code is not `Ok` -/
theorem slot_level_core (cfg : Cfg) (limit : Nat) (d : Doc) (input : List Byte) (gok : PL.GeoOK d.g)
    (hp : PL.Inv d.g d.pl) (h31 : 31 ≤ cfg.maxStrLen) :
    ((JDD.run cfg limit d input).2.1.overflowed = false ∧
      (JDD.run cfg limit d input).1 = (JD.run cfg limit input).1 ∧
      (JDD.run cfg limit d input).2.2 = (JD.run cfg limit input).2.2 ∧
      (JDD.run cfg limit d input).2.1.toVal (JDD.run cfg limit d input).2.1.root = (JD.run cfg limit input).2.1 ∧
      WF (JDD.run cfg limit d input).2.1) ∨
    ((JDD.run cfg limit d input).2.1.overflowed = true ∧ (JDD.run cfg limit d input).1 ≠ .ok ∧
      ((JDD.run cfg limit d input).1 = .noMemory ∨
        ((JDD.run cfg limit d input).1 = (JD.run cfg limit input).1 ∧
         (JDD.run cfg limit d input).2.2 = (JD.run cfg limit input).2.2))) := by
  have pre0 := sim_clearAll_pre gok hp
  have hsim := (sim_all cfg h31 (2 * input.length + 4)).1 limit .root
    { s := { l := { unread := input } }, d := d.clearAll } pre0 rfl (sim_BOK_none cfg)
  obtain ⟨dF, hrun, hg, hc, hs, hr, ho, hnn, hpl⟩ := sim_run_proj cfg limit d input
  rw [hrun]
  simp only [JD.run]
  generalize JDD.parseVariant cfg (2 * input.length + 4) limit .root
    { s := { l := { unread := input } }, d := d.clearAll } = rv at *
  generalize JD.parseVariant cfg (2 * input.length + 4) limit { l := { unread := input } } = rv0 at *
  obtain ⟨c, x⟩ := rv
  obtain ⟨c0, v0, s0⟩ := rv0
  simp only at hsim hg hc hs hr ho hnn hpl ⊢
  rcases hsim with ⟨o2, e1, e2, _, v, s, P, hval⟩ | ⟨o2, e⟩
  · simp only at o2 e1 e2 P hval
    subst e1 e2
    have hnum : JD.isNumberVal v0 = rootIsNumber x.d := by
      rw [← hval]; exact sim_rootIsNumber x.d v s P.att.get
    have htv : dF.toVal dF.root = v0 := by rw [sim_final_toVal P hg hc hs hr, hval]
    have main : (match c with
          | Code.ok => if (x.s.l.cur != 0 && !JD.isWs x.s.l.cur && rootIsNumber x.d) = true then Code.invalid else Code.ok
          | e => e) =
          (match (c, v0, x.s) with
            | (Code.ok, v, s) =>
              if (s.l.cur != 0 && !JD.isWs s.l.cur && JD.isNumberVal v) = true then (Code.invalid, v, s.l.pos)
              else (Code.ok, v, s.l.pos)
            | (e, v, s) => (e, v, s.l.pos)).1 ∧
        x.s.l.pos =
          (match (c, v0, x.s) with
            | (Code.ok, v, s) =>
              if (s.l.cur != 0 && !JD.isWs s.l.cur && JD.isNumberVal v) = true then (Code.invalid, v, s.l.pos)
              else (Code.ok, v, s.l.pos)
            | (e, v, s) => (e, v, s.l.pos)).2.2 ∧
        v0 =
          (match (c, v0, x.s) with
            | (Code.ok, v, s) =>
              if (s.l.cur != 0 && !JD.isWs s.l.cur && JD.isNumberVal v) = true then (Code.invalid, v, s.l.pos)
              else (Code.ok, v, s.l.pos)
            | (e, v, s) => (e, v, s.l.pos)).2.1 := by
      cases c
      case ok =>
        simp only [hnum]
        split <;> exact ⟨rfl, rfl, rfl⟩
      all_goals exact ⟨rfl, rfl, rfl⟩
    have hwf : WF dF := by
      have w0 : WFG d.clearAll .nil := by
        refine ⟨rfl, List.nodup_nil, fun i hi => (by cases hi), pre0.pool, fun i hi => (by cases hi), ?_⟩
        intro l hl e he
        rcases mem_holders.1 hl with h | ⟨j, hj, _⟩
        · subst h; cases he
        · cases hj
      have s0 : StrOK d.clearAll (d.clearAll.strRefs .nil) :=
        ⟨List.nodup_nil, fun n hn => (by cases hn), fun n hn => (by cases hn), fun r hr => (by cases hr)⟩
      obtain ⟨w1, s1, _⟩ := post_assemble w0 s0 (l := .root) trivial rfl P
      obtain ⟨hI, hlv⟩ := hpl P.fr.pool
      have hcell : ∀ j, dF.cell j = x.d.cell j := fun j => by simp only [Doc.cell, hc]
      obtain ⟨w2, s2, _⟩ := wfg_frame (d' := dF) w1 hg hr (fun j _ => hcell j)
        (fun l0 h0 e he => ⟨hcell e, (hlv e).2 (w1.ext l0 h0 e he).2.1⟩) hI
        (fun j hj => (hlv j).2 (w1.live j hj)) (StrOK_congr hs hnn s1) (fun n _ => strBytes_of_strings hs n)
      exact ⟨_, w2, s2⟩
    exact Or.inl ⟨by rw [ho]; exact o2, main.1, main.2.1, by rw [htv]; exact main.2.2, hwf⟩
  · simp only at o2 e
    have hoF : dF.overflowed = true := by rw [ho]; exact o2
    refine Or.inr ⟨hoF, ?_, ?_⟩
    · rcases e with e | ⟨e1, e2, e3⟩
      · subst e; intro h; cases h
      · cases c
        case ok => exact absurd rfl e2
        all_goals (intro h; cases h)
    · rcases e with e | ⟨e1, e2, e3⟩
      · subst e
        exact Or.inl rfl
      · subst e1 e3
        right
        cases c
        case ok => exact absurd rfl e2
        all_goals exact ⟨rfl, rfl⟩

/-- **C01 at slot level: the slot-level deserializer refines the abstract one.** For every configuration (string limit at
    least the initial StringBuilder capacity), nesting limit, input and starting document: when no allocation failed,
    the code, the number of bytes consumed and the document left — complete or partial, for every code — are those of
    the abstract deserializer; in any case the code and the consumption are the abstract ones unless the answer is
    `NoMemory` with the overflow flag set. -/
theorem slot_level_refines (cfg : Cfg) (limit : Nat) (d : Doc) (input : List Byte) (gok : PL.GeoOK d.g)
    (hp : PL.Inv d.g d.pl) (h31 : 31 ≤ cfg.maxStrLen) :
    ((JDD.run cfg limit d input).2.1.overflowed = false →
      (JDD.run cfg limit d input).1 = (JD.run cfg limit input).1 ∧
      (JDD.run cfg limit d input).2.2 = (JD.run cfg limit input).2.2 ∧
      (JDD.run cfg limit d input).2.1.toVal (JDD.run cfg limit d input).2.1.root = (JD.run cfg limit input).2.1) ∧
    (((JDD.run cfg limit d input).1 = (JD.run cfg limit input).1 ∧
        (JDD.run cfg limit d input).2.2 = (JD.run cfg limit input).2.2) ∨
      ((JDD.run cfg limit d input).1 = .noMemory ∧ (JDD.run cfg limit d input).2.1.overflowed = true)) := by
  rcases slot_level_core cfg limit d input gok hp h31 with ⟨a, b, c, e, _⟩ | ⟨a, _, b⟩
  · exact ⟨fun _ => ⟨b, c, e⟩, Or.inl ⟨b, c⟩⟩
  · refine ⟨fun h => (by rw [a] at h; cases h), ?_⟩
    rcases b with b | b
    · exact Or.inr ⟨b, a⟩
    · exact Or.inl b

/-- `Ok` is never answered after an allocation failure: an `Ok` run has the overflow flag clear -/
theorem ok_no_overflow (cfg : Cfg) (limit : Nat) (d : Doc) (input : List Byte) (gok : PL.GeoOK d.g)
    (hp : PL.Inv d.g d.pl) (h31 : 31 ≤ cfg.maxStrLen) (hok : (JDD.run cfg limit d input).1 = .ok) :
    (JDD.run cfg limit d input).2.1.overflowed = false := by
  rcases slot_level_core cfg limit d input gok hp h31 with ⟨a, _⟩ | ⟨_, b, _⟩
  · exact a
  · exact absurd hok b

/-- without an allocation failure the document left is well-formed (chains acyclic and unshared, slots live in a consistent
    pool, extension slots referenced once, reference counts of the string table cover all references) — for every
    code. (Well-formedness for every failure schedule is the subject of AJ/Props/C03Doc.lean.) -/
theorem slot_level_wf (cfg : Cfg) (limit : Nat) (d : Doc) (input : List Byte) (gok : PL.GeoOK d.g)
    (hp : PL.Inv d.g d.pl) (h31 : 31 ≤ cfg.maxStrLen) (hno : (JDD.run cfg limit d input).2.1.overflowed = false) :
    WF (JDD.run cfg limit d input).2.1 := by
  rcases slot_level_core cfg limit d input gok hp h31 with ⟨_, _, _, _, w⟩ | ⟨a, _⟩
  · exact w
  · rw [a] at hno; cases hno

/-- an `Ok` run: the abstract run is `Ok` too, with the same consumption, and the document reads back as its value -/
theorem ok_refines (cfg : Cfg) (limit : Nat) (d : Doc) (input : List Byte) (gok : PL.GeoOK d.g)
    (hp : PL.Inv d.g d.pl) (h31 : 31 ≤ cfg.maxStrLen) (hok : (JDD.run cfg limit d input).1 = .ok) :
    (JD.run cfg limit input).1 = .ok ∧ (JDD.run cfg limit d input).2.2 = (JD.run cfg limit input).2.2 ∧
    (JDD.run cfg limit d input).2.1.toVal (JDD.run cfg limit d input).2.1.root = (JD.run cfg limit input).2.1 := by
  obtain ⟨a, b, c⟩ := (slot_level_refines cfg limit d input gok hp h31).1 (ok_no_overflow cfg limit d input gok hp h31 hok)
  exact ⟨by rw [← a]; exact hok, b, c⟩

/-- **C01, slot level.** Every RFC 8259 text within the limits, deserialized into ANY document with an allocator that
    does not fail, is answered `Ok` and leaves a document whose abstract value is the value the text denotes. -/
theorem valid_json_slot_level (cfg : Cfg) (hu : cfg.decodeUnicode = true) (h31 : 31 ≤ cfg.maxStrLen) {L : Nat}
    {t : List Byte} {v : Val} (h : Spec.Json.Doc cfg L t v) (d : Doc) (gok : PL.GeoOK d.g) (hp : PL.Inv d.g d.pl)
    (hno : (JDD.run cfg L d t).2.1.overflowed = false) :
    (JDD.run cfg L d t).1 = .ok ∧ (JDD.run cfg L d t).2.1.toVal (JDD.run cfg L d t).2.1.root = v := by
  obtain ⟨a, _, c⟩ := (slot_level_refines cfg L d t gok hp h31).1 hno
  obtain ⟨h1, h2⟩ := valid_json cfg hu h
  exact ⟨by rw [a, h1], by rw [c, h2]⟩

end C01

namespace C10
open DL JDD
open JD (Byte Val Cfg Code St)

/-- **C10, slot level.** With an allocator that does not fail, the slot-level deserializer answers `Ok` and leaves a
    document reading back as `v` exactly when the input is a text of the dialect denoting `v`. -/
theorem ok_iff_dialect_slot_level (cfg : Cfg) (h31 : 31 ≤ cfg.maxStrLen) (L : Nat) (t : List UInt8) (v : Val) (d : Doc)
    (gok : PL.GeoOK d.g) (hp : PL.Inv d.g d.pl) (hno : (JDD.run cfg L d t).2.1.overflowed = false) :
    ((JDD.run cfg L d t).1 = .ok ∧ (JDD.run cfg L d t).2.1.toVal (JDD.run cfg L d t).2.1.root = v) ↔
      Spec.Dialect.Doc cfg L t v := by
  obtain ⟨a, _, c⟩ := (C01.slot_level_refines cfg L d t gok hp h31).1 hno
  rw [a, c]
  exact ok_iff_dialect cfg L t v

/-- acceptance alone -/
theorem accepts_iff_slot_level (cfg : Cfg) (h31 : 31 ≤ cfg.maxStrLen) (L : Nat) (t : List UInt8) (d : Doc)
    (gok : PL.GeoOK d.g) (hp : PL.Inv d.g d.pl) (hno : (JDD.run cfg L d t).2.1.overflowed = false) :
    (JDD.run cfg L d t).1 = .ok ↔ ∃ v, Spec.Dialect.Doc cfg L t v := by
  rw [((C01.slot_level_refines cfg L d t gok hp h31).1 hno).1]
  exact accepts_iff cfg L t

/-- soundness needs no hypothesis on the allocator: an `Ok` answer means the input is a text of the dialect, denoting
    the value the document reads back as -/
theorem ok_sound_slot_level (cfg : Cfg) (h31 : 31 ≤ cfg.maxStrLen) (L : Nat) (t : List UInt8) (d : Doc)
    (gok : PL.GeoOK d.g) (hp : PL.Inv d.g d.pl) (hok : (JDD.run cfg L d t).1 = .ok) :
    Spec.Dialect.Doc cfg L t ((JDD.run cfg L d t).2.1.toVal (JDD.run cfg L d t).2.1.root) := by
  obtain ⟨a, _, c⟩ := C01.ok_refines cfg L d t gok hp h31 hok
  rw [c]
  exact (ok_iff_dialect cfg L t _).1 ⟨a, rfl⟩

end C10

namespace C15
open DL JDD
open JD (Byte Val Cfg Code St)

/-- **C15, slot level.** A document obtained with `Ok` has nesting depth at most the nesting limit (whatever the
    allocator does: `Ok` is not answered after a failure). -/
theorem ok_depth_slot_level (cfg : Cfg) (h31 : 31 ≤ cfg.maxStrLen) (L : Nat) (input : List Byte) (d : Doc)
    (gok : PL.GeoOK d.g) (hp : PL.Inv d.g d.pl) (hok : (JDD.run cfg L d input).1 = .ok) :
    C15.depth ((JDD.run cfg L d input).2.1.toVal (JDD.run cfg L d input).2.1.root) ≤ L := by
  obtain ⟨a, _, c⟩ := C01.ok_refines cfg L d input gok hp h31 hok
  rw [c]
  exact json_ok_depth cfg L input a

end C15

/-! ## Non-vacuity: geometry ⟨4, 1, 1⟩ (4 slots per pool, 1 inline pool, 1-byte slot ids), default configuration

   The hypotheses of `C01.slot_level_refines` are discharged for a fresh document; the overflow flag of the slot-level
   run is evaluated in the kernel where the run touches slot 0 only (`Std.HashMap` lookups with another key do not
   evaluate in the kernel); the abstract run is evaluated in the kernel; the theorem then gives the code, the
   consumption and the abstract value of the slot-level document. -/
namespace C01.ExDoc
open DL JDD
open JD (Byte Val Cfg Code St)

def g411 : PL.Geo := ⟨4, 1, 1, 16, 16⟩
def dz : Doc := { g := g411, alloc := 0, pl := PL.init g411 }
theorem gok : PL.GeoOK dz.g := ⟨by decide, by decide⟩
theorem hp : PL.Inv dz.g dz.pl := PL.init_inv gok []
theorem h31 : 31 ≤ ({} : Cfg).maxStrLen := by decide

/-- `[1]` -/
def arr1 : List Byte := [0x5B, 0x31, 0x5D]
/-- `"hi"` -/
def hi : List Byte := [0x22, 0x68, 0x69, 0x22]
/-- `{"a":1,"a":null}` : the duplicate key replaces the value of the first member -/
def dup : List Byte := [0x7B, 0x22, 0x61, 0x22, 0x3A, 0x31, 0x2C, 0x22, 0x61, 0x22, 0x3A, 0x6E, 0x75, 0x6C, 0x6C, 0x7D]
/-- `[1` : a syntax error leaves the partial document -/
def arrOpen : List Byte := [0x5B, 0x31]

set_option maxRecDepth 100000 in
theorem ov_arr1 : (JDD.run {} 10 dz arr1).2.1.overflowed = false := by decide +kernel
set_option maxRecDepth 100000 in
theorem ov_hi : (JDD.run {} 10 dz hi).2.1.overflowed = false := by decide +kernel
set_option maxRecDepth 100000 in
theorem ov_arrOpen : (JDD.run {} 10 dz arrOpen).2.1.overflowed = false := by decide +kernel

/-- `[1]` into a fresh document: `Ok`, 3 bytes consumed, and the slot-level document (an array whose chain holds one slot
    with the integer) reads back as `[1]` -/
example : (JDD.run {} 10 dz arr1).1 = .ok ∧ (JDD.run {} 10 dz arr1).2.2 = 3 ∧
    (JDD.run {} 10 dz arr1).2.1.toVal (JDD.run {} 10 dz arr1).2.1.root = .arr [.num (.uint 1)] := by
  obtain ⟨a, b, c⟩ := (slot_level_refines {} 10 dz arr1 gok hp h31).1 ov_arr1
  rw [a, b, c]
  exact ⟨by decide +kernel, by decide +kernel, valEq_sound _ _ (by decide +kernel)⟩

/-- `"hi"`: the string went through the StringBuilder model and the string table -/
example : (JDD.run {} 10 dz hi).1 = .ok ∧ (JDD.run {} 10 dz hi).2.2 = 4 ∧
    (JDD.run {} 10 dz hi).2.1.toVal (JDD.run {} 10 dz hi).2.1.root = .str [0x68, 0x69] := by
  obtain ⟨a, b, c⟩ := (slot_level_refines {} 10 dz hi gok hp h31).1 ov_hi
  rw [a, b, c]
  exact ⟨by decide +kernel, by decide +kernel, valEq_sound _ _ (by decide +kernel)⟩

/-- `[1` : `IncompleteInput`, and the PARTIAL document `[1]` is the same on both sides -/
example : (JDD.run {} 10 dz arrOpen).1 = .incomplete ∧
    (JDD.run {} 10 dz arrOpen).2.1.toVal (JDD.run {} 10 dz arrOpen).2.1.root = .arr [.num (.uint 1)] := by
  obtain ⟨a, _, c⟩ := (slot_level_refines {} 10 dz arrOpen gok hp h31).1 ov_arrOpen
  rw [a, c]
  exact ⟨by decide +kernel, valEq_sound _ _ (by decide +kernel)⟩

/-- `{"a":1,"a":null}` (two slots: the run does not evaluate in the kernel). The abstract run answers `Ok` with the single
    member `"a": null` (last occurrence wins, position of the first) after 16 bytes; hence the slot-level run either
    answers `Ok` after 16 bytes, leaving a document that reads back as `{"a":null}`, or it answers `NoMemory` with the
    overflow flag set (evaluating the model, `#eval`, shows the first: the allocator of `dz` never fails). -/
example :
    ((JDD.run {} 10 dz dup).1 = .ok ∧ (JDD.run {} 10 dz dup).2.2 = 16 ∧
      (JDD.run {} 10 dz dup).2.1.toVal (JDD.run {} 10 dz dup).2.1.root = .obj [([0x61], .null)]) ∨
    ((JDD.run {} 10 dz dup).1 = .noMemory ∧ (JDD.run {} 10 dz dup).2.1.overflowed = true) := by
  have h0 : (JD.run {} 10 dup).1 = .ok ∧ (JD.run {} 10 dup).2.2 = 16 ∧ (JD.run {} 10 dup).2.1 = .obj [([0x61], .null)] :=
    ⟨by decide +kernel, by decide +kernel, valEq_sound _ _ (by decide +kernel)⟩
  rcases slot_level_core {} 10 dz dup gok hp h31 with ⟨_, a, b, c, _⟩ | ⟨a, hne, b⟩
  · exact Or.inl ⟨by rw [a]; exact h0.1, by rw [b]; exact h0.2.1, by rw [c]; exact h0.2.2⟩
  · rcases b with b | ⟨b, _⟩
    · exact Or.inr ⟨b, a⟩
    · exact absurd (by rw [b]; exact h0.1) hne

/-- an allocator that fails at its first call: `NoMemory`, overflow flag set, as the unconditional clause allows -/
def dzf : Doc := { dz with pl := { dz.pl with failFrom := some 1 } }
set_option maxRecDepth 100000 in
example : (JDD.run {} 10 dzf hi).1 = .noMemory ∧ (JDD.run {} 10 dzf hi).2.1.overflowed = true ∧
    (JD.run {} 10 hi).1 = .ok := by decide +kernel

/-- after an allocation failure the consumption differs too (the slot-level run stops at the failed `addElement`, after
    `[1` minus the value: 2 bytes; the abstract run consumes the 3 bytes): the unconditional clause is a disjunction -/
example : (JDD.run {} 10 dzf arr1).1 = .noMemory ∧ (JDD.run {} 10 dzf arr1).2.2 = 2 ∧
    (JD.run {} 10 arr1).1 = .ok ∧ (JD.run {} 10 arr1).2.2 = 3 := by decide +kernel

/-- the hypothesis `31 ≤ cfg.maxStrLen` cannot be dropped: with a string limit of 3 bytes (below the initial capacity of
    the StringBuilder) the 4-byte string `"abcd"` is refused by the abstract deserializer (`NoMemory`) and accepted by the
    slot-level one without any allocation failure -/
def abcd : List Byte := [0x22, 0x61, 0x62, 0x63, 0x64, 0x22]
set_option maxRecDepth 100000 in
example : (JD.run { maxStrLen := 3 } 10 abcd).1 = .noMemory ∧ (JDD.run { maxStrLen := 3 } 10 dz abcd).1 = .ok ∧
    (JDD.run { maxStrLen := 3 } 10 dz abcd).2.1.overflowed = false := by decide +kernel

end C01.ExDoc

