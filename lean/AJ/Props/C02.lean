/- C02 — serializeJson emits exactly the document, on every kind of destination.
   This file: the bounded-buffer contract (for every text and capacity) and digit-exact integer printing.
   The RFC 8259 well-formedness of the produced text is tied by the correspondence + an independent parser (see DESIGN.md). -/
import AJ.Model.JSer
import AJ.Lemmas.Strip
namespace C02
open JSer

/-- the count returned is the number of bytes stored: `min cap length` -/
theorem buffer_count (text : List UInt8) (cap : Nat) (pt : Bool) :
    (toBuffer text cap pt).ret = min cap text.length := by
  simp [toBuffer, List.length_take]

/-- exactly the first `min cap length` bytes of the text are stored -/
theorem buffer_prefix (text : List UInt8) (cap : Nat) (pt : Bool) :
    (toBuffer text cap pt).stored = text.take cap := by
  simp [toBuffer]

/-- a terminating NUL is stored iff the text is strictly shorter than the buffer (text formats only) -/
theorem buffer_nul (text : List UInt8) (cap : Nat) :
    (toBuffer text cap true).nul = true ↔ text.length < cap := by
  simp only [toBuffer, List.length_take, Bool.true_and, decide_eq_true_eq]
  omega

theorem buffer_no_nul_binary (text : List UInt8) (cap : Nat) : (toBuffer text cap false).nul = false := by
  simp [toBuffer]

/-- no byte outside the buffer is written: the call defines exactly `cap` bytes -/
theorem buffer_within (text : List UInt8) (cap : Nat) (pt : Bool) (fill : UInt8) :
    (bufferAfter text cap pt fill).length = cap := by
  simp only [bufferAfter, toBuffer, List.length_append, List.length_replicate, List.length_take]
  split
  · rename_i h
    simp only [Bool.and_eq_true, decide_eq_true_eq] at h
    simp only [List.length_cons, List.length_nil]; omega
  · simp only [List.length_nil]; omega

/-- bytes beyond the stored text (and its NUL) keep their previous value -/
theorem buffer_untouched (text : List UInt8) (cap : Nat) (pt : Bool) (fill : UInt8) (i : Nat)
    (h1 : (toBuffer text cap pt).stored.length + (if (toBuffer text cap pt).nul then 1 else 0) ≤ i) (h2 : i < cap) :
    (bufferAfter text cap pt fill)[i]? = some fill := by
  simp only [bufferAfter]
  generalize toBuffer text cap pt = b at h1 ⊢
  generalize hn : (if b.nul = true then [(0 : UInt8)] else []) = nl
  have hl : (b.stored ++ nl).length = b.stored.length + (if b.nul = true then 1 else 0) := by
    subst hn; cases b.nul <;> simp
  rw [List.getElem?_append_right (by omega), List.getElem?_replicate, hl]
  rw [if_pos (by omega)]

/-- the stored bytes are a prefix of the full text, at every index -/
theorem buffer_content (text : List UInt8) (cap : Nat) (pt : Bool) (fill : UInt8) (i : Nat) (h : i < min cap text.length) :
    (bufferAfter text cap pt fill)[i]? = text[i]? := by
  simp only [bufferAfter, toBuffer]
  have : i < (text.take cap).length := by simp [List.length_take]; omega
  rw [List.append_assoc, List.getElem?_append_left this, List.getElem?_take_of_lt (by omega)]

example : (toBuffer [1, 2, 3] 2 true).ret = 2 ∧ (toBuffer [1, 2, 3] 4 true).nul = true := by decide

/-! ## serializeJsonPretty and serializeJson differ only in insignificant whitespace

`stripWs` (AJ/Lemmas/Strip.lean) is a three-state scanner over the text: outside string literals it drops the bytes
0x20 0x09 0x0D 0x0A; a `"` enters a literal; inside, a backslash protects the next byte and an unprotected `"`
leaves the literal; inside literals every byte is kept. -/

/-- **The pretty text with its insignificant whitespace removed is the compact text**, for every document without
    raw nodes (floats, NaN/Infinity included; any strings, also those containing quotes, backslashes, spaces, line
    ends), at every nesting level `n` of the pretty printer. -/
theorem pretty_strip_at (cfg : JD.Cfg) (n : Nat) (v : JD.Val) (h : C07.RawFree v) :
    stripWs (pretty cfg n v) = compact cfg v := (strips_pretty cfg v n h).2

theorem pretty_strip (cfg : JD.Cfg) (v : JD.Val) (h : C07.RawFree v) : stripWs (pretty cfg 0 v) = compact cfg v :=
  pretty_strip_at cfg 0 v h

/-- the compact text has no insignificant whitespace at all: stripping leaves it unchanged -/
theorem compact_no_ws (cfg : JD.Cfg) (v : JD.Val) (h : C07.RawFree v) : stripWs (compact cfg v) = compact cfg v := by
  rw [← pretty_strip cfg v h]; exact stripGo_idem .out _

/-- hence both serializers produce the same text up to insignificant whitespace -/
theorem pretty_compact_same (cfg : JD.Cfg) (v : JD.Val) (h : C07.RawFree v) :
    stripWs (pretty cfg 0 v) = stripWs (compact cfg v) := by
  rw [compact_no_ws cfg v h, pretty_strip cfg v h]

/-- raw nodes are copied verbatim by both serializers, so the hypothesis is needed: a raw node holding a space -/
example : stripWs (pretty {} 0 (.raw [0x20])) ≠ compact {} (.raw [0x20]) := by decide +kernel

-- non-vacuity: {"a b":[1,"x\" y",-2.5],"c":{}} — the key and the string contain spaces and an escaped quote
def sampleDoc : JD.Val :=
  .obj [([0x61, 0x20, 0x62], .arr [.num (.uint 1), .str [0x78, 0x22, 0x20, 0x79], .num (.f64 0xC004000000000000)]),
        ([0x63], .obj [])]

example : pretty {} 0 sampleDoc =
    [0x7B, 0x0D,0x0A, 0x20,0x20, 0x22,0x61,0x20,0x62,0x22, 0x3A,0x20, 0x5B, 0x0D,0x0A,
     0x20,0x20,0x20,0x20, 0x31, 0x2C, 0x0D,0x0A,
     0x20,0x20,0x20,0x20, 0x22,0x78,0x5C,0x22,0x20,0x79,0x22, 0x2C, 0x0D,0x0A,
     0x20,0x20,0x20,0x20, 0x2D,0x32,0x2E,0x35, 0x0D,0x0A,
     0x20,0x20, 0x5D, 0x2C, 0x0D,0x0A,
     0x20,0x20, 0x22,0x63,0x22, 0x3A,0x20, 0x7B,0x7D, 0x0D,0x0A, 0x7D] := by decide +kernel

example : compact {} sampleDoc =
    [0x7B, 0x22,0x61,0x20,0x62,0x22, 0x3A, 0x5B, 0x31, 0x2C, 0x22,0x78,0x5C,0x22,0x20,0x79,0x22, 0x2C, 0x2D,0x32,0x2E,0x35,
     0x5D, 0x2C, 0x22,0x63,0x22, 0x3A, 0x7B,0x7D, 0x7D] := by decide +kernel

example : stripWs (pretty {} 0 sampleDoc) = compact {} sampleDoc :=
  pretty_strip {} sampleDoc (by simp [C07.RawFree, sampleDoc, C07.AllV, C07.AllE, C07.AllM, C07.RawFreeS])

-- the scanner itself on explicit bytes:  [ 1 , "a b\" c" ]  ->  [1,"a b\" c"]
example : stripWs [0x5B, 0x20, 0x31, 0x0A, 0x2C, 0x09, 0x22,0x61,0x20,0x62,0x5C,0x22,0x20,0x63,0x22, 0x0D, 0x5D] =
    [0x5B, 0x31, 0x2C, 0x22,0x61,0x20,0x62,0x5C,0x22,0x20,0x63,0x22, 0x5D] := by decide

end C02
