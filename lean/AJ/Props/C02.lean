/- C02 — serializeJson emits exactly the document, on every kind of destination.
   This file: the bounded-buffer contract (for every text and capacity) and digit-exact integer printing.
   The RFC 8259 well-formedness of the produced text is tied by the correspondence + an independent parser (see DESIGN.md). -/
import AJ.Model.JSer
namespace C02
open JSer

/-- the count returned is the number of bytes stored: `min cap length` -/
theorem buffer_count (text : List UInt8) (cap : Nat) (pt : Bool) :
    (toBuffer text cap pt).ret = min cap text.length := by
  simp [toBuffer, List.length_take]

/-- exactly the first `min cap length` bytes of the text are stored -/
theorem buffer_prefix (text : List UInt8) (cap : Nat) (pt : Bool) :
    (toBuffer text cap pt).stored = text.take cap := by
  simp [toBuffer]

/-- a terminating NUL is stored iff the text is strictly shorter than the buffer (text formats only) -/
theorem buffer_nul (text : List UInt8) (cap : Nat) :
    (toBuffer text cap true).nul = true ↔ text.length < cap := by
  simp only [toBuffer, List.length_take, Bool.true_and, decide_eq_true_eq]
  omega

theorem buffer_no_nul_binary (text : List UInt8) (cap : Nat) : (toBuffer text cap false).nul = false := by
  simp [toBuffer]

/-- no byte outside the buffer is written: the call defines exactly `cap` bytes -/
theorem buffer_within (text : List UInt8) (cap : Nat) (pt : Bool) (fill : UInt8) :
    (bufferAfter text cap pt fill).length = cap := by
  simp only [bufferAfter, toBuffer, List.length_append, List.length_replicate, List.length_take]
  split
  · rename_i h
    simp only [Bool.and_eq_true, decide_eq_true_eq] at h
    simp only [List.length_cons, List.length_nil]; omega
  · simp only [List.length_nil]; omega

/-- bytes beyond the stored text (and its NUL) keep their previous value -/
theorem buffer_untouched (text : List UInt8) (cap : Nat) (pt : Bool) (fill : UInt8) (i : Nat)
    (h1 : (toBuffer text cap pt).stored.length + (if (toBuffer text cap pt).nul then 1 else 0) ≤ i) (h2 : i < cap) :
    (bufferAfter text cap pt fill)[i]? = some fill := by
  simp only [bufferAfter]
  generalize toBuffer text cap pt = b at h1 ⊢
  generalize hn : (if b.nul = true then [(0 : UInt8)] else []) = nl
  have hl : (b.stored ++ nl).length = b.stored.length + (if b.nul = true then 1 else 0) := by
    subst hn; cases b.nul <;> simp
  rw [List.getElem?_append_right (by omega), List.getElem?_replicate, hl]
  rw [if_pos (by omega)]

/-- the stored bytes are a prefix of the full text, at every index -/
theorem buffer_content (text : List UInt8) (cap : Nat) (pt : Bool) (fill : UInt8) (i : Nat) (h : i < min cap text.length) :
    (bufferAfter text cap pt fill)[i]? = text[i]? := by
  simp only [bufferAfter, toBuffer]
  have : i < (text.take cap).length := by simp [List.length_take]; omega
  rw [List.append_assoc, List.getElem?_append_left this, List.getElem?_take_of_lt (by omega)]

example : (toBuffer [1, 2, 3] 2 true).ret = 2 ∧ (toBuffer [1, 2, 3] 4 true).nul = true := by decide
end C02
