/- C02 — serializeJson emits exactly the document, on every kind of destination.
   This file: the bounded-buffer contract (for every text and capacity); the pretty text with its insignificant
   whitespace removed is the compact text (`pretty_strip`); and the RFC 8259 part: the compact and the pretty text are
   JSON texts of the relational grammar `Spec.Json.Value` and denote exactly the document (`string_in_grammar`,
   `int_in_grammar`, `float_in_grammar`, `compact_in_grammar`, `pretty_in_grammar`, `compact_parses_back`), with the
   known finding `control_characters_not_escaped`. The composition with the parser's completeness theorem
   `C01.valid_json` (also for the pretty text) is in AJ/Props/C02Parse.lean. -/
import AJ.Model.JSer
import AJ.Lemmas.Strip
import AJ.Lemmas.SerGrammar
import AJ.Props.C07
namespace C02
open JSer

/-- the count returned is the number of bytes stored: `min cap length` -/
theorem buffer_count (text : List UInt8) (cap : Nat) (pt : Bool) :
    (toBuffer text cap pt).ret = min cap text.length := by
  simp [toBuffer, List.length_take]

/-- exactly the first `min cap length` bytes of the text are stored -/
theorem buffer_prefix (text : List UInt8) (cap : Nat) (pt : Bool) :
    (toBuffer text cap pt).stored = text.take cap := by
  simp [toBuffer]

/-- a terminating NUL is stored iff the text is strictly shorter than the buffer (text formats only) -/
theorem buffer_nul (text : List UInt8) (cap : Nat) :
    (toBuffer text cap true).nul = true ↔ text.length < cap := by
  simp only [toBuffer, List.length_take, Bool.true_and, decide_eq_true_eq]
  omega

theorem buffer_no_nul_binary (text : List UInt8) (cap : Nat) : (toBuffer text cap false).nul = false := by
  simp [toBuffer]

/-- no byte outside the buffer is written: the call defines exactly `cap` bytes -/
theorem buffer_within (text : List UInt8) (cap : Nat) (pt : Bool) (fill : UInt8) :
    (bufferAfter text cap pt fill).length = cap := by
  simp only [bufferAfter, toBuffer, List.length_append, List.length_replicate, List.length_take]
  split
  · rename_i h
    simp only [Bool.and_eq_true, decide_eq_true_eq] at h
    simp only [List.length_cons, List.length_nil]; omega
  · simp only [List.length_nil]; omega

/-- bytes beyond the stored text (and its NUL) keep their previous value -/
theorem buffer_untouched (text : List UInt8) (cap : Nat) (pt : Bool) (fill : UInt8) (i : Nat)
    (h1 : (toBuffer text cap pt).stored.length + (if (toBuffer text cap pt).nul then 1 else 0) ≤ i) (h2 : i < cap) :
    (bufferAfter text cap pt fill)[i]? = some fill := by
  simp only [bufferAfter]
  generalize toBuffer text cap pt = b at h1 ⊢
  generalize hn : (if b.nul = true then [(0 : UInt8)] else []) = nl
  have hl : (b.stored ++ nl).length = b.stored.length + (if b.nul = true then 1 else 0) := by
    subst hn; cases b.nul <;> simp
  rw [List.getElem?_append_right (by omega), List.getElem?_replicate, hl]
  rw [if_pos (by omega)]

/-- the stored bytes are a prefix of the full text, at every index -/
theorem buffer_content (text : List UInt8) (cap : Nat) (pt : Bool) (fill : UInt8) (i : Nat) (h : i < min cap text.length) :
    (bufferAfter text cap pt fill)[i]? = text[i]? := by
  simp only [bufferAfter, toBuffer]
  have : i < (text.take cap).length := by simp [List.length_take]; omega
  rw [List.append_assoc, List.getElem?_append_left this, List.getElem?_take_of_lt (by omega)]

example : (toBuffer [1, 2, 3] 2 true).ret = 2 ∧ (toBuffer [1, 2, 3] 4 true).nul = true := by decide

/-! ## serializeJsonPretty and serializeJson differ only in insignificant whitespace

`stripWs` (AJ/Lemmas/Strip.lean) is a three-state scanner over the text: outside string literals it drops the bytes
0x20 0x09 0x0D 0x0A; a `"` enters a literal; inside, a backslash protects the next byte and an unprotected `"`
leaves the literal; inside literals every byte is kept. -/

/-- **The pretty text with its insignificant whitespace removed is the compact text**, for every document without
    raw nodes (floats, NaN/Infinity included; any strings, also those containing quotes, backslashes, spaces, line
    ends), at every nesting level `n` of the pretty printer. -/
theorem pretty_strip_at (cfg : JD.Cfg) (n : Nat) (v : JD.Val) (h : C07.RawFree v) :
    stripWs (pretty cfg n v) = compact cfg v := (strips_pretty cfg v n h).2

theorem pretty_strip (cfg : JD.Cfg) (v : JD.Val) (h : C07.RawFree v) : stripWs (pretty cfg 0 v) = compact cfg v :=
  pretty_strip_at cfg 0 v h

/-- the compact text has no insignificant whitespace at all: stripping leaves it unchanged -/
theorem compact_no_ws (cfg : JD.Cfg) (v : JD.Val) (h : C07.RawFree v) : stripWs (compact cfg v) = compact cfg v := by
  rw [← pretty_strip cfg v h]; exact stripGo_idem .out _

/-- hence both serializers produce the same text up to insignificant whitespace -/
theorem pretty_compact_same (cfg : JD.Cfg) (v : JD.Val) (h : C07.RawFree v) :
    stripWs (pretty cfg 0 v) = stripWs (compact cfg v) := by
  rw [compact_no_ws cfg v h, pretty_strip cfg v h]

/-- raw nodes are copied verbatim by both serializers, so the hypothesis is needed: a raw node holding a space -/
example : stripWs (pretty {} 0 (.raw [0x20])) ≠ compact {} (.raw [0x20]) := by decide +kernel

-- non-vacuity: {"a b":[1,"x\" y",-2.5],"c":{}} — the key and the string contain spaces and an escaped quote
def sampleDoc : JD.Val :=
  .obj [([0x61, 0x20, 0x62], .arr [.num (.uint 1), .str [0x78, 0x22, 0x20, 0x79], .num (.f64 0xC004000000000000)]),
        ([0x63], .obj [])]

example : pretty {} 0 sampleDoc =
    [0x7B, 0x0D,0x0A, 0x20,0x20, 0x22,0x61,0x20,0x62,0x22, 0x3A,0x20, 0x5B, 0x0D,0x0A,
     0x20,0x20,0x20,0x20, 0x31, 0x2C, 0x0D,0x0A,
     0x20,0x20,0x20,0x20, 0x22,0x78,0x5C,0x22,0x20,0x79,0x22, 0x2C, 0x0D,0x0A,
     0x20,0x20,0x20,0x20, 0x2D,0x32,0x2E,0x35, 0x0D,0x0A,
     0x20,0x20, 0x5D, 0x2C, 0x0D,0x0A,
     0x20,0x20, 0x22,0x63,0x22, 0x3A,0x20, 0x7B,0x7D, 0x0D,0x0A, 0x7D] := by decide +kernel

example : compact {} sampleDoc =
    [0x7B, 0x22,0x61,0x20,0x62,0x22, 0x3A, 0x5B, 0x31, 0x2C, 0x22,0x78,0x5C,0x22,0x20,0x79,0x22, 0x2C, 0x2D,0x32,0x2E,0x35,
     0x5D, 0x2C, 0x22,0x63,0x22, 0x3A, 0x7B,0x7D, 0x7D] := by decide +kernel

example : stripWs (pretty {} 0 sampleDoc) = compact {} sampleDoc :=
  pretty_strip {} sampleDoc (by simp [C07.RawFree, sampleDoc, C07.AllV, C07.AllE, C07.AllM, C07.RawFreeS])

-- the scanner itself on explicit bytes:  [ 1 , "a b\" c" ]  ->  [1,"a b\" c"]
example : stripWs [0x5B, 0x20, 0x31, 0x0A, 0x2C, 0x09, 0x22,0x61,0x20,0x62,0x5C,0x22,0x20,0x63,0x22, 0x0D, 0x5D] =
    [0x5B, 0x31, 0x2C, 0x22,0x61,0x20,0x62,0x5C,0x22,0x20,0x63,0x22, 0x5D] := by decide

/-! ## The text is a JSON text of RFC 8259 and denotes exactly the document

`Spec.Json.Value cfg L t d` (AJ/Spec/Json.lean) is the grammar of RFC 8259 as a relation between a text `t` and the
document `d` it denotes; `JD.Body 0x22 body s` is the grammar of string bodies (§7) with the bytes they denote;
`Spec.Json.NumLit` the grammar of numbers (§6) and `Spec.Json.numVal` their value. The proofs are in
AJ/Lemmas/SerGrammar.lean. -/
section Grammar
open JD Spec.Json
export SerG (PrintableByte Printable PrintableStrs PrintableS denote denoteE denoteM denoteNum denoteFloat)

/-! ### strings -/

/-- **Strings.** For every byte string without bare control characters (no byte in 0x01..0x1F other than BS, HT, LF, FF,
    CR), what `writeString` puts between the quotes is an RFC string body, and it denotes exactly the source bytes:
    every byte is preserved (`"` `\` BS HT LF FF CR as two-character escapes, NUL as `\u0000`, everything else —
    0x7F and the bytes ≥ 0x80 of UTF-8 sequences included — copied). -/
theorem string_in_grammar (s : List Byte) (h : Printable s) : Body 0x22 (s.flatMap writeChar) s :=
  SerG.body_escaped s h

/-- the whole literal, as a value -/
theorem string_literal_in_grammar (cfg : Cfg) (L : Nat) (s : List Byte) (h : Printable s) (hl : s.length ≤ cfg.maxStrLen) :
    Value cfg L (writeString s) (.str s) := SerG.value_str cfg L s h hl

/-- **Finding (known): control characters are not escaped.** A byte in 0x01..0x1F that has no two-character escape
    is copied as it is, and a text that starts with such a byte is not a string body of RFC 8259 (§7: "control
    characters (U+0000 through U+001F) MUST be escaped"). -/
theorem control_characters_not_escaped (c : Byte) (h1 : 0x01 ≤ c) (h2 : c ≤ 0x1F)
    (h3 : c ∉ [0x08, 0x09, 0x0A, 0x0C, 0x0D]) :
    writeChar c = [c] ∧ (¬ ∃ v, Body 0x22 (writeChar c) v) ∧ ∀ t v, ¬ Body 0x22 (writeChar c ++ t) v := by
  have hw := SerG.writeChar_control h1 h2 h3
  have hlt : c < 0x20 :=
    UInt8.lt_iff_toNat_lt.mpr (by have := UInt8.le_iff_toNat_le.mp h2; simpa using Nat.lt_succ_of_le this)
  refine ⟨hw, ?_, ?_⟩
  · rintro ⟨v, hv⟩; rw [hw] at hv; exact SerG.body_no_control hlt [] v hv
  · intro t v hv; rw [hw] at hv; exact SerG.body_no_control hlt t v hv

/-- the hypothesis of `string_in_grammar` is exact: the text written for `s` is a string body of the RFC **iff**
    `s` has no bare control character -/
theorem string_in_grammar_iff (s : List Byte) : (∃ v, Body 0x22 (s.flatMap writeChar) v) ↔ Printable s :=
  SerG.body_escaped_iff s

/-- the same finding on a document: if the text of a string node is a JSON value at all, the string has no bare
    control character (so `serializeJson` of `"\x01"` is not JSON) -/
theorem control_characters_not_json (cfg : Cfg) (L : Nat) (s : List Byte) (d : Val)
    (h : Value cfg L (compact cfg (.str s)) d) : Printable s := by
  simp only [compact] at h; exact SerG.value_writeString_inv h

/-! ### numbers -/

/-- **Integers.** Every unsigned 64-bit integer and every signed integer in [-2^63, 2^64) is written as an RFC
    number literal (optional minus, digits without leading zeros), whose value is the same integer, digit for digit
    (`numVal` reads a literal without sign as unsigned: a non-negative signed integer comes back unsigned). -/
theorem int_in_grammar (cfg : Cfg) :
    (∀ n : Nat, n < 2 ^ 64 →
      NumLit (JS.printNum cfg (.uint n)) ∧ numVal cfg (JS.printNum cfg (.uint n)) = .num (.uint n)) ∧
    (∀ i : Int, -(2 ^ 63 : Int) ≤ i → i < 2 ^ 64 →
      NumLit (JS.printNum cfg (.sint i)) ∧ numVal cfg (JS.printNum cfg (.sint i)) = C07.normInt (.num (.sint i))) := by
  refine ⟨fun n h => ⟨SerG.numLit_uint cfg n h, SerG.numVal_uint cfg n h⟩, fun i h1 h2 => ⟨SerG.numLit_sint cfg i (by omega) h2, ?_⟩⟩
  simp only [C07.normInt]
  split
  · rename_i h0; exact SerG.numVal_sint_nonneg cfg i h0 h2
  · rename_i h0; exact SerG.numVal_sint_neg cfg i h1 (by omega)

/-- the digits are those of the number: the literal is an optional `-` followed by THE decimal numeral of |i| -/
theorem int_digits_exact (cfg : Cfg) (i : Int) :
    ∃ ds, JS.printNum cfg (.sint i) = (if i < 0 then [0x2D] else []) ++ ds ∧ IntPart ds ∧ decVal ds = i.natAbs := by
  refine ⟨JS.digits i.natAbs, rfl, SerG.intPart_digits_nat _, ?_⟩
  rw [JD.decVal_eq]; exact (Digits.digits_spec _).2.1

/-- **Floats.** The text of every finite float is an RFC number literal: integral part without leading zeros, at least
    one digit after a decimal point, `e`, optional `-`, digits; at most 63 bytes. (`places` is 9 for `double`, 6 for
    `float`.) -/
theorem float_in_grammar (cfg : Cfg) (b places : Nat) (hp : places ≤ 46)
    (h1 : SF.isNaN SF.b64 b = false) (h2 : SF.isInf SF.b64 b = false) : NumLit (JS.writeFloat cfg b places) :=
  SerG.numLit_writeFloat cfg b places hp h1 h2

/-- in the default configuration NaN and the infinities are written as `null` -/
theorem nonfinite_is_null (cfg : Cfg) (b places : Nat) (hnan : cfg.nan = false) (hinf : cfg.inf = false)
    (h : (SF.isNaN SF.b64 b || SF.isInf SF.b64 b) = true) : JS.writeFloat cfg b places = [0x6E, 0x75, 0x6C, 0x6C] :=
  SerG.writeFloat_nonfinite cfg b places hnan hinf h

/-- every number node (64-bit integer, `float`, `double`), in the default configuration: its text is a value of the
    grammar that denotes `denoteNum`: the integer itself; for a finite float the value of its text as a number
    literal; `null` for a non-finite float -/
theorem number_in_grammar (cfg : Cfg) (hnan : cfg.nan = false) (hinf : cfg.inf = false) (L : Nat) (n : Num)
    (hi : C07.IntOkS (.num n)) : Value cfg L (JS.printNum cfg n) (denoteNum cfg n) :=
  SerG.value_num cfg L n (by cases n <;> first | exact hi | trivial)
    (by cases n <;> first | trivial | exact Or.inl ⟨hnan, hinf⟩)

/-! ### documents -/

/-- **MAIN (serializeJson).** In the default configuration (`NaN`/`Infinity` options off), for every document `v` without
    raw nodes, whose strings and keys have no bare control character and fit `cfg.maxStrLen`, whose integers are
    64-bit, and whose nesting is at most `L`: the compact text is a JSON value of RFC 8259 — derived with EMPTY
    whitespace everywhere — and it denotes `denote cfg v`: the same structure and order, strings and keys byte for
    byte, integers digit-exact, each finite float as the value of its own literal, non-finite floats as `null`,
    objects with `lastWins` applied to their members (the identity when keys are distinct: `denote_obj_nodup`). -/
theorem compact_in_grammar (cfg : Cfg) (L : Nat) (v : Val) (hnan : cfg.nan = false) (hinf : cfg.inf = false)
    (h1 : C07.RawFree v) (h2 : C07.IntsInRange v) (h3 : C07.StrsWithin cfg.maxStrLen v) (h4 : PrintableStrs v)
    (hd : depth v ≤ L) : Value cfg L (compact cfg v) (denote cfg v) :=
  SerG.compact_value cfg v L (SerG.ok_of cfg v h1 h2 h3 h4 (SerG.floatsOk_default cfg hnan hinf v h1)) hd

/-- **MAIN (serializeJsonPretty).** The same for the pretty text, at every nesting level `n` of the printer (the 8-bit
    wrap-around of the indentation counter is irrelevant: indentation and line ends are whitespace of the grammar). -/
theorem pretty_in_grammar_at (cfg : Cfg) (n L : Nat) (v : Val) (hnan : cfg.nan = false) (hinf : cfg.inf = false)
    (h1 : C07.RawFree v) (h2 : C07.IntsInRange v) (h3 : C07.StrsWithin cfg.maxStrLen v) (h4 : PrintableStrs v)
    (hd : depth v ≤ L) : Value cfg L (pretty cfg n v) (denote cfg v) :=
  SerG.pretty_value cfg v n L (SerG.ok_of cfg v h1 h2 h3 h4 (SerG.floatsOk_default cfg hnan hinf v h1)) hd

theorem pretty_in_grammar (cfg : Cfg) (L : Nat) (v : Val) (hnan : cfg.nan = false) (hinf : cfg.inf = false)
    (h1 : C07.RawFree v) (h2 : C07.IntsInRange v) (h3 : C07.StrsWithin cfg.maxStrLen v) (h4 : PrintableStrs v)
    (hd : depth v ≤ L) : Value cfg L (pretty cfg 0 v) (denote cfg v) :=
  pretty_in_grammar_at cfg 0 L v hnan hinf h1 h2 h3 h4 hd

theorem floatsOk_of_finite (cfg : Cfg) (v : Val) (h : C07.FiniteFloats v) : SerG.FloatsOk cfg v := by
  refine C07.AllV_mono (fun v hv => ?_) (fun _ _ => trivial) v h
  cases v with
  | num n =>
    cases n with
    | f32 b => exact Or.inr hv
    | f64 b => exact Or.inr hv
    | _ => trivial
  | _ => trivial

/-- **Any configuration, finite floats.** With the `NaN`/`Infinity` options on, the same holds for every document whose
    floats are all finite (a non-finite float would be written `NaN`/`Infinity`, which is not JSON). -/
theorem compact_in_grammar_finite (cfg : Cfg) (L : Nat) (v : Val) (hf : C07.FiniteFloats v)
    (h1 : C07.RawFree v) (h2 : C07.IntsInRange v) (h3 : C07.StrsWithin cfg.maxStrLen v) (h4 : PrintableStrs v)
    (hd : depth v ≤ L) : Value cfg L (compact cfg v) (denote cfg v) :=
  SerG.compact_value cfg v L (SerG.ok_of cfg v h1 h2 h3 h4 (floatsOk_of_finite cfg v hf)) hd

theorem pretty_in_grammar_finite (cfg : Cfg) (n L : Nat) (v : Val) (hf : C07.FiniteFloats v)
    (h1 : C07.RawFree v) (h2 : C07.IntsInRange v) (h3 : C07.StrsWithin cfg.maxStrLen v) (h4 : PrintableStrs v)
    (hd : depth v ≤ L) : Value cfg L (pretty cfg n v) (denote cfg v) :=
  SerG.pretty_value cfg v n L (SerG.ok_of cfg v h1 h2 h3 h4 (floatsOk_of_finite cfg v hf)) hd

/-- both texts are JSON texts (`Doc`: `ws value ws`) denoting the SAME document -/
theorem both_denote_same (cfg : Cfg) (L : Nat) (v : Val) (hnan : cfg.nan = false) (hinf : cfg.inf = false)
    (h1 : C07.RawFree v) (h2 : C07.IntsInRange v) (h3 : C07.StrsWithin cfg.maxStrLen v) (h4 : PrintableStrs v)
    (hd : depth v ≤ L) : Doc cfg L (compact cfg v) (denote cfg v) ∧ Doc cfg L (pretty cfg 0 v) (denote cfg v) :=
  ⟨⟨[], _, [], by simp, SerG.ws_nil, SerG.ws_nil, compact_in_grammar cfg L v hnan hinf h1 h2 h3 h4 hd⟩,
   ⟨[], _, [], by simp, SerG.ws_nil, SerG.ws_nil, pretty_in_grammar cfg L v hnan hinf h1 h2 h3 h4 hd⟩⟩

/-- what `denote` is: without floats and without repeated keys, the document itself (a non-negative signed integer
    tagged unsigned) -/
theorem denote_is_document (cfg : Cfg) (v : Val) (h1 : C07.NoFloat v) (h2 : C07.NoDupKeys v) :
    denote cfg v = C07.normInt v := SerG.denote_eq_normInt cfg v h1 h2

/-- with floats: an object with distinct keys denotes its members one for one, in order -/
theorem denote_obj_nodup (cfg : Cfg) (ms : List (List Byte × Val)) (h : (ms.map (·.1)).Nodup) :
    denote cfg (.obj ms) = .obj (denoteM cfg ms) := SerG.denote_obj_nodup cfg ms h

/-- `denote` is the `readBack` of the round-trip property C07 -/
theorem denote_is_readBack (cfg : Cfg) (v : Val) (hnan : cfg.nan = false) (hinf : cfg.inf = false)
    (h0 : C07.RawFree v) (h : C07.IntsInRange v) : denote cfg v = C07.readBack cfg v :=
  SerG.denote_eq_readBack cfg hnan hinf v h0 h

theorem denote_is_readBack_finite (cfg : Cfg) (v : Val) (hf : C07.FiniteFloats v) (h : C07.IntsInRange v) :
    denote cfg v = C07.readBack cfg v := SerG.denote_eq_readBack_of cfg v h (floatsOk_of_finite cfg v hf)

/-- **Corollary: the deserializer reads the compact text back as the denoted document**, consuming all of it.
    (Through the round-trip theorem `C07.json_roundtrip_all` and `denote_is_readBack`; the deserializer does not need
    the strings to be free of control characters.) -/
theorem compact_parses_back (cfg : Cfg) (L : Nat) (v : Val) (hu : cfg.decodeUnicode = true)
    (hnan : cfg.nan = false) (hinf : cfg.inf = false)
    (h1 : C07.RawFree v) (h2 : C07.IntsInRange v) (h3 : C07.StrsWithin cfg.maxStrLen v) (hd : depth v ≤ L) :
    JD.run cfg L (compact cfg v) = (.ok, denote cfg v, (compact cfg v).length) := by
  rw [denote_is_readBack cfg v hnan hinf h1 h2]
  exact C07.json_roundtrip_all cfg L v hu hnan hinf h1 h2 h3 (by rw [SerG.depth_eq]; exact hd)


/-- the same with any options, for documents whose floats are finite -/
theorem compact_parses_back_finite (cfg : Cfg) (L : Nat) (v : Val) (hu : cfg.decodeUnicode = true)
    (hf : C07.FiniteFloats v) (h1 : C07.RawFree v) (h2 : C07.IntsInRange v) (h3 : C07.StrsWithin cfg.maxStrLen v)
    (hd : depth v ≤ L) :
    JD.run cfg L (compact cfg v) = (.ok, denote cfg v, (compact cfg v).length) := by
  rw [denote_is_readBack_finite cfg v hf h2]
  exact C07.json_roundtrip_finite cfg L v hu hf h1 h2 h3 (by rw [SerG.depth_eq]; exact hd)

/-! ### non-vacuity (explicit bytes) -/

-- a"<LF><NUL>é<DEL>  is written  a\"\n\u0000é<DEL>  and that body denotes the seven source bytes
example : Body 0x22 [0x61, 0x5C,0x22, 0x5C,0x6E, 0x5C,0x75,0x30,0x30,0x30,0x30, 0xC3,0xA9, 0x7F]
    [0x61, 0x22, 0x0A, 0x00, 0xC3, 0xA9, 0x7F] :=
  string_in_grammar [0x61, 0x22, 0x0A, 0x00, 0xC3, 0xA9, 0x7F] (by decide)

-- the finding on 0x01, 0x0B (VT) and 0x1F
example : writeChar 0x01 = [0x01] ∧ (¬ ∃ v, Body 0x22 (writeChar 0x01) v) :=
  ⟨(control_characters_not_escaped 0x01 (by decide) (by decide) (by decide)).1,
   (control_characters_not_escaped 0x01 (by decide) (by decide) (by decide)).2.1⟩
example : ¬ ∃ v, Body 0x22 (writeChar 0x0B) v := (control_characters_not_escaped 0x0B (by decide) (by decide) (by decide)).2.1
example : ¬ ∃ v, Body 0x22 (writeChar 0x1F) v := (control_characters_not_escaped 0x1F (by decide) (by decide) (by decide)).2.1
-- `serializeJson` of the one-byte string "\x01" gives the three bytes `"`, 0x01, `"`, which is not a JSON value
example : compact {} (.str [0x01]) = [0x22, 0x01, 0x22] := by decide +kernel
example (L : Nat) (d : Val) : ¬ Value {} L [0x22, 0x01, 0x22] d := by
  intro h
  have := control_characters_not_json {} L [0x01] d (by rw [show compact {} (.str [0x01]) = [0x22, 0x01, 0x22] from by decide +kernel]; exact h)
  exact absurd this (by decide)

-- integers: 18446744073709551615 and -9223372036854775808
example : NumLit [0x31,0x38,0x34,0x34,0x36,0x37,0x34,0x34,0x30,0x37,0x33,0x37,0x30,0x39,0x35,0x35,0x31,0x36,0x31,0x35] ∧
    numVal {} [0x31,0x38,0x34,0x34,0x36,0x37,0x34,0x34,0x30,0x37,0x33,0x37,0x30,0x39,0x35,0x35,0x31,0x36,0x31,0x35] =
      .num (.uint 18446744073709551615) := by
  have h := (int_in_grammar {}).1 18446744073709551615 (by decide)
  rwa [show JS.printNum {} (.uint 18446744073709551615) =
    [0x31,0x38,0x34,0x34,0x36,0x37,0x34,0x34,0x30,0x37,0x33,0x37,0x30,0x39,0x35,0x35,0x31,0x36,0x31,0x35] from by decide +kernel] at h

example : NumLit [0x2D,0x39,0x32,0x32,0x33,0x33,0x37,0x32,0x30,0x33,0x36,0x38,0x35,0x34,0x37,0x37,0x35,0x38,0x30,0x38] ∧
    numVal {} [0x2D,0x39,0x32,0x32,0x33,0x33,0x37,0x32,0x30,0x33,0x36,0x38,0x35,0x34,0x37,0x37,0x35,0x38,0x30,0x38] =
      .num (.sint (-9223372036854775808)) := by
  have h := (int_in_grammar {}).2 (-9223372036854775808) (by decide) (by decide)
  rw [show JS.printNum {} (.sint (-9223372036854775808)) =
    [0x2D,0x39,0x32,0x32,0x33,0x33,0x37,0x32,0x30,0x33,0x36,0x38,0x35,0x34,0x37,0x37,0x35,0x38,0x30,0x38] from by decide +kernel] at h
  simpa [C07.normInt] using h

-- floats: -2.5 and 1e-7 (double), 3.4028235e38 is printed 3.402823466e38
example : NumLit [0x2D, 0x32, 0x2E, 0x35] := by
  have h := float_in_grammar {} 0xC004000000000000 9 (by decide) (by decide +kernel) (by decide +kernel)
  rwa [show JS.writeFloat {} 0xC004000000000000 9 = [0x2D, 0x32, 0x2E, 0x35] from by decide +kernel] at h
example : NumLit [0x31, 0x65, 0x2D, 0x37] := by
  have h := float_in_grammar {} 0x3E7AD7F29ABCAF48 9 (by decide) (by decide +kernel) (by decide +kernel)
  rwa [show JS.writeFloat {} 0x3E7AD7F29ABCAF48 9 = [0x31, 0x65, 0x2D, 0x37] from by decide +kernel] at h
-- +Infinity is written `null`
example : JS.writeFloat {} 0x7FF0000000000000 9 = [0x6E, 0x75, 0x6C, 0x6C] :=
  nonfinite_is_null {} 0x7FF0000000000000 9 rfl rfl (by decide +kernel)

theorem minus2p5 : denoteFloat {} 0xC004000000000000 9 = .num (.f32 0xC0200000) := by
  have hl := float_in_grammar {} 0xC004000000000000 9 (by decide) (by decide +kernel) (by decide +kernel)
  have hf : (SF.isNaN SF.b64 0xC004000000000000 || SF.isInf SF.b64 0xC004000000000000) = false := by decide +kernel
  unfold SerG.denoteFloat
  rw [hf, SerG.numVal_of_parse {} hl]
  rw [show JS.writeFloat {} 0xC004000000000000 9 = [0x2D, 0x32, 0x2E, 0x35] from by decide +kernel]
  have : parseNumber {} [0x2D, 0x32, 0x2E, 0x35] = .f32 0xC0200000 := by decide +kernel
  simp [C07.numValue, this]

/-- what `sampleDoc` = `{"a b":[1,"x\" y",-2.5],"c":{}}` denotes: itself, the double -2.5 read as the float -2.5 -/
def sampleDenoted : Val :=
  .obj [([0x61, 0x20, 0x62], .arr [.num (.uint 1), .str [0x78, 0x22, 0x20, 0x79], .num (.f32 0xC0200000)]),
        ([0x63], .obj [])]

theorem sample_denote : denote {} sampleDoc = sampleDenoted := by
  simp [sampleDoc, sampleDenoted, SerG.denote, SerG.denoteE, SerG.denoteM, SerG.denoteNum, minus2p5, lastWins, setMember]

theorem sample_hyps : C07.RawFree sampleDoc ∧ C07.IntsInRange sampleDoc ∧ C07.StrsWithin (({} : Cfg).maxStrLen) sampleDoc ∧
    PrintableStrs sampleDoc ∧ depth sampleDoc ≤ 2 := by
  refine ⟨?_, ?_, ?_, ?_, ?_⟩
  · simp [C07.RawFree, sampleDoc, C07.AllV, C07.AllE, C07.AllM, C07.RawFreeS]
  · simp [C07.IntsInRange, sampleDoc, C07.AllV, C07.AllE, C07.AllM, C07.IntOkS]
  · simp [C07.StrsWithin, sampleDoc, C07.AllV, C07.AllE, C07.AllM, C07.StrOkS]
  · simp only [SerG.PrintableStrs, sampleDoc, C07.AllV, C07.AllE, C07.AllM, SerG.PrintableS]
    exact ⟨by decide, ⟨trivial, by decide, trivial, trivial⟩, by decide, trivial, trivial⟩
  · simp [sampleDoc, depth, depthList, depthMembers]

def sampleCompact : List Byte :=
  [0x7B, 0x22,0x61,0x20,0x62,0x22, 0x3A, 0x5B, 0x31, 0x2C, 0x22,0x78,0x5C,0x22,0x20,0x79,0x22, 0x2C, 0x2D,0x32,0x2E,0x35,
   0x5D, 0x2C, 0x22,0x63,0x22, 0x3A, 0x7B,0x7D, 0x7D]
def samplePretty : List Byte :=
  [0x7B, 0x0D,0x0A, 0x20,0x20, 0x22,0x61,0x20,0x62,0x22, 0x3A,0x20, 0x5B, 0x0D,0x0A,
   0x20,0x20,0x20,0x20, 0x31, 0x2C, 0x0D,0x0A,
   0x20,0x20,0x20,0x20, 0x22,0x78,0x5C,0x22,0x20,0x79,0x22, 0x2C, 0x0D,0x0A,
   0x20,0x20,0x20,0x20, 0x2D,0x32,0x2E,0x35, 0x0D,0x0A,
   0x20,0x20, 0x5D, 0x2C, 0x0D,0x0A,
   0x20,0x20, 0x22,0x63,0x22, 0x3A,0x20, 0x7B,0x7D, 0x0D,0x0A, 0x7D]
theorem sample_compact : compact {} sampleDoc = sampleCompact := by decide +kernel
theorem sample_pretty : pretty {} 0 sampleDoc = samplePretty := by decide +kernel

-- the compact text `{"a b":[1,"x\" y",-2.5],"c":{}}` is a JSON value denoting the document
example : Value {} 2 sampleCompact sampleDenoted := by
  obtain ⟨h1, h2, h3, h4, h5⟩ := sample_hyps
  have h := compact_in_grammar {} 2 sampleDoc rfl rfl h1 h2 h3 h4 h5
  rw [sample_denote] at h
  rwa [sample_compact] at h

-- and so is the pretty text (CR LF line ends, two-space indentation)
example : Value {} 2 samplePretty sampleDenoted := by
  obtain ⟨h1, h2, h3, h4, h5⟩ := sample_hyps
  have h := pretty_in_grammar {} 2 sampleDoc rfl rfl h1 h2 h3 h4 h5
  rw [sample_denote] at h
  rwa [sample_pretty] at h

-- the deserializer reads the compact text back as that document (31 bytes)
example : JD.run {} 2 sampleCompact = (.ok, sampleDenoted, 31) := by
  obtain ⟨h1, h2, h3, _, h5⟩ := sample_hyps
  have h := compact_parses_back {} 2 sampleDoc rfl rfl rfl h1 h2 h3 h5
  rw [sample_denote, sample_compact] at h
  exact h
-- independent check by evaluation of the parser model on the explicit bytes
example : (JD.run {} 2 sampleCompact).1 = .ok ∧ (JD.run {} 2 sampleCompact).2.2 = 31 := by decide +kernel

-- a document with a repeated key and non-finite floats: [NaN,{"k":1,"k":-Infinity}] is written [null,{"k":1,"k":null}]
-- and denotes [null,{"k":null}]
example : denote {} (.arr [.num (.f64 0x7FF8000000000000), .obj [([0x6B], .num (.uint 1)), ([0x6B], .num (.f64 0xFFF0000000000000))]]) =
    .arr [.null, .obj [([0x6B], .null)]] := by
  have a : denoteFloat {} 0x7FF8000000000000 9 = .null := by
    unfold SerG.denoteFloat; rw [show (SF.isNaN SF.b64 0x7FF8000000000000 || SF.isInf SF.b64 0x7FF8000000000000) = true from by decide +kernel]; rfl
  have b : denoteFloat {} 0xFFF0000000000000 9 = .null := by
    unfold SerG.denoteFloat; rw [show (SF.isNaN SF.b64 0xFFF0000000000000 || SF.isInf SF.b64 0xFFF0000000000000) = true from by decide +kernel]; rfl
  simp [SerG.denote, SerG.denoteE, SerG.denoteM, SerG.denoteNum, a, b, lastWins, setMember]

end Grammar

end C02
