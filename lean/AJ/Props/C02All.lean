/- Aggregate: C02 buffer contract + output-in-grammar theorems (C02.lean, through C07) and the composition with C01.valid_json (C02Parse.lean). -/
import AJ.Props.C02
import AJ.Props.C02Parse
import AJ.Props.SlotCor
import AJ.Props.DocGen
