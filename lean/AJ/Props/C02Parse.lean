/- C02, deserializer side — what `serializeJson` / `serializeJsonPretty` write is read back by `deserializeJson` as the
   document the text denotes: the grammar theorems (AJ/Lemmas/SerGrammarCore.lean) composed with the completeness of
   the parser (`C01.valid_json`, `C01.run_value`).
   This is a separate file because AJ/Props/C02.lean imports the C07 family (AJ/Lemmas/JsonRoundTrip.lean) and this one
   the C01 family (AJ/Lemmas/JsonComplete.lean): both declare `JD.Delim`, `JD.Tok`, `JD.NumStart`, `JD.kw_null`,
   `JD.pv_num`, … so they cannot be imported into the same file. The hypotheses are therefore stated with the
   self-contained predicate `SerG.Ok` (AJ/Props/C02.lean derives it from the C07 predicates: `SerG.ok_of`). -/
import AJ.Props.C01
import AJ.Lemmas.SerGrammarCore
namespace C02.Parse
open JD JSer Spec.Json SerG

/-- both texts are JSON texts of RFC 8259 (`Doc`) that denote `denote cfg v` -/
theorem texts_are_docs (cfg : Cfg) (n L : Nat) (v : Val) (h : Ok cfg v) (hd : depth v ≤ L) :
    Doc cfg L (compact cfg v) (denote cfg v) ∧ Doc cfg L (pretty cfg n v) (denote cfg v) :=
  ⟨⟨[], compact cfg v, [], by simp, SerG.ws_nil, SerG.ws_nil, compact_value cfg v L h hd⟩,
   ⟨[], pretty cfg n v, [], by simp, SerG.ws_nil, SerG.ws_nil, pretty_value cfg v n L h hd⟩⟩

/-- **`deserializeJson(serializeJson(v))`** is `Ok` and yields the denoted document — obtained from the grammar theorem
    and the completeness of the parser (independently of the round-trip proof of C07) -/
theorem compact_parses_back (cfg : Cfg) (hu : cfg.decodeUnicode = true) (L : Nat) (v : Val) (h : Ok cfg v)
    (hd : depth v ≤ L) :
    (JD.run cfg L (compact cfg v)).1 = .ok ∧ (JD.run cfg L (compact cfg v)).2.1 = denote cfg v :=
  C01.valid_json cfg hu (texts_are_docs cfg 0 L v h hd).1

/-- **`deserializeJson(serializeJsonPretty(v))`** is `Ok` and yields the SAME document -/
theorem pretty_parses_back (cfg : Cfg) (hu : cfg.decodeUnicode = true) (n L : Nat) (v : Val) (h : Ok cfg v)
    (hd : depth v ≤ L) :
    (JD.run cfg L (pretty cfg n v)).1 = .ok ∧ (JD.run cfg L (pretty cfg n v)).2.1 = denote cfg v :=
  C01.valid_json cfg hu (texts_are_docs cfg n L v h hd).2

/-- hence the two texts are read back as the same document -/
theorem pretty_compact_read_same (cfg : Cfg) (hu : cfg.decodeUnicode = true) (L : Nat) (v : Val) (h : Ok cfg v)
    (hd : depth v ≤ L) :
    (JD.run cfg L (pretty cfg 0 v)).2.1 = (JD.run cfg L (compact cfg v)).2.1 := by
  rw [(pretty_parses_back cfg hu 0 L v h hd).2, (compact_parses_back cfg hu L v h hd).2]

/-- when the document is not a bare number, whatever follows the text: exactly the text is consumed -/
theorem pretty_consumed (cfg : Cfg) (hu : cfg.decodeUnicode = true) (n L : Nat) (v : Val) (h : Ok cfg v)
    (hd : depth v ≤ L) (hn : isNumberVal (denote cfg v) = false) (rest : List Byte) :
    JD.run cfg L (pretty cfg n v ++ rest) = (.ok, denote cfg v, (pretty cfg n v).length) := by
  have := C01.run_value cfg hu (pretty_value cfg v n L h hd) hn [] rest SerG.ws_nil
  simpa using this

/-! ### non-vacuity: `{"a b":[1,"x\" y",-2.5],"c":{}}` -/

def doc : Val :=
  .obj [([0x61, 0x20, 0x62], .arr [.num (.uint 1), .str [0x78, 0x22, 0x20, 0x79], .num (.f64 0xC004000000000000)]),
        ([0x63], .obj [])]

def docPretty : List Byte :=
  [0x7B, 0x0D,0x0A, 0x20,0x20, 0x22,0x61,0x20,0x62,0x22, 0x3A,0x20, 0x5B, 0x0D,0x0A,
   0x20,0x20,0x20,0x20, 0x31, 0x2C, 0x0D,0x0A,
   0x20,0x20,0x20,0x20, 0x22,0x78,0x5C,0x22,0x20,0x79,0x22, 0x2C, 0x0D,0x0A,
   0x20,0x20,0x20,0x20, 0x2D,0x32,0x2E,0x35, 0x0D,0x0A,
   0x20,0x20, 0x5D, 0x2C, 0x0D,0x0A,
   0x20,0x20, 0x22,0x63,0x22, 0x3A,0x20, 0x7B,0x7D, 0x0D,0x0A, 0x7D]

theorem doc_pretty : pretty {} 0 doc = docPretty := by decide +kernel

theorem doc_ok : Ok {} doc := by
  simp only [doc, Ok, OkE, OkM, IntOk, NumFloatOk, FloatOk]
  exact ⟨⟨by decide, by decide⟩, ⟨⟨by decide, trivial⟩, ⟨by decide, by decide⟩, ⟨trivial, by decide⟩, trivial⟩,
    ⟨by decide, by decide⟩, trivial, trivial⟩

theorem doc_denote : denote {} doc =
    .obj [([0x61, 0x20, 0x62], .arr [.num (.uint 1), .str [0x78, 0x22, 0x20, 0x79], .num (.f32 0xC0200000)]),
          ([0x63], .obj [])] := by
  have hl := numLit_writeFloat {} 0xC004000000000000 9 (by decide) (by decide +kernel) (by decide +kernel)
  have hf : (SF.isNaN SF.b64 0xC004000000000000 || SF.isInf SF.b64 0xC004000000000000) = false := by decide +kernel
  have hm : denoteFloat {} 0xC004000000000000 9 = .num (.f32 0xC0200000) := by
    unfold denoteFloat
    rw [hf, numVal_eq {} hl, show JS.writeFloat {} 0xC004000000000000 9 = [0x2D, 0x32, 0x2E, 0x35] from by decide +kernel,
      show parseNumber {} [0x2D, 0x32, 0x2E, 0x35] = .f32 0xC0200000 from by decide +kernel]
    rfl
  simp [doc, denote, denoteE, denoteM, denoteNum, hm, lastWins, setMember]

/-- the deserializer reads the 65 bytes of the pretty text back as the document (the `double` -2.5 as the `float` -2.5) -/
example (rest : List Byte) : JD.run {} 2 (docPretty ++ rest) =
    (.ok, .obj [([0x61, 0x20, 0x62], .arr [.num (.uint 1), .str [0x78, 0x22, 0x20, 0x79], .num (.f32 0xC0200000)]),
                ([0x63], .obj [])], 65) := by
  have h := pretty_consumed {} rfl 0 2 doc doc_ok (by simp [doc, depth, depthList, depthMembers])
    (by rw [doc_denote]; rfl) rest
  have hl : docPretty.length = 65 := by decide
  rw [doc_denote, doc_pretty, hl] at h
  exact h

end C02.Parse
