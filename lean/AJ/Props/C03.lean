/- C03 — Deserializers are memory-safe, input-bounded and source-independent on any bytes.
   Proved here, for every configuration, nesting limit and byte string: the JSON deserializer never takes more bytes from
   its reader than the input has (the invariant `consumed + unread = length` through all routines, AJ/Lemmas/JDPos.lean).
   Memory safety of the binary itself is observed (ASan/UBSan, exactly-sized blocks), not proved. -/
import AJ.Lemmas.JDPos
namespace C03
open JD

/-- bounded reader: never more bytes taken than supplied, for any bytes / limit / flags -/
theorem json_reads_within_input (cfg : Cfg) (limit : Nat) (input : List Byte) :
    (run cfg limit input).2.2 ≤ input.length := run_pos_le cfg limit input

example : (run {} 10 [0x5B, 0x31, 0x2C, 0x32, 0x5D]).2.2 = 5 := by decide +kernel
end C03
