/- C03 — Deserializers are memory-safe, input-bounded and source-independent on any bytes.
   Proved here, for every configuration, nesting limit, filter and byte string:
   * the JSON deserializer (unfiltered and filtered) and the MessagePack deserializer never take more bytes from their
     reader than the input has (invariant `consumed + unread = length` through all routines:
     AJ/Lemmas/JDPos.lean, JDPosF.lean, MDPos.lean);
   * `parseNumber` never indexes the powers-of-ten tables out of range (AJ/Lemmas/NumFault.lean);
   * the fuel `2 * length + 4` of the JSON and MessagePack models is never exhausted, so the models are total on the
     six documented codes (AJ/Lemmas/Fuel.lean, FuelF.lean, MDPos.lean).
   Memory safety of the binary itself is observed (ASan/UBSan, exactly-sized blocks), not proved. -/
import AJ.Lemmas.JDPos
import AJ.Lemmas.JDPosF
import AJ.Lemmas.MDPos
import AJ.Lemmas.NumFault
import AJ.Lemmas.Fuel
import AJ.Lemmas.FuelF
namespace C03
open JD

/-- bounded reader: never more bytes taken than supplied, for any bytes / limit / flags -/
theorem json_reads_within_input (cfg : Cfg) (limit : Nat) (input : List Byte) :
    (run cfg limit input).2.2 ≤ input.length := run_pos_le cfg limit input

example : (run {} 10 [0x5B, 0x31, 0x2C, 0x32, 0x5D]).2.2 = 5 := by decide +kernel

/-- the same with a filter: skipped values are still read inside the input -/
theorem json_filtered_reads_within_input (cfg : Cfg) (limit : Nat) (flt : Flt) (input : List Byte) :
    (frun cfg limit flt input).2.2 ≤ input.length := frun_pos_le cfg limit flt input

-- `{"a":[1,2],"b":3}` with the filter `{"b":true}`: the array under "a" is skipped, all 17 bytes are read
example : (frun {} 10 (.doc (some (.obj [([0x62], .bool true)])))
    [0x7B, 0x22, 0x61, 0x22, 0x3A, 0x5B, 0x31, 0x2C, 0x32, 0x5D, 0x2C, 0x22, 0x62, 0x22, 0x3A, 0x33, 0x7D]).2.2 = 17 := by
  decide +kernel
-- truncated input: everything is read, nothing more
example : (frun {} 10 (.doc none) [0x5B, 0x31, 0x2C]).2.2 = 3 := by decide +kernel

/-- MessagePack: never more bytes taken than supplied, for any bytes / limit / filter -/
theorem msgpack_reads_within_input (env : MD.Env) (limit : Nat) (flt : Flt) (input : List Byte) :
    (MD.run env limit flt input).2.2 ≤ input.length := MD.run_pos_le env limit flt input

-- `[1, "ab"]` = 92 01 A2 61 62
example : (MD.run {} 10 .all [0x92, 0x01, 0xA2, 0x61, 0x62]).2.2 = 5 := by decide +kernel
-- a str32 header announcing 4 GiB with 2 bytes behind it: the short read stops at the end of the input
example : (MD.run {} 10 .all [0xDB, 0xFF, 0xFF, 0xFF, 0xFF, 0x61, 0x62]).2.2 ≤ 7 := by decide +kernel

/-- `make_float` never indexes a powers-of-ten table out of range: the exponent that reaches the binary64 tables has
    `|e| ≤ 325 < 2^9` (9 entries), the one that reaches the binary32 tables `|e| ≤ 38 < 2^6` (6 entries) -/
theorem parseNumber_no_fault (cfg : Cfg) (s : List Byte) : parseNumber cfg s ≠ .fault := parseNumber_ne_fault cfg s

-- "1e-325": the most negative exponent that reaches the tables
example : parseNumber {} [0x31, 0x65, 0x2D, 0x33, 0x32, 0x35] ≠ .fault := parseNumber_no_fault _ _
example : parseNumber {} [0x31, 0x65, 0x2D, 0x33, 0x32, 0x35] = .f64 0 := by decide +kernel
-- "1e308" (308 = 0b100110100: the 9th binary64 entry is used) and "1e38" (binary32 tables)
example : parseNumber {} [0x31, 0x65, 0x33, 0x30, 0x38] = .f64 9214871658872686752 := by decide +kernel
example : parseNumber {} [0x31, 0x65, 0x33, 0x38] = .f32 2123789978 := by decide +kernel

/-- termination of the JSON model inside its fuel: `Code.fuel` ("FAULT") is never returned -/
theorem json_no_fault (cfg : Cfg) (limit : Nat) (input : List Byte) : (run cfg limit input).1 ≠ .fuel :=
  run_ne_fuel cfg limit input

-- deep nesting `[[[[` uses two units of fuel per byte; the result is IncompleteInput, not FAULT
example : (run {} 10 [0x5B, 0x5B, 0x5B, 0x5B]).1 = .incomplete := by decide +kernel
example : (run { comments := true } 10 [0x2F, 0x2A, 0x2A, 0x2F, 0x5B, 0x31, 0x2C, 0x32, 0x5D]).1 = .ok := by decide +kernel

/-- the same for the filtered JSON parser (skipping routines included) -/
theorem json_filtered_no_fault (cfg : Cfg) (limit : Nat) (flt : Flt) (input : List Byte) :
    (frun cfg limit flt input).1 ≠ .fuel := frun_ne_fuel cfg limit flt input

-- everything skipped: `[[[[1]]]]` under an unbound filter
example : (frun {} 10 (.doc none) [0x5B, 0x5B, 0x5B, 0x5B, 0x31, 0x5D, 0x5D, 0x5D, 0x5D]).1 = .ok := by decide +kernel

/-- termination of the MessagePack model inside its fuel -/
theorem msgpack_no_fault (env : MD.Env) (limit : Nat) (flt : Flt) (input : List Byte) :
    (MD.run env limit flt input).1 ≠ .fuel := MD.run_ne_fuel env limit flt input

-- array32 announcing 2^32-1 elements over an empty rest: IncompleteInput, the element loop does not spin
example : (MD.run {} 10 .all [0xDD, 0xFF, 0xFF, 0xFF, 0xFF]).1 = .incomplete := by decide +kernel
example : (MD.run {} 10 .all [0x91, 0x91, 0x91, 0xC0]).1 = .ok := by decide +kernel
/-- the six documented `DeserializationError` codes -/
def documented : List Code := [.ok, .empty, .incomplete, .invalid, .noMemory, .tooDeep]

theorem documented_of_ne_fuel {c : Code} (h : c ≠ .fuel) : c ∈ documented := by
  cases c <;> first | exact absurd rfl h | decide

/-- every run of the three deserializer models ends with one of the six documented codes -/
theorem json_code_documented (cfg : Cfg) (limit : Nat) (input : List Byte) :
    (run cfg limit input).1 ∈ documented := documented_of_ne_fuel (json_no_fault cfg limit input)
theorem json_filtered_code_documented (cfg : Cfg) (limit : Nat) (flt : Flt) (input : List Byte) :
    (frun cfg limit flt input).1 ∈ documented := documented_of_ne_fuel (json_filtered_no_fault cfg limit flt input)
theorem msgpack_code_documented (env : MD.Env) (limit : Nat) (flt : Flt) (input : List Byte) :
    (MD.run env limit flt input).1 ∈ documented := documented_of_ne_fuel (msgpack_no_fault env limit flt input)

example : (run {} 0 [0x5B, 0x5D]).1 = .tooDeep := by decide +kernel
example : (MD.run {} 10 .all []).1 = .empty := by decide +kernel
end C03
