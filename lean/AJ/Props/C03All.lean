/- Aggregate: C03 input-boundedness/termination/codes (C03.lean) and the document left by deserializeJson is well formed for any input and failure schedule (C03Doc.lean). -/
import AJ.Props.C03
import AJ.Props.C03Doc
import AJ.Props.C03MpDoc
import AJ.Props.C03FDoc
import AJ.Props.C03FMpDoc
import AJ.Props.SlotCor2
