/- C03 at the document level: "deserializeJson applied to ANY byte sequence leaves the document a well-formed value that can
   be traversed, serialized, cleared and reused" - for the slot-level deserializer `JDD.run` (AJ/Model/JDD.lean: the JSON
   deserializer writing into the slot-level document `DL.Doc` through the operations the C++ uses, StringBuilder included),
   for every configuration, nesting limit, input, starting document and EVERY allocator failure schedule (`failAt`,
   `failFrom` are arbitrary: nothing is assumed about them), and whatever the result code is.
   Invariant: `DL.WFG` / `DL.StrOK` (AJ/Lemmas/DocInv.lean); proof: AJ/Lemmas/JddInv.lean (induction on the fuel over the
   mutual block `parseVariant / parseElems / parseMembers`, invariant `JDD.Built` of AJ/Lemmas/JddOps.lean). -/
import AJ.Lemmas.JddInv
namespace C03
open DL JDD
open JD (Byte Code Cfg)

/-- WELL-FORMED AFTER ANY INPUT, ANY FAILURE SCHEDULE. `d` is any document whose pool list satisfies its invariant (every
    reachable document does: `WFG.pool`); `run` clears it first. The allocator oracle of `d.pl` is arbitrary. -/
theorem deserialized_document_wf (cfg : Cfg) (limit : Nat) (d : Doc) (input : List Byte) (gok : PL.GeoOK d.g)
    (hp : PL.Inv d.g d.pl) :
    ∃ F', WFG (JDD.run cfg limit d input).2.1 F' ∧
      StrOK (JDD.run cfg limit d input).2.1 ((JDD.run cfg limit d input).2.1.strRefs F') :=
  run_wf cfg limit input gok hp

/-- the same, with the failure oracle made explicit: for every list `fa` of failing call positions and every `k`
    ("every call from position `k` on fails") -/
theorem deserialized_document_wf_any_oracle (cfg : Cfg) (limit : Nat) (d : Doc) (input : List Byte) (gok : PL.GeoOK d.g)
    (hp : PL.Inv d.g d.pl) (fa : List Nat) (k : Option Nat) :
    WF (JDD.run cfg limit { d with pl := { d.pl with failAt := fa, failFrom := k } } input).2.1 :=
  run_wf cfg limit input (d := { d with pl := { d.pl with failAt := fa, failFrom := k } }) gok (hp.congr rfl rfl rfl rfl)

/-- the result can be TRAVERSED: the fuelled walk `toVal` never runs out of fuel, it computes the value of the layout -/
theorem deserialized_document_traversable (cfg : Cfg) (limit : Nat) (d : Doc) (input : List Byte) (gok : PL.GeoOK d.g)
    (hp : PL.Inv d.g d.pl) :
    ∃ F', WFG (JDD.run cfg limit d input).2.1 F' ∧
      abs (JDD.run cfg limit d input).2.1 = (JDD.run cfg limit d input).2.1.valOf (JDD.run cfg limit d input).2.1.root F' := by
  obtain ⟨F', w, _⟩ := run_wf cfg limit input gok hp
  exact ⟨F', w, abs_eq w⟩

/-- the result can be CLEARED: `clear()` on the root leaves a well-formed null document -/
theorem deserialized_document_clearable (cfg : Cfg) (limit : Nat) (d : Doc) (input : List Byte) (gok : PL.GeoOK d.g)
    (hp : PL.Inv d.g d.pl) :
    WF ((JDD.run cfg limit d input).2.1.clearV .root) ∧ abs ((JDD.run cfg limit d input).2.1.clearV .root) = .null := by
  obtain ⟨F', w, hs⟩ := run_wf cfg limit input gok hp
  obtain ⟨a, b, c, _⟩ := clearV_spec w hs (l := .root) trivial
  exact ⟨⟨_, a, b⟩, c⟩

/-- the result can be REUSED: deserializing again into it (any input, any configuration) gives a well-formed document -/
theorem deserialized_document_reusable (cfg cfg' : Cfg) (limit limit' : Nat) (d : Doc) (input input' : List Byte)
    (gok : PL.GeoOK d.g) (hp : PL.Inv d.g d.pl) :
    WF (JDD.run cfg' limit' (JDD.run cfg limit d input).2.1 input').2.1 := by
  obtain ⟨F', w, _⟩ := run_wf cfg limit input gok hp
  exact run_wf cfg' limit' input' (by rw [run_g cfg limit input gok hp]; exact gok) w.pool

/-! ## Non-vacuity: tiny geometry (4 slots per pool, 1 pool in the inline table, 1-byte slot ids) -/
namespace ExDoc
def g0 : PL.Geo := ⟨4, 1, 1, 16, 16⟩
theorem gok : PL.GeoOK g0 := ⟨by decide, by decide⟩
/-- a fresh document whose allocator fails at the call positions `fa` -/
def dk (fa : List Nat) : Doc := { g := g0, alloc := 0, pl := { PL.init g0 with failAt := fa } }
theorem dk_inv (fa : List Nat) : PL.Inv (dk fa).g (dk fa).pl := PL.init_inv gok fa

/-- `"hi"` -/
def hiQ : List Byte := [0x22, 0x68, 0x69, 0x22]
/-- `[1]` -/
def arr1 : List Byte := [0x5B, 0x31, 0x5D]
/-- `{"a":1}` -/
def obj1 : List Byte := [0x7B, 0x22, 0x61, 0x22, 0x3A, 0x31, 0x7D]
/-- `{"a":[1,"a"],"a":2}`: a repeated key (the first value is cleared and the member reused), a shared string -/
def obj2 : List Byte :=
  [0x7B, 0x22, 0x61, 0x22, 0x3A, 0x5B, 0x31, 0x2C, 0x22, 0x61, 0x22, 0x5D, 0x2C, 0x22, 0x61, 0x22, 0x3A, 0x32, 0x7D]

/-- `"hi"` without failure: Ok, one string node, the builder's buffer became the node (`A46`, then `R17` = 2 + 15) -/
example : (JDD.run {} 10 (dk []) hiQ).1 = .ok ∧ (JDD.run {} 10 (dk []) hiQ).2.1.pl.log = ["R17", "A46"] ∧
    WF (JDD.run {} 10 (dk []) hiQ).2.1 :=
  ⟨by decide +kernel, by decide +kernel, deserialized_document_wf {} 10 (dk []) hiQ gok (dk_inv [])⟩

/-- `"hi"` when the builder's first allocation fails: NoMemory, and still a well-formed document -/
example : (JDD.run {} 10 (dk [1]) hiQ).1 = .noMemory ∧ (JDD.run {} 10 (dk [1]) hiQ).2.1.pl.log = ["A46!"] ∧
    WF (JDD.run {} 10 (dk [1]) hiQ).2.1 :=
  ⟨by decide +kernel, by decide +kernel, deserialized_document_wf {} 10 (dk [1]) hiQ gok (dk_inv [1])⟩

/-- `[1]`, without failure and with the pool allocation failing -/
example : (JDD.run {} 10 (dk []) arr1).1 = .ok ∧ WF (JDD.run {} 10 (dk []) arr1).2.1 :=
  ⟨by decide +kernel, deserialized_document_wf {} 10 (dk []) arr1 gok (dk_inv [])⟩
example : (JDD.run {} 10 (dk [1]) arr1).1 = .noMemory ∧ WF (JDD.run {} 10 (dk [1]) arr1).2.1 :=
  ⟨by decide +kernel, deserialized_document_wf {} 10 (dk [1]) arr1 gok (dk_inv [1])⟩

/-- objects, a repeated key, garbage, truncated input, every single failure position: always well-formed (the kernel does
    not evaluate cell maps with a key above 0, the theorem does not need to) -/
example (k : Nat) : WF (JDD.run {} 10 (dk [k]) obj1).2.1 ∧ WF (JDD.run {} 10 (dk [k]) obj2).2.1 ∧
    WF (JDD.run {} 10 (dk [k]) (obj2.take 9)).2.1 ∧ WF (JDD.run {} 1 (dk [k]) obj2).2.1 :=
  ⟨deserialized_document_wf {} 10 (dk [k]) obj1 gok (dk_inv [k]), deserialized_document_wf {} 10 (dk [k]) obj2 gok (dk_inv [k]),
    deserialized_document_wf {} 10 (dk [k]) _ gok (dk_inv [k]), deserialized_document_wf {} 1 (dk [k]) obj2 gok (dk_inv [k])⟩

/-- the oracle "every call from the 2nd on fails" -/
example : WF (JDD.run {} 10 { dk [] with pl := { (dk []).pl with failAt := [], failFrom := some 2 } } obj2).2.1 :=
  deserialized_document_wf_any_oracle {} 10 (dk []) obj2 gok (dk_inv []) [] (some 2)

/-- cleared and reused -/
example : abs ((JDD.run {} 10 (dk [3]) obj2).2.1.clearV .root) = .null ∧
    WF (JDD.run {} 10 (JDD.run {} 10 (dk [3]) obj2).2.1 arr1).2.1 :=
  ⟨(deserialized_document_clearable {} 10 (dk [3]) obj2 gok (dk_inv [3])).2,
    deserialized_document_reusable {} {} 10 10 (dk [3]) obj2 arr1 gok (dk_inv [3])⟩
end ExDoc

end C03
