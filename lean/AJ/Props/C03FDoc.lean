/- C03 at the document level, FILTERED: "deserializeJson(doc, input, Filter(f), NestingLimit) applied to ANY byte sequence
   leaves the document a well-formed value that can be traversed, serialized, cleared and reused" - for the filtered
   slot-level deserializer `JDDF.run` (AJ/Model/JDDF.lean), for every configuration, nesting limit, FILTER (AllowAll, an
   unbound filter, a filter over any document), input, starting document and EVERY allocator failure schedule, whatever the
   result code is. Same invariant as AJ/Props/C03Doc.lean (`DL.WFG` / `DL.StrOK`); proof: AJ/Lemmas/JddfInv.lean (induction
   on the fuel over `JDDF.parseVariant / parseElems / parseMembers`, the skipped values touch the reader only, the key of
   every member of a visited object goes through the StringBuilder). -/
import AJ.Lemmas.JddfInv
import AJ.Props.C03Doc
namespace C03
open DL JDD
open JD (Byte Code Cfg Flt)

/-- WELL-FORMED AFTER ANY INPUT, ANY FILTER, ANY FAILURE SCHEDULE. -/
theorem filtered_deserialized_document_wf (cfg : Cfg) (limit : Nat) (flt : Flt) (d : Doc) (input : List Byte)
    (gok : PL.GeoOK d.g) (hp : PL.Inv d.g d.pl) :
    ∃ F', WFG (JDDF.run cfg limit flt d input).2.1 F' ∧
      StrOK (JDDF.run cfg limit flt d input).2.1 ((JDDF.run cfg limit flt d input).2.1.strRefs F') :=
  JDDF.run_wf cfg limit flt input gok hp

/-- the document `d` with another allocator oracle: the calls at the positions `fa` fail, and every call from position `k` on -/
def withOracle (d : Doc) (fa : List Nat) (k : Option Nat) : Doc :=
  { d with pl := { d.pl with failAt := fa, failFrom := k } }

/-- the same, with the failure oracle made explicit: for every list `fa` of failing call positions and every `k` -/
theorem filtered_deserialized_document_wf_any_oracle (cfg : Cfg) (limit : Nat) (flt : Flt) (d : Doc) (input : List Byte)
    (gok : PL.GeoOK d.g) (hp : PL.Inv d.g d.pl) (fa : List Nat) (k : Option Nat) :
    WF (JDDF.run cfg limit flt (withOracle d fa k) input).2.1 :=
  JDDF.run_wf cfg limit flt input (d := withOracle d fa k) gok (hp.congr rfl rfl rfl rfl)

/-- the result can be TRAVERSED: the fuelled walk `toVal` never runs out of fuel, it computes the value of the layout -/
theorem filtered_deserialized_document_traversable (cfg : Cfg) (limit : Nat) (flt : Flt) (d : Doc) (input : List Byte)
    (gok : PL.GeoOK d.g) (hp : PL.Inv d.g d.pl) :
    ∃ F', WFG (JDDF.run cfg limit flt d input).2.1 F' ∧
      abs (JDDF.run cfg limit flt d input).2.1 =
        (JDDF.run cfg limit flt d input).2.1.valOf (JDDF.run cfg limit flt d input).2.1.root F' := by
  obtain ⟨F', w, _⟩ := JDDF.run_wf cfg limit flt input gok hp
  exact ⟨F', w, abs_eq w⟩

/-- the result can be CLEARED: `clear()` on the root leaves a well-formed null document -/
theorem filtered_deserialized_document_clearable (cfg : Cfg) (limit : Nat) (flt : Flt) (d : Doc) (input : List Byte)
    (gok : PL.GeoOK d.g) (hp : PL.Inv d.g d.pl) :
    WF ((JDDF.run cfg limit flt d input).2.1.clearV .root) ∧
    abs ((JDDF.run cfg limit flt d input).2.1.clearV .root) = .null := by
  obtain ⟨F', w, hs⟩ := JDDF.run_wf cfg limit flt input gok hp
  obtain ⟨a, b, c, _⟩ := clearV_spec w hs (l := .root) trivial
  exact ⟨⟨_, a, b⟩, c⟩

/-- the result can be REUSED: deserializing again into it (any input, any configuration, any filter, filtered or not) gives a
    well-formed document -/
theorem filtered_deserialized_document_reusable (cfg cfg' : Cfg) (limit limit' : Nat) (flt flt' : Flt) (d : Doc)
    (input input' : List Byte) (gok : PL.GeoOK d.g) (hp : PL.Inv d.g d.pl) :
    WF (JDDF.run cfg' limit' flt' (JDDF.run cfg limit flt d input).2.1 input').2.1 ∧
    WF (JDD.run cfg' limit' (JDDF.run cfg limit flt d input).2.1 input').2.1 := by
  obtain ⟨F', w, _⟩ := JDDF.run_wf cfg limit flt input gok hp
  have g' : PL.GeoOK (JDDF.run cfg limit flt d input).2.1.g := by rw [JDDF.run_g cfg limit flt input gok hp]; exact gok
  exact ⟨JDDF.run_wf cfg' limit' flt' input' g' w.pool, JDD.run_wf cfg' limit' input' g' w.pool⟩

/-! ## Non-vacuity: the tiny geometry and the documents `dk` of AJ/Props/C03Doc.lean -/
namespace ExFDoc
open ExDoc

/-- the filter `{"a":true}` -/
def fA : Flt := .doc (some (.obj [([0x61], .bool true)]))
/-- the filter `{"b":true}` (no member of `obj1`, `obj2` passes) -/
def fB : Flt := .doc (some (.obj [([0x62], .bool true)]))
/-- the filter `[true]` -/
def fArr : Flt := .doc (some (.arr [.bool true]))
/-- `{"b":[1,"x"],"a":"x"}` -/
def obj3 : List Byte :=
  [0x7B, 0x22, 0x62, 0x22, 0x3A, 0x5B, 0x31, 0x2C, 0x22, 0x78, 0x22, 0x5D, 0x2C, 0x22, 0x61, 0x22, 0x3A, 0x22, 0x78, 0x22, 0x7D]

/-- the filter `[{"a":true}]` -/
def fArrA : Flt := .doc (some (.arr [.obj [([0x61], .bool true)]]))
/-- `[{"b":[1,"x"],"c":2}]` -/
def arrObj : List Byte :=
  [0x5B, 0x7B, 0x22, 0x62, 0x22, 0x3A, 0x5B, 0x31, 0x2C, 0x22, 0x78, 0x22, 0x5D, 0x2C, 0x22, 0x63, 0x22, 0x3A, 0x32, 0x7D, 0x5D]

/-- `[{"b":[1,"x"],"c":2}]` under `[{"a":true}]`: Ok; one slot (the object, in a pool: `A64`); the skipped keys `b` and `c` went
    through the builder (`A46` once, the buffer is kept between keys), the skipped values did not touch anything; no string
    node; the buffer is released when the deserializer is destroyed (`D`), the pool is shrunk to one slot (`R16`).
    (The kernel does not evaluate cell maps with a key above 0: examples evaluated here keep at most one slot.) -/
example : (JDDF.run {} 10 fArrA (dk []) arrObj).1 = .ok ∧
    (JDDF.run {} 10 fArrA (dk []) arrObj).2.1.pl.log = ["R16", "D", "A46", "A64"] ∧
    (JDDF.run {} 10 fArrA (dk []) arrObj).2.1.strings = [] ∧
    WF (JDDF.run {} 10 fArrA (dk []) arrObj).2.1 :=
  ⟨by decide +kernel, by decide +kernel, by decide +kernel,
    filtered_deserialized_document_wf {} 10 fArrA (dk []) arrObj gok (dk_inv [])⟩

/-- the same when the builder's buffer cannot be allocated for the (skipped) key: NoMemory; still well-formed -/
example : (JDDF.run {} 10 fArrA (dk [2]) arrObj).1 = .noMemory ∧
    (JDDF.run {} 10 fArrA (dk [2]) arrObj).2.1.pl.log = ["R16", "A46!", "A64"] ∧
    WF (JDDF.run {} 10 fArrA (dk [2]) arrObj).2.1 :=
  ⟨by decide +kernel, by decide +kernel, filtered_deserialized_document_wf {} 10 fArrA (dk [2]) arrObj gok (dk_inv [2])⟩

/-- under `{"b":true}` nothing of `obj1` is kept, but the key still allocates the builder's buffer, released at the end -/
example : (JDDF.run {} 10 fB (dk []) obj1).1 = .ok ∧ (JDDF.run {} 10 fB (dk []) obj1).2.1.pl.log = ["D", "A46"] ∧
    (JDDF.run {} 10 fB (dk []) obj1).2.1.strings = [] ∧ WF (JDDF.run {} 10 fB (dk []) obj1).2.1 :=
  ⟨by decide +kernel, by decide +kernel, by decide +kernel,
    filtered_deserialized_document_wf {} 10 fB (dk []) obj1 gok (dk_inv [])⟩

/-- … and when that allocation fails the run reports NoMemory although no member is kept; still well-formed -/
example : (JDDF.run {} 10 fB (dk [1]) obj1).1 = .noMemory ∧ WF (JDDF.run {} 10 fB (dk [1]) obj1).2.1 :=
  ⟨by decide +kernel, filtered_deserialized_document_wf {} 10 fB (dk [1]) obj1 gok (dk_inv [1])⟩

/-- an unbound filter skips the whole input: Ok, nothing allocated -/
example : (JDDF.run {} 10 (.doc none) (dk []) obj3).1 = .ok ∧ (JDDF.run {} 10 (.doc none) (dk []) obj3).2.1.pl.log = [] ∧
    WF (JDDF.run {} 10 (.doc none) (dk []) obj3).2.1 :=
  ⟨by decide +kernel, by decide +kernel, filtered_deserialized_document_wf {} 10 (.doc none) (dk []) obj3 gok (dk_inv [])⟩

/-- every single failure position, several filters, truncated input, nesting limit 1: always well-formed -/
example (k : Nat) : WF (JDDF.run {} 10 fA (dk [k]) obj3).2.1 ∧ WF (JDDF.run {} 10 fB (dk [k]) obj2).2.1 ∧
    WF (JDDF.run {} 10 fArr (dk [k]) arr1).2.1 ∧ WF (JDDF.run {} 10 fA (dk [k]) (obj3.take 9)).2.1 ∧
    WF (JDDF.run {} 1 .all (dk [k]) obj2).2.1 :=
  ⟨filtered_deserialized_document_wf {} 10 fA (dk [k]) obj3 gok (dk_inv [k]),
    filtered_deserialized_document_wf {} 10 fB (dk [k]) obj2 gok (dk_inv [k]),
    filtered_deserialized_document_wf {} 10 fArr (dk [k]) arr1 gok (dk_inv [k]),
    filtered_deserialized_document_wf {} 10 fA (dk [k]) _ gok (dk_inv [k]),
    filtered_deserialized_document_wf {} 1 .all (dk [k]) obj2 gok (dk_inv [k])⟩

/-- the oracle "every call from the 2nd on fails" -/
example : WF (JDDF.run {} 10 fA (withOracle (dk []) [] (some 2)) obj3).2.1 :=
  filtered_deserialized_document_wf_any_oracle {} 10 fA (dk []) obj3 gok (dk_inv []) [] (some 2)

/-- traversed, cleared and reused -/
example : abs ((JDDF.run {} 10 fA (dk [3]) obj3).2.1.clearV .root) = .null ∧
    WF (JDDF.run {} 10 fArr (JDDF.run {} 10 fA (dk [3]) obj3).2.1 arr1).2.1 :=
  ⟨(filtered_deserialized_document_clearable {} 10 fA (dk [3]) obj3 gok (dk_inv [3])).2,
    (filtered_deserialized_document_reusable {} {} 10 10 fA fArr (dk [3]) obj3 arr1 gok (dk_inv [3])).1⟩
example : ∃ F', WFG (JDDF.run {} 10 fA (dk []) obj3).2.1 F' ∧ abs (JDDF.run {} 10 fA (dk []) obj3).2.1 =
    (JDDF.run {} 10 fA (dk []) obj3).2.1.valOf (JDDF.run {} 10 fA (dk []) obj3).2.1.root F' :=
  filtered_deserialized_document_traversable {} 10 fA (dk []) obj3 gok (dk_inv [])
end ExFDoc

end C03
