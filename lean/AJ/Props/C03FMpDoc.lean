/- C03 at the document level, FILTERED MessagePack: "deserializeMsgPack(doc, input, Filter(f), NestingLimit) applied to ANY
   byte sequence leaves the document a well-formed value that can be traversed, cleared and reused" - for the slot-level
   filtered deserializer `MDDF.run` (AJ/Model/MDDF.lean: the destination of a value is a pointer that is null when the
   filter drops it; every key, kept or not, goes through the StringBuffer), for every environment, nesting limit, FILTER,
   input, starting document and EVERY allocator failure schedule (`failAt`, `failFrom` are arbitrary), whatever the result
   code is.
   Invariant: `DL.WFG` / `DL.StrOK` (AJ/Lemmas/DocInv.lean); proof: AJ/Lemmas/MddfInv.lean (induction on the fuel over the
   mutual block `parseVariant / readArray / readObject` with an optional destination; with a destination the invariant
   `JDD.Built` of AJ/Lemmas/JddOps.lean, without one only allocator traffic `JDD.PlEq`).
   The unfiltered twin is AJ/Props/C03MpDoc.lean. -/
import AJ.Lemmas.MddfInv
import AJ.Props.C03MpDoc
namespace C03
open DL
open JD (Byte Code Flt)

/-- WELL-FORMED AFTER ANY INPUT, ANY FILTER, ANY FAILURE SCHEDULE. `d` is any document whose pool list satisfies its
    invariant (every reachable document does: `WFG.pool`); `run` clears it first. The allocator oracle of `d.pl` is
    arbitrary. -/
theorem filtered_mp_deserialized_document_wf (env : MD.Env) (limit : Nat) (flt : Flt) (d : Doc) (input : List Byte)
    (gok : PL.GeoOK d.g) (hp : PL.Inv d.g d.pl) :
    ∃ F', WFG (MDDF.run env limit flt d input).2.1 F' ∧
      StrOK (MDDF.run env limit flt d input).2.1 ((MDDF.run env limit flt d input).2.1.strRefs F') :=
  MDDF.run_wf env limit flt input gok hp

/-- the same, with the failure oracle made explicit: for every list `fa` of failing call positions and every `k`
    ("every call from position `k` on fails") -/
theorem filtered_mp_deserialized_document_wf_any_oracle (env : MD.Env) (limit : Nat) (flt : Flt) (d : Doc)
    (input : List Byte) (gok : PL.GeoOK d.g) (hp : PL.Inv d.g d.pl) (fa : List Nat) (k : Option Nat) :
    WF (MDDF.run env limit flt { d with pl := { d.pl with failAt := fa, failFrom := k } } input).2.1 :=
  MDDF.run_wf env limit flt input (d := { d with pl := { d.pl with failAt := fa, failFrom := k } }) gok
    (hp.congr rfl rfl rfl rfl)

/-- the result can be TRAVERSED: the fuelled walk `toVal` never runs out of fuel, it computes the value of the layout -/
theorem filtered_mp_deserialized_document_traversable (env : MD.Env) (limit : Nat) (flt : Flt) (d : Doc)
    (input : List Byte) (gok : PL.GeoOK d.g) (hp : PL.Inv d.g d.pl) :
    ∃ F', WFG (MDDF.run env limit flt d input).2.1 F' ∧
      abs (MDDF.run env limit flt d input).2.1 =
        (MDDF.run env limit flt d input).2.1.valOf (MDDF.run env limit flt d input).2.1.root F' := by
  obtain ⟨F', w, _⟩ := MDDF.run_wf env limit flt input gok hp
  exact ⟨F', w, abs_eq w⟩

/-- the result can be CLEARED: `clear()` on the root leaves a well-formed null document -/
theorem filtered_mp_deserialized_document_clearable (env : MD.Env) (limit : Nat) (flt : Flt) (d : Doc)
    (input : List Byte) (gok : PL.GeoOK d.g) (hp : PL.Inv d.g d.pl) :
    WF ((MDDF.run env limit flt d input).2.1.clearV .root) ∧
    abs ((MDDF.run env limit flt d input).2.1.clearV .root) = .null := by
  obtain ⟨F', w, hs⟩ := MDDF.run_wf env limit flt input gok hp
  obtain ⟨a, b, c, _⟩ := clearV_spec w hs (l := .root) trivial
  exact ⟨⟨_, a, b⟩, c⟩

/-- the result can be REUSED: deserializing again into it (any input, any environment, any filter) gives a well-formed
    document -/
theorem filtered_mp_deserialized_document_reusable (env env' : MD.Env) (limit limit' : Nat) (flt flt' : Flt) (d : Doc)
    (input input' : List Byte) (gok : PL.GeoOK d.g) (hp : PL.Inv d.g d.pl) :
    WF (MDDF.run env' limit' flt' (MDDF.run env limit flt d input).2.1 input').2.1 := by
  obtain ⟨F', w, _⟩ := MDDF.run_wf env limit flt input gok hp
  exact MDDF.run_wf env' limit' flt' input' (by rw [MDDF.run_g env limit flt input gok hp]; exact gok) w.pool

/-- ... also by the unfiltered MessagePack deserializer, and the other way round -/
theorem filtered_mp_deserialized_document_reusable_by_unfiltered (env env' : MD.Env) (limit limit' : Nat) (flt : Flt)
    (d : Doc) (input input' : List Byte) (gok : PL.GeoOK d.g) (hp : PL.Inv d.g d.pl) :
    WF (MDD.run env' limit' (MDDF.run env limit flt d input).2.1 input').2.1 ∧
    WF (MDDF.run env' limit' flt (MDD.run env limit d input).2.1 input').2.1 := by
  obtain ⟨F', w, _⟩ := MDDF.run_wf env limit flt input gok hp
  obtain ⟨F2, w2, _⟩ := MDD.mp_run_wf env limit input gok hp
  exact ⟨MDD.mp_run_wf env' limit' input' (by rw [MDDF.run_g env limit flt input gok hp]; exact gok) w.pool,
    MDDF.run_wf env' limit' flt input' (by rw [MDD.mp_run_g env limit input gok hp]; exact gok) w2.pool⟩

/-- ... also by the JSON deserializer, and the other way round: the deserializers share the document invariant -/
theorem filtered_mp_deserialized_document_reusable_by_json (env : MD.Env) (cfg : JD.Cfg) (limit limit' : Nat) (flt : Flt)
    (d : Doc) (input input' : List Byte) (gok : PL.GeoOK d.g) (hp : PL.Inv d.g d.pl) :
    WF (JDD.run cfg limit' (MDDF.run env limit flt d input).2.1 input').2.1 ∧
    WF (MDDF.run env limit' flt (JDD.run cfg limit d input).2.1 input').2.1 := by
  obtain ⟨F', w, _⟩ := MDDF.run_wf env limit flt input gok hp
  obtain ⟨F2, w2, _⟩ := JDD.run_wf cfg limit input gok hp
  exact ⟨JDD.run_wf cfg limit' input' (by rw [MDDF.run_g env limit flt input gok hp]; exact gok) w.pool,
    MDDF.run_wf env limit' flt input' (by rw [JDD.run_g cfg limit input gok hp]; exact gok) w2.pool⟩

/-! ## Non-vacuity: tiny geometry (4 slots per pool, 1 pool in the inline table, 1-byte slot ids; `C03.ExDoc`) -/
namespace ExFMp
open ExDoc ExMp

/-- the filter `{"a":true}` -/
def fA : Flt := .doc (some (.obj [([0x61], .bool true)]))
/-- the filter `[true]` -/
def fArr : Flt := .doc (some (.arr [.bool true]))
/-- the unbound filter (`Filter(JsonVariant())`): nothing is allowed -/
def fNone : Flt := .doc none
/-- `{"b":2}` -/
def mObjB : List Byte := [0x81, 0xa1, 0x62, 0x02]
/-- `{"b":{"c":1}}`: a skipped member whose value is an object -/
def mObjBC : List Byte := [0x81, 0xa1, 0x62, 0x81, 0xa1, 0x63, 0x01]
/-- `{"a":1,"b":2}` -/
def mObjAB : List Byte := [0x82, 0xa1, 0x61, 0x01, 0xa1, 0x62, 0x02]

/-- `"hi"` under `{"a":true}`: a string is not allowed by an object filter: it is SKIPPED (3 bytes consumed) without an
    allocator call, the document stays null -/
example : (MDDF.run {} 10 fA (dk []) mHi).1 = .ok ∧ (MDDF.run {} 10 fA (dk []) mHi).2.1.pl.log = [] ∧
    (MDDF.run {} 10 fA (dk []) mHi).2.2 = 3 ∧ WF (MDDF.run {} 10 fA (dk []) mHi).2.1 :=
  ⟨by decide +kernel, by decide +kernel, by decide +kernel,
    filtered_mp_deserialized_document_wf {} 10 fA (dk []) mHi gok (dk_inv [])⟩

/-- `{"b":2}` under `{"a":true}`: the root becomes an (empty) object; the key `"b"` of the SKIPPED member still goes through
    the StringBuffer (`A16` = 1 + 15), which is released when the deserializer is destroyed (`D`) -/
example : (MDDF.run {} 10 fA (dk []) mObjB).1 = .ok ∧ (MDDF.run {} 10 fA (dk []) mObjB).2.1.pl.log = ["D", "A16"] ∧
    (MDDF.run {} 10 fA (dk []) mObjB).2.1.strings = [] ∧ WF (MDDF.run {} 10 fA (dk []) mObjB).2.1 :=
  ⟨by decide +kernel, by decide +kernel, by decide +kernel,
    filtered_mp_deserialized_document_wf {} 10 fA (dk []) mObjB gok (dk_inv [])⟩

/-- the same when that allocation fails: NoMemory although nothing was to be stored; still a well-formed document -/
example : (MDDF.run {} 10 fA (dk [1]) mObjB).1 = .noMemory ∧ (MDDF.run {} 10 fA (dk [1]) mObjB).2.1.pl.log = ["A16!"] ∧
    WF (MDDF.run {} 10 fA (dk [1]) mObjB).2.1 :=
  ⟨by decide +kernel, by decide +kernel, filtered_mp_deserialized_document_wf {} 10 fA (dk [1]) mObjB gok (dk_inv [1])⟩

/-- `{"b":{"c":1}}` under the unbound filter: nothing is created, the keys of the skipped object AND of the object inside
    it go through the buffer (one allocation: the second key fits the kept buffer) -/
example : (MDDF.run {} 10 fNone (dk []) mObjBC).1 = .ok ∧ (MDDF.run {} 10 fNone (dk []) mObjBC).2.1.pl.log = ["D", "A16"] ∧
    (MDDF.run {} 10 fNone (dk []) mObjBC).2.2 = 7 ∧ WF (MDDF.run {} 10 fNone (dk []) mObjBC).2.1 :=
  ⟨by decide +kernel, by decide +kernel, by decide +kernel,
    filtered_mp_deserialized_document_wf {} 10 fNone (dk []) mObjBC gok (dk_inv [])⟩

/-- `[1]` under `[true]` (kept), and under `{"a":true}` (skipped: no pool is allocated) -/
example : (MDDF.run {} 10 fArr (dk []) mArr1).1 = .ok ∧ WF (MDDF.run {} 10 fArr (dk []) mArr1).2.1 ∧
    (MDDF.run {} 10 fA (dk [1]) mArr1).1 = .ok ∧ (MDDF.run {} 10 fA (dk [1]) mArr1).2.1.pl.log = [] :=
  ⟨by decide +kernel, filtered_mp_deserialized_document_wf {} 10 fArr (dk []) mArr1 gok (dk_inv []),
    by decide +kernel, by decide +kernel⟩
example : (MDDF.run {} 10 fArr (dk [1]) mArr1).1 = .noMemory ∧ WF (MDDF.run {} 10 fArr (dk [1]) mArr1).2.1 :=
  ⟨by decide +kernel, filtered_mp_deserialized_document_wf {} 10 fArr (dk [1]) mArr1 gok (dk_inv [1])⟩

/-- kept and skipped members, a repeated key, a 64-bit integer, truncated input, a nesting limit of 0, every single failure
    position, several filters: always well-formed (the kernel does not evaluate cell maps with a key above 0, the theorem
    does not need to) -/
example (k : Nat) : WF (MDDF.run {} 10 fA (dk [k]) mObjAB).2.1 ∧ WF (MDDF.run {} 10 fA (dk [k]) mObj2).2.1 ∧
    WF (MDDF.run {} 10 fA (dk [k]) (mObjAB.take 5)).2.1 ∧ WF (MDDF.run {} 0 fA (dk [k]) mObjAB).2.1 ∧
    WF (MDDF.run {} 10 .all (dk [k]) mBig).2.1 ∧ WF (MDDF.run {} 10 fNone (dk [k]) mObjBC).2.1 :=
  ⟨filtered_mp_deserialized_document_wf {} 10 fA (dk [k]) mObjAB gok (dk_inv [k]),
    filtered_mp_deserialized_document_wf {} 10 fA (dk [k]) mObj2 gok (dk_inv [k]),
    filtered_mp_deserialized_document_wf {} 10 fA (dk [k]) _ gok (dk_inv [k]),
    filtered_mp_deserialized_document_wf {} 0 fA (dk [k]) mObjAB gok (dk_inv [k]),
    filtered_mp_deserialized_document_wf {} 10 .all (dk [k]) mBig gok (dk_inv [k]),
    filtered_mp_deserialized_document_wf {} 10 fNone (dk [k]) mObjBC gok (dk_inv [k])⟩

/-- the oracle "every call from the 2nd on fails" -/
example : WF (MDDF.run {} 10 fA { dk [] with pl := { (dk []).pl with failAt := [], failFrom := some 2 } } mObjAB).2.1 :=
  filtered_mp_deserialized_document_wf_any_oracle {} 10 fA (dk []) mObjAB gok (dk_inv []) [] (some 2)

/-- cleared and reused, by any of the deserializers -/
example : abs ((MDDF.run {} 10 fA (dk [3]) mObjAB).2.1.clearV .root) = .null ∧
    WF (MDDF.run {} 10 fArr (MDDF.run {} 10 fA (dk [3]) mObjAB).2.1 mArr1).2.1 ∧
    WF (MDD.run {} 10 (MDDF.run {} 10 fA (dk [3]) mObjAB).2.1 mArr1).2.1 ∧
    WF (JDD.run {} 10 (MDDF.run {} 10 fA (dk [3]) mObjAB).2.1 arr1).2.1 :=
  ⟨(filtered_mp_deserialized_document_clearable {} 10 fA (dk [3]) mObjAB gok (dk_inv [3])).2,
    filtered_mp_deserialized_document_reusable {} {} 10 10 fA fArr (dk [3]) mObjAB mArr1 gok (dk_inv [3]),
    (filtered_mp_deserialized_document_reusable_by_unfiltered {} {} 10 10 fA (dk [3]) mObjAB mArr1 gok (dk_inv [3])).1,
    (filtered_mp_deserialized_document_reusable_by_json {} {} 10 10 fA (dk [3]) mObjAB arr1 gok (dk_inv [3])).1⟩
end ExFMp

end C03
