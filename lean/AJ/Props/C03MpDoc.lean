/- C03 at the document level, MessagePack: "deserializeMsgPack applied to ANY byte sequence leaves the document a
   well-formed value that can be traversed, cleared and reused" - for the slot-level deserializer `MDD.run`
   (AJ/Model/MDD.lean: the MessagePack deserializer writing into the slot-level document `DL.Doc` through the operations
   the C++ uses, StringBuffer included), for every environment, nesting limit, input, starting document and EVERY allocator
   failure schedule (`failAt`, `failFrom` are arbitrary), and whatever the result code is.
   Invariant: `DL.WFG` / `DL.StrOK` (AJ/Lemmas/DocInv.lean); proof: AJ/Lemmas/MddInv.lean (induction on the fuel over the
   mutual block `parseVariant / readArray / readObject`, invariant `JDD.Built` of AJ/Lemmas/JddOps.lean, shared with the
   JSON twin AJ/Props/C03Doc.lean). -/
import AJ.Lemmas.MddInv
import AJ.Props.C03Doc
namespace C03
open DL
open JD (Byte Code)

/-- WELL-FORMED AFTER ANY INPUT, ANY FAILURE SCHEDULE. `d` is any document whose pool list satisfies its invariant (every
    reachable document does: `WFG.pool`); `run` clears it first. The allocator oracle of `d.pl` is arbitrary. -/
theorem mp_deserialized_document_wf (env : MD.Env) (limit : Nat) (d : Doc) (input : List Byte) (gok : PL.GeoOK d.g)
    (hp : PL.Inv d.g d.pl) :
    ∃ F', WFG (MDD.run env limit d input).2.1 F' ∧
      StrOK (MDD.run env limit d input).2.1 ((MDD.run env limit d input).2.1.strRefs F') :=
  MDD.mp_run_wf env limit input gok hp

/-- the same, with the failure oracle made explicit: for every list `fa` of failing call positions and every `k`
    ("every call from position `k` on fails") -/
theorem mp_deserialized_document_wf_any_oracle (env : MD.Env) (limit : Nat) (d : Doc) (input : List Byte)
    (gok : PL.GeoOK d.g) (hp : PL.Inv d.g d.pl) (fa : List Nat) (k : Option Nat) :
    WF (MDD.run env limit { d with pl := { d.pl with failAt := fa, failFrom := k } } input).2.1 :=
  MDD.mp_run_wf env limit input (d := { d with pl := { d.pl with failAt := fa, failFrom := k } }) gok
    (hp.congr rfl rfl rfl rfl)

/-- the result can be TRAVERSED: the fuelled walk `toVal` never runs out of fuel, it computes the value of the layout -/
theorem mp_deserialized_document_traversable (env : MD.Env) (limit : Nat) (d : Doc) (input : List Byte)
    (gok : PL.GeoOK d.g) (hp : PL.Inv d.g d.pl) :
    ∃ F', WFG (MDD.run env limit d input).2.1 F' ∧
      abs (MDD.run env limit d input).2.1 =
        (MDD.run env limit d input).2.1.valOf (MDD.run env limit d input).2.1.root F' := by
  obtain ⟨F', w, _⟩ := MDD.mp_run_wf env limit input gok hp
  exact ⟨F', w, abs_eq w⟩

/-- the result can be CLEARED: `clear()` on the root leaves a well-formed null document -/
theorem mp_deserialized_document_clearable (env : MD.Env) (limit : Nat) (d : Doc) (input : List Byte)
    (gok : PL.GeoOK d.g) (hp : PL.Inv d.g d.pl) :
    WF ((MDD.run env limit d input).2.1.clearV .root) ∧ abs ((MDD.run env limit d input).2.1.clearV .root) = .null := by
  obtain ⟨F', w, hs⟩ := MDD.mp_run_wf env limit input gok hp
  obtain ⟨a, b, c, _⟩ := clearV_spec w hs (l := .root) trivial
  exact ⟨⟨_, a, b⟩, c⟩

/-- the result can be REUSED: deserializing again into it (any input, any environment) gives a well-formed document -/
theorem mp_deserialized_document_reusable (env env' : MD.Env) (limit limit' : Nat) (d : Doc) (input input' : List Byte)
    (gok : PL.GeoOK d.g) (hp : PL.Inv d.g d.pl) :
    WF (MDD.run env' limit' (MDD.run env limit d input).2.1 input').2.1 := by
  obtain ⟨F', w, _⟩ := MDD.mp_run_wf env limit input gok hp
  exact MDD.mp_run_wf env' limit' input' (by rw [MDD.mp_run_g env limit input gok hp]; exact gok) w.pool

/-- ... also by the JSON deserializer, and the other way round: the two deserializers share the document invariant -/
theorem mp_deserialized_document_reusable_by_json (env : MD.Env) (cfg : JD.Cfg) (limit limit' : Nat) (d : Doc)
    (input input' : List Byte) (gok : PL.GeoOK d.g) (hp : PL.Inv d.g d.pl) :
    WF (JDD.run cfg limit' (MDD.run env limit d input).2.1 input').2.1 ∧
    WF (MDD.run env limit' (JDD.run cfg limit d input).2.1 input').2.1 := by
  obtain ⟨F', w, _⟩ := MDD.mp_run_wf env limit input gok hp
  obtain ⟨F2, w2, _⟩ := JDD.run_wf cfg limit input gok hp
  exact ⟨JDD.run_wf cfg limit' input' (by rw [MDD.mp_run_g env limit input gok hp]; exact gok) w.pool,
    MDD.mp_run_wf env limit' input' (by rw [JDD.run_g cfg limit input gok hp]; exact gok) w2.pool⟩

/-! ## Non-vacuity: tiny geometry (4 slots per pool, 1 pool in the inline table, 1-byte slot ids; `C03.ExDoc`) -/
namespace ExMp
open ExDoc

/-- `[1]` -/
def mArr1 : List Byte := [0x91, 0x01]
/-- `"hi"` -/
def mHi : List Byte := [0xa2, 0x68, 0x69]
/-- `{"a":1}` -/
def mObj1 : List Byte := [0x81, 0xa1, 0x61, 0x01]
/-- `{"a":1,"a":"a"}`: a repeated key (both members are kept), a string stored three times (one node, three references) -/
def mObj2 : List Byte := [0x82, 0xa1, 0x61, 0x01, 0xa1, 0x61, 0xa1, 0x61]
/-- the 64-bit unsigned integer 0x0102030405060708 (needs an extension slot) -/
def mBig : List Byte := [0xcf, 1, 2, 3, 4, 5, 6, 7, 8]

/-- `"hi"` without failure: Ok, one string node; the buffer is allocated with the exact size (`A17` = 2 + 15) and
    becomes the node without a reallocation -/
example : (MDD.run {} 10 (dk []) mHi).1 = .ok ∧ (MDD.run {} 10 (dk []) mHi).2.1.pl.log = ["A17"] ∧
    WF (MDD.run {} 10 (dk []) mHi).2.1 :=
  ⟨by decide +kernel, by decide +kernel, mp_deserialized_document_wf {} 10 (dk []) mHi gok (dk_inv [])⟩

/-- `"hi"` when the buffer's allocation fails: NoMemory, and still a well-formed document -/
example : (MDD.run {} 10 (dk [1]) mHi).1 = .noMemory ∧ (MDD.run {} 10 (dk [1]) mHi).2.1.pl.log = ["A17!"] ∧
    WF (MDD.run {} 10 (dk [1]) mHi).2.1 :=
  ⟨by decide +kernel, by decide +kernel, mp_deserialized_document_wf {} 10 (dk [1]) mHi gok (dk_inv [1])⟩

/-- `[1]`, without failure and with the pool allocation failing -/
example : (MDD.run {} 10 (dk []) mArr1).1 = .ok ∧ WF (MDD.run {} 10 (dk []) mArr1).2.1 :=
  ⟨by decide +kernel, mp_deserialized_document_wf {} 10 (dk []) mArr1 gok (dk_inv [])⟩
example : (MDD.run {} 10 (dk [1]) mArr1).1 = .noMemory ∧ WF (MDD.run {} 10 (dk [1]) mArr1).2.1 :=
  ⟨by decide +kernel, mp_deserialized_document_wf {} 10 (dk [1]) mArr1 gok (dk_inv [1])⟩

/-- objects, a repeated key, a 64-bit integer, truncated input, a nesting limit of 0, every single failure position:
    always well-formed (the kernel does not evaluate cell maps with a key above 0, the theorem does not need to) -/
example (k : Nat) : WF (MDD.run {} 10 (dk [k]) mObj1).2.1 ∧ WF (MDD.run {} 10 (dk [k]) mObj2).2.1 ∧
    WF (MDD.run {} 10 (dk [k]) (mObj2.take 5)).2.1 ∧ WF (MDD.run {} 0 (dk [k]) mObj2).2.1 ∧
    WF (MDD.run {} 10 (dk [k]) mBig).2.1 :=
  ⟨mp_deserialized_document_wf {} 10 (dk [k]) mObj1 gok (dk_inv [k]),
    mp_deserialized_document_wf {} 10 (dk [k]) mObj2 gok (dk_inv [k]),
    mp_deserialized_document_wf {} 10 (dk [k]) _ gok (dk_inv [k]),
    mp_deserialized_document_wf {} 0 (dk [k]) mObj2 gok (dk_inv [k]),
    mp_deserialized_document_wf {} 10 (dk [k]) mBig gok (dk_inv [k])⟩

/-- the oracle "every call from the 2nd on fails" -/
example : WF (MDD.run {} 10 { dk [] with pl := { (dk []).pl with failAt := [], failFrom := some 2 } } mObj2).2.1 :=
  mp_deserialized_document_wf_any_oracle {} 10 (dk []) mObj2 gok (dk_inv []) [] (some 2)

/-- cleared and reused, by either deserializer -/
example : abs ((MDD.run {} 10 (dk [3]) mObj2).2.1.clearV .root) = .null ∧
    WF (MDD.run {} 10 (MDD.run {} 10 (dk [3]) mObj2).2.1 mArr1).2.1 ∧
    WF (JDD.run {} 10 (MDD.run {} 10 (dk [3]) mObj2).2.1 arr1).2.1 :=
  ⟨(mp_deserialized_document_clearable {} 10 (dk [3]) mObj2 gok (dk_inv [3])).2,
    mp_deserialized_document_reusable {} {} 10 10 (dk [3]) mObj2 mArr1 gok (dk_inv [3]),
    (mp_deserialized_document_reusable_by_json {} {} 10 10 (dk [3]) mObj2 arr1 gok (dk_inv [3])).1⟩
end ExMp

end C03
