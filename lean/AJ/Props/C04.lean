/- C04: every observable of a document equals what an ordered-tree model predicts; a mutation changes only its
   target. Per-primitive refinement theorems of the slot-level model `DL` (AJ/Model/DL.lean) against the abstraction
   `DL.abs d = d.toVal d.root : JD.Val`, over the layout invariant `DL.WFG` (AJ/Lemmas/DocInv.lean).
   `absWith d F l x` is the abstract tree of `d` with the value at location `l` replaced by `x` and nothing else changed.
   C14 (how a string is stored is unobservable) is `C14.kind_irrelevant` at the end. -/
import AJ.Lemmas.DocPair
namespace C04
open DL
open JD (Byte Val)

/-! ## 1. array append -/

/-- `appendOne` of a fresh slot `id` (a variant cell holding null, not used by the document, live in the pool) to the
    array stored at a reachable location `l`: the invariant is kept and the abstract tree is the old one in which the
    array `xs` at `l` became `xs ++ [null]`; nothing else changed. -/
theorem appendOne_refines {d : Doc} {F : Forest} {l : Loc} {h t id : Nat} (w : WFG d F) (hl : isLoc F l)
    (hv : d.get l = .arr h t) (hid : d.cell id = .var .null d.null) (hidF : id ∉ F.ids) (hlt : id < d.null)
    (hlive : PL.live d.g d.pl id) :
    WFG (d.appendOne l id) (replaceAt F l ((layoutAt F l).snoc none id)) ∧
    ∃ xs, d.toVal (d.get l) = .arr xs ∧ abs (d.appendOne l id) = absWith d F l (.arr (xs ++ [.null])) :=
  appendOne_spec w hl hv hid hidF hlt hlive

/-- `appendOne_refines` for the full invariant `WF = WFG ∧ StrOK` -/
theorem appendOne_wf {d : Doc} {F : Forest} {l : Loc} {h t id : Nat} (w : WFG d F) (hs : StrOK d (d.strRefs F))
    (hl : isLoc F l) (hv : d.get l = .arr h t) (hid : d.cell id = .var .null d.null) (hidF : id ∉ F.ids)
    (hlt : id < d.null) (hlive : PL.live d.g d.pl id) :
    WFG (d.appendOne l id) (replaceAt F l ((layoutAt F l).snoc none id)) ∧
    StrOK (d.appendOne l id) ((d.appendOne l id).strRefs (replaceAt F l ((layoutAt F l).snoc none id))) ∧
    ∃ xs, d.toVal (d.get l) = .arr xs ∧ abs (d.appendOne l id) = absWith d F l (.arr (xs ++ [.null])) :=
  ⟨(appendOne_spec w hl hv hid hidF hlt hlive).1, appendOne_strOK w hs hl hv hid hidF hlt hlive,
    (appendOne_spec w hl hv hid hidF hlt hlive).2⟩

/-! ## 2. object member append -/

/-- `appendPair` of a fresh key slot `k` (a variant cell holding a string `kv`, linked or copied) and a fresh value slot
    `v` (holding null) to the object stored at a reachable location `l`: the invariant is kept and the abstract tree is
    the old one in which the object `ms` at `l` became `ms ++ [(key bytes, null)]`; nothing else changed. -/
theorem appendPair_refines {d : Doc} {F : Forest} {l : Loc} {h t k v nk : Nat} {kv : VData} (w : WFG d F)
    (hl : isLoc F l) (hv : d.get l = .obj h t) (hk : d.cell k = .var kv nk) (hkey : isKey kv)
    (hvc : d.cell v = .var .null d.null) (hkv : k ≠ v) (hkF : k ∉ F.ids) (hvF : v ∉ F.ids) (hklt : k < d.null)
    (hvlt : v < d.null) (hklive : PL.live d.g d.pl k) (hvlive : PL.live d.g d.pl v) :
    WFG (d.appendPair l k v) (replaceAt F l ((layoutAt F l).snoc (some k) v)) ∧
    ∃ ms, d.toVal (d.get l) = .obj ms ∧
      abs (d.appendPair l k v) = absWith d F l (.obj (ms ++ [(keyOfV d kv, .null)])) :=
  appendPair_spec w hl hv hk hkey hvc hkv hkF hvF hklt hvlt hklive hvlive

/-! ## 5. storing scalars and strings -/

/-- the abstract value an argument of `set` stands for -/
def argVal : Arg → Val
  | .null => .null
  | .bool b => .bool b
  | .sint v => .num (.sint v)
  | .uint v => .num (.uint v)
  | .f32 b => .num (.f32 b)
  | .f64 b => match JD.storeDouble b with | .f32 f => .num (.f32 f) | _ => .num (.f64 b)
  | .strLinked s => .str s
  | .strCopied s => .str s
  | .raw s => .raw s

/-- `absWith d F l x` differs from `abs d` at most at location `l`: putting back the value that is there gives `abs d`. -/
theorem absWith_self {d : Doc} {F : Forest} {l : Loc} (w : WFG d F) (hl : isLoc F l) :
    absWith d F l (d.toVal (d.get l)) = abs d :=
  DL.absWith_self w hl

/-- `setArg` on a cleared location (it holds null), when it reports success (extension slot / string copy could be
    allocated): the invariant is kept and the location holds exactly the value the argument stands for; nothing else
    changed. -/
theorem set_scalar {d : Doc} {F : Forest} {l : Loc} {a : Arg} (w : WFG d F) (hl : isLoc F l)
    (hnull : d.get l = .null) (gok : PL.GeoOK d.g) (hs : StrOK d (d.strRefs F))
    (hok : (d.setArg l a).1 = true) :
    WFG (d.setArg l a).2 F ∧ abs (d.setArg l a).2 = absWith d F l (argVal a) := by
  have hold : ¬ isColl (d.get l) := by rw [hnull]; exact fun h => h
  cases a with
  | null =>
    refine ⟨w, ?_⟩
    show abs d = absWith d F l .null
    rw [← DL.absWith_self w hl, hnull]; rfl
  | bool b => exact set_plain w hl hold (fun h => h) rfl
  | f32 b => exact set_plain w hl hold (fun h => h) rfl
  | strLinked s => exact set_plain w hl hold (fun h => h) rfl
  | sint v =>
    simp only [Doc.setArg] at hok ⊢
    split
    · exact set_plain w hl hold (fun h => h) rfl
    · rename_i hr
      rw [if_neg hr] at hok
      generalize hal : d.allocExt v = r at hok ⊢
      obtain ⟨m, d1⟩ := r
      cases m with
      | none => simp at hok
      | some e =>
        obtain ⟨h1, h2, h3⟩ := set_ext (v' := .i64 e) w hl gok hold hal (fun h => h) rfl
        refine ⟨h1, ?_⟩
        rw [h2]; simp only [Doc.scalar, h3, argVal]
  | uint v =>
    simp only [Doc.setArg] at hok ⊢
    split
    · exact set_plain w hl hold (fun h => h) rfl
    · rename_i hr
      rw [if_neg hr] at hok
      generalize hal : d.allocExt v = r at hok ⊢
      obtain ⟨m, d1⟩ := r
      cases m with
      | none => simp at hok
      | some e =>
        obtain ⟨h1, h2, h3⟩ := set_ext (v' := .u64 e) w hl gok hold hal (fun h => h) rfl
        refine ⟨h1, ?_⟩
        rw [h2]; simp only [Doc.scalar, h3, argVal, Int.toNat_natCast]
  | f64 b =>
    simp only [Doc.setArg, argVal] at hok ⊢
    split
    · rename_i f heq
      simp only [heq]
      exact set_plain (v' := .f32 f) w hl hold (fun h => h) rfl
    · rename_i hne
      generalize hal : d.allocExt b = r at hok ⊢
      obtain ⟨m, d1⟩ := r
      cases m with
      | none => simp_all
      | some e =>
        obtain ⟨h1, h2, h3⟩ := set_ext (v' := .f64 e) w hl gok hold hal (fun h => h) rfl
        refine ⟨h1, ?_⟩
        rw [h2]; simp only [Doc.scalar, h3, Int.toNat_natCast]
  | strCopied s =>
    simp only [Doc.setArg] at hok ⊢
    generalize hal : d.saveString s = r at hok ⊢
    obtain ⟨m, d1⟩ := r
    cases m with
    | none =>
      exfalso
      simp only [Doc.saveString] at hal
      split at hal
      · simp at hal
      · split at hal
        · simp only [Prod.mk.injEq, true_and] at hal; subst hal; simp at hok
        generalize d.pl.alloc (s.length + d.strOverhead) = q at hal
        obtain ⟨ok, pl⟩ := q
        simp only at hal
        split at hal
        · simp only [Prod.mk.injEq, true_and] at hal; subst hal; simp at hok
        · simp at hal
    | some n =>
      obtain ⟨h1, h2, h3⟩ := set_copied (v' := .owned n) w hl hs hold hal (fun h => h) rfl
      refine ⟨h1, ?_⟩
      rw [h2]; simp only [Doc.scalar, h3, argVal]
  | raw s =>
    simp only [Doc.setArg] at hok ⊢
    generalize hal : d.saveString s = r at hok ⊢
    obtain ⟨m, d1⟩ := r
    cases m with
    | none =>
      exfalso
      simp only [Doc.saveString] at hal
      split at hal
      · simp at hal
      · split at hal
        · simp only [Prod.mk.injEq, true_and] at hal; subst hal; simp at hok
        generalize d.pl.alloc (s.length + d.strOverhead) = q at hal
        obtain ⟨ok, pl⟩ := q
        simp only at hal
        split at hal
        · simp only [Prod.mk.injEq, true_and] at hal; subst hal; simp at hok
        · simp at hal
    | some n =>
      obtain ⟨h1, h2, h3⟩ := set_copied (v' := .raw n) w hl hs hold hal (fun h => h) rfl
      refine ⟨h1, ?_⟩
      rw [h2]; simp only [Doc.scalar, h3, argVal]

/-- string-table half of `set_scalar`: the reference-count invariant is kept (a copied string accounts for one more
    reference to its node, whether the node is new or shared) -/
theorem set_scalar_str {d : Doc} {F : Forest} {l : Loc} {a : Arg} (w : WFG d F) (hs : StrOK d (d.strRefs F))
    (hl : isLoc F l) (hnull : d.get l = .null) (gok : PL.GeoOK d.g) (hok : (d.setArg l a).1 = true) :
    StrOK (d.setArg l a).2 ((d.setArg l a).2.strRefs F) := by
  have hold : strOfV (d.get l) = [] := by rw [hnull]; rfl
  have plain : ∀ v', strOfV v' = [] → StrOK (d.set l v') ((d.set l v').strRefs F) := fun v' hv' =>
    set_gen_strOK w hl hold rfl (fun _ _ => rfl) (by rw [hv']; exact hs)
  have ext : ∀ (p : Int) (e : Nat) (d1 : Doc) v', d.allocExt p = (some e, d1) → strOfV v' = [] →
      StrOK (d1.set l v') ((d1.set l v').strRefs F) := fun p e d1 v' hal hv' => by
    obtain ⟨_, hroot, _, _, hco, _, _, hnl, _⟩ := allocExt_spec w gok hal
    obtain ⟨h1, h2⟩ := allocExt_str hal
    exact set_gen_strOK w hl hold hroot (fun j hj => hco j (fun e' => hnl (e' ▸ w.live j hj)))
      (by rw [hv']; exact StrOK_congr h1 h2 hs)
  have copied : ∀ (s : List Byte) (n : Nat) (d1 : Doc) v', d.saveString s = (some n, d1) → strOfV v' = [n] →
      StrOK (d1.set l v') ((d1.set l v').strRefs F) := fun s n d1 v' hal hv' => by
    obtain ⟨_, hroot, hcells, _⟩ := saveString_spec hs.ids_nodup hs.ids_lt hal
    exact set_gen_strOK w hl hold hroot (fun j _ => by simp only [Doc.cell, hcells])
      (by rw [hv']; exact saveString_strOK hs hal)
  cases a with
  | null => exact hs
  | bool b => exact plain _ rfl
  | f32 b => exact plain _ rfl
  | strLinked s => exact plain _ rfl
  | sint v =>
    simp only [Doc.setArg] at hok ⊢
    split
    · exact plain _ rfl
    · rename_i hr
      rw [if_neg hr] at hok
      generalize hal : d.allocExt v = r at hok ⊢
      obtain ⟨m, d1⟩ := r
      cases m with
      | none => simp at hok
      | some e => exact ext _ e d1 _ hal rfl
  | uint v =>
    simp only [Doc.setArg] at hok ⊢
    split
    · exact plain _ rfl
    · rename_i hr
      rw [if_neg hr] at hok
      generalize hal : d.allocExt v = r at hok ⊢
      obtain ⟨m, d1⟩ := r
      cases m with
      | none => simp at hok
      | some e => exact ext _ e d1 _ hal rfl
  | f64 b =>
    simp only [Doc.setArg] at hok ⊢
    split
    · exact plain (.f32 _) rfl
    · generalize hal : d.allocExt b = r at hok ⊢
      obtain ⟨m, d1⟩ := r
      cases m with
      | none => simp_all
      | some e => exact ext _ e d1 _ hal rfl
  | strCopied s =>
    simp only [Doc.setArg] at hok ⊢
    generalize hal : d.saveString s = r at hok ⊢
    obtain ⟨m, d1⟩ := r
    cases m with
    | none =>
      exfalso
      simp only [Doc.saveString] at hal
      split at hal
      · simp at hal
      · split at hal
        · simp only [Prod.mk.injEq, true_and] at hal; subst hal; simp at hok
        generalize d.pl.alloc (s.length + d.strOverhead) = q at hal
        obtain ⟨ok, pl⟩ := q
        simp only at hal
        split at hal
        · simp only [Prod.mk.injEq, true_and] at hal; subst hal; simp at hok
        · simp at hal
    | some n => exact copied s n d1 _ hal rfl
  | raw s =>
    simp only [Doc.setArg] at hok ⊢
    generalize hal : d.saveString s = r at hok ⊢
    obtain ⟨m, d1⟩ := r
    cases m with
    | none =>
      exfalso
      simp only [Doc.saveString] at hal
      split at hal
      · simp at hal
      · split at hal
        · simp only [Prod.mk.injEq, true_and] at hal; subst hal; simp at hok
        generalize d.pl.alloc (s.length + d.strOverhead) = q at hal
        obtain ⟨ok, pl⟩ := q
        simp only at hal
        split at hal
        · simp only [Prod.mk.injEq, true_and] at hal; subst hal; simp at hok
        · simp at hal
    | some n => exact copied s n d1 _ hal rfl

/-- `set_scalar` for the full invariant `WF = WFG ∧ StrOK` -/
theorem set_scalar_wf {d : Doc} {F : Forest} {l : Loc} {a : Arg} (w : WFG d F) (hs : StrOK d (d.strRefs F))
    (hl : isLoc F l) (hnull : d.get l = .null) (gok : PL.GeoOK d.g) (hok : (d.setArg l a).1 = true) :
    WFG (d.setArg l a).2 F ∧ StrOK (d.setArg l a).2 ((d.setArg l a).2.strRefs F) ∧
    abs (d.setArg l a).2 = absWith d F l (argVal a) :=
  ⟨(set_scalar w hl hnull gok hs hok).1, set_scalar_str w hs hl hnull gok hok, (set_scalar w hl hnull gok hs hok).2⟩

/-! ## 4. clearing a location that holds a scalar or a string -/

/-- `clearV` on a reachable location holding a scalar or a string (linked, or copied and reference-counted): the
    location becomes null, every other location keeps its value (`absWith`), the invariant and the string-table
    invariant are kept — in particular a copied string shared (de-duplicated) with another value survives there. -/
theorem clearV_scalar {d : Doc} {F : Forest} {l : Loc} (w : WFG d F) (hs : StrOK d (d.strRefs F))
    (hl : isLoc F l) (hsc : ¬ isColl (d.get l)) :
    WFG (d.clearV l) F ∧ StrOK (d.clearV l) ((d.clearV l).strRefs F) ∧ abs (d.clearV l) = absWith d F l .null :=
  clearV_scalar_spec w hs hl hsc

/-- FRAME: after `clearV` of a scalar/string location `l`, every other reachable location `l'` whose value does not
    contain `l` still designates exactly the same value ("a mutation changes only its target; references to other
    values keep designating the same value"). -/
theorem clearV_scalar_frame {d : Doc} {F : Forest} {l l' : Loc} (w : WFG d F) (hs : StrOK d (d.strRefs F))
    (hl : isLoc F l) (hsc : ¬ isColl (d.get l)) (hl' : isLoc F l') (hne : l' ≠ l)
    (hnotin : ∀ i, l = .slot i → i ∉ (layoutAt F l').ids) :
    (d.clearV l).toVal ((d.clearV l).get l') = d.toVal (d.get l') :=
  DL.clearV_scalar_frame w hs hl hsc hl' hne hnotin

/-! ## 4b. clearing any location, in particular a collection -/

/-- `VariantData::clear` on ANY reachable location `l` (scalar, string, array or object, arbitrarily nested): the
    invariant `WF` (cells and string table) is kept with the layout below `l` removed, the abstract tree is the old one
    with the value at `l` replaced by null (`absWith`: nothing else changed), and every slot of the cleared subtree has
    been released to the pool (it is no longer live). -/
theorem clearV_collection {d : Doc} {F : Forest} {l : Loc} (w : WFG d F) (hs : StrOK d (d.strRefs F)) (hl : isLoc F l) :
    WFG (d.clearV l) (replaceAt F l .nil) ∧
    StrOK (d.clearV l) ((d.clearV l).strRefs (replaceAt F l .nil)) ∧
    abs (d.clearV l) = absWith d F l .null ∧
    (∀ x ∈ (layoutAt F l).ids, ¬ PL.live (d.clearV l).g (d.clearV l).pl x) :=
  clearV_spec w hs hl

/-- FRAME for `clearV` on any location `l`: every other reachable location `l'` that lies outside the cleared subtree
    and whose own subtree does not contain `l` (nor anything below it) designates exactly the same value afterwards. -/
theorem clearV_frame {d : Doc} {F : Forest} {l l' : Loc} (w : WFG d F) (hs : StrOK d (d.strRefs F))
    (hl : isLoc F l) (hl' : isLoc F l') (hne : l' ≠ l)
    (hout : ∀ j, l' = .slot j → j ∉ (layoutAt F l).ids)
    (hdisj : ∀ x ∈ (layoutAt F l').ids, x ∉ (layoutAt F l).ids ∧ Loc.slot x ≠ l) :
    (d.clearV l).toVal ((d.clearV l).get l') = d.toVal (d.get l') :=
  clearV_frame_spec w hs hl hl' hne hout hdisj

/-! ## 6. read-only operations -/

/-- The observers are functions from a document (and a value) to a result: they cannot change the document. -/
theorem observers_pure (d : Doc) (v : VData) (l : Loc) (key : List Byte) :
    (fun (_ : Val × String × Nat × Nat × Option (Nat × Nat)) => d)
      (d.toVal v, d.show v, d.size v, d.nesting v, d.findKey l key) = d := rfl

/-- `size` is the length of the abstract array, resp. the number of members of the abstract object -/
theorem size_eq {d : Doc} {F : Forest} {l : Loc} (w : WFG d F) (hl : isLoc F l) :
    (∀ h t, d.get l = .arr h t → ∃ xs, d.toVal (d.get l) = .arr xs ∧ d.size (d.get l) = xs.length) ∧
    (∀ h t, d.get l = .obj h t → ∃ ms, d.toVal (d.get l) = .obj ms ∧ d.size (d.get l) = ms.length) :=
  size_spec w hl

/-- `findKey` returns the first member with that key of the abstract object: the value stored in the value slot it
    returns is the value of that member, and it returns nothing exactly when no member has the key. -/
theorem findKey_first {d : Doc} {F : Forest} {l : Loc} {h t : Nat} (w : WFG d F) (hl : isLoc F l)
    (hv : d.get l = .obj h t) (key : List Byte) :
    ∃ ms, d.toVal (d.get l) = .obj ms ∧
      ((d.findKey l key).map (fun p => d.toVal (d.get (.slot p.2)))) = (ms.find? (fun m => m.1 == key)).map (·.2) :=
  findKey_spec w hl hv key

/-- `getOrAddMember` on an object that already has a member with this key returns the value slot of the FIRST such
    member and does not change the document (partial: the "key absent" branch, `addMember`, is only covered by
    `appendPair_refines` for the linking step and by `C05.add_member_fail_clean` for its failures). -/
theorem getOrAddMember_found_partial {d : Doc} {l : Loc} {h t k v : Nat} {key : List Byte} {linked : Bool}
    (hv : d.get l = .obj h t) (hf : d.findKey l key = some (k, v)) :
    d.getOrAddMember l key linked = (some v, d) := by
  simp only [Doc.getOrAddMember, hv, hf]

end C04

/-! ## C14: how a string is stored is unobservable -/
namespace C14
open DL
open JD (Byte Val)

/-- Storing the bytes `s` as a linked (not copied) string or as a copied, de-duplicated, reference-counted string
    gives the same abstract document, whenever the copy could be allocated. -/
theorem kind_irrelevant {d : Doc} {F : Forest} {l : Loc} {s : List Byte} (w : WFG d F) (hl : isLoc F l)
    (hnull : d.get l = .null) (gok : PL.GeoOK d.g) (hs : StrOK d (d.strRefs F))
    (hok1 : (d.setArg l (.strLinked s)).1 = true) (hok2 : (d.setArg l (.strCopied s)).1 = true) :
    abs (d.setArg l (.strLinked s)).2 = abs (d.setArg l (.strCopied s)).2 := by
  rw [(C04.set_scalar w hl hnull gok hs hok1).2, (C04.set_scalar w hl hnull gok hs hok2).2]
  rfl
end C14

/-! ## Non-vacuity: the theorems instantiated on a concrete document -/
namespace C04.Ex
open DL
open JD (Byte Val)

deriving instance DecidableEq for VData, Cell, PL.Pool, PL.St, StrNode

def g0 : PL.Geo := ⟨4, 1, 1, 16, 16⟩
/-- empty document whose root is an empty array -/
def e1 : Doc := ({ g := g0, alloc := 0, pl := PL.init g0 } : Doc).set .root (.arr 255 255)
/-- one slot allocated -/
def e2 : Doc := e1.allocVariant.2
/-- the slot appended: `[null]` -/
def e3 : Doc := e2.appendOne .root 0

theorem gok : PL.GeoOK g0 := ⟨by decide, by decide⟩

theorem wfg_empty_arr {d : Doc} (hr : d.root = .arr d.null d.null) (hp : PL.Inv d.g d.pl) : WFG d .nil := by
  refine ⟨?_, List.nodup_nil, fun i hi => (by cases hi), hp, fun i hi => (by cases hi), ?_⟩
  · rw [hr]; exact ⟨rfl, rfl⟩
  · intro l hl e he
    rcases mem_holders.1 hl with h | ⟨j, hj, _⟩
    · subst h; rw [show d.get .root = d.root from rfl, hr] at he; cases he
    · cases hj

theorem w1 : WFG e1 .nil := wfg_empty_arr rfl (PL.init_inv gok [])

theorem alloc2 : PL.allocSlot e1.g e1.pl = (some 0, e2.pl) := by decide +kernel

theorem w2 : WFG e2 .nil :=
  wfg_empty_arr (by decide +kernel) (C19.alloc_fresh gok w1.pool alloc2).2.2.2

/-- `appendOne_refines` applies: the document becomes `[null]` and stays well-formed -/
theorem w3 : WFG e3 (.cons none 0 .nil .nil) ∧ abs e3 = .arr [.null] := by
  have hlive : PL.live e2.g e2.pl 0 := ((C19.alloc_fresh gok w1.pool alloc2).2.2.1 0).2 (Or.inr rfl)
  obtain ⟨h1, xs, h2, h3⟩ := appendOne_refines (d := e2) (F := .nil) (l := .root) (h := 255) (t := 255) (id := 0)
    w2 trivial (by decide +kernel) (by decide +kernel) (by simp [Forest.ids]) (by decide +kernel) hlive
  have hx : xs = [] := by
    have : e2.toVal (e2.get .root) = .arr [] := by rfl
    rw [this] at h2; injection h2 with h2; exact h2.symm
  subst hx
  exact ⟨h1, h3⟩

def F3 : Forest := .cons none 0 .nil .nil
def hi : List Byte := [0x68, 0x69]

theorem s3 : StrOK e3 (e3.strRefs F3) :=
  ⟨by decide +kernel, by decide +kernel, by decide +kernel, by decide +kernel⟩

theorem loc0 : isLoc F3 (.slot 0) := by simp [isLoc, F3, Forest.locs]

/-- `set_scalar` applies (copied string): element 0 becomes the string, nothing else changes -/
example : abs (e3.setArg (.slot 0) (.strCopied hi)).2 = .arr [.str hi] := by
  have := (set_scalar (a := .strCopied hi) w3.1 loc0 (by decide +kernel) gok s3 (by decide +kernel)).2
  rw [this]; rfl

/-- `C14.kind_irrelevant` applies -/
example : abs (e3.setArg (.slot 0) (.strLinked hi)).2 = abs (e3.setArg (.slot 0) (.strCopied hi)).2 :=
  C14.kind_irrelevant w3.1 loc0 (by decide +kernel) gok s3 (by decide +kernel) (by decide +kernel)

/-- the document `["hi"]` with a copied string -/
def e4 : Doc := (e3.setArg (.slot 0) (.strCopied hi)).2
theorem w4 : WFG e4 F3 :=
  (set_scalar (a := .strCopied hi) w3.1 loc0 (by decide +kernel) gok s3 (by decide +kernel)).1
theorem s4 : StrOK e4 (e4.strRefs F3) :=
  ⟨by decide +kernel, by decide +kernel, by decide +kernel, by decide +kernel⟩

/-- `clearV_scalar` applies: clearing the string element gives `[null]`, invariants kept -/
example : WFG (e4.clearV (.slot 0)) F3 ∧ abs (e4.clearV (.slot 0)) = .arr [.null] := by
  obtain ⟨h1, _, h3⟩ := clearV_scalar w4 s4 loc0 (by rw [show e4.get (.slot 0) = .owned 0 from by decide +kernel]; exact fun h => h)
  exact ⟨h1, by rw [h3]; rfl⟩

/-- `clearV_collection` applies to the root array of `["hi"]` (a collection holding a copied string): the document
    becomes null, slot 0 is released, invariants kept -/
example : WFG (e4.clearV .root) .nil ∧ abs (e4.clearV .root) = .null ∧ ¬ PL.live (e4.clearV .root).g (e4.clearV .root).pl 0 := by
  obtain ⟨h1, _, h3, h4⟩ := clearV_collection w4 s4 (l := .root) trivial
  exact ⟨h1, h3, h4 0 (by simp [layoutAt, F3, Forest.ids, Forest.keyL])⟩

/-- `size_eq` applies to the root array of `["hi"]` -/
example : ∃ xs, e4.toVal (e4.get .root) = .arr xs ∧ e4.size (e4.get .root) = xs.length :=
  (size_eq w4 (l := .root) trivial).1 0 0 (by decide +kernel)

/-- the document `["hi", null]`: a second element, then `clearV_scalar_frame` applies to the two elements: clearing
    element 0 leaves the value designated by a reference to element 1 unchanged (and vice versa) -/
example (d : Doc) (F : Forest) (w : WFG d F) (hs : StrOK d (d.strRefs F)) (i j : Nat) (hi : i ∈ F.locs) (hj : j ∈ F.locs)
    (hij : j ≠ i) (hsc : ¬ isColl (d.get (.slot i))) (hdisj : i ∉ (F.subOf j).ids) :
    (d.clearV (.slot i)).toVal ((d.clearV (.slot i)).get (.slot j)) = d.toVal (d.get (.slot j)) :=
  clearV_scalar_frame w hs (l := .slot i) (l' := .slot j) hi hsc hj (by intro e; cases e; exact hij rfl)
    (fun i' e => by cases e; exact hdisj)

end C04.Ex

/-! ## allocator half: slot identifiers are fresh, releases are local (from AJ/Props/C19.lean) -/
namespace C04
open PL
/-- a new slot never aliases a value that still exists (ids are fresh, below NULL_SLOT), and every other live slot stays live -/
theorem new_slot_is_fresh {g : Geo} {s s' : St} {id : Nat} (gok : GeoOK g) (hI : Inv g s) (h : allocSlot g s = (some id, s')) :
    id < g.nullSlot ∧ ¬ live g s id ∧ (∀ x, live g s' x ↔ live g s x ∨ x = id) ∧ Inv g s' := C19.alloc_fresh gok hI h

/-- removing a value releases exactly its slot: every other slot stays live (references to other values remain valid) -/
theorem release_is_local {g : Geo} {s : St} {id : Nat} (h : live g s id) (hI : Inv g s) :
    Inv g (freeSlot s id) ∧ ∀ x, live g (freeSlot s id) x ↔ live g s x ∧ x ≠ id := C19.free_then_alloc h hI

/-- shrinkToFit changes no slot -/
theorem shrink_changes_nothing {g : Geo} {s : St} (hI : Inv g s) :
    Inv g (shrink g s) ∧ ∀ x, live g (shrink g s) x ↔ live g s x := C19.shrink_keeps hI
end C04
