/- Aggregate: C04/C14 primitive refinement theorems (C04.lean) and the lift to histories (C04Hist.lean). -/
import AJ.Props.C04
import AJ.Props.C04Hist
import AJ.Props.C04Rem
import AJ.Props.C04Copy
import AJ.Props.C14Hist
import AJ.Props.C04Deser
import AJ.Props.C04HistDeser
import AJ.Props.C04DocCopy
