/- C04, deep copy: `copyInto d l src sv` (AJ/Model/DL.lean; the model of `JsonVariant::set(JsonVariantConst)`, of
   `JsonArray::set(JsonArrayConst)` and `JsonObject::set(JsonObjectConst)`) refines "replace the value at `l` by a copy of
   the source value, change nothing else", over the layout invariant `WFG` / `StrOK` of AJ/Lemmas/DocInv.lean.
   Proof: AJ/Lemmas/DocCopy.lean (local specification `Post`, induction on the layout of the source value).

   What the model does (reported, not assumed):
   * `copyIntoF` threads the ORIGINAL source document `src` through the whole recursion: the source is read from a
     snapshot, never from the evolving destination. Copying inside one document is therefore the instance `src := d` of
     the general theorem, and needs no "source and destination do not overlap" hypothesis in the model.
   * a double stored in an 8-byte extension slot is re-stored through `setArg (.f64 _)`, i.e. as a 4-byte float when the
     float has the same value: the copy of a value is `copyVal` of it (`copyVal v = v` whenever every stored double is
     stored the way `setArg` stores it, `DblCanon v`).
   * object members are copied with `getOrAddMember` (`dst[key]`): a source object with a repeated key is NOT copied
     member by member (the second value overwrites the first member). The hypothesis `NoDupKeys` is needed. Evidence
     (compiled evaluation with `#eval`; the kernel cannot evaluate it, see the note in `C04.ExC`): with
       z0 := { g := ⟨4,1,1,16,16⟩, alloc := 1, pl := PL.init _ },  o0 := z0.set .root (.obj 255 255),
       o1 := (o0.addMember .root [0x61] true).2,   o2 := (o1.setArg (.slot 1) (.sint 1)).2,
       o3 := (o2.addMember .root [0x61] true).2,   o4 := (o3.setArg (.slot 3) (.sint 2)).2
     `o4.show o4.root = "{61:I1,61:I2}"` (the object `{"a":1,"a":2}`), and for `c := copyInto z0 .root o4 o4.root`:
     `c.show c.root = "{61:I2}"`, `c.overflowed = false`.
   * the copy starts by clearing its target (`copyIntoF` calls `clearV`): no hypothesis on what the target holds. -/
import AJ.Lemmas.DocCopy
import AJ.Props.C04Hist
namespace C04
open DL
open JD (Byte Val)

/-! ## the abstract copy -/

theorem argV_eq_argVal (a : Arg) : argV a = argVal a := by cases a <;> rfl

def numCanon : JD.Num → Prop
  | .f64 b => normF64 b = .num (.f64 b)
  | _ => True

mutual
/-- every double of the tree that is stored in 8 bytes needs them (its value is not a float value): what `setArg` and
    the deserializers produce -/
def DblCanon : Val → Prop
  | .num n => numCanon n
  | .arr xs => DblCanonL xs
  | .obj ms => DblCanonM ms
  | _ => True
def DblCanonL : List Val → Prop
  | [] => True
  | x :: xs => DblCanon x ∧ DblCanonL xs
def DblCanonM : List (List Byte × Val) → Prop
  | [] => True
  | (_, v) :: ms => DblCanon v ∧ DblCanonM ms
end

mutual
/-- a complete copy of a value whose doubles are stored canonically is the value itself -/
theorem copyVal_of_canon : ∀ (v : Val), DblCanon v → copyVal v = v
  | .null, _ => rfl
  | .bool _, _ => rfl
  | .num n, h => by
    cases n
    case f64 b => exact h
    all_goals rfl
  | .str _, _ => rfl
  | .raw _, _ => rfl
  | .arr xs, h => by simp only [copyVal]; rw [copyVals_of_canon xs h]
  | .obj ms, h => by simp only [copyVal]; rw [copyMems_of_canon ms h]
theorem copyVals_of_canon : ∀ (xs : List Val), DblCanonL xs → copyVals xs = xs
  | [], _ => rfl
  | x :: xs, h => by simp only [copyVals]; rw [copyVal_of_canon x h.1, copyVals_of_canon xs h.2]
theorem copyMems_of_canon : ∀ (ms : List (List Byte × Val)), DblCanonM ms → copyMems ms = ms
  | [], _ => rfl
  | (k, v) :: ms, h => by simp only [copyMems]; rw [copyVal_of_canon v h.1, copyMems_of_canon ms h.2]
end

/-! ## 7. deep copy -/

/-- ghost layout after the copy: the layout read off the result below `l` replaces the old layout at `l` -/
def copyLayout (d : Doc) (F : Forest) (l : Loc) (src : Doc) (sv : VData) : Forest :=
  replaceAt F l ((copyInto d l src sv).lay ((copyInto d l src sv).get l))

theorem src_fuel_ok {src : Doc} {Fs : Forest} {ls : Loc} (ws : WFG src Fs) (hls : isLoc Fs ls) :
    (layoutAt Fs ls).ids.length < src.fuel :=
  Nat.lt_of_le_of_lt (List.Nodup.length_le_of_subset (layoutAt_nodup ws.nodup hls)
    (fun x hx => layoutAt_ids_sub Fs ls x hx)) ws.fuel_ok

/-- DEEP COPY, success case. `d` is a well-formed document, `l` ANY reachable location of it (whatever it holds: the copy
    clears it first, as the API does), `src` ANY well-formed document (another one, or `d` itself) and `ls` a reachable
    location of `src` whose value has no object with a repeated key. If the result is not flagged `overflowed` (hence
    `d` was not, and no allocation failed), then the result is well-formed (cells and string table) for the layout that
    has a new layout at `l` (`copyLayout`), over the same geometry; the value at `l` is the copy of the source value; the
    abstract document is the old one with exactly the value at `l` replaced (`absWith`: every other location keeps its
    value; `Keep` says the same cell by cell); the slots of the new layout are fresh or recycled from the subtree that
    was cleared at `l` - none belongs to the rest of `d`, in particular none to the source when `src = d` and the source
    lies outside `l`; and every slot of `d` outside the cleared subtree is still live.
    `src` is an argument that is only read: it is a separate value and is not modified, by construction. -/
theorem copyInto_refines {d src : Doc} {F Fs : Forest} {l ls : Loc}
    (w : WFG d F) (hs : StrOK d (d.strRefs F)) (gok : PL.GeoOK d.g) (hl : isLoc F l)
    (ws : WFG src Fs) (hls : isLoc Fs ls) (hnd : NoDupKeys (src.toVal (src.get ls)))
    (hok : (copyInto d l src (src.get ls)).overflowed = false) :
    WFG (copyInto d l src (src.get ls)) (copyLayout d F l src (src.get ls)) ∧
    StrOK (copyInto d l src (src.get ls)) ((copyInto d l src (src.get ls)).strRefs (copyLayout d F l src (src.get ls))) ∧
    (copyInto d l src (src.get ls)).g = d.g ∧
    (copyInto d l src (src.get ls)).toVal ((copyInto d l src (src.get ls)).get l) = copyVal (src.toVal (src.get ls)) ∧
    abs (copyInto d l src (src.get ls)) = absWith d F l (copyVal (src.toVal (src.get ls))) ∧
    (∀ x ∈ ((copyInto d l src (src.get ls)).lay ((copyInto d l src (src.get ls)).get l)).ids,
      x ∈ F.ids → x ∈ (layoutAt F l).ids) ∧
    (∀ x ∈ F.ids, x ∉ (layoutAt F l).ids →
      PL.live (copyInto d l src (src.get ls)).g (copyInto d l src (src.get ls)).pl x) ∧
    Keep d (copyInto d l src (src.get ls)) F l ∧
    d.overflowed = false := by
  obtain ⟨a, b, g, c, _, e, ov, _, _, f, lv, k⟩ := copyInto_doc_gen w hs gok hl (VOK_at ws hls) (src_fuel_ok ws hls) hnd
  refine ⟨a, b, g, e hok, by rw [c, e hok], f, lv, k, ?_⟩
  cases h : d.overflowed with
  | false => rfl
  | true => rw [ov h] at hok; cases hok

/-- when the target location was already cleared (it holds null), every slot of the new layout is fresh: it is not a
    slot of the old document -/
theorem copyInto_fresh_of_null {d src : Doc} {F Fs : Forest} {l ls : Loc}
    (w : WFG d F) (hs : StrOK d (d.strRefs F)) (gok : PL.GeoOK d.g) (hl : isLoc F l) (hnull : d.get l = .null)
    (ws : WFG src Fs) (hls : isLoc Fs ls) (hnd : NoDupKeys (src.toVal (src.get ls))) :
    ∀ x ∈ ((copyInto d l src (src.get ls)).lay ((copyInto d l src (src.get ls)).get l)).ids, x ∉ F.ids := by
  obtain ⟨_, _, _, _, _, _, _, _, _, f, _⟩ := copyInto_doc_gen w hs gok hl (VOK_at ws hls) (src_fuel_ok ws hls) hnd
  intro x hx hxF
  have := f x hx hxF
  rw [layoutAt_nil_of_scalar w hl (by rw [hnull]; exact fun h => h)] at this
  cases this

/-- DEEP COPY, success case, for a source whose doubles are stored canonically (`DblCanon`: always the case for values
    stored by `setArg` or by a deserializer): the value at `l` IS the source value, `abs d' = absWith d F l (src.toVal sv)`. -/
theorem copyInto_exact {d src : Doc} {F Fs : Forest} {l ls : Loc}
    (w : WFG d F) (hs : StrOK d (d.strRefs F)) (gok : PL.GeoOK d.g) (hl : isLoc F l)
    (ws : WFG src Fs) (hls : isLoc Fs ls) (hnd : NoDupKeys (src.toVal (src.get ls)))
    (hcanon : DblCanon (src.toVal (src.get ls)))
    (hok : (copyInto d l src (src.get ls)).overflowed = false) :
    WFG (copyInto d l src (src.get ls)) (copyLayout d F l src (src.get ls)) ∧
    StrOK (copyInto d l src (src.get ls)) ((copyInto d l src (src.get ls)).strRefs (copyLayout d F l src (src.get ls))) ∧
    (copyInto d l src (src.get ls)).toVal ((copyInto d l src (src.get ls)).get l) = src.toVal (src.get ls) ∧
    abs (copyInto d l src (src.get ls)) = absWith d F l (src.toVal (src.get ls)) := by
  obtain ⟨a, b, _, c, e, _⟩ := copyInto_refines w hs gok hl ws hls hnd hok
  rw [copyVal_of_canon _ hcanon] at c e
  exact ⟨a, b, c, e⟩

/-- The source document is not modified: it is an argument of the copy, not part of its result (by construction of the
    model: a document is a value). -/
theorem copyInto_source_untouched (d : Doc) (l : Loc) (src : Doc) (sv : VData) :
    (fun (_ : Doc) => src) (copyInto d l src sv) = src := rfl

/-- FRAME for the copy (success or not): every other reachable location `l'` that lies outside the subtree cleared at `l`
    and whose own subtree contains neither `l` nor anything of that subtree holds the same cell content and designates
    exactly the same value afterwards. -/
theorem copyInto_frame {d src : Doc} {F Fs : Forest} {l ls l' : Loc}
    (w : WFG d F) (hs : StrOK d (d.strRefs F)) (gok : PL.GeoOK d.g) (hl : isLoc F l)
    (ws : WFG src Fs) (hls : isLoc Fs ls) (hnd : NoDupKeys (src.toVal (src.get ls)))
    (hl' : isLoc F l') (hne : l' ≠ l) (hout : ∀ j, l' = .slot j → j ∉ (layoutAt F l).ids)
    (hdisj : ∀ x ∈ (layoutAt F l').ids, x ∉ (layoutAt F l).ids ∧ Loc.slot x ≠ l) :
    (copyInto d l src (src.get ls)).get l' = d.get l' ∧
    (copyInto d l src (src.get ls)).toVal ((copyInto d l src (src.get ls)).get l') = d.toVal (d.get l') := by
  obtain ⟨_, _, _, _, _, _, _, _, _, _, _, k⟩ := copyInto_doc_gen w hs gok hl (VOK_at ws hls) (src_fuel_ok ws hls) hnd
  exact k.toVal w hl' hne hout hdisj

/-- SAME DOCUMENT: `d[l].set(d[ls])`. The model reads the source from the original `d` throughout (a snapshot taken before
    the target is cleared), so this is `copyInto_refines` with `src := d`: NO non-overlap hypothesis is needed for the
    value written at `l` (the source may even lie inside the subtree that the copy clears at `l`, or be `l` itself). If
    the source location lies outside what the copy touches, it still designates its value afterwards: in the result,
    `l` and `ls` designate equal values laid out over disjoint slots. -/
theorem copyInto_same_doc {d : Doc} {F : Forest} {l ls : Loc}
    (w : WFG d F) (hs : StrOK d (d.strRefs F)) (gok : PL.GeoOK d.g) (hl : isLoc F l)
    (hls : isLoc F ls) (hnd : NoDupKeys (d.toVal (d.get ls)))
    (hok : (copyInto d l d (d.get ls)).overflowed = false) :
    WFG (copyInto d l d (d.get ls)) (copyLayout d F l d (d.get ls)) ∧
    StrOK (copyInto d l d (d.get ls)) ((copyInto d l d (d.get ls)).strRefs (copyLayout d F l d (d.get ls))) ∧
    (copyInto d l d (d.get ls)).toVal ((copyInto d l d (d.get ls)).get l) = copyVal (d.toVal (d.get ls)) ∧
    abs (copyInto d l d (d.get ls)) = absWith d F l (copyVal (d.toVal (d.get ls))) ∧
    (ls ≠ l → (∀ j, ls = .slot j → j ∉ (layoutAt F l).ids) →
      (∀ x ∈ (layoutAt F ls).ids, x ∉ (layoutAt F l).ids ∧ Loc.slot x ≠ l) →
      (copyInto d l d (d.get ls)).toVal ((copyInto d l d (d.get ls)).get ls) = d.toVal (d.get ls) ∧
      ∀ x ∈ ((copyInto d l d (d.get ls)).lay ((copyInto d l d (d.get ls)).get l)).ids, x ∉ (layoutAt F ls).ids) := by
  obtain ⟨a, b, _, c, e, f, _⟩ := copyInto_refines w hs gok hl w hls hnd hok
  refine ⟨a, b, c, e, fun hne hout hdisj => ⟨(copyInto_frame w hs gok hl w hls hnd hls hne hout hdisj).2, ?_⟩⟩
  intro x hx m
  exact (hdisj x m).1 (f x hx (layoutAt_ids_sub F ls x m))

/-! ## History machine with `copy` -/

/-- the operations of `C04.Op`, plus the deep copy inside the document and from another document -/
inductive OpC
  | base (op : Op)
  | copy (l ls : Loc)                                   -- `d[l].set(d[ls])`
  | copyFrom (l : Loc) (src : Doc) (Fs : Forest) (ls : Loc)   -- `d[l].set(src[ls])`

def OpC.run (d : Doc) : OpC → Doc
  | .base op => op.run d
  | .copy l ls => copyInto d l d (d.get ls)
  | .copyFrom l src _ ls => copyInto d l src (src.get ls)

/-- source value and source document of a copy operation -/
def OpC.Valid (d : Doc) (F : Forest) : OpC → Prop
  | .base op => op.Valid d F
  | .copy l ls => isLoc F l ∧ isLoc F ls ∧ NoDupKeys (d.toVal (d.get ls))
  | .copyFrom l src Fs ls =>
    isLoc F l ∧ WFG src Fs ∧ isLoc Fs ls ∧ NoDupKeys (src.toVal (src.get ls))

def OpC.layout (d : Doc) (F : Forest) : OpC → Forest
  | .base op => op.layout d F
  | .copy l ls => copyLayout d F l d (d.get ls)
  | .copyFrom l src _ ls => copyLayout d F l src (src.get ls)

/-- the value a copy leaves at its target: the complete copy unless the result is flagged `overflowed`; then what is
    there (a `PartialCopy` of it, `C05.copy_fail_safe`) -/
def copyOutcome (d' : Doc) (l : Loc) (full : Val) : Val :=
  if d'.overflowed then d'.toVal (d'.get l) else full

/-- the list-level machine -/
def OpC.spec (d : Doc) (F : Forest) : OpC → Val
  | .base op => op.spec d F
  | .copy l ls => absWith d F l (copyOutcome (copyInto d l d (d.get ls)) l (copyVal (d.toVal (d.get ls))))
  | .copyFrom l src _ ls =>
    absWith d F l (copyOutcome (copyInto d l src (src.get ls)) l (copyVal (src.toVal (src.get ls))))

theorem copy_step {d src : Doc} {F Fs : Forest} {l ls : Loc}
    (w : WFG d F) (hs : StrOK d (d.strRefs F)) (gok : PL.GeoOK d.g) (hl : isLoc F l)
    (ws : WFG src Fs) (hls : isLoc Fs ls) (hnd : NoDupKeys (src.toVal (src.get ls))) :
    WFG (copyInto d l src (src.get ls)) (copyLayout d F l src (src.get ls)) ∧
    StrOK (copyInto d l src (src.get ls)) ((copyInto d l src (src.get ls)).strRefs (copyLayout d F l src (src.get ls))) ∧
    (copyInto d l src (src.get ls)).g = d.g ∧
    abs (copyInto d l src (src.get ls)) =
      absWith d F l (copyOutcome (copyInto d l src (src.get ls)) l (copyVal (src.toVal (src.get ls)))) := by
  obtain ⟨a, b, g, c, _, e, _⟩ := copyInto_doc_gen w hs gok hl (VOK_at ws hls) (src_fuel_ok ws hls) hnd
  refine ⟨a, b, g, ?_⟩
  rw [c, copyOutcome]
  cases h : (copyInto d l src (src.get ls)).overflowed with
  | true => rfl
  | false => simp only [Bool.false_eq_true, if_false, e h]

/-- one step: the invariant is kept, the geometry is kept, and the abstraction follows the list-level machine -/
theorem stepC_refines {d : Doc} {F : Forest} {op : OpC} (w : WFG d F) (hs : StrOK d (d.strRefs F))
    (gok : PL.GeoOK d.g) (hv : op.Valid d F) :
    WFG (op.run d) (op.layout d F) ∧ StrOK (op.run d) ((op.run d).strRefs (op.layout d F)) ∧
    (op.run d).g = d.g ∧ abs (op.run d) = op.spec d F := by
  cases op with
  | base op => exact step_refines w hs gok hv
  | copy l ls =>
    obtain ⟨hl, hls, hnd⟩ := hv
    exact copy_step w hs gok hl w hls hnd
  | copyFrom l src Fs ls =>
    obtain ⟨hl, ws, hls, hnd⟩ := hv
    exact copy_step w hs gok hl ws hls hnd

/-- `HistC d F d' F'`: `d'` (laid out as `F'`) is reached from `d` (laid out as `F`) by a sequence of valid operations -/
inductive HistC : Doc → Forest → Doc → Forest → Prop
  | nil (d : Doc) (F : Forest) : HistC d F d F
  | cons {d : Doc} {F : Forest} {d' : Doc} {F' : Forest} (op : OpC) :
      op.Valid d F → HistC (op.run d) (op.layout d F) d' F' → HistC d F d' F'

/-- Every history of valid operations (including deep copies, whether or not their allocations succeed) from a
    well-formed document ends in a well-formed document over the same geometry. -/
theorem historyC_refines {d d' : Doc} {F F' : Forest} (h : HistC d F d' F') :
    WFG d F → StrOK d (d.strRefs F) → PL.GeoOK d.g →
    WFG d' F' ∧ StrOK d' (d'.strRefs F') ∧ d'.g = d.g := by
  induction h with
  | nil d F => intro w hs _; exact ⟨w, hs, rfl⟩
  | cons op hv _ ih =>
    intro w hs gok
    obtain ⟨a, b, c, _⟩ := stepC_refines w hs gok hv
    obtain ⟨x, y, z⟩ := ih a b (by rw [c]; exact gok)
    exact ⟨x, y, by rw [z, c]⟩

/-- the abstract trace of a history: the successive abstract documents are those of the list-level machine -/
theorem historyC_trace {d d' : Doc} {F F' : Forest} (h : HistC d F d' F') :
    WFG d F → StrOK d (d.strRefs F) → PL.GeoOK d.g →
    ∀ (op : OpC), op.Valid d' F' → abs (op.run d') = op.spec d' F' := by
  intro w hs gok op hv
  obtain ⟨a, b, c⟩ := historyC_refines h w hs gok
  exact (stepC_refines a b (by rw [c]; exact gok) hv).2.2.2

end C04

/-! ## Non-vacuity -/
namespace C04.ExC
open DL C04.Ex
open JD (Byte Val)

deriving instance DecidableEq for Forest

/-- an empty document (root null, nothing allocated) -/
def z0 : Doc := { g := g0, alloc := 1, pl := PL.init g0 }

theorem wz0 : WFG z0 .nil := by
  refine ⟨rfl, List.nodup_nil, fun i hi => (by cases hi), PL.init_inv gok [], fun i hi => (by cases hi), ?_⟩
  intro l hl e he
  rcases mem_holders.1 hl with h | ⟨j, hj, _⟩
  · subst h; cases he
  · cases hj
theorem sz0 : StrOK z0 (z0.strRefs .nil) := ⟨by decide +kernel, by decide +kernel, by decide +kernel, by decide +kernel⟩

theorem e4_val : e4.toVal (e4.get .root) = .arr [.str hi] := valEq_sound _ _ (by decide +kernel)
theorem e4_nodup : NoDupKeys (e4.toVal (e4.get .root)) := by
  rw [e4_val]; simp [NoDupKeys, NoDupKeysL]

/-- the document `["hi"]` (copied string) copied from the document `e4` into the root of the empty document `z0` -/
def cA : Doc := copyInto z0 .root e4 (e4.get .root)

/-- `copyInto_refines` and `copyInto_exact` apply (two distinct documents; an array holding a copied string): the result
    is well-formed, its layout is one fresh slot, and it is the document `["hi"]` -/
example : WFG cA (.cons none 0 .nil .nil) ∧ abs cA = .arr [.str hi] ∧ cA.toVal (cA.get .root) = e4.toVal (e4.get .root) := by
  have h := copyInto_refines (l := .root) (ls := .root) wz0 sz0 gok trivial w4 trivial e4_nodup (by decide +kernel)
  have hx := copyInto_exact (l := .root) (ls := .root) wz0 sz0 gok trivial w4 trivial e4_nodup
    (by rw [e4_val]; simp [DblCanon, DblCanonL]) (by decide +kernel)
  have hl : copyLayout z0 .nil .root e4 (e4.get .root) = .cons none 0 .nil .nil := by decide +kernel
  rw [hl] at h
  exact ⟨h.1, by show abs (copyInto z0 .root e4 (e4.get .root)) = _; rw [hx.2.2.2, e4_val]; rfl, hx.2.2.1⟩

/-- a history with a copy from another document: `root.set(e4.root)` on the empty document, then `root.clear()`; both
    steps are valid, the final document is well-formed (`historyC_refines`) -/
example : ∃ d' F', HistC z0 .nil d' F' ∧ WFG d' F' ∧ StrOK d' (d'.strRefs F') := by
  have h : HistC z0 .nil _ _ :=
    HistC.cons (.copyFrom .root e4 F3 .root) ⟨trivial, w4, trivial, e4_nodup⟩
      (HistC.cons (.base (.clear .root)) trivial (HistC.nil _ _))
  exact ⟨_, _, h, (historyC_refines h wz0 sz0 gok).1, (historyC_refines h wz0 sz0 gok).2.1⟩

/-- `stepC_refines` on the copy step: the abstract document becomes `["hi"]` -/
example : abs (OpC.run z0 (.copyFrom .root e4 F3 .root)) = .arr [.str hi] := by
  have h := (stepC_refines (op := .copyFrom .root e4 F3 .root) wz0 sz0 gok ⟨trivial, w4, trivial, e4_nodup⟩).2.2.2
  rw [h]
  exact valEq_sound _ _ (by decide +kernel)

/-! A document with TWO slots, `[true, null]`, built with `addElement` and `setArg`; its facts are derived from the refinement
    theorems (the kernel cannot evaluate `Std.HashMap` lookups of keys other than 0: `USize` arithmetic is opaque). -/

/-- `e3 = [null]` after a second `add()`: `[null, null]`, slots 0 and 1 -/
def e5 : Doc := (e3.addElement .root).2
def F5 : Forest := .cons none 0 .nil (.cons none 1 .nil .nil)
def d5 : Doc := e3.allocVariant.2

theorem al5 : e3.allocVariant = (some 1, d5) := Prod.ext (by decide +kernel) rfl
theorem e5_eq : e5 = d5.appendOne .root 1 := by
  have := (addElement_refines (l := .root) (h := 0) (t := 0) w3.1 s3 gok trivial (by decide +kernel) al5).1
  simp only [e5, this]
theorem w5 : WFG e5 F5 ∧ StrOK e5 (e5.strRefs F5) := by
  obtain ⟨_, a, b, _⟩ := addElement_refines (l := .root) (h := 0) (t := 0) w3.1 s3 gok trivial (by decide +kernel) al5
  exact ⟨a, b⟩
theorem d5_root : d5.get .root = .arr 0 0 := by decide +kernel
theorem e5_cells : e5.get (.slot 0) = .null ∧ e5.get (.slot 1) = .null ∧ e5.overflowed = false ∧
    ∃ h t, e5.get .root = .arr h t := by
  obtain ⟨hg, hov, hc1, hco, _, _, _⟩ := allocVariant_some gok w3.1.pool al5
  obtain ⟨_, _, _, _, hget, hco', hct, _, _⟩ := appendOne_cells (id := 1) d5_root (by intro h; cases h)
  have hv0 : d5.isVar 0 := by
    have : d5.cell 0 = e3.cell 0 := hco 0 (by decide)
    exact isVar_congr this (by simp only [Doc.null, hg.g]) (w3.1.isVar 0 (by simp [Forest.ids, Forest.keyL]))
  have h0 : d5.get (.slot 0) = .null := by
    rw [get_of_cell (hco 0 (by decide))]; decide +kernel
  rw [e5_eq]
  refine ⟨?_, ?_, ?_, _, _, hget⟩
  · rw [get_of_var (hct (by decide +kernel) hv0)]; exact h0
  · rw [get_of_cell (hco' 1 (by intro h; cases h) (fun _ => by decide))]; exact get_of_var hc1
  · rw [appendOne_get d5_root]
    split
    · rw [set_overflowed, setNext_overflowed, hov]; decide +kernel
    · rw [set_overflowed, hov]; decide +kernel

/-- `[true, null]` -/
def e6 : Doc := (e5.setArg (.slot 0) (.bool true)).2
theorem loc5_0 : isLoc F5 (.slot 0) := by simp [isLoc, F5, Forest.locs]
theorem loc5_1 : isLoc F5 (.slot 1) := by simp [isLoc, F5, Forest.locs]
theorem g5 : e5.g = e3.g := by rw [e5_eq, appendOne_g]; exact allocVariant_g e3
theorem gok5 : PL.GeoOK e5.g := by rw [g5]; exact gok
theorem w6 : WFG e6 F5 ∧ StrOK e6 (e6.strRefs F5) := by
  obtain ⟨a, b, _⟩ := set_scalar_wf (a := .bool true) w5.1 w5.2 loc5_0 e5_cells.1 gok5 rfl
  exact ⟨a, b⟩
theorem e6_cells : e6.get (.slot 0) = .bool true ∧ e6.get (.slot 1) = .null ∧ e6.overflowed = false := by
  refine ⟨?_, ?_, ?_⟩
  · show (e5.set (.slot 0) (.bool true)).get (.slot 0) = .bool true
    exact get_set_self _ _ _
  · show (e5.set (.slot 0) (.bool true)).get (.slot 1) = .null
    rw [get_set_ne (by intro h; cases h)]; exact e5_cells.2.1
  · show (e5.set (.slot 0) (.bool true)).overflowed = false
    rw [set_overflowed]; exact e5_cells.2.2.1
theorem gok6 : PL.GeoOK e6.g := by
  rw [show e6.g = e5.g from set_g _ _ _]; exact gok5

theorem lay5_0 : layoutAt F5 (.slot 0) = .nil := by decide +kernel
theorem lay5_1 : layoutAt F5 (.slot 1) = .nil := by decide +kernel

/-- `copyInto_same_doc` applies: in `[true, null]`, `d[1].set(d[0])`. All hypotheses hold, the result is not flagged, element 1
    now holds `true`, element 0 (the source) still does, and the layout did not change (a scalar needs no slot). -/
example : WFG (copyInto e6 (.slot 1) e6 (e6.get (.slot 0))) F5 ∧
    (copyInto e6 (.slot 1) e6 (e6.get (.slot 0))).toVal ((copyInto e6 (.slot 1) e6 (e6.get (.slot 0))).get (.slot 1)) = .bool true ∧
    (copyInto e6 (.slot 1) e6 (e6.get (.slot 0))).toVal ((copyInto e6 (.slot 1) e6 (e6.get (.slot 0))).get (.slot 0)) = .bool true ∧
    abs (copyInto e6 (.slot 1) e6 (e6.get (.slot 0))) = absWith e6 F5 (.slot 1) (.bool true) := by
  have hsv : e6.get (.slot 0) = .bool true := e6_cells.1
  have hval : e6.toVal (e6.get (.slot 0)) = .bool true := by rw [hsv]; rfl
  have hrun : copyInto e6 (.slot 1) e6 (.bool true) = (e6.clearV (.slot 1)).set (.slot 1) (.bool true) := rfl
  have hok : (copyInto e6 (.slot 1) e6 (e6.get (.slot 0))).overflowed = false := by
    rw [hsv, hrun, set_overflowed, clearV_overflowed]; exact e6_cells.2.2
  obtain ⟨a, _, c, e, f⟩ := copyInto_same_doc (l := .slot 1) (ls := .slot 0) w6.1 w6.2 gok6 loc5_1 loc5_0
    (by rw [hval]; trivial) hok
  have hlay : copyLayout e6 F5 (.slot 1) e6 (e6.get (.slot 0)) = F5 := by
    have hg : (copyInto e6 (.slot 1) e6 (e6.get (.slot 0))).get (.slot 1) = .bool true := by
      rw [hsv, hrun]; exact get_set_self _ _ _
    simp only [copyLayout, hg]
    rfl
  rw [hlay] at a
  rw [hval] at c e f
  refine ⟨a, c, ?_, e⟩
  exact (f (by intro h; cases h) (fun j hj => by rw [lay5_1]; exact fun h => by cases h)
    (fun x hx => by rw [lay5_0] at hx; cases hx)).1

/-- `copyInto_frame` applies to the same two-slot document with ANOTHER document as source (`["hi"]` copied into
    element 1 of `[true, null]`, whether or not its allocations succeed): element 0 is untouched -/
example : (copyInto e6 (.slot 1) e4 (e4.get .root)).toVal ((copyInto e6 (.slot 1) e4 (e4.get .root)).get (.slot 0)) =
    .bool true := by
  have h := (copyInto_frame (l := .slot 1) (ls := .root) (l' := .slot 0) w6.1 w6.2 gok6 loc5_1 w4 trivial
    e4_nodup loc5_0 (by intro h; cases h) (fun j hj => by rw [lay5_1]; exact fun h => by cases h)
    (fun x hx => by rw [lay5_0] at hx; cases hx)).2
  rw [h, e6_cells.1]; rfl

/-- `copyInto_same_doc` applies with OVERLAP: `d[0].set(d[0])` on `[true, null]` (source = target: the model clears the
    target, then copies from the snapshot of the source): element 0 still holds `true` -/
example : (copyInto e6 (.slot 0) e6 (e6.get (.slot 0))).toVal ((copyInto e6 (.slot 0) e6 (e6.get (.slot 0))).get (.slot 0)) =
    .bool true := by
  have hsv : e6.get (.slot 0) = .bool true := e6_cells.1
  have hval : e6.toVal (e6.get (.slot 0)) = .bool true := by rw [hsv]; rfl
  have hrun : copyInto e6 (.slot 0) e6 (.bool true) = (e6.clearV (.slot 0)).set (.slot 0) (.bool true) := rfl
  have hok : (copyInto e6 (.slot 0) e6 (e6.get (.slot 0))).overflowed = false := by
    rw [hsv, hrun, set_overflowed, clearV_overflowed]; exact e6_cells.2.2
  obtain ⟨_, _, c, _⟩ := copyInto_same_doc (l := .slot 0) (ls := .slot 0) w6.1 w6.2 gok6 loc5_0 loc5_0
    (by rw [hval]; trivial) hok
  rw [c, hval]; rfl

/-- `copyInto_same_doc` applies with TOTAL OVERLAP on a collection: `root.set(root)` on `["hi"]`. The model clears the root
    (slot 0 and the string node are released), then rebuilds it from the snapshot of the source: the document is again
    `["hi"]`, over the recycled slot 0, well-formed -/
example : WFG (copyInto e4 .root e4 (e4.get .root)) (.cons none 0 .nil .nil) ∧
    abs (copyInto e4 .root e4 (e4.get .root)) = .arr [.str hi] := by
  obtain ⟨a, _, _, e, _⟩ := copyInto_same_doc (l := .root) (ls := .root) w4 s4 gok trivial trivial e4_nodup
    (by decide +kernel)
  have hl : copyLayout e4 F3 .root e4 (e4.get .root) = .cons none 0 .nil .nil := by decide +kernel
  rw [hl] at a
  exact ⟨a, by rw [e, e4_val]; rfl⟩

/-- `copyInto_refines` applies to a target that holds a value: `["hi"]` is overwritten by a copy of `[null]` (document `e3`);
    the old element slot is recycled -/
example : abs (copyInto e4 .root e3 (e3.get .root)) = .arr [.null] := by
  have hv3 : e3.toVal (e3.get .root) = .arr [.null] := valEq_sound _ _ (by decide +kernel)
  obtain ⟨_, _, _, _, e, _⟩ := copyInto_refines (l := .root) (ls := .root) w4 s4 gok trivial w3.1 trivial
    (by rw [hv3]; simp [NoDupKeys, NoDupKeysL]) (by decide +kernel)
  rw [e, hv3]; rfl

/-! Why `copyVal` and not the identity: a document (reachable only by writing the representation directly, never through
    `setArg`) whose root is the double 1.0 stored in an 8-byte extension slot. It is well-formed; its copy stores the
    float 1.0. -/
def one64 : Nat := 0x3FF0000000000000
def q0 : Doc := (z0.allocExt one64).2.set .root (.f64 0)
theorem alq : PL.allocSlot z0.g z0.pl = (some 0, q0.pl) := by decide +kernel
theorem wq0 : WFG q0 .nil := by
  obtain ⟨_, _, hlv, hinv⟩ := C19.alloc_fresh gok wz0.pool alq
  refine ⟨rfl, List.nodup_nil, fun i hi => (by cases hi), hinv, fun i hi => (by cases hi), ?_⟩
  intro l hl e he
  rcases mem_holders.1 hl with h | ⟨j, hj, _⟩
  · subst h
    have he0 : e = 0 := by simpa [extOfV, Doc.get, q0, Doc.set] using he
    subst he0
    refine ⟨⟨one64, by decide +kernel⟩, (hlv 0).2 (Or.inr rfl), ?_⟩
    intro l' hl' _
    rcases mem_holders.1 hl' with h' | ⟨j, hj, _⟩
    · exact h'
    · cases hj
  · cases hj
example : q0.toVal (q0.get .root) = .num (.f64 one64) := valEq_sound _ _ (by decide +kernel)
/-- the copy is well-formed, not flagged, and holds the float `0x3F800000`: `copyVal (1.0 : double) = (1.0 : float)` -/
example : (copyInto z0 .root q0 (q0.get .root)).toVal ((copyInto z0 .root q0 (q0.get .root)).get .root) =
    .num (.f32 0x3F800000) := by
  obtain ⟨_, _, _, c, _⟩ := copyInto_refines (l := .root) (ls := .root) wz0 sz0 gok trivial wq0 trivial
    (by rw [show q0.toVal (q0.get .root) = .num (.f64 one64) from valEq_sound _ _ (by decide +kernel)]; trivial)
    (by decide +kernel)
  rw [c]
  exact valEq_sound _ _ (by decide +kernel)

end C04.ExC
