/- C04 / C03 / C05 for deserialization INTO A VALUE INSIDE A DOCUMENT: `deserializeJson(JsonVariant dst, …)` and
   `deserializeMsgPack(JsonVariant dst, …)` - `JDD.runAt` (AJ/Model/JDD.lean) and `MDD.runAt` (AJ/Model/MDD.lean): the
   destination `l` (the root, an array element, a member value) is cleared, the input is parsed into it, the deserializer
   object is destroyed (a kept buffer is released); the pools are not shrunk.
   For every well-formed document (`WFG d F`, `StrOK`), every location `l` of its layout, every input, nesting limit,
   configuration and every allocator failure schedule:
   * the document stays WELL FORMED, laid out as `F` with the layout below `l` replaced;
   * FRAME: every slot of `F` outside `l` and outside the old subtree of `l` keeps its cell and its value
     (`DL.Good`); hence (`C04.into_frame_toVal`) every location whose subtree is disjoint from `l`'s designates the same
     value, and the WHOLE document denotes the old value with the value at `l` replaced by the new value at `l`
     (`abs d' = absWith d F l (d'.toVal (d'.get l))`);
   * the CODE tells about allocation failures: `Ok` only if the overflow flag is the one before, `NoMemory` only if it is
     raised (MessagePack: raised exactly when `NoMemory`, unless it was raised before); the flag is sticky;
   * LEDGER: a balanced allocator log stays balanced.
   These are corollaries of `JDD.parse_all` / `MDD.mp_parse_all`, stated for an arbitrary context `Ctx d0 F l`, and of
   the `clearV` lemmas of AJ/Lemmas/DocCopy.lean / DocReuse.lean. -/
import AJ.Lemmas.MddInv
import AJ.Props.C03MpDoc
import AJ.Props.C05Deser
namespace C04
open DL
open JD (Byte Code)
open JDD (Ctx Built Fx PlEq LBd)

/-- what a deserialization into the location `l` of the document `d` (laid out as `F`) guarantees of the result `d'` -/
structure IntoOK (d : Doc) (F : Forest) (l : Loc) (d' : Doc) : Prop where
  /-- well formed: the layout is `F` with the layout below `l` replaced -/
  wf : ∃ s, WFG d' (replaceAt F l s) ∧ StrOK d' (d'.strRefs (replaceAt F l s))
  g : d'.g = d.g
  /-- a destination other than the root leaves the root value alone -/
  root : l ≠ .root → d'.root = d.root
  /-- every slot outside `l` and outside the subtree that was below `l` keeps its cell; the scalar / string stored there
      reads the same -/
  frame : ∀ j ∈ F.ids, Loc.slot j ≠ l → j ∉ (layoutAt F l).ids → Good d d' j
  /-- the document denotes the old value with the value at `l` replaced by the new value at `l` -/
  abs : abs d' = absWith d F l (d'.toVal (d'.get l))

/-- the invariant `Built`, started from the cleared destination, read as a statement about the original document -/
theorem into_of_built {d d' : Doc} {F s : Forest} {l : Loc} (w : WFG d F) (hs : StrOK d (d.strRefs F)) (hl : isLoc F l)
    (B : Built (d.clearV l) (replaceAt F l .nil) l d' s) : IntoOK d F l d' := by
  obtain ⟨_, hn0, hsl0, hgood0, _⟩ := clearV_good w hs hl
  have hg0 := clearV_g w hs hl
  have w' : WFG d' (replaceAt F l s) := by have := B.wf; rwa [replaceAt_replaceAt] at this
  have s' : StrOK d' (d'.strRefs (replaceAt F l s)) := by have := B.str; rwa [replaceAt_replaceAt] at this
  have hg : d'.g = d.g := B.g.trans hg0
  have hn : d'.null = d.null := by simp only [Doc.null, hg]
  have hn1 : d'.null = (d.clearV l).null := by simp only [Doc.null, B.g]
  have hgood : ∀ j ∈ F.ids, Loc.slot j ≠ l → j ∉ (layoutAt F l).ids → Good d d' j := by
    intro j hj hjl hjs
    obtain ⟨c0, sc0⟩ := hgood0 j hj hjl hjs
    have hj1 : j ∈ (replaceAt F l .nil).ids := (mem_ids_cleared w.nodup hl j).2 ⟨hj, hjs⟩
    have c1 := B.cells j hj1 hjl
    have g1 : (d.clearV l).get (.slot j) = d.get (.slot j) := get_of_cell c0
    refine ⟨c1.trans c0, ?_⟩
    have := B.scal j hj1 hjl
    rw [g1] at this
    exact this.trans sc0
  have hroot : l ≠ .root → d'.root = d.root := by
    intro hne
    cases l with
    | root => exact absurd rfl hne
    | slot i => exact (B.root hne).trans (hsl0 i rfl).2
  have hl' : isLoc (replaceAt F l s) l := isLoc_replaceAt_self s hl
  have hlay : layoutAt (replaceAt F l s) l = s := JDD.layoutAt_replaceAt s hl
  have hv' : VOK d' (d'.get l) s := by have := VOK_at w' hl'; rwa [hlay] at this
  have hslot : ∀ i, l = .slot i → d'.cell i = .var (d'.get l) (d.nextOf i) ∧ d'.root = d.root := by
    intro i e
    subst e
    have hi : i ∈ (replaceAt F (.slot i) s).ids :=
      (mem_ids_replaceAt s w.nodup hl i).2 (Or.inl ⟨isLoc_ids hl, self_notin_layoutAt w.nodup i⟩)
    have hv : d'.cell i = .var (d'.get (.slot i)) (d'.nextOf i) := w'.isVar i hi
    rw [B.next i rfl, (hsl0 i rfl).1] at hv
    exact ⟨hv, hroot (fun e => by cases e)⟩
  obtain ⟨_, h2⟩ := lift_at (v' := d'.get l) (s' := s) w hl hn rfl hslot hv' hgood
  have ht : d'.toVal (d'.get l) = d'.valOf (d'.get l) s := by rw [toVal_at w' hl', hlay]
  exact ⟨⟨s, w', s'⟩, hg, hroot, hgood, by rw [abs_eq w', h2, ht]⟩

/-- FRAME on values: a slot `j` of the layout, other than the destination, outside the old subtree of the destination,
    and whose own subtree contains neither the destination nor anything of its old subtree, designates exactly the same
    value after the deserialization. -/
theorem into_frame_toVal {d d' : Doc} {F : Forest} {l : Loc} {j : Nat} (w : WFG d F) (I : IntoOK d F l d')
    (hj : isLoc F (.slot j)) (hjl : Loc.slot j ≠ l) (hjs : j ∉ (layoutAt F l).ids)
    (hdisj : ∀ x ∈ (layoutAt F (.slot j)).ids, x ∉ (layoutAt F l).ids ∧ Loc.slot x ≠ l) :
    d'.toVal (d'.get (.slot j)) = d.toVal (d.get (.slot j)) := by
  have hsF := layoutAt_ids_sub F (.slot j)
  have hn : d'.null = d.null := by simp only [Doc.null, I.g]
  have hgj : Good d d' j := I.frame j (isLoc_ids hj) hjl hjs
  have hgood : ∀ x ∈ (layoutAt F (.slot j)).ids, Good d d' x := fun x hx =>
    I.frame x (hsF x hx) (hdisj x hx).2 (hdisj x hx).1
  have hget : d'.get (.slot j) = d.get (.slot j) := get_of_cell hgj.1
  have hvok : VOK d' (d.get (.slot j)) (layoutAt F (.slot j)) := VOK_congr (agree_of_good hn hgood).1 (VOK_at w hj)
  have hlen : (layoutAt F (.slot j)).ids.length < d.fuel :=
    Nat.lt_of_le_of_lt (List.Nodup.length_le_of_subset (layoutAt_nodup w.nodup hj) (fun x hx => hsF x hx)) w.fuel_ok
  have hfu : d'.fuel = d.fuel := by simp only [Doc.fuel, I.g]
  rw [hget, toVal_eq hvok (by rw [hfu]; exact hlen), toVal_at w hj]
  simp only [Doc.valOf]
  obtain ⟨a, sa⟩ := agree_of_good hn hgood
  rw [vals_congr noOv _ a sa, mkVal_congr]
  exact hgj.2

/-! ## The end of `runAt`: the deserializer is destroyed -/

/-- a kept buffer is released -/
def dropBuf (xd : Doc) (xb : Option Nat) : Doc :=
  match xb with
  | some _ => { xd with pl := xd.pl.dealloc }
  | none => xd

theorem dropBuf_pleq (xd : Doc) (xb : Option Nat) : PlEq xd (dropBuf xd xb) ∧ (dropBuf xd xb).overflowed = xd.overflowed := by
  unfold dropBuf
  cases xb with
  | none => exact ⟨PlEq.refl _, rfl⟩
  | some c => exact ⟨⟨rfl, rfl, rfl, rfl, rfl, rfl, rfl, rfl, rfl, rfl⟩, rfl⟩

theorem dropBuf_bal {xd : Doc} {xb : Option Nat} (h : LBd xd xb) : Bal (dropBuf xd xb) := by
  unfold dropBuf
  unfold LBd at h
  unfold Bal
  cases xb with
  | none => simpa using h
  | some c =>
    show PL.net xd.pl.dealloc = _
    rw [JDD.dealloc_net, h]; simp

theorem bal_LBd {d : Doc} (h : Bal d) : LBd d none := by
  unfold Bal at h; unfold LBd; rw [h]; simp

/-- the context of a parse into the cleared destination -/
theorem ctx_cleared {d : Doc} {F : Forest} {l : Loc} (w : WFG d F) (hs : StrOK d (d.strRefs F)) (hl : isLoc F l)
    (gok : PL.GeoOK d.g) :
    Ctx (d.clearV l) (replaceAt F l .nil) l ∧ Built (d.clearV l) (replaceAt F l .nil) l (d.clearV l) .nil ∧
    (d.clearV l).get l = .null := by
  obtain ⟨w0, s0, _, _⟩ := clearV_spec w hs hl
  have C : Ctx (d.clearV l) (replaceAt F l .nil) l :=
    ⟨w0.nodup, isLoc_replaceAt_self .nil hl, JDD.layoutAt_replaceAt .nil hl, by rw [clearV_g w hs hl]; exact gok⟩
  exact ⟨C, JDD.built_start w0 s0 C, (clearV_good w hs hl).1⟩

/-- from the parser's result to the result of `runAt` -/
theorem into_finish {d : Doc} {F : Forest} {l : Loc} {xd : Doc} {xb : Option Nat} {c : Code} (w : WFG d F)
    (hs : StrOK d (d.strRefs F)) (hl : isLoc F l) (hB : ∃ s, Built (d.clearV l) (replaceAt F l .nil) l xd s)
    (fx : Fx (d.clearV l) none xd xb c) :
    IntoOK d F l (dropBuf xd xb) ∧
    (c = .ok → (dropBuf xd xb).overflowed = d.overflowed) ∧
    (c = .noMemory → (dropBuf xd xb).overflowed = true) ∧
    (d.overflowed = true → (dropBuf xd xb).overflowed = true) ∧
    (Bal d → Bal (dropBuf xd xb)) := by
  obtain ⟨s, B⟩ := hB
  obtain ⟨hpe, hov⟩ := dropBuf_pleq xd xb
  have h0 : (d.clearV l).overflowed = d.overflowed := clearV_overflowed d l
  refine ⟨into_of_built w hs hl (B.pleq hpe), fun e => ?_, fun e => ?_, fun e => ?_, fun hb => ?_⟩
  · rw [hov, fx.ok e, h0]
  · rw [hov]; exact fx.nomem e
  · rw [hov]; exact fx.ovs (by rw [h0]; exact e)
  · exact dropBuf_bal (fx.bal (bal_LBd (clearV_bal w hs hl hb)))

/-! ## MessagePack -/

/-- the state in which `MDD.runAt` stops parsing -/
def mp_stopAt (env : MD.Env) (limit : Nat) (d : Doc) (l : Loc) (input : List Byte) : Code × MDD.S × Bool :=
  MDD.parseVariant env (2 * input.length + 4) limit l { r := { unread := input }, d := d.clearV l }

theorem mp_runAt_eq (env : MD.Env) (limit : Nat) (d : Doc) (l : Loc) (input : List Byte) :
    MDD.runAt env limit d l input =
      (MDD.mp_finalCode (mp_stopAt env limit d l input).1 (mp_stopAt env limit d l input).2.2,
        dropBuf (mp_stopAt env limit d l input).2.1.d (mp_stopAt env limit d l input).2.1.b,
        (mp_stopAt env limit d l input).2.1.r.pos) := rfl

/-- `deserializeMsgPack(dst, …)` into a value `l` inside a well-formed document: well-formedness, frame, code against
    the overflow flag, ledger - for every input and every allocator failure schedule. -/
theorem mp_deser_into_value (env : MD.Env) (limit : Nat) (d : Doc) (F : Forest) (l : Loc) (input : List Byte)
    (w : WFG d F) (hs : StrOK d (d.strRefs F)) (hl : isLoc F l) (gok : PL.GeoOK d.g) :
    IntoOK d F l (MDD.runAt env limit d l input).2.1 ∧
    ((MDD.runAt env limit d l input).1 = .ok → (MDD.runAt env limit d l input).2.1.overflowed = d.overflowed) ∧
    ((MDD.runAt env limit d l input).1 = .noMemory → (MDD.runAt env limit d l input).2.1.overflowed = true) ∧
    (d.overflowed = true → (MDD.runAt env limit d l input).2.1.overflowed = true) ∧
    (Bal d → Bal (MDD.runAt env limit d l input).2.1) := by
  obtain ⟨C, B0, hn⟩ := ctx_cleared w hs hl gok
  have R := (MDD.mp_parse_all env (2 * input.length + 4)).1 limit l
    { r := { unread := input }, d := d.clearV l } (d.clearV l) (replaceAt F l .nil) C B0 hn
  obtain ⟨a, b, c, e, f⟩ := into_finish w hs hl R.built R.fx
  rw [mp_runAt_eq]
  exact ⟨a, fun h => b (MDD.mp_finalCode_ok h), fun h => c (MDD.mp_finalCode_nomem h), e, f⟩

/-- STRONGER, for MessagePack: any code but NoMemory leaves the overflow flag as it was; so, into a document whose flag
    is clear, the flag is raised exactly when the code is NoMemory -/
theorem mp_deser_into_value_nomemory_iff (env : MD.Env) (limit : Nat) (d : Doc) (F : Forest) (l : Loc) (input : List Byte)
    (w : WFG d F) (hs : StrOK d (d.strRefs F)) (hl : isLoc F l) (gok : PL.GeoOK d.g) :
    ((MDD.runAt env limit d l input).1 ≠ .noMemory → (MDD.runAt env limit d l input).2.1.overflowed = d.overflowed) ∧
    (d.overflowed = false →
      ((MDD.runAt env limit d l input).1 = .noMemory ↔ (MDD.runAt env limit d l input).2.1.overflowed = true)) := by
  obtain ⟨C, B0, hn⟩ := ctx_cleared w hs hl gok
  have R := (MDD.mp_parse_all env (2 * input.length + 4)).1 limit l
    { r := { unread := input }, d := d.clearV l } (d.clearV l) (replaceAt F l .nil) C B0 hn
  have h0 : (d.clearV l).overflowed = d.overflowed := clearV_overflowed d l
  have hq : (MDD.runAt env limit d l input).1 ≠ .noMemory →
      (MDD.runAt env limit d l input).2.1.overflowed = d.overflowed := by
    intro h
    rw [mp_runAt_eq] at h ⊢
    show (dropBuf _ _).overflowed = _
    rw [(dropBuf_pleq _ _).2]
    rcases MDD.mp_finalCode_ne_nomem h with hc | hf
    · exact (R.quiet hc).trans h0
    · have := MDD.found_false env _ limit l _ hf
      exact (R.quiet (by rw [this]; simp)).trans h0
  refine ⟨hq, fun hd => ⟨(mp_deser_into_value env limit d F l input w hs hl gok).2.2.1, fun ho => ?_⟩⟩
  by_cases hc : (MDD.runAt env limit d l input).1 = .noMemory
  · exact hc
  · rw [hq hc, hd] at ho; cases ho

/-! ## JSON -/

/-- the state in which `JDD.runAt` stops parsing -/
def stopAt (cfg : JD.Cfg) (limit : Nat) (d : Doc) (l : Loc) (input : List Byte) : Code × JDD.S :=
  JDD.parseVariant cfg (2 * input.length + 4) limit l { s := { l := { unread := input } }, d := d.clearV l }

/-- the code `JDD.runAt` reports: trailing garbage glued to a number is InvalidInput -/
def finalCodeAt (c : Code) (x : JDD.S) (l : Loc) : Code :=
  match c with
  | .ok => if x.s.l.cur != 0 && !JD.isWs x.s.l.cur && JDD.locIsNumber x.d l then .invalid else .ok
  | e => e

theorem runAt_eq (cfg : JD.Cfg) (limit : Nat) (d : Doc) (l : Loc) (input : List Byte) :
    JDD.runAt cfg limit d l input =
      (finalCodeAt (stopAt cfg limit d l input).1 (stopAt cfg limit d l input).2 l,
        dropBuf (stopAt cfg limit d l input).2.d (stopAt cfg limit d l input).2.b,
        (stopAt cfg limit d l input).2.s.l.pos) := rfl

theorem finalCodeAt_ok {c : Code} {x : JDD.S} {l : Loc} (h : finalCodeAt c x l = .ok) : c = .ok := by
  cases c <;> first | rfl | exact absurd h (by simp [finalCodeAt])

theorem finalCodeAt_nomem {c : Code} {x : JDD.S} {l : Loc} (h : finalCodeAt c x l = .noMemory) : c = .noMemory := by
  cases c with
  | ok =>
    simp only [finalCodeAt] at h
    split at h <;> cases h
  | noMemory => rfl
  | _ => exact absurd h (by simp [finalCodeAt])

/-- `deserializeJson(dst, …)` into a value `l` inside a well-formed document: well-formedness, frame, code against the
    overflow flag, ledger - for every input and every allocator failure schedule. -/
theorem deser_into_value (cfg : JD.Cfg) (limit : Nat) (d : Doc) (F : Forest) (l : Loc) (input : List Byte)
    (w : WFG d F) (hs : StrOK d (d.strRefs F)) (hl : isLoc F l) (gok : PL.GeoOK d.g) :
    IntoOK d F l (JDD.runAt cfg limit d l input).2.1 ∧
    ((JDD.runAt cfg limit d l input).1 = .ok → (JDD.runAt cfg limit d l input).2.1.overflowed = d.overflowed) ∧
    ((JDD.runAt cfg limit d l input).1 = .noMemory → (JDD.runAt cfg limit d l input).2.1.overflowed = true) ∧
    (d.overflowed = true → (JDD.runAt cfg limit d l input).2.1.overflowed = true) ∧
    (Bal d → Bal (JDD.runAt cfg limit d l input).2.1) := by
  obtain ⟨C, B0, hn⟩ := ctx_cleared w hs hl gok
  have R := (JDD.parse_all cfg (2 * input.length + 4)).1 limit l
    { s := { l := { unread := input } }, d := d.clearV l } (d.clearV l) (replaceAt F l .nil) C B0 hn
  obtain ⟨a, b, c, e, f⟩ := into_finish w hs hl R.built R.fx
  rw [runAt_eq]
  exact ⟨a, fun h => b (finalCodeAt_ok h), fun h => c (finalCodeAt_nomem h), e, f⟩

/-- corollaries in the shape of C03 / C05 (either deserializer): the result is a well-formed document; with a clear flag
    before, `Ok` means the flag is still clear and a raised flag means the code is not `Ok` -/
theorem deser_into_value_wf (cfg : JD.Cfg) (limit : Nat) (d : Doc) (F : Forest) (l : Loc) (input : List Byte)
    (w : WFG d F) (hs : StrOK d (d.strRefs F)) (hl : isLoc F l) (gok : PL.GeoOK d.g) :
    WF (JDD.runAt cfg limit d l input).2.1 := by
  obtain ⟨s, a, b⟩ := (deser_into_value cfg limit d F l input w hs hl gok).1.wf
  exact ⟨_, a, b⟩

theorem mp_deser_into_value_wf (env : MD.Env) (limit : Nat) (d : Doc) (F : Forest) (l : Loc) (input : List Byte)
    (w : WFG d F) (hs : StrOK d (d.strRefs F)) (hl : isLoc F l) (gok : PL.GeoOK d.g) :
    WF (MDD.runAt env limit d l input).2.1 := by
  obtain ⟨s, a, b⟩ := (mp_deser_into_value env limit d F l input w hs hl gok).1.wf
  exact ⟨_, a, b⟩

theorem deser_into_value_failure_reported (cfg : JD.Cfg) (limit : Nat) (d : Doc) (F : Forest) (l : Loc)
    (input : List Byte) (w : WFG d F) (hs : StrOK d (d.strRefs F)) (hl : isLoc F l) (gok : PL.GeoOK d.g)
    (h0 : d.overflowed = false) :
    ((JDD.runAt cfg limit d l input).1 = .ok → (JDD.runAt cfg limit d l input).2.1.overflowed = false) ∧
    ((JDD.runAt cfg limit d l input).1 = .noMemory → (JDD.runAt cfg limit d l input).2.1.overflowed = true) ∧
    ((JDD.runAt cfg limit d l input).2.1.overflowed = true → (JDD.runAt cfg limit d l input).1 ≠ .ok) := by
  obtain ⟨_, a, b, _⟩ := deser_into_value cfg limit d F l input w hs hl gok
  refine ⟨fun e => (a e).trans h0, b, fun ho e => ?_⟩
  rw [(a e).trans h0] at ho; cases ho

theorem mp_deser_into_value_failure_reported (env : MD.Env) (limit : Nat) (d : Doc) (F : Forest) (l : Loc)
    (input : List Byte) (w : WFG d F) (hs : StrOK d (d.strRefs F)) (hl : isLoc F l) (gok : PL.GeoOK d.g)
    (h0 : d.overflowed = false) :
    ((MDD.runAt env limit d l input).1 = .ok → (MDD.runAt env limit d l input).2.1.overflowed = false) ∧
    ((MDD.runAt env limit d l input).1 = .noMemory → (MDD.runAt env limit d l input).2.1.overflowed = true) ∧
    ((MDD.runAt env limit d l input).2.1.overflowed = true → (MDD.runAt env limit d l input).1 ≠ .ok) := by
  obtain ⟨_, a, b, _⟩ := mp_deser_into_value env limit d F l input w hs hl gok
  refine ⟨fun e => (a e).trans h0, b, fun ho e => ?_⟩
  rw [(a e).trans h0] at ho; cases ho

/-! ## Non-vacuity: the document `[null]` of `C04.Ex` (geometry ⟨4,1,1⟩; the element is slot 0) and `[null, null]` -/
namespace ExInto
open C04.Ex C03.ExMp

/-- `[null]` with an allocator failing at the call positions `fa` (one call, the pool's, has been made) -/
def e3k (fa : List Nat) : Doc := { e3 with pl := { e3.pl with failAt := fa } }
theorem e3k_pleq (fa : List Nat) : PlEq e3 (e3k fa) := ⟨rfl, rfl, rfl, rfl, rfl, rfl, rfl, rfl, rfl, rfl⟩
theorem w3k (fa : List Nat) : WFG (e3k fa) F3 ∧ StrOK (e3k fa) ((e3k fa).strRefs F3) :=
  ⟨((e3k_pleq fa).wfg w3.1 s3).1, ((e3k_pleq fa).wfg w3.1 s3).2.1⟩

/-- MessagePack `"hi"` into the element of `[null]`: Ok, the element holds the new string node, the root is untouched -/
example : (MDD.runAt {} 10 e3 (.slot 0) mHi).1 = .ok ∧ (MDD.runAt {} 10 e3 (.slot 0) mHi).2.1.get (.slot 0) = .owned 0 ∧
    (MDD.runAt {} 10 e3 (.slot 0) mHi).2.1.root = e3.root ∧ IntoOK e3 F3 (.slot 0) (MDD.runAt {} 10 e3 (.slot 0) mHi).2.1 ∧
    (MDD.runAt {} 10 e3 (.slot 0) mHi).2.1.overflowed = false :=
  ⟨by decide +kernel, by decide +kernel,
    (mp_deser_into_value {} 10 e3 F3 (.slot 0) mHi w3.1 s3 loc0 gok).1.root (fun e => by cases e),
    (mp_deser_into_value {} 10 e3 F3 (.slot 0) mHi w3.1 s3 loc0 gok).1,
    (mp_deser_into_value_failure_reported {} 10 e3 F3 (.slot 0) mHi w3.1 s3 loc0 gok rfl).1 (by decide +kernel)⟩

/-- the same when the buffer's allocation (call 2) fails: NoMemory, flag raised, still well-formed, `[null]` again -/
example : (MDD.runAt {} 10 (e3k [2]) (.slot 0) mHi).1 = .noMemory ∧
    (MDD.runAt {} 10 (e3k [2]) (.slot 0) mHi).2.1.overflowed = true ∧
    WF (MDD.runAt {} 10 (e3k [2]) (.slot 0) mHi).2.1 ∧
    (MDD.runAt {} 10 (e3k [2]) (.slot 0) mHi).2.1.get (.slot 0) = .null :=
  ⟨by decide +kernel,
    (mp_deser_into_value {} 10 (e3k [2]) F3 (.slot 0) mHi (w3k [2]).1 (w3k [2]).2 loc0 gok).2.2.1 (by decide +kernel),
    mp_deser_into_value_wf {} 10 (e3k [2]) F3 (.slot 0) mHi (w3k [2]).1 (w3k [2]).2 loc0 gok,
    by decide +kernel⟩

/-- collections into the element (slots 1, 2: not evaluated by the kernel, the theorem does not need to), every single
    failure position, and into the root -/
example (k : Nat) : IntoOK (e3k [k]) F3 (.slot 0) (MDD.runAt {} 10 (e3k [k]) (.slot 0) mObj2).2.1 ∧
    IntoOK (e3k [k]) F3 (.slot 0) (MDD.runAt {} 10 (e3k [k]) (.slot 0) mArr1).2.1 ∧
    IntoOK (e3k [k]) F3 .root (MDD.runAt {} 10 (e3k [k]) .root mObj1).2.1 :=
  ⟨(mp_deser_into_value {} 10 (e3k [k]) F3 (.slot 0) mObj2 (w3k [k]).1 (w3k [k]).2 loc0 gok).1,
    (mp_deser_into_value {} 10 (e3k [k]) F3 (.slot 0) mArr1 (w3k [k]).1 (w3k [k]).2 loc0 gok).1,
    (mp_deser_into_value {} 10 (e3k [k]) F3 .root mObj1 (w3k [k]).1 (w3k [k]).2 trivial gok).1⟩

/-- JSON `"hi"` into the element of `[null]`, without and with a failing builder allocation -/
example : (JDD.runAt {} 10 e3 (.slot 0) C03.ExDoc.hiQ).1 = .ok ∧
    (JDD.runAt {} 10 e3 (.slot 0) C03.ExDoc.hiQ).2.1.get (.slot 0) = .owned 0 ∧
    IntoOK e3 F3 (.slot 0) (JDD.runAt {} 10 e3 (.slot 0) C03.ExDoc.hiQ).2.1 ∧
    (JDD.runAt {} 10 e3 (.slot 0) C03.ExDoc.hiQ).2.1.overflowed = false :=
  ⟨by decide +kernel, by decide +kernel, (deser_into_value {} 10 e3 F3 (.slot 0) _ w3.1 s3 loc0 gok).1,
    (deser_into_value_failure_reported {} 10 e3 F3 (.slot 0) _ w3.1 s3 loc0 gok rfl).1 (by decide +kernel)⟩
example : (JDD.runAt {} 10 (e3k [2]) (.slot 0) C03.ExDoc.hiQ).1 = .noMemory ∧
    (JDD.runAt {} 10 (e3k [2]) (.slot 0) C03.ExDoc.hiQ).2.1.overflowed = true ∧
    WF (JDD.runAt {} 10 (e3k [2]) (.slot 0) C03.ExDoc.hiQ).2.1 :=
  ⟨by decide +kernel,
    (deser_into_value {} 10 (e3k [2]) F3 (.slot 0) _ (w3k [2]).1 (w3k [2]).2 loc0 gok).2.2.1 (by decide +kernel),
    deser_into_value_wf {} 10 (e3k [2]) F3 (.slot 0) _ (w3k [2]).1 (w3k [2]).2 loc0 gok⟩
example (k : Nat) : IntoOK (e3k [k]) F3 (.slot 0) (JDD.runAt {} 10 (e3k [k]) (.slot 0) C03.ExDoc.obj2).2.1 :=
  (deser_into_value {} 10 (e3k [k]) F3 (.slot 0) _ (w3k [k]).1 (w3k [k]).2 loc0 gok).1

/-- the ledger: `[null]` has one block out (its pool) and no string; balanced before, balanced after -/
theorem e3k_bal (fa : List Nat) : Bal (e3k fa) :=
  Bal_of (d := e3) rfl rfl (by unfold Bal; decide +kernel)
example (k : Nat) : Bal (MDD.runAt {} 10 (e3k [k]) (.slot 0) mObj2).2.1 ∧
    Bal (JDD.runAt {} 10 (e3k [k]) (.slot 0) C03.ExDoc.obj2).2.1 :=
  ⟨(mp_deser_into_value {} 10 (e3k [k]) F3 (.slot 0) mObj2 (w3k [k]).1 (w3k [k]).2 loc0 gok).2.2.2.2 (e3k_bal [k]),
    (deser_into_value {} 10 (e3k [k]) F3 (.slot 0) _ (w3k [k]).1 (w3k [k]).2 loc0 gok).2.2.2.2 (e3k_bal [k])⟩

/-- FRAME, non-vacuously: `[null, null]` (a second element, slot 1, added to `[null]`); whatever is deserialized into
    element 0 - by either deserializer, under any single allocation failure - element 1 keeps its cell and its value -/
def e4 (fa : List Nat) : Doc := ((e3k fa).addElement .root).2
def F4 : Forest := .cons none 0 .nil (.cons none 1 .nil .nil)

theorem w4 (fa : List Nat) : WFG (e4 fa) F4 ∧ StrOK (e4 fa) ((e4 fa).strRefs F4) := by
  have h1 : (e3k fa).allocVariant.1 = some 1 := rfl
  have hal : (e3k fa).allocVariant = (some 1, (e3k fa).allocVariant.2) := by rw [← h1]
  obtain ⟨_, a, b, _⟩ := addElement_refines (l := .root) (h := 0) (t := 0) (w3k fa).1 (w3k fa).2 gok trivial
    rfl hal
  exact ⟨a, b⟩

theorem gok4 (fa : List Nat) : PL.GeoOK (e4 fa).g := by
  rw [show (e4 fa).g = g0 from addElement_g _ _]; exact gok

theorem loc4_0 : isLoc F4 (.slot 0) := by simp [isLoc, F4, Forest.locs]
theorem loc4_1 : isLoc F4 (.slot 1) := by simp [isLoc, F4, Forest.locs]

example (k : Nat) (env : MD.Env) (cfg : JD.Cfg) (input : List Byte) :
    Good (e4 [k]) (MDD.runAt env 10 (e4 [k]) (.slot 0) input).2.1 1 ∧
    (MDD.runAt env 10 (e4 [k]) (.slot 0) input).2.1.toVal ((MDD.runAt env 10 (e4 [k]) (.slot 0) input).2.1.get (.slot 1)) =
      (e4 [k]).toVal ((e4 [k]).get (.slot 1)) ∧
    (JDD.runAt cfg 10 (e4 [k]) (.slot 0) input).2.1.toVal ((JDD.runAt cfg 10 (e4 [k]) (.slot 0) input).2.1.get (.slot 1)) =
      (e4 [k]).toVal ((e4 [k]).get (.slot 1)) := by
  have I := (mp_deser_into_value env 10 (e4 [k]) F4 (.slot 0) input (w4 [k]).1 (w4 [k]).2 loc4_0 (gok4 [k])).1
  have I' := (deser_into_value cfg 10 (e4 [k]) F4 (.slot 0) input (w4 [k]).1 (w4 [k]).2 loc4_0 (gok4 [k])).1
  have h1 : (1 : Nat) ∈ F4.ids := by simp [F4, Forest.ids]
  have h2 : Loc.slot 1 ≠ Loc.slot 0 := fun e => by cases e
  have h3 : (1 : Nat) ∉ (layoutAt F4 (.slot 0)).ids := by decide
  have h4 : ∀ x ∈ (layoutAt F4 (.slot 1)).ids, x ∉ (layoutAt F4 (.slot 0)).ids ∧ Loc.slot x ≠ Loc.slot 0 := by
    intro x hx
    have : (layoutAt F4 (.slot 1)).ids = [] := by decide
    rw [this] at hx; cases hx
  exact ⟨I.frame 1 h1 h2 h3, into_frame_toVal (w4 [k]).1 I loc4_1 h2 h3 h4, into_frame_toVal (w4 [k]).1 I' loc4_1 h2 h3 h4⟩
end ExInto

end C04
