/- C04, copy / move / swap of whole documents, as the history interpreter AJ/Model/DH.lean performs them:
   * `copydoc d e` (`JsonDocument d = e`, `d = e`, `d.set(e)`): `tmp := copyInto (newDocG geo so src.alloc maxStrLen) .root src src.root`
     — a FRESH document with the source's allocator, filled by the deep copy — replaces the destination, whose old
     content is released with `clearAll`;
   * `swapdoc d e` (`swap(d, e)`, move construction / assignment): the two `Doc` records are exchanged.
   Everything here is assembled from `C04.copyInto_refines` / `copyInto_exact` (AJ/Props/C04Copy.lean),
   `C05.copy_fail_safe` (AJ/Props/C05Copy.lean), `C06.clearAll_releases_all_owned` (AJ/Props/C06Doc.lean) and
   `JDD.clearAll_wf` (AJ/Lemmas/JddInv.lean); `DL.sameId_copyInto` (AJ/Lemmas/DocAlloc.lean): no operation changes the
   allocator identity of a document. -/
import AJ.Props.C05Copy
import AJ.Props.C06Doc
import AJ.Lemmas.JddInv
import AJ.Lemmas.DocAlloc
import AJ.Model.DH
namespace C04
open DL
open JD (Byte Val)

/-! ## B3a. the fresh document -/

/-- `DH.newDocG g so a` (every document of `W.initG`, and the target of `copydoc`) is a well-formed empty document over
    a sound geometry: cells (`WFG … .nil`), string table, pool invariant; it is not flagged, its value is null, its
    allocator is `a`, it owns nothing and its allocator log is empty (`C06.Good`, the start of a balanced history). -/
theorem fresh_document_wf (g : PL.Geo) (so a : Nat) (gok : PL.GeoOK g) (mx : Nat := 65535) :
    WFG (DH.newDocG g so a mx) .nil ∧ StrOK (DH.newDocG g so a mx) ((DH.newDocG g so a mx).strRefs .nil) ∧
    WF (DH.newDocG g so a mx) ∧ PL.Inv g (DH.newDocG g so a mx).pl ∧ PL.GeoOK (DH.newDocG g so a mx).g ∧
    (DH.newDocG g so a mx).overflowed = false ∧ abs (DH.newDocG g so a mx) = .null ∧ (DH.newDocG g so a mx).alloc = a ∧
    C06.Good (DH.newDocG g so a mx) .nil := by
  have hp : PL.Inv g (DH.newDocG g so a mx).pl := PL.init_inv gok []
  have hw : WFG (DH.newDocG g so a mx) .nil := by
    refine ⟨rfl, List.nodup_nil, fun i hi => (by cases hi), hp, fun i hi => (by cases hi), ?_⟩
    intro l hl e he
    rcases mem_holders.1 hl with h | ⟨j, hj, _⟩
    · subst h; cases he
    · cases hj
  have hs : StrOK (DH.newDocG g so a mx) ((DH.newDocG g so a mx).strRefs .nil) :=
    ⟨List.nodup_nil, fun n hn => (by cases hn), fun n hn => (by cases hn), fun r hr => (by cases hr)⟩
  exact ⟨hw, hs, ⟨.nil, hw, hs⟩, hp, gok, rfl, rfl, rfl, C06.fresh_good rfl rfl rfl rfl⟩

/-! ## B1. `copydoc`, success -/

/-- the temporary document of `copydoc`: a fresh document over geometry `g` (string overhead `so`, allocator `a` — the
    interpreter passes the source's), filled with a deep copy of the source's root -/
def docCopy (g : PL.Geo) (so a : Nat) (src : Doc) (mx : Nat := 65535) : Doc :=
  copyInto (DH.newDocG g so a mx) .root src src.root

/-- what `copydoc di ei` stores at `di` and what it releases -/
theorem copydoc_is_docCopy (g : PL.Geo) (so : Nat) (src : Doc) (mx : Nat := 65535) :
    docCopy g so src.alloc src mx = copyInto (DH.newDocG g so src.alloc mx) .root src src.root := rfl

/-- the copy is a document of the allocator, string overhead, geometry and string-length limit it was created with (whether or not the copy
    succeeds); the interpreter creates it with the SOURCE's allocator id -/
theorem copy_document_allocator (g : PL.Geo) (so a : Nat) (src : Doc) (mx : Nat := 65535) :
    (docCopy g so a src mx).alloc = a ∧ (docCopy g so a src mx).strOverhead = so ∧ (docCopy g so a src mx).g = g ∧
    (docCopy g so a src mx).maxStrLen = mx :=
  sameId_copyInto (DH.newDocG g so a mx) .root src src.root

/-- **Document copy, success.** `src` is a well-formed document (layout `Fs`) without an object that repeats a key; the
    copy is built in a fresh document over any sound geometry `g`. If the copy is not flagged `overflowed` (no allocation
    failed), then
    * it is well-formed (`WF`: cells and string table), over the geometry `g`, with layout `copyLayout`;
    * its value is the copy of the source's value (`copyVal`: a double that is exactly a float is stored as a float), and
      IS the source's value when the source stores its doubles canonically (`DblCanon`, always the case for documents
      built through the API or a deserializer);
    * every slot of the copy is one the fresh document handed out (none existed before: `∉ Forest.nil.ids`);
    * the source is an argument that is only read: it is the same `Doc` value afterwards (`src = src`, by construction of
      the model — a document is a value; see `documents_are_independent`);
    * the OLD destination `old` (any document) is released with `clearAll`: one deallocation per block it owned (pools with
      a block, heap pool table, string nodes), no other allocator traffic, nothing left. -/
theorem copy_document_refines {src : Doc} {Fs : Forest} {g : PL.Geo} (so a : Nat) (gok : PL.GeoOK g)
    (ws : WFG src Fs) (hnd : NoDupKeys (src.toVal src.root)) {mx : Nat}
    (hok : (docCopy g so a src mx).overflowed = false) (old : Doc) :
    WF (docCopy g so a src mx) ∧
    WFG (docCopy g so a src mx) (copyLayout (DH.newDocG g so a mx) .nil .root src src.root) ∧
    StrOK (docCopy g so a src mx)
      ((docCopy g so a src mx).strRefs (copyLayout (DH.newDocG g so a mx) .nil .root src src.root)) ∧
    (docCopy g so a src mx).g = g ∧
    abs (docCopy g so a src mx) = copyVal (abs src) ∧
    (DblCanon (abs src) → abs (docCopy g so a src mx) = abs src) ∧
    (old.clearAll.pl.log = List.replicate (PL.blocks old.pl + old.strings.length) "D" ++ old.pl.log ∧
      old.clearAll.pl.calls = old.pl.calls ∧ PL.blocks old.clearAll.pl = 0 ∧ old.clearAll.strings = [] ∧
      old.clearAll.pl.pools = [] ∧ old.clearAll.pl.free = []) := by
  obtain ⟨hw, hs, _, _, _, _, _, _, _⟩ := fresh_document_wf g so a gok mx
  obtain ⟨a1, a2, a3, a4, _⟩ := copyInto_refines (l := .root) (ls := .root) hw hs gok trivial ws trivial hnd hok
  refine ⟨⟨_, a1, a2⟩, a1, a2, a3, a4, fun hc => ?_, C06.clearAll_releases_all_owned old⟩
  have := copyVal_of_canon _ hc
  exact a4.trans this

/-- the old destination, when it was well-formed (pool invariant): after `clearAll` it is a well-formed EMPTY document
    over the same geometry, not flagged -/
theorem copy_document_old_cleared {old : Doc} (gok : PL.GeoOK old.g) (hp : PL.Inv old.g old.pl) :
    WFG old.clearAll .nil ∧ StrOK old.clearAll (old.clearAll.strRefs .nil) ∧ old.clearAll.g = old.g ∧
    old.clearAll.overflowed = false ∧ abs old.clearAll = .null := by
  obtain ⟨a, b, c, d, e⟩ := JDD.clearAll_wf gok hp
  refine ⟨a, b, c, d, ?_⟩
  show old.clearAll.toVal old.clearAll.root = .null
  rw [e]; rfl

/-- and when the old destination was reached by a history of operations from a document whose allocator log balanced
    (e.g. a fresh one): after `clearAll` NOTHING is outstanding at its allocator — every block it ever obtained has been
    returned -/
theorem copy_document_old_returns_everything {d0 old : Doc} {F0 F : Forest} (h : Hist d0 F0 old F) (w : WFG d0 F0)
    (hs : StrOK d0 (d0.strRefs F0)) (gok : PL.GeoOK d0.g) (g0 : C06.Good d0 F0) :
    PL.outstanding old.clearAll.pl.log = 0 ∧ PL.blocks old.clearAll.pl = 0 ∧ old.clearAll.strings = [] :=
  let ⟨_, a, b, c, _⟩ := C06.clearAll_returns_everything h w hs gok g0
  ⟨a, b, c⟩

/-- "Independent" in this model: a document is a VALUE (`Doc` record: its own cell map, its own string table, its own pool
    list); slot ids and string-node ids are indices into the record they belong to, so two records cannot share a slot or
    a node. Whatever is done afterwards to one document (`f`) cannot change the value of the other: the other is not an
    argument of `f`'s result. Stated for the record; true by construction. -/
theorem documents_are_independent (a b : Doc) (f : Doc → Doc) :
    (fun (_ : Doc) => abs b) (f a) = abs b ∧ (fun (_ : Doc) => abs a) (f b) = abs a := ⟨rfl, rfl⟩

/-- the interpreter's `copydoc r r2` step stores exactly `docCopy` (built with the SOURCE's allocator id, the world's
    geometry, string overhead and string-length limit) at index `r`, after moving the allocator logs into the world log (`flush`; the log is the
    ledger, not part of the document state) -/
theorem copydoc_step (w : DH.W) (r r2 : String) :
    (DH.step w ["copydoc", r, r2]).2.docs =
      w.flush.docs.set! r.toNat!
        { docCopy w.geo w.strOverhead (w.docs[r2.toNat!]!).alloc (w.docs[r2.toNat!]!) w.maxStrLen with
          pl := { (docCopy w.geo w.strOverhead (w.docs[r2.toNat!]!).alloc (w.docs[r2.toNat!]!) w.maxStrLen).pl with log := [] } } := by
  rfl

/-! ## B2. `copydoc`, whatever fails -/

/-- **Document copy, fail-safe.** Same hypotheses, NO assumption on the allocator: whatever allocation fails, the copy is
    a well-formed document over `g`; its value is a `PartialCopy` (a prefix, see `DL.PartialCopy` and the inversion lemmas
    `C05.partial_arr`, `partial_obj`, …) of the complete copy; and it is flagged `overflowed` EXACTLY WHEN it is
    incomplete. -/
theorem copy_document_fail_safe {src : Doc} {Fs : Forest} {g : PL.Geo} (so a : Nat) (gok : PL.GeoOK g)
    (ws : WFG src Fs) (hnd : NoDupKeys (src.toVal src.root)) (mx : Nat := 65535) :
    WF (docCopy g so a src mx) ∧ (docCopy g so a src mx).g = g ∧
    PartialCopy (abs (docCopy g so a src mx)) (copyVal (abs src)) ∧
    ((docCopy g so a src mx).overflowed = true ↔ abs (docCopy g so a src mx) ≠ copyVal (abs src)) := by
  obtain ⟨hw, hs, _, _, _, hov, _, _, _⟩ := fresh_document_wf g so a gok mx
  obtain ⟨a1, a2, a3, _, a5, _⟩ := C05.copy_fail_safe (l := .root) (ls := .root) hw hs gok trivial ws trivial hnd
  exact ⟨⟨_, a1, a2⟩, a3, a5,
    C05.copy_flag_iff_incomplete (l := .root) (ls := .root) hw hs gok trivial ws trivial hnd hov⟩

/-! ## B3b. `swapdoc` -/

/-- the two documents of a world after `swapdoc`: the records are exchanged -/
def docSwap (p : Doc × Doc) : Doc × Doc := (p.2, p.1)

/-- **Swap.** Values, overflow flags, allocators, geometries, pools and string tables are exchanged — the records are;
    nothing is allocated, released or copied; well-formedness travels with the record; swapping twice is the identity. -/
theorem swap_documents (a b : Doc) :
    abs (docSwap (a, b)).1 = abs b ∧ abs (docSwap (a, b)).2 = abs a ∧
    (docSwap (a, b)).1.overflowed = b.overflowed ∧ (docSwap (a, b)).2.overflowed = a.overflowed ∧
    (docSwap (a, b)).1.alloc = b.alloc ∧ (docSwap (a, b)).2.alloc = a.alloc ∧
    (docSwap (a, b)).1.pl = b.pl ∧ (docSwap (a, b)).2.pl = a.pl ∧
    (WF a → WF (docSwap (a, b)).2) ∧ (WF b → WF (docSwap (a, b)).1) ∧
    docSwap (docSwap (a, b)) = (a, b) :=
  ⟨rfl, rfl, rfl, rfl, rfl, rfl, rfl, rfl, id, id, rfl⟩

/-- the interpreter's `swapdoc r r2` step is that exchange on the document array; nothing else of the world changes -/
theorem swapdoc_step (w : DH.W) (r r2 : String) :
    DH.step w ["swapdoc", r, r2] =
      ("", { w with docs := (w.docs.set! r.toNat! (w.docs[r2.toNat!]!)).set! r2.toNat! (w.docs[r.toNat!]!) }) := by
  rfl

end C04

/-! ## Non-vacuity -/
namespace C04.ExD
open DL C04 C04.Ex C04.ExC
open JD (Byte Val)

/-- the empty document `z0` of AJ/Props/C04Copy.lean is the interpreter's fresh document -/
example : z0 = DH.newDocG g0 15 1 := rfl

/-- `fresh_document_wf` at the interpreter's default geometry -/
example : WFG (DH.newDocG ⟨256, 4, 4, 16, 16⟩ 15 0) .nil ∧ abs (DH.newDocG ⟨256, 4, 4, 16, 16⟩ 15 0) = .null :=
  let h := fresh_document_wf ⟨256, 4, 4, 16, 16⟩ 15 0 ⟨by decide, by decide⟩
  ⟨h.1, h.2.2.2.2.2.2.1⟩

theorem e4_root_nodup : NoDupKeys (e4.toVal e4.root) := e4_nodup

/-- `copy_document_refines` applies: the document `["hi"]` (`e4`: one element slot, one copied string) copied into a fresh
    document over the geometry `g0`, allocator 1: not flagged, well-formed, its value is `["hi"]` -/
example : WF (docCopy g0 15 1 e4) ∧ abs (docCopy g0 15 1 e4) = .arr [.str hi] ∧ (docCopy g0 15 1 e4).g = g0 := by
  have hok : (docCopy g0 15 1 e4).overflowed = false := by decide +kernel
  obtain ⟨a, _, _, g, _, c, _⟩ := copy_document_refines (g := g0) 15 1 gok w4 e4_root_nodup hok e4
  have hv : abs e4 = .arr [.str hi] := e4_val
  refine ⟨a, ?_, g⟩
  rw [c (by rw [hv]; simp [DblCanon, DblCanonL]), hv]

/-- the old destination of that `copydoc` (here `e4` itself, which owns one pool block and one string node): two
    deallocations, nothing left -/
example : e4.clearAll.pl.log = List.replicate (PL.blocks e4.pl + e4.strings.length) "D" ++ e4.pl.log ∧
    PL.blocks e4.clearAll.pl = 0 ∧ e4.clearAll.strings = [] := by
  have hok : (docCopy g0 15 1 e4).overflowed = false := by decide +kernel
  obtain ⟨_, _, _, _, _, _, o⟩ := copy_document_refines (g := g0) 15 1 gok w4 e4_root_nodup hok e4
  exact ⟨o.1, o.2.2.1, o.2.2.2.1⟩
example : PL.blocks e4.pl + e4.strings.length = 2 := by decide +kernel

/-- `copy_document_fail_safe` applies with an allocator that fails from its first call on (`failFrom := some 1` is not part
    of `newDocG`; the fresh document of `copydoc` has a working allocator, so failure is exercised on the general theorem
    `C05.copy_fail_safe` in AJ/Props/C05Copy.lean). Here: the fresh document never fails for `["hi"]`, the copy is complete
    and NOT flagged — the `↔` is used from right to left. -/
example : (docCopy g0 15 1 e4).overflowed = false := by
  obtain ⟨_, _, _, iff⟩ := copy_document_fail_safe (g := g0) 15 1 gok w4 e4_root_nodup
  cases h : (docCopy g0 15 1 e4).overflowed with
  | false => rfl
  | true =>
    exfalso
    apply iff.mp h
    have hv : abs (docCopy g0 15 1 e4) = .arr [.str hi] := valEq_sound _ _ (by decide +kernel)
    rw [hv, show abs e4 = .arr [.str hi] from e4_val]
    exact (valEq_sound _ _ (by decide +kernel)).symm

/-- the string-length limit of the world applies to the copy: with the limit 1 the 2-byte string of `["hi"]` is refused,
    the copy is flagged and (by `copy_document_fail_safe`) well-formed and incomplete; no block was requested for it -/
example : (docCopy g0 15 1 e4 1).overflowed = true ∧ WF (docCopy g0 15 1 e4 1) ∧
    abs (docCopy g0 15 1 e4 1) ≠ copyVal (abs e4) ∧ (docCopy g0 15 1 e4 1).strings = [] ∧
    (docCopy g0 15 1 e4 1).maxStrLen = 1 := by
  obtain ⟨a, _, _, iff⟩ := copy_document_fail_safe (g := g0) 15 1 gok w4 e4_root_nodup 1
  have h : (docCopy g0 15 1 e4 1).overflowed = true := by decide +kernel
  exact ⟨h, a, iff.mp h, by decide +kernel, (copy_document_allocator g0 15 1 e4 1).2.2.2⟩

/-- `copy_document_allocator`: `copydoc 0 1` gives document 0 a copy that lives in document 1's allocator -/
example : (docCopy g0 15 e4.alloc e4).alloc = e4.alloc := (copy_document_allocator g0 15 e4.alloc e4).1

/-- `swap_documents` on `["hi"]` and the empty document -/
example : abs (docSwap (e4, z0)).1 = .null ∧ abs (docSwap (e4, z0)).2 = .arr [.str hi] := by
  obtain ⟨a, b, _⟩ := swap_documents e4 z0
  exact ⟨by rw [a]; rfl, by rw [b]; exact e4_val⟩

end C04.ExD
