/- C04, lift to histories: `addElement` (allocation + `appendOne`), `clearV`, `setArg` on a cleared location. Each
   step keeps the invariant `WF` and moves the abstraction as the list-level machine says; hence every history does. -/
import AJ.Props.C04
import AJ.Props.C05Doc
namespace C04
open DL
open JD (Byte Val)

/-- `addElement` whose allocation succeeds with slot `id`: the array at `l` gets a null element appended -/
theorem addElement_refines {d d1 : Doc} {F : Forest} {l : Loc} {h t id : Nat} (w : WFG d F)
    (hs : StrOK d (d.strRefs F)) (gok : PL.GeoOK d.g) (hl : isLoc F l) (hv : d.get l = .arr h t)
    (hal : d.allocVariant = (some id, d1)) :
    d.addElement l = (some id, d1.appendOne l id) ∧
    WFG (d.addElement l).2 (replaceAt F l ((layoutAt F l).snoc none id)) ∧
    StrOK (d.addElement l).2 ((d.addElement l).2.strRefs (replaceAt F l ((layoutAt F l).snoc none id))) ∧
    ∃ xs, d.toVal (d.get l) = .arr xs ∧ abs (d.addElement l).2 = absWith d F l (.arr (xs ++ [.null])) := by
  have heq : d.addElement l = (some id, d1.appendOne l id) := by simp only [Doc.addElement, hal]
  obtain ⟨hg, _, hc, _, hnl, hlt, hlv⟩ := allocVariant_some gok w.pool hal
  obtain ⟨w1, hs1, _⟩ := wfg_of_grow w hs hg
  obtain ⟨o1, o2, o3⟩ := grow_obs w hs hg hl
  have hn : d1.null = d.null := by simp only [Doc.null, hg.g]
  obtain ⟨a, b, xs, c1, c2⟩ := appendOne_wf (d := d1) (id := id) w1 hs1 hl (by rw [o1]; exact hv) (by rw [hn]; exact hc)
    (fun m => hnl (w.live id m)) (by rw [hn]; exact hlt) ((hlv id).2 (Or.inr rfl))
  rw [heq]
  exact ⟨rfl, a, b, xs, by rw [← o2]; exact c1, by rw [c2, o3]⟩

/-! ## Histories -/

inductive Op
  | add (l : Loc)                 -- `array.add()`: `addElement`
  | clear (l : Loc)               -- `variant.clear()`
  | put (l : Loc) (a : Arg)       -- store a scalar/string on a cleared location (`set` = `clear` then `put`)

def Op.run (d : Doc) : Op → Doc
  | .add l => (d.addElement l).2
  | .clear l => d.clearV l
  | .put l a => (d.setArg l a).2

/-- the operation designates a reachable location of the right kind; `put` reports success -/
def Op.Valid (d : Doc) (F : Forest) : Op → Prop
  | .add l => isLoc F l ∧ ∃ h t, d.get l = .arr h t
  | .clear l => isLoc F l
  | .put l a => isLoc F l ∧ d.get l = .null ∧ (d.setArg l a).1 = true

/-- ghost layout after the operation -/
def Op.layout (d : Doc) (F : Forest) : Op → Forest
  | .add l => match (d.addElement l).1 with
    | some id => replaceAt F l ((layoutAt F l).snoc none id)
    | none => F
  | .clear l => replaceAt F l .nil
  | .put _ _ => F

/-- the list-level machine: what the abstract document becomes -/
def Op.spec (d : Doc) (F : Forest) : Op → Val
  | .add l => match (d.addElement l).1, d.toVal (d.get l) with
    | some _, .arr xs => absWith d F l (.arr (xs ++ [.null]))      -- element appended
    | _, _ => abs d                                               -- allocation failed: nothing changes
  | .clear l => absWith d F l .null
  | .put l a => absWith d F l (argVal a)

/-- one step: the invariant is kept, the geometry is kept, and the abstraction follows the list-level machine -/
theorem step_refines {d : Doc} {F : Forest} {op : Op} (w : WFG d F) (hs : StrOK d (d.strRefs F))
    (gok : PL.GeoOK d.g) (hv : op.Valid d F) :
    WFG (op.run d) (op.layout d F) ∧ StrOK (op.run d) ((op.run d).strRefs (op.layout d F)) ∧
    (op.run d).g = d.g ∧ abs (op.run d) = op.spec d F := by
  cases op with
  | add l =>
    obtain ⟨hl, h, t, hg⟩ := hv
    simp only [Op.run, Op.layout, Op.spec]
    generalize hal : d.allocVariant = r
    obtain ⟨m, d1⟩ := r
    cases m with
    | none =>
      have h1 : (d.addElement l).1 = none := by simp only [Doc.addElement, hal]
      obtain ⟨_, a, b, c, _⟩ := C05.add_element_fail_clean w hs gok h1
      have hgg : (d.addElement l).2.g = d.g := by
        have := allocVariant_g d
        simp only [Doc.addElement, hal] at this ⊢; exact this
      rw [h1]; exact ⟨a, b, hgg, c⟩
    | some id =>
      obtain ⟨e1, a, b, xs, c1, c2⟩ := addElement_refines w hs gok hl hg hal
      have h1 : (d.addElement l).1 = some id := by rw [e1]
      have hgg : (d.addElement l).2.g = d.g := by
        rw [e1]; show (d1.appendOne l id).g = d.g
        rw [appendOne_g]
        have := allocVariant_g d; rw [hal] at this; exact this
      rw [h1, c1]; exact ⟨a, b, hgg, c2⟩
  | clear l =>
    obtain ⟨a, b, c, _⟩ := clearV_collection w hs hv
    exact ⟨a, b, clearV_g w hs hv, c⟩
  | put l a =>
    obtain ⟨hl, hn, hok⟩ := hv
    obtain ⟨x, y, z⟩ := set_scalar_wf w hs hl hn gok hok
    exact ⟨x, y, setArg_g d l a, z⟩

/-- `Hist d F d' F'`: `d'` (laid out as `F'`) is reached from `d` (laid out as `F`) by a sequence of valid operations -/
inductive Hist : Doc → Forest → Doc → Forest → Prop
  | nil (d : Doc) (F : Forest) : Hist d F d F
  | cons {d : Doc} {F : Forest} {d' : Doc} {F' : Forest} (op : Op) :
      op.Valid d F → Hist (op.run d) (op.layout d F) d' F' → Hist d F d' F'

/-- Every history of valid operations from a well-formed document ends in a well-formed document (cells: chains
    acyclic, no sharing, slots live, extension slots referenced once; string table: reference counts cover all
    references) over the same geometry; by `step_refines` the abstract document moves at each step exactly as the
    list-level machine `Op.spec` says. -/
theorem history_refines {d d' : Doc} {F F' : Forest} (h : Hist d F d' F') :
    WFG d F → StrOK d (d.strRefs F) → PL.GeoOK d.g →
    WFG d' F' ∧ StrOK d' (d'.strRefs F') ∧ d'.g = d.g := by
  induction h with
  | nil d F => intro w hs _; exact ⟨w, hs, rfl⟩
  | cons op hv _ ih =>
    intro w hs gok
    obtain ⟨a, b, c, _⟩ := step_refines w hs gok hv
    obtain ⟨x, y, z⟩ := ih a b (by rw [c]; exact gok)
    exact ⟨x, y, by rw [z, c]⟩

/-- the abstract trace of a history: the successive abstract documents are those of the list-level machine -/
theorem history_trace {d d' : Doc} {F F' : Forest} (h : Hist d F d' F') :
    WFG d F → StrOK d (d.strRefs F) → PL.GeoOK d.g →
    ∀ (op : Op), op.Valid d' F' → abs (op.run d') = op.spec d' F' := by
  intro w hs gok op hv
  obtain ⟨a, b, c⟩ := history_refines h w hs gok
  exact (step_refines a b (by rw [c]; exact gok) hv).2.2.2

/-! ## Non-vacuity -/
namespace Ex2
open C04.Ex

theorem s1 : StrOK e1 (e1.strRefs .nil) := ⟨by decide +kernel, by decide +kernel, by decide +kernel, by decide +kernel⟩

/-- a history `add root; put [0] "hi" (copied); clear root` from the empty array: all three steps are valid, so the
    final document is well-formed -/
def ops : List Op := [.add .root, .put (.slot 0) (.strCopied hi), .clear .root]

theorem hist3 : ∃ d' F', Hist e1 .nil d' F' ∧ d'.root = .null := by
  refine ⟨_, _, Hist.cons (.add .root) ⟨trivial, 255, 255, rfl⟩
    (Hist.cons (.put (.slot 0) (.strCopied hi)) ⟨by show 0 ∈ (Op.layout e1 .nil (.add .root)).locs; decide +kernel, by decide +kernel, by decide +kernel⟩
      (Hist.cons (.clear .root) trivial (Hist.nil _ _))), ?_⟩
  decide +kernel

example : ∃ d' F', Hist e1 .nil d' F' ∧ WFG d' F' ∧ StrOK d' (d'.strRefs F') := by
  obtain ⟨d', F', h, _⟩ := hist3
  exact ⟨d', F', h, (history_refines h w1 s1 gok).1, (history_refines h w1 s1 gok).2.1⟩

/-- `C05.add_element_fail_clean` applies: with an allocator that fails from its first call on, `add` returns nothing,
    sets the overflow flag and leaves the (empty) array as it was -/
def e1f : Doc := { e1 with pl := { e1.pl with failFrom := some 1 } }
theorem w1f : WFG e1f .nil := wfg_empty_arr rfl (PL.init_inv gok [] (some 1))
theorem s1f : StrOK e1f (e1f.strRefs .nil) := ⟨by decide +kernel, by decide +kernel, by decide +kernel, by decide +kernel⟩
example : (e1f.addElement .root).2.overflowed = true ∧ abs (e1f.addElement .root).2 = abs e1f := by
  obtain ⟨a, _, _, c, _⟩ := C05.add_element_fail_clean (l := .root) w1f s1f gok (by decide +kernel)
  exact ⟨a, c⟩
end Ex2

end C04
