/- C04, DESERIALIZATION INTO A VALUE inside the history refinement.

   `JDD.runAt cfg limit d l input` / `MDD.runAt env limit d l input` model `deserializeJson(doc[l], input)` /
   `deserializeMsgPack(doc[l], input)`: the destination `l` (the root, an array element, a member value - whatever it
   holds) is cleared, the input is parsed into it, the rest of the document is not touched, the pools are not shrunk.

   1. `C04.deser_into_value_refines`, `C04.mp_deser_into_value_refines`: into a well-formed document, for every input,
      nesting limit and configuration: the result is well formed (explicit layout `deserLayout`); if nothing overflowed
      then the code, the number of bytes consumed and the VALUE left at `l` - complete or partial, for every code - are
      those of the value-level deserializer `JD.run` / `MD.run … .all`, and the abstract document is the old one with
      exactly the value at `l` replaced: `abs d' = absWith d F l v0`. (`JDD.sim_all` / `MDD.mpsim_all` at the inner
      location `l` after `clearV l`, instead of the root after `clearAll`.)
   2. the abstract tree machine `DL.AOpD` (AJ/Lemmas/HistDeser.lean) = `DL.AOp` + `deserJ p cfg limit input`,
      `deserM p env limit input` (the value at path `p` becomes the value-level result) + `copy p q`, `copyFrom p v`;
      the concrete operations `C04.OpD` = `Op2` + `deserJ l …`, `deserM l …`, `copy l ls`, `copyFrom l src Fs ls`;
      `C04.historyD_refines` (the invariant along ANY history, whatever the inputs, codes and allocation failures),
      `C04.historyD_simulates_tree` (`abs d' = ARunD (abs d) as` when nothing overflowed),
      `C04.historyD_simulates_tree_of_flag` (the same read off the overflow flag at the END of the history).
   3. `C04.deser_changes_only_target`, `C04.mutationD_changes_only_target`: a location whose path parts ways with the
      path of the target keeps its path and its value - for every input, code and allocation failure schedule.
   Helper lemmas: AJ/Lemmas/HistDeser.lean. -/
import AJ.Lemmas.HistDeser
namespace C04
open DL
open JD (Byte Val Code)

/-! ## 1. Deserialization into a value refines the value-level deserializer -/

/-- **`deserializeJson(doc[l], input)` refines `JD.run`.** `d` well formed, `l` ANY location of it, string limit at
    least the initial StringBuilder capacity. With `(c, d', n) := JDD.runAt cfg limit d l input` and
    `(c0, v0, n0) := JD.run cfg limit input`:
    * unconditionally `d'` is well formed, for the explicit layout `deserLayout d' F l`, over the same geometry;
    * if nothing overflowed (`d'.overflowed = false`; then `d.overflowed = false` too): `c = c0`, `n = n0`, the value at
      `l` IS `v0` - for every code, the partial value left by a syntax error included - and the abstract document is the
      old one with exactly the value at `l` replaced by `v0`;
    * if `d` was not flagged: the code and the consumption are the value-level ones, unless the answer is `NoMemory`
      with the flag raised. -/
theorem deser_into_value_refines (cfg : JD.Cfg) (limit : Nat) (d : Doc) (F : Forest) (l : Loc) (input : List Byte)
    (w : WFG d F) (hs : StrOK d (d.strRefs F)) (hl : isLoc F l) (gok : PL.GeoOK d.g) (h31 : 31 ≤ cfg.maxStrLen) :
    WF (JDD.runAt cfg limit d l input).2.1 ∧
    WFG (JDD.runAt cfg limit d l input).2.1 (deserLayout (JDD.runAt cfg limit d l input).2.1 F l) ∧
    StrOK (JDD.runAt cfg limit d l input).2.1
      ((JDD.runAt cfg limit d l input).2.1.strRefs (deserLayout (JDD.runAt cfg limit d l input).2.1 F l)) ∧
    (JDD.runAt cfg limit d l input).2.1.g = d.g ∧
    ((JDD.runAt cfg limit d l input).2.1.overflowed = false →
      d.overflowed = false ∧
      (JDD.runAt cfg limit d l input).1 = (JD.run cfg limit input).1 ∧
      (JDD.runAt cfg limit d l input).2.2 = (JD.run cfg limit input).2.2 ∧
      (JDD.runAt cfg limit d l input).2.1.toVal ((JDD.runAt cfg limit d l input).2.1.get l) = (JD.run cfg limit input).2.1 ∧
      abs (JDD.runAt cfg limit d l input).2.1 = absWith d F l (JD.run cfg limit input).2.1) ∧
    (d.overflowed = false →
      ((JDD.runAt cfg limit d l input).1 = (JD.run cfg limit input).1 ∧
        (JDD.runAt cfg limit d l input).2.2 = (JD.run cfg limit input).2.2) ∨
      ((JDD.runAt cfg limit d l input).1 = .noMemory ∧ (JDD.runAt cfg limit d l input).2.1.overflowed = true)) := by
  have S := runAt_step cfg limit d F l input w hs hl gok
  have hst := (deser_into_value cfg limit d F l input w hs hl gok).2.2.2.1
  refine ⟨⟨_, S.wf, S.str⟩, S.wf, S.str, S.into.g, fun hno => ?_, fun h0 => ?_⟩
  · have h0 : d.overflowed = false := by
      cases h : d.overflowed with
      | false => rfl
      | true => rw [hst h] at hno; cases hno
    rcases runAt_core cfg limit d F l input w hs hl gok h31 h0 with ⟨_, a, b, e⟩ | ⟨o, _⟩
    · exact ⟨h0, a, b, e, by rw [S.into.abs, e]⟩
    · rw [o] at hno; cases hno
  · rcases runAt_core cfg limit d F l input w hs hl gok h31 h0 with ⟨_, a, b, _⟩ | ⟨o, _, e⟩
    · exact Or.inl ⟨a, b⟩
    · rcases e with e | e
      · exact Or.inr ⟨e, o⟩
      · exact Or.inl e

/-- **`deserializeMsgPack(doc[l], input)` refines `MD.run … .all`** (no hypothesis on the string limit). Sharper than
    for JSON: into a document that was not flagged, the flag is raised exactly when the answer is `NoMemory`, and any
    other answer comes with the value-level code, consumption and value. -/
theorem mp_deser_into_value_refines (env : MD.Env) (limit : Nat) (d : Doc) (F : Forest) (l : Loc) (input : List Byte)
    (w : WFG d F) (hs : StrOK d (d.strRefs F)) (hl : isLoc F l) (gok : PL.GeoOK d.g) :
    WF (MDD.runAt env limit d l input).2.1 ∧
    WFG (MDD.runAt env limit d l input).2.1 (deserLayout (MDD.runAt env limit d l input).2.1 F l) ∧
    StrOK (MDD.runAt env limit d l input).2.1
      ((MDD.runAt env limit d l input).2.1.strRefs (deserLayout (MDD.runAt env limit d l input).2.1 F l)) ∧
    (MDD.runAt env limit d l input).2.1.g = d.g ∧
    ((MDD.runAt env limit d l input).2.1.overflowed = false →
      d.overflowed = false ∧
      (MDD.runAt env limit d l input).1 = (MD.run env limit .all input).1 ∧
      (MDD.runAt env limit d l input).2.2 = (MD.run env limit .all input).2.2 ∧
      (MDD.runAt env limit d l input).2.1.toVal ((MDD.runAt env limit d l input).2.1.get l) =
        (MD.run env limit .all input).2.1 ∧
      abs (MDD.runAt env limit d l input).2.1 = absWith d F l (MD.run env limit .all input).2.1) ∧
    (d.overflowed = false →
      ((MDD.runAt env limit d l input).1 = .noMemory ↔ (MDD.runAt env limit d l input).2.1.overflowed = true) ∧
      (((MDD.runAt env limit d l input).1 = (MD.run env limit .all input).1 ∧
        (MDD.runAt env limit d l input).2.2 = (MD.run env limit .all input).2.2) ∨
       ((MDD.runAt env limit d l input).1 = .noMemory ∧ (MDD.runAt env limit d l input).2.1.overflowed = true))) := by
  have S := mp_runAt_step env limit d F l input w hs hl gok
  have hst := (mp_deser_into_value env limit d F l input w hs hl gok).2.2.2.1
  refine ⟨⟨_, S.wf, S.str⟩, S.wf, S.str, S.into.g, fun hno => ?_, fun h0 => ?_⟩
  · have h0 : d.overflowed = false := by
      cases h : d.overflowed with
      | false => rfl
      | true => rw [hst h] at hno; cases hno
    rcases mp_runAt_core env limit d F l input w hs hl gok h0 with ⟨_, a, _, b, e⟩ | ⟨o, _⟩
    · exact ⟨h0, a, b, e, by rw [S.into.abs, e]⟩
    · rw [o] at hno; cases hno
  · rcases mp_runAt_core env limit d F l input w hs hl gok h0 with ⟨o, a, ne, b, _⟩ | ⟨o, e⟩
    · exact ⟨⟨fun h => absurd h ne, fun h => by rw [o] at h; cases h⟩, Or.inl ⟨a, b⟩⟩
    · exact ⟨⟨fun _ => o, fun _ => e⟩, Or.inr ⟨e, o⟩⟩

/-! ## 2. Histories -/

/-- **The invariant along ANY history** of `add`, `clear`, `put`, `remove`, `object[key]`, deep copies and
    deserializations into values - whatever the inputs, the codes answered and the allocation failures: the final
    document is well formed (cells and string table) over the same geometry. -/
theorem historyD_refines {d d' : Doc} {F F' : Forest} {as : List AOpD} (h : HistDW d F as d' F') :
    WFG d F → StrOK d (d.strRefs F) → PL.GeoOK d.g →
    WFG d' F' ∧ StrOK d' (d'.strRefs F') ∧ d'.g = d.g := by
  induction h with
  | nil d F => intro w hs _; exact ⟨w, hs, rfl⟩
  | cons op hv _ ih =>
    intro w hs gok
    obtain ⟨a, b, c, _⟩ := stepD_refines w hs gok hv
    obtain ⟨x, y, z⟩ := ih a b (by rw [c]; exact gok)
    exact ⟨x, y, by rw [z, c]⟩

/-- **Refinement to the ordered tree, whole histories with deserializations and copies.** Every history of valid
    operations in which nothing overflowed, from a well-formed document, computes on the abstract document exactly what
    the plain ordered tree computes: `abs d' = ARunD (abs d) as`, where a deserialization into `l` stands for "the value
    at the path of `l` becomes the result of the value-level deserializer on that input". -/
theorem historyD_simulates_tree {d d' : Doc} {F F' : Forest} {as : List AOpD} (h : HistD d F as d' F') :
    WFG d F → StrOK d (d.strRefs F) → PL.GeoOK d.g → abs d' = ARunD (abs d) as := by
  induction h with
  | nil d F => intros; rfl
  | cons op hv hok _ ih =>
    intro w hs gok
    obtain ⟨a, b, c, _⟩ := stepD_refines w hs gok hv
    rw [ARunD_cons, ← stepD_simulates w hs gok hv hok]
    exact ih a b (by rw [c]; exact gok)

/-- the same with the invariant at the end -/
theorem historyD_simulates_tree_wf {d d' : Doc} {F F' : Forest} {as : List AOpD} (h : HistD d F as d' F')
    (w : WFG d F) (hs : StrOK d (d.strRefs F)) (gok : PL.GeoOK d.g) :
    WFG d' F' ∧ StrOK d' (d'.strRefs F') ∧ d'.g = d.g ∧ abs d' = ARunD (abs d) as :=
  ⟨(historyD_refines h.weak w hs gok).1, (historyD_refines h.weak w hs gok).2.1, (historyD_refines h.weak w hs gok).2.2,
    historyD_simulates_tree h w hs gok⟩

/-- a history that ends with the overflow flag down (and whose JSON configurations are real ones) is a history in which
    nothing overflowed: the flag is sticky through every operation, deserializations and copies included -/
theorem HistDW.toHistD {d d' : Doc} {F F' : Forest} {as : List AOpD} (h : HistDW d F as d' F') :
    WFG d F → StrOK d (d.strRefs F) → PL.GeoOK d.g → (∀ a ∈ as, a.CfgOK) → d'.overflowed = false →
    d.overflowed = false ∧ HistD d F as d' F' := by
  induction h with
  | nil d F => intro _ _ _ _ hov; exact ⟨hov, HistD.nil d F⟩
  | cons op hv _ ih =>
    intro w hs gok hc hov
    obtain ⟨a, b, c, _⟩ := stepD_refines w hs gok hv
    obtain ⟨h1, hh⟩ := ih a b (by rw [c]; exact gok) (fun x hx => hc x (List.mem_cons_of_mem _ hx)) hov
    obtain ⟨h0, hok⟩ := stepD_overflowed w hs gok hv (hc _ List.mem_cons_self) h1
    exact ⟨h0, HistD.cons op hv hok hh⟩

/-- the success of every step read off the overflow flag at the END of the history -/
theorem historyD_simulates_tree_of_flag {d d' : Doc} {F F' : Forest} {as : List AOpD} (h : HistDW d F as d' F')
    (w : WFG d F) (hs : StrOK d (d.strRefs F)) (gok : PL.GeoOK d.g) (hc : ∀ a ∈ as, a.CfgOK)
    (hov : d'.overflowed = false) : HistD d F as d' F' ∧ abs d' = ARunD (abs d) as := by
  obtain ⟨_, hh⟩ := h.toHistD w hs gok hc hov
  exact ⟨hh, historyD_simulates_tree hh w hs gok⟩

/-- the final abstract value depends on the abstract operations only: two histories (different stores, layouts,
    geometries, string storage kinds) standing for the same abstract operations from equal abstract documents end in
    equal abstract documents -/
theorem historyD_determined {d1 d1' d2 d2' : Doc} {F1 F1' F2 F2' : Forest} {as : List AOpD}
    (h1 : HistD d1 F1 as d1' F1') (h2 : HistD d2 F2 as d2' F2')
    (w1 : WFG d1 F1) (s1 : StrOK d1 (d1.strRefs F1)) (g1 : PL.GeoOK d1.g)
    (w2 : WFG d2 F2) (s2 : StrOK d2 (d2.strRefs F2)) (g2 : PL.GeoOK d2.g)
    (he : abs d1 = abs d2) : abs d1' = abs d2' := by
  rw [historyD_simulates_tree h1 w1 s1 g1, historyD_simulates_tree h2 w2 s2 g2, he]

/-- the extension is conservative: on the histories of `Op2` the machine is `ARun` -/
theorem historyD_of_histA {d d' : Doc} {F F' : Forest} {as : List AOp} (h : HistA d F as d' F') :
    HistD d F (as.map .base) d' F' ∧ ARunD (abs d) (as.map .base) = ARun (abs d) as :=
  ⟨h.toD, ARunD_base as _⟩

/-! ## 3. A deserialization changes only its target -/

/-- **`deserializeJson(doc[l], …)` changes only its target** - for EVERY input, configuration, nesting limit, code
    and allocation failure schedule: a location `l'` whose path parts ways with the path of `l` (it is neither `l`, nor
    inside `l`, nor does it contain `l`) is still a location of the result, at the same path, and a reference to it
    designates exactly the same abstract value. -/
theorem deser_changes_only_target (cfg : JD.Cfg) (limit : Nat) (d : Doc) (F : Forest) (l l' : Loc) (input : List Byte)
    (w : WFG d F) (hs : StrOK d (d.strRefs F)) (hl : isLoc F l) (gok : PL.GeoOK d.g) (hl' : isLoc F l')
    (hdv : Diverge (pathOf F l) (pathOf F l')) :
    isLoc (deserLayout (JDD.runAt cfg limit d l input).2.1 F l) l' ∧
    pathOf (deserLayout (JDD.runAt cfg limit d l input).2.1 F l) l' = pathOf F l' ∧
    (JDD.runAt cfg limit d l input).2.1.toVal ((JDD.runAt cfg limit d l input).2.1.get l') = d.toVal (d.get l') :=
  stepD_frame (op := .deserJ l cfg limit input) w hs gok hl hl' hdv

/-- the MessagePack twin -/
theorem mp_deser_changes_only_target (env : MD.Env) (limit : Nat) (d : Doc) (F : Forest) (l l' : Loc)
    (input : List Byte) (w : WFG d F) (hs : StrOK d (d.strRefs F)) (hl : isLoc F l) (gok : PL.GeoOK d.g)
    (hl' : isLoc F l') (hdv : Diverge (pathOf F l) (pathOf F l')) :
    isLoc (deserLayout (MDD.runAt env limit d l input).2.1 F l) l' ∧
    pathOf (deserLayout (MDD.runAt env limit d l input).2.1 F l) l' = pathOf F l' ∧
    (MDD.runAt env limit d l input).2.1.toVal ((MDD.runAt env limit d l input).2.1.get l') = d.toVal (d.get l') :=
  stepD_frame (op := .deserM l env limit input) w hs gok hl hl' hdv

/-- **A mutation changes only its target, whole histories with deserializations and copies - whatever happens in
    them.** Let `l` be a location of the initial document whose path parts ways with the path of the target of every
    operation of the history. Then `l` is still a location of the final document, at the same path, and a reference to
    it designates exactly the same abstract value as before the history. No success hypothesis: inputs may be malformed,
    allocations may fail. -/
theorem mutationD_changes_only_target {d d' : Doc} {F F' : Forest} {as : List AOpD} (h : HistDW d F as d' F') :
    WFG d F → StrOK d (d.strRefs F) → PL.GeoOK d.g → ∀ l, isLoc F l → (∀ a ∈ as, Diverge a.path (pathOf F l)) →
    isLoc F' l ∧ pathOf F' l = pathOf F l ∧ d'.toVal (d'.get l) = d.toVal (d.get l) := by
  induction h with
  | nil d F => intro _ _ _ l hl _; exact ⟨hl, rfl, rfl⟩
  | @cons d F as d' F' op hv _ ih =>
    intro w hs gok l hl hdv
    obtain ⟨a, b, c, _⟩ := stepD_refines w hs gok hv
    have h0 := hdv _ List.mem_cons_self
    rw [OpD.toA_path] at h0
    obtain ⟨hl1, hp1, hv1⟩ := stepD_frame w hs gok hv hl h0
    obtain ⟨x, y, z⟩ := ih a b (by rw [c]; exact gok) l hl1
      (fun e he => by rw [hp1]; exact hdv e (List.mem_cons_of_mem _ he))
    exact ⟨x, y.trans hp1, z.trans hv1⟩

/-- the same read off the abstract machine alone -/
theorem treeD_frame (t : Val) (as : List AOpD) (q : Path) (h : ∀ a ∈ as, Diverge a.path q) :
    getAt q (ARunD t as) = getAt q t := ARunD_frame q as t h

/-- the value at the target right after a deserialization step of the abstract machine is the value-level result -/
theorem treeD_deser_at_target (t : Val) (p : Path) (cfg : JD.Cfg) (limit : Nat) (input : List Byte) {v : Val}
    (hp : getAt p t = some v) :
    getAt p ((AOpD.deserJ p cfg limit input).step t) = some (JD.run cfg limit input).2.1 := by
  have := getAt_step_self t (.deserJ p cfg limit input)
  rw [show (AOpD.deserJ p cfg limit input).path = p from rfl, hp] at this
  exact this

end C04

/-! ## Non-vacuity (geometry ⟨4,1,1⟩). `Std.HashMap` lookups with a key ≥ 1 do not evaluate in the kernel: runs that touch
   slot 0 only are evaluated with `decide +kernel`, the facts about documents with two slots are derived from the
   theorems. -/
namespace C04.ExD
open DL C04 C04.Ex C04.Ex3
open JD (Byte Val Code)

/-- `"hi"` (JSON) -/
def hiQ : List Byte := [0x22, 0x68, 0x69, 0x22]
/-- `[1]` (JSON) -/
def arr1 : List Byte := [0x5B, 0x31, 0x5D]
/-- `[1` (JSON, incomplete) -/
def arrOpen : List Byte := [0x5B, 0x31]
/-- `[]` (JSON) -/
def arr0 : List Byte := [0x5B, 0x5D]
/-- `"hi"` (MessagePack) -/
def mHi : List Byte := [0xa2, 0x68, 0x69]
theorem h31 : 31 ≤ ({} : JD.Cfg).maxStrLen := by decide

/-! ### A. a mixed history from `[]`: `deserializeJson(doc, "[1]")`, then `deserializeMsgPack(doc[0], "hi")` INTO THE ELEMENT
   the first call created, then `doc.add()`. Every step is valid and nothing overflows (evaluated); the theorems give the
   final document `["hi", null]` (two slots: not evaluated) and its invariant. -/
def oA1 : OpD := .deserJ .root {} 10 arr1
def oA2 : OpD := .deserM (.slot 0) {} 10 mHi
def oA3 : OpD := .base (.base (.add .root))
def dA1 : Doc := oA1.run e1
def FA1 : Forest := oA1.layout e1 .nil
def dA2 : Doc := oA2.run dA1
def FA2 : Forest := oA2.layout dA1 FA1
def dA3 : Doc := oA3.run dA2
def FA3 : Forest := oA3.layout dA2 FA2

set_option maxRecDepth 100000 in
theorem okA1 : oA1.Succ e1 := ⟨h31, by decide +kernel⟩
set_option maxRecDepth 100000 in
theorem fa1 : FA1 = .cons none 0 .nil .nil := by decide +kernel
theorem lA2 : isLoc FA1 (.slot 0) := by show 0 ∈ FA1.locs; rw [fa1]; decide
theorem vA2 : oA2.Valid dA1 FA1 := lA2
set_option maxRecDepth 100000 in
theorem okA2 : oA2.Succ dA1 := by show (MDD.runAt {} 10 dA1 (.slot 0) mHi).2.1.overflowed = false; decide +kernel
set_option maxRecDepth 100000 in
theorem fa2 : FA2 = .cons none 0 .nil .nil := by decide +kernel
set_option maxRecDepth 100000 in
theorem vA3 : oA3.Valid dA2 FA2 := ⟨trivial, 0, 0, by decide +kernel⟩
set_option maxRecDepth 100000 in
theorem okA3 : oA3.Succ dA2 := by show (dA2.addElement .root).1 ≠ none; decide +kernel

/-- the abstract history the three steps stand for -/
def asA : List AOpD := [.deserJ [] {} 10 arr1, .deserM [0] {} 10 mHi, .base (.add [])]

theorem histA : HistD e1 .nil asA dA3 FA3 := by
  have h := HistD.cons oA1 trivial okA1 (HistD.cons oA2 vA2 okA2 (HistD.cons oA3 vA3 okA3 (HistD.nil _ _)))
  have e2 : oA2.toA (oA1.layout e1 .nil) = .deserM [0] {} 10 mHi := by
    show AOpD.deserM (pathOf FA1 (.slot 0)) _ _ _ = _; rw [fa1]; rfl
  rw [e2] at h; exact h

/-- `historyD_simulates_tree_wf` applies: the slot-level history computes what the tree machine computes, `["hi", null]`,
    and ends in a well-formed document -/
example : abs dA3 = ARunD (.arr []) asA ∧ ARunD (.arr []) asA = .arr [.str hi, .null] ∧ WFG dA3 FA3 ∧
    StrOK dA3 (dA3.strRefs FA3) := by
  obtain ⟨a, b, _, c⟩ := historyD_simulates_tree_wf histA w1 C04.Ex2.s1 gok
  exact ⟨c, valEq_sound _ _ (by decide +kernel), a, b⟩

/-- `mp_deser_into_value_refines` applies to the second step (an INNER location of a document built by a previous
    deserialization): code `Ok`, 3 bytes, the element holds `"hi"`, the document is `["hi"]` -/
example : (MDD.runAt {} 10 dA1 (.slot 0) mHi).1 = .ok ∧ (MDD.runAt {} 10 dA1 (.slot 0) mHi).2.2 = 3 ∧
    dA2.toVal (dA2.get (.slot 0)) = .str hi ∧ abs dA2 = .arr [.str hi] := by
  obtain ⟨w, s, g, habs⟩ : WFG dA1 FA1 ∧ StrOK dA1 (dA1.strRefs FA1) ∧ dA1.g = e1.g ∧ abs dA1 = ARunD (abs e1) [oA1.toA .nil] :=
    historyD_simulates_tree_wf (HistD.cons oA1 trivial okA1 (HistD.nil _ _)) w1 C04.Ex2.s1 gok
  have habs1 : abs dA1 = .arr [.num (.uint 1)] := habs.trans (valEq_sound _ _ (by decide +kernel))
  obtain ⟨_, _, _, _, h, _⟩ := mp_deser_into_value_refines {} 10 dA1 FA1 (.slot 0) mHi w s lA2 (by rw [g]; exact gok)
  obtain ⟨_, a, b, c, e⟩ := h okA2
  refine ⟨a.trans (by decide +kernel), b.trans (by decide +kernel), c.trans (valEq_sound _ _ (by decide +kernel)), ?_⟩
  show abs (MDD.runAt {} 10 dA1 (.slot 0) mHi).2.1 = _
  rw [e, absWith_updAt w lA2 (fun _ => (MD.run {} 10 .all mHi).2.1), habs1]
  show updAt _ (pathOf FA1 (.slot 0)) _ = _
  rw [fa1]
  exact valEq_sound _ _ (by decide +kernel)

/-! ### B. JSON into an element of `[null]` (the document `dd1` of AJ/Props/C04Rem.lean: `[]` after `add`) -/
def oJ : OpD := .deserJ (.slot 0) {} 10 hiQ
def oE : OpD := .deserJ (.slot 0) {} 10 arr0
theorem ff1 : FF1 = .cons none 0 .nil .nil := by decide +kernel
theorem l0 : isLoc FF1 (.slot 0) := by show 0 ∈ FF1.locs; rw [ff1]; decide
theorem vJ (cfg : JD.Cfg) (limit : Nat) (input : List Byte) : (OpD.deserJ (.slot 0) cfg limit input).Valid dd1 FF1 := l0
set_option maxRecDepth 100000 in
theorem okJ : oJ.Succ dd1 := ⟨h31, by decide +kernel⟩
set_option maxRecDepth 100000 in
theorem okE : oE.Succ dd1 := ⟨h31, by decide +kernel⟩

/-- `deser_into_value_refines` applies: `deserializeJson(doc[0], "\"hi\"")` and `deserializeJson(doc[0], "[]")` on `[null]` -/
example : (JDD.runAt {} 10 dd1 (.slot 0) hiQ).1 = .ok ∧ abs (JDD.runAt {} 10 dd1 (.slot 0) hiQ).2.1 = .arr [.str hi] ∧
    (JDD.runAt {} 10 dd1 (.slot 0) arr0).1 = .ok ∧ abs (JDD.runAt {} 10 dd1 (.slot 0) arr0).2.1 = .arr [.arr []] ∧
    WF (JDD.runAt {} 10 dd1 (.slot 0) arr0).2.1 := by
  obtain ⟨w, s, g, habs⟩ := st1
  have gk : PL.GeoOK dd1.g := by rw [g]; exact gok
  have key : ∀ v, absWith dd1 FF1 (.slot 0) v = .arr [v] := by
    intro v
    rw [absWith_updAt w l0 (fun _ => v), habs]
    show updAt _ (pathOf FF1 (.slot 0)) _ = _
    rw [ff1]; rfl
  obtain ⟨_, _, _, _, h1, _⟩ := deser_into_value_refines {} 10 dd1 FF1 (.slot 0) hiQ w s l0 gk h31
  obtain ⟨_, a1, _, _, e1⟩ := h1 okJ.2
  obtain ⟨wf2, _, _, _, h2, _⟩ := deser_into_value_refines {} 10 dd1 FF1 (.slot 0) arr0 w s l0 gk h31
  obtain ⟨_, a2, _, _, e2⟩ := h2 okE.2
  refine ⟨a1.trans (by decide +kernel), ?_, a2.trans (by decide +kernel), ?_, wf2⟩
  · rw [e1, key]; exact congrArg (fun v => Val.arr [v]) (valEq_sound _ _ (by decide +kernel))
  · rw [e2, key]; exact congrArg (fun v => Val.arr [v]) (valEq_sound _ _ (by decide +kernel))

/-- `[1]` and the incomplete `[1` into `doc[0]` need a second slot: the runs are not evaluated. Unconditionally the results
    are well formed and `historyD_refines` applies; by `historyD_simulates_tree_of_flag`, IF the overflow flag is down at the
    end (compiled evaluation, `#eval`, says so: the allocator of `e1` never fails), THEN the documents are `[[1]]` - for the
    complete text and, with code `IncompleteInput`, for the partial one alike -/
example (input : List Byte) (hin : input = arr1 ∨ input = arrOpen) :
    WF (JDD.runAt {} 10 dd1 (.slot 0) input).2.1 ∧
    ((JDD.runAt {} 10 dd1 (.slot 0) input).2.1.overflowed = false →
      abs (JDD.runAt {} 10 dd1 (.slot 0) input).2.1 = .arr [.arr [.num (.uint 1)]] ∧
      (JDD.runAt {} 10 dd1 (.slot 0) input).1 = (if input = arr1 then .ok else .incomplete)) := by
  obtain ⟨w, s, g, habs⟩ := st1
  have gk : PL.GeoOK dd1.g := by rw [g]; exact gok
  obtain ⟨wf, _, _, _, h1, _⟩ := deser_into_value_refines {} 10 dd1 FF1 (.slot 0) input w s l0 gk h31
  refine ⟨wf, fun hno => ?_⟩
  have hh : HistDW e1 .nil _ _ _ :=
    HistDW.cons (.base op1) v1 (HistDW.cons (.deserJ (.slot 0) {} 10 input) (vJ {} 10 input) (HistDW.nil _ _))
  obtain ⟨_, hs⟩ := historyD_simulates_tree_of_flag hh w1 C04.Ex2.s1 gok
    (by intro a ha
        rcases List.mem_cons.1 ha with e | ha
        · subst e; trivial
        · rw [List.mem_singleton] at ha; subst ha; exact h31) hno
  obtain ⟨_, a, _⟩ := h1 hno
  have hp : pathOf (op1.layout e1 .nil) (.slot 0) = [0] := by show pathOf FF1 _ = _; rw [ff1]; rfl
  refine ⟨hs.trans ?_, a.trans ?_⟩
  · show ARunD _ [AOpD.base (.add []), AOpD.deserJ (pathOf (op1.layout e1 .nil) (.slot 0)) {} 10 input] = _
    rw [hp]
    rcases hin with e | e <;> subst e <;> exact valEq_sound _ _ (by decide +kernel)
  · rcases hin with e | e <;> subst e <;> decide +kernel

/-! ### C. frame: `[null, null]` (the document `b2` of AJ/Props/C04Rem.lean, slots 0 and 1). Whatever is deserialized
   into element 0 - any text, configuration, limit, by either deserializer - element 1 keeps its path and its value. -/
theorem pg1 : pathOf G2 (.slot 1) = [1] := by decide +kernel
theorem pg0 : pathOf G2 (.slot 0) = [0] := by decide +kernel

example (cfg : JD.Cfg) (env : MD.Env) (limit : Nat) (input : List Byte) :
    pathOf (deserLayout (JDD.runAt cfg limit b2 (.slot 0) input).2.1 G2 (.slot 0)) (.slot 1) = [1] ∧
    (JDD.runAt cfg limit b2 (.slot 0) input).2.1.toVal ((JDD.runAt cfg limit b2 (.slot 0) input).2.1.get (.slot 1)) = .null ∧
    (MDD.runAt env limit b2 (.slot 0) input).2.1.toVal ((MDD.runAt env limit b2 (.slot 0) input).2.1.get (.slot 1)) = .null := by
  obtain ⟨w, s, g, habs⟩ := wb2
  have gk : PL.GeoOK b2.g := by rw [g]; exact gok
  have l0 : isLoc G2 (.slot 0) := by show 0 ∈ G2.locs; decide +kernel
  have l1 : isLoc G2 (.slot 1) := by show 1 ∈ G2.locs; decide +kernel
  have hdv : Diverge (pathOf G2 (.slot 0)) (pathOf G2 (.slot 1)) := by rw [pg0, pg1]; exact Or.inl (by decide)
  have hv1 : b2.toVal (b2.get (.slot 1)) = .null := by
    have := getAt_pathOf w l1
    rw [pg1, habs] at this
    exact (Option.some.inj this).symm
  obtain ⟨_, p, v⟩ := deser_changes_only_target cfg limit b2 G2 (.slot 0) (.slot 1) input w s l0 gk l1 hdv
  obtain ⟨_, _, v'⟩ := mp_deser_changes_only_target env limit b2 G2 (.slot 0) (.slot 1) input w s l0 gk l1 hdv
  exact ⟨p.trans pg1, v.trans hv1, v'.trans hv1⟩

/-- `mutationD_changes_only_target` applies to a whole history on `[null, null]`: two deserializations into element 0
    (any inputs), then `doc[0].clear()`; element 1 still designates null at path `[1]` -/
example (cfg : JD.Cfg) (env : MD.Env) (limit : Nat) (in1 in2 : List Byte) :
    ∃ d' F' as, HistDW b2 G2 as d' F' ∧ WFG d' F' ∧ pathOf F' (.slot 1) = [1] ∧ d'.toVal (d'.get (.slot 1)) = .null := by
  obtain ⟨w, s, g, habs⟩ := wb2
  have gk : PL.GeoOK b2.g := by rw [g]; exact gok
  have l0 : isLoc G2 (.slot 0) := by show 0 ∈ G2.locs; decide +kernel
  have l1 : isLoc G2 (.slot 1) := by show 1 ∈ G2.locs; decide +kernel
  have hdv : Diverge (pathOf G2 (.slot 0)) (pathOf G2 (.slot 1)) := by rw [pg0, pg1]; exact Or.inl (by decide)
  have hv1 : b2.toVal (b2.get (.slot 1)) = .null := by
    have := getAt_pathOf w l1
    rw [pg1, habs] at this
    exact (Option.some.inj this).symm
  -- the location `.slot 0` stays a location, at path `[0]`, as long as the operations target it
  have step1 := stepD_refines (op := .deserJ (.slot 0) cfg limit in1) w s gk l0
  obtain ⟨k1, p1⟩ := deser_keeps_target (JDD.runAt cfg limit b2 (.slot 0) in1).2.1 l0
  have step2 := stepD_refines (op := .deserM (.slot 0) env limit in2) step1.1 step1.2.1 (by rw [step1.2.2.1]; exact gk) k1
  obtain ⟨k2, p2⟩ := deser_keeps_target
    (MDD.runAt env limit (JDD.runAt cfg limit b2 (.slot 0) in1).2.1 (.slot 0) in2).2.1 k1
  have hh : HistDW b2 G2 _ _ _ :=
    HistDW.cons (.deserJ (.slot 0) cfg limit in1) l0
      (HistDW.cons (.deserM (.slot 0) env limit in2) k1
        (HistDW.cons (.base (.base (.clear (.slot 0)))) k2 (HistDW.nil _ _)))
  obtain ⟨a, _, _⟩ := historyD_refines hh w s gk
  obtain ⟨_, p, v⟩ := mutationD_changes_only_target hh w s gk (.slot 1) l1 (by
    intro x hx
    simp only [List.mem_cons, List.not_mem_nil, or_false] at hx
    rcases hx with e | e | e <;> subst e <;> rw [OpD.toA_path]
    · exact hdv
    · show Diverge (pathOf (deserLayout _ G2 (.slot 0)) (.slot 0)) _
      rw [p1]; exact hdv
    · exact Eq.mpr (congrArg (fun q => Diverge q (pathOf G2 (.slot 1))) (p2.trans p1)) hdv)
  exact ⟨_, _, _, hh, a, p.trans pg1, v.trans hv1⟩

/-! ### D. a copy from another document, then a deserialization into the copied element: the empty document `z0`, the
   document `e4 = ["hi"]` of AJ/Props/C04.lean -/
open C04.ExC in
example : ∃ d' F', HistD z0 .nil [.copyFrom [] (.arr [.str hi]), .deserJ [0] {} 10 arr0] d' F' ∧
    abs d' = .arr [.arr []] ∧ WFG d' F' := by
  have hl : copyLayout z0 .nil .root e4 (e4.get .root) = .cons none 0 .nil .nil := by decide +kernel
  have v2 : (OpD.deserJ (.slot 0) {} 10 arr0).Valid ((OpD.copyFrom .root e4 F3 .root).run z0)
      ((OpD.copyFrom .root e4 F3 .root).layout z0 .nil) := by
    show 0 ∈ (copyLayout z0 .nil .root e4 (e4.get .root)).locs; rw [hl]; decide
  have h := HistD.cons (.copyFrom .root e4 F3 .root) ⟨trivial, w4, trivial, e4_nodup⟩
      (show (copyInto z0 .root e4 (e4.get .root)).overflowed = false by decide +kernel)
    (HistD.cons (.deserJ (.slot 0) {} 10 arr0) v2
      ⟨h31, show (JDD.runAt {} 10 (copyInto z0 .root e4 (e4.get .root)) (.slot 0) arr0).2.1.overflowed = false by
        decide +kernel⟩ (HistD.nil _ _))
  have e1 : (OpD.copyFrom .root e4 F3 .root).toA .nil = .copyFrom [] (.arr [.str hi]) := by
    show AOpD.copyFrom [] (e4.toVal (e4.get .root)) = _; rw [e4_val]
  have e2 : (OpD.deserJ (.slot 0) {} 10 arr0).toA ((OpD.copyFrom .root e4 F3 .root).layout z0 .nil) =
      .deserJ [0] {} 10 arr0 := by
    show AOpD.deserJ (pathOf (copyLayout z0 .nil .root e4 (e4.get .root)) (.slot 0)) _ _ _ = _; rw [hl]; rfl
  rw [e1, e2] at h
  obtain ⟨a, _, _, c⟩ := historyD_simulates_tree_wf h wz0 sz0 gok
  exact ⟨_, _, h, c.trans (valEq_sound _ _ (by decide +kernel)), a⟩

end C04.ExD
