/- C04, removal and member creation: `removeOne` (array element), `removePair` (object member), `addMember` /
   `getOrAddMember` refine the list-level operations `eraseIdx`, `eraseP` (first member with the key), `++ [(key, null)]`
   on the abstraction `DL.abs d : JD.Val`, keep the invariant `WF = WFG ∧ StrOK`, release exactly the slots of the
   removed subtree and leave every other location alone (frame). Then the history machine of AJ/Props/C04Hist.lean is
   extended by these operations (`Op2`, `step_refines2`, `history_refines2`).
   Helper lemmas: AJ/Lemmas/DocRemove.lean, AJ/Lemmas/DocMember.lean. -/
import AJ.Lemmas.DocMember
import AJ.Props.C04Hist
namespace C04
open DL
open JD (Byte Val)

/-! ## 1. removing an array element -/

/-- `CollectionData::removeOne` on the array stored at a reachable location `l`, for the element slot `id` at position
    `k` of its chain. With `F' = eraseAt F l id` the layout in which the tree of `id` is erased from the chain of `l`:
    * the invariant `WF` (cells and string table) holds for `F'`;
    * the abstract document is the old one in which the array `xs` at `l` became `xs.eraseIdx k` (`absWith`: nothing
      else changed);
    * the geometry is unchanged;
    * a slot is live afterwards iff it was live and is not in the territory of the removed element: the slot `id`, the
      slots of the layout below it, and the extension slots (64-bit payloads) referenced by the values stored in these
      slots (`Terr d js x := x ∈ js ∨ ∃ j ∈ js, x ∈ extOfV (d.get (.slot j))`). -/
theorem removeOne_refines {d : Doc} {F : Forest} {l : Loc} {h t id k : Nat} (w : WFG d F) (hs : StrOK d (d.strRefs F))
    (hl : isLoc F l) (hv : d.get l = .arr h t) (hk : (d.chain h)[k]? = some id) :
    WFG (d.removeOne l id) (eraseAt F l id) ∧
    StrOK (d.removeOne l id) ((d.removeOne l id).strRefs (eraseAt F l id)) ∧
    (∃ xs, d.toVal (d.get l) = .arr xs ∧ k < xs.length ∧
      abs (d.removeOne l id) = absWith d F l (.arr (xs.eraseIdx k))) ∧
    (d.removeOne l id).g = d.g ∧
    (∀ x, PL.live (d.removeOne l id).g (d.removeOne l id).pl x ↔
      PL.live d.g d.pl x ∧ ¬ Terr d (id :: ((layoutAt F l).subOf id).ids) x) := by
  obtain ⟨hlt, hget⟩ := List.getElem?_eq_some_iff.1 hk
  obtain ⟨hi, hch, a, b, c, e, f, _⟩ := removeOne_arr_core w hs hl hv (hget ▸ List.getElem_mem hlt)
  have hsnd := layoutAt_nodup w.nodup hl
  have htlnd : (layoutAt F l).tl.Nodup := List.Nodup.sublist (Forest.tl_sublist _) hsnd
  have hidx : List.idxOf id (layoutAt F l).tl = k := by
    have hlt' : k < (layoutAt F l).tl.length := hch ▸ hlt
    have : (layoutAt F l).tl[k] = id := by
      rw [← hget]; simp only [hch]
    rw [← this]; exact htlnd.idxOf_getElem k hlt'
  refine ⟨a, b, ⟨(vals d noOv (layoutAt F l)).map (·.2), ?_, ?_, ?_⟩, e, f⟩
  · rw [toVal_at w hl, hv]; rfl
  · obtain ⟨xs, h1, h2⟩ := (size_spec w hl).1 h t hv
    have h3 : d.toVal (d.get l) = .arr ((vals d noOv (layoutAt F l)).map (·.2)) := by rw [toVal_at w hl, hv]; rfl
    rw [h3] at h1; injection h1 with h1
    rw [h1, ← h2, hv]; exact hlt
  · rw [c, hidx]

/-- FRAME for `removeOne`: a reachable location `l'` other than `l`, outside the removed element, whose own subtree
    contains neither `l` nor a slot of the removed element, designates exactly the same value afterwards. -/
theorem removeOne_frame {d : Doc} {F : Forest} {l l' : Loc} {h t id k : Nat} (w : WFG d F)
    (hs : StrOK d (d.strRefs F)) (hl : isLoc F l) (hv : d.get l = .arr h t) (hk : (d.chain h)[k]? = some id)
    (hl' : isLoc F l') (hne : l' ≠ l) (hout : ∀ j, l' = .slot j → j ∉ id :: ((layoutAt F l).subOf id).ids)
    (hdisj : ∀ x ∈ (layoutAt F l').ids, x ∉ id :: ((layoutAt F l).subOf id).ids ∧ Loc.slot x ≠ l) :
    (d.removeOne l id).toVal ((d.removeOne l id).get l') = d.toVal (d.get l') := by
  obtain ⟨hlt, hget⟩ := List.getElem?_eq_some_iff.1 hk
  obtain ⟨hi, _, _, _, _, _, _, R⟩ := removeOne_arr_core w hs hl hv (hget ▸ List.getElem_mem hlt)
  have hsnd := layoutAt_nodup w.nodup hl
  have hvs : VOK d (.arr h t) (layoutAt F l) := hv ▸ VOK_at w hl
  have htree : ((layoutAt F l).treeF id).ids = id :: ((layoutAt F l).subOf id).ids := by
    rw [Forest.treeF_ids hsnd hi, Forest.keyOfTop_arr _ id ((VOK_arr _ _ _ _).1 hvs).1]; rfl
  rw [← htree] at R hout hdisj
  exact removed_frame w hl hi R hl' hne hout hdisj

/-! ## 2. removing an object member -/

/-- `ObjectData::remove(key)`: `removePair` on the object stored at a reachable location `l`, for the key slot `k` and
    value slot `v` returned by `findKey`. With `F' = eraseAt F l v`:
    * `v` is a top-level value slot of the layout of `l`, `k` is its key slot, and its position in the chain is the
      position of the first member of `ms` whose key is `key`;
    * the invariant `WF` holds for `F'`;
    * the abstract document is the old one in which the member list `ms` at `l` lost the FIRST member whose key is
      `key` (`List.eraseP`), which exists and whose value is the one designated by `v`; nothing else changed;
    * a slot is live afterwards iff it was live and is not in the territory of the removed member: key slot, value slot,
      the slots below the value slot and the extension slots referenced from these. The copied key string loses one
      reference (`StrOK` for the new layout). -/
theorem removeMember_refines {d : Doc} {F : Forest} {l : Loc} {h t k v : Nat} {key : List Byte} (w : WFG d F)
    (hs : StrOK d (d.strRefs F)) (hl : isLoc F l) (hv : d.get l = .obj h t) (hf : d.findKey l key = some (k, v)) :
    v ∈ (layoutAt F l).tl ∧ (layoutAt F l).keyOfTop v = some k ∧
    WFG (d.removePair l k v) (eraseAt F l v) ∧
    StrOK (d.removePair l k v) ((d.removePair l k v).strRefs (eraseAt F l v)) ∧
    (∃ ms, d.toVal (d.get l) = .obj ms ∧
      List.idxOf v (layoutAt F l).tl = ms.findIdx (fun m => m.1 == key) ∧
      (ms.find? (fun m => m.1 == key)).map (·.2) = some (d.toVal (d.get (.slot v))) ∧
      abs (d.removePair l k v) = absWith d F l (.obj (ms.eraseP (fun m => m.1 == key)))) ∧
    (d.removePair l k v).g = d.g ∧
    (∀ x, PL.live (d.removePair l k v).g (d.removePair l k v).pl x ↔
      PL.live d.g d.pl x ∧ ¬ Terr d (k :: v :: ((layoutAt F l).subOf v).ids) x) := by
  obtain ⟨hi, hkey, hidx, a, b, c, e, f, _⟩ := removePair_core w hs hl hv hf
  obtain ⟨ms, hms, hfk⟩ := findKey_spec w hl hv key
  have h3 : d.toVal (d.get l) = .obj (vals d noOv (layoutAt F l)) := by rw [toVal_at w hl, hv]; rfl
  have hm : ms = vals d noOv (layoutAt F l) := by rw [h3] at hms; injection hms with e; exact e.symm
  refine ⟨hi, hkey, a, b, ⟨ms, hms, by rw [hidx, hm], ?_, by rw [c, hm]⟩, e, f⟩
  rw [← hfk, hf]; rfl

/-- FRAME for `removePair` -/
theorem removeMember_frame {d : Doc} {F : Forest} {l l' : Loc} {h t k v : Nat} {key : List Byte} (w : WFG d F)
    (hs : StrOK d (d.strRefs F)) (hl : isLoc F l) (hv : d.get l = .obj h t) (hf : d.findKey l key = some (k, v))
    (hl' : isLoc F l') (hne : l' ≠ l) (hout : ∀ j, l' = .slot j → j ∉ k :: v :: ((layoutAt F l).subOf v).ids)
    (hdisj : ∀ x ∈ (layoutAt F l').ids, x ∉ k :: v :: ((layoutAt F l).subOf v).ids ∧ Loc.slot x ≠ l) :
    (d.removePair l k v).toVal ((d.removePair l k v).get l') = d.toVal (d.get l') := by
  obtain ⟨hi, hkey, _, _, _, _, _, _, R⟩ := removePair_core w hs hl hv hf
  have hsnd := layoutAt_nodup w.nodup hl
  have htree : ((layoutAt F l).treeF v).ids = k :: v :: ((layoutAt F l).subOf v).ids := by
    rw [Forest.treeF_ids hsnd hi, hkey]; rfl
  rw [← htree] at R hout hdisj
  exact removed_frame w hl hi R hl' hne hout hdisj

/-! ## 3. creating a member -/

/-- `appendPair_refines` for the full invariant `WF`: the key slot accounts for the reference of its copied key -/
theorem appendPair_wf {d : Doc} {F : Forest} {l : Loc} {h t k v nk : Nat} {kv : VData} (w : WFG d F)
    (hs : StrOK d (strOfV kv ++ d.strRefs F)) (hl : isLoc F l) (hv : d.get l = .obj h t) (hk : d.cell k = .var kv nk)
    (hkey : isKey kv) (hvc : d.cell v = .var .null d.null) (hkv : k ≠ v) (hkF : k ∉ F.ids) (hvF : v ∉ F.ids)
    (hklt : k < d.null) (hvlt : v < d.null) (hklive : PL.live d.g d.pl k) (hvlive : PL.live d.g d.pl v) :
    WFG (d.appendPair l k v) (replaceAt F l ((layoutAt F l).snoc (some k) v)) ∧
    StrOK (d.appendPair l k v) ((d.appendPair l k v).strRefs (replaceAt F l ((layoutAt F l).snoc (some k) v))) ∧
    ∃ ms, d.toVal (d.get l) = .obj ms ∧
      abs (d.appendPair l k v) = absWith d F l (.obj (ms ++ [(keyOfV d kv, .null)])) :=
  ⟨(appendPair_spec w hl hv hk hkey hvc hkv hkF hvF hklt hvlt hklive hvlive).1,
    appendPair_strOK w hs hl hv hk hkey hvc hkv hkF hvF hklt hvlt hklive hvlive,
    (appendPair_spec w hl hv hk hkey hvc hkv hkF hvF hklt hvlt hklive hvlive).2⟩

/-- `ObjectData::addMember` (linked or copied key) that returns a slot `v`: with `k` the first slot handed out by the
    pool (it holds the key) the member `(key, null)` is appended to the object `ms` at `l`, nothing else changes, `WF`
    holds for the layout extended by `(k, v)`, `v` holds null, and exactly `k` and `v` became live. -/
theorem addMember_refines {d d' : Doc} {F : Forest} {l : Loc} {h t v : Nat} {key : List Byte} {linked : Bool}
    (w : WFG d F) (hs : StrOK d (d.strRefs F)) (gok : PL.GeoOK d.g) (hl : isLoc F l) (hv : d.get l = .obj h t)
    (hr : d.addMember l key linked = (some v, d')) :
    ∃ k, d.allocVariant.1 = some k ∧ k ≠ v ∧ ¬ PL.live d.g d.pl k ∧ ¬ PL.live d.g d.pl v ∧
      WFG d' (replaceAt F l ((layoutAt F l).snoc (some k) v)) ∧
      StrOK d' (d'.strRefs (replaceAt F l ((layoutAt F l).snoc (some k) v))) ∧
      (∃ ms, d.toVal (d.get l) = .obj ms ∧ abs d' = absWith d F l (.obj (ms ++ [(key, .null)]))) ∧
      d'.g = d.g ∧ d'.get (.slot v) = .null ∧
      (∀ x, PL.live d'.g d'.pl x ↔ PL.live d.g d.pl x ∨ x = k ∨ x = v) :=
  addMember_spec w hs gok hl hv hr

/-- `getOrAddMember` on a location holding an object with a member `key`: the slot of the FIRST such member is
    returned (its value is that member's value), the document is unchanged. -/
theorem getOrAddMember_found {d : Doc} {F : Forest} {l : Loc} {h t : Nat} {key : List Byte} {linked : Bool}
    {m : List Byte × Val} (w : WFG d F) (hl : isLoc F l) (hv : d.get l = .obj h t)
    (hfound : (membersAt d l).find? (fun m => m.1 == key) = some m) :
    ∃ v, d.getOrAddMember l key linked = (some v, d) ∧ d.toVal (d.get (.slot v)) = m.2 :=
  getOrAddMember_found_spec w hl hv hfound

/-- `getOrAddMember` on a location holding null or an object `ms = membersAt d l` without a member `key` (a null
    location first becomes the empty object): if a slot `v` is returned, `(key, null)` was appended (`v` holds null,
    `WF` for the extended layout, exactly the two new slots became live); if nothing is returned (an allocation failed)
    the overflow flag is set, `WF` holds for the old layout and the abstract document is the old one (with `l` an
    object). -/
theorem getOrAddMember_absent {d : Doc} {F : Forest} {l : Loc} {key : List Byte} {linked : Bool}
    (w : WFG d F) (hs : StrOK d (d.strRefs F)) (gok : PL.GeoOK d.g) (hl : isLoc F l)
    (hobj : d.get l = .null ∨ ∃ h t, d.get l = .obj h t)
    (habsent : (membersAt d l).find? (fun m => m.1 == key) = none) :
    ((d.getOrAddMember l key linked).1 = none →
      (d.getOrAddMember l key linked).2.overflowed = true ∧
      WFG (d.getOrAddMember l key linked).2 F ∧
      StrOK (d.getOrAddMember l key linked).2 ((d.getOrAddMember l key linked).2.strRefs F) ∧
      abs (d.getOrAddMember l key linked).2 = absWith d F l (.obj (membersAt d l)) ∧
      (d.getOrAddMember l key linked).2.g = d.g) ∧
    (∀ v, (d.getOrAddMember l key linked).1 = some v →
      ∃ k, d.allocVariant.1 = some k ∧ k ≠ v ∧ ¬ PL.live d.g d.pl k ∧ ¬ PL.live d.g d.pl v ∧
        WFG (d.getOrAddMember l key linked).2 (replaceAt F l ((layoutAt F l).snoc (some k) v)) ∧
        StrOK (d.getOrAddMember l key linked).2
          ((d.getOrAddMember l key linked).2.strRefs (replaceAt F l ((layoutAt F l).snoc (some k) v))) ∧
        abs (d.getOrAddMember l key linked).2 = absWith d F l (.obj (membersAt d l ++ [(key, .null)])) ∧
        (d.getOrAddMember l key linked).2.g = d.g ∧
        (d.getOrAddMember l key linked).2.get (.slot v) = .null ∧
        (∀ x, PL.live (d.getOrAddMember l key linked).2.g (d.getOrAddMember l key linked).2.pl x ↔
          PL.live d.g d.pl x ∨ x = k ∨ x = v)) :=
  getOrAddMember_absent_spec w hs gok hl hobj habsent

/-! ## 4. Histories with removal and member creation -/

/-- the operations of `C04.Op` plus `array.remove(index)`, `object.remove(key)`, `object[key]` (`getOrAddMember`) -/
inductive Op2
  | base (op : Op)
  | removeElem (l : Loc) (k : Nat)                          -- `JsonArray::remove(index)`
  | removeMember (l : Loc) (key : List Byte)                -- `JsonObject::remove(key)`
  | member (l : Loc) (key : List Byte) (linked : Bool)      -- `variant[key]` / `object[key]`: `getOrAddMember`

def Op2.run (d : Doc) : Op2 → Doc
  | .base op => op.run d
  | .removeElem l k =>
    match d.get l with
    | .arr h _ => (match (d.chain h)[k]? with | some id => d.removeOne l id | none => d)   -- iterator done: no-op
    | _ => d
  | .removeMember l key =>
    match d.findKey l key with
    | some (k, v) => d.removePair l k v
    | none => d                                                                         -- iterator done: no-op
  | .member l key linked => (d.getOrAddMember l key linked).2

/-- the operation designates a reachable location of the right kind (an index out of range, a key that is absent are
    allowed: the C++ operations are no-ops then; `member` is allowed on a null location, which becomes an object) -/
def Op2.Valid (d : Doc) (F : Forest) : Op2 → Prop
  | .base op => op.Valid d F
  | .removeElem l _ => isLoc F l ∧ ∃ h t, d.get l = .arr h t
  | .removeMember l _ => isLoc F l ∧ ∃ h t, d.get l = .obj h t
  | .member l _ _ => isLoc F l ∧ (d.get l = .null ∨ ∃ h t, d.get l = .obj h t)

/-- ghost layout after the operation -/
def Op2.layout (d : Doc) (F : Forest) : Op2 → Forest
  | .base op => op.layout d F
  | .removeElem l k =>
    match d.get l with
    | .arr h _ => (match (d.chain h)[k]? with | some id => eraseAt F l id | none => F)
    | _ => F
  | .removeMember l key =>
    match d.findKey l key with
    | some (_, v) => eraseAt F l v
    | none => F
  | .member l key linked =>
    match (membersAt d l).find? (fun m => m.1 == key) with
    | some _ => F
    | none =>
      match d.allocVariant.1, (d.getOrAddMember l key linked).1 with
      | some k, some v => replaceAt F l ((layoutAt F l).snoc (some k) v)
      | _, _ => F

/-- the list-level machine over `JD.Val`: what the abstract document becomes -/
def Op2.spec (d : Doc) (F : Forest) : Op2 → Val
  | .base op => op.spec d F
  | .removeElem l k =>
    match d.toVal (d.get l) with
    | .arr xs => absWith d F l (.arr (xs.eraseIdx k))                  -- `eraseIdx` out of range: unchanged
    | _ => abs d
  | .removeMember l key =>
    match d.toVal (d.get l) with
    | .obj ms => absWith d F l (.obj (ms.eraseP (fun m => m.1 == key)))   -- first member with the key, if any
    | _ => abs d
  | .member l key linked =>
    match (membersAt d l).find? (fun m => m.1 == key) with
    | some _ => absWith d F l (.obj (membersAt d l))                   -- present: the object as it is
    | none =>
      match (d.getOrAddMember l key linked).1 with
      | some _ => absWith d F l (.obj (membersAt d l ++ [(key, .null)]))   -- appended
      | none => absWith d F l (.obj (membersAt d l))                   -- allocation failed: `l` is an object, unchanged

/-- one step: the invariant is kept, the geometry is kept, and the abstraction follows the list-level machine -/
theorem step_refines2 {d : Doc} {F : Forest} {op : Op2} (w : WFG d F) (hs : StrOK d (d.strRefs F))
    (gok : PL.GeoOK d.g) (hv : op.Valid d F) :
    WFG (op.run d) (op.layout d F) ∧ StrOK (op.run d) ((op.run d).strRefs (op.layout d F)) ∧
    (op.run d).g = d.g ∧ abs (op.run d) = op.spec d F := by
  cases op with
  | base op => exact step_refines w hs gok hv
  | removeElem l k =>
    obtain ⟨hl, h, t, hg⟩ := hv
    obtain ⟨xs, hx1, hx2⟩ := (size_spec w hl).1 h t hg
    have hx1' : d.toVal (.arr h t) = .arr xs := hg ▸ hx1
    cases hk : (d.chain h)[k]? with
    | none =>
      simp only [Op2.run, Op2.layout, Op2.spec, hg, hx1', hk]
      have hlen : xs.length ≤ k := by
        rw [← hx2, hg]; exact List.getElem?_eq_none_iff.1 hk
      refine ⟨w, hs, trivial, ?_⟩
      rw [List.eraseIdx_of_length_le hlen, ← hx1]; exact (absWith_self w hl).symm
    | some id =>
      simp only [Op2.run, Op2.layout, Op2.spec, hg, hx1', hk]
      obtain ⟨a, b, ⟨xs', c1, _, c2⟩, e, _⟩ := removeOne_refines w hs hl hg hk
      have : xs' = xs := by rw [hx1] at c1; injection c1 with c1; exact c1.symm
      exact ⟨a, b, e, by rw [c2, this]⟩
  | removeMember l key =>
    obtain ⟨hl, h, t, hg⟩ := hv
    obtain ⟨ms, hm1, hm2⟩ := findKey_spec w hl hg key
    simp only [Op2.run, Op2.layout, Op2.spec, hm1]
    cases hf : d.findKey l key with
    | none =>
      rw [hf] at hm2
      have hnone : ms.find? (fun m => m.1 == key) = none := by
        cases hq : ms.find? (fun m => m.1 == key) with
        | none => rfl
        | some q => rw [hq] at hm2; cases hm2
      refine ⟨w, hs, rfl, ?_⟩
      rw [List.eraseP_of_forall_not (List.find?_eq_none.1 hnone), ← hm1]; exact (absWith_self w hl).symm
    | some p =>
      obtain ⟨k, v⟩ := p
      obtain ⟨_, _, a, b, ⟨ms', c1, _, _, c2⟩, e, _⟩ := removeMember_refines w hs hl hg hf
      have : ms' = ms := by rw [hm1] at c1; injection c1 with c1; exact c1.symm
      exact ⟨a, b, e, by rw [c2, this]⟩
  | member l key linked =>
    obtain ⟨hl, hobj⟩ := hv
    simp only [Op2.run, Op2.layout, Op2.spec]
    cases hfind : (membersAt d l).find? (fun m => m.1 == key) with
    | some m =>
      have hg : ∃ h t, d.get l = .obj h t := by
        rcases hobj with hnull | hg
        · exfalso
          have : membersAt d l = [] := by simp only [membersAt, hnull, toVal_null]
          rw [this] at hfind; cases hfind
        · exact hg
      obtain ⟨h, t, hg⟩ := hg
      obtain ⟨v, hr, _⟩ := getOrAddMember_found (linked := linked) w hl hg hfind
      have hm : d.toVal (d.get l) = .obj (membersAt d l) := by
        have : d.toVal (d.get l) = .obj (vals d noOv (layoutAt F l)) := by rw [toVal_at w hl, hg]; rfl
        simp only [membersAt, this]
      rw [hr]
      exact ⟨w, hs, rfl, by rw [← hm]; exact (absWith_self w hl).symm⟩
    | none =>
      obtain ⟨hfail, hok⟩ := getOrAddMember_absent (linked := linked) w hs gok hl hobj hfind
      cases hr : (d.getOrAddMember l key linked).1 with
      | none =>
        obtain ⟨_, a, b, c, e⟩ := hfail hr
        have : (match d.allocVariant.1, (none : Option Nat) with
            | some k, some v => replaceAt F l ((layoutAt F l).snoc (some k) v)
            | _, _ => F) = F := by
          cases d.allocVariant.1 <;> rfl
        simp only [this]
        exact ⟨a, b, e, c⟩
      | some v =>
        obtain ⟨k, a1, _, _, _, a5, a6, a7, a8, _, _⟩ := hok v hr
        simp only [a1]
        exact ⟨a5, a6, a8, a7⟩

/-- `Hist2 d F d' F'`: `d'` (laid out as `F'`) is reached from `d` (laid out as `F`) by a sequence of valid operations -/
inductive Hist2 : Doc → Forest → Doc → Forest → Prop
  | nil (d : Doc) (F : Forest) : Hist2 d F d F
  | cons {d : Doc} {F : Forest} {d' : Doc} {F' : Forest} (op : Op2) :
      op.Valid d F → Hist2 (op.run d) (op.layout d F) d' F' → Hist2 d F d' F'

/-- Every history of valid operations (`add`, `clear`, `put`, `removeElem`, `removeMember`, `member`) from a well-formed
    document ends in a well-formed document over the same geometry; by `step_refines2` the abstract document moves at
    each step exactly as the list-level machine `Op2.spec` says. -/
theorem history_refines2 {d d' : Doc} {F F' : Forest} (h : Hist2 d F d' F') :
    WFG d F → StrOK d (d.strRefs F) → PL.GeoOK d.g →
    WFG d' F' ∧ StrOK d' (d'.strRefs F') ∧ d'.g = d.g := by
  induction h with
  | nil d F => intro w hs _; exact ⟨w, hs, rfl⟩
  | cons op hv _ ih =>
    intro w hs gok
    obtain ⟨a, b, c, _⟩ := step_refines2 w hs gok hv
    obtain ⟨x, y, z⟩ := ih a b (by rw [c]; exact gok)
    exact ⟨x, y, by rw [z, c]⟩

/-- the abstract trace of a history: after any history, the next valid operation moves the abstract document as the
    list-level machine says -/
theorem history_trace2 {d d' : Doc} {F F' : Forest} (h : Hist2 d F d' F') :
    WFG d F → StrOK d (d.strRefs F) → PL.GeoOK d.g →
    ∀ (op : Op2), op.Valid d' F' → abs (op.run d') = op.spec d' F' := by
  intro w hs gok op hv
  obtain ⟨a, b, c⟩ := history_refines2 h w hs gok
  exact (step_refines2 a b (by rw [c]; exact gok) hv).2.2.2

end C04

/-! ## Non-vacuity: the theorems instantiated on concrete documents (geometry ⟨4,1,1⟩)
   Note: `Std.HashMap` lookups of non-zero keys do not reduce in the kernel (the bucket index goes through `USize`), so
   only one-slot documents evaluate completely with `decide +kernel`. For documents with several slots the hypotheses
   are discharged from the theorems themselves (layouts and pool states evaluate; values are read off `abs`). -/
namespace C04.Ex3
open DL C04 C04.Ex
open JD (Byte Val)
deriving instance DecidableEq for Forest

/-- kernel evaluation of an equation between abstract values -/
theorem veq {a b : Val} (h : valEqb a b = true) : a = b := valEqb_sound a b h

/-! A: the one-element array `["hi"]` (copied string): removing element 0 gives `[]`, slot 0 is released -/
example : WFG (e4.removeOne .root 0) .nil ∧ abs (e4.removeOne .root 0) = .arr [] ∧
    ¬ PL.live (e4.removeOne .root 0).g (e4.removeOne .root 0).pl 0 := by
  obtain ⟨a, _, ⟨xs, h1, _, h2⟩, _, f⟩ := removeOne_refines (k := 0) (id := 0) w4 s4 (l := .root) trivial
    (by decide +kernel : e4.get .root = .arr 0 0) (by decide +kernel)
  have hx : xs = [.str hi] := by
    have : e4.toVal (e4.get .root) = .arr [.str hi] := veq (by decide +kernel)
    rw [this] at h1; injection h1 with h1; exact h1.symm
  subst hx
  exact ⟨a, h2, fun hl => ((f 0).1 hl).2 (Or.inl (by simp))⟩

/-! B: the array `[null, null]` (slots 0 and 1) -/
def b1 : Doc := (e1.addElement .root).2
def G1 : Forest := .cons none 0 .nil .nil
def b2 : Doc := (b1.addElement .root).2
def G2 : Forest := .cons none 0 .nil (.cons none 1 .nil .nil)

theorem wb1 : WFG b1 G1 ∧ StrOK b1 (b1.strRefs G1) ∧ b1.g = g0 ∧ abs b1 = .arr [.null] := by
  obtain ⟨a, b, c, e⟩ := step_refines (op := .add .root) w1 C04.Ex2.s1 gok ⟨trivial, 255, 255, rfl⟩
  have hl : Op.layout e1 .nil (.add .root) = G1 := by decide +kernel
  rw [hl] at a b
  exact ⟨a, b, c, e.trans (veq (by decide +kernel))⟩

theorem wb2 : WFG b2 G2 ∧ StrOK b2 (b2.strRefs G2) ∧ b2.g = g0 ∧ abs b2 = .arr [.null, .null] := by
  obtain ⟨a1, a2, a3, a4⟩ := wb1
  obtain ⟨a, b, c, e⟩ := step_refines (op := .add .root) a1 a2 (by rw [a3]; exact gok) ⟨trivial, 0, 0, by decide +kernel⟩
  have hl : Op.layout b1 G1 (.add .root) = G2 := by decide +kernel
  rw [hl] at a b
  exact ⟨a, b, c.trans a3, e.trans (veq (by decide +kernel))⟩

/-- `removeOne_refines` and `removeOne_frame` apply to `[null, null]`: removing element 1 (slot 1) gives `[null]`, slot 1
    is released, and the reference to element 0 (slot 0) still designates the same value -/
example : abs (b2.removeOne .root 1) = .arr [.null] ∧ WFG (b2.removeOne .root 1) G1 ∧
    ¬ PL.live (b2.removeOne .root 1).g (b2.removeOne .root 1).pl 1 ∧
    (b2.removeOne .root 1).toVal ((b2.removeOne .root 1).get (.slot 0)) = b2.toVal (b2.get (.slot 0)) := by
  obtain ⟨w, s, _, habs⟩ := wb2
  have htv : b2.toVal (b2.get .root) = .arr [.null, .null] := habs
  obtain ⟨h, t, hv⟩ := toVal_arr_inv htv
  have hk : (b2.chain h)[1]? = some 1 := by rw [chain_of_layout w (l := .root) trivial hv]; rfl
  obtain ⟨a, _, ⟨xs, h1, _, h2⟩, _, f⟩ := removeOne_refines w s (l := .root) trivial hv hk
  have hx : xs = [.null, .null] := by rw [htv] at h1; injection h1 with h1; exact h1.symm
  subst hx
  have hfr := removeOne_frame w s (l := .root) (l' := .slot 0) trivial hv hk
    (by show 0 ∈ G2.locs; decide +kernel) (by intro e; cases e)
    (by intro j e; cases e; decide +kernel)
    (by intro x hx; have : (layoutAt G2 (.slot 0)).ids = [] := by decide +kernel
        rw [this] at hx; cases hx)
  exact ⟨h2, a, fun hl => ((f 1).1 hl).2 (Or.inl (by simp)), hfr⟩

/-! C: objects. `eo`: the empty object `{}` -/
def eo : Doc := ({ g := g0, alloc := 0, pl := PL.init g0 } : Doc).set .root (.obj 255 255)
def k2 : List Byte := [0x6b, 0x32]

theorem wo : WFG eo .nil := by
  refine ⟨⟨rfl, rfl⟩, List.nodup_nil, fun i hi => (by cases hi), PL.init_inv gok [], fun i hi => (by cases hi), ?_⟩
  intro l hl e he
  rcases mem_holders.1 hl with h | ⟨j, hj, _⟩
  · subst h; cases he
  · cases hj
theorem so : StrOK eo (eo.strRefs .nil) := ⟨by decide +kernel, by decide +kernel, by decide +kernel, by decide +kernel⟩
theorem mo (key : List Byte) : (membersAt eo .root).find? (fun m => m.1 == key) = none := rfl

/-- layout of an object with one member: key slot 0, value slot 1 -/
def H1 : Forest := .cons (some 0) 1 .nil .nil

/-- `getOrAddMember_absent` applies to `{}` (key copied into the string table): the result is `{"hi": null}`, slot 1 is
    returned and holds null, the invariant holds for the layout with key slot 0 and value slot 1 -/
def c1 : Doc := (eo.getOrAddMember .root hi false).2
theorem wc1 : WFG c1 H1 ∧ StrOK c1 (c1.strRefs H1) ∧ abs c1 = .obj [(hi, .null)] ∧ c1.g = g0 ∧
    c1.get (.slot 1) = .null := by
  obtain ⟨_, hok⟩ := getOrAddMember_absent (linked := false) wo so gok (l := .root) trivial (Or.inr ⟨255, 255, rfl⟩) (mo hi)
  obtain ⟨k, a1, _, _, _, a5, a6, a7, a8, a9, _⟩ := hok 1 (by decide +kernel)
  have hk : k = 0 := by
    have : eo.allocVariant.1 = some 0 := by decide +kernel
    rw [this] at a1; injection a1 with a1; exact a1.symm
  subst hk
  exact ⟨a5, a6, a7, a8, a9⟩

/-- ... and when the allocator fails from its first call on: nothing is returned, the overflow flag is set, the document
    is still `{}` and well-formed -/
def eof : Doc := { eo with pl := { eo.pl with failFrom := some 1 } }
theorem wof : WFG eof .nil := by
  refine ⟨⟨rfl, rfl⟩, List.nodup_nil, fun i hi => (by cases hi), PL.init_inv gok [] (some 1), fun i hi => (by cases hi), ?_⟩
  intro l hl e he
  rcases mem_holders.1 hl with h | ⟨j, hj, _⟩
  · subst h; cases he
  · cases hj
theorem sof : StrOK eof (eof.strRefs .nil) := ⟨by decide +kernel, by decide +kernel, by decide +kernel, by decide +kernel⟩
example : (eof.getOrAddMember .root hi false).2.overflowed = true ∧ abs (eof.getOrAddMember .root hi false).2 = .obj [] ∧
    WFG (eof.getOrAddMember .root hi false).2 .nil := by
  obtain ⟨hfail, _⟩ := getOrAddMember_absent (linked := false) wof sof gok (l := .root) trivial (Or.inr ⟨255, 255, rfl⟩)
    (rfl : (membersAt eof .root).find? (fun m => m.1 == hi) = none)
  obtain ⟨a, b, _, c, _⟩ := hfail (by decide +kernel)
  exact ⟨a, c, b⟩

/-- `addMember_refines` applies to `{}` with a linked key -/
example : ∃ d', eo.addMember .root hi true = (some 1, d') ∧ WFG d' H1 ∧ abs d' = .obj [(hi, .null)] ∧
    ∀ x, PL.live d'.g d'.pl x ↔ PL.live eo.g eo.pl x ∨ x = 0 ∨ x = 1 := by
  have hr : eo.addMember .root hi true = (some 1, (eo.addMember .root hi true).2) :=
    Prod.ext (by decide +kernel) rfl
  obtain ⟨k, a1, _, _, _, a5, _, ⟨ms, a6, a7⟩, _, _, a10⟩ := addMember_refines wo so gok (l := .root) trivial rfl hr
  have hk : k = 0 := by
    have : eo.allocVariant.1 = some 0 := by decide +kernel
    rw [this] at a1; injection a1 with a1; exact a1.symm
  subst hk
  have hms : ms = [] := by
    have : eo.toVal (eo.get .root) = .obj [] := rfl
    rw [this] at a6; injection a6 with a6; exact a6.symm
  subst hms
  exact ⟨_, hr, a5, a7, a10⟩

theorem mc1 : membersAt c1 .root = [(hi, .null)] := by
  have : c1.toVal (c1.get .root) = .obj [(hi, .null)] := wc1.2.2.1
  simp only [membersAt, this]

/-- `getOrAddMember_found` applies to `{"hi": null}`: the value slot of the member is returned, nothing changes -/
example : ∃ v, c1.getOrAddMember .root hi true = (some v, c1) ∧ c1.toVal (c1.get (.slot v)) = .null := by
  obtain ⟨w, _, habs, _, _⟩ := wc1
  obtain ⟨h, t, hv⟩ := toVal_obj_inv (show c1.toVal (c1.get .root) = .obj [(hi, .null)] from habs)
  exact getOrAddMember_found (m := (hi, .null)) w (l := .root) trivial hv (by rw [mc1]; rfl)

/-- `removeMember_refines` applies to `{"hi": null}` (copied key): the member found by `findKey` occupies key slot 0 and
    value slot 1; after `removePair` the document is `{}`, well-formed, both slots are released -/
example : ∃ k v, c1.findKey .root hi = some (k, v) ∧ k = 0 ∧ v = 1 ∧ abs (c1.removePair .root k v) = .obj [] ∧
    WFG (c1.removePair .root k v) .nil ∧
    ¬ PL.live (c1.removePair .root k v).g (c1.removePair .root k v).pl 0 ∧
    ¬ PL.live (c1.removePair .root k v).g (c1.removePair .root k v).pl 1 := by
  obtain ⟨w, s, habs, _, _⟩ := wc1
  have htv : c1.toVal (c1.get .root) = .obj [(hi, .null)] := habs
  obtain ⟨h, t, hv⟩ := toVal_obj_inv htv
  obtain ⟨ms, hms, hfk⟩ := findKey_first w (l := .root) trivial hv hi
  have hm : ms = [(hi, .null)] := by rw [htv] at hms; injection hms with e; exact e.symm
  subst hm
  cases hf : c1.findKey .root hi with
  | none => rw [hf] at hfk; cases hfk
  | some p =>
    obtain ⟨k, v⟩ := p
    obtain ⟨hi1, hi2, a, _, ⟨ms', c1', _, _, c3⟩, _, f⟩ := removeMember_refines w s (l := .root) trivial hv hf
    have hm' : ms' = [(hi, .null)] := by rw [htv] at c1'; injection c1' with e; exact e.symm
    subst hm'
    have hv1 : v = 1 := by simpa [layoutAt, H1, Forest.tl] using hi1
    subst hv1
    have hk0 : k = 0 := by
      have : (layoutAt H1 .root).keyOfTop 1 = some 0 := by decide +kernel
      rw [this] at hi2; injection hi2 with e; exact e.symm
    subst hk0
    exact ⟨0, 1, rfl, rfl, rfl, c3, a, fun hl => ((f 0).1 hl).2 (Or.inl (by simp)),
      fun hl => ((f 1).1 hl).2 (Or.inl (by simp))⟩

/-! the object `{"hi": null, "k2": null}` with linked keys: slots 0,1 and 2,3 -/
def m1 : Doc := (eo.getOrAddMember .root hi true).2
def m2 : Doc := (m1.getOrAddMember .root k2 true).2
def H2 : Forest := .cons (some 0) 1 .nil (.cons (some 2) 3 .nil .nil)

theorem wm1 : WFG m1 H1 ∧ StrOK m1 (m1.strRefs H1) ∧ abs m1 = .obj [(hi, .null)] ∧ m1.g = g0 := by
  obtain ⟨_, hok⟩ := getOrAddMember_absent (linked := true) wo so gok (l := .root) trivial (Or.inr ⟨255, 255, rfl⟩) (mo hi)
  obtain ⟨k, a1, _, _, _, a5, a6, a7, a8, _, _⟩ := hok 1 (by decide +kernel)
  have hk : k = 0 := by
    have : eo.allocVariant.1 = some 0 := by decide +kernel
    rw [this] at a1; injection a1 with a1; exact a1.symm
  subst hk
  exact ⟨a5, a6, a7, a8⟩

/-- the pool of `m1`, computed from the pool of `eo` (the cells of `m1` do not evaluate in the kernel) -/
theorem pm1 : m1.pl = (PL.allocSlot g0 (PL.allocSlot g0 eo.pl).2).2 := by
  have e : eo.getOrAddMember .root hi true = (toObj eo .root).addMember .root hi true :=
    getOrAddMember_absent_eq wo so (l := .root) trivial (Or.inr ⟨255, 255, rfl⟩) (mo hi)
  have ht : toObj eo .root = eo := rfl
  show (eo.getOrAddMember .root hi true).2.pl = _
  rw [e, ht, addMember_linked_pl]
  have : PL.allocSlot eo.g eo.pl = (some 0, (PL.allocSlot g0 eo.pl).2) := Prod.ext (by decide +kernel) rfl
  rw [this]; rfl

theorem mm1 : membersAt m1 .root = [(hi, .null)] := by
  have : m1.toVal (m1.get .root) = .obj [(hi, .null)] := wm1.2.2.1
  simp only [membersAt, this]

theorem wm2 : WFG m2 H2 ∧ StrOK m2 (m2.strRefs H2) ∧ abs m2 = .obj [(hi, .null), (k2, .null)] ∧ m2.g = g0 := by
  obtain ⟨w, s, habs, hg⟩ := wm1
  have htv : m1.toVal (m1.get .root) = .obj [(hi, .null)] := habs
  obtain ⟨h, t, hv⟩ := toVal_obj_inv htv
  have gok1 : PL.GeoOK m1.g := by rw [hg]; exact gok
  have habsent : (membersAt m1 .root).find? (fun m => m.1 == k2) = none := by rw [mm1]; rfl
  obtain ⟨_, hok⟩ := getOrAddMember_absent (linked := true) w s gok1 (l := .root) trivial (Or.inr ⟨h, t, hv⟩) habsent
  obtain ⟨_, _, _, _, _, _, hg0, hpl0, _⟩ := toObj_spec w s (l := .root) trivial (Or.inr ⟨h, t, hv⟩)
  have hfst : (m1.getOrAddMember .root k2 true).1 = some 3 := by
    rw [getOrAddMember_absent_eq w s (l := .root) trivial (Or.inr ⟨h, t, hv⟩) habsent, addMember_linked_fst,
      hg0, hpl0, hg, pm1]
    decide +kernel
  obtain ⟨k, a1, _, _, _, a5, a6, a7, a8, _, _⟩ := hok 3 hfst
  have hk : k = 2 := by
    have : m1.allocVariant.1 = some 2 := by rw [allocVariant_fst, hg, pm1]; decide +kernel
    rw [this] at a1; injection a1 with a1; exact a1.symm
  subst hk
  rw [mm1] at a7
  exact ⟨a5, a6, a7, a8.trans hg⟩

/-- `removeMember_refines` and `removeMember_frame` apply to `{"hi": null, "k2": null}`: removing `"hi"` (slots 0, 1)
    gives `{"k2": null}`, and the reference to the value of `"k2"` (slot 3) still designates the same value -/
example : ∃ k v, m2.findKey .root hi = some (k, v) ∧ k = 0 ∧ v = 1 ∧
    abs (m2.removePair .root k v) = .obj [(k2, .null)] ∧
    WFG (m2.removePair .root k v) (.cons (some 2) 3 .nil .nil) ∧
    (m2.removePair .root k v).toVal ((m2.removePair .root k v).get (.slot 3)) = m2.toVal (m2.get (.slot 3)) := by
  obtain ⟨w, s, habs, _⟩ := wm2
  have htv : m2.toVal (m2.get .root) = .obj [(hi, .null), (k2, .null)] := habs
  obtain ⟨h, t, hv⟩ := toVal_obj_inv htv
  obtain ⟨ms, hms, hfk⟩ := findKey_first w (l := .root) trivial hv hi
  have hm : ms = [(hi, .null), (k2, .null)] := by rw [htv] at hms; injection hms with e; exact e.symm
  subst hm
  cases hf : m2.findKey .root hi with
  | none => rw [hf] at hfk; cases hfk
  | some p =>
    obtain ⟨k, v⟩ := p
    obtain ⟨hi1, hi2, a, _, ⟨ms', c1', cidx, _, c3⟩, _, _⟩ := removeMember_refines w s (l := .root) trivial hv hf
    have hm' : ms' = [(hi, .null), (k2, .null)] := by rw [htv] at c1'; injection c1' with e; exact e.symm
    subst hm'
    have hv1 : v = 1 := by
      have h0 : List.findIdx (fun m => m.1 == hi) [(hi, Val.null), (k2, Val.null)] = 0 := by decide +kernel
      rw [h0] at cidx
      have htl : (layoutAt H2 .root).tl = [1, 3] := rfl
      rw [htl, List.idxOf_cons] at cidx
      by_cases e : (1 == v) = true
      · exact (by simpa using e : 1 = v).symm
      · simp [e] at cidx
    subst hv1
    have hk0 : k = 0 := by
      have : (layoutAt H2 .root).keyOfTop 1 = some 0 := by decide +kernel
      rw [this] at hi2; injection hi2 with e; exact e.symm
    subst hk0
    have hfr := removeMember_frame w s (l := .root) (l' := .slot 3) trivial hv hf
      (by show 3 ∈ H2.locs; decide +kernel) (by intro e; cases e)
      (by intro j e; cases e; decide +kernel)
      (by intro x hx; have : (layoutAt H2 (.slot 3)).ids = [] := by decide +kernel
          rw [this] at hx; cases hx)
    exact ⟨0, 1, rfl, rfl, rfl, c3, a, hfr⟩

/-! `appendPair_wf` applies: two fresh slots are allocated by hand, the key is linked into slot 0 -/
def a1 : Doc := eo.allocVariant.2
def a2 : Doc := a1.allocVariant.2
def a3 : Doc := a2.set (.slot 0) (.linked hi)

example : WFG (a3.appendPair .root 0 1) H1 ∧ StrOK (a3.appendPair .root 0 1) ((a3.appendPair .root 0 1).strRefs H1) ∧
    abs (a3.appendPair .root 0 1) = .obj [(hi, .null)] := by
  have h1 : eo.allocVariant = (some 0, a1) := Prod.ext (by decide +kernel) rfl
  obtain ⟨g1, _, c1, _, _, _, l1⟩ := allocVariant_some gok wo.pool h1
  have gok1 : PL.GeoOK a1.g := by rw [g1.g]; exact gok
  have h2 : a1.allocVariant = (some 1, a2) := Prod.ext (by decide +kernel) rfl
  obtain ⟨g2, _, c2, _, _, _, l2⟩ := allocVariant_some gok1 g1.pool h2
  have hp3 : PL.Inv a3.g a3.pl := by rw [show a3.pl = a2.pl from set_pl _ _ _, show a3.g = a2.g from set_g _ _ _]; exact g2.pool
  have w3 : WFG a3 .nil := by
    refine ⟨?_, List.nodup_nil, fun i hi => (by cases hi), hp3, fun i hi => (by cases hi), ?_⟩
    · have : a3.root = .obj a3.null a3.null := by decide +kernel
      rw [this]; exact ⟨rfl, rfl⟩
    · intro l hl e he
      rcases mem_holders.1 hl with h | ⟨j, hj, _⟩
      · subst h
        have : a3.get .root = .obj 255 255 := by decide +kernel
        rw [this] at he; cases he
      · cases hj
  have s3 : StrOK a3 (strOfV (.linked hi) ++ a3.strRefs .nil) :=
    ⟨by decide +kernel, by decide +kernel, by decide +kernel, by decide +kernel⟩
  have hlive : ∀ x, PL.live a3.g a3.pl x ↔ PL.live a2.g a2.pl x := fun x => by
    rw [show a3.pl = a2.pl from set_pl _ _ _, show a3.g = a2.g from set_g _ _ _]
  obtain ⟨a, b, ms, hms, habs⟩ := appendPair_wf (d := a3) (kv := .linked hi) (k := 0) (v := 1) (nk := a2.nextOf 0) w3 s3
    (l := .root) trivial (by decide +kernel : a3.get .root = .obj 255 255)
    (by show (a2.set (.slot 0) (.linked hi)).cell 0 = _; rw [cell_set_slot, if_pos rfl])
    trivial
    (by show (a2.set (.slot 0) (.linked hi)).cell 1 = _
        rw [cell_set_slot, if_neg (by decide), c2]; rfl)
    (by decide) (by simp [Forest.ids]) (by simp [Forest.ids]) (by decide +kernel) (by decide +kernel)
    ((hlive 0).2 ((l2 0).2 (Or.inl ((l1 0).2 (Or.inr rfl))))) ((hlive 1).2 ((l2 1).2 (Or.inr rfl)))
  have hm : ms = [] := by
    have : a3.toVal (a3.get .root) = .obj [] := veq (by decide +kernel)
    rw [this] at hms; injection hms with e; exact e.symm
  subst hm
  exact ⟨a, b, habs⟩

/-! D: histories over `Op2` -/

def op1 : Op2 := .base (.add .root)
def op2 : Op2 := .member (.slot 0) hi false
def op3 : Op2 := .removeElem .root 0
def dd1 : Doc := op1.run e1
def FF1 : Forest := op1.layout e1 .nil
def dd2 : Doc := op2.run dd1
def FF2 : Forest := op2.layout dd1 FF1
def dd3 : Doc := op3.run dd2
def FF3 : Forest := op3.layout dd2 FF2

theorem v1 : op1.Valid e1 .nil := ⟨trivial, 255, 255, rfl⟩
theorem st1 : WFG dd1 FF1 ∧ StrOK dd1 (dd1.strRefs FF1) ∧ dd1.g = g0 ∧ abs dd1 = .arr [.null] := by
  obtain ⟨a, b, c, e⟩ := step_refines2 w1 C04.Ex2.s1 gok v1
  exact ⟨a, b, c, e.trans (veq (by decide +kernel))⟩
theorem v2 : op2.Valid dd1 FF1 :=
  ⟨by show 0 ∈ FF1.locs; decide +kernel, Or.inl (by decide +kernel)⟩
/-- `step_refines2` applies to `member`: element 0 of `[null]` becomes the object `{"hi": null}` (key copied) -/
theorem st2 : WFG dd2 FF2 ∧ StrOK dd2 (dd2.strRefs FF2) ∧ dd2.g = g0 ∧ abs dd2 = .arr [.obj [(hi, .null)]] := by
  obtain ⟨a1, a2, a3, _⟩ := st1
  obtain ⟨a, b, c, e⟩ := step_refines2 a1 a2 (by rw [a3]; exact gok) v2
  exact ⟨a, b, c.trans a3, e.trans (veq (by decide +kernel))⟩
theorem ff2 : FF2 = .cons none 0 (.cons (some 1) 2 .nil .nil) .nil := by decide +kernel
theorem v3 : op3.Valid dd2 FF2 := ⟨trivial, toVal_arr_inv (show dd2.toVal (dd2.get .root) = _ from st2.2.2.2)⟩
/-- `step_refines2` applies to `removeElem`: the element holding `{"hi": null}` (slots 0, 1, 2 and the copied key
    string) is removed, the document is `[]` -/
theorem st3 : WFG dd3 FF3 ∧ StrOK dd3 (dd3.strRefs FF3) ∧ dd3.g = g0 ∧ abs dd3 = .arr [] := by
  obtain ⟨a1, a2, a3, a4⟩ := st2
  obtain ⟨a, b, c, e⟩ := step_refines2 a1 a2 (by rw [a3]; exact gok) v3
  refine ⟨a, b, c.trans a3, e.trans ?_⟩
  have htv : dd2.toVal (dd2.get .root) = .arr [.obj [(hi, .null)]] := a4
  simp only [op3, Op2.spec, htv]
  rfl

theorem hist3 : Hist2 e1 .nil dd3 FF3 :=
  Hist2.cons op1 v1 (Hist2.cons op2 v2 (Hist2.cons op3 v3 (Hist2.nil _ _)))

/-- `history_refines2` applies to the history `add root; root[0]["hi"]; root.remove(0)` -/
example : Hist2 e1 .nil dd3 FF3 ∧ WFG dd3 FF3 ∧ StrOK dd3 (dd3.strRefs FF3) ∧ dd3.g = e1.g ∧ abs dd3 = .arr [] :=
  ⟨hist3, (history_refines2 hist3 w1 C04.Ex2.s1 gok).1, (history_refines2 hist3 w1 C04.Ex2.s1 gok).2.1,
    (history_refines2 hist3 w1 C04.Ex2.s1 gok).2.2, st3.2.2.2⟩

/-- `history_trace2` applies: after that history, `clear root` gives null -/
example : abs ((Op2.base (.clear .root)).run dd3) = .null := by
  rw [history_trace2 hist3 w1 C04.Ex2.s1 gok (.base (.clear .root)) trivial]
  rfl

/-! the same on an object: `root["hi"]` (copied key) then `root.remove("hi")` from `{}` -/
def oo1 : Op2 := .member .root hi false
def oo2 : Op2 := .removeMember .root hi
theorem u1 : oo1.Valid eo .nil := ⟨trivial, Or.inr ⟨255, 255, rfl⟩⟩
theorem su1 : WFG (oo1.run eo) (oo1.layout eo .nil) ∧ StrOK (oo1.run eo) ((oo1.run eo).strRefs (oo1.layout eo .nil)) ∧
    (oo1.run eo).g = g0 ∧ abs (oo1.run eo) = .obj [(hi, .null)] := by
  obtain ⟨a, b, c, e⟩ := step_refines2 wo so gok u1
  exact ⟨a, b, c, e.trans (veq (by decide +kernel))⟩
theorem u2 : oo2.Valid (oo1.run eo) (oo1.layout eo .nil) :=
  ⟨trivial, toVal_obj_inv (show (oo1.run eo).toVal ((oo1.run eo).get .root) = _ from su1.2.2.2)⟩
/-- `step_refines2` applies to `removeMember`: the document is `{}` again, and well-formed -/
example : WFG (oo2.run (oo1.run eo)) (oo2.layout (oo1.run eo) (oo1.layout eo .nil)) ∧
    abs (oo2.run (oo1.run eo)) = .obj [] := by
  obtain ⟨a1, a2, a3, a4⟩ := su1
  obtain ⟨a, _, _, e⟩ := step_refines2 a1 a2 (by rw [a3]; exact gok) u2
  refine ⟨a, e.trans ?_⟩
  have htv : (oo1.run eo).toVal ((oo1.run eo).get .root) = .obj [(hi, .null)] := a4
  simp only [oo2, Op2.spec, htv]
  rfl

end C04.Ex3

