/- C05 — Allocation failure is reported and never corrupts the document.
   Proved at the slot-pool level (MemoryPoolList), for every state reachable under every failure oracle (one-shot positions and
   fail-from-k): a failed slot allocation changes no live slot, hands out nothing, keeps the pool invariant; after clear() the
   allocator works again as soon as the oracle lets a call through. The document-level statement is tied by the fault-schedule
   correspondence suite (tools/suites.py: FaultSuite) and its oracles; see DESIGN.md. -/
import AJ.Props.C19
namespace C05
open PL

/-- a failed slot allocation (allocator failure or capacity limit) leaves every live slot and the free list alone -/
theorem failed_alloc_is_clean {g : Geo} {s s' : St} (gok : GeoOK g) (hI : Inv g s) (h : allocSlot g s = (none, s')) :
    (∀ x, live g s' x ↔ live g s x) ∧ s'.free = s.free ∧ Inv g s' := C19.alloc_fail_clean gok hI h

/-- the invariant holds in every state reachable by allocSlot/freeSlot/clear/shrink under every failure oracle -/
theorem invariant_under_every_oracle {g : Geo} {f : List Nat} {k : Option Nat} {s : St} (gok : GeoOK g) (h : C19.Reach g f k s) : Inv g s :=
  C19.reach_inv gok h

/-- all memory is returned on clear(), whatever failed before -/
theorem clear_returns_everything (g : Geo) (s : St) : blocks (clear g s) = 0 ∧ (clear g s).pools = [] ∧ (clear g s).free = [] :=
  let h := C06.clear_releases_everything g s
  ⟨h.2.2.2.2.2, h.1, h.2.1⟩

/-- after clear() the allocator works normally as soon as allocation succeeds again -/
theorem usable_after_clear {g : Geo} {s : St} (gok : GeoOK g) (hI : Inv g s) (hM : 1 ≤ g.maxPools) (hok : s.failsAt (s.calls + 1) = false) :
    (allocSlot g (clear g s)).1 = some 0 := C19.usable_after_clear' gok hI hM hok
end C05
