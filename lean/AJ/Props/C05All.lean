/- Aggregate: C05 pool-level theorems (C05.lean) and document-level failure clauses (C05Doc.lean). -/
import AJ.Props.C05
import AJ.Props.C05Doc
import AJ.Props.C05Copy
import AJ.Props.C05Deser
import AJ.Props.C05MpDeser
import AJ.Props.C05FDeser
import AJ.Props.C05FMpDeser
