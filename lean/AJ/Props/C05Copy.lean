/- C05 for the deep copy `copyInto` (AJ/Model/DL.lean): whatever allocation fails during the copy (element / key /
   value slots, extension slots, string copies, pool blocks, the pool table), the destination document stays well-formed,
   every location outside the target keeps its value, nothing of the old document outside the target is released, and
   what is left at the target is a `PartialCopy` - a PREFIX - of the source value; an incomplete copy is always flagged
   `overflowed`, and (for a document that was not flagged) a flagged copy is always incomplete.
   Proof: AJ/Lemmas/DocCopy.lean (the same induction as the success case, `C04.copyInto_refines`).

   What the model does on failure (`copyIntoF` / `copyElems` / `copyMembers`; proved below):
   * a scalar or string whose extension slot / string copy could not be allocated is left null;
   * `JsonArray::set` STOPS at the first `add(element)` that reports failure: the slot could not be allocated, or the copy
     into the new slot left the document flagged - then the slot, WITH whatever was copied into it, is released again
     (`DL.free_built`). The array holds complete copies of a prefix of the elements; there is no partial last element.
   * `JsonObject::set` STOPS at the first member that reports failure: the member could not be added (slots already
     obtained for it stay live but unreachable, as in `C05.add_member_fail_clean`), or the copy of its value left the
     document flagged - that member stays, with its key and a partial copy of its value (possibly null), as the LAST
     member. There is never a member without key or without value slot (object chains of a `WFG` document alternate
     key and value slots).
   * every `set` reports `!overflowed()` and the flag is sticky: in a document that is ALREADY flagged each loop stops
     after its first round although no allocation fails (`copy_into_flagged_document`: arrays are left empty, objects
     keep their first member only, scalars and strings are still copied).
   Evidence (compiled evaluation with `#eval`; these need more than one slot, so the kernel cannot evaluate them, see
   the note in `C04.ExC`): geometry `⟨2,1,1,16,16⟩` (2 slots per pool), source `[1,2,3,4,5]`, allocator failing at
   call k: k=1 gives `[]`, k=2 and k=3 give `[1,2]`, k=4 and k=5 give `[1,2,3,4]`, all flagged; no failure gives
   `[1,2,3,4,5]`, not flagged. Geometry `⟨4,1,1,16,16⟩`, source `{"a":"hi","b":2}` (copied string value): failure at
   call 1 gives `{}`, at call 2 (the string copy) gives `{"a":null}`, both flagged. Into an already flagged empty
   document, without any failure: `{"a":"hi","b":2}` gives `{"a":"hi"}`, `[1,2,3,4,5]` gives `[]`, `"hi"` gives `"hi"`. -/
import AJ.Props.C04Copy
namespace C05
open DL
open JD (Byte Val)

/-- FAILURE-SAFE COPY. Same hypotheses as `C04.copyInto_refines` but NO assumption on the allocator, on the overflow
    flag of `d`, or on what the target location holds (the copy clears it first): for every outcome of the
    allocations, the result is well-formed (cells and string table) for the layout `C04.copyLayout`, over the same
    geometry; the abstract document is the old one in which only the value at `l` changed (`absWith`: every location
    outside `l` keeps its value; `Keep`: cell by cell); the value now at `l` is a `PartialCopy` (a prefix, see
    `DL.PartialCopy`) of the complete copy of the source value; if it is not the complete copy then the result is
    flagged `overflowed`; the flag is never reset; conversely, if the flag was not set before and is set after (some
    allocation of this copy failed), then the copy IS incomplete; and every slot of the old document outside the
    subtree cleared at `l` stays live (nothing else is released). -/
theorem copy_fail_safe {d src : Doc} {F Fs : Forest} {l ls : Loc}
    (w : WFG d F) (hs : StrOK d (d.strRefs F)) (gok : PL.GeoOK d.g) (hl : isLoc F l)
    (ws : WFG src Fs) (hls : isLoc Fs ls) (hnd : NoDupKeys (src.toVal (src.get ls))) :
    WFG (copyInto d l src (src.get ls)) (C04.copyLayout d F l src (src.get ls)) ∧
    StrOK (copyInto d l src (src.get ls))
      ((copyInto d l src (src.get ls)).strRefs (C04.copyLayout d F l src (src.get ls))) ∧
    (copyInto d l src (src.get ls)).g = d.g ∧
    abs (copyInto d l src (src.get ls)) =
      absWith d F l ((copyInto d l src (src.get ls)).toVal ((copyInto d l src (src.get ls)).get l)) ∧
    PartialCopy ((copyInto d l src (src.get ls)).toVal ((copyInto d l src (src.get ls)).get l))
      (copyVal (src.toVal (src.get ls))) ∧
    ((copyInto d l src (src.get ls)).toVal ((copyInto d l src (src.get ls)).get l) ≠ copyVal (src.toVal (src.get ls)) →
      (copyInto d l src (src.get ls)).overflowed = true) ∧
    (d.overflowed = true → (copyInto d l src (src.get ls)).overflowed = true) ∧
    (d.overflowed = false → (copyInto d l src (src.get ls)).overflowed = true →
      (copyInto d l src (src.get ls)).toVal ((copyInto d l src (src.get ls)).get l) ≠ copyVal (src.toVal (src.get ls))) ∧
    (∀ x ∈ F.ids, x ∉ (layoutAt F l).ids →
      PL.live (copyInto d l src (src.get ls)).g (copyInto d l src (src.get ls)).pl x) ∧
    Keep d (copyInto d l src (src.get ls)) F l := by
  obtain ⟨a, b, g, c, p, e, ov, inc, _, _, lv, k⟩ :=
    copyInto_doc_gen w hs gok hl (VOK_at ws hls) (C04.src_fuel_ok ws hls) hnd
  refine ⟨a, b, g, c, p, ?_, ov, inc, lv, k⟩
  intro hne
  cases h : (copyInto d l src (src.get ls)).overflowed with
  | true => rfl
  | false => exact absurd (e h) hne

/-- For a document that was not flagged: the copy is flagged `overflowed` EXACTLY WHEN it is incomplete. -/
theorem copy_flag_iff_incomplete {d src : Doc} {F Fs : Forest} {l ls : Loc}
    (w : WFG d F) (hs : StrOK d (d.strRefs F)) (gok : PL.GeoOK d.g) (hl : isLoc F l)
    (ws : WFG src Fs) (hls : isLoc Fs ls) (hnd : NoDupKeys (src.toVal (src.get ls))) (hov : d.overflowed = false) :
    (copyInto d l src (src.get ls)).overflowed = true ↔
      (copyInto d l src (src.get ls)).toVal ((copyInto d l src (src.get ls)).get l) ≠ copyVal (src.toVal (src.get ls)) := by
  obtain ⟨_, _, _, _, _, a, _, b, _⟩ := copy_fail_safe w hs gok hl ws hls hnd
  exact ⟨b hov, a⟩

/-- COPY INTO AN ALREADY FLAGGED DOCUMENT (`d.overflowed = true`): every `set` reports `!overflowed()`, so every loop
    stops after its first round although no allocation need fail. The result is still well-formed and flagged, every
    location outside `l` keeps its value, and the value left at `l` is a `FlaggedCopy` of the complete copy: a scalar
    or string is copied (or left null if its own allocation fails), an array is left EMPTY, an object keeps at most its
    FIRST member (with its key), whose value is again a flagged copy. -/
theorem copy_into_flagged_document {d src : Doc} {F Fs : Forest} {l ls : Loc}
    (w : WFG d F) (hs : StrOK d (d.strRefs F)) (gok : PL.GeoOK d.g) (hl : isLoc F l)
    (ws : WFG src Fs) (hls : isLoc Fs ls) (hnd : NoDupKeys (src.toVal (src.get ls))) (hov : d.overflowed = true) :
    WFG (copyInto d l src (src.get ls)) (C04.copyLayout d F l src (src.get ls)) ∧
    StrOK (copyInto d l src (src.get ls))
      ((copyInto d l src (src.get ls)).strRefs (C04.copyLayout d F l src (src.get ls))) ∧
    (copyInto d l src (src.get ls)).overflowed = true ∧
    abs (copyInto d l src (src.get ls)) =
      absWith d F l ((copyInto d l src (src.get ls)).toVal ((copyInto d l src (src.get ls)).get l)) ∧
    FlaggedCopy ((copyInto d l src (src.get ls)).toVal ((copyInto d l src (src.get ls)).get l))
      (copyVal (src.toVal (src.get ls))) := by
  obtain ⟨a, b, _, c, _, _, ov, _, fl, _⟩ :=
    copyInto_doc_gen w hs gok hl (VOK_at ws hls) (C04.src_fuel_ok ws hls) hnd
  exact ⟨a, b, ov hov, c, fl hov⟩

/-- FRAME under failure: every other reachable location `l'` outside the subtree cleared at `l`, whose own subtree
    contains neither `l` nor anything of that subtree, designates exactly the same value after the copy, whatever failed. -/
theorem copy_fail_frame {d src : Doc} {F Fs : Forest} {l ls l' : Loc}
    (w : WFG d F) (hs : StrOK d (d.strRefs F)) (gok : PL.GeoOK d.g) (hl : isLoc F l)
    (ws : WFG src Fs) (hls : isLoc Fs ls) (hnd : NoDupKeys (src.toVal (src.get ls)))
    (hl' : isLoc F l') (hne : l' ≠ l) (hout : ∀ j, l' = .slot j → j ∉ (layoutAt F l).ids)
    (hdisj : ∀ x ∈ (layoutAt F l').ids, x ∉ (layoutAt F l).ids ∧ Loc.slot x ≠ l) :
    (copyInto d l src (src.get ls)).toVal ((copyInto d l src (src.get ls)).get l') = d.toVal (d.get l') :=
  (C04.copyInto_frame w hs gok hl ws hls hnd hl' hne hout hdisj).2

/-! ## What `PartialCopy` and `FlaggedCopy` allow (inversion) -/

/-- a partially copied string is the string, or null -/
theorem partial_str {x : Val} {s : List Byte} (h : PartialCopy x (.str s)) : x = .str s ∨ x = .null := by
  cases h
  · exact Or.inl rfl
  · exact Or.inr rfl

/-- a partially copied number is the number, or null -/
theorem partial_num {x : Val} {n : JD.Num} (h : PartialCopy x (.num n)) : x = .num n ∨ x = .null := by
  cases h
  · exact Or.inl rfl
  · exact Or.inr rfl

/-- a partially copied array is an array holding a PREFIX of the elements, each one complete (never null: the target
    was made an array before the first element) -/
theorem partial_arr {x : Val} {xs : List Val} (h : PartialCopy x (.arr xs)) : ∃ xs', x = .arr xs' ∧ xs' <+: xs := by
  cases h
  · exact ⟨xs, rfl, List.prefix_refl _⟩
  · rename_i h; cases h
  · rename_i xs' h; exact ⟨xs', rfl, h⟩

/-- a partially copied object is an object whose members are a prefix of the members, all complete but possibly the last
    one, which has its key and a partial copy of its value -/
theorem partial_obj {x : Val} {ms : List (List Byte × Val)} (h : PartialCopy x (.obj ms)) :
    ∃ ms', x = .obj ms' ∧ PartialM ms' ms := by
  cases h
  · exact ⟨ms, rfl, PartialM.pre (List.prefix_refl _)⟩
  · rename_i h; cases h
  · rename_i ms' h; exact ⟨ms', rfl, h⟩

/-- the members left: a prefix, or a prefix followed by one member with the source key and a partial value -/
theorem partial_members : ∀ {ms' ms : List (List Byte × Val)}, PartialM ms' ms →
    ms' <+: ms ∨ ∃ p k v' v rest, ms' = p ++ [(k, v')] ∧ ms = p ++ (k, v) :: rest ∧ PartialCopy v' v
  | _, _, .pre h => Or.inl h
  | _, _, .last (p := p) (k := k) (v' := v') (v := v) (rest := rest) h => Or.inr ⟨p, k, v', v, rest, rfl, rfl, h⟩

/-- the keys left are a prefix of the source keys: every member left has its key, in source order, nothing is skipped -/
theorem partial_obj_keys : ∀ {ms' ms : List (List Byte × Val)}, PartialM ms' ms →
    (ms'.map (·.1)) <+: (ms.map (·.1))
  | _, _, .pre h => by
    obtain ⟨t, rfl⟩ := h
    exact ⟨t.map (·.1), by rw [List.map_append]⟩
  | _, _, .last (p := p) (k := k) (rest := rest) _ =>
    ⟨rest.map (·.1), by simp [List.map_append]⟩

/-- in a flagged document an array is left empty -/
theorem flagged_arr {x : Val} {xs : List Val} (h : FlaggedCopy x (.arr xs)) : x = .arr [] := by
  cases h
  · rename_i h; cases h
  · rename_i h; cases h
  · rfl

/-- in a flagged document an object keeps at most its first member -/
theorem flagged_obj {x : Val} {ms : List (List Byte × Val)} (h : FlaggedCopy x (.obj ms)) :
    x = .obj [] ∨ ∃ k x' v rest, ms = (k, v) :: rest ∧ x = .obj [(k, x')] ∧ FlaggedCopy x' v := by
  cases h
  · rename_i h; cases h
  · rename_i h; cases h
  · exact Or.inl rfl
  · rename_i k x' v rest h; exact Or.inr ⟨k, x', v, rest, rfl, rfl, h⟩

/-- in a flagged document a string is still copied, unless its own allocation fails -/
theorem flagged_str {x : Val} {s : List Byte} (h : FlaggedCopy x (.str s)) : x = .str s ∨ x = .null := by
  cases h
  · exact Or.inl rfl
  · exact Or.inr rfl

/-! `PartialCopy` is not the trivial relation -/
example : ¬ PartialCopy (.bool true) (.bool false) := by intro h; cases h
example : ¬ PartialCopy (.arr [.null]) (.arr [.str [0x68]]) := by
  intro h
  obtain ⟨xs', e, t, ht⟩ := partial_arr h
  injection e with e
  subst e
  injection ht with h1 _
  cases h1

/-! ## Non-vacuity -/
namespace Ex
open C04.Ex C04.ExC

/-- the empty document with an allocator that fails from its first call on -/
def z0f : Doc := { z0 with pl := { z0.pl with failFrom := some 1 } }
/-- the empty document with an allocator whose second call fails (the first one, the pool block, succeeds) -/
def z0g : Doc := { z0 with pl := { z0.pl with failAt := [2] } }
/-- the empty document, already flagged `overflowed`, with an allocator that never fails -/
def zfl : Doc := { z0 with overflowed := true }

theorem wfg_null_root {d : Doc} (hr : d.root = .null) (hp : PL.Inv d.g d.pl) : WFG d .nil := by
  refine ⟨by rw [hr]; rfl, List.nodup_nil, fun i hi => (by cases hi), hp, fun i hi => (by cases hi), ?_⟩
  intro l hl e he
  rcases mem_holders.1 hl with h | ⟨j, hj, _⟩
  · subst h; rw [show d.get .root = d.root from rfl, hr] at he; cases he
  · cases hj

theorem wz0f : WFG z0f .nil := wfg_null_root rfl (PL.init_inv gok [] (some 1))
theorem sz0f : StrOK z0f (z0f.strRefs .nil) := ⟨by decide +kernel, by decide +kernel, by decide +kernel, by decide +kernel⟩
theorem wz0g : WFG z0g .nil := wfg_null_root rfl (PL.init_inv gok [2])
theorem sz0g : StrOK z0g (z0g.strRefs .nil) := ⟨by decide +kernel, by decide +kernel, by decide +kernel, by decide +kernel⟩
theorem wzfl : WFG zfl .nil := wfg_null_root rfl (PL.init_inv gok [])
theorem szfl : StrOK zfl (zfl.strRefs .nil) := ⟨by decide +kernel, by decide +kernel, by decide +kernel, by decide +kernel⟩

/-- `copy_fail_safe` applies, allocator failing from the start: copying `["hi"]` leaves the EMPTY array at the root (the
    element slot could not be allocated), flagged, well-formed; `[]` is a prefix of `["hi"]` -/
example : WFG (copyInto z0f .root e4 (e4.get .root)) .nil ∧ abs (copyInto z0f .root e4 (e4.get .root)) = .arr [] ∧
    (copyInto z0f .root e4 (e4.get .root)).overflowed = true ∧ PartialCopy (.arr []) (.arr [.str hi]) := by
  obtain ⟨a, _, _, c, p, _⟩ := copy_fail_safe (l := .root) (ls := .root) wz0f sz0f gok trivial w4 trivial e4_nodup
  have hl : C04.copyLayout z0f .nil .root e4 (e4.get .root) = .nil := by decide +kernel
  have hv : (copyInto z0f .root e4 (e4.get .root)).toVal ((copyInto z0f .root e4 (e4.get .root)).get .root) = .arr [] :=
    valEq_sound _ _ (by decide +kernel)
  rw [hl] at a
  rw [hv] at c p
  rw [e4_val] at p
  exact ⟨a, c, by decide +kernel, p⟩

/-- `copy_fail_safe` applies, string copy failing: the element slot is obtained, the copy of `"hi"` into it fails, and the
    slot is RELEASED again: the root is the empty array (not `[null]`), flagged, well-formed over no slot, and slot 0
    is not live any more -/
example : WFG (copyInto z0g .root e4 (e4.get .root)) .nil ∧
    abs (copyInto z0g .root e4 (e4.get .root)) = .arr [] ∧
    (copyInto z0g .root e4 (e4.get .root)).overflowed = true ∧
    (copyInto z0g .root e4 (e4.get .root)).pl.free = [0] := by
  obtain ⟨a, _, _, c, _⟩ := copy_fail_safe (l := .root) (ls := .root) wz0g sz0g gok trivial w4 trivial e4_nodup
  have hl : C04.copyLayout z0g .nil .root e4 (e4.get .root) = .nil := by decide +kernel
  have hv : (copyInto z0g .root e4 (e4.get .root)).toVal ((copyInto z0g .root e4 (e4.get .root)).get .root) = .arr [] :=
    valEq_sound _ _ (by decide +kernel)
  rw [hl] at a
  rw [hv] at c
  exact ⟨a, c, by decide +kernel, by decide +kernel⟩

/-- `copy_fail_safe` applies to a string value (no loop): the string copy fails, the value is left null, flagged -/
example : abs (copyInto z0f .root e4 (e4.get (.slot 0))) = .null ∧
    (copyInto z0f .root e4 (e4.get (.slot 0))).overflowed = true ∧ PartialCopy .null (.str hi) := by
  have hn : NoDupKeys (e4.toVal (e4.get (.slot 0))) := by
    rw [show e4.toVal (e4.get (.slot 0)) = .str hi from valEq_sound _ _ (by decide +kernel)]; trivial
  obtain ⟨_, _, _, c, p, _⟩ := copy_fail_safe (l := .root) (ls := .slot 0) wz0f sz0f gok trivial w4 loc0 hn
  have hv : (copyInto z0f .root e4 (e4.get (.slot 0))).toVal ((copyInto z0f .root e4 (e4.get (.slot 0))).get .root) =
      .null := valEq_sound _ _ (by decide +kernel)
  rw [hv] at c p
  rw [show copyVal (e4.toVal (e4.get (.slot 0))) = .str hi from valEq_sound _ _ (by decide +kernel)] at p
  exact ⟨c, by decide +kernel, p⟩

/-- the clause "incomplete ⇒ flagged" is used with a true premise here: `[] ≠ ["hi"]` -/
example : (copyInto z0g .root e4 (e4.get .root)).overflowed = true := by
  obtain ⟨_, _, _, _, _, f, _⟩ := copy_fail_safe (l := .root) (ls := .root) wz0g sz0g gok trivial w4 trivial e4_nodup
  refine f ?_
  have hv : (copyInto z0g .root e4 (e4.get .root)).toVal ((copyInto z0g .root e4 (e4.get .root)).get .root) = .arr [] :=
    valEq_sound _ _ (by decide +kernel)
  rw [hv, e4_val]
  intro h
  injection h with h
  cases h

/-- `copy_flag_iff_incomplete` applies (the document was not flagged, the copy is): the value left is not the
    complete copy -/
example : (copyInto z0g .root e4 (e4.get .root)).toVal ((copyInto z0g .root e4 (e4.get .root)).get .root) ≠
    copyVal (e4.toVal (e4.get .root)) :=
  (copy_flag_iff_incomplete (l := .root) (ls := .root) wz0g sz0g gok trivial w4 trivial e4_nodup (by decide +kernel)).1
    (by decide +kernel)

/-- `copy_into_flagged_document` applies: into the flagged empty document, `["hi"]` is copied as the EMPTY array although
    no allocation fails (slot 0 and the string node are obtained, then released); the result is well-formed -/
example : WFG (copyInto zfl .root e4 (e4.get .root)) .nil ∧ abs (copyInto zfl .root e4 (e4.get .root)) = .arr [] ∧
    FlaggedCopy (.arr []) (.arr [.str hi]) ∧ (copyInto zfl .root e4 (e4.get .root)).strings = [] := by
  obtain ⟨a, _, _, c, p⟩ := copy_into_flagged_document (l := .root) (ls := .root) wzfl szfl gok trivial w4 trivial
    e4_nodup rfl
  have hl : C04.copyLayout zfl .nil .root e4 (e4.get .root) = .nil := by decide +kernel
  have hv : (copyInto zfl .root e4 (e4.get .root)).toVal ((copyInto zfl .root e4 (e4.get .root)).get .root) = .arr [] :=
    valEq_sound _ _ (by decide +kernel)
  rw [hl] at a
  rw [hv] at c p
  rw [e4_val] at p
  exact ⟨a, c, p, by decide +kernel⟩

/-- `copy_into_flagged_document` applies to a string: it IS copied into the flagged document -/
example : abs (copyInto zfl .root e4 (e4.get (.slot 0))) = .str hi := by
  have hn : NoDupKeys (e4.toVal (e4.get (.slot 0))) := by
    rw [show e4.toVal (e4.get (.slot 0)) = .str hi from valEq_sound _ _ (by decide +kernel)]; trivial
  obtain ⟨_, _, _, c, _⟩ := copy_into_flagged_document (l := .root) (ls := .slot 0) wzfl szfl gok trivial w4 loc0 hn rfl
  rw [c]
  exact valEq_sound _ _ (by decide +kernel)

/-- a history containing a copy whose allocations fail still ends in a well-formed document (`C04.historyC_refines`) -/
example : ∃ d' F', C04.HistC z0g .nil d' F' ∧ WFG d' F' ∧ d'.overflowed = true := by
  have h : C04.HistC z0g .nil _ _ :=
    C04.HistC.cons (.copyFrom .root e4 F3 .root) ⟨trivial, w4, trivial, e4_nodup⟩ (C04.HistC.nil _ _)
  exact ⟨_, _, h, (C04.historyC_refines h wz0g sz0g gok).1, by decide +kernel⟩

/-- `copy_fail_frame` applies: `["hi"]` copied into element 1 of the two-slot document `[true, null]` (`C04.ExC.e6`), whatever
    happens to its allocations, leaves element 0 alone -/
example : (copyInto e6 (.slot 1) e4 (e4.get .root)).toVal ((copyInto e6 (.slot 1) e4 (e4.get .root)).get (.slot 0)) =
    .bool true := by
  have h := copy_fail_frame (l := .slot 1) (ls := .root) (l' := .slot 0) w6.1 w6.2 gok6 loc5_1 w4 trivial
    e4_nodup loc5_0 (by intro h; cases h) (fun j hj => by rw [lay5_1]; exact fun h => by cases h)
    (fun x hx => by rw [lay5_0] at hx; cases hx)
  rw [h, e6_cells.1]; rfl

end Ex
end C05
