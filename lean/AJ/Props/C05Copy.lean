/- C05 for the deep copy `copyInto` (AJ/Model/DL.lean): whatever allocation fails during the copy (element / key /
   value slots, extension slots, string copies, pool blocks, the pool table), the destination document stays well-formed,
   every location outside the target keeps its value, nothing of the old document is released, and what is left at the
   target is a `PartialCopy` of the source value; an incomplete copy is always flagged `overflowed`.
   Proof: AJ/Lemmas/DocCopy.lean (the same induction as the success case, `C04.copyInto_refines`).

   What the model leaves behind (read off `copyIntoF` / `copyMembers`, and proved below):
   * a scalar or string whose extension slot / string copy could not be allocated is left null;
   * `JsonArray::set`: an element whose slot could not be allocated is skipped and THE FOLLOWING ONES ARE STILL ATTEMPTED:
     the result is a sub-sequence, not necessarily a prefix. Evidence (compiled evaluation with `#eval`; more than one slot,
     so the kernel cannot evaluate it): geometry `⟨2,1,1,16,16⟩` (2 slots per pool), allocator with `failAt := [3]`
     (the block of the second pool), source `[1,2,3,4,5]`: the copy `c` has `c.show c.root = "[I1,I2,I4,I5]"`,
     `c.overflowed = true`, allocator log (most recent first) `["A32","R64","A32!","A32","A32"]`. An element whose slot was obtained is
     always linked, with a partial copy of its value (possibly null);
   * `JsonObject::set`: a member whose key slot, value slot or key copy could not be allocated is skipped (slots already
     obtained for it stay live but unreachable, as in `C05.add_member_fail_clean`); a member that was added has exactly the
     source key and a partial copy of the value. There is never a member without key or without value slot (object
     chains of a `WFG` document alternate key and value slots). -/
import AJ.Props.C04Copy
namespace C05
open DL
open JD (Byte Val)

/-- FAILURE-SAFE COPY. Same hypotheses as `C04.copyInto_refines` but NO assumption on the allocator (and none on what
    the target location holds: the copy clears it first): for every outcome of the allocations, the result is
    well-formed (cells and string table) for the layout `C04.copyLayout`, over the same geometry; the abstract document
    is the old one in which only the value at `l` changed (`absWith`: every location outside `l` keeps its value; `Keep`:
    cell by cell); the value now at `l` is a `PartialCopy` of the (complete) copy of the source value; if it is not the
    complete copy then the result is flagged `overflowed`; the flag is never reset; conversely, if the flag was not set
    before and is set after (some allocation of this copy failed), then the copy IS incomplete (a failed allocation
    always costs an element, a member, or a value left null); and every slot of the old document outside the subtree
    cleared at `l` stays live (nothing else is released). -/
theorem copy_fail_safe {d src : Doc} {F Fs : Forest} {l ls : Loc}
    (w : WFG d F) (hs : StrOK d (d.strRefs F)) (gok : PL.GeoOK d.g) (hl : isLoc F l)
    (ws : WFG src Fs) (hls : isLoc Fs ls) (hnd : NoDupKeys (src.toVal (src.get ls))) :
    WFG (copyInto d l src (src.get ls)) (C04.copyLayout d F l src (src.get ls)) ∧
    StrOK (copyInto d l src (src.get ls))
      ((copyInto d l src (src.get ls)).strRefs (C04.copyLayout d F l src (src.get ls))) ∧
    (copyInto d l src (src.get ls)).g = d.g ∧
    abs (copyInto d l src (src.get ls)) =
      absWith d F l ((copyInto d l src (src.get ls)).toVal ((copyInto d l src (src.get ls)).get l)) ∧
    PartialCopy ((copyInto d l src (src.get ls)).toVal ((copyInto d l src (src.get ls)).get l))
      (copyVal (src.toVal (src.get ls))) ∧
    ((copyInto d l src (src.get ls)).toVal ((copyInto d l src (src.get ls)).get l) ≠ copyVal (src.toVal (src.get ls)) →
      (copyInto d l src (src.get ls)).overflowed = true) ∧
    (d.overflowed = true → (copyInto d l src (src.get ls)).overflowed = true) ∧
    (d.overflowed = false → (copyInto d l src (src.get ls)).overflowed = true →
      (copyInto d l src (src.get ls)).toVal ((copyInto d l src (src.get ls)).get l) ≠ copyVal (src.toVal (src.get ls))) ∧
    (∀ x ∈ F.ids, x ∉ (layoutAt F l).ids →
      PL.live (copyInto d l src (src.get ls)).g (copyInto d l src (src.get ls)).pl x) ∧
    Keep d (copyInto d l src (src.get ls)) F l := by
  obtain ⟨a, b, g, c, p, e, ov, inc, _, lv, k⟩ :=
    copyInto_doc_gen w hs gok hl (VOK_at ws hls) (C04.src_fuel_ok ws hls) hnd
  refine ⟨a, b, g, c, p, ?_, ov, inc, lv, k⟩
  intro hne
  cases h : (copyInto d l src (src.get ls)).overflowed with
  | true => rfl
  | false => exact absurd (e h) hne

/-- For a document that was not flagged: the copy is flagged `overflowed` EXACTLY WHEN it is incomplete. -/
theorem copy_flag_iff_incomplete {d src : Doc} {F Fs : Forest} {l ls : Loc}
    (w : WFG d F) (hs : StrOK d (d.strRefs F)) (gok : PL.GeoOK d.g) (hl : isLoc F l)
    (ws : WFG src Fs) (hls : isLoc Fs ls) (hnd : NoDupKeys (src.toVal (src.get ls))) (hov : d.overflowed = false) :
    (copyInto d l src (src.get ls)).overflowed = true ↔
      (copyInto d l src (src.get ls)).toVal ((copyInto d l src (src.get ls)).get l) ≠ copyVal (src.toVal (src.get ls)) := by
  obtain ⟨_, _, _, _, _, a, _, b, _⟩ := copy_fail_safe w hs gok hl ws hls hnd
  exact ⟨b hov, a⟩

/-- FRAME under failure: every other reachable location `l'` outside the subtree cleared at `l`, whose own subtree
    contains neither `l` nor anything of that subtree, designates exactly the same value after the copy, whatever failed. -/
theorem copy_fail_frame {d src : Doc} {F Fs : Forest} {l ls l' : Loc}
    (w : WFG d F) (hs : StrOK d (d.strRefs F)) (gok : PL.GeoOK d.g) (hl : isLoc F l)
    (ws : WFG src Fs) (hls : isLoc Fs ls) (hnd : NoDupKeys (src.toVal (src.get ls)))
    (hl' : isLoc F l') (hne : l' ≠ l) (hout : ∀ j, l' = .slot j → j ∉ (layoutAt F l).ids)
    (hdisj : ∀ x ∈ (layoutAt F l').ids, x ∉ (layoutAt F l).ids ∧ Loc.slot x ≠ l) :
    (copyInto d l src (src.get ls)).toVal ((copyInto d l src (src.get ls)).get l') = d.toVal (d.get l') :=
  (C04.copyInto_frame w hs gok hl ws hls hnd hl' hne hout hdisj).2

/-! ## What `PartialCopy` allows (inversion) -/

/-- a partially copied string is the string, or null -/
theorem partial_str {x : Val} {s : List Byte} (h : PartialCopy x (.str s)) : x = .str s ∨ x = .null := by
  cases h
  · exact Or.inl rfl
  · exact Or.inr rfl

/-- a partially copied number is the number, or null -/
theorem partial_num {x : Val} {n : JD.Num} (h : PartialCopy x (.num n)) : x = .num n ∨ x = .null := by
  cases h
  · exact Or.inl rfl
  · exact Or.inr rfl

/-- a partially copied array is null or an array of partial copies of a sub-sequence of the elements -/
theorem partial_arr {x : Val} {xs : List Val} (h : PartialCopy x (.arr xs)) :
    x = .null ∨ ∃ xs', x = .arr xs' ∧ PartialL xs' xs := by
  cases h
  · exact Or.inr ⟨xs, rfl, PartialL.refl xs⟩
  · exact Or.inl rfl
  · rename_i xs' h; exact Or.inr ⟨xs', rfl, h⟩

/-- a partially copied object is null or an object whose members are partial copies of a sub-sequence of the members -/
theorem partial_obj {x : Val} {ms : List (List Byte × Val)} (h : PartialCopy x (.obj ms)) :
    x = .null ∨ ∃ ms', x = .obj ms' ∧ PartialM ms' ms := by
  cases h
  · exact Or.inr ⟨ms, rfl, PartialM.refl ms⟩
  · exact Or.inl rfl
  · rename_i ms' h; exact Or.inr ⟨ms', rfl, h⟩

/-- never more elements than the source -/
theorem partial_arr_length : ∀ {xs' xs : List Val}, PartialL xs' xs → xs'.length ≤ xs.length
  | _, _, .nil => Nat.le_refl _
  | _, _, .skip _ h => Nat.le_succ_of_le (partial_arr_length h)
  | _, _, .cons _ h => Nat.succ_le_succ (partial_arr_length h)

/-- the keys left are a sub-sequence of the source keys: every member left has a key of the source, in source order (no
    invented, duplicated or reordered member) -/
theorem partial_obj_keys : ∀ {ms' ms : List (List Byte × Val)}, PartialM ms' ms →
    List.Sublist (ms'.map (·.1)) (ms.map (·.1))
  | _, _, .nil => List.Sublist.slnil
  | _, _, .skip _ h => List.Sublist.cons _ (partial_obj_keys h)
  | _, _, .cons _ h => List.Sublist.cons_cons _ (partial_obj_keys h)

/-! `PartialCopy` is not the trivial relation -/
example : ¬ PartialCopy (.bool true) (.bool false) := by intro h; cases h
example : ¬ PartialCopy (.arr [.null, .null]) (.arr [.str [0x68]]) := by
  intro h
  cases h
  rename_i h
  cases h with
  | skip _ h => cases h
  | cons _ h => cases h

/-! ## Non-vacuity -/
namespace Ex
open C04.Ex C04.ExC

/-- the empty document with an allocator that fails from its first call on -/
def z0f : Doc := { z0 with pl := { z0.pl with failFrom := some 1 } }
/-- the empty document with an allocator whose second call fails (the first one, the pool block, succeeds) -/
def z0g : Doc := { z0 with pl := { z0.pl with failAt := [2] } }

theorem wfg_null_root {d : Doc} (hr : d.root = .null) (hp : PL.Inv d.g d.pl) : WFG d .nil := by
  refine ⟨by rw [hr]; rfl, List.nodup_nil, fun i hi => (by cases hi), hp, fun i hi => (by cases hi), ?_⟩
  intro l hl e he
  rcases mem_holders.1 hl with h | ⟨j, hj, _⟩
  · subst h; rw [show d.get .root = d.root from rfl, hr] at he; cases he
  · cases hj

theorem wz0f : WFG z0f .nil := wfg_null_root rfl (PL.init_inv gok [] (some 1))
theorem sz0f : StrOK z0f (z0f.strRefs .nil) := ⟨by decide +kernel, by decide +kernel, by decide +kernel, by decide +kernel⟩
theorem wz0g : WFG z0g .nil := wfg_null_root rfl (PL.init_inv gok [2])
theorem sz0g : StrOK z0g (z0g.strRefs .nil) := ⟨by decide +kernel, by decide +kernel, by decide +kernel, by decide +kernel⟩

/-- `copy_fail_safe` applies, allocator failing from the start: copying `["hi"]` leaves the EMPTY array at the root (the
    element slot could not be allocated), flagged, well-formed; `[]` is a partial copy of `["hi"]` -/
example : WFG (copyInto z0f .root e4 (e4.get .root)) .nil ∧ abs (copyInto z0f .root e4 (e4.get .root)) = .arr [] ∧
    (copyInto z0f .root e4 (e4.get .root)).overflowed = true ∧ PartialCopy (.arr []) (.arr [.str hi]) := by
  obtain ⟨a, _, _, c, p, _⟩ := copy_fail_safe (l := .root) (ls := .root) wz0f sz0f gok trivial w4 trivial e4_nodup
  have hl : C04.copyLayout z0f .nil .root e4 (e4.get .root) = .nil := by decide +kernel
  have hv : (copyInto z0f .root e4 (e4.get .root)).toVal ((copyInto z0f .root e4 (e4.get .root)).get .root) = .arr [] :=
    valEq_sound _ _ (by decide +kernel)
  rw [hl] at a
  rw [hv] at c p
  rw [e4_val] at p
  exact ⟨a, c, by decide +kernel, p⟩

/-- `copy_fail_safe` applies, string copy failing: copying `["hi"]` leaves `[null]` (the element slot exists, its value
    could not be copied), flagged, well-formed over one slot -/
example : WFG (copyInto z0g .root e4 (e4.get .root)) (.cons none 0 .nil .nil) ∧
    abs (copyInto z0g .root e4 (e4.get .root)) = .arr [.null] ∧
    (copyInto z0g .root e4 (e4.get .root)).overflowed = true ∧ PartialCopy (.arr [.null]) (.arr [.str hi]) := by
  obtain ⟨a, _, _, c, p, _⟩ := copy_fail_safe (l := .root) (ls := .root) wz0g sz0g gok trivial w4 trivial e4_nodup
  have hl : C04.copyLayout z0g .nil .root e4 (e4.get .root) = .cons none 0 .nil .nil := by decide +kernel
  have hv : (copyInto z0g .root e4 (e4.get .root)).toVal ((copyInto z0g .root e4 (e4.get .root)).get .root) = .arr [.null] :=
    valEq_sound _ _ (by decide +kernel)
  rw [hl] at a
  rw [hv] at c p
  rw [e4_val] at p
  exact ⟨a, c, by decide +kernel, p⟩

/-- the clause "incomplete ⇒ flagged" is used with a true premise here: `[null] ≠ ["hi"]` -/
example : (copyInto z0g .root e4 (e4.get .root)).overflowed = true := by
  obtain ⟨_, _, _, _, _, f, _⟩ := copy_fail_safe (l := .root) (ls := .root) wz0g sz0g gok trivial w4 trivial e4_nodup
  refine f ?_
  have hv : (copyInto z0g .root e4 (e4.get .root)).toVal ((copyInto z0g .root e4 (e4.get .root)).get .root) = .arr [.null] :=
    valEq_sound _ _ (by decide +kernel)
  rw [hv, e4_val]
  intro h
  injection h with h
  injection h with h _
  cases h

/-- a history containing a copy whose allocations fail still ends in a well-formed document (`C04.historyC_refines`) -/
example : ∃ d' F', C04.HistC z0g .nil d' F' ∧ WFG d' F' ∧ d'.overflowed = true := by
  have h : C04.HistC z0g .nil _ _ :=
    C04.HistC.cons (.copyFrom .root e4 F3 .root) ⟨trivial, w4, trivial, e4_nodup⟩ (C04.HistC.nil _ _)
  exact ⟨_, _, h, (C04.historyC_refines h wz0g sz0g gok).1, by decide +kernel⟩

/-- `copy_fail_frame` applies: `["hi"]` copied into element 1 of the two-slot document `[true, null]` (`C04.ExC.e6`), whatever
    happens to its allocations, leaves element 0 alone -/
example : (copyInto e6 (.slot 1) e4 (e4.get .root)).toVal ((copyInto e6 (.slot 1) e4 (e4.get .root)).get (.slot 0)) =
    .bool true := by
  have h := copy_fail_frame (l := .slot 1) (ls := .root) (l' := .slot 0) w6.1 w6.2 gok6 loc5_1 w4 trivial
    e4_nodup loc5_0 (by intro h; cases h) (fun j hj => by rw [lay5_1]; exact fun h => by cases h)
    (fun x hx => by rw [lay5_0] at hx; cases hx)
  rw [h, e6_cells.1]; rfl

/-- `copy_flag_iff_incomplete` applies (the document was not flagged, the copy is): the value left, `[null]`, is not the
    complete copy -/
example : (copyInto z0g .root e4 (e4.get .root)).toVal ((copyInto z0g .root e4 (e4.get .root)).get .root) ≠
    copyVal (e4.toVal (e4.get .root)) :=
  (copy_flag_iff_incomplete (l := .root) (ls := .root) wz0g sz0g gok trivial w4 trivial e4_nodup (by decide +kernel)).1
    (by decide +kernel)

end Ex
end C05
