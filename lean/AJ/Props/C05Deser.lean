/- C05 / C06 for the slot-level deserializer `JDD.run` (AJ/Model/JDD.lean):
   C05 "when the allocator fails ... deserialization reports the failure (NoMemory) and overflowed() becomes true, the
        document stays a well-formed value, and after clear() every block has been returned";
   C06 "every block is released exactly once".
   For every configuration, nesting limit, input, starting document and every allocator failure schedule.
   * `C05.deser_failure_reported`: the result code against the overflow flag.
   * `C05.deser_failure_leaves_wf_and_clear_returns_all`: well-formed after a failure; `clearAll` returns every block.
   * `C06.deser_blocks_balanced`: the allocator ledger (`PL.outstanding`, AJ/Lemmas/DocStr.lean) against the blocks owned,
     the StringBuilder's buffer included (released, or turned into a string node).
   Proofs: AJ/Lemmas/JddInv.lean. -/
import AJ.Lemmas.JddInv
import AJ.Props.C03Doc
namespace C05
open DL JDD
open JD (Byte Code Cfg)

/-- FAILURE IS REPORTED. With `(c, d', _) = run cfg limit d input`:
    * `c = Ok` only if no allocation failed (`overflowed` is false);
    * `c = NoMemory` only if `overflowed` is true;
    * hence: if some allocation failed (`overflowed`), the code is not `Ok` - it is `NoMemory`, or the lexical error met
      in the SAME string token (a StringBuilder allocation - initial buffer or growth - fails inside a string / key that
      then turns out to be unterminated, to hold an invalid escape, or not to be a key at all: `IncompleteInput` /
      `InvalidInput` with `overflowed = true`, see `longOpen` below; both are failures). -/
theorem deser_failure_reported (cfg : Cfg) (limit : Nat) (d : Doc) (input : List Byte) (gok : PL.GeoOK d.g)
    (hp : PL.Inv d.g d.pl) :
    ((JDD.run cfg limit d input).1 = .ok → (JDD.run cfg limit d input).2.1.overflowed = false) ∧
    ((JDD.run cfg limit d input).1 = .noMemory → (JDD.run cfg limit d input).2.1.overflowed = true) ∧
    ((JDD.run cfg limit d input).2.1.overflowed = true → (JDD.run cfg limit d input).1 ≠ .ok) := by
  obtain ⟨a, b⟩ := run_code cfg limit input gok hp
  refine ⟨a, b, fun ho e => ?_⟩
  rw [a e] at ho; cases ho

/-- AFTER A FAILURE (and without one): the document is a well-formed value; `clearAll` then leaves a document that owns
    nothing - no pool, no pool-table block, no string node. -/
theorem deser_failure_leaves_wf_and_clear_returns_all (cfg : Cfg) (limit : Nat) (d : Doc) (input : List Byte)
    (gok : PL.GeoOK d.g) (hp : PL.Inv d.g d.pl) :
    WF (JDD.run cfg limit d input).2.1 ∧
    PL.blocks (JDD.run cfg limit d input).2.1.clearAll.pl = 0 ∧ (JDD.run cfg limit d input).2.1.clearAll.strings = [] ∧
    (JDD.run cfg limit d input).2.1.clearAll.pl.pools = [] ∧
    (JDD.run cfg limit d input).2.1.clearAll.pl.log =
      List.replicate (PL.blocks (JDD.run cfg limit d input).2.1.pl + (JDD.run cfg limit d input).2.1.strings.length) "D" ++
        (JDD.run cfg limit d input).2.1.pl.log := by
  obtain ⟨h1, _, h3, _, h5, h6, _⟩ := clearAll_spec (JDD.run cfg limit d input).2.1
  exact ⟨run_wf cfg limit input gok hp, h5, h6, h3, h1⟩

/-! ## Non-vacuity -/
open C03.ExDoc

/-- `"hi"`: the builder's first allocation fails: NoMemory, flag set -/
example : (JDD.run {} 10 (dk [1]) hiQ).1 = .noMemory ∧ (JDD.run {} 10 (dk [1]) hiQ).2.1.overflowed = true :=
  ⟨by decide +kernel, (deser_failure_reported {} 10 (dk [1]) hiQ gok (dk_inv [1])).2.1 (by decide +kernel)⟩

/-- `"hi"` without failure: Ok, flag clear -/
example : (JDD.run {} 10 (dk []) hiQ).2.1.overflowed = false :=
  (deser_failure_reported {} 10 (dk []) hiQ gok (dk_inv [])).1 (by decide +kernel)

/-- a 40-character string whose closing quote is missing: the growth of the builder's buffer (call 2) fails, then the
    end of the input is met: the code is IncompleteInput, and the flag tells that an allocation failed -/
def longOpen : List Byte := 0x22 :: List.replicate 40 0x61
example : (JDD.run {} 10 (dk [2]) longOpen).1 = .incomplete ∧ (JDD.run {} 10 (dk [2]) longOpen).2.1.overflowed = true :=
  ⟨by decide +kernel, by decide +kernel⟩

/-- `[1]` when the pool cannot be allocated -/
example : (JDD.run {} 10 (dk [1]) arr1).2.1.overflowed = true ∧ WF (JDD.run {} 10 (dk [1]) arr1).2.1 :=
  ⟨(deser_failure_reported {} 10 (dk [1]) arr1 gok (dk_inv [1])).2.1 (by decide +kernel),
    (deser_failure_leaves_wf_and_clear_returns_all {} 10 (dk [1]) arr1 gok (dk_inv [1])).1⟩

end C05

namespace C06
open DL JDD
open JD (Byte Code Cfg)

/-- LEDGER. `d` is any document whose allocator log balances (`Bal`: blocks outstanding = pools with a block + heap pool
    table + string nodes; true of a fresh document and kept by every operation, AJ/Props/C06Doc.lean). With
    `d' = (run cfg limit d input).2.1` and `dp = preShrink …` (the document when the deserializer object has been destroyed,
    just before `shrinkToFit`):
    * `Bal dp`: no leak and no double release - the StringBuilder's buffer was released or became a string node, also on
      every failure path;
    * after `shrinkToFit` the ledger is short by exactly one block when the LAST pool is one whose creation failed:
      `reallocate(nullptr, 0)` hands it a block that the ledger (which counts `R` as 0) does not see;
    * when no allocation failed, every pool has its block: `Bal d'`, and after `clearAll` nothing is outstanding. -/
theorem deser_blocks_balanced (cfg : Cfg) (limit : Nat) (d : Doc) (input : List Byte) (gok : PL.GeoOK d.g)
    (hp : PL.Inv d.g d.pl) (hb : Bal d) :
    Bal (preShrink cfg limit d input) ∧
    (JDD.run cfg limit d input).2.1 =
      { preShrink cfg limit d input with pl := PL.shrink (preShrink cfg limit d input).g (preShrink cfg limit d input).pl } ∧
    PL.net (JDD.run cfg limit d input).2.1.pl =
      ((JDD.run cfg limit d input).2.1.strings.length : Int) -
        (if lastBlockless (preShrink cfg limit d input).pl then 1 else 0) ∧
    PL.outstanding (JDD.run cfg limit d input).2.1.clearAll.pl.log =
      - (if lastBlockless (preShrink cfg limit d input).pl then 1 else 0) ∧
    ((JDD.run cfg limit d input).2.1.overflowed = false →
      Bal (JDD.run cfg limit d input).2.1 ∧ PL.outstanding (JDD.run cfg limit d input).2.1.clearAll.pl.log = 0) := by
  refine ⟨preShrink_bal cfg limit input gok hp hb, by rw [JDD.run_eq], run_net cfg limit input gok hp hb,
    run_clearAll_outstanding cfg limit input gok hp hb, fun ho => ?_⟩
  have h := run_bal cfg limit input gok hp hb ho
  exact ⟨h, clearAll_outstanding h⟩

/-- the same ledger when the `R0` that `shrinkToFit` issues on a block-less last pool is counted as the allocation it is
    (`reallocate(nullptr, 0)` returns a block): outstanding blocks = blocks owned, after `shrinkToFit` too, on every path -/
theorem deser_blocks_balanced_counting_null_realloc (cfg : Cfg) (limit : Nat) (d : Doc) (input : List Byte)
    (gok : PL.GeoOK d.g) (hp : PL.Inv d.g d.pl) (hb : Bal d) :
    PL.outstanding (JDD.run cfg limit d input).2.1.pl.log +
        (if lastBlockless (preShrink cfg limit d input).pl then 1 else 0) =
      (PL.blocks (JDD.run cfg limit d input).2.1.pl + (JDD.run cfg limit d input).2.1.strings.length : Nat) := by
  have h := run_net cfg limit input gok hp hb
  unfold PL.net at h
  omega

/-! ## Non-vacuity -/
open C03.ExDoc

theorem dk_bal (fa : List Nat) : Bal (dk fa) := by
  unfold Bal PL.net PL.blocks; rfl

/-- `"hi"` without failure: the buffer (`A46`) became the node (`R17`): one block outstanding, one string node;
    after `clearAll` none -/
example : Bal (JDD.run {} 10 (dk []) hiQ).2.1 ∧ PL.outstanding (JDD.run {} 10 (dk []) hiQ).2.1.clearAll.pl.log = 0 ∧
    PL.outstanding (JDD.run {} 10 (dk []) hiQ).2.1.pl.log = 1 :=
  ⟨((deser_blocks_balanced {} 10 (dk []) hiQ gok (dk_inv []) (dk_bal [])).2.2.2.2 (by decide +kernel)).1,
    ((deser_blocks_balanced {} 10 (dk []) hiQ gok (dk_inv []) (dk_bal [])).2.2.2.2 (by decide +kernel)).2,
    by decide +kernel⟩

/-- `{"a":1}` (the key goes through the builder and is saved; two slots; one pool), any single failure position:
    balanced before `shrinkToFit` -/
example (k : Nat) : Bal (preShrink {} 10 (dk [k]) obj1) :=
  (deser_blocks_balanced {} 10 (dk [k]) obj1 gok (dk_inv [k]) (dk_bal [k])).1

/-- WITNESS for the exception: `[1]` when the pool allocation fails (`A64!`): the pool list keeps a block-less pool,
    `shrinkToFit` reallocates it (`R0`), `clearAll` releases that block (`D`): −1 in the ledger -/
example : (JDD.run {} 10 (dk [1]) arr1).2.1.pl.log = ["R0", "A64!"] ∧
    lastBlockless (preShrink {} 10 (dk [1]) arr1).pl = true ∧
    PL.outstanding (JDD.run {} 10 (dk [1]) arr1).2.1.clearAll.pl.log = -1 :=
  ⟨by decide +kernel, by decide +kernel, by decide +kernel⟩

/-- the witness again, with the `R0` counted: 0 + 1 = 1 block (the pool) + 0 strings -/
example : PL.outstanding (JDD.run {} 10 (dk [1]) arr1).2.1.pl.log + 1 =
    (PL.blocks (JDD.run {} 10 (dk [1]) arr1).2.1.pl + (JDD.run {} 10 (dk [1]) arr1).2.1.strings.length : Nat) := by
  have h := deser_blocks_balanced_counting_null_realloc {} 10 (dk [1]) arr1 gok (dk_inv [1]) (dk_bal [1])
  rw [show lastBlockless (preShrink {} 10 (dk [1]) arr1).pl = true by decide +kernel] at h
  simpa using h

end C06
