/- C05 at the document level: when an allocation fails inside `addElement`, `setArg`, `addMember`, the operation reports
   failure, the overflow flag is set, the document stays well-formed (`WFG` and `StrOK`) and is the SAME abstract
   document. `addMember` may leave up to two allocated slots unreachable (they stay live until `clear`); this is
   stated precisely. Model: AJ/Model/DL.lean; invariant: AJ/Lemmas/DocInv.lean; frame lemma: AJ/Lemmas/DocFrame.lean. -/
import AJ.Lemmas.DocFrame
namespace C05
open DL
open JD (Byte Val)

/-- `addElement` whose slot allocation fails: returns `none`, sets the overflow flag, changes nothing else -/
theorem add_element_fail_clean {d : Doc} {F : Forest} {l : Loc} (w : WFG d F) (hs : StrOK d (d.strRefs F))
    (gok : PL.GeoOK d.g) (h : (d.addElement l).1 = none) :
    (d.addElement l).2.overflowed = true ∧ WFG (d.addElement l).2 F ∧
    StrOK (d.addElement l).2 ((d.addElement l).2.strRefs F) ∧ abs (d.addElement l).2 = abs d ∧
    (∀ x, PL.live (d.addElement l).2.g (d.addElement l).2.pl x ↔ PL.live d.g d.pl x) := by
  simp only [Doc.addElement] at h ⊢
  generalize hal : d.allocVariant = r at h ⊢
  obtain ⟨m, d1⟩ := r
  cases m with
  | some id => simp at h
  | none =>
    obtain ⟨hg, hov, hlv⟩ := allocVariant_none gok w.pool hal
    obtain ⟨a, b, c⟩ := wfg_of_grow w hs hg
    exact ⟨hov, a, b, c, hlv⟩

/-- `setArg` that reports failure on a document that had not overflowed (the extension slot or the string copy could
    not be allocated): the overflow flag is set, the document is well-formed and is the same abstract document -/
theorem set_fail_clean {d : Doc} {F : Forest} {l : Loc} {a : Arg} (w : WFG d F) (hs : StrOK d (d.strRefs F))
    (gok : PL.GeoOK d.g) (hov : d.overflowed = false) (h : (d.setArg l a).1 = false) :
    (d.setArg l a).2.overflowed = true ∧ WFG (d.setArg l a).2 F ∧
    StrOK (d.setArg l a).2 ((d.setArg l a).2.strRefs F) ∧ abs (d.setArg l a).2 = abs d := by
  have fin : ∀ d1, Grow d d1 → d1.overflowed = true →
      d1.overflowed = true ∧ WFG d1 F ∧ StrOK d1 (d1.strRefs F) ∧ abs d1 = abs d := fun d1 hg ho => by
    obtain ⟨a, b, c⟩ := wfg_of_grow w hs hg
    exact ⟨ho, a, b, c⟩
  have ext : ∀ (p : Int) (k : Nat → VData), (match d.allocExt p with
        | (some s, d) => (true, d.set l (k s)) | (none, d) => (false, d)).1 = false →
      let r := (match d.allocExt p with | (some s, d) => (true, d.set l (k s)) | (none, d) => (false, d))
      r.2.overflowed = true ∧ WFG r.2 F ∧ StrOK r.2 (r.2.strRefs F) ∧ abs r.2 = abs d := by
    intro p k h
    generalize hal : d.allocExt p = r at h ⊢
    obtain ⟨m, d1⟩ := r
    cases m with
    | some e => simp at h
    | none =>
      obtain ⟨hg, ho, _⟩ := allocExt_none gok w.pool hal
      exact fin d1 hg ho
  have str : ∀ (s : List Byte) (k : Nat → VData), (match d.saveString s with
        | (some n, d) => (let d := d.set l (k n); (!d.overflowed, d)) | (none, d) => (!d.overflowed, d)).1 = false →
      let r := (match d.saveString s with
        | (some n, d) => (let d := d.set l (k n); (!d.overflowed, d)) | (none, d) => (!d.overflowed, d))
      r.2.overflowed = true ∧ WFG r.2 F ∧ StrOK r.2 (r.2.strRefs F) ∧ abs r.2 = abs d := by
    intro s k h
    generalize hal : d.saveString s = r at h ⊢
    obtain ⟨m, d1⟩ := r
    cases m with
    | some n =>
      exfalso
      simp only [set_overflowed, saveString_overflowed hal, hov] at h
      simp at h
    | none =>
      obtain ⟨hg, ho, _⟩ := saveString_none w.pool hal
      exact fin d1 hg ho
  cases a with
  | null => simp [Doc.setArg, hov] at h
  | bool b => simp [Doc.setArg] at h
  | f32 b => simp [Doc.setArg] at h
  | strLinked s => simp [Doc.setArg, set_overflowed, hov] at h
  | sint v =>
    simp only [Doc.setArg] at h ⊢
    split
    · rename_i hr; rw [if_pos hr] at h; simp at h
    · rename_i hr; rw [if_neg hr] at h; exact ext v .i64 h
  | uint v =>
    simp only [Doc.setArg] at h ⊢
    split
    · rename_i hr; rw [if_pos hr] at h; simp at h
    · rename_i hr; rw [if_neg hr] at h; exact ext v .u64 h
  | f64 b =>
    simp only [Doc.setArg] at h ⊢
    split
    · rename_i f heq; rw [heq] at h; simp at h
    · rename_i hne
      have h' : (match d.allocExt b with
          | (some s, d) => (true, d.set l (.f64 s)) | (none, d) => (false, d)).1 = false := by
        revert h; split
        · rename_i f heq; exact absurd heq (hne f)
        · exact fun h => h
      exact ext b .f64 h'
  | strCopied s => simp only [Doc.setArg] at h ⊢; exact str s .owned h
  | raw s => simp only [Doc.setArg] at h ⊢; exact str s .raw h

/-- `addMember` that returns `none` (one of its two slot allocations, or the key copy, failed): the overflow flag is
    set, the document is well-formed and is the same abstract document. The slots already obtained are NOT given back
    (as in `ObjectData::addMember`): at most two slots become live without being reachable. -/
theorem add_member_fail_clean {d : Doc} {F : Forest} {l : Loc} {key : List Byte} {linked : Bool} (w : WFG d F)
    (hs : StrOK d (d.strRefs F)) (gok : PL.GeoOK d.g) (h : (d.addMember l key linked).1 = none) :
    (d.addMember l key linked).2.overflowed = true ∧ WFG (d.addMember l key linked).2 F ∧
    StrOK (d.addMember l key linked).2 ((d.addMember l key linked).2.strRefs F) ∧
    abs (d.addMember l key linked).2 = abs d ∧
    ∃ leaked : List Nat, leaked.length ≤ 2 ∧ (∀ x ∈ leaked, x ∉ F.ids) ∧
      ∀ x, PL.live (d.addMember l key linked).2.g (d.addMember l key linked).2.pl x ↔ PL.live d.g d.pl x ∨ x ∈ leaked := by
  have fin : ∀ d1 (leaked : List Nat), Grow d d1 → d1.overflowed = true → leaked.length ≤ 2 →
      (∀ x ∈ leaked, ¬ PL.live d.g d.pl x) → (∀ x, PL.live d1.g d1.pl x ↔ PL.live d.g d.pl x ∨ x ∈ leaked) →
      d1.overflowed = true ∧ WFG d1 F ∧ StrOK d1 (d1.strRefs F) ∧ abs d1 = abs d ∧
      ∃ leaked : List Nat, leaked.length ≤ 2 ∧ (∀ x ∈ leaked, x ∉ F.ids) ∧
        ∀ x, PL.live d1.g d1.pl x ↔ PL.live d.g d.pl x ∨ x ∈ leaked := fun d1 leaked hg ho hlen hnl hlv => by
    obtain ⟨a, b, c⟩ := wfg_of_grow w hs hg
    exact ⟨ho, a, b, c, leaked, hlen, fun x hx m => hnl x hx (w.live x m), hlv⟩
  simp only [Doc.addMember] at h ⊢
  generalize hal1 : d.allocVariant = r1 at h ⊢
  obtain ⟨m1, d1⟩ := r1
  cases m1 with
  | none =>
    obtain ⟨hg, ho, hlv⟩ := allocVariant_none gok w.pool hal1
    exact fin d1 [] hg ho (by simp) (fun x hx => by cases hx) (fun x => by simp [hlv x])
  | some k =>
    obtain ⟨hg1, _, _, _, hnk, _, hlv1⟩ := allocVariant_some gok w.pool hal1
    have gok1 : PL.GeoOK d1.g := by rw [hg1.g]; exact gok
    simp only at h ⊢
    generalize hal2 : d1.allocVariant = r2 at h ⊢
    obtain ⟨m2, d2⟩ := r2
    cases m2 with
    | none =>
      obtain ⟨hg2, ho, hlv2⟩ := allocVariant_none gok1 hg1.pool hal2
      refine fin d2 [k] (hg1.trans hg2) ho (by simp) (fun x hx => by simp at hx; exact hx ▸ hnk) (fun x => ?_)
      rw [hlv2 x, hlv1 x]; simp
    | some v =>
      obtain ⟨hg2, hov2, _, _, hnv, _, hlv2⟩ := allocVariant_some gok1 hg1.pool hal2
      simp only at h ⊢
      cases linked with
      | true => simp at h
      | false =>
        simp only [Bool.false_eq_true, if_false] at h ⊢
        generalize hal3 : d2.saveString key = r3 at h ⊢
        obtain ⟨m3, d3⟩ := r3
        cases m3 with
        | some n => simp at h
        | none =>
          obtain ⟨hg3, ho, hlv3⟩ := saveString_none hg2.pool hal3
          have hnv' : ¬ PL.live d.g d.pl v := fun hh => hnv ((hlv1 v).2 (Or.inl hh))
          refine fin d3 [k, v] ((hg1.trans hg2).trans hg3) ho (by simp)
            (fun x hx => by
              simp only [List.mem_cons, List.not_mem_nil, or_false] at hx
              rcases hx with e | e
              · exact e ▸ hnk
              · exact e ▸ hnv') (fun x => ?_)
          rw [hlv3 x, hlv2 x, hlv1 x]; simp [or_assoc]

end C05
