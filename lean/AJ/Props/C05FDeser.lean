/- C05 / C06 for the FILTERED slot-level deserializer `JDDF.run` (AJ/Model/JDDF.lean), the analogues of AJ/Props/C05Deser.lean
   for `deserializeJson(doc, input, Filter(f), NestingLimit)` with any filter:
   * `C05.filtered_deser_failure_reported`: the result code against the overflow flag;
   * `C05.filtered_deser_failure_leaves_wf_and_clear_returns_all`: well-formed after a failure; `clearAll` returns every block;
   * `C05.filtered_deser_blocks_balanced`: the allocator ledger against the blocks owned, the StringBuilder's buffer included -
     with a filter that buffer is also allocated (and grown) for the key of every member that is then skipped, and an allocation
     failure there is reported although nothing of the member is stored.
   For every configuration, nesting limit, filter, input, starting document and every allocator failure schedule.
   Proofs: AJ/Lemmas/JddfInv.lean. -/
import AJ.Lemmas.JddfInv
import AJ.Props.C03FDoc
import AJ.Props.C05Deser
namespace C05
open DL JDD
open JD (Byte Code Cfg Flt)

/-- FAILURE IS REPORTED. With `(c, d', _) = JDDF.run cfg limit flt d input`: `c = Ok` only if no allocation failed;
    `c = NoMemory` only if `overflowed` is true; if some allocation failed the code is not `Ok`. -/
theorem filtered_deser_failure_reported (cfg : Cfg) (limit : Nat) (flt : Flt) (d : Doc) (input : List Byte)
    (gok : PL.GeoOK d.g) (hp : PL.Inv d.g d.pl) :
    ((JDDF.run cfg limit flt d input).1 = .ok → (JDDF.run cfg limit flt d input).2.1.overflowed = false) ∧
    ((JDDF.run cfg limit flt d input).1 = .noMemory → (JDDF.run cfg limit flt d input).2.1.overflowed = true) ∧
    ((JDDF.run cfg limit flt d input).2.1.overflowed = true → (JDDF.run cfg limit flt d input).1 ≠ .ok) := by
  obtain ⟨a, b⟩ := JDDF.run_code cfg limit flt input gok hp
  refine ⟨a, b, fun ho e => ?_⟩
  rw [a e] at ho; cases ho

/-- AFTER A FAILURE (and without one): the document is a well-formed value; `clearAll` then leaves a document that owns
    nothing - no pool, no pool-table block, no string node. -/
theorem filtered_deser_failure_leaves_wf_and_clear_returns_all (cfg : Cfg) (limit : Nat) (flt : Flt) (d : Doc)
    (input : List Byte) (gok : PL.GeoOK d.g) (hp : PL.Inv d.g d.pl) :
    WF (JDDF.run cfg limit flt d input).2.1 ∧
    PL.blocks (JDDF.run cfg limit flt d input).2.1.clearAll.pl = 0 ∧
    (JDDF.run cfg limit flt d input).2.1.clearAll.strings = [] ∧
    (JDDF.run cfg limit flt d input).2.1.clearAll.pl.pools = [] ∧
    (JDDF.run cfg limit flt d input).2.1.clearAll.pl.log =
      List.replicate (PL.blocks (JDDF.run cfg limit flt d input).2.1.pl +
          (JDDF.run cfg limit flt d input).2.1.strings.length) "D" ++
        (JDDF.run cfg limit flt d input).2.1.pl.log := by
  obtain ⟨h1, _, h3, _, h5, h6, _⟩ := clearAll_spec (JDDF.run cfg limit flt d input).2.1
  exact ⟨JDDF.run_wf cfg limit flt input gok hp, h5, h6, h3, h1⟩

/-- LEDGER (the C06 statement of AJ/Props/C05Deser.lean, for the filtered run). `d` is any document whose allocator log
    balances (`Bal`). With `d' = (JDDF.run cfg limit flt d input).2.1` and `dp = JDDF.preShrink …` (the document when the
    deserializer object has been destroyed, just before `shrinkToFit`):
    * `Bal dp`: no leak and no double release - the StringBuilder's buffer (allocated for kept AND skipped keys) was released
      or became a string node, also on every failure path;
    * after `shrinkToFit` the ledger is short by exactly one block when the LAST pool is one whose creation failed;
    * when no allocation failed: `Bal d'`, and after `clearAll` nothing is outstanding. -/
theorem filtered_deser_blocks_balanced (cfg : Cfg) (limit : Nat) (flt : Flt) (d : Doc) (input : List Byte)
    (gok : PL.GeoOK d.g) (hp : PL.Inv d.g d.pl) (hb : Bal d) :
    Bal (JDDF.preShrink cfg limit flt d input) ∧
    (JDDF.run cfg limit flt d input).2.1 =
      { JDDF.preShrink cfg limit flt d input with
        pl := PL.shrink (JDDF.preShrink cfg limit flt d input).g (JDDF.preShrink cfg limit flt d input).pl } ∧
    PL.net (JDDF.run cfg limit flt d input).2.1.pl =
      ((JDDF.run cfg limit flt d input).2.1.strings.length : Int) -
        (if lastBlockless (JDDF.preShrink cfg limit flt d input).pl then 1 else 0) ∧
    PL.outstanding (JDDF.run cfg limit flt d input).2.1.clearAll.pl.log =
      - (if lastBlockless (JDDF.preShrink cfg limit flt d input).pl then 1 else 0) ∧
    ((JDDF.run cfg limit flt d input).2.1.overflowed = false →
      Bal (JDDF.run cfg limit flt d input).2.1 ∧
      PL.outstanding (JDDF.run cfg limit flt d input).2.1.clearAll.pl.log = 0) := by
  refine ⟨JDDF.preShrink_bal cfg limit flt input gok hp hb, ?_, JDDF.run_net cfg limit flt input gok hp hb,
    JDDF.run_clearAll_outstanding cfg limit flt input gok hp hb, fun ho => ?_⟩
  · rw [JDDF.run_eq]
  · have h := JDDF.run_bal cfg limit flt input gok hp hb ho
    exact ⟨h, clearAll_outstanding h⟩

/-- the same ledger when the `R0` that `shrinkToFit` issues on a block-less last pool is counted as the allocation it is -/
theorem filtered_deser_blocks_balanced_counting_null_realloc (cfg : Cfg) (limit : Nat) (flt : Flt) (d : Doc)
    (input : List Byte) (gok : PL.GeoOK d.g) (hp : PL.Inv d.g d.pl) (hb : Bal d) :
    PL.outstanding (JDDF.run cfg limit flt d input).2.1.pl.log +
        (if lastBlockless (JDDF.preShrink cfg limit flt d input).pl then 1 else 0) =
      (PL.blocks (JDDF.run cfg limit flt d input).2.1.pl + (JDDF.run cfg limit flt d input).2.1.strings.length : Nat) := by
  have h := JDDF.run_net cfg limit flt input gok hp hb
  unfold PL.net at h
  omega

/-! ## Non-vacuity -/
open C03.ExDoc C03.ExFDoc C06

/-- `{"a":1}` under `{"b":true}`: nothing is kept, yet the key needs the builder's buffer: when that allocation fails the run
    reports NoMemory and the flag is set -/
example : (JDDF.run {} 10 fB (dk [1]) obj1).1 = .noMemory ∧ (JDDF.run {} 10 fB (dk [1]) obj1).2.1.overflowed = true :=
  ⟨by decide +kernel, (filtered_deser_failure_reported {} 10 fB (dk [1]) obj1 gok (dk_inv [1])).2.1 (by decide +kernel)⟩

/-- the same without failure: Ok, flag clear -/
example : (JDDF.run {} 10 fB (dk []) obj1).2.1.overflowed = false :=
  (filtered_deser_failure_reported {} 10 fB (dk []) obj1 gok (dk_inv [])).1 (by decide +kernel)

/-- a 40-character key (of a member that would be skipped) whose closing quote is missing: the growth of the builder's buffer
    (call 2) fails, then the end of the input is met: IncompleteInput, and the flag tells that an allocation failed -/
def longKey : List Byte := 0x7B :: 0x22 :: List.replicate 40 0x61
example : (JDDF.run {} 10 fB (dk [2]) longKey).1 = .incomplete ∧ (JDDF.run {} 10 fB (dk [2]) longKey).2.1.overflowed = true ∧
    (JDDF.run {} 10 fB (dk [2]) longKey).2.1.pl.log = ["D", "R78!", "A46"] :=
  ⟨by decide +kernel, by decide +kernel, by decide +kernel⟩

/-- `[{"b":[1,"x"],"c":2}]` under `[{"a":true}]` when the pool cannot be allocated -/
example : (JDDF.run {} 10 fArrA (dk [1]) arrObj).2.1.overflowed = true ∧ WF (JDDF.run {} 10 fArrA (dk [1]) arrObj).2.1 :=
  ⟨(filtered_deser_failure_reported {} 10 fArrA (dk [1]) arrObj gok (dk_inv [1])).2.1 (by decide +kernel),
    (filtered_deser_failure_leaves_wf_and_clear_returns_all {} 10 fArrA (dk [1]) arrObj gok (dk_inv [1])).1⟩

/-- `[{"b":[1,"x"],"c":2}]` under `[{"a":true}]` without failure: the buffer for the skipped keys was released: one block
    outstanding (the pool), no string node; after `clearAll` none -/
example : Bal (JDDF.run {} 10 fArrA (dk []) arrObj).2.1 ∧
    PL.outstanding (JDDF.run {} 10 fArrA (dk []) arrObj).2.1.clearAll.pl.log = 0 ∧
    PL.outstanding (JDDF.run {} 10 fArrA (dk []) arrObj).2.1.pl.log = 1 :=
  ⟨((filtered_deser_blocks_balanced {} 10 fArrA (dk []) arrObj gok (dk_inv []) (dk_bal [])).2.2.2.2 (by decide +kernel)).1,
    ((filtered_deser_blocks_balanced {} 10 fArrA (dk []) arrObj gok (dk_inv []) (dk_bal [])).2.2.2.2 (by decide +kernel)).2,
    by decide +kernel⟩

/-- any filter, any single failure position: balanced before `shrinkToFit` -/
example (flt : Flt) (k : Nat) : Bal (JDDF.preShrink {} 10 flt (dk [k]) obj3) :=
  (filtered_deser_blocks_balanced {} 10 flt (dk [k]) obj3 gok (dk_inv [k]) (dk_bal [k])).1

/-- WITNESS for the exception: the pool allocation fails (`A64!`): the pool list keeps a block-less pool, `shrinkToFit`
    reallocates it (`R0`), `clearAll` releases that block (`D`): −1 in the ledger -/
example : (JDDF.run {} 10 fArrA (dk [1]) arrObj).2.1.pl.log = ["R0", "A64!"] ∧
    lastBlockless (JDDF.preShrink {} 10 fArrA (dk [1]) arrObj).pl = true ∧
    PL.outstanding (JDDF.run {} 10 fArrA (dk [1]) arrObj).2.1.clearAll.pl.log = -1 :=
  ⟨by decide +kernel, by decide +kernel, by decide +kernel⟩

end C05
