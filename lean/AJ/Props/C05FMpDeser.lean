/- C05 / C06 for the FILTERED slot-level MessagePack deserializer `MDDF.run` (AJ/Model/MDDF.lean):
   C05 "when the allocator fails ... deserialization reports the failure (NoMemory) and overflowed() becomes true, the
        document stays a well-formed value, and after clear() every block has been returned";
   C06 "every block is released exactly once".
   For every environment, nesting limit, FILTER, input, starting document and every allocator failure schedule.
   * `C05.filtered_mp_deser_failure_reported`: the result code against the overflow flag;
     `C05.filtered_mp_deser_nomemory_iff_overflowed`: the two coincide, as for the unfiltered deserializer - ALSO when the
     allocation that failed was the StringBuffer of a key that the filter drops (`ExFMp.mObjB` below);
   * `C05.filtered_mp_deser_failure_leaves_wf_and_clear_returns_all`: well-formed after a failure; `clearAll` returns every
     block.
   * `C06.filtered_mp_deser_blocks_balanced`: the allocator ledger (`PL.outstanding`, AJ/Lemmas/DocStr.lean) against the
     blocks owned, the StringBuffer's node included (released, or turned into a string node; a buffer that only ever held
     keys of skipped members is released when the deserializer is destroyed).
   Proofs: AJ/Lemmas/MddfInv.lean. The unfiltered twin is AJ/Props/C05MpDeser.lean. -/
import AJ.Lemmas.MddfInv
import AJ.Props.C03FMpDoc
import AJ.Props.C05MpDeser
namespace C05
open DL
open JD (Byte Code Flt)

/-- FAILURE IS REPORTED. With `(c, d', _) = MDDF.run env limit flt d input`:
    * `c = Ok` only if no allocation failed (`overflowed` is false);
    * `c = NoMemory` only if `overflowed` is true;
    * if some allocation failed (`overflowed`), the code is not `Ok`.
    The flag is raised by a failed pool / pool-table / extension-slot / string-node allocation - the buffer of a key that
    is not stored included - and also, WITHOUT an allocator call, by a stored string or binary, or ANY key, longer than
    the maximal string length. -/
theorem filtered_mp_deser_failure_reported (env : MD.Env) (limit : Nat) (flt : Flt) (d : Doc) (input : List Byte)
    (gok : PL.GeoOK d.g) (hp : PL.Inv d.g d.pl) :
    ((MDDF.run env limit flt d input).1 = .ok → (MDDF.run env limit flt d input).2.1.overflowed = false) ∧
    ((MDDF.run env limit flt d input).1 = .noMemory → (MDDF.run env limit flt d input).2.1.overflowed = true) ∧
    ((MDDF.run env limit flt d input).2.1.overflowed = true → (MDDF.run env limit flt d input).1 ≠ .ok) := by
  obtain ⟨a, b⟩ := MDDF.run_code env limit flt input gok hp
  refine ⟨a, b.1, fun ho e => ?_⟩
  rw [a e] at ho; cases ho

/-- STRONGER: the flag is raised EXACTLY when the code is NoMemory, whatever the filter. (Every routine of the MessagePack
    deserializer returns at once when an allocation fails, also while it skips.) -/
theorem filtered_mp_deser_nomemory_iff_overflowed (env : MD.Env) (limit : Nat) (flt : Flt) (d : Doc) (input : List Byte)
    (gok : PL.GeoOK d.g) (hp : PL.Inv d.g d.pl) :
    (MDDF.run env limit flt d input).1 = .noMemory ↔ (MDDF.run env limit flt d input).2.1.overflowed = true :=
  (MDDF.run_code env limit flt input gok hp).2

/-- AFTER A FAILURE (and without one): the document is a well-formed value; `clearAll` then leaves a document that owns
    nothing - no pool, no pool-table block, no string node. -/
theorem filtered_mp_deser_failure_leaves_wf_and_clear_returns_all (env : MD.Env) (limit : Nat) (flt : Flt) (d : Doc)
    (input : List Byte) (gok : PL.GeoOK d.g) (hp : PL.Inv d.g d.pl) :
    WF (MDDF.run env limit flt d input).2.1 ∧
    PL.blocks (MDDF.run env limit flt d input).2.1.clearAll.pl = 0 ∧
    (MDDF.run env limit flt d input).2.1.clearAll.strings = [] ∧
    (MDDF.run env limit flt d input).2.1.clearAll.pl.pools = [] ∧
    (MDDF.run env limit flt d input).2.1.clearAll.pl.log =
      List.replicate (PL.blocks (MDDF.run env limit flt d input).2.1.pl +
          (MDDF.run env limit flt d input).2.1.strings.length) "D" ++
        (MDDF.run env limit flt d input).2.1.pl.log := by
  obtain ⟨h1, _, h3, _, h5, h6, _⟩ := clearAll_spec (MDDF.run env limit flt d input).2.1
  exact ⟨MDDF.run_wf env limit flt input gok hp, h5, h6, h3, h1⟩

/-! ## Non-vacuity -/
open C03.ExDoc C03.ExMp C03.ExFMp

/-- `{"b":2}` under `{"a":true}`: the buffer for the key of the SKIPPED member cannot be allocated: NoMemory, flag set -/
example : (MDDF.run {} 10 fA (dk [1]) mObjB).1 = .noMemory ∧ (MDDF.run {} 10 fA (dk [1]) mObjB).2.1.overflowed = true :=
  ⟨by decide +kernel, (filtered_mp_deser_failure_reported {} 10 fA (dk [1]) mObjB gok (dk_inv [1])).2.1 (by decide +kernel)⟩

/-- the same without failure: Ok, flag clear -/
example : (MDDF.run {} 10 fA (dk []) mObjB).2.1.overflowed = false :=
  (filtered_mp_deser_failure_reported {} 10 fA (dk []) mObjB gok (dk_inv [])).1 (by decide +kernel)

/-- `"hi"` with a maximal string length of 1 (`C05.tooLong`): with `AllowAllFilter` `StringNode::create` refuses (NoMemory,
    no allocator call, flag set); under `{"a":true}` the string is skipped and never measured: Ok -/
example : (MDDF.run tooLong 10 .all (dk []) mHi).1 = .noMemory ∧ (MDDF.run tooLong 10 .all (dk []) mHi).2.1.pl.log = [] ∧
    (MDDF.run tooLong 10 .all (dk []) mHi).2.1.overflowed = true ∧
    (MDDF.run tooLong 10 fA (dk []) mHi).1 = .ok ∧ (MDDF.run tooLong 10 fA (dk []) mHi).2.1.overflowed = false :=
  ⟨by decide +kernel, by decide +kernel,
    (filtered_mp_deser_nomemory_iff_overflowed tooLong 10 .all (dk []) mHi gok (dk_inv [])).1 (by decide +kernel),
    by decide +kernel,
    (filtered_mp_deser_failure_reported tooLong 10 fA (dk []) mHi gok (dk_inv [])).1 (by decide +kernel)⟩

/-- a KEY longer than the maximal string length is refused also when its member is skipped (maximal length 0, key `"b"`):
    NoMemory without an allocator call -/
example : (MDDF.run { maxStrLen := 0 } 10 fA (dk []) mObjB).1 = .noMemory ∧
    (MDDF.run { maxStrLen := 0 } 10 fA (dk []) mObjB).2.1.pl.log = [] ∧
    (MDDF.run { maxStrLen := 0 } 10 fA (dk []) mObjB).2.1.overflowed = true :=
  ⟨by decide +kernel, by decide +kernel,
    (filtered_mp_deser_nomemory_iff_overflowed { maxStrLen := 0 } 10 fA (dk []) mObjB gok (dk_inv [])).1 (by decide +kernel)⟩

/-- a 64-bit integer needs an extension slot: kept (`AllowAllFilter`) it fails when the pool cannot be allocated; skipped
    (`{"a":true}`) it needs nothing -/
example : (MDDF.run {} 10 .all (dk [1]) mBig).1 = .noMemory ∧ (MDDF.run {} 10 .all (dk [1]) mBig).2.1.overflowed = true ∧
    (MDDF.run {} 10 fA (dk [1]) mBig).1 = .ok ∧ (MDDF.run {} 10 fA (dk [1]) mBig).2.1.pl.log = [] :=
  ⟨by decide +kernel, (filtered_mp_deser_failure_reported {} 10 .all (dk [1]) mBig gok (dk_inv [1])).2.1 (by decide +kernel),
    by decide +kernel, by decide +kernel⟩

/-- a truncated skipped member: IncompleteInput, no failure, flag clear (by the equivalence) -/
example : (MDDF.run {} 10 fA (dk []) (mObjB.take 3)).1 = .incomplete ∧
    (MDDF.run {} 10 fA (dk []) (mObjB.take 3)).2.1.overflowed = false := by
  have h : (MDDF.run {} 10 fA (dk []) (mObjB.take 3)).1 = .incomplete := by decide +kernel
  refine ⟨h, ?_⟩
  cases ho : (MDDF.run {} 10 fA (dk []) (mObjB.take 3)).2.1.overflowed with
  | false => rfl
  | true =>
    have := (filtered_mp_deser_nomemory_iff_overflowed {} 10 fA (dk []) (mObjB.take 3) gok (dk_inv [])).2 ho
    rw [h] at this; cases this

/-- `[1]` under `[true]` when the pool cannot be allocated -/
example : (MDDF.run {} 10 fArr (dk [1]) mArr1).2.1.overflowed = true ∧ WF (MDDF.run {} 10 fArr (dk [1]) mArr1).2.1 :=
  ⟨(filtered_mp_deser_failure_reported {} 10 fArr (dk [1]) mArr1 gok (dk_inv [1])).2.1 (by decide +kernel),
    (filtered_mp_deser_failure_leaves_wf_and_clear_returns_all {} 10 fArr (dk [1]) mArr1 gok (dk_inv [1])).1⟩

end C05

namespace C06
open DL
open JD (Byte Code Flt)

/-- LEDGER. `d` is any document whose allocator log balances (`Bal`: blocks outstanding = pools with a block + heap pool
    table + string nodes). With `d' = (MDDF.run env limit flt d input).2.1` and `dp = MDDF.preShrink …` (the document when
    the deserializer object has been destroyed, just before `shrinkToFit`):
    * `Bal dp`: no leak and no double release - the StringBuffer's node was released or became a string node, also on
      every failure path and also when it only held keys that the filter dropped;
    * after `shrinkToFit` the ledger is short by exactly one block when the LAST pool is one whose creation failed:
      `reallocate(nullptr, 0)` hands it a block that the ledger (which counts `R` as 0) does not see;
    * when no allocation failed, every pool has its block: `Bal d'`, and after `clearAll` nothing is outstanding. -/
theorem filtered_mp_deser_blocks_balanced (env : MD.Env) (limit : Nat) (flt : Flt) (d : Doc) (input : List Byte)
    (gok : PL.GeoOK d.g) (hp : PL.Inv d.g d.pl) (hb : Bal d) :
    Bal (MDDF.preShrink env limit flt d input) ∧
    (MDDF.run env limit flt d input).2.1 =
      { MDDF.preShrink env limit flt d input with
        pl := PL.shrink (MDDF.preShrink env limit flt d input).g (MDDF.preShrink env limit flt d input).pl } ∧
    PL.net (MDDF.run env limit flt d input).2.1.pl =
      ((MDDF.run env limit flt d input).2.1.strings.length : Int) -
        (if JDD.lastBlockless (MDDF.preShrink env limit flt d input).pl then 1 else 0) ∧
    PL.outstanding (MDDF.run env limit flt d input).2.1.clearAll.pl.log =
      - (if JDD.lastBlockless (MDDF.preShrink env limit flt d input).pl then 1 else 0) ∧
    ((MDDF.run env limit flt d input).2.1.overflowed = false →
      Bal (MDDF.run env limit flt d input).2.1 ∧
      PL.outstanding (MDDF.run env limit flt d input).2.1.clearAll.pl.log = 0) := by
  refine ⟨MDDF.preShrink_bal env limit flt input gok hp hb, rfl, MDDF.run_net env limit flt input gok hp hb,
    MDDF.run_clearAll_outstanding env limit flt input gok hp hb, fun ho => ?_⟩
  have h := MDDF.run_bal env limit flt input gok hp hb ho
  exact ⟨h, clearAll_outstanding h⟩

/-- the same ledger when the `R0` that `shrinkToFit` issues on a block-less last pool is counted as the allocation it is
    (`reallocate(nullptr, 0)` returns a block): outstanding blocks = blocks owned, after `shrinkToFit` too, on every path -/
theorem filtered_mp_deser_blocks_balanced_counting_null_realloc (env : MD.Env) (limit : Nat) (flt : Flt) (d : Doc)
    (input : List Byte) (gok : PL.GeoOK d.g) (hp : PL.Inv d.g d.pl) (hb : Bal d) :
    PL.outstanding (MDDF.run env limit flt d input).2.1.pl.log +
        (if JDD.lastBlockless (MDDF.preShrink env limit flt d input).pl then 1 else 0) =
      (PL.blocks (MDDF.run env limit flt d input).2.1.pl + (MDDF.run env limit flt d input).2.1.strings.length : Nat) := by
  have h := MDDF.run_net env limit flt input gok hp hb
  unfold PL.net at h
  omega

/-! ## Non-vacuity -/
open C03.ExDoc C03.ExMp C03.ExFMp C05

/-- `{"b":2}` under `{"a":true}`: the buffer of the skipped key (`A16`) is released when the deserializer is destroyed
    (`D`): nothing outstanding, no string node; balanced, and after `clearAll` too -/
example : (MDDF.run {} 10 fA (dk []) mObjB).2.1.pl.log = ["D", "A16"] ∧ Bal (MDDF.run {} 10 fA (dk []) mObjB).2.1 ∧
    PL.outstanding (MDDF.run {} 10 fA (dk []) mObjB).2.1.clearAll.pl.log = 0 ∧
    PL.outstanding (MDDF.run {} 10 fA (dk []) mObjB).2.1.pl.log = 0 :=
  ⟨by decide +kernel,
    ((filtered_mp_deser_blocks_balanced {} 10 fA (dk []) mObjB gok (dk_inv []) (dk_bal [])).2.2.2.2 (by decide +kernel)).1,
    ((filtered_mp_deser_blocks_balanced {} 10 fA (dk []) mObjB gok (dk_inv []) (dk_bal [])).2.2.2.2 (by decide +kernel)).2,
    by decide +kernel⟩

/-- `"hi"` with `AllowAllFilter`: the buffer became the node: one block outstanding, one string node -/
example : Bal (MDDF.run {} 10 .all (dk []) mHi).2.1 ∧ PL.outstanding (MDDF.run {} 10 .all (dk []) mHi).2.1.pl.log = 1 :=
  ⟨((filtered_mp_deser_blocks_balanced {} 10 .all (dk []) mHi gok (dk_inv []) (dk_bal [])).2.2.2.2 (by decide +kernel)).1,
    by decide +kernel⟩

/-- kept and skipped members, a skipped object with keys of its own, a repeated key, any single failure position:
    balanced before `shrinkToFit` -/
example (k : Nat) : Bal (MDDF.preShrink {} 10 fA (dk [k]) mObjAB) ∧ Bal (MDDF.preShrink {} 10 fA (dk [k]) mObj2) ∧
    Bal (MDDF.preShrink {} 10 fNone (dk [k]) mObjBC) ∧ Bal (MDDF.preShrink {} 10 fA (dk [k]) (mObjAB.take 6)) :=
  ⟨(filtered_mp_deser_blocks_balanced {} 10 fA (dk [k]) mObjAB gok (dk_inv [k]) (dk_bal [k])).1,
    (filtered_mp_deser_blocks_balanced {} 10 fA (dk [k]) mObj2 gok (dk_inv [k]) (dk_bal [k])).1,
    (filtered_mp_deser_blocks_balanced {} 10 fNone (dk [k]) mObjBC gok (dk_inv [k]) (dk_bal [k])).1,
    (filtered_mp_deser_blocks_balanced {} 10 fA (dk [k]) _ gok (dk_inv [k]) (dk_bal [k])).1⟩

/-- WITNESS for the exception: `[1]` under `[true]` when the pool allocation fails (`A64!`): the pool list keeps a
    block-less pool, `shrinkToFit` reallocates it (`R0`), `clearAll` releases that block (`D`): −1 in the ledger -/
example : (MDDF.run {} 10 fArr (dk [1]) mArr1).2.1.pl.log = ["R0", "A64!"] ∧
    JDD.lastBlockless (MDDF.preShrink {} 10 fArr (dk [1]) mArr1).pl = true ∧
    PL.outstanding (MDDF.run {} 10 fArr (dk [1]) mArr1).2.1.clearAll.pl.log = -1 :=
  ⟨by decide +kernel, by decide +kernel, by decide +kernel⟩

/-- the witness again, with the `R0` counted: 0 + 1 = 1 block (the pool) + 0 strings -/
example : PL.outstanding (MDDF.run {} 10 fArr (dk [1]) mArr1).2.1.pl.log + 1 =
    (PL.blocks (MDDF.run {} 10 fArr (dk [1]) mArr1).2.1.pl + (MDDF.run {} 10 fArr (dk [1]) mArr1).2.1.strings.length : Nat) := by
  have h := filtered_mp_deser_blocks_balanced_counting_null_realloc {} 10 fArr (dk [1]) mArr1 gok (dk_inv [1]) (dk_bal [1])
  rw [show JDD.lastBlockless (MDDF.preShrink {} 10 fArr (dk [1]) mArr1).pl = true by decide +kernel] at h
  simpa using h

end C06
