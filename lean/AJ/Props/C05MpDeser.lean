/- C05 / C06 for the slot-level MessagePack deserializer `MDD.run` (AJ/Model/MDD.lean):
   C05 "when the allocator fails ... deserialization reports the failure (NoMemory) and overflowed() becomes true, the
        document stays a well-formed value, and after clear() every block has been returned";
   C06 "every block is released exactly once".
   For every environment, nesting limit, input, starting document and every allocator failure schedule.
   * `C05.mp_deser_failure_reported`: the result code against the overflow flag;
     `C05.mp_deser_nomemory_iff_overflowed`: for MessagePack the two coincide (stronger than for JSON);
   * `C05.mp_deser_failure_leaves_wf_and_clear_returns_all`: well-formed after a failure; `clearAll` returns every block.
   * `C06.mp_deser_blocks_balanced`: the allocator ledger (`PL.outstanding`, AJ/Lemmas/DocStr.lean) against the blocks
     owned, the StringBuffer's node included (released, or turned into a string node).
   Proofs: AJ/Lemmas/MddInv.lean. -/
import AJ.Lemmas.MddInv
import AJ.Props.C03MpDoc
import AJ.Props.C05Deser
namespace C05
open DL
open JD (Byte Code)

/-- FAILURE IS REPORTED. With `(c, d', _) = MDD.run env limit d input`:
    * `c = Ok` only if no allocation failed (`overflowed` is false);
    * `c = NoMemory` only if `overflowed` is true;
    * if some allocation failed (`overflowed`), the code is not `Ok`.
    The flag is raised by a failed pool / pool-table / extension-slot / string-node allocation and also, WITHOUT an allocator
    call, by a string or binary longer than the maximal string length (`tooLong` below). -/
theorem mp_deser_failure_reported (env : MD.Env) (limit : Nat) (d : Doc) (input : List Byte) (gok : PL.GeoOK d.g)
    (hp : PL.Inv d.g d.pl) :
    ((MDD.run env limit d input).1 = .ok → (MDD.run env limit d input).2.1.overflowed = false) ∧
    ((MDD.run env limit d input).1 = .noMemory → (MDD.run env limit d input).2.1.overflowed = true) ∧
    ((MDD.run env limit d input).2.1.overflowed = true → (MDD.run env limit d input).1 ≠ .ok) := by
  obtain ⟨a, b⟩ := MDD.mp_run_code env limit input gok hp
  refine ⟨a, b.1, fun ho e => ?_⟩
  rw [a e] at ho; cases ho

/-- STRONGER, for MessagePack: the flag is raised EXACTLY when the code is NoMemory. (Every routine of the MessagePack
    deserializer returns at once when an allocation fails; the JSON deserializer keeps lexing the current string token and
    may report its lexical error instead, see `C05.longOpen`.) -/
theorem mp_deser_nomemory_iff_overflowed (env : MD.Env) (limit : Nat) (d : Doc) (input : List Byte) (gok : PL.GeoOK d.g)
    (hp : PL.Inv d.g d.pl) :
    (MDD.run env limit d input).1 = .noMemory ↔ (MDD.run env limit d input).2.1.overflowed = true :=
  (MDD.mp_run_code env limit input gok hp).2

/-- AFTER A FAILURE (and without one): the document is a well-formed value; `clearAll` then leaves a document that owns
    nothing - no pool, no pool-table block, no string node. -/
theorem mp_deser_failure_leaves_wf_and_clear_returns_all (env : MD.Env) (limit : Nat) (d : Doc) (input : List Byte)
    (gok : PL.GeoOK d.g) (hp : PL.Inv d.g d.pl) :
    WF (MDD.run env limit d input).2.1 ∧
    PL.blocks (MDD.run env limit d input).2.1.clearAll.pl = 0 ∧ (MDD.run env limit d input).2.1.clearAll.strings = [] ∧
    (MDD.run env limit d input).2.1.clearAll.pl.pools = [] ∧
    (MDD.run env limit d input).2.1.clearAll.pl.log =
      List.replicate (PL.blocks (MDD.run env limit d input).2.1.pl + (MDD.run env limit d input).2.1.strings.length) "D" ++
        (MDD.run env limit d input).2.1.pl.log := by
  obtain ⟨h1, _, h3, _, h5, h6, _⟩ := clearAll_spec (MDD.run env limit d input).2.1
  exact ⟨MDD.mp_run_wf env limit input gok hp, h5, h6, h3, h1⟩

/-! ## Non-vacuity -/
open C03.ExDoc C03.ExMp

/-- `"hi"`: the buffer's allocation fails: NoMemory, flag set -/
example : (MDD.run {} 10 (dk [1]) mHi).1 = .noMemory ∧ (MDD.run {} 10 (dk [1]) mHi).2.1.overflowed = true :=
  ⟨by decide +kernel, (mp_deser_failure_reported {} 10 (dk [1]) mHi gok (dk_inv [1])).2.1 (by decide +kernel)⟩

/-- `"hi"` without failure: Ok, flag clear -/
example : (MDD.run {} 10 (dk []) mHi).2.1.overflowed = false :=
  (mp_deser_failure_reported {} 10 (dk []) mHi gok (dk_inv [])).1 (by decide +kernel)

/-- `"hi"` with a maximal string length of 1: `StringNode::create` refuses, NO allocator call is made (empty log), the
    flag is set and NoMemory reported -/
def tooLong : MD.Env := { maxStrLen := 1 }
example : (MDD.run tooLong 10 (dk []) mHi).1 = .noMemory ∧ (MDD.run tooLong 10 (dk []) mHi).2.1.pl.log = [] ∧
    (MDD.run tooLong 10 (dk []) mHi).2.1.overflowed = true :=
  ⟨by decide +kernel, by decide +kernel,
    (mp_deser_nomemory_iff_overflowed tooLong 10 (dk []) mHi gok (dk_inv [])).1 (by decide +kernel)⟩

/-- a 64-bit integer needs an extension slot: when the pool cannot be allocated, `setInteger` fails: NoMemory;
    a float32 is stored in place and never fails (same failure schedule: Ok, no allocator call) -/
example : (MDD.run {} 10 (dk [1]) mBig).1 = .noMemory ∧ (MDD.run {} 10 (dk [1]) mBig).2.1.overflowed = true ∧
    (MDD.run {} 10 (dk [1]) [0xca, 1, 2, 3, 4]).1 = .ok ∧ (MDD.run {} 10 (dk [1]) [0xca, 1, 2, 3, 4]).2.1.pl.log = [] :=
  ⟨by decide +kernel, (mp_deser_failure_reported {} 10 (dk [1]) mBig gok (dk_inv [1])).2.1 (by decide +kernel),
    by decide +kernel, by decide +kernel⟩

/-- a truncated string: IncompleteInput, no failure, flag clear (by the equivalence) -/
example : (MDD.run {} 10 (dk []) (mHi.take 2)).1 = .incomplete ∧ (MDD.run {} 10 (dk []) (mHi.take 2)).2.1.overflowed = false := by
  have h : (MDD.run {} 10 (dk []) (mHi.take 2)).1 = .incomplete := by decide +kernel
  refine ⟨h, ?_⟩
  cases ho : (MDD.run {} 10 (dk []) (mHi.take 2)).2.1.overflowed with
  | false => rfl
  | true =>
    have := (mp_deser_nomemory_iff_overflowed {} 10 (dk []) (mHi.take 2) gok (dk_inv [])).2 ho
    rw [h] at this; cases this

/-- `[1]` when the pool cannot be allocated -/
example : (MDD.run {} 10 (dk [1]) mArr1).2.1.overflowed = true ∧ WF (MDD.run {} 10 (dk [1]) mArr1).2.1 :=
  ⟨(mp_deser_failure_reported {} 10 (dk [1]) mArr1 gok (dk_inv [1])).2.1 (by decide +kernel),
    (mp_deser_failure_leaves_wf_and_clear_returns_all {} 10 (dk [1]) mArr1 gok (dk_inv [1])).1⟩

end C05

namespace C06
open DL
open JD (Byte Code)

/-- LEDGER. `d` is any document whose allocator log balances (`Bal`: blocks outstanding = pools with a block + heap pool
    table + string nodes). With `d' = (MDD.run env limit d input).2.1` and `dp = MDD.mp_preShrink …` (the document when the
    deserializer object has been destroyed, just before `shrinkToFit`):
    * `Bal dp`: no leak and no double release - the StringBuffer's node was released or became a string node, also on
      every failure path;
    * after `shrinkToFit` the ledger is short by exactly one block when the LAST pool is one whose creation failed:
      `reallocate(nullptr, 0)` hands it a block that the ledger (which counts `R` as 0) does not see;
    * when no allocation failed, every pool has its block: `Bal d'`, and after `clearAll` nothing is outstanding. -/
theorem mp_deser_blocks_balanced (env : MD.Env) (limit : Nat) (d : Doc) (input : List Byte) (gok : PL.GeoOK d.g)
    (hp : PL.Inv d.g d.pl) (hb : Bal d) :
    Bal (MDD.mp_preShrink env limit d input) ∧
    (MDD.run env limit d input).2.1 =
      { MDD.mp_preShrink env limit d input with
        pl := PL.shrink (MDD.mp_preShrink env limit d input).g (MDD.mp_preShrink env limit d input).pl } ∧
    PL.net (MDD.run env limit d input).2.1.pl =
      ((MDD.run env limit d input).2.1.strings.length : Int) -
        (if JDD.lastBlockless (MDD.mp_preShrink env limit d input).pl then 1 else 0) ∧
    PL.outstanding (MDD.run env limit d input).2.1.clearAll.pl.log =
      - (if JDD.lastBlockless (MDD.mp_preShrink env limit d input).pl then 1 else 0) ∧
    ((MDD.run env limit d input).2.1.overflowed = false →
      Bal (MDD.run env limit d input).2.1 ∧ PL.outstanding (MDD.run env limit d input).2.1.clearAll.pl.log = 0) := by
  refine ⟨MDD.mp_preShrink_bal env limit input gok hp hb, rfl, MDD.mp_run_net env limit input gok hp hb,
    MDD.mp_run_clearAll_outstanding env limit input gok hp hb, fun ho => ?_⟩
  have h := MDD.mp_run_bal env limit input gok hp hb ho
  exact ⟨h, clearAll_outstanding h⟩

/-- the same ledger when the `R0` that `shrinkToFit` issues on a block-less last pool is counted as the allocation it is
    (`reallocate(nullptr, 0)` returns a block): outstanding blocks = blocks owned, after `shrinkToFit` too, on every path -/
theorem mp_deser_blocks_balanced_counting_null_realloc (env : MD.Env) (limit : Nat) (d : Doc) (input : List Byte)
    (gok : PL.GeoOK d.g) (hp : PL.Inv d.g d.pl) (hb : Bal d) :
    PL.outstanding (MDD.run env limit d input).2.1.pl.log +
        (if JDD.lastBlockless (MDD.mp_preShrink env limit d input).pl then 1 else 0) =
      (PL.blocks (MDD.run env limit d input).2.1.pl + (MDD.run env limit d input).2.1.strings.length : Nat) := by
  have h := MDD.mp_run_net env limit input gok hp hb
  unfold PL.net at h
  omega

/-! ## Non-vacuity -/
open C03.ExDoc C03.ExMp

/-- `"hi"` without failure: the buffer (`A17`) became the node: one block outstanding, one string node;
    after `clearAll` none -/
example : Bal (MDD.run {} 10 (dk []) mHi).2.1 ∧ PL.outstanding (MDD.run {} 10 (dk []) mHi).2.1.clearAll.pl.log = 0 ∧
    PL.outstanding (MDD.run {} 10 (dk []) mHi).2.1.pl.log = 1 :=
  ⟨((mp_deser_blocks_balanced {} 10 (dk []) mHi gok (dk_inv []) (dk_bal [])).2.2.2.2 (by decide +kernel)).1,
    ((mp_deser_blocks_balanced {} 10 (dk []) mHi gok (dk_inv []) (dk_bal [])).2.2.2.2 (by decide +kernel)).2,
    by decide +kernel⟩

/-- a truncated string: the buffer was allocated (`A17`) and is released when the deserializer is destroyed (`D`) -/
example : (MDD.run {} 10 (dk []) (mHi.take 2)).2.1.pl.log = ["D", "A17"] ∧
    Bal (MDD.mp_preShrink {} 10 (dk []) (mHi.take 2)) :=
  ⟨by decide +kernel, (mp_deser_blocks_balanced {} 10 (dk []) _ gok (dk_inv []) (dk_bal [])).1⟩

/-- `{"a":1}` and the repeated key (the key goes through the buffer and is saved; the second `"a"` finds the node, the
    buffer is kept, reused for the value `"a"` and released at the end), any single failure position: balanced before
    `shrinkToFit` -/
example (k : Nat) : Bal (MDD.mp_preShrink {} 10 (dk [k]) mObj1) ∧ Bal (MDD.mp_preShrink {} 10 (dk [k]) mObj2) :=
  ⟨(mp_deser_blocks_balanced {} 10 (dk [k]) mObj1 gok (dk_inv [k]) (dk_bal [k])).1,
    (mp_deser_blocks_balanced {} 10 (dk [k]) mObj2 gok (dk_inv [k]) (dk_bal [k])).1⟩

/-- WITNESS for the exception: `[1]` when the pool allocation fails (`A64!`): the pool list keeps a block-less pool,
    `shrinkToFit` reallocates it (`R0`), `clearAll` releases that block (`D`): −1 in the ledger -/
example : (MDD.run {} 10 (dk [1]) mArr1).2.1.pl.log = ["R0", "A64!"] ∧
    JDD.lastBlockless (MDD.mp_preShrink {} 10 (dk [1]) mArr1).pl = true ∧
    PL.outstanding (MDD.run {} 10 (dk [1]) mArr1).2.1.clearAll.pl.log = -1 :=
  ⟨by decide +kernel, by decide +kernel, by decide +kernel⟩

/-- the witness again, with the `R0` counted: 0 + 1 = 1 block (the pool) + 0 strings -/
example : PL.outstanding (MDD.run {} 10 (dk [1]) mArr1).2.1.pl.log + 1 =
    (PL.blocks (MDD.run {} 10 (dk [1]) mArr1).2.1.pl + (MDD.run {} 10 (dk [1]) mArr1).2.1.strings.length : Nat) := by
  have h := mp_deser_blocks_balanced_counting_null_realloc {} 10 (dk [1]) mArr1 gok (dk_inv [1]) (dk_bal [1])
  rw [show JDD.lastBlockless (MDD.mp_preShrink {} 10 (dk [1]) mArr1).pl = true by decide +kernel] at h
  simpa using h

end C06
