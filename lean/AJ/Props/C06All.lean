/- Aggregate: C06 pool-level theorems (namespace C06 of C19.lean) and document-level reuse / string-table / ledger theorems (C06Doc.lean). -/
import AJ.Props.C19
import AJ.Props.C06Doc
import AJ.Props.C05Deser
import AJ.Props.C05MpDeser
import AJ.Props.C06Mem
import AJ.Props.C06FExact
import AJ.Props.C05FMpDeser
import AJ.Props.C05FDeser
import AJ.Props.C06FMpExact
