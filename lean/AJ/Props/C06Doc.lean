/- C06 at the document level (model `DL`, AJ/Model/DL.lean, over the pool model `PL`):
   "When no allocation fails, slots released by a removal are reused by later insertions before a new pool is requested,
    equal copied strings are stored once and released when the last value using them disappears, and read-only
    operations never call the allocator. … after clear() no block remains."

   * §1 reuse: `clear_then_add_no_allocator_call`, `clear_then_adds_no_allocator_call`, `clear_then_add_refines`
   * §2 strings: `equal_strings_stored_once`, `new_string_one_block`, `string_released_with_last_user`,
     `clear_last_user_releases_block`, `clear_one_of_several_keeps_block`, `clear_releases_unused_strings`
   * §3 read-only operations: `readonly_no_allocator`
   * §4 `clearAll`: `clearAll_returns_everything`, over the invariants `Good` kept by every history (`history_good`)

   The allocator log is read through the ledger `PL.outstanding` (AJ/Lemmas/DocStr.lean): +1 per successful `A<n>`,
   −1 per `D`, 0 for a failed `A<n>!` and for `R<n>` (a reallocation replaces a block by a block, or fails and keeps it).
   Not covered by this ledger: `PL.shrink` of a block-less pool (`reallocate(nullptr, 0)` yields a block); `shrink` is not
   an operation of the histories of AJ/Props/C04Hist.lean. -/
import AJ.Props.C04Hist
import AJ.Lemmas.DocReuse
namespace C06
open DL
open JD (Byte Val)
open C04 (Op Hist)

/-! ## 0. Invariants of reachable documents -/

/-- what every reachable document satisfies on top of `WFG`/`StrOK`: reference counts are exact (`StrOK` says "at
    least", `Exact` says "and not more, and no unused node"), the allocator log balances against the blocks owned,
    and no two string nodes hold the same bytes -/
structure Good (d : Doc) (F : Forest) : Prop where
  exact : Exact d (d.strRefs F)
  bal : Bal d
  once : BytesNodup d

/-- a document that owns nothing and whose allocator was never called (any root value, any failure oracle) -/
theorem fresh_good {d : Doc} {F : Forest} (h1 : d.strings = []) (h2 : d.pl.log = []) (h3 : d.pl.pools = [])
    (h4 : d.pl.tableHeap = false) : Good d F := by
  refine ⟨fun n hn => (by rw [h1] at hn; cases hn), ?_, ?_⟩
  · unfold Bal PL.net PL.blocks; rw [h1, h2, h3, h4]; rfl
  · unfold BytesNodup; rw [h1]; exact List.nodup_nil

theorem step_good {d : Doc} {F : Forest} {op : Op} (w : WFG d F) (hs : StrOK d (d.strRefs F))
    (gok : PL.GeoOK d.g) (hv : op.Valid d F) (h : Good d F) : Good (op.run d) (op.layout d F) := by
  cases op with
  | add l =>
    obtain ⟨hl, hh, t, hg⟩ := hv
    obtain ⟨a, b⟩ := addElement_strRefs w hs gok hl hg
    exact ⟨Exact_perm b.symm (Exact_congr a h.exact), addElement_bal l h.bal, addElement_bytesNodup l h.once⟩
  | clear l =>
    exact ⟨(clearV_exact w hs hv).2.2.2.2 h.exact, clearV_bal w hs hv h.bal, clearV_bytesNodup w hs hv h.once⟩
  | put l a =>
    obtain ⟨hl, hn, hok⟩ := hv
    exact ⟨setArg_exact w hs h.exact hl hn gok hok, setArg_bal l a h.bal, setArg_bytesNodup l a h.once⟩

/-- the invariants hold after every history of valid operations -/
theorem history_good {d d' : Doc} {F F' : Forest} (h : Hist d F d' F') :
    WFG d F → StrOK d (d.strRefs F) → PL.GeoOK d.g → Good d F → Good d' F' := by
  induction h with
  | nil d F => intro _ _ _ g; exact g
  | cons op hv _ ih =>
    intro w hs gok g
    obtain ⟨a, b, c, _⟩ := C04.step_refines w hs gok hv
    exact ih a b (by rw [c]; exact gok) (step_good w hs gok hv g)

/-! ## 1. Released slots are reused before the allocator is called -/

theorem subtree_slots_le {d : Doc} {F : Forest} {l : Loc} (w : WFG d F) (hs : StrOK d (d.strRefs F)) (hl : isLoc F l) :
    (layoutAt F l).ids.length ≤ (relSlots d F l).length := by
  obtain ⟨_, _, _, _, h, _⟩ := clearV_x w hs hl
  exact List.Nodup.length_le_of_subset (layoutAt_nodup w.nodup hl) (fun x hx => h x hx)

/-- a location whose subtree holds at least one slot releases at least one slot when cleared -/
theorem relSlots_ne_nil {d : Doc} {F : Forest} {l : Loc} (w : WFG d F) (hs : StrOK d (d.strRefs F)) (hl : isLoc F l)
    (hne : layoutAt F l ≠ .nil) : relSlots d F l ≠ [] := by
  have := subtree_slots_le w hs hl
  intro e
  rw [e] at this
  cases hF : layoutAt F l with
  | nil => exact hne hF
  | cons k i s r => rw [hF] at this; simp [Forest.ids] at this

/-- the free list after `clearV l`: the released slots, last released first, in front of the old free list -/
theorem free_after_clear {d : Doc} {F : Forest} {l : Loc} (w : WFG d F) (hs : StrOK d (d.strRefs F)) (hl : isLoc F l) :
    (d.clearV l).pl.free = (relSlots d F l).reverse ++ d.pl.free ∧ (d.clearV l).pl.pools = d.pl.pools ∧
    (d.clearV l).pl.calls = d.pl.calls ∧
    (d.clearV l).pl.log = List.replicate (d.strings.length - (d.clearV l).strings.length) "D" ++ d.pl.log := by
  rw [(clearV_exact w hs hl).1]; exact ⟨rfl, rfl, rfl, rfl⟩

/-- After `clearV l` released at least one slot (`l` holds an array/object with at least one element:
    `relSlots_ne_nil`; or a 64-bit number with its extension slot), the next `addElement` — at any location — succeeds
    WITHOUT any allocator call: it gets a slot that the clear released (it was live before), the allocator log, the
    call counter and the pools are unchanged, the overflow flag is not raised. -/
theorem clear_then_add_no_allocator_call {d : Doc} {F : Forest} {l : Loc} (w : WFG d F) (hs : StrOK d (d.strRefs F))
    (hl : isLoc F l) (hne : relSlots d F l ≠ []) (l' : Loc) :
    ∃ id, ((d.clearV l).addElement l').1 = some id ∧ id ∈ relSlots d F l ∧ PL.live d.g d.pl id ∧
      ((d.clearV l).addElement l').2.pl.log = (d.clearV l).pl.log ∧
      ((d.clearV l).addElement l').2.pl.calls = (d.clearV l).pl.calls ∧
      ((d.clearV l).addElement l').2.pl.pools = (d.clearV l).pl.pools ∧
      ((d.clearV l).addElement l').2.overflowed = d.overflowed := by
  obtain ⟨hfree, _⟩ := free_after_clear w hs hl
  obtain ⟨_, _, _, _, _, _, _, hlive⟩ := clearV_x w hs hl
  cases hr : (relSlots d F l).reverse with
  | nil => exact absurd (List.reverse_eq_nil_iff.1 hr) hne
  | cons id rest =>
    rw [hr] at hfree
    obtain ⟨a, b, c, _⟩ := addElement_reuse (d := d.clearV l) hfree l'
    have hid : id ∈ relSlots d F l := by
      have : id ∈ (relSlots d F l).reverse := by rw [hr]; simp
      exact List.mem_reverse.1 this
    exact ⟨id, a, hid, hlive id hid, by rw [b], by rw [b], by rw [b], by rw [c, (clearV_exact w hs hl).2.2.1]⟩

/-- More generally: after `clearV l` released `k` slots, the next `k` insertions (at any locations `ls`) take exactly
    these slots, last released first, and add nothing to the allocator log; in particular (`subtree_slots_le`) as many
    insertions as the cleared subtree had slots. -/
theorem clear_then_adds_no_allocator_call {d : Doc} {F : Forest} {l : Loc} (w : WFG d F) (hs : StrOK d (d.strRefs F))
    (hl : isLoc F l) (ls : List Loc) (hk : ls.length ≤ (relSlots d F l).length) :
    (addAll ls (d.clearV l)).1 = ((relSlots d F l).reverse.take ls.length).map some ∧
    (addAll ls (d.clearV l)).2.pl.log = (d.clearV l).pl.log ∧
    (addAll ls (d.clearV l)).2.pl.calls = (d.clearV l).pl.calls ∧
    (addAll ls (d.clearV l)).2.pl.pools = (d.clearV l).pl.pools ∧
    (addAll ls (d.clearV l)).2.overflowed = d.overflowed := by
  obtain ⟨hfree, _⟩ := free_after_clear w hs hl
  have hlen : ls.length ≤ (relSlots d F l).reverse.length := by rw [List.length_reverse]; exact hk
  obtain ⟨a, b, c, _⟩ := addAll_reuse ls (d.clearV l) (by rw [hfree, List.length_append]; omega)
  refine ⟨?_, by rw [b], by rw [b], by rw [b], by rw [c, (clearV_exact w hs hl).2.2.1]⟩
  rw [a, hfree, List.take_append_of_le_length hlen]

/-- … and when the insertion targets an array location of the cleared document, the result is the well-formed
    document with one null element appended there (C04), still without any allocator call. -/
theorem clear_then_add_refines {d : Doc} {F : Forest} {l l' : Loc} {h t : Nat} (w : WFG d F)
    (hs : StrOK d (d.strRefs F)) (gok : PL.GeoOK d.g) (hl : isLoc F l) (hne : relSlots d F l ≠ [])
    (hl' : isLoc (replaceAt F l .nil) l') (hv : (d.clearV l).get l' = .arr h t) :
    ∃ id F'', ((d.clearV l).addElement l').1 = some id ∧
      WFG ((d.clearV l).addElement l').2 F'' ∧ StrOK ((d.clearV l).addElement l').2 (((d.clearV l).addElement l').2.strRefs F'') ∧
      (∃ xs, (d.clearV l).toVal ((d.clearV l).get l') = .arr xs ∧
        abs ((d.clearV l).addElement l').2 = absWith (d.clearV l) (replaceAt F l .nil) l' (.arr (xs ++ [.null]))) ∧
      ((d.clearV l).addElement l').2.pl.log = (d.clearV l).pl.log := by
  obtain ⟨w1, s1, _, _⟩ := clearV_spec w hs hl
  obtain ⟨id, a, _, _, b, _⟩ := clear_then_add_no_allocator_call w hs hl hne l'
  have gok1 : PL.GeoOK (d.clearV l).g := by rw [clearV_g w hs hl]; exact gok
  generalize hal : (d.clearV l).allocVariant = r
  obtain ⟨m, d1⟩ := r
  have hm : m = some id := by
    have : ((d.clearV l).addElement l').1 = m := by
      simp only [Doc.addElement, hal]; cases m <;> rfl
    rw [← this, a]
  subst hm
  obtain ⟨_, x, y, z⟩ := C04.addElement_refines w1 s1 gok1 hl' hv hal
  exact ⟨id, _, a, x, y, z, b⟩

/-! ## 2. Equal copied strings are stored once and released with their last user -/

/-- `saveString s` when a node already holds the bytes `s`: the allocator is not called (the pool state, log included,
    is untouched), no node is added, the node found gets one more reference, every other counter is unchanged. -/
theorem equal_strings_stored_once {d : Doc} {s : List Byte} (hnd : (d.strings.map (·.id)).Nodup)
    (hex : ∃ x ∈ d.strings, x.bytes = s) :
    ∃ x ∈ d.strings, x.bytes = s ∧ (d.saveString s).1 = some x.id ∧
      (d.saveString s).2.pl = d.pl ∧ (d.saveString s).2.overflowed = d.overflowed ∧
      (d.saveString s).2.strings.map (·.id) = d.strings.map (·.id) ∧
      (d.saveString s).2.strings.map (·.bytes) = d.strings.map (·.bytes) ∧
      (d.saveString s).2.refsOf x.id = d.refsOf x.id + 1 ∧
      ∀ m, m ≠ x.id → (d.saveString s).2.refsOf m = d.refsOf m := by
  cases hf : d.strings.find? (·.bytes == s) with
  | none =>
    obtain ⟨x, hx, hb⟩ := hex
    have := List.find?_eq_none.1 hf x hx
    simp [hb] at this
  | some x =>
    have hx : x ∈ d.strings := List.mem_of_find?_eq_some hf
    have hb : x.bytes = s := by have := List.find?_some hf; simpa using this
    rw [saveString_found hf]
    have hfid : ∀ y : StrNode, (if y.id == x.id then { y with refs := y.refs + 1 } else y).id = y.id ∧
        (if y.id == x.id then { y with refs := y.refs + 1 } else y).bytes = y.bytes := by
      intro y; split <;> exact ⟨rfl, rfl⟩
    have hfind : ∀ m, (d.strings.map (fun y => if y.id == x.id then { y with refs := y.refs + 1 } else y)).find?
        (·.id == m) = (d.strings.find? (·.id == m)).map
          (fun y => if y.id == x.id then { y with refs := y.refs + 1 } else y) := by
      intro m
      rw [List.find?_map]
      have : ((fun (y : StrNode) => y.id == m) ∘ fun y => if y.id == x.id then { y with refs := y.refs + 1 } else y)
          = fun y => y.id == m := by funext y; simp only [Function.comp, (hfid y).1]
      rw [this]
    refine ⟨x, hx, hb, rfl, rfl, rfl, ?_, ?_, ?_, ?_⟩
    · show (d.strings.map _).map _ = _
      rw [List.map_map]; congr 1; funext y; exact (hfid y).1
    · show (d.strings.map _).map _ = _
      rw [List.map_map]; congr 1; funext y; exact (hfid y).2
    · simp only [Doc.refsOf, hfind, find_id_of_nodup hnd hx, Option.map_some, beq_self_eq_true, if_true]
    · intro m hm
      simp only [Doc.refsOf, hfind]
      cases hfm : d.strings.find? (·.id == m) with
      | none => rfl
      | some y =>
        have : y.id = m := by have := List.find?_some hfm; simpa using this
        have hb : (y.id == x.id) = false := by simp [this, hm]
        simp only [Option.map_some, hb]
        rfl

/-- `saveString s` when no node holds the bytes `s`, the length is within the limit `maxStrLen` (`StringNode::maxLength`)
    and the allocator does not fail: exactly one block of the
    documented size `length + overhead` is requested (one log entry, one call), nothing else happens to the pool, and
    one node with one reference is added. (Beyond the limit no block is requested at all: `new_string_too_long_no_block`.) -/
theorem new_string_one_block {d : Doc} {s : List Byte} (hnew : ∀ x ∈ d.strings, x.bytes ≠ s)
    (hlen : s.length ≤ d.maxStrLen) (hok : d.pl.failsAt (d.pl.calls + 1) = false) :
    (d.saveString s).1 = some d.nextNode ∧
    (d.saveString s).2.pl.log = s!"A{s.length + d.strOverhead}" :: d.pl.log ∧
    (d.saveString s).2.pl.calls = d.pl.calls + 1 ∧
    (d.saveString s).2.pl.pools = d.pl.pools ∧ (d.saveString s).2.pl.free = d.pl.free ∧
    (d.saveString s).2.strings = ⟨d.nextNode, s, 1⟩ :: d.strings ∧
    (d.saveString s).2.overflowed = d.overflowed := by
  have hf : d.strings.find? (·.bytes == s) = none := by
    rw [List.find?_eq_none]; intro x hx; simpa using hnew x hx
  rw [saveString_short hf hlen, hok]
  refine ⟨rfl, ?_, rfl, rfl, rfl, rfl, rfl⟩
  show (d.pl.alloc (s.length + d.strOverhead)).2.log = _
  show s!"A{s.length + d.strOverhead}{if d.pl.failsAt (d.pl.calls + 1) then "!" else ""}" :: d.pl.log = _
  rw [hok]
  show (toString "A" ++ toString (s.length + d.strOverhead) ++ "") :: d.pl.log = _
  rw [String.append_empty]

/-- `saveString s` when no node holds the bytes `s` and `s` is longer than `maxStrLen`: no block is requested (the
    allocator state - log, call counter, pools, free list - is untouched), no node is added, the overflow flag is set. -/
theorem new_string_too_long_no_block {d : Doc} {s : List Byte} (hnew : ∀ x ∈ d.strings, x.bytes ≠ s)
    (hlong : d.maxStrLen < s.length) :
    (d.saveString s).1 = none ∧ (d.saveString s).2.pl = d.pl ∧ (d.saveString s).2.strings = d.strings ∧
    (d.saveString s).2.overflowed = true := by
  have hf : d.strings.find? (·.bytes == s) = none := by
    rw [List.find?_eq_none]; intro x hx; simpa using hnew x hx
  rw [saveString_long hf hlong]
  exact ⟨rfl, rfl, rfl, rfl⟩

/-- `derefString` of an existing node: with reference count 1 (or less) the node is removed and exactly one `D` is
    logged; with a count above 1 the count is decremented and the allocator is left alone. Nothing else changes. -/
theorem string_released_with_last_user {d : Doc} {n : Nat} {x : StrNode} (hnd : (d.strings.map (·.id)).Nodup)
    (hx : x ∈ d.strings) (hn : x.id = n) :
    (x.refs ≤ 1 →
      (d.derefString n).pl.log = "D" :: d.pl.log ∧ (d.derefString n).pl.calls = d.pl.calls ∧
      (d.derefString n).pl.pools = d.pl.pools ∧ (d.derefString n).pl.free = d.pl.free ∧
      (d.derefString n).strings = d.strings.filter (·.id != n) ∧ (∀ y ∈ (d.derefString n).strings, y.id ≠ n) ∧
      (d.derefString n).strings.length + 1 = d.strings.length) ∧
    (1 < x.refs →
      (d.derefString n).pl = d.pl ∧ (d.derefString n).refsOf n = x.refs - 1 ∧
      (d.derefString n).strings.length = d.strings.length ∧
      ∀ m, m ≠ n → (d.derefString n).refsOf m = d.refsOf m) := by
  have hf : d.strings.find? (·.id == n) = some x := by rw [← hn]; exact find_id_of_nodup hnd hx
  rw [derefString_found hf]
  constructor
  · intro hle
    rw [if_pos hle]
    refine ⟨rfl, rfl, rfl, rfl, rfl, ?_, ?_⟩
    · intro y hy
      have := (List.mem_filter.1 hy).2
      simpa using this
    · have := filter_id_length hnd hx
      rw [hn] at this; exact this
  · intro hgt
    rw [if_neg (by omega)]
    have hfid : ∀ y : StrNode, (if y.id == n then { y with refs := y.refs - 1 } else y).id = y.id := by
      intro y; split <;> rfl
    have hfind : ∀ m, (d.strings.map (fun y => if y.id == n then { y with refs := y.refs - 1 } else y)).find?
        (·.id == m) = (d.strings.find? (·.id == m)).map
          (fun y => if y.id == n then { y with refs := y.refs - 1 } else y) := by
      intro m
      rw [List.find?_map]
      have : ((fun (y : StrNode) => y.id == m) ∘ fun y => if y.id == n then { y with refs := y.refs - 1 } else y)
          = fun y => y.id == m := by funext y; simp only [Function.comp, hfid y]
      rw [this]
    refine ⟨rfl, ?_, by show (d.strings.map _).length = _; rw [List.length_map], ?_⟩
    · have hb : (x.id == n) = true := by simp [hn]
      simp only [Doc.refsOf, hfind, hf, Option.map_some, hb, if_true]
    · intro m hm
      simp only [Doc.refsOf, hfind]
      cases hfm : d.strings.find? (·.id == m) with
      | none => rfl
      | some y =>
        have : y.id = m := by have := List.find?_some hfm; simpa using this
        have hb : (y.id == n) = false := by simp [this, hm]
        simp only [Option.map_some, hb]
        rfl

/-- the string table of `d.clearV l` when `l` holds a copied string: that of `d.derefString n` -/
theorem clearV_owned_eq {d : Doc} {l : Loc} {n : Nat} (hv : d.get l = .owned n) :
    d.clearV l = (d.derefString n).set l .null := by
  rw [clearV_scalar_eq (by rw [hv]; exact fun h => h), hv]; rfl

/-- Clearing the LAST value that uses a copied string (no other value of the document references node `n`) releases
    its block: exactly one `D` is logged, the node disappears; nothing else happens to the pool. -/
theorem clear_last_user_releases_block {d : Doc} {F : Forest} {l : Loc} {n : Nat}
    (hs : StrOK d (d.strRefs F)) (he : Exact d (d.strRefs F)) (hv : d.get l = .owned n)
    (hlast : (d.strRefs F).count n = 1) :
    (d.clearV l).pl.log = "D" :: d.pl.log ∧ (d.clearV l).pl.calls = d.pl.calls ∧
    (d.clearV l).pl.pools = d.pl.pools ∧ (d.clearV l).pl.free = d.pl.free ∧
    (∀ y ∈ (d.clearV l).strings, y.id ≠ n) ∧ (d.clearV l).strings.length + 1 = d.strings.length := by
  have hmem : n ∈ d.strRefs F := List.count_pos_iff.1 (by omega)
  obtain ⟨x, hx, hxn⟩ := hs.present n hmem
  have hrefs : x.refs ≤ 1 := by have := (he x hx).1; rw [hxn, hlast] at this; omega
  obtain ⟨a, b, c, e, _, f, g⟩ := (string_released_with_last_user hs.ids_nodup hx hxn).1 hrefs
  rw [clearV_owned_eq hv, set_pl, set_strings]
  exact ⟨a, b, c, e, f, g⟩

/-- Clearing ONE OF SEVERAL values that use a copied string does not release it: the allocator is not called, the
    pool state is untouched, the node stays with one reference less. -/
theorem clear_one_of_several_keeps_block {d : Doc} {F : Forest} {l : Loc} {n : Nat}
    (hs : StrOK d (d.strRefs F)) (hv : d.get l = .owned n)
    (hmore : 2 ≤ (d.strRefs F).count n) :
    (d.clearV l).pl = d.pl ∧ (d.clearV l).refsOf n = d.refsOf n - 1 ∧ 1 ≤ (d.clearV l).refsOf n ∧
    (d.clearV l).strings.length = d.strings.length := by
  have hmem : n ∈ d.strRefs F := List.count_pos_iff.1 (by omega)
  obtain ⟨x, hx, hxn⟩ := hs.present n hmem
  have hrefs : 1 < x.refs := by have := hs.refs x hx; rw [hxn] at this; omega
  obtain ⟨a, b, c, _⟩ := (string_released_with_last_user hs.ids_nodup hx hxn).2 hrefs
  have hr : d.refsOf n = x.refs := by rw [← hxn]; exact refsOf_of_mem hs.ids_nodup hx
  rw [clearV_owned_eq hv, set_pl]
  refine ⟨a, ?_, ?_, by rw [set_strings]; exact c⟩
  · show Doc.refsOf _ n = _
    simp only [Doc.refsOf, set_strings] at b ⊢
    rw [b, ← hr]; rfl
  · simp only [Doc.refsOf, set_strings] at b ⊢
    rw [b]; omega

/-- The general statement, for clearing ANY location (a whole array/object included): one `D` per string node that
    disappears and no other allocator traffic; the counter of every node drops by the number of references to it
    inside the cleared value; a node survives exactly when some reference to it remains. -/
theorem clear_releases_unused_strings {d : Doc} {F : Forest} {l : Loc} (w : WFG d F) (hs : StrOK d (d.strRefs F))
    (he : Exact d (d.strRefs F)) (hl : isLoc F l) :
    (d.clearV l).pl.log = List.replicate (d.strings.length - (d.clearV l).strings.length) "D" ++ d.pl.log ∧
    (d.clearV l).pl.calls = d.pl.calls ∧
    (∀ m, (d.clearV l).refsOf m + (relStrs d F l).count m = d.refsOf m) ∧
    (∀ m, (∃ y ∈ (d.clearV l).strings, y.id = m) ↔ (relStrs d F l).count m < d.refsOf m) := by
  obtain ⟨_, _, hc, hlog⟩ := free_after_clear w hs hl
  obtain ⟨_, s1, _, _⟩ := clearV_spec w hs hl
  have e1 := (clearV_exact w hs hl).2.2.2.2 he
  have hp := strRefs_clearV_perm w hs hl
  have hcount : ∀ m, (d.clearV l).refsOf m + (relStrs d F l).count m = d.refsOf m := by
    intro m
    rw [refsOf_exact s1 e1, refsOf_exact hs he, hp.count_eq, List.count_append]; omega
  refine ⟨hlog, hc, hcount, fun m => ?_⟩
  rw [node_iff_referenced s1 e1, ← List.count_pos_iff, ← refsOf_exact s1 e1]
  have := hcount m
  omega

/-! ## 3. Read-only operations never call the allocator -/

/-- The observers `toVal`, `size`, `nesting`, `findKey`, `chain`, `show`, `reach` are functions from a document to a
    result: they return no document, so they cannot change anything — in particular neither the allocator log nor the
    call counter. (Stated for completeness; true by construction of the model.) -/
theorem readonly_no_allocator (d : Doc) (v : VData) (l : Loc) (key : List Byte) (i : Nat) :
    (fun (_ : Val × Nat × Nat × Option (Nat × Nat) × List Nat × String × List Nat) => d.pl.log)
      (d.toVal v, d.size v, d.nesting v, d.findKey l key, d.chain i, d.show v, d.reach v) = d.pl.log ∧
    (fun (_ : Val × Nat × Nat × Option (Nat × Nat) × List Nat × String × List Nat) => d)
      (d.toVal v, d.size v, d.nesting v, d.findKey l key, d.chain i, d.show v, d.reach v) = d := ⟨rfl, rfl⟩

/-- `operator[]` on an object that has the key (`getOrAddMember` when `findKey` succeeds) returns the document
    unchanged: no allocator call, no slot taken -/
theorem lookup_existing_member_no_allocator {d : Doc} {l : Loc} {h t k v : Nat} {key : List Byte} {linked : Bool}
    (hv : d.get l = .obj h t) (hf : d.findKey l key = some (k, v)) :
    (d.getOrAddMember l key linked).1 = some v ∧ (d.getOrAddMember l key linked).2 = d ∧
    (d.getOrAddMember l key linked).2.pl.log = d.pl.log := by
  rw [C04.getOrAddMember_found_partial hv hf]; exact ⟨rfl, rfl, rfl⟩

/-- `getOrAddElement` with an index inside the array changes nothing either -/
theorem lookup_existing_element_no_allocator {d : Doc} {l : Loc} {h t index : Nat} (hv : d.get l = .arr h t)
    (hi : index < (d.chain h).length) :
    (d.getOrAddElement l index).2 = d ∧ (d.getOrAddElement l index).1 = (d.chain h)[index]? := by
  have : d.getOrAddElement l index = ((d.chain h)[index]?, d) := by
    simp only [Doc.getOrAddElement, hv, hi, if_true]
  rw [this]; exact ⟨rfl, rfl⟩

/-! ## 4. After `clear()` no block remains -/

/-- `clearAll` on ANY document: one `D` per block the document owns (pools with a block, heap-allocated pool table,
    string nodes) and no other allocator traffic; afterwards the document owns nothing and is empty. -/
theorem clearAll_releases_all_owned (d : Doc) :
    d.clearAll.pl.log = List.replicate (PL.blocks d.pl + d.strings.length) "D" ++ d.pl.log ∧
    d.clearAll.pl.calls = d.pl.calls ∧ PL.blocks d.clearAll.pl = 0 ∧ d.clearAll.strings = [] ∧
    d.clearAll.pl.pools = [] ∧ d.clearAll.pl.free = [] := by
  obtain ⟨a, b, c, e, f, g, _⟩ := clearAll_spec d
  exact ⟨a, b, f, g, c, e⟩

/-- For every document reachable by a history of `add` / `clear` / `put` operations (AJ/Props/C04Hist.lean) from a
    well-formed document whose log balances (`Good`; e.g. a fresh document, `fresh_good`), with ANY failure oracle:
    before `clearAll` the blocks outstanding according to the allocator log are exactly the blocks owned (pools, pool
    table, string nodes); after `clearAll` none is outstanding — every successful `A` has its `D`, string blocks
    included — and the document owns nothing. -/
theorem clearAll_returns_everything {d d' : Doc} {F F' : Forest} (h : Hist d F d' F') (w : WFG d F)
    (hs : StrOK d (d.strRefs F)) (gok : PL.GeoOK d.g) (g : Good d F) :
    PL.outstanding d'.pl.log = (PL.blocks d'.pl + d'.strings.length : Nat) ∧
    PL.outstanding d'.clearAll.pl.log = 0 ∧
    PL.blocks d'.clearAll.pl = 0 ∧ d'.clearAll.strings = [] ∧ d'.clearAll.pl.pools = [] ∧
    d'.clearAll.pl.calls = d'.pl.calls := by
  have g' := history_good h w hs gok g
  obtain ⟨_, b, c, e, f, _⟩ := clearAll_releases_all_owned d'
  refine ⟨?_, clearAll_outstanding g'.bal, c, e, f, b⟩
  have := g'.bal
  unfold Bal PL.net at this
  omega

end C06

/-! ## Non-vacuity: geometry ⟨4, 1, 1⟩ (4 slots per pool, 1 inline pool, 1-byte ids)
   Facts about documents with a slot other than 0 are derived by rewriting, not by evaluation (`Std.HashMap` with a
   non-zero key does not evaluate in the kernel). -/
namespace C06.Ex
open DL C04 C04.Ex C04.Ex2
open JD (Byte Val)

deriving instance DecidableEq for DL.Forest

/-- `e1` (empty array, nothing allocated) satisfies the extra invariants -/
theorem g1 : Good e1 .nil := fresh_good rfl rfl rfl rfl

/-! ### a 64-bit number and its extension slot: `[2^40]` -/
def big : Int := 2^40
def dA : Doc := (Op.add .root).run e1
def FA : Forest := (Op.add .root).layout e1 .nil
def dB : Doc := (Op.put (.slot 0) (.sint big)).run dA

theorem histB : Hist e1 .nil dB FA :=
  Hist.cons (.add .root) ⟨trivial, 255, 255, rfl⟩
    (Hist.cons (.put (.slot 0) (.sint big))
      ⟨by show 0 ∈ (Op.layout e1 .nil (.add .root)).locs; decide +kernel, by decide +kernel, by decide +kernel⟩
      (Hist.nil _ _))
theorem wB : WFG dB FA := (history_refines histB w1 s1 gok).1
theorem sB : StrOK dB (dB.strRefs FA) := (history_refines histB w1 s1 gok).2.1
theorem gB : Good dB FA := history_good histB w1 s1 gok g1
theorem locB : isLoc FA (.slot 0) := by show 0 ∈ FA.locs; decide +kernel

/-- the number went to extension slot 1 -/
theorem dB_eq : dB = (dA.allocExt big).2.set (.slot 0) (.i64 1) := by
  have h1 : (dA.allocExt big).1 = some 1 := by decide +kernel
  have hal : dA.allocExt big = (some 1, (dA.allocExt big).2) := by rw [← h1]
  show (dA.setArg (.slot 0) (.sint big)).2 = _
  rw [setArg_sint_big (by decide) hal]

/-- clearing element 0 (a 64-bit number) releases its extension slot 1 … -/
theorem relB : relSlots dB FA (.slot 0) = [1] := by
  have h : layoutAt FA (.slot 0) = .nil := by decide +kernel
  unfold relSlots
  rw [h, dB_eq, get_set_self]; rfl

/-- … and `clear_then_add_no_allocator_call` applies: the next `add` gets slot 1 back, the log is unchanged -/
example : ((dB.clearV (.slot 0)).addElement .root).1 = some 1 ∧ PL.live dB.g dB.pl 1 ∧
    ((dB.clearV (.slot 0)).addElement .root).2.pl.log = (dB.clearV (.slot 0)).pl.log := by
  obtain ⟨id, a, b, c, e, _⟩ := clear_then_add_no_allocator_call wB sB locB (by rw [relB]; simp) .root
  rw [relB] at b
  have : id = 1 := by simpa using b
  subst this
  exact ⟨a, c, e⟩
/-- `clear_then_add_refines` applies: the array `[null]` becomes `[null, null]`, well-formed, log unchanged -/
example : ∃ id F'', ((dB.clearV (.slot 0)).addElement .root).1 = some id ∧
    WFG ((dB.clearV (.slot 0)).addElement .root).2 F'' ∧
    ((dB.clearV (.slot 0)).addElement .root).2.pl.log = (dB.clearV (.slot 0)).pl.log := by
  have hroot : (dB.clearV (.slot 0)).get .root = .arr 0 0 := by
    show (dB.clearV (.slot 0)).root = _
    rw [clearV_slot_root wB sB locB, dB_eq, root_set_slot, allocExt_root]
    decide +kernel
  obtain ⟨id, F'', a, b, _, _, e⟩ := clear_then_add_refines (l' := .root) wB sB gok locB
    (by rw [relB]; simp) trivial hroot
  exact ⟨id, F'', a, b, e⟩
/-- `clear_then_adds_no_allocator_call` with one insertion -/
example : (addAll [.root] (dB.clearV (.slot 0))).1 = [some 1] ∧
    (addAll [.root] (dB.clearV (.slot 0))).2.pl.log = (dB.clearV (.slot 0)).pl.log := by
  obtain ⟨a, b, _⟩ := clear_then_adds_no_allocator_call wB sB locB [.root] (by rw [relB]; simp)
  refine ⟨?_, b⟩
  rw [a, relB]; rfl

/-- clearing the root array of `["hi"]` (C04.Ex.e4) releases slot 0; `relSlots_ne_nil` applies -/
example : relSlots e4 F3 .root ≠ [] := relSlots_ne_nil w4 s4 (l := .root) trivial (by simp [layoutAt, F3])
example : relSlots e4 F3 .root = [0] := by decide +kernel
example : ∃ id, ((e4.clearV .root).addElement .root).1 = some id ∧
    ((e4.clearV .root).addElement .root).2.pl.log = (e4.clearV .root).pl.log := by
  obtain ⟨id, a, _, _, e, _⟩ := clear_then_add_no_allocator_call w4 s4 (l := .root) trivial
    (relSlots_ne_nil w4 s4 (l := .root) trivial (by simp [layoutAt, F3])) .root
  exact ⟨id, a, e⟩
example : ((e4.clearV .root).addElement .root).1 = some 0 := by decide +kernel

/-! ### strings: `["hi"]` (e4) and `["hi", "hi"]` -/
def hiNode : StrNode := ⟨0, hi, 1⟩
theorem x4 : Exact e4 (e4.strRefs F3) := by unfold Exact; decide +kernel
theorem e4_strings : e4.strings = [hiNode] := by decide +kernel

/-- `equal_strings_stored_once` on `e4`: saving "hi" again touches neither the pool nor the log -/
example : (e4.saveString hi).1 = some 0 ∧ (e4.saveString hi).2.pl = e4.pl ∧ (e4.saveString hi).2.refsOf 0 = 2 := by
  obtain ⟨x, hx, _, a, b, _, _, _, c, _⟩ := equal_strings_stored_once (d := e4) (s := hi) (by decide +kernel)
    ⟨hiNode, by decide +kernel, rfl⟩
  have : x = hiNode := by rw [e4_strings] at hx; simpa using hx
  subst this
  have c' : (e4.saveString hi).2.refsOf 0 = e4.refsOf 0 + 1 := c
  exact ⟨a, b, by rw [c']; decide +kernel⟩
/-- `new_string_one_block` on `e4`: a different string costs one block of `1 + 15` bytes -/
example : (e4.saveString [0x61]).1 = some 1 ∧ (e4.saveString [0x61]).2.pl.log = s!"A{1 + 15}" :: e4.pl.log := by
  obtain ⟨a, b, _⟩ := new_string_one_block (d := e4) (s := [0x61]) (by decide +kernel) (by decide +kernel) (by decide +kernel)
  exact ⟨a, b⟩
/-- `string_released_with_last_user` on `e4`: the only reference goes, one `D` -/
example : (e4.derefString 0).pl.log = "D" :: e4.pl.log ∧ (e4.derefString 0).strings = [] := by
  obtain ⟨a, _, _, _, b, _⟩ := (string_released_with_last_user (d := e4) (n := 0) (x := hiNode) (by decide +kernel)
    (by decide +kernel) rfl).1 (by decide)
  exact ⟨a, by rw [b]; decide +kernel⟩
/-- `clear_last_user_releases_block` on `e4` -/
example : (e4.clearV (.slot 0)).pl.log = "D" :: e4.pl.log ∧ (e4.clearV (.slot 0)).strings.length + 1 = e4.strings.length := by
  obtain ⟨a, _, _, _, _, b⟩ := clear_last_user_releases_block (F := F3) (l := .slot 0) (n := 0) s4 x4
    (by decide +kernel) (by decide +kernel)
  exact ⟨a, b⟩
/-- `clear_releases_unused_strings` on `e4`, clearing the whole array: the reference goes, node 0 disappears -/
example : ¬ (∃ y ∈ (e4.clearV .root).strings, y.id = 0) := by
  have h := (clear_releases_unused_strings w4 s4 x4 (l := .root) trivial).2.2.2 0
  rw [h]
  have : (relStrs e4 F3 .root).count 0 = 1 ∧ e4.refsOf 0 = 1 := by decide +kernel
  omega

/-- `["hi", "hi"]`: both elements share node 0 (reference count 2) -/
def d2 : Doc := (Op.put (.slot 0) (.strCopied hi)).run dA
def d3 : Doc := (Op.add .root).run d2
def F3b : Forest := (Op.add .root).layout d2 FA
def d4 : Doc := (Op.put (.slot 1) (.strCopied hi)).run d3

theorem hist2 : Hist e1 .nil d2 FA :=
  Hist.cons (.add .root) ⟨trivial, 255, 255, rfl⟩
    (Hist.cons (.put (.slot 0) (.strCopied hi))
      ⟨by show 0 ∈ (Op.layout e1 .nil (.add .root)).locs; decide +kernel, by decide +kernel, by decide +kernel⟩
      (Hist.nil _ _))
theorem w2b : WFG d2 FA := (history_refines hist2 w1 s1 gok).1
theorem s2b : StrOK d2 (d2.strRefs FA) := (history_refines hist2 w1 s1 gok).2.1
theorem d2_strings : d2.strings = [hiNode] := by decide +kernel
theorem add2 : (d2.addElement .root).1 = some 1 := by decide +kernel
theorem d3_strings : d3.strings = [hiNode] := by
  show (d2.addElement .root).2.strings = _
  rw [(addElement_pl_s d2 .root).2, d2_strings]
theorem d3_find : d3.strings.find? (·.bytes == hi) = some hiNode := by rw [d3_strings]; decide +kernel
theorem d3_ov : d3.overflowed = false := by
  show (d2.addElement .root).2.overflowed = _
  rw [addElement_overflowed_some add2]; decide +kernel
theorem d4_eq : d4 = (d3.saveString hi).2.set (.slot 1) (.owned 0) := by
  show (d3.setArg (.slot 1) (.strCopied hi)).2 = _
  rw [setArg_copied_found d3_find]; rfl

theorem hist4 : Hist e1 .nil d4 F3b :=
  Hist.cons (.add .root) ⟨trivial, 255, 255, rfl⟩
    (Hist.cons (.put (.slot 0) (.strCopied hi))
      ⟨by show 0 ∈ (Op.layout e1 .nil (.add .root)).locs; decide +kernel, by decide +kernel, by decide +kernel⟩
      (Hist.cons (.add .root) ⟨trivial, 0, 0, by decide +kernel⟩
        (Hist.cons (.put (.slot 1) (.strCopied hi))
          ⟨by show 1 ∈ F3b.locs; decide +kernel,
           addElement_get_new w2b s2b gok (l := .root) trivial (by decide +kernel : d2.get .root = .arr 0 0) add2,
           by show (d3.setArg (.slot 1) (.strCopied hi)).1 = true
              rw [setArg_copied_found d3_find, d3_ov]; rfl⟩ (Hist.nil _ _))))
theorem w4b : WFG d4 F3b := (history_refines hist4 w1 s1 gok).1
theorem s4b : StrOK d4 (d4.strRefs F3b) := (history_refines hist4 w1 s1 gok).2.1
theorem g4b : Good d4 F3b := history_good hist4 w1 s1 gok g1

theorem d4_strings : d4.strings = [⟨0, hi, 2⟩] := by
  rw [d4_eq, set_strings, saveString_found d3_find]
  show d3.strings.map _ = _
  rw [d3_strings]; decide +kernel
theorem d4_count : (d4.strRefs F3b).count 0 = 2 := by
  have := (g4b.exact ⟨0, hi, 2⟩ (by rw [d4_strings]; simp)).1
  exact this.symm

/-- `clear_one_of_several_keeps_block` on `["hi","hi"]`: clearing element 1 leaves the pool state (log included)
    untouched; the node stays, with one reference -/
example : (d4.clearV (.slot 1)).pl = d4.pl ∧ (d4.clearV (.slot 1)).refsOf 0 = d4.refsOf 0 - 1 ∧
    (d4.clearV (.slot 1)).strings.length = 1 := by
  obtain ⟨a, b, _, c⟩ := clear_one_of_several_keeps_block (F := F3b) (l := .slot 1) (n := 0) s4b
    (by rw [d4_eq, get_set_self]) (by rw [d4_count]; decide)
  exact ⟨a, b, by rw [c, d4_strings]; rfl⟩
/-- `clear_releases_unused_strings` on `["hi","hi"]`, clearing the whole array -/
example : (d4.clearV .root).pl.calls = d4.pl.calls ∧
    ∀ m, (d4.clearV .root).refsOf m + (relStrs d4 F3b .root).count m = d4.refsOf m :=
  ⟨(clear_releases_unused_strings w4b s4b g4b.exact (l := .root) trivial).2.1,
   (clear_releases_unused_strings w4b s4b g4b.exact (l := .root) trivial).2.2.1⟩

/-- `clearAll_returns_everything` on the histories above -/
example : PL.outstanding dB.clearAll.pl.log = 0 ∧ PL.blocks dB.clearAll.pl = 0 :=
  ⟨(clearAll_returns_everything histB w1 s1 gok g1).2.1, (clearAll_returns_everything histB w1 s1 gok g1).2.2.1⟩
example : PL.outstanding d4.pl.log = (PL.blocks d4.pl + d4.strings.length : Nat) ∧
    PL.outstanding d4.clearAll.pl.log = 0 ∧ d4.clearAll.strings = [] :=
  ⟨(clearAll_returns_everything hist4 w1 s1 gok g1).1, (clearAll_returns_everything hist4 w1 s1 gok g1).2.1,
    (clearAll_returns_everything hist4 w1 s1 gok g1).2.2.2.1⟩
/-- `["hi"]` (e4) owns two blocks, one pool and one string: `clearAll_releases_all_owned` gives two `D` -/
example : e4.clearAll.pl.log = ["D", "D"] ++ e4.pl.log := by
  have := (clearAll_releases_all_owned e4).1
  have h : PL.blocks e4.pl + e4.strings.length = 2 := by decide +kernel
  rw [h] at this; exact this

/-- ledger entries are classified as intended -/
example : PL.delta "D" = -1 ∧ PL.delta (s!"A{64}") = 1 ∧ PL.delta (s!"A{64}!") = 0 ∧ PL.delta (s!"R{32}") = 0 := by
  refine ⟨PL.delta_D, ?_, ?_, ?_⟩
  · have := PL.delta_alloc 64 false
    simp only [Bool.false_eq_true, if_false] at this
    rwa [show toString "" = "" from rfl, String.append_empty] at this
  · exact PL.delta_alloc 64 true
  · have := PL.delta_realloc 32 false
    simp only [Bool.false_eq_true, if_false] at this
    rwa [show toString "" = "" from rfl, String.append_empty] at this

/-- `readonly_no_allocator`, `lookup_existing_element_no_allocator` on `["hi"]` -/
example : (e4.getOrAddElement .root 0).2 = e4 :=
  (lookup_existing_element_no_allocator (d := e4) (l := .root) (h := 0) (t := 0) (by decide +kernel) (by decide +kernel)).1

end C06.Ex
