/- C06 ("every block / slot / string node is released exactly once, none is leaked") sharpened for the slot-level
   deserializers `JDDF.run` (filtered, any filter) and `JDD.run` (unfiltered = the `AllowAll` filter, AJ/Props/C11Slot.lean),
   from ANY starting document (it is cleared first):
   * `filtered_deser_strings_stored_once` - on EVERY path, allocation failures included: no two nodes of the string table hold
     the same bytes (the StringBuilder's `save` finds an equal stored string and shares it);
   * when no allocation failed (`overflowed = false` at the end), for one and the same layout `F'` of the result:
     - `filtered_deser_exact_refcounts`: each string node's reference count IS the number of values / keys that reference it,
       and is ≥ 1 - the table holds exactly the strings in use (`DL.Exact`, AJ/Lemmas/DocStr.lean);
     - `filtered_deser_no_leaked_slot`: every slot that is live in the pools is a slot of the document's layout or the
       extension slot of one of its 64-bit / double values.
   * the hypothesis is needed: `key_leaked_on_failure` - when the slot allocation of `addMember` fails after the key was saved,
     the key's string node stays in the table with count 1 and no reference (released by `clear()` only).
   Proofs: AJ/Lemmas/JddfExact.lean. -/
import AJ.Lemmas.JddfExact
import AJ.Props.C11Slot
import AJ.Props.C03FDoc
namespace C06
open DL JDD
open JD (Byte Code Cfg Flt)

/-- STORED ONCE, on every path (no hypothesis on the document, the oracle or the result). -/
theorem filtered_deser_strings_stored_once (cfg : Cfg) (limit : Nat) (flt : Flt) (d : Doc) (input : List Byte) :
    ((JDDF.run cfg limit flt d input).2.1.strings.map (·.bytes)).Nodup :=
  JDDF.run_bytes_nodup cfg limit flt d input

/-- EXACT COUNTS + NO LEAK + WELL-FORMED for the same layout, when no allocation failed. -/
theorem filtered_deser_tight (cfg : Cfg) (limit : Nat) (flt : Flt) (d : Doc) (input : List Byte) (gok : PL.GeoOK d.g)
    (hp : PL.Inv d.g d.pl) (hov : (JDDF.run cfg limit flt d input).2.1.overflowed = false) :
    ∃ F', WFG (JDDF.run cfg limit flt d input).2.1 F' ∧
      StrOK (JDDF.run cfg limit flt d input).2.1 ((JDDF.run cfg limit flt d input).2.1.strRefs F') ∧
      Exact (JDDF.run cfg limit flt d input).2.1 ((JDDF.run cfg limit flt d input).2.1.strRefs F') ∧
      ∀ i, PL.live (JDDF.run cfg limit flt d input).2.1.g (JDDF.run cfg limit flt d input).2.1.pl i →
        i ∈ F'.ids ∨ ∃ l0 ∈ holders F', i ∈ extOfV ((JDDF.run cfg limit flt d input).2.1.get l0) := by
  obtain ⟨F', a, b, c⟩ := JDDF.run_tight cfg limit flt input gok hp hov
  exact ⟨F', a, b, c.exact, c.noleak⟩

theorem filtered_deser_exact_refcounts (cfg : Cfg) (limit : Nat) (flt : Flt) (d : Doc) (input : List Byte)
    (gok : PL.GeoOK d.g) (hp : PL.Inv d.g d.pl) (hov : (JDDF.run cfg limit flt d input).2.1.overflowed = false) :
    ∃ F', WFG (JDDF.run cfg limit flt d input).2.1 F' ∧
      StrOK (JDDF.run cfg limit flt d input).2.1 ((JDDF.run cfg limit flt d input).2.1.strRefs F') ∧
      Exact (JDDF.run cfg limit flt d input).2.1 ((JDDF.run cfg limit flt d input).2.1.strRefs F') :=
  JDDF.run_exact cfg limit flt input gok hp hov

theorem filtered_deser_no_leaked_slot (cfg : Cfg) (limit : Nat) (flt : Flt) (d : Doc) (input : List Byte)
    (gok : PL.GeoOK d.g) (hp : PL.Inv d.g d.pl) (hov : (JDDF.run cfg limit flt d input).2.1.overflowed = false) :
    ∃ F', WFG (JDDF.run cfg limit flt d input).2.1 F' ∧
      ∀ i, PL.live (JDDF.run cfg limit flt d input).2.1.g (JDDF.run cfg limit flt d input).2.1.pl i →
        i ∈ F'.ids ∨ ∃ l0 ∈ holders F', i ∈ extOfV ((JDDF.run cfg limit flt d input).2.1.get l0) :=
  JDDF.run_no_leak cfg limit flt input gok hp hov

/-- with the result code: `Ok` is enough (it implies that no allocation failed, `C05.filtered_deser_failure_reported`) -/
theorem filtered_deser_ok_tight (cfg : Cfg) (limit : Nat) (flt : Flt) (d : Doc) (input : List Byte) (gok : PL.GeoOK d.g)
    (hp : PL.Inv d.g d.pl) (hok : (JDDF.run cfg limit flt d input).1 = .ok) :
    ∃ F', WFG (JDDF.run cfg limit flt d input).2.1 F' ∧
      Exact (JDDF.run cfg limit flt d input).2.1 ((JDDF.run cfg limit flt d input).2.1.strRefs F') ∧
      ∀ i, PL.live (JDDF.run cfg limit flt d input).2.1.g (JDDF.run cfg limit flt d input).2.1.pl i →
        i ∈ F'.ids ∨ ∃ l0 ∈ holders F', i ∈ extOfV ((JDDF.run cfg limit flt d input).2.1.get l0) := by
  obtain ⟨F', a, _, c, e⟩ := filtered_deser_tight cfg limit flt d input gok hp ((JDDF.run_code cfg limit flt input gok hp).1 hok)
  exact ⟨F', a, c, e⟩

/-! ## The unfiltered deserializer: the `AllowAll` instance -/

theorem deser_strings_stored_once (cfg : Cfg) (limit : Nat) (d : Doc) (input : List Byte) :
    ((JDD.run cfg limit d input).2.1.strings.map (·.bytes)).Nodup := by
  rw [← C11.allow_all_is_unfiltered_slot_level]
  exact filtered_deser_strings_stored_once cfg limit .all d input

theorem deser_tight (cfg : Cfg) (limit : Nat) (d : Doc) (input : List Byte) (gok : PL.GeoOK d.g)
    (hp : PL.Inv d.g d.pl) (hov : (JDD.run cfg limit d input).2.1.overflowed = false) :
    ∃ F', WFG (JDD.run cfg limit d input).2.1 F' ∧
      StrOK (JDD.run cfg limit d input).2.1 ((JDD.run cfg limit d input).2.1.strRefs F') ∧
      Exact (JDD.run cfg limit d input).2.1 ((JDD.run cfg limit d input).2.1.strRefs F') ∧
      ∀ i, PL.live (JDD.run cfg limit d input).2.1.g (JDD.run cfg limit d input).2.1.pl i →
        i ∈ F'.ids ∨ ∃ l0 ∈ holders F', i ∈ extOfV ((JDD.run cfg limit d input).2.1.get l0) := by
  rw [← C11.allow_all_is_unfiltered_slot_level] at hov ⊢
  exact filtered_deser_tight cfg limit .all d input gok hp hov

theorem deser_exact_refcounts (cfg : Cfg) (limit : Nat) (d : Doc) (input : List Byte) (gok : PL.GeoOK d.g)
    (hp : PL.Inv d.g d.pl) (hov : (JDD.run cfg limit d input).2.1.overflowed = false) :
    ∃ F', WFG (JDD.run cfg limit d input).2.1 F' ∧
      Exact (JDD.run cfg limit d input).2.1 ((JDD.run cfg limit d input).2.1.strRefs F') := by
  obtain ⟨F', a, _, c, _⟩ := deser_tight cfg limit d input gok hp hov
  exact ⟨F', a, c⟩

theorem deser_no_leaked_slot (cfg : Cfg) (limit : Nat) (d : Doc) (input : List Byte) (gok : PL.GeoOK d.g)
    (hp : PL.Inv d.g d.pl) (hov : (JDD.run cfg limit d input).2.1.overflowed = false) :
    ∃ F', WFG (JDD.run cfg limit d input).2.1 F' ∧
      ∀ i, PL.live (JDD.run cfg limit d input).2.1.g (JDD.run cfg limit d input).2.1.pl i →
        i ∈ F'.ids ∨ ∃ l0 ∈ holders F', i ∈ extOfV ((JDD.run cfg limit d input).2.1.get l0) := by
  obtain ⟨F', a, _, _, e⟩ := deser_tight cfg limit d input gok hp hov
  exact ⟨F', a, e⟩

/-! ## Non-vacuity -/
open C03.ExDoc C03.ExFDoc

/-- `["x"]` -/
def strArr : List Byte := [0x5B, 0x22, 0x78, 0x22, 0x5D]

/-- `["x"]` without failure (one slot, one string node with count 1): the hypothesis holds by evaluation, the table is
    `[(0, "x", 1)]` -/
example : (JDDF.run {} 10 .all (dk []) strArr).2.1.overflowed = false ∧
    (JDDF.run {} 10 .all (dk []) strArr).2.1.strings = [⟨0, [0x78], 1⟩] := ⟨by decide +kernel, by decide +kernel⟩
example : ∃ F', WFG (JDDF.run {} 10 .all (dk []) strArr).2.1 F' ∧
    Exact (JDDF.run {} 10 .all (dk []) strArr).2.1 ((JDDF.run {} 10 .all (dk []) strArr).2.1.strRefs F') := by
  obtain ⟨F', a, _, c⟩ := filtered_deser_exact_refcounts {} 10 .all (dk []) strArr gok (dk_inv []) (by decide +kernel)
  exact ⟨F', a, c⟩

/-- `[{"b":[1,"x"],"c":2}]` under `[{"a":true}]` (keys through the builder, nothing of the members kept): Ok, hence tight -/
example : ∃ F', WFG (JDDF.run {} 10 fArrA (dk []) arrObj).2.1 F' ∧
    Exact (JDDF.run {} 10 fArrA (dk []) arrObj).2.1 ((JDDF.run {} 10 fArrA (dk []) arrObj).2.1.strRefs F') ∧
    ∀ i, PL.live (JDDF.run {} 10 fArrA (dk []) arrObj).2.1.g (JDDF.run {} 10 fArrA (dk []) arrObj).2.1.pl i →
      i ∈ F'.ids ∨ ∃ l0 ∈ holders F', i ∈ extOfV ((JDDF.run {} 10 fArrA (dk []) arrObj).2.1.get l0) :=
  filtered_deser_ok_tight {} 10 fArrA (dk []) arrObj gok (dk_inv []) (by decide +kernel)

/-- any filter, any failure position, a repeated key and a shared string: stored once -/
example (flt : Flt) (k : Nat) : ((JDDF.run {} 10 flt (dk [k]) obj2).2.1.strings.map (·.bytes)).Nodup ∧
    ((JDD.run {} 10 (dk [k]) obj2).2.1.strings.map (·.bytes)).Nodup :=
  ⟨filtered_deser_strings_stored_once {} 10 flt (dk [k]) obj2, deser_strings_stored_once {} 10 (dk [k]) obj2⟩

/-- THE HYPOTHESIS IS NEEDED. `{"a":1}` when the third allocator call - the pool for the member's slots - fails (`A64!`) after the
    key was saved (`A46`, `R16`): NoMemory, the root is the empty object, no slot is in use, yet the string table keeps the node
    of the key with count 1: a string node without any reference, released by `clear()` only. -/
theorem key_leaked_on_failure :
    (JDDF.run {} 10 .all (dk [3]) obj1).1 = .noMemory ∧ (JDDF.run {} 10 .all (dk [3]) obj1).2.1.overflowed = true ∧
    (JDDF.run {} 10 .all (dk [3]) obj1).2.1.pl.log = ["R0", "A64!", "R16", "A46"] ∧
    (JDDF.run {} 10 .all (dk [3]) obj1).2.1.strings = [⟨0, [0x61], 1⟩] ∧
    (JDDF.run {} 10 .all (dk [3]) obj1).2.1.strRefs .nil = [] ∧
    ¬ Exact (JDDF.run {} 10 .all (dk [3]) obj1).2.1 ((JDDF.run {} 10 .all (dk [3]) obj1).2.1.strRefs .nil) := by
  have hs : (JDDF.run {} 10 .all (dk [3]) obj1).2.1.strings = [⟨0, [0x61], 1⟩] := by decide +kernel
  have hr : (JDDF.run {} 10 .all (dk [3]) obj1).2.1.strRefs .nil = [] := by decide +kernel
  refine ⟨by decide +kernel, by decide +kernel, by decide +kernel, hs, hr, fun he => ?_⟩
  have := (he ⟨0, [0x61], 1⟩ (by rw [hs]; exact List.mem_singleton.2 rfl)).1
  rw [hr] at this
  simp at this

end C06
