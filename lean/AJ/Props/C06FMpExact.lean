/- C06 ("every block / slot / string node is released exactly once, none is leaked") sharpened for the slot-level MessagePack
   deserializers `MDDF.run` (filtered, any filter) and `MDD.run` (unfiltered = the `AllowAll` filter, AJ/Props/C11MpSlot.lean),
   from ANY starting document (it is cleared first) - the twin of AJ/Props/C06FExact.lean:
   * `filtered_mp_deser_strings_stored_once` - on EVERY path, allocation failures included: no two nodes of the string table hold
     the same bytes (the StringBuffer's `save` finds an equal stored string and shares it; string values, raw bin / ext values
     and map keys alike);
   * when no allocation failed (`overflowed = false` at the end), for one and the same layout `F'` of the result
     (`filtered_mp_deser_tight`): each string node's reference count IS the number of values / keys that reference it, and is ≥ 1
     (`DL.Exact` - repeated keys of a map, which MessagePack objects keep, count once each), and every slot that is live in the
     pools is a slot of the document's layout or the extension slot of one of its 64-bit / double values;
   * the hypothesis is needed: `mp_key_leaked_on_failure` - when the slot allocation of `addMember` fails after the key was saved,
     the key's string node stays in the table with count 1 and no reference (released by `clear()` only).
   Proofs: AJ/Lemmas/MddfExact.lean. -/
import AJ.Lemmas.MddfExact
import AJ.Props.C11MpSlot
import AJ.Props.C03FMpDoc
namespace C06
open DL
open JD (Byte Code Flt)

/-- STORED ONCE, on every path (no hypothesis on the document, the oracle or the result). -/
theorem filtered_mp_deser_strings_stored_once (env : MD.Env) (limit : Nat) (flt : Flt) (d : Doc) (input : List Byte) :
    ((MDDF.run env limit flt d input).2.1.strings.map (·.bytes)).Nodup :=
  MDDF.run_bytes_nodup env limit flt d input

/-- EXACT COUNTS + NO LEAK + WELL-FORMED for the same layout, when no allocation failed. -/
theorem filtered_mp_deser_tight (env : MD.Env) (limit : Nat) (flt : Flt) (d : Doc) (input : List Byte) (gok : PL.GeoOK d.g)
    (hp : PL.Inv d.g d.pl) (hov : (MDDF.run env limit flt d input).2.1.overflowed = false) :
    ∃ F', WFG (MDDF.run env limit flt d input).2.1 F' ∧
      StrOK (MDDF.run env limit flt d input).2.1 ((MDDF.run env limit flt d input).2.1.strRefs F') ∧
      Exact (MDDF.run env limit flt d input).2.1 ((MDDF.run env limit flt d input).2.1.strRefs F') ∧
      ∀ i, PL.live (MDDF.run env limit flt d input).2.1.g (MDDF.run env limit flt d input).2.1.pl i →
        i ∈ F'.ids ∨ ∃ l0 ∈ holders F', i ∈ extOfV ((MDDF.run env limit flt d input).2.1.get l0) := by
  obtain ⟨F', a, b, c⟩ := MDDF.run_tight env limit flt input gok hp hov
  exact ⟨F', a, b, c.exact, c.noleak⟩

theorem filtered_mp_deser_exact_refcounts (env : MD.Env) (limit : Nat) (flt : Flt) (d : Doc) (input : List Byte)
    (gok : PL.GeoOK d.g) (hp : PL.Inv d.g d.pl) (hov : (MDDF.run env limit flt d input).2.1.overflowed = false) :
    ∃ F', WFG (MDDF.run env limit flt d input).2.1 F' ∧
      StrOK (MDDF.run env limit flt d input).2.1 ((MDDF.run env limit flt d input).2.1.strRefs F') ∧
      Exact (MDDF.run env limit flt d input).2.1 ((MDDF.run env limit flt d input).2.1.strRefs F') :=
  MDDF.run_exact env limit flt input gok hp hov

theorem filtered_mp_deser_no_leaked_slot (env : MD.Env) (limit : Nat) (flt : Flt) (d : Doc) (input : List Byte)
    (gok : PL.GeoOK d.g) (hp : PL.Inv d.g d.pl) (hov : (MDDF.run env limit flt d input).2.1.overflowed = false) :
    ∃ F', WFG (MDDF.run env limit flt d input).2.1 F' ∧
      ∀ i, PL.live (MDDF.run env limit flt d input).2.1.g (MDDF.run env limit flt d input).2.1.pl i →
        i ∈ F'.ids ∨ ∃ l0 ∈ holders F', i ∈ extOfV ((MDDF.run env limit flt d input).2.1.get l0) :=
  MDDF.run_no_leak env limit flt input gok hp hov

/-- a string node exists exactly when some value or key of the document references it -/
theorem filtered_mp_deser_node_iff_referenced (env : MD.Env) (limit : Nat) (flt : Flt) (d : Doc) (input : List Byte)
    (gok : PL.GeoOK d.g) (hp : PL.Inv d.g d.pl) (hov : (MDDF.run env limit flt d input).2.1.overflowed = false) :
    ∃ F', WFG (MDDF.run env limit flt d input).2.1 F' ∧ ∀ m,
      (∃ n ∈ (MDDF.run env limit flt d input).2.1.strings, n.id = m) ↔
        m ∈ (MDDF.run env limit flt d input).2.1.strRefs F' :=
  MDDF.run_node_iff_referenced env limit flt input gok hp hov

/-- with the result code: any code but `NoMemory` is enough (for MessagePack the overflow flag is raised exactly when the
    answer is `NoMemory`, `MDDF.run_code`) - in particular `Ok`, but also `IncompleteInput`, `InvalidInput`, `TooDeep` -/
theorem filtered_mp_deser_not_nomemory_tight (env : MD.Env) (limit : Nat) (flt : Flt) (d : Doc) (input : List Byte)
    (gok : PL.GeoOK d.g) (hp : PL.Inv d.g d.pl) (hc : (MDDF.run env limit flt d input).1 ≠ .noMemory) :
    ∃ F', WFG (MDDF.run env limit flt d input).2.1 F' ∧
      Exact (MDDF.run env limit flt d input).2.1 ((MDDF.run env limit flt d input).2.1.strRefs F') ∧
      ∀ i, PL.live (MDDF.run env limit flt d input).2.1.g (MDDF.run env limit flt d input).2.1.pl i →
        i ∈ F'.ids ∨ ∃ l0 ∈ holders F', i ∈ extOfV ((MDDF.run env limit flt d input).2.1.get l0) := by
  have hov : (MDDF.run env limit flt d input).2.1.overflowed = false := by
    cases h : (MDDF.run env limit flt d input).2.1.overflowed with
    | false => rfl
    | true => exact absurd ((MDDF.run_code env limit flt input gok hp).2.2 h) hc
  obtain ⟨F', a, _, c, e⟩ := filtered_mp_deser_tight env limit flt d input gok hp hov
  exact ⟨F', a, c, e⟩

theorem filtered_mp_deser_ok_tight (env : MD.Env) (limit : Nat) (flt : Flt) (d : Doc) (input : List Byte)
    (gok : PL.GeoOK d.g) (hp : PL.Inv d.g d.pl) (hok : (MDDF.run env limit flt d input).1 = .ok) :
    ∃ F', WFG (MDDF.run env limit flt d input).2.1 F' ∧
      Exact (MDDF.run env limit flt d input).2.1 ((MDDF.run env limit flt d input).2.1.strRefs F') ∧
      ∀ i, PL.live (MDDF.run env limit flt d input).2.1.g (MDDF.run env limit flt d input).2.1.pl i →
        i ∈ F'.ids ∨ ∃ l0 ∈ holders F', i ∈ extOfV ((MDDF.run env limit flt d input).2.1.get l0) :=
  filtered_mp_deser_not_nomemory_tight env limit flt d input gok hp (by rw [hok]; simp)

/-! ## The unfiltered deserializer: the `AllowAll` instance -/

theorem mp_deser_strings_stored_once (env : MD.Env) (limit : Nat) (d : Doc) (input : List Byte) :
    ((MDD.run env limit d input).2.1.strings.map (·.bytes)).Nodup := by
  rw [← C11.mp_allow_all_is_unfiltered_slot_level]
  exact filtered_mp_deser_strings_stored_once env limit .all d input

theorem mp_deser_tight (env : MD.Env) (limit : Nat) (d : Doc) (input : List Byte) (gok : PL.GeoOK d.g)
    (hp : PL.Inv d.g d.pl) (hov : (MDD.run env limit d input).2.1.overflowed = false) :
    ∃ F', WFG (MDD.run env limit d input).2.1 F' ∧
      StrOK (MDD.run env limit d input).2.1 ((MDD.run env limit d input).2.1.strRefs F') ∧
      Exact (MDD.run env limit d input).2.1 ((MDD.run env limit d input).2.1.strRefs F') ∧
      ∀ i, PL.live (MDD.run env limit d input).2.1.g (MDD.run env limit d input).2.1.pl i →
        i ∈ F'.ids ∨ ∃ l0 ∈ holders F', i ∈ extOfV ((MDD.run env limit d input).2.1.get l0) := by
  rw [← C11.mp_allow_all_is_unfiltered_slot_level] at hov ⊢
  exact filtered_mp_deser_tight env limit .all d input gok hp hov

theorem mp_deser_exact_refcounts (env : MD.Env) (limit : Nat) (d : Doc) (input : List Byte) (gok : PL.GeoOK d.g)
    (hp : PL.Inv d.g d.pl) (hov : (MDD.run env limit d input).2.1.overflowed = false) :
    ∃ F', WFG (MDD.run env limit d input).2.1 F' ∧
      Exact (MDD.run env limit d input).2.1 ((MDD.run env limit d input).2.1.strRefs F') := by
  obtain ⟨F', a, _, c, _⟩ := mp_deser_tight env limit d input gok hp hov
  exact ⟨F', a, c⟩

theorem mp_deser_no_leaked_slot (env : MD.Env) (limit : Nat) (d : Doc) (input : List Byte) (gok : PL.GeoOK d.g)
    (hp : PL.Inv d.g d.pl) (hov : (MDD.run env limit d input).2.1.overflowed = false) :
    ∃ F', WFG (MDD.run env limit d input).2.1 F' ∧
      ∀ i, PL.live (MDD.run env limit d input).2.1.g (MDD.run env limit d input).2.1.pl i →
        i ∈ F'.ids ∨ ∃ l0 ∈ holders F', i ∈ extOfV ((MDD.run env limit d input).2.1.get l0) := by
  obtain ⟨F', a, _, _, e⟩ := mp_deser_tight env limit d input gok hp hov
  exact ⟨F', a, e⟩

/-- an unfiltered run that does not answer `NoMemory` leaves a tight document -/
theorem mp_deser_not_nomemory_tight (env : MD.Env) (limit : Nat) (d : Doc) (input : List Byte) (gok : PL.GeoOK d.g)
    (hp : PL.Inv d.g d.pl) (hc : (MDD.run env limit d input).1 ≠ .noMemory) :
    ∃ F', WFG (MDD.run env limit d input).2.1 F' ∧
      Exact (MDD.run env limit d input).2.1 ((MDD.run env limit d input).2.1.strRefs F') ∧
      ∀ i, PL.live (MDD.run env limit d input).2.1.g (MDD.run env limit d input).2.1.pl i →
        i ∈ F'.ids ∨ ∃ l0 ∈ holders F', i ∈ extOfV ((MDD.run env limit d input).2.1.get l0) := by
  rw [← C11.mp_allow_all_is_unfiltered_slot_level] at hc ⊢
  exact filtered_mp_deser_not_nomemory_tight env limit .all d input gok hp hc

/-! ## Non-vacuity -/
open C03.ExDoc C03.ExMp C03.ExFMp

/-- fixstr `"hi"` without failure (no slot, one string node with count 1): the hypothesis holds by evaluation, the table is
    `[(0, "hi", 1)]` -/
example : (MDDF.run {} 10 .all (dk []) mHi).2.1.overflowed = false ∧
    (MDDF.run {} 10 .all (dk []) mHi).2.1.strings = [⟨0, [0x68, 0x69], 1⟩] := ⟨by decide +kernel, by decide +kernel⟩
example : ∃ F', WFG (MDDF.run {} 10 .all (dk []) mHi).2.1 F' ∧
    Exact (MDDF.run {} 10 .all (dk []) mHi).2.1 ((MDDF.run {} 10 .all (dk []) mHi).2.1.strRefs F') := by
  obtain ⟨F', a, _, c⟩ := filtered_mp_deser_exact_refcounts {} 10 .all (dk []) mHi gok (dk_inv []) (by decide +kernel)
  exact ⟨F', a, c⟩

/-- `[1]` under the filters `[true]`, `[false]` and `false`: no allocation fails, hence tight -/
example : ∃ F', WFG (MDDF.run {} 10 fArr (dk []) mArr1).2.1 F' ∧
    Exact (MDDF.run {} 10 fArr (dk []) mArr1).2.1 ((MDDF.run {} 10 fArr (dk []) mArr1).2.1.strRefs F') ∧
    ∀ i, PL.live (MDDF.run {} 10 fArr (dk []) mArr1).2.1.g (MDDF.run {} 10 fArr (dk []) mArr1).2.1.pl i →
      i ∈ F'.ids ∨ ∃ l0 ∈ holders F', i ∈ extOfV ((MDDF.run {} 10 fArr (dk []) mArr1).2.1.get l0) :=
  filtered_mp_deser_ok_tight {} 10 fArr (dk []) mArr1 gok (dk_inv []) (by decide +kernel)
example : ∃ F', WFG (MDDF.run {} 10 (.doc (some (.arr [.bool false]))) (dk []) mArr1).2.1 F' ∧
    Exact (MDDF.run {} 10 (.doc (some (.arr [.bool false]))) (dk []) mArr1).2.1
      ((MDDF.run {} 10 (.doc (some (.arr [.bool false]))) (dk []) mArr1).2.1.strRefs F') := by
  obtain ⟨F', a, c, _⟩ := filtered_mp_deser_ok_tight {} 10 (.doc (some (.arr [.bool false]))) (dk []) mArr1 gok (dk_inv [])
    (by decide +kernel)
  exact ⟨F', a, c⟩
example : ∃ F', WFG (MDDF.run {} 10 (.doc (some (.bool false))) (dk []) mHi).2.1 F' ∧
    Exact (MDDF.run {} 10 (.doc (some (.bool false))) (dk []) mHi).2.1
      ((MDDF.run {} 10 (.doc (some (.bool false))) (dk []) mHi).2.1.strRefs F') := by
  obtain ⟨F', a, c, _⟩ := filtered_mp_deser_ok_tight {} 10 (.doc (some (.bool false))) (dk []) mHi gok (dk_inv [])
    (by decide +kernel)
  exact ⟨F', a, c⟩

/-- `{"b":2}` under `{"a":true}` (the key goes through the StringBuffer, nothing is kept) and a truncated input
    (`IncompleteInput`): not `NoMemory`, hence tight -/
example : ∃ F', WFG (MDDF.run {} 10 fA (dk []) mObjB).2.1 F' ∧
    Exact (MDDF.run {} 10 fA (dk []) mObjB).2.1 ((MDDF.run {} 10 fA (dk []) mObjB).2.1.strRefs F') ∧
    ∀ i, PL.live (MDDF.run {} 10 fA (dk []) mObjB).2.1.g (MDDF.run {} 10 fA (dk []) mObjB).2.1.pl i →
      i ∈ F'.ids ∨ ∃ l0 ∈ holders F', i ∈ extOfV ((MDDF.run {} 10 fA (dk []) mObjB).2.1.get l0) :=
  filtered_mp_deser_ok_tight {} 10 fA (dk []) mObjB gok (dk_inv []) (by decide +kernel)
example : (MDDF.run {} 10 fA (dk []) (mObjB.take 3)).1 = .incomplete ∧
    ∃ F', WFG (MDDF.run {} 10 fA (dk []) (mObjB.take 3)).2.1 F' ∧
      Exact (MDDF.run {} 10 fA (dk []) (mObjB.take 3)).2.1 ((MDDF.run {} 10 fA (dk []) (mObjB.take 3)).2.1.strRefs F') := by
  have hc : (MDDF.run {} 10 fA (dk []) (mObjB.take 3)).1 = .incomplete := by decide +kernel
  obtain ⟨F', a, c, _⟩ := filtered_mp_deser_not_nomemory_tight {} 10 fA (dk []) (mObjB.take 3) gok (dk_inv [])
    (by rw [hc]; simp)
  exact ⟨hc, F', a, c⟩

/-- any filter, any failure position, a repeated key that is also a value (`{"a":1,"a":"a"}`): stored once -/
example (flt : Flt) (k : Nat) : ((MDDF.run {} 10 flt (dk [k]) mObj2).2.1.strings.map (·.bytes)).Nodup ∧
    ((MDD.run {} 10 (dk [k]) mObj2).2.1.strings.map (·.bytes)).Nodup :=
  ⟨filtered_mp_deser_strings_stored_once {} 10 flt (dk [k]) mObj2, mp_deser_strings_stored_once {} 10 (dk [k]) mObj2⟩

/-- THE HYPOTHESIS IS NEEDED. `{"a":1}` (`81 a1 61 01`) when the second allocator call - the pool for the member's slots - fails
    (`A64!`) after the key was read into the StringBuffer (`A16`) and saved: NoMemory, the root is the empty object, no slot is in
    use, yet the string table keeps the node of the key with count 1: a string node without any reference, released by
    `clear()` only. -/
theorem mp_key_leaked_on_failure :
    (MDDF.run {} 10 .all (dk [2]) mObj1).1 = .noMemory ∧ (MDDF.run {} 10 .all (dk [2]) mObj1).2.1.overflowed = true ∧
    (MDDF.run {} 10 .all (dk [2]) mObj1).2.1.pl.log = ["R0", "A64!", "A16"] ∧
    (MDDF.run {} 10 .all (dk [2]) mObj1).2.1.strings = [⟨0, [0x61], 1⟩] ∧
    (MDDF.run {} 10 .all (dk [2]) mObj1).2.1.strRefs .nil = [] ∧
    ¬ Exact (MDDF.run {} 10 .all (dk [2]) mObj1).2.1 ((MDDF.run {} 10 .all (dk [2]) mObj1).2.1.strRefs .nil) := by
  have hs : (MDDF.run {} 10 .all (dk [2]) mObj1).2.1.strings = [⟨0, [0x61], 1⟩] := by decide +kernel
  have hr : (MDDF.run {} 10 .all (dk [2]) mObj1).2.1.strRefs .nil = [] := by decide +kernel
  refine ⟨by decide +kernel, by decide +kernel, by decide +kernel, hs, hr, fun he => ?_⟩
  have := (he ⟨0, [0x61], 1⟩ (by rw [hs]; exact List.mem_singleton.2 rfl)).1
  rw [hr] at this
  simp at this

end C06
