/- C06, last clause: "The memory requested while deserializing is bounded by one maximum-size string plus a linear
   function of the bytes consumed" - for every input ("including headers that announce huge lengths or counts"), every
   nesting limit, every starting document and every allocator failure schedule.

   The allocator log of the model is textual; the bound is stated on what the document HOLDS (the quantity the ledger
   theorems `C06.deser_blocks_balanced` relate to the log): the blocks of the slot pools, the heap pool table, the string
   nodes, and the transient buffer of the StringBuilder (JSON) / StringBuffer (MessagePack).

   JSON (`JDD.run`, `n` = bytes consumed):
   * `deser_slots_le_consumed`      slots handed out by the pools ≤ n   (attained: `[[[[`)
   * `deser_pools_le`               pools ≤ n / poolCap + 1, every pool ≤ poolCap slots, heap table ≤ 2 · pools entries
   * `deser_strings_le_consumed`    Σ string bytes ≤ n, 2 · string nodes ≤ n
   * `deser_builder_buffer`         capacity of the builder's buffer ≤ max 31 maxStrLen and ≤ max 31 (2 n + 1)
   * `deser_memory_linear`          bytes held when the parser stops (buffer included) and in the result ≤ A + B · n
   MessagePack (`MDD.run`): the twins `mp_…`; a string header allocates the announced size BEFORE the bytes are read
   (≤ maxStrLen: the "one maximum-size string"), array / map headers allocate nothing in advance.
   Proofs: AJ/Lemmas/JddMem.lean, AJ/Lemmas/MddMem.lean. -/
import AJ.Lemmas.JddMem
import AJ.Lemmas.MddMem
import AJ.Props.C03Doc
import AJ.Props.C05Deser
namespace C06
open DL JDD
open JD (Byte Code Cfg)

/-! ## What a document holds, in bytes -/

/-- blocks of the slot pools -/
def memPoolBytes (g : PL.Geo) (s : PL.St) : Nat :=
  ((s.pools.filter (·.hasBlock)).map (fun p => p.cap * g.slotSize)).sum
/-- the pool table, when it is on the heap -/
def memTableBytes (g : PL.Geo) (s : PL.St) : Nat := if s.tableHeap then s.tableCap * g.poolSize else 0
/-- the string nodes: `sizeForLength(n) = n + strOverhead` each -/
def memStringBytes (d : Doc) : Nat := (d.strings.map (fun n => n.bytes.length + d.strOverhead)).sum
/-- the node of the StringBuilder / StringBuffer, when it holds one of capacity `cap` -/
def memBufBytes (d : Doc) (b : Option Nat) : Nat := match b with | some cap => cap + d.strOverhead | none => 0
/-- everything held: pools, pool table, string nodes, builder buffer -/
def memHeld (d : Doc) (b : Option Nat) : Nat :=
  memPoolBytes d.g d.pl + memTableBytes d.g d.pl + memStringBytes d + memBufBytes d b

/-- constant term of the bound: one pool, the first doubling of the pool table, one maximum-size string -/
def memA (g : PL.Geo) (ovh M : Nat) : Nat := g.poolCap * g.slotSize + 2 * g.poolSize + (M + ovh)
/-- bytes held per byte consumed: one slot, two pool-table entries, one string byte, one string node overhead -/
def memB (g : PL.Geo) (ovh : Nat) : Nat := g.slotSize + 2 * g.poolSize + 1 + ovh

theorem mem_usage_eq (s : PL.St) : PL.usage s = PL.memSlots s := by
  unfold PL.usage PL.memSlots
  have : ∀ (ps : List PL.Pool) (a : Nat), ps.foldl (fun a p => a + p.usage) a = a + (ps.map (·.usage)).sum := by
    intro ps
    induction ps with
    | nil => intro a; simp
    | cons p ps ih => intro a; simp only [List.foldl_cons, ih, List.map_cons, List.sum_cons]; omega
  rw [this]; omega

theorem mem_poolBytes_le (g : PL.Geo) : ∀ (ps : List PL.Pool), (∀ p ∈ ps, p.cap ≤ g.poolCap) →
    ((ps.filter (·.hasBlock)).map (fun p => p.cap * g.slotSize)).sum ≤ ps.length * (g.poolCap * g.slotSize)
  | [], _ => by simp
  | p :: ps, h => by
    have ih := mem_poolBytes_le g ps (fun q hq => h q (List.mem_cons_of_mem _ hq))
    have hp : p.cap * g.slotSize ≤ g.poolCap * g.slotSize := Nat.mul_le_mul_right _ (h p List.mem_cons_self)
    simp only [List.filter_cons, List.length_cons, Nat.add_mul, Nat.one_mul]
    split
    · simp only [List.map_cons, List.sum_cons]; omega
    · omega

theorem mem_stringBytes_eq (d : Doc) : memStringBytes d = memStrBytes d + d.strOverhead * d.strings.length := by
  unfold memStringBytes memStrBytes
  generalize d.strOverhead = o
  induction d.strings with
  | nil => simp
  | cons x xs ih =>
    simp only [List.map_cons, List.sum_cons, List.length_cons, ih, Nat.mul_add, Nat.mul_one]
    omega

/-- number of pools against the slots handed out -/
theorem mem_pools_le {g : PL.Geo} {s : PL.St} {n : Nat} (gok : PL.GeoOK g) (hW : PL.MemW g s) (hs : PL.memSlots s ≤ n) :
    s.pools.length ≤ n / g.poolCap + 1 := by
  unfold PL.MemW at hW
  have h1 : (s.pools.length - 1) * g.poolCap ≤ n := Nat.le_trans hW hs
  have h2 : s.pools.length - 1 ≤ n / g.poolCap := (Nat.le_div_iff_mul_le gok.pool_pos).2 h1
  omega

/-- THE BOUND, from the facts of the accounting: what is held ≤ A + B · n -/
theorem mem_held_le {d : Doc} {b : Option Nat} {n M : Nat} (gok : PL.GeoOK d.g) (hA : PL.MemA d.g d.pl)
    (hW : PL.MemW d.g d.pl) (hs : PL.memSlots d.pl ≤ n) (hb : memStrBytes d ≤ n) (hc : d.strings.length ≤ n)
    (hbuf : ∀ cap, b = some cap → cap ≤ M) :
    memPoolBytes d.g d.pl ≤ (n / d.g.poolCap + 1) * (d.g.poolCap * d.g.slotSize) ∧
    memTableBytes d.g d.pl ≤ 2 * (n / d.g.poolCap + 1) * d.g.poolSize ∧
    memStringBytes d ≤ n + d.strOverhead * d.strings.length ∧
    memBufBytes d b ≤ M + d.strOverhead ∧
    memHeld d b ≤ memA d.g d.strOverhead M + memB d.g d.strOverhead * n := by
  have hlen := mem_pools_le gok hW hs
  have hq : n / d.g.poolCap * d.g.poolCap ≤ n := Nat.div_mul_le_self _ _
  have hqn : n / d.g.poolCap ≤ n := Nat.div_le_self _ _
  -- pools
  have h1 : memPoolBytes d.g d.pl ≤ (n / d.g.poolCap + 1) * (d.g.poolCap * d.g.slotSize) :=
    Nat.le_trans (mem_poolBytes_le d.g d.pl.pools (fun p hp => (hA.caps p hp).2)) (Nat.mul_le_mul_right _ hlen)
  have h1' : (n / d.g.poolCap + 1) * (d.g.poolCap * d.g.slotSize) ≤ n * d.g.slotSize + d.g.poolCap * d.g.slotSize := by
    rw [Nat.add_mul, Nat.one_mul, ← Nat.mul_assoc]
    exact Nat.add_le_add_right (Nat.mul_le_mul_right _ hq) _
  -- table
  have h2 : memTableBytes d.g d.pl ≤ 2 * (n / d.g.poolCap + 1) * d.g.poolSize := by
    unfold memTableBytes
    split
    · rename_i hh
      exact Nat.mul_le_mul_right _ (Nat.le_trans (hA.tab hh) (Nat.mul_le_mul_left 2 hlen))
    · exact Nat.zero_le _
  have h2' : 2 * (n / d.g.poolCap + 1) * d.g.poolSize ≤ 2 * d.g.poolSize * n + 2 * d.g.poolSize := by
    have : 2 * (n / d.g.poolCap + 1) * d.g.poolSize ≤ 2 * (n + 1) * d.g.poolSize :=
      Nat.mul_le_mul_right _ (Nat.mul_le_mul_left 2 (by omega))
    have e : 2 * (n + 1) * d.g.poolSize = 2 * d.g.poolSize * n + 2 * d.g.poolSize := by
      rw [Nat.mul_add, Nat.mul_one, Nat.add_mul, Nat.mul_assoc 2 n, Nat.mul_comm n, Nat.mul_assoc]
    omega
  -- strings
  have h3 : memStringBytes d ≤ n + d.strOverhead * d.strings.length := by rw [mem_stringBytes_eq]; omega
  have h3' : d.strOverhead * d.strings.length ≤ d.strOverhead * n := Nat.mul_le_mul_left _ hc
  -- buffer
  have h4 : memBufBytes d b ≤ M + d.strOverhead := by
    unfold memBufBytes
    cases hb' : b with
    | none => exact Nat.zero_le _
    | some cap => have := hbuf cap hb'; simp only; omega
  refine ⟨h1, h2, h3, h4, ?_⟩
  unfold memHeld memA memB
  have e : (d.g.slotSize + 2 * d.g.poolSize + 1 + d.strOverhead) * n =
      n * d.g.slotSize + 2 * d.g.poolSize * n + n + d.strOverhead * n := by
    rw [Nat.add_mul, Nat.add_mul, Nat.add_mul, Nat.one_mul, Nat.mul_comm d.g.slotSize n]
  rw [e]
  omega

/-! ## JSON -/

theorem mem_run_consumed (cfg : Cfg) (limit : Nat) (d : Doc) (input : List Byte) :
    (JDD.run cfg limit d input).2.2 = (JDD.stop cfg limit d input).2.s.l.pos := rfl

/-- the accounting carried from the stop state to the document `run` returns (builder destroyed, pools shrunk) -/
theorem mem_run_facts (cfg : Cfg) (limit : Nat) (d : Doc) (input : List Byte) (gok : PL.GeoOK d.g) :
    (JDD.run cfg limit d input).2.1.g = d.g ∧ (JDD.run cfg limit d input).2.1.strOverhead = d.strOverhead ∧
    PL.memSlots (JDD.run cfg limit d input).2.1.pl = PL.memSlots (JDD.stop cfg limit d input).2.d.pl ∧
    (JDD.run cfg limit d input).2.1.pl.pools.length = (JDD.stop cfg limit d input).2.d.pl.pools.length ∧
    (JDD.run cfg limit d input).2.1.strings = (JDD.stop cfg limit d input).2.d.strings ∧
    PL.MemA d.g (JDD.run cfg limit d input).2.1.pl ∧ PL.MemW d.g (JDD.run cfg limit d input).2.1.pl ∧
    ((JDD.run cfg limit d input).2.1.pl.tableHeap = true →
      (JDD.run cfg limit d input).2.1.pl.tableCap = (JDD.run cfg limit d input).2.1.pl.pools.length) := by
  obtain ⟨ms, ho⟩ := mem_stop cfg limit d input gok
  obtain ⟨pe, _⟩ := preShrink_pleq cfg limit d input
  have hgp : (preShrink cfg limit d input).g = d.g := pe.g.trans ms.hg
  obtain ⟨s1, s2, s3, s4⟩ := PL.mem_shrink (preShrink cfg limit d input).g (preShrink cfg limit d input).pl
  have hAp : PL.MemA (preShrink cfg limit d input).g (preShrink cfg limit d input).pl := by
    rw [hgp]; exact ms.always.congr pe.pools pe.tcap pe.theap
  rw [run_eq]
  refine ⟨hgp, pe.ovh.trans ho, ?_, ?_, pe.strings, ?_, ?_, s4⟩
  · show PL.memSlots (PL.shrink _ _) = _
    rw [s1, PL.mem_memSlots_congr pe.pools]
  · show (PL.shrink _ _).pools.length = _
    rw [s2, pe.pools]
  · show PL.MemA d.g (PL.shrink _ _)
    have := s3 hAp
    generalize (preShrink cfg limit d input).g = g' at hgp this ⊢
    subst hgp; exact this
  · show PL.MemW d.g (PL.shrink _ _)
    unfold PL.MemW
    rw [s1, s2, PL.mem_memSlots_congr pe.pools, pe.pools]
    exact ms.weak

/-- SLOTS. With `(c, d', n) = JDD.run cfg limit d input`: the slots handed out by the pools of `d'` are at most the `n`
    bytes consumed - whatever the input, the code `c`, the nesting limit and the failure schedule; no hypothesis on the
    starting document (it is cleared first). Each `[`, `,` pays for the element that follows, `"k":` for the two slots of a
    member, the digits of a number for its extension slot. Attained by `[[[[` (4 bytes, 4 slots). -/
theorem deser_slots_le_consumed (cfg : Cfg) (limit : Nat) (d : Doc) (input : List Byte) (gok : PL.GeoOK d.g) :
    PL.memSlots (JDD.run cfg limit d input).2.1.pl ≤ (JDD.run cfg limit d input).2.2 := by
  obtain ⟨ms, _⟩ := mem_stop cfg limit d input gok
  obtain ⟨_, _, h3, _⟩ := mem_run_facts cfg limit d input gok
  rw [h3]; exact ms.slots

/-- the same count as live slots plus free list (`PL.liveIds`, AJ/Lemmas/PoolInv.lean), for a starting document whose
    pool list satisfies its invariant -/
theorem deser_live_slots_le_consumed (cfg : Cfg) (limit : Nat) (d : Doc) (input : List Byte) (gok : PL.GeoOK d.g)
    (hp : PL.Inv d.g d.pl) :
    (PL.liveIds (JDD.run cfg limit d input).2.1.g (JDD.run cfg limit d input).2.1.pl).length +
        (JDD.run cfg limit d input).2.1.pl.free.length ≤ (JDD.run cfg limit d input).2.2 := by
  obtain ⟨F, w, _⟩ := run_wf cfg limit input gok hp
  rw [w.pool.liveIds_length, mem_usage_eq]
  exact deser_slots_le_consumed cfg limit d input gok

/-- POOLS AND POOL TABLE. In the result: at most `n / poolCap + 1` pools (all pools but one are full: a new pool is
    requested only when the others are used up, and the run stops at the first allocation that fails); every pool has at
    most `poolCap` slots; a heap pool table has exactly one entry per pool after `shrinkToFit`. -/
theorem deser_pools_le (cfg : Cfg) (limit : Nat) (d : Doc) (input : List Byte) (gok : PL.GeoOK d.g) :
    (JDD.run cfg limit d input).2.1.pl.pools.length ≤ (JDD.run cfg limit d input).2.2 / d.g.poolCap + 1 ∧
    (∀ p ∈ (JDD.run cfg limit d input).2.1.pl.pools, p.usage ≤ p.cap ∧ p.cap ≤ d.g.poolCap) ∧
    ((JDD.run cfg limit d input).2.1.pl.tableHeap = true →
      (JDD.run cfg limit d input).2.1.pl.tableCap = (JDD.run cfg limit d input).2.1.pl.pools.length) ∧
    memPoolBytes d.g (JDD.run cfg limit d input).2.1.pl ≤
      ((JDD.run cfg limit d input).2.2 / d.g.poolCap + 1) * (d.g.poolCap * d.g.slotSize) ∧
    memTableBytes d.g (JDD.run cfg limit d input).2.1.pl ≤
      ((JDD.run cfg limit d input).2.2 / d.g.poolCap + 1) * d.g.poolSize := by
  have hs := deser_slots_le_consumed cfg limit d input gok
  obtain ⟨_, _, _, _, _, hA, hW, ht⟩ := mem_run_facts cfg limit d input gok
  have hlen := mem_pools_le gok hW hs
  refine ⟨hlen, hA.caps, ht, ?_, ?_⟩
  · exact Nat.le_trans (mem_poolBytes_le d.g _ (fun p hp => (hA.caps p hp).2)) (Nat.mul_le_mul_right _ hlen)
  · unfold memTableBytes
    split
    · rename_i hh; rw [ht hh]; exact Nat.mul_le_mul_right _ hlen
    · exact Nat.zero_le _

/-- the same while the parser runs (state in which it stops, before the builder is destroyed and the pools are shrunk):
    the heap pool table has at most twice as many entries as there are pools -/
theorem deser_pools_le_at_stop (cfg : Cfg) (limit : Nat) (d : Doc) (input : List Byte) (gok : PL.GeoOK d.g) :
    (JDD.stop cfg limit d input).2.d.pl.pools.length ≤ (JDD.stop cfg limit d input).2.s.l.pos / d.g.poolCap + 1 ∧
    (∀ p ∈ (JDD.stop cfg limit d input).2.d.pl.pools, p.usage ≤ p.cap ∧ p.cap ≤ d.g.poolCap) ∧
    ((JDD.stop cfg limit d input).2.d.pl.tableHeap = true →
      (JDD.stop cfg limit d input).2.d.pl.tableCap ≤ 2 * (JDD.stop cfg limit d input).2.d.pl.pools.length) ∧
    ((JDD.stop cfg limit d input).1 = .ok → PL.MemS d.g (JDD.stop cfg limit d input).2.d.pl) := by
  obtain ⟨ms, _⟩ := mem_stop cfg limit d input gok
  exact ⟨mem_pools_le gok ms.weak ms.slots, ms.always.caps, ms.always.tab, ms.strong⟩

/-- STRINGS. Every stored byte was consumed (an escape sequence consumes more than it produces, de-duplication only
    helps), and every string node took at least two bytes of input (two quotes, or one key byte and the colon). -/
theorem deser_strings_le_consumed (cfg : Cfg) (limit : Nat) (d : Doc) (input : List Byte) (gok : PL.GeoOK d.g) :
    ((JDD.run cfg limit d input).2.1.strings.map (·.bytes.length)).sum ≤ (JDD.run cfg limit d input).2.2 ∧
    (JDD.run cfg limit d input).2.1.strings.length ≤ (JDD.run cfg limit d input).2.2 / 2 := by
  obtain ⟨ms, _⟩ := mem_stop cfg limit d input gok
  obtain ⟨_, _, _, _, h5, _⟩ := mem_run_facts cfg limit d input gok
  rw [h5]
  refine ⟨?_, ?_⟩
  · have := ms.sbytes
    unfold memStrBytes at this
    rw [List.map_map] at this
    exact this
  · have := ms.scount
    show _ ≤ (JDD.stop cfg limit d input).2.s.l.pos / 2
    omega

/-- THE BUILDER'S BUFFER (the only block that is not in the result): when the parser stops with a buffer of capacity `cap`,
    `cap ≤ max 31 maxStrLen` (the "one maximum-size string") and `cap ≤ max 31 (2 n + 1)` (doubling: less than twice the
    longest token, which was consumed). Proved as an invariant of every routine (`JDD.MemT.buf`), stated here for the
    state in which the parser stops. -/
theorem deser_builder_buffer (cfg : Cfg) (limit : Nat) (d : Doc) (input : List Byte) (gok : PL.GeoOK d.g) (cap : Nat)
    (h : (JDD.stop cfg limit d input).2.b = some cap) :
    cap ≤ max 31 cfg.maxStrLen ∧ cap ≤ max 31 (2 * (JDD.run cfg limit d input).2.2 + 1) :=
  (mem_stop cfg limit d input gok).1.buf cap h

/-- **C06, memory is linear in the bytes consumed (JSON).** For every configuration, nesting limit, starting document,
    input and allocator failure schedule, with `n` the bytes consumed, `A = poolCap·slotSize + 2·poolSize + M + overhead`
    and `B = slotSize + 2·poolSize + 1 + overhead`:
    * when the parser stops (StringBuilder alive, `M = max 31 maxStrLen`: one maximum-size string):
      pools + pool table + string nodes + builder buffer ≤ A + B · n;
    * in the document returned (builder destroyed, pools shrunk; `M = 0`): pools + table + string nodes ≤ A + B · n.
    The accounting behind it holds for every call of every parsing routine (`JDD.mem_parse_all`), hence at every
    intermediate state of the run; the quantities of the pool list only grow during a run. -/
theorem deser_memory_linear (cfg : Cfg) (limit : Nat) (d : Doc) (input : List Byte) (gok : PL.GeoOK d.g) :
    memHeld (JDD.stop cfg limit d input).2.d (JDD.stop cfg limit d input).2.b ≤
      memA d.g d.strOverhead (max 31 cfg.maxStrLen) + memB d.g d.strOverhead * (JDD.run cfg limit d input).2.2 ∧
    memHeld (JDD.run cfg limit d input).2.1 none ≤
      memA d.g d.strOverhead 0 + memB d.g d.strOverhead * (JDD.run cfg limit d input).2.2 := by
  obtain ⟨ms, ho⟩ := mem_stop cfg limit d input gok
  obtain ⟨r1, r2, r3, _, r5, rA, rW, _⟩ := mem_run_facts cfg limit d input gok
  constructor
  · have hg := ms.hg
    have := (mem_held_le (d := (JDD.stop cfg limit d input).2.d) (b := (JDD.stop cfg limit d input).2.b)
      (n := (JDD.stop cfg limit d input).2.s.l.pos) (M := max 31 cfg.maxStrLen)
      (by rw [hg]; exact gok) (by rw [hg]; exact ms.always) (by rw [hg]; exact ms.weak) ms.slots ms.sbytes
      (by have := ms.scount; omega) (fun cap hc => (ms.buf cap hc).1)).2.2.2.2
    rw [hg, ho] at this
    exact this
  · have := (mem_held_le (d := (JDD.run cfg limit d input).2.1) (b := none)
      (n := (JDD.stop cfg limit d input).2.s.l.pos) (M := 0)
      (by rw [r1]; exact gok) (by rw [r1]; exact rA) (by rw [r1]; exact rW) (by rw [r3]; exact ms.slots)
      (by unfold memStrBytes; rw [r5]; exact ms.sbytes) (by rw [r5]; have := ms.scount; omega)
      (fun cap hc => by cases hc)).2.2.2.2
    rw [r1, r2] at this
    exact this

/-- the slot-level JSON deserializer never consumes more than the input has (every code, every failure schedule) -/
theorem deser_reads_within_input (cfg : Cfg) (limit : Nat) (d : Doc) (input : List Byte) :
    (JDD.run cfg limit d input).2.2 ≤ input.length := mem_run_pos_le cfg limit d input

/-- hence: linear in the length of the input -/
theorem deser_memory_linear_in_input (cfg : Cfg) (limit : Nat) (d : Doc) (input : List Byte) (gok : PL.GeoOK d.g) :
    memHeld (JDD.stop cfg limit d input).2.d (JDD.stop cfg limit d input).2.b ≤
      memA d.g d.strOverhead (max 31 cfg.maxStrLen) + memB d.g d.strOverhead * input.length ∧
    memHeld (JDD.run cfg limit d input).2.1 none ≤ memA d.g d.strOverhead 0 + memB d.g d.strOverhead * input.length := by
  obtain ⟨a, b⟩ := deser_memory_linear cfg limit d input gok
  have h := Nat.mul_le_mul_left (memB d.g d.strOverhead) (deser_reads_within_input cfg limit d input)
  exact ⟨by omega, by omega⟩

/-! ## MessagePack -/

/-- SLOTS (MessagePack). With `(c, d', n) = MDD.run env limit d input`: the slots handed out are at most the `n` bytes
    consumed, WHATEVER THE COUNTS ANNOUNCED by array16/array32/map16/map32 headers: `readArray` / `readObject` take one slot
    (two for a member) per element actually reached, nothing in advance. Witness `dd ff ff ff ff`: 2³²−1 elements announced,
    5 bytes consumed, 1 slot, IncompleteInput. -/
theorem mp_deser_slots_le_consumed (env : MD.Env) (limit : Nat) (d : Doc) (input : List Byte) (gok : PL.GeoOK d.g) :
    PL.memSlots (MDD.run env limit d input).2.1.pl ≤ (MDD.run env limit d input).2.2 := by
  obtain ⟨ms, _⟩ := MDD.mem_stop env limit d input gok
  obtain ⟨_, _, h3, _, _, _, _, h8⟩ := MDD.mem_run_facts env limit d input gok
  rw [h3, h8]; exact ms.slots

/-- POOLS AND POOL TABLE (MessagePack) -/
theorem mp_deser_pools_le (env : MD.Env) (limit : Nat) (d : Doc) (input : List Byte) (gok : PL.GeoOK d.g) :
    (MDD.run env limit d input).2.1.pl.pools.length ≤ (MDD.run env limit d input).2.2 / d.g.poolCap + 1 ∧
    (∀ p ∈ (MDD.run env limit d input).2.1.pl.pools, p.usage ≤ p.cap ∧ p.cap ≤ d.g.poolCap) ∧
    ((MDD.run env limit d input).2.1.pl.tableHeap = true →
      (MDD.run env limit d input).2.1.pl.tableCap = (MDD.run env limit d input).2.1.pl.pools.length) ∧
    memPoolBytes d.g (MDD.run env limit d input).2.1.pl ≤
      ((MDD.run env limit d input).2.2 / d.g.poolCap + 1) * (d.g.poolCap * d.g.slotSize) ∧
    memTableBytes d.g (MDD.run env limit d input).2.1.pl ≤
      ((MDD.run env limit d input).2.2 / d.g.poolCap + 1) * d.g.poolSize := by
  have hs := mp_deser_slots_le_consumed env limit d input gok
  obtain ⟨_, _, _, _, hA, hW, ht, _⟩ := MDD.mem_run_facts env limit d input gok
  have hlen := mem_pools_le gok hW hs
  refine ⟨hlen, hA.caps, ht, ?_, ?_⟩
  · exact Nat.le_trans (mem_poolBytes_le d.g _ (fun p hp => (hA.caps p hp).2)) (Nat.mul_le_mul_right _ hlen)
  · unfold memTableBytes
    split
    · rename_i hh; rw [ht hh]; exact Nat.mul_le_mul_right _ hlen
    · exact Nat.zero_le _

/-- STRINGS (MessagePack). Every stored byte was consumed (strings without their header, binary / extension values with
    it), every node took at least its format byte; the lengths announced play no role: a string is stored only when all
    its bytes were read. -/
theorem mp_deser_strings_le_consumed (env : MD.Env) (limit : Nat) (d : Doc) (input : List Byte) (gok : PL.GeoOK d.g) :
    ((MDD.run env limit d input).2.1.strings.map (·.bytes.length)).sum ≤ (MDD.run env limit d input).2.2 ∧
    (MDD.run env limit d input).2.1.strings.length ≤ (MDD.run env limit d input).2.2 := by
  obtain ⟨ms, _⟩ := MDD.mem_stop env limit d input gok
  obtain ⟨_, _, _, h4, _, _, _, h8⟩ := MDD.mem_run_facts env limit d input gok
  rw [h4, h8]
  refine ⟨?_, ms.scount⟩
  have := ms.sbytes
  unfold memStrBytes at this
  rw [List.map_map] at this
  exact this

/-- THE STRINGBUFFER'S NODE - the "one maximum-size string". `reserve(n)` allocates exactly the ANNOUNCED size, BEFORE the
    bytes are read: a header announcing a long string holds that much although the input may be short (`da ff ff`:
    3 bytes consumed, a node of 65535 + overhead bytes, IncompleteInput - see the examples). It never exceeds `maxStrLen`:
    a longer announcement is refused without calling the allocator. -/
theorem mp_deser_buffer (env : MD.Env) (limit : Nat) (d : Doc) (input : List Byte) (gok : PL.GeoOK d.g) (cap : Nat)
    (h : (MDD.memStop env limit d input).2.1.b = some cap) : cap ≤ env.maxStrLen :=
  (MDD.mem_stop env limit d input gok).1.buf cap h

/-- **C06, memory is linear in the bytes consumed (MessagePack).** For every nesting limit, starting document, input -
    whatever lengths and counts its headers announce - and allocator failure schedule, with `n` the bytes consumed:
    * when the parser stops (StringBuffer alive): pools + pool table + string nodes + buffer ≤ A + B · n with
      `A = poolCap·slotSize + 2·poolSize + maxStrLen + overhead` (one pool, one maximum-size string);
    * in the document returned: pools + table + string nodes ≤ (poolCap·slotSize + 2·poolSize + overhead) + B · n. -/
theorem mp_deser_memory_linear (env : MD.Env) (limit : Nat) (d : Doc) (input : List Byte) (gok : PL.GeoOK d.g) :
    memHeld (MDD.memStop env limit d input).2.1.d (MDD.memStop env limit d input).2.1.b ≤
      memA d.g d.strOverhead env.maxStrLen + memB d.g d.strOverhead * (MDD.run env limit d input).2.2 ∧
    memHeld (MDD.run env limit d input).2.1 none ≤
      memA d.g d.strOverhead 0 + memB d.g d.strOverhead * (MDD.run env limit d input).2.2 := by
  obtain ⟨ms, ho⟩ := MDD.mem_stop env limit d input gok
  obtain ⟨r1, r2, r3, r5, rA, rW, _, r8⟩ := MDD.mem_run_facts env limit d input gok
  rw [r8]
  constructor
  · have hg := ms.hg
    have := (mem_held_le (d := (MDD.memStop env limit d input).2.1.d) (b := (MDD.memStop env limit d input).2.1.b)
      (n := (MDD.memStop env limit d input).2.1.r.pos) (M := env.maxStrLen)
      (by rw [hg]; exact gok) (by rw [hg]; exact ms.always) (by rw [hg]; exact ms.weak) ms.slots ms.sbytes
      ms.scount (fun cap hc => ms.buf cap hc)).2.2.2.2
    rw [hg, ho] at this
    exact this
  · have := (mem_held_le (d := (MDD.run env limit d input).2.1) (b := none)
      (n := (MDD.memStop env limit d input).2.1.r.pos) (M := 0)
      (by rw [r1]; exact gok) (by rw [r1]; exact rA) (by rw [r1]; exact rW) (by rw [r3]; exact ms.slots)
      (by unfold memStrBytes; rw [r5]; exact ms.sbytes) (by rw [r5]; exact ms.scount)
      (fun cap hc => by cases hc)).2.2.2.2
    rw [r1, r2] at this
    exact this

/-- the slot-level MessagePack deserializer never consumes more than the input has -/
theorem mp_deser_reads_within_input (env : MD.Env) (limit : Nat) (d : Doc) (input : List Byte) :
    (MDD.run env limit d input).2.2 ≤ input.length := MDD.mem_run_pos_le env limit d input

/-- hence: linear in the length of the input, whatever the headers announce -/
theorem mp_deser_memory_linear_in_input (env : MD.Env) (limit : Nat) (d : Doc) (input : List Byte) (gok : PL.GeoOK d.g) :
    memHeld (MDD.memStop env limit d input).2.1.d (MDD.memStop env limit d input).2.1.b ≤
      memA d.g d.strOverhead env.maxStrLen + memB d.g d.strOverhead * input.length ∧
    memHeld (MDD.run env limit d input).2.1 none ≤ memA d.g d.strOverhead 0 + memB d.g d.strOverhead * input.length := by
  obtain ⟨a, b⟩ := mp_deser_memory_linear env limit d input gok
  have h := Nat.mul_le_mul_left (memB d.g d.strOverhead) (mp_deser_reads_within_input env limit d input)
  exact ⟨by omega, by omega⟩

/-! ## Non-vacuity (geometry ⟨4,1,1⟩: pools of 4 slots of 16 bytes, inline table of one entry, string overhead 15)

The kernel evaluates documents whose slot ids stay at 0 (`decide +kernel` is stuck on cell maps with a key ≥ 1), so the
evaluated witnesses are short; the theorems are instantiated on longer inputs and on every failure position.
Measured with `#eval` (not proofs): `[[[[[` - 5 bytes, 4 slots, one full pool; ten `[` - 10 bytes, 9 slots, 3 pools, a heap
table of 3 entries, 192 bytes held (bound 111 + 64·10). The slot bound `≤ n` is within one of what inputs reach
(`n − 1`: every byte of `[[[[[` but the last pays for one slot). -/
open C03.ExDoc

/-- `[[[[[` -/
def nest5 : List Byte := [0x5B, 0x5B, 0x5B, 0x5B, 0x5B]
/-- `[[` -/
def nest2 : List Byte := [0x5B, 0x5B]

/-- the constants for this geometry: A = 111 + M, B = 64 -/
example : memA g0 15 0 = 111 ∧ memB g0 15 = 64 := by decide

/-- slots: any input, any single failure position -/
example (k : Nat) : PL.memSlots (JDD.run {} 10 (dk [k]) nest5).2.1.pl ≤ (JDD.run {} 10 (dk [k]) nest5).2.2 ∧
    PL.memSlots (JDD.run {} 10 (dk [k]) obj2).2.1.pl ≤ (JDD.run {} 10 (dk [k]) obj2).2.2 :=
  ⟨deser_slots_le_consumed {} 10 (dk [k]) nest5 gok, deser_slots_le_consumed {} 10 (dk [k]) obj2 gok⟩
/-- `[[`: 2 bytes consumed, 1 slot (IncompleteInput): n − 1 -/
example : PL.memSlots (JDD.run {} 10 (dk []) nest2).2.1.pl = 1 ∧ (JDD.run {} 10 (dk []) nest2).2.2 = 2 := by
  decide +kernel
/-- live slots + free list, `{"a":[1,"a"],"a":2}` (the repeated key releases three slots to the free list) -/
example (k : Nat) : (PL.liveIds (JDD.run {} 10 (dk [k]) obj2).2.1.g (JDD.run {} 10 (dk [k]) obj2).2.1.pl).length +
    (JDD.run {} 10 (dk [k]) obj2).2.1.pl.free.length ≤ (JDD.run {} 10 (dk [k]) obj2).2.2 :=
  deser_live_slots_le_consumed {} 10 (dk [k]) obj2 gok (dk_inv [k])

/-- pools: one pool of one slot (16 bytes) after `shrinkToFit` for `[[` -/
example : (JDD.run {} 10 (dk []) nest2).2.1.pl.pools.length = 1 ∧
    memPoolBytes g0 (JDD.run {} 10 (dk []) nest2).2.1.pl = 16 := by decide +kernel
example (k : Nat) : (JDD.run {} 10 (dk [k]) nest5).2.1.pl.pools.length ≤ (JDD.run {} 10 (dk [k]) nest5).2.2 / 4 + 1 :=
  (deser_pools_le {} 10 (dk [k]) nest5 gok).1

/-- strings: `"hi"` - 2 bytes stored, 1 node, 4 bytes consumed -/
example : ((JDD.run {} 10 (dk []) hiQ).2.1.strings.map (·.bytes.length)).sum = 2 ∧
    (JDD.run {} 10 (dk []) hiQ).2.1.strings.length = 1 ∧ (JDD.run {} 10 (dk []) hiQ).2.2 = 4 := by decide +kernel
example (k : Nat) : (JDD.run {} 10 (dk [k]) obj2).2.1.strings.length ≤ (JDD.run {} 10 (dk [k]) obj2).2.2 / 2 :=
  (deser_strings_le_consumed {} 10 (dk [k]) obj2 gok).2

/-- the builder's buffer: a 40-character string without its closing quote - 41 bytes consumed, the buffer was doubled once
    (31 → 63 ≤ 2·41 + 1) and is still held when the parser stops: 63 + 15 = 78 bytes -/
example : (JDD.stop {} 10 (dk []) C05.longOpen).2.b = some 63 ∧ (JDD.run {} 10 (dk []) C05.longOpen).2.2 = 41 ∧
    memHeld (JDD.stop {} 10 (dk []) C05.longOpen).2.d (JDD.stop {} 10 (dk []) C05.longOpen).2.b = 78 := by
  decide +kernel
example : (63 : Nat) ≤ max 31 ({} : Cfg).maxStrLen ∧ 63 ≤ max 31 (2 * (JDD.run {} 10 (dk []) C05.longOpen).2.2 + 1) :=
  deser_builder_buffer {} 10 (dk []) C05.longOpen gok 63 (by decide +kernel)

/-- the linear bound: `"hi"` holds 17 bytes in the end; `[[` holds a whole pool (64 bytes) while parsing and 16 bytes in the
    end; bound 111 + 64 · n -/
example : memHeld (JDD.run {} 10 (dk []) hiQ).2.1 none = 17 ∧
    memHeld (JDD.stop {} 10 (dk []) nest2).2.d (JDD.stop {} 10 (dk []) nest2).2.b = 64 ∧
    memHeld (JDD.run {} 10 (dk []) nest2).2.1 none = 16 := by decide +kernel
example (k : Nat) : memHeld (JDD.run {} 10 (dk [k]) obj2).2.1 none ≤ 111 + 64 * (JDD.run {} 10 (dk [k]) obj2).2.2 :=
  (deser_memory_linear {} 10 (dk [k]) obj2 gok).2

/-! ### MessagePack -/

/-- array32 announcing 2³²−1 elements, nothing behind it: 5 bytes consumed, ONE slot, IncompleteInput -/
def hugeCount : List Byte := [0xdd, 0xff, 0xff, 0xff, 0xff]
/-- str16 announcing 65535 bytes, nothing behind it -/
def hugeLen : List Byte := [0xda, 0xff, 0xff]

example : PL.memSlots (MDD.run {} 10 (dk []) hugeCount).2.1.pl = 1 ∧ (MDD.run {} 10 (dk []) hugeCount).2.2 = 5 ∧
    (MDD.run {} 10 (dk []) hugeCount).1 = .incomplete := by decide +kernel
example (k : Nat) : PL.memSlots (MDD.run {} 10 (dk [k]) hugeCount).2.1.pl ≤ (MDD.run {} 10 (dk [k]) hugeCount).2.2 :=
  mp_deser_slots_le_consumed {} 10 (dk [k]) hugeCount gok

/-- THE MAXIMUM-SIZE STRING TERM IS NEEDED: `da ff ff` consumes 3 bytes, and the StringBuffer holds a node of the announced
    65535 (+15) bytes - allocated (`A65550`) before the short read is noticed, released (`D`) when the deserializer is
    destroyed; 65550 is far above the linear part 111 + 64 · 3 -/
example : (MDD.memStop {} 10 (dk []) hugeLen).2.1.b = some 65535 ∧ (MDD.run {} 10 (dk []) hugeLen).2.2 = 3 ∧
    (MDD.run {} 10 (dk []) hugeLen).1 = .incomplete ∧ (MDD.run {} 10 (dk []) hugeLen).2.1.pl.log = ["D", "A65550"] ∧
    memHeld (MDD.memStop {} 10 (dk []) hugeLen).2.1.d (MDD.memStop {} 10 (dk []) hugeLen).2.1.b = 65550 := by
  decide +kernel
example : (65535 : Nat) ≤ ({} : MD.Env).maxStrLen :=
  mp_deser_buffer {} 10 (dk []) hugeLen gok 65535 (by decide +kernel)
example : memHeld (MDD.memStop {} 10 (dk []) hugeLen).2.1.d (MDD.memStop {} 10 (dk []) hugeLen).2.1.b ≤
    (111 + 65535) + 64 * (MDD.run {} 10 (dk []) hugeLen).2.2 :=
  (mp_deser_memory_linear {} 10 (dk []) hugeLen gok).1

/-- strings: `a2 68 69` ("hi") - 2 bytes stored, 3 consumed; `a0` (the empty string) - one node for one byte: the count
    bound is `≤ n` here, not `≤ n / 2` as for JSON -/
example : ((MDD.run {} 10 (dk []) [0xa2, 0x68, 0x69]).2.1.strings.map (·.bytes.length)).sum = 2 ∧
    (MDD.run {} 10 (dk []) [0xa2, 0x68, 0x69]).2.2 = 3 ∧
    (MDD.run {} 10 (dk []) [0xa0]).2.1.strings.length = 1 ∧ (MDD.run {} 10 (dk []) [0xa0]).2.2 = 1 := by decide +kernel
example (k : Nat) : (MDD.run {} 10 (dk [k]) [0x92, 0xa1, 0x61, 0xa1, 0x61]).2.1.strings.length ≤
    (MDD.run {} 10 (dk [k]) [0x92, 0xa1, 0x61, 0xa1, 0x61]).2.2 :=
  (mp_deser_strings_le_consumed {} 10 (dk [k]) _ gok).2

/-- in terms of the input: `hugeLen` has 3 bytes -/
example : memHeld (MDD.memStop {} 10 (dk []) hugeLen).2.1.d (MDD.memStop {} 10 (dk []) hugeLen).2.1.b ≤
    (111 + 65535) + 64 * 3 := (mp_deser_memory_linear_in_input {} 10 (dk []) hugeLen gok).1
example (k : Nat) : memHeld (JDD.run {} 10 (dk [k]) obj2).2.1 none ≤ 111 + 64 * 19 :=
  (deser_memory_linear_in_input {} 10 (dk [k]) obj2 gok).2

end C06
