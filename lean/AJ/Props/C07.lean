/- C07 — deserializeJson(serializeJson(d)) yields a document equivalent to d.
   This file: the float-free, raw-free part, for EVERY such document (all nestings, all byte strings, all 64-bit
   integers): the compact text is accepted, consumed entirely, and the value read back is `normJ d`
   (= `d` except that a non-negative signed integer comes back unsigned; members with a repeated key are merged
   exactly as `parseObject` merges them — with `NoDupKeys` nothing is merged).
   Also: the structural round trip with floats (`json_roundtrip_readable`, result `readBack cfg d`), and the fact that
   the text of a finite float is a number for the deserializer (`float_text_is_number`).
   Definitions (`normJ`, `readBack`, `NoFloat`, `RawFree`, `IntsInRange`, `StrsWithin`, `NumsReadable`, `NoDupKeys`,
   `depth`) and the mutual induction (`rt_mutual`) live in AJ/Lemmas/JsonRoundTrip.lean; `parseNumber` on float texts
   in AJ/Lemmas/FloatText.lean. -/
import AJ.Lemmas.JsonRoundTrip
import AJ.Lemmas.FloatText
import AJ.Props.C09
namespace C07
open JD JSer

/-- `run` on a text that `parseVariant` reads successfully up to the end -/
theorem run_of {cfg : Cfg} {L : Nat} {I : List UInt8} {w : Val} {s' : St}
    (hpv : parseVariant cfg (2 * I.length + 4) L { l := { unread := I } } = (.ok, w, s'))
    (hv : Vw s' [] I.length) (hnum : isNumberVal w = true → s'.l.loaded = true) :
    JD.run cfg L I = (.ok, w, I.length) := by
  have hpos := vw_nil_pos hv
  simp only [JD.run, hpv, hpos]
  cases hw : isNumberVal w
  · simp
  · have : s'.l.cur = 0 := vw_nil_loaded_cur hv (hnum hw)
    simp [this]

/-- **Structural round trip, floats included.** For every raw-free document whose strings and keys fit the string
    buffer, whose nesting fits the limit, and whose number nodes are readable (`NumReadable`: printed as `null`, or as
    a text of at most 63 number bytes that `parseNumber` does not reject — true of every 64-bit integer
    by `int_readable`, and of every finite float whose text fits the buffer by `float_readable`):
    the compact text is accepted and consumed entirely, and the value read back is `readBack cfg v`: the same
    structure, order, keys, strings and booleans, each number node replaced by what `parseNumber` makes of its own text
    (`numBack`), members with a repeated key merged as `parseObject` does (`lastWins`). -/
theorem json_roundtrip_readable (cfg : Cfg) (L : Nat) (v : Val) (hcfg : cfg.decodeUnicode = true)
    (h2 : RawFree v) (h3 : NumsReadable cfg v) (h4 : StrsWithin cfg.maxStrLen v) (hd : depth v ≤ L) :
    JD.run cfg L (compact cfg v) = (.ok, readBack cfg v, (compact cfg v).length) := by
  have hg := goodG_of cfg v h2 h3 h4
  have h0 : Vw ({ l := { unread := compact cfg v } } : St) (compact cfg v ++ []) 0 :=
    Or.inl ⟨rfl, by simp, rfl⟩
  have viaMutual : (isNumberVal (readBack cfg v) = false) →
      JD.run cfg L (compact cfg v) = (.ok, readBack cfg v, (compact cfg v).length) := by
    intro hnn
    obtain ⟨s', he, hv⟩ := (rt_mutual cfg hcfg (2 * (compact cfg v).length + 4)).1 L v [] _ 0 hg hd (by omega)
      (delim_nil cfg) h0
    exact run_of he (by simpa using hv) (fun hw => by rw [hnn] at hw; exact absurd hw (by decide))
  cases v with
  | num n =>
    have hn : ScalarOkG cfg (.num n) := by simpa only [GoodG, AllV] using hg
    rcases hn.2.1 with e | ⟨hst, hin, hl, hni, hnf⟩
    · exact viaMutual (by simp only [readBack, numBack, e, ↓reduceIte, isNumberVal])
    · have hnn : JS.printNum cfg n ≠ nullText := by
        intro e
        obtain ⟨c, t, e2, hc⟩ := hst
        rw [e] at e2
        have : c = 0x6E := (List.cons.inj e2).1.symm
        subst this
        exact absurd hc.2.2.2.2.2.2.1 (by decide)
      have hb : readBack cfg (.num n) = numValue cfg (JS.printNum cfg n) := by
        simp only [readBack, numBack, hnn, ↓reduceIte]
      simp only [compact] at h0 ⊢
      rw [hb]
      obtain ⟨s', he, hv, hl'⟩ := pv_numberG cfg (f := 2 * (JS.printNum cfg n).length + 3) (L := L) _ hst hin hl hni hnf
        _ [] 0 (delim_nil cfg) h0
      exact run_of he (by simpa using hv) (fun _ => hl')
  | null => exact viaMutual (by simp only [readBack, isNumberVal])
  | bool b => exact viaMutual (by simp only [readBack, isNumberVal])
  | str x => exact viaMutual (by simp only [readBack, isNumberVal])
  | raw x => exact viaMutual (by simp only [readBack, isNumberVal])
  | arr x => exact viaMutual (by simp only [readBack, isNumberVal])
  | obj x => exact viaMutual (by simp only [readBack, isNumberVal])

/-- the float-free case, general form: no hypothesis on keys; objects come back merged by `lastWins` -/
theorem json_roundtrip_nofloat_gen (cfg : Cfg) (L : Nat) (v : Val) (hcfg : cfg.decodeUnicode = true)
    (h1 : NoFloat v) (h2 : RawFree v) (h3 : IntsInRange v) (h4 : StrsWithin cfg.maxStrLen v) (hd : depth v ≤ L) :
    JD.run cfg L (compact cfg v) = (.ok, normJ v, (compact cfg v).length) := by
  have hg := good_of cfg v h1 h2 h3 h4
  have hG := goodG_of_good cfg v hg
  have h3' : NumsReadable cfg v := AllV_mono (fun v h => h.2.1) (fun _ _ => trivial) v hG
  rw [← readBack_eq_normJ cfg v hg]
  exact json_roundtrip_readable cfg L v hcfg h2 h3' h4 hd

/-- **MAIN.** For every float-free, raw-free document `v` without repeated keys, whose integers are 64-bit, whose strings
    and keys fit the string buffer, and whose nesting fits the limit `L`:
    `deserializeJson(serializeJson(v))` succeeds, consumes the whole text, and yields `normJ v`. -/
theorem json_roundtrip_nofloat (cfg : Cfg) (L : Nat) (v : Val) (hcfg : cfg.decodeUnicode = true)
    (h1 : NoFloat v) (h2 : RawFree v) (_h5 : NoDupKeys v) (h3 : IntsInRange v) (h4 : StrsWithin cfg.maxStrLen v)
    (hd : depth v ≤ L) :
    JD.run cfg L (compact cfg v) = (.ok, normJ v, (compact cfg v).length) :=
  json_roundtrip_nofloat_gen cfg L v hcfg h1 h2 h3 h4 hd

/-- without repeated keys `normJ` only changes the tag of non-negative signed integers: structure, order, keys,
    strings, booleans and integer values are exactly those of `v` -/
theorem normJ_of_noDupKeys (v : Val) (h : NoDupKeys v) : normJ v = normInt v := normJ_eq_normInt v h

/-- the main theorem with the explicit normal form -/
theorem json_roundtrip_nofloat' (cfg : Cfg) (L : Nat) (v : Val) (hcfg : cfg.decodeUnicode = true)
    (h1 : NoFloat v) (h2 : RawFree v) (h5 : NoDupKeys v) (h3 : IntsInRange v) (h4 : StrsWithin cfg.maxStrLen v)
    (hd : depth v ≤ L) :
    JD.run cfg L (compact cfg v) = (.ok, normInt v, (compact cfg v).length) := by
  rw [← normJ_of_noDupKeys v h5]; exact json_roundtrip_nofloat cfg L v hcfg h1 h2 h5 h3 h4 hd

/-- a document that contains only unsigned and negative integers is read back identically -/
theorem normInt_id_example : normInt (.arr [.num (.uint 7), .num (.sint (-3)), .str [0x61]]) =
    .arr [.num (.uint 7), .num (.sint (-3)), .str [0x61]] := by
  simp [normInt, normIntE]

/- With floats. PROVED below: `float_text_is_number`, `parseNumber_never_faults`, `float_text_fits`,
   `json_roundtrip_all` (default options: every raw-free document, NaN/Infinity included) and `json_roundtrip_finite`
   (any options, finite floats): structure, order, keys, strings, booleans and integers exact; every float node read
   back as `parseNumber` of its own text. NOT proved (stated for the record):
     (b) the value clause of C07 for floats: `numBack cfg (.f64 b)` is the float denoted by the printed 9-place decimal
         (within printing precision of `b`; an integral value such as 3.0 prints as `3` and comes back as the integer 3);
     (c) with `cfg.nan`/`cfg.inf` set, the texts `NaN`, `Infinity`, `-Infinity` are read back by `parseNumeric`. -/

/-! ## non-vacuity -/

/-- `{"a":[1,-2,"x\n",null,true,5],"b":{"c":[]},"":false}`; the signed 5 comes back unsigned -/
def sample : Val :=
  .obj [([0x61], .arr [.num (.uint 1), .num (.sint (-2)), .str [0x78, 0x0A], .null, .bool true, .num (.sint 5)]),
        ([0x62], .obj [([0x63], .arr [])]),
        ([], .bool false)]

def sampleText : List UInt8 :=
  [0x7B, 0x22,0x61,0x22, 0x3A, 0x5B, 0x31, 0x2C, 0x2D,0x32, 0x2C, 0x22,0x78,0x5C,0x6E,0x22, 0x2C, 0x6E,0x75,0x6C,0x6C, 0x2C,
   0x74,0x72,0x75,0x65, 0x2C, 0x35, 0x5D, 0x2C, 0x22,0x62,0x22, 0x3A, 0x7B, 0x22,0x63,0x22, 0x3A, 0x5B,0x5D, 0x7D, 0x2C,
   0x22,0x22, 0x3A, 0x66,0x61,0x6C,0x73,0x65, 0x7D]

theorem sample_text : compact {} sample = sampleText := by decide +kernel

example : JD.run {} 3 sampleText =
    (.ok, .obj [([0x61], .arr [.num (.uint 1), .num (.sint (-2)), .str [0x78, 0x0A], .null, .bool true, .num (.uint 5)]),
                ([0x62], .obj [([0x63], .arr [])]),
                ([], .bool false)], 52) := by
  have h := json_roundtrip_nofloat' {} 3 sample rfl
    (by simp [NoFloat, sample, AllV, AllE, AllM, FloatFreeS])
    (by simp [RawFree, sample, AllV, AllE, AllM, RawFreeS])
    (by simp [NoDupKeys, sample, NoDupE, NoDupM])
    (by simp [IntsInRange, sample, AllV, AllE, AllM, IntOkS])
    (by simp [StrsWithin, sample, AllV, AllE, AllM, StrOkS])
    (by simp [sample, depth, depthE, depthM])
  rw [sample_text] at h
  have e : normInt sample =
      .obj [([0x61], .arr [.num (.uint 1), .num (.sint (-2)), .str [0x78, 0x0A], .null, .bool true, .num (.uint 5)]),
            ([0x62], .obj [([0x63], .arr [])]),
            ([], .bool false)] := by
    simp [sample, normInt, normIntE, normIntM]
  rw [e] at h
  exact h

-- the same text evaluated directly by the kernel (independent of the theorem): Ok, 52 bytes consumed
example : (match JD.run {} 3 sampleText with | (.ok, .obj [_, _, _], n) => n == 52 | _ => false) = true := by
  decide +kernel

-- a repeated key: `{"k":1,"k":2}` comes back as `{"k":2}` (general theorem, `lastWins`)
example : JD.run {} 1 [0x7B, 0x22,0x6B,0x22, 0x3A, 0x31, 0x2C, 0x22,0x6B,0x22, 0x3A, 0x32, 0x7D] =
    (.ok, .obj [([0x6B], .num (.uint 2))], 13) := by
  have h := json_roundtrip_nofloat_gen {} 1 (.obj [([0x6B], .num (.uint 1)), ([0x6B], .num (.uint 2))]) rfl
    (by simp [NoFloat, AllV, AllM, FloatFreeS]) (by simp [RawFree, AllV, AllM, RawFreeS])
    (by simp [IntsInRange, AllV, AllM, IntOkS]) (by simp [StrsWithin, AllV, AllM, StrOkS])
    (by simp [depth, depthM])
  have t : compact {} (.obj [([0x6B], .num (.uint 1)), ([0x6B], .num (.uint 2))]) =
      [0x7B, 0x22,0x6B,0x22, 0x3A, 0x31, 0x2C, 0x22,0x6B,0x22, 0x3A, 0x32, 0x7D] := by decide +kernel
  rw [t] at h
  simpa [normJ, normMembers, lastWins, insertAll, setMember] using h

-- a top-level integer (the look-ahead is the end marker): 18446744073709551615
example : JD.run {} 0 (compact {} (.num (.uint 18446744073709551615))) =
    (.ok, .num (.uint 18446744073709551615), (compact {} (.num (.uint 18446744073709551615))).length) :=
  json_roundtrip_nofloat_gen {} 0 _ rfl (by simp [NoFloat, AllV, FloatFreeS]) (by simp [RawFree, AllV, RawFreeS])
    (by simp [IntsInRange, AllV, IntOkS]) (by simp [StrsWithin, AllV, StrOkS]) (by simp [depth])


/-! ## floats: the printed text of a finite value is a number for the deserializer -/

/-- **The text of a finite float is a number.** For every finite binary64 `b` and every number of places,
    `writeFloat` produces `-? digits (. digits)? (e -? digits)?` (`writeFloat_finite_shape`); every byte of it is a
    number byte for `scanNumber` (so the scan takes it entirely, up to the next delimiter), and `parseNumber` does not
    reject it. (Whether the value read back equals `b` is a rounding question, not covered here.) -/
theorem float_text_is_number (cfg : Cfg) (b places : Nat) (h1 : SF.isNaN SF.b64 b = false) (h2 : SF.isInf SF.b64 b = false) :
    (∀ c ∈ JS.writeFloat cfg b places, inNumber cfg c = true) ∧
    parseNumber cfg (JS.writeFloat cfg b places) ≠ .invalid := by
  obtain ⟨neg, ID, F, E, e, hI, hne, hF, hE⟩ := writeFloat_finite_shape cfg b places h1 h2
  rw [e]
  exact ⟨shape_inNumber cfg neg ID F E hI hF hE, number_shape_ok cfg neg ID F E hI hne hF hE⟩

/-- hence, inside a document (a delimiter or the end follows) the scan of `parseNumeric` takes exactly that text,
    provided it fits the 63-byte number buffer -/
theorem float_text_scanned (cfg : Cfg) (b places : Nat) (h1 : SF.isNaN SF.b64 b = false) (h2 : SF.isInf SF.b64 b = false)
    (hlen : (JS.writeFloat cfg b places).length ≤ 63) (s : St) (rest : List UInt8) (p : Nat) (hd : Delim_rt cfg rest)
    (h : Vw s (JS.writeFloat cfg b places ++ rest) p) :
    ∃ s', scanNumber cfg (Gen.number_buffer - 1) [] s = (JS.writeFloat cfg b places, s') ∧
      Vw s' rest (p + (JS.writeFloat cfg b places).length) := by
  obtain ⟨s', he, hv, _⟩ := scanNumber_exact cfg _ (Gen.number_buffer - 1) [] s rest p
    (float_text_is_number cfg b places h1 h2).1 (by show _ ≤ 63; exact hlen) hd h
  exact ⟨s', by simpa using he, hv⟩

/-- `parseNumber` never indexes its powers-of-ten tables out of bounds, on any input (the exponent tests that precede
    `make_float` keep |e| ≤ 325 < 512, resp. ≤ 38 < 64) -/
theorem parseNumber_never_faults (cfg : Cfg) (s : List UInt8) : parseNumber cfg s ≠ .fault := parseNumber_ne_fault cfg s

/-- every float text fits the 63-byte number buffer of `parseNumeric` (at most `17 + places` bytes) -/
theorem float_text_fits (cfg : Cfg) (b places : Nat) (hp : places ≤ 46) : (JS.writeFloat cfg b places).length ≤ 63 := by
  have := writeFloat_length_le cfg b places; omega

/-- a finite float node is readable -/
theorem float_readable (cfg : Cfg) (n : Num) (w places : Nat) (hp : JS.printNum cfg n = JS.writeFloat cfg w places)
    (hpl : places ≤ 46) (h1 : SF.isNaN SF.b64 w = false) (h2 : SF.isInf SF.b64 w = false) : NumReadable cfg n := by
  obtain ⟨hin, hni⟩ := float_text_is_number cfg w places h1 h2
  obtain ⟨neg, ID, F, E, e, hI, hne, _, _⟩ := writeFloat_finite_shape cfg w places h1 h2
  refine Or.inr ⟨?_, by rw [hp]; exact hin, by rw [hp]; exact float_text_fits cfg w places hpl, by rw [hp]; exact hni,
    parseNumber_ne_fault cfg _⟩
  rw [hp, e]
  cases neg
  · cases ID with
    | nil => exact absurd rfl hne
    | cons c t =>
      exact ⟨c, _, by simp only [Bool.false_eq_true, ↓reduceIte, List.nil_append, List.cons_append]; rfl,
        numStartG_of (Or.inl (Digits.isDigit_of_range ((Digits.AllDigits_cons.mp hI).1)))⟩
  · exact ⟨0x2D, _, by simp only [↓reduceIte, List.cons_append, List.nil_append]; rfl, numStartG_of (Or.inr rfl)⟩

/-- without the NaN/Infinity options every float node is readable: a non-finite one is printed as `null` -/
theorem float_readable_plain (cfg : Cfg) (n : Num) (w places : Nat) (hp : JS.printNum cfg n = JS.writeFloat cfg w places)
    (hpl : places ≤ 46) (hnan : cfg.nan = false) (hinf : cfg.inf = false) : NumReadable cfg n := by
  cases h1 : SF.isNaN SF.b64 w
  · cases h2 : SF.isInf SF.b64 w
    · exact float_readable cfg n w places hp hpl h1 h2
    · exact Or.inl (by rw [hp]; simp only [JS.writeFloat, h1, h2, hinf, Bool.false_eq_true, ↓reduceIte, kw_null_rt]; rfl)
  · exact Or.inl (by rw [hp]; simp only [JS.writeFloat, h1, hnan, Bool.false_eq_true, ↓reduceIte, kw_null_rt]; rfl)

def FiniteS : Val → Prop
  | .num (.f64 b) => SF.isNaN SF.b64 b = false ∧ SF.isInf SF.b64 b = false
  | .num (.f32 b) => SF.isNaN SF.b64 (cvt SF.b32 SF.b64 b) = false ∧ SF.isInf SF.b64 (cvt SF.b32 SF.b64 b) = false
  | _ => True
/-- every float node is finite -/
def FiniteFloats (v : Val) : Prop := AllV FiniteS (fun _ => True) v

theorem num_readable (cfg : Cfg) (v : Val) (hi : IntOkS v)
    (hf : (cfg.nan = false ∧ cfg.inf = false) ∨ FiniteS v) : NumOkS cfg v := by
  cases v with
  | num n =>
    cases n with
    | uint m => exact (int_readable cfg (.uint m) ⟨trivial, trivial, hi, trivial⟩).1
    | sint i => exact (int_readable cfg (.sint i) ⟨trivial, trivial, hi, trivial⟩).1
    | f32 b =>
      rcases hf with ⟨a, b'⟩ | hf
      · exact float_readable_plain cfg _ _ 6 rfl (by decide) a b'
      · exact float_readable cfg _ _ 6 rfl (by decide) hf.1 hf.2
    | f64 b =>
      rcases hf with ⟨a, b'⟩ | hf
      · exact float_readable_plain cfg _ _ 9 rfl (by decide) a b'
      · exact float_readable cfg _ _ 9 rfl (by decide) hf.1 hf.2
  | _ => trivial

/-- **Round trip with floats, default options.** Without the NaN/Infinity options, for EVERY raw-free document whose
    integers are 64-bit, whose strings and keys fit the string buffer and whose nesting fits the limit —
    any floats, NaN and infinities included — `deserializeJson(serializeJson(v))` succeeds, consumes the whole text and
    yields `readBack cfg v`: same structure, order, keys, strings, booleans; every number node is what `parseNumber`
    reads from the node's own text (`numBack`: integers exactly, by `readBack_eq_normJ`; NaN/Infinity become `null`). -/
theorem json_roundtrip_all (cfg : Cfg) (L : Nat) (v : Val) (hcfg : cfg.decodeUnicode = true)
    (hnan : cfg.nan = false) (hinf : cfg.inf = false)
    (h2 : RawFree v) (h3 : IntsInRange v) (h4 : StrsWithin cfg.maxStrLen v) (hd : depth v ≤ L) :
    JD.run cfg L (compact cfg v) = (.ok, readBack cfg v, (compact cfg v).length) :=
  json_roundtrip_readable cfg L v hcfg h2
    (AllV_mono (fun v h => num_readable cfg v h (Or.inl ⟨hnan, hinf⟩)) (fun _ h => h) v h3) h4 hd

/-- **Round trip with finite floats, any options.** -/
theorem json_roundtrip_finite (cfg : Cfg) (L : Nat) (v : Val) (hcfg : cfg.decodeUnicode = true)
    (h1 : FiniteFloats v) (h2 : RawFree v) (h3 : IntsInRange v) (h4 : StrsWithin cfg.maxStrLen v) (hd : depth v ≤ L) :
    JD.run cfg L (compact cfg v) = (.ok, readBack cfg v, (compact cfg v).length) :=
  json_roundtrip_readable cfg L v hcfg h2
    (AllV_mono (fun v h => num_readable cfg v h.1 (Or.inr h.2)) (fun _ _ => trivial) v (AllV_and v h3 h1)) h4 hd

-- non-vacuity: -2.5 prints as "-2.5", 1e-7 prints as "1e-7"; both are numbers for the parser
example : JS.writeFloat {} 0xC004000000000000 9 = [0x2D, 0x32, 0x2E, 0x35] := by decide +kernel
example : JS.writeFloat {} 0x3E7AD7F29ABCAF48 9 = [0x31, 0x65, 0x2D, 0x37] := by decide +kernel
example : parseNumber {} [0x31, 0x65, 0x2D, 0x37] ≠ .invalid := by
  have h := (float_text_is_number {} 0x3E7AD7F29ABCAF48 9 (by decide +kernel) (by decide +kernel)).2
  rwa [show JS.writeFloat {} 0x3E7AD7F29ABCAF48 9 = [0x31, 0x65, 0x2D, 0x37] from by decide +kernel] at h
example : parseNumber {} [0x2D, 0x32, 0x2E, 0x35] = .f32 0xC0200000 := by decide +kernel


-- a document with floats: [-2.5,{"e":1e-7},3]; the floats come back as what the parser reads from their text
example : JD.run {} 2 [0x5B, 0x2D,0x32,0x2E,0x35, 0x2C, 0x7B, 0x22,0x65,0x22, 0x3A, 0x31,0x65,0x2D,0x37, 0x7D, 0x2C, 0x33, 0x5D] =
    (.ok, .arr [.num (.f32 0xC0200000), .obj [([0x65], .num (.f32 0x33D6BF95))], .num (.uint 3)], 19) := by
  have h := json_roundtrip_all {} 2
    (.arr [.num (.f64 0xC004000000000000), .obj [([0x65], .num (.f64 0x3E7AD7F29ABCAF48))], .num (.uint 3)]) rfl rfl rfl
    (by simp [RawFree, AllV, AllE, AllM, RawFreeS])
    (by simp [IntsInRange, AllV, AllE, AllM, IntOkS])
    (by simp [StrsWithin, AllV, AllE, AllM, StrOkS])
    (by simp [depth, depthE, depthM])
  have t : compact {} (.arr [.num (.f64 0xC004000000000000), .obj [([0x65], .num (.f64 0x3E7AD7F29ABCAF48))], .num (.uint 3)]) =
      [0x5B, 0x2D,0x32,0x2E,0x35, 0x2C, 0x7B, 0x22,0x65,0x22, 0x3A, 0x31,0x65,0x2D,0x37, 0x7D, 0x2C, 0x33, 0x5D] := by
    decide +kernel
  have nb : ∀ (n : Num) (T : List UInt8) (r : PNum), JS.printNum {} n = T → T ≠ nullText → parseNumber {} T = r →
      numBack {} n = (match r with
        | .uint n => .num (.uint n) | .sint n => .num (.sint n) | .f32 b => .num (.f32 b)
        | .f64 b => .num (storeDouble b) | _ => .null) := by
    intro n T r h1 h2 h3; simp only [numBack, h1, h2, ↓reduceIte, numValue, h3]; rfl
  have b1 : numBack {} (.f64 0xC004000000000000) = .num (.f32 0xC0200000) :=
    nb _ [0x2D,0x32,0x2E,0x35] (.f32 0xC0200000) (by decide +kernel) (by decide) (by decide +kernel)
  have b2 : numBack {} (.f64 0x3E7AD7F29ABCAF48) = .num (.f32 0x33D6BF95) :=
    nb _ [0x31,0x65,0x2D,0x37] (.f32 0x33D6BF95) (by decide +kernel) (by decide) (by decide +kernel)
  have b3 : numBack {} (.uint 3) = .num (.uint 3) :=
    nb _ [0x33] (.uint 3) (by decide +kernel) (by decide) (by decide +kernel)
  rw [t] at h
  simpa [readBack, readBackE, readBackM, lastWins, insertAll, setMember, b1, b2, b3] using h


/-! ## MessagePack side (from AJ/Props/C09.lean) -/
section MsgPack
open JD
/-- deserializeMsgPack(serializeMsgPack(d)) = norm d, exactly the bytes of d consumed, for every raw-free document within limits -/
theorem msgpack_roundtrip (env : MD.Env) (L : Nat) (v : Val) (hr : C09.RawFree v) (hw : C09.WithinLimits env v) (hd : C09.depth v ≤ L) (rest : List UInt8) :
    MD.run env L .all (MD.ser v ++ rest) = (.ok, C09.norm v, (MD.ser v).length) :=
  C09.roundtrip env L v hr hw hd rest

/-- what comes back has the same shape, strings, keys, order, and numerically equal numbers -/
theorem msgpack_value_preserved (v : Val) : C09.ValSame v (C09.norm v) := C09.norm_value_preserving v

/-- serializing the result again gives byte-identical MessagePack -/
theorem msgpack_fixpoint (v : Val) : MD.ser (C09.norm v) = MD.ser v := C09.fixpoint v

end MsgPack

end C07
