/- Aggregate: C07 structural round trips (C07.lean) and closeness of floating-point values through JSON (C07Float.lean, over the C12 error bounds). -/
import AJ.Props.C07
import AJ.Props.C07Float
import AJ.Props.C07Cross
import AJ.Props.SlotCor
