/- C07, last clause — converting between the formats preserves the value:
   JSON text -> document -> MessagePack -> document compares equal (numbers by value) to the document obtained from the JSON
   text directly.
   * `json_values_are_rawfree` (A1): what EVERY run of the JSON deserializer model produces (any result code).
   * `cross_format` (A2): the MessagePack bytes of that document are accepted, consumed exactly, give `C09.norm v`, and
     `C09.norm v == v` (both directions, `Cmp.compare` = the model of `operator==` between two variants) unless `v` holds a NaN.
     Without the NaN option there is no NaN (`json_no_nan`), so the value clause is unconditional
     (`cross_format_no_nan_option`, `cross_format_default`).
   * "`env.maxStrLen ≥ cfg.maxStrLen` suffices": TRUE. The JSON parser model applies the string limit to every key, quoted or
     not (`parseMembers`: an unquoted key longer than `cfg.maxStrLen` answers NoMemory, like the C++ `parseNonQuotedString`,
     which ends with `if (!stringBuilder_.isValid()) return NoMemory`; see `unquoted_key_limited`), and a member is stored
     only after its key was read with Ok. Hence every key of every parsed document is at most `cfg.maxStrLen` bytes long
     (`json_keys_within_limit`), and no hypothesis about keys is left in the theorems. (An earlier version of the model
     accepted over-long unquoted keys; the theorems then carried `KeysWithin env.maxStrLen v`.)
   * `json_of_document`, `msgpack_values`, `msgpack_to_json` (A3): the converse direction, document (from MessagePack) -> JSON
     -> document: `CloseDoc` in general, `==` for documents without floats.
   Lemmas: AJ/Lemmas/CrossFormat.lean (parser invariant, comparison), CrossFormatNaN.lean (no NaN without the option),
   CrossFormatMp.lean (what the MessagePack deserializer produces). -/
import AJ.Lemmas.CrossFormat
import AJ.Lemmas.CrossFormatNaN
import AJ.Lemmas.CrossFormatMp
import AJ.Lemmas.MpProjectEq
import AJ.Props.C15
import AJ.Props.C18
import AJ.Props.C07Float
namespace C07
open JD
open CrossFormat

/-! ## A1. what the JSON deserializer produces -/

/-- **Every** value produced by `JD.run` — whatever the result code, the options, the nesting limit, the text —
    * has no raw node (`C09.RawFree`) and no object with a repeated key (`Cmp.NoDupKeys`);
    * satisfies `JOk (NumGood cfg) cfg.maxStrLen`: integers within 64 bits (`uint < 2^64`, `-2^63 ≤ sint < 2^64`), float
      patterns within their width (`C09.NumOk`), no NaN unless the NaN option is set; string values and ALL keys (quoted or
      unquoted) at most `cfg.maxStrLen` bytes;
    * is paid for by the text: `size v` (bytes of all strings and keys, plus one per element and per member) is at most the
      number of bytes consumed, itself at most the length of the text;
    * and, when the code is Ok, nests at most `L` deep. -/
theorem json_values_are_rawfree (cfg : Cfg) (L : Nat) (t : List Byte) :
    C09.RawFree (JD.run cfg L t).2.1 ∧ Cmp.NoDupKeys (JD.run cfg L t).2.1 ∧
    JOk (NumGood cfg) cfg.maxStrLen (JD.run cfg L t).2.1 ∧
    size (JD.run cfg L t).2.1 ≤ (JD.run cfg L t).2.2 ∧ (JD.run cfg L t).2.2 ≤ t.length ∧
    ((JD.run cfg L t).1 = .ok → C09.depth (JD.run cfg L t).2.1 ≤ L) := by
  obtain ⟨hj, hs⟩ := run_good cfg L t
  refine ⟨rawFree_of_jok _ hj, noDup_of_jok _ hj, hj, hs, JD.run_pos_le cfg L t, fun hok => ?_⟩
  rw [depth09_eq]; exact C15.json_ok_depth cfg L t hok

/-- without the NaN option no document produced by the JSON deserializer holds a NaN (whatever the result code):
    `make_float` only multiplies a finite value by finite non-zero powers of ten -/
theorem json_no_nan (cfg : Cfg) (hnan : cfg.nan = false) (L : Nat) (t : List Byte) : NoNaN (JD.run cfg L t).2.1 :=
  noNaN_of_jok (fun _ h => h.2 hnan) _ (run_good cfg L t).1

/-- every key (quoted or unquoted) of every object of a document produced by `JD.run` — whatever the result code — is at
    most `cfg.maxStrLen` bytes long: a member is stored only after its key was read with Ok, and a key longer than the string
    limit is answered with NoMemory -/
theorem json_keys_within_limit (cfg : Cfg) (L : Nat) (t : List Byte) : KeysWithin cfg.maxStrLen (JD.run cfg L t).2.1 :=
  keysWithin_of_jok _ (run_good cfg L t).1

/-- the hypotheses of the MessagePack round-trip theorems (`C09.WithinLimits`), for a text shorter than `2^32` bytes and a
    MessagePack string limit at least the JSON one -/
theorem json_values_within_limits (cfg : Cfg) (env : MD.Env) (L : Nat) (t : List Byte)
    (hm : cfg.maxStrLen ≤ env.maxStrLen) (ht : t.length < 2^32) : C09.WithinLimits env (JD.run cfg L t).2.1 := by
  obtain ⟨_, _, hj, hs, hp, _⟩ := json_values_are_rawfree cfg L t
  exact within_of_jok env (fun _ h => h.1) hm _ hj (by omega)

/-- keys are bytes of the text: no key is longer than the text -/
theorem json_keys_within_text (cfg : Cfg) (L : Nat) (t : List Byte) : KeysWithin t.length (JD.run cfg L t).2.1 := by
  obtain ⟨_, _, _, hs, hp, _⟩ := json_values_are_rawfree cfg L t
  exact keysWithin_of_size _ (by omega)

/-! ## A2. JSON -> document -> MessagePack -> document -/

/-- **Cross-format round trip.** Let `v` be the document obtained with Ok from the JSON text `t` (any options, nesting
    limit `L`). If the MessagePack deserializer's string limit is at least the JSON one, its nesting limit at least `L` and
    the text is shorter than `2^32` bytes, then
    `deserializeMsgPack(serializeMsgPack(v))` succeeds, consumes exactly the bytes written (whatever follows them) and
    yields `C09.norm v`; and, if `v` holds no NaN, `norm v == v` and `v == norm v` (`Cmp.compare … = equal`, `C18.vEq`):
    same structure, strings, keys; numbers equal by value (`norm` may change the signedness tag of a non-negative integer,
    store an integral float as an integer, a double that is exactly a float as a float). -/
theorem cross_format (cfg : Cfg) (env : MD.Env) (L L' : Nat) (t : List Byte)
    (hok : (JD.run cfg L t).1 = .ok) (hm : cfg.maxStrLen ≤ env.maxStrLen) (hL : L ≤ L') (ht : t.length < 2^32)
    (rest : List Byte) :
    MD.run env L' .all (MD.ser (JD.run cfg L t).2.1 ++ rest) =
      (.ok, C09.norm (JD.run cfg L t).2.1, (MD.ser (JD.run cfg L t).2.1).length) ∧
    (NoNaN (JD.run cfg L t).2.1 →
      Cmp.compare (C09.norm (JD.run cfg L t).2.1) (JD.run cfg L t).2.1 = .equal ∧
      Cmp.compare (JD.run cfg L t).2.1 (C09.norm (JD.run cfg L t).2.1) = .equal ∧
      C18.vEq (C09.norm (JD.run cfg L t).2.1) (JD.run cfg L t).2.1 = true ∧
      C18.vEq (JD.run cfg L t).2.1 (C09.norm (JD.run cfg L t).2.1) = true) := by
  obtain ⟨hr, hd, _, _, _, hdep⟩ := json_values_are_rawfree cfg L t
  have hw := json_values_within_limits cfg env L t hm ht
  refine ⟨C09.roundtrip env L' _ hr hw (Nat.le_trans (hdep hok) hL) rest, fun hn => ?_⟩
  obtain ⟨h1, h2⟩ := norm_eqBoth _ hn hd
  refine ⟨h1, h2, ?_, ?_⟩
  · simp only [C18.vEq, Cmp.variantOps, Cmp.opsRev, List.getD_cons_zero, h2]; rfl
  · simp only [C18.vEq, Cmp.variantOps, Cmp.opsRev, List.getD_cons_zero, h1]; rfl

/-- **Cross-format round trip without the NaN option** (the default): the value clause holds unconditionally.
    JSON text -> document `v` -> MessagePack -> document `norm v`, and `norm v == v` (both ways). -/
theorem cross_format_no_nan_option (cfg : Cfg) (env : MD.Env) (L L' : Nat) (t : List Byte) (hnan : cfg.nan = false)
    (hok : (JD.run cfg L t).1 = .ok) (hm : cfg.maxStrLen ≤ env.maxStrLen) (hL : L ≤ L') (ht : t.length < 2^32)
    (rest : List Byte) :
    MD.run env L' .all (MD.ser (JD.run cfg L t).2.1 ++ rest) =
      (.ok, C09.norm (JD.run cfg L t).2.1, (MD.ser (JD.run cfg L t).2.1).length) ∧
    Cmp.compare (C09.norm (JD.run cfg L t).2.1) (JD.run cfg L t).2.1 = .equal ∧
    Cmp.compare (JD.run cfg L t).2.1 (C09.norm (JD.run cfg L t).2.1) = .equal ∧
    C18.vEq (C09.norm (JD.run cfg L t).2.1) (JD.run cfg L t).2.1 = true ∧
    C18.vEq (JD.run cfg L t).2.1 (C09.norm (JD.run cfg L t).2.1) = true := by
  obtain ⟨h1, h2⟩ := cross_format cfg env L L' t hok hm hL ht rest
  exact ⟨h1, h2 (json_no_nan cfg hnan L t)⟩

/-- default options on both sides (string limits 65535 and 65535), same nesting limit, a text shorter than `2^32` bytes: no
    other side condition is left -/
theorem cross_format_default (L : Nat) (t : List Byte) (hok : (JD.run {} L t).1 = .ok) (ht : t.length < 2^32) :
    MD.run {} L .all (MD.ser (JD.run {} L t).2.1) =
      (.ok, C09.norm (JD.run {} L t).2.1, (MD.ser (JD.run {} L t).2.1).length) ∧
    Cmp.compare (C09.norm (JD.run {} L t).2.1) (JD.run {} L t).2.1 = .equal ∧
    C18.vEq (C09.norm (JD.run {} L t).2.1) (JD.run {} L t).2.1 = true := by
  have h := cross_format_no_nan_option {} {} L L t rfl hok (Nat.le_refl _) (Nat.le_refl _) ht []
  rw [List.append_nil] at h
  exact ⟨h.1, h.2.1, h.2.2.2.1⟩

/-- the value clause alone, for ANY document without NaN and without repeated keys (raw nodes included: `norm` keeps them) -/
theorem norm_compares_equal (v : Val) (hn : NoNaN v) (hd : Cmp.NoDupKeys v) :
    Cmp.compare (C09.norm v) v = .equal ∧ Cmp.compare v (C09.norm v) = .equal := norm_eqBoth v hn hd

/-- a NaN never compares equal, not even to its own copy: the double NaN goes through MessagePack unchanged (`norm` keeps
    it) and `norm v == v` is false. (In a document obtained from JSON a NaN needs the NaN option.) -/
theorem nan_not_equal (b : Nat) (h : SF.isNaN SF.b64 b = true) :
    C09.norm (.num (.f64 b)) = .num (.f64 b) ∧ Cmp.compare (C09.norm (.num (.f64 b))) (.num (.f64 b)) = .differ := by
  obtain ⟨e, d⟩ := num_cmp_nan64 b h
  refine ⟨by simp only [C09.norm, e], ?_⟩
  simp only [C09.norm]
  rw [compare_num_num]; exact d

/-! ## A3. the converse: (MessagePack ->) document -> JSON -> document -/

/-- **Document -> JSON -> document.** For every document `v` without raw values (a document read from MessagePack without
    bin/ext values, or built through the API) and without repeated keys, whose integers are 64-bit, whose floats are `±0` or
    finite with `1e-300 ≤ |x| ≤ 1e300`, whose strings and keys fit the string buffer and whose nesting fits the limit:
    `deserializeJson(serializeJson(v))` succeeds, consumes the whole text and yields `readBack cfg v`, which is
    * `CloseDoc` to `v`: same structure, order, keys, strings, booleans; integers exactly (a non-negative signed integer comes
      back unsigned); every float within the C12 bounds (`C07.CloseNum`);
    * and, when `v` has no float node: `readBack cfg v = normInt v`, and it compares EQUAL to `v` (`==` both ways). -/
theorem json_of_document (cfg : Cfg) (L : Nat) (v : Val) (hcfg : cfg.decodeUnicode = true)
    (h2 : RawFree v) (h5 : NoDupKeys v) (h3 : IntsInRange v) (hf : FloatsInRange v) (h4 : StrsWithin cfg.maxStrLen v)
    (hd : depth v ≤ L) :
    JD.run cfg L (JSer.compact cfg v) = (.ok, readBack cfg v, (JSer.compact cfg v).length) ∧
    CloseDoc v (readBack cfg v) ∧
    (NoFloat v → readBack cfg v = normInt v ∧
      Cmp.compare (readBack cfg v) v = .equal ∧ Cmp.compare v (readBack cfg v) = .equal ∧
      C18.vEq (readBack cfg v) v = true ∧ C18.vEq v (readBack cfg v) = true) := by
  have hfin : FiniteFloats v := AllV_mono finite_of_range (fun _ h => h) v hf
  have a := AllV_and v (AllV_and v h2 h3) hf
  refine ⟨json_roundtrip_finite cfg L v hcfg hfin h2 h3 h4 hd,
    closeDoc_readBack cfg v (AllV_mono (fun v h => ⟨h.1.1, h.1.2, h.2⟩) (fun _ _ => trivial) v a) h5, fun h1 => ?_⟩
  have e : readBack cfg v = normInt v := by
    rw [readBack_eq_normJ cfg v (good_of cfg v h1 h2 h3 h4), normJ_eq_normInt v h5]
  obtain ⟨c1, c2⟩ := normInt_eqBoth v (noNaN_of_noFloat v h1) (noDup_of_c07 v h5)
  rw [e]
  refine ⟨rfl, c1, c2, ?_, ?_⟩
  · simp only [C18.vEq, Cmp.variantOps, Cmp.opsRev, List.getD_cons_zero, c2]; rfl
  · simp only [C18.vEq, Cmp.variantOps, Cmp.opsRev, List.getD_cons_zero, c1]; rfl

/-- the value clause alone: the integer normalisation of the JSON round trip compares equal to the document, for every
    document without NaN and without repeated keys -/
theorem normInt_compares_equal (v : Val) (hn : NoNaN v) (hd : Cmp.NoDupKeys v) :
    Cmp.compare (normInt v) v = .equal ∧ Cmp.compare v (normInt v) = .equal := normInt_eqBoth v hn hd

mutual
theorem depth07_eq : ∀ v : Val, depth v = C15.depth v
  | .null => by simp [depth]
  | .bool _ => by simp [depth]
  | .num _ => by simp [depth]
  | .str _ => by simp [depth]
  | .raw _ => by simp [depth]
  | .arr xs => by rw [C15.depth_arr]; simp only [depth]; rw [depth07E_eq xs]
  | .obj ms => by rw [C15.depth_obj]; simp only [depth]; rw [depth07M_eq ms]
theorem depth07E_eq : ∀ xs : List Val, depthE xs = C15.depthList xs
  | [] => by simp [depthE]
  | x :: r => by simp only [depthE, C15.depthList]; rw [depth07_eq x, depth07E_eq r]
theorem depth07M_eq : ∀ ms : List (List Byte × Val), depthM ms = C15.depthMembers ms
  | [] => by simp [depthM]
  | (k, v) :: r => by simp only [depthM, C15.depthMembers]; rw [depth07_eq v, depth07M_eq r]
end

/-- **Every** value produced by the MessagePack deserializer model (any filter, any result code) has its integers within
    64 bits and its strings AND keys within the deserializer's string limit; with Ok it nests at most `L` deep.
    (Raw nodes — bin/ext — and repeated keys are possible: MessagePack maps are read member by member without a lookup.) -/
theorem msgpack_values (env : MD.Env) (L : Nat) (flt : Flt) (bytes : List Byte) :
    IntsInRange (MD.run env L flt bytes).2.1 ∧ StrsWithin env.maxStrLen (MD.run env L flt bytes).2.1 ∧
    ((MD.run env L flt bytes).1 = .ok → depth (MD.run env L flt bytes).2.1 ≤ L) := by
  have h := mp_run_ok env L flt bytes
  refine ⟨AllV_mono (fun _ h => h.1) (fun _ _ => trivial) _ h, AllV_mono (fun _ h => h.2) (fun _ h => h) _ h, fun hok => ?_⟩
  rw [depth07_eq]; exact C15.msgpack_ok_depth env L flt bytes hok

/-- **MessagePack -> document -> JSON -> document.** Let `v` be the document obtained with Ok from MessagePack bytes. If it
    holds no bin/ext value and no map with a repeated key, its floats are `±0` or finite within `1e±300`, the JSON side's
    string limit is at least the MessagePack one, its nesting limit at least `L` and `\u` decoding is on, then the JSON text of
    `v` is accepted, consumed entirely, and read back as `readBack cfg v`: `CloseDoc` to `v`, and — when `v` has no float —
    equal to `normInt v` and comparing EQUAL to `v`. The integer ranges, string limits and nesting depth that the JSON
    round trip needs are guaranteed by the MessagePack deserializer (`msgpack_values`). -/
theorem msgpack_to_json (env : MD.Env) (cfg : Cfg) (L L' : Nat) (bytes : List Byte) (hcfg : cfg.decodeUnicode = true)
    (hok : (MD.run env L .all bytes).1 = .ok) (hm : env.maxStrLen ≤ cfg.maxStrLen) (hL : L ≤ L')
    (h2 : RawFree (MD.run env L .all bytes).2.1) (h5 : NoDupKeys (MD.run env L .all bytes).2.1)
    (hf : FloatsInRange (MD.run env L .all bytes).2.1) :
    JD.run cfg L' (JSer.compact cfg (MD.run env L .all bytes).2.1) =
      (.ok, readBack cfg (MD.run env L .all bytes).2.1, (JSer.compact cfg (MD.run env L .all bytes).2.1).length) ∧
    CloseDoc (MD.run env L .all bytes).2.1 (readBack cfg (MD.run env L .all bytes).2.1) ∧
    (NoFloat (MD.run env L .all bytes).2.1 →
      Cmp.compare (readBack cfg (MD.run env L .all bytes).2.1) (MD.run env L .all bytes).2.1 = .equal ∧
      Cmp.compare (MD.run env L .all bytes).2.1 (readBack cfg (MD.run env L .all bytes).2.1) = .equal) := by
  obtain ⟨h3, h4, hd⟩ := msgpack_values env L .all bytes
  have h4' : StrsWithin cfg.maxStrLen (MD.run env L .all bytes).2.1 :=
    AllV_mono (fun v h => by cases v <;> first | trivial | exact Nat.le_trans h hm)
      (fun _ h => Nat.le_trans h hm) _ h4
  obtain ⟨a, b, c⟩ := json_of_document cfg L' _ hcfg h2 h5 h3 hf h4' (Nat.le_trans (hd hok) hL)
  exact ⟨a, b, fun hn => ⟨(c hn).2.1, (c hn).2.2.1⟩⟩

/-! ## the string limit applies to unquoted keys too -/

/-- `{abc:1}` read with a string limit of 2 bytes: NoMemory, like the quoted form `{"abc":1}` (an earlier version of the value-level
    model accepted the unquoted form; the library does not: the key goes through the string builder) -/
theorem unquoted_key_limited :
    (JD.run { maxStrLen := 2 } 10 [0x7B, 0x61, 0x62, 0x63, 0x3A, 0x31, 0x7D]).1 = .noMemory ∧
    (JD.run { maxStrLen := 2 } 10 [0x7B, 0x22, 0x61, 0x62, 0x63, 0x22, 0x3A, 0x31, 0x7D]).1 = .noMemory := by
  decide +kernel

/-! ## non-vacuity -/

/-- `[1,-2,2.5,"x",{"k":null},1e100,3.0]` -/
def crossText : List Byte :=
  [0x5B, 0x31, 0x2C, 0x2D, 0x32, 0x2C, 0x32, 0x2E, 0x35, 0x2C, 0x22, 0x78, 0x22, 0x2C, 0x7B, 0x22, 0x6B, 0x22, 0x3A,
   0x6E, 0x75, 0x6C, 0x6C, 0x7D, 0x2C, 0x31, 0x65, 0x31, 0x30, 0x30, 0x2C, 0x33, 0x2E, 0x30, 0x5D]

def crossDoc : Val :=
  .arr [.num (.uint 1), .num (.sint (-2)), .num (.f32 0x40200000), .str [0x78], .obj [([0x6B], .null)],
        .num (.f64 0x54B249AD2594C37D), .num (.f32 0x40400000)]

theorem crossRun : JD.run {} 2 crossText = (.ok, crossDoc, 35) := JD.result_eq (by decide +kernel)

/-- `cross_format` applies (default options on both sides, 2 levels): the MessagePack bytes of the document come
    back as `norm crossDoc` (the unsigned 1 is read back as the signed 1, the float 3.0 is written and read back as the
    integer 3, everything else is unchanged), and that compares equal to the document read from the JSON text -/
example : MD.run {} 2 .all (MD.ser crossDoc) = (.ok, C09.norm crossDoc, (MD.ser crossDoc).length) ∧
    Cmp.compare (C09.norm crossDoc) crossDoc = .equal ∧ C18.vEq crossDoc (C09.norm crossDoc) = true := by
  have h := cross_format {} {} 2 2 crossText (by rw [crossRun]) (Nat.le_refl _) (Nat.le_refl _) (by decide) []
  rw [crossRun, List.append_nil] at h
  have hn : NoNaN crossDoc := by
    simp only [crossDoc, NoNaN, NoNaNL, NoNaNM, NoNaNNum, and_true, true_and]
    decide +kernel
  exact ⟨h.1, (h.2 hn).1, (h.2 hn).2.2.2⟩

/-- `cross_format_default` applies to the same text: nothing but "the text is accepted and shorter than 2^32 bytes" is needed -/
example : Cmp.compare (C09.norm crossDoc) crossDoc = .equal := by
  have h := (cross_format_default 2 crossText (by rw [crossRun]) (by decide)).2.1
  rwa [crossRun] at h

/-- independent check by evaluation: `norm` is not the identity on this document, the comparison is by value -/
example : C09.norm crossDoc =
    .arr [.num (.sint 1), .num (.sint (-2)), .num (.f32 0x40200000), .str [0x78], .obj [([0x6B], .null)],
          .num (.f64 0x54B249AD2594C37D), .num (.sint 3)] := JD.Val.eqb_sound _ _ (by decide +kernel)
example : Cmp.compare (C09.norm crossDoc) crossDoc = .equal := by rw [C18.compare_eval]; decide +kernel

/-- `{abc:[1]}` (unquoted key) -/
def unqText : List Byte := [0x7B, 0x61, 0x62, 0x63, 0x3A, 0x5B, 0x31, 0x5D, 0x7D]
def unqDoc : Val := .obj [([0x61, 0x62, 0x63], .arr [.num (.uint 1)])]

theorem unqRun : JD.run { maxStrLen := 3 } 2 unqText = (.ok, unqDoc, 9) := JD.result_eq (by decide +kernel)

/-- `cross_format_no_nan_option` applies to a text with an UNQUOTED key, with the tightest limits on both sides (JSON string
    limit 3 = length of the key = MessagePack string limit): nothing about the keys has to be assumed -/
example : MD.run { maxStrLen := 3 } 2 .all (MD.ser unqDoc) = (.ok, C09.norm unqDoc, (MD.ser unqDoc).length) ∧
    Cmp.compare (C09.norm unqDoc) unqDoc = .equal := by
  have h := cross_format_no_nan_option { maxStrLen := 3 } { maxStrLen := 3 } 2 2 unqText rfl (by rw [unqRun])
    (Nat.le_refl _) (Nat.le_refl _) (by decide) []
  rw [unqRun, List.append_nil] at h
  exact ⟨h.1, h.2.1⟩

/-- `json_keys_within_limit` on a run that FAILS: `{ab:1,abcd:2}` with a string limit of 2 bytes answers NoMemory at the
    second key; the document built so far, `{"ab":1}`, only has keys within the limit -/
example : (JD.run { maxStrLen := 2 } 2 [0x7B, 0x61, 0x62, 0x3A, 0x31, 0x2C, 0x61, 0x62, 0x63, 0x64, 0x3A, 0x32, 0x7D]).1
      = .noMemory ∧
    (JD.run { maxStrLen := 2 } 2 [0x7B, 0x61, 0x62, 0x3A, 0x31, 0x2C, 0x61, 0x62, 0x63, 0x64, 0x3A, 0x32, 0x7D]).2.1
      = .obj [([0x61, 0x62], .num (.uint 1))] ∧
    KeysWithin 2 (JD.run { maxStrLen := 2 } 2 [0x7B, 0x61, 0x62, 0x3A, 0x31, 0x2C, 0x61, 0x62, 0x63, 0x64, 0x3A, 0x32, 0x7D]).2.1 :=
  ⟨by decide +kernel, JD.Val.eqb_sound _ _ (by decide +kernel), json_keys_within_limit { maxStrLen := 2 } 2 _⟩

/-- `nan_not_equal` applies to what the JSON deserializer reads from `NaN` with the NaN option -/
example : (JD.run { nan := true } 0 [0x4E, 0x61, 0x4E]).2.1 = .num (.f64 0x7FF8000000000000) ∧
    Cmp.compare (C09.norm (.num (.f64 0x7FF8000000000000))) (.num (.f64 0x7FF8000000000000)) = .differ :=
  ⟨JD.Val.eqb_sound _ _ (by decide +kernel), (nan_not_equal _ (by decide +kernel)).2⟩

/-- `json_of_document` applies to the float-free sample document of AJ/Props/C07.lean
    (`{"a":[1,-2,"x\n",null,true,5],"b":{"c":[]},"":false}`, the signed 5 comes back unsigned): the text is read back as a
    document that compares equal -/
example : Cmp.compare (JD.run {} 3 sampleText).2.1 sample = .equal := by
  obtain ⟨hrun, _, hnf⟩ := json_of_document {} 3 sample rfl
    (by simp [RawFree, sample, AllV, AllE, AllM, RawFreeS])
    (by simp [NoDupKeys, sample, NoDupE, NoDupM])
    (by simp [IntsInRange, sample, AllV, AllE, AllM, IntOkS])
    (by simp [FloatsInRange, sample, AllV, AllE, AllM, FloatRangeS])
    (by simp [StrsWithin, sample, AllV, AllE, AllM, StrOkS])
    (by simp [sample, depth, depthE, depthM])
  rw [sample_text] at hrun
  rw [hrun]
  exact (hnf (by simp [NoFloat, sample, AllV, AllE, AllM, FloatFreeS])).2.1

/-- `msgpack_to_json` applies: the MessagePack bytes `92 01 A1 78` (`[1,"x"]`) read with limit 1, written as JSON
    (`[1,"x"]`) and read back: the result compares equal to the MessagePack document -/
example : Cmp.compare (JD.run {} 1 (JSer.compact {} (MD.run {} 1 .all [0x92, 0x01, 0xA1, 0x78]).2.1)).2.1
    (MD.run {} 1 .all [0x92, 0x01, 0xA1, 0x78]).2.1 = .equal := by
  have hv : MD.run {} 1 .all [0x92, 0x01, 0xA1, 0x78] = (.ok, .arr [.num (.sint 1), .str [0x78]], 4) :=
    JD.result_eq (by decide +kernel)
  obtain ⟨hrun, _, hc⟩ := msgpack_to_json {} {} 1 1 [0x92, 0x01, 0xA1, 0x78] rfl (by rw [hv]) (Nat.le_refl _) (Nat.le_refl _)
    (by rw [hv]; simp [RawFree, AllV, AllE, RawFreeS])
    (by rw [hv]; simp [NoDupKeys, NoDupE])
    (by rw [hv]; simp [FloatsInRange, AllV, AllE, FloatRangeS])
  rw [hrun]
  exact (hc (by rw [hv]; simp [NoFloat, AllV, AllE, FloatFreeS])).1

end C07
