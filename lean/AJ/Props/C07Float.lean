/- C07, the floating-point clause: "deserializeJson(serializeJson(d)) yields a document equivalent to d (structure, order, strings
   and integers exact; floating-point values within C12 through JSON)".

   `C07.json_roundtrip_all` (AJ/Props/C07.lean) reads the text back as `readBack cfg v`, where a float node denotes "what
   `parseNumber` makes of its own text". This file says what that is, as a VALUE, composing the two halves of C12
   (print: AJ/Props/C12Print.lean; parse: AJ/Props/C12.lean) through AJ/Lemmas/FloatRound.lean:

   * `float_through_json`   : a finite non-zero binary64 `x`, `1e-300 ≤ |x| ≤ 1e300`, printed (9 places) and parsed, is a number
                              `y` of the same sign with `|y − x| ≤ 1e-9·max(1,|x|) + 1e-6·|x|`; when the parser does not choose
                              binary32, `|y − x| ≤ 1e-9·max(1,|x|)`. THE `1e-6` TERM IS REAL: a text with at most seven significant
                              digits is parsed in binary32 arithmetic (`double_via_float_witness`: 4.823015e37 comes back
                              2.1e-7·|x| away; 0.1 comes back as 0.1f, 1.49e-9 away).
   * `float32_through_json` : a finite non-zero binary32 `x` (printed with 6 places): `|y − x| ≤ 1e-6·max(1,|x|) + 1e-6·|x|`.
   * `float_through_json_long` : texts whose digits write a number above 8388607 keep `1e-9·max(1,|x|)`.
   * `float_kind`           : the kind of the result: integer iff the text has neither fraction nor exponent; binary32 only
                              for texts whose digits write a number `≤ 2^23 − 1`.
   * `integral_double_back` : a double (or float) whose value is an integer `1 ≤ N < 10^7` prints as the digits of `N` and comes
                              back as the INTEGER `N` (unsigned), `−N` as the signed integer `−N`; `±0` comes back as unsigned 0.
   * `json_roundtrip_floats_close` : documents: `CloseDoc v v'`. -/
import AJ.Props.C07
import AJ.Lemmas.FloatRound
namespace C07
open SF JD JS JSer Digits Spec.Json C12

/-! ## 1. one number through JSON -/

theorem lit_ne_null (n : Bool) {ip : List Byte} (f ex : List Byte) (hip : AllDigits ip) (hne : ip ≠ []) :
    (if n then [0x2D] else []) ++ ip ++ f ++ ex ≠ nullText := by
  intro hc
  cases n
  · cases ip with
    | nil => exact hne rfl
    | cons c t =>
      simp only [Bool.false_eq_true, if_false, List.nil_append, List.cons_append, nullText] at hc
      have := (List.cons.inj hc).1
      subst this
      exact absurd (AllDigits_cons.mp hip).1 (by decide)
  · simp only [if_true, List.cons_append, List.nil_append, nullText] at hc
    exact absurd (List.cons.inj hc).1 (by decide)

/-- PRINT THEN PARSE, as values. For a finite non-zero binary64 datum `x = ±a` with `2^-997 ≤ a ≤ 2^997` printed with
    `6 ≤ places ≤ 9` places: `parseNumber` returns a number of exact value `y`, the deserializer stores a number of the same
    value `y` (`numValue`: a binary64 result is narrowed to binary32 when that is exact), `y` has the sign of `x`, and
    `|y − x| ≤ 10^-places·max(1,|x|) + 1e-6·|x|` — without the second term unless `parseNumber` returns a binary32 -/
theorem through_value (cfg : Cfg) (b : Nat) (n : Bool) (m : Nat) (e : Int) (h : decode b64 b = .fin n m e) (hm : m ≠ 0)
    (places : Nat) (hp6 : 6 ≤ places) (hp9 : places ≤ 9)
    (hlo : (2 : ℚ) ^ (-997 : Int) ≤ qv m e) (hhi : qv m e ≤ (2 : ℚ) ^ (997 : Int)) :
    ∃ y : ℚ, pnumQ (parseNumber cfg (writeFloat cfg b places)) = some y ∧
      valQ (numValue cfg (writeFloat cfg b places)) = some y ∧
      writeFloat cfg b places ≠ nullText ∧
      (∃ a : ℚ, 0 < a ∧ y = (if n then -1 else 1) * a) ∧
      |y - sval n m e| ≤ 1 / 10 ^ places * max 1 |sval n m e| + 1 / 10 ^ 6 * |sval n m e| ∧
      ((∀ bits, parseNumber cfg (writeFloat cfg b places) ≠ .f32 bits) →
        |y - sval n m e| ≤ 1 / 10 ^ places * max 1 |sval n m e|) := by
  obtain ⟨ip, f, ex, hw, _, hip, hne, hf, he, htv, hcl, hTlo, _, hres⟩ := through_core cfg b n m e h hm places hp6 hp9 hlo hhi
  have hnn : writeFloat cfg b places ≠ nullText := by rw [hw]; exact lit_ne_null n f ex hip hne
  have hN9 : (10 : ℚ) ^ places ≤ (10 : ℚ) ^ 9 := pow_le_pow_right₀ (by norm_num) hp9
  have hNpos : (0 : ℚ) < (10 : ℚ) ^ places := by positivity
  have hxpos : 0 < |sval n m e| := by rw [abs_sval]; exact qv_pos hm e
  have hXM : |sval n m e| ≤ max 1 |sval n m e| := le_max_right _ _
  have hM1 : 1 ≤ max 1 |sval n m e| := le_max_left _ _
  have hTX : |litVal n ip f ex| ≤ |sval n m e| + |litVal n ip f ex - sval n m e| := by
    have : litVal n ip f ex = sval n m e + (litVal n ip f ex - sval n m e) := by ring
    calc |litVal n ip f ex| = |sval n m e + (litVal n ip f ex - sval n m e)| := by rw [← this]
      _ ≤ _ := abs_add_le _ _
  have hQ : max 1 |sval n m e| / (10 : ℚ) ^ places = 1 / 10 ^ places * max 1 |sval n m e| := by ring
  have hQ0 : 0 ≤ max 1 |sval n m e| / (10 : ℚ) ^ places := by positivity
  have hXQ : 1 / 10 ^ 13 * |sval n m e| ≤ 1 / 10 ^ 4 * (max 1 |sval n m e| / (10 : ℚ) ^ places) := by
    have h1 : max 1 |sval n m e| / (10 : ℚ) ^ 9 ≤ max 1 |sval n m e| / (10 : ℚ) ^ places :=
      div_le_div_of_nonneg_left (by linarith) hNpos hN9
    have h2 : 1 / 10 ^ 13 * max 1 |sval n m e| = 1 / 10 ^ 4 * (max 1 |sval n m e| / (10 : ℚ) ^ 9) := by ring
    have h3 : 1 / 10 ^ 13 * |sval n m e| ≤ 1 / 10 ^ 13 * max 1 |sval n m e| := mul_le_mul_of_nonneg_left hXM (by norm_num)
    linarith
  -- the arithmetic, with the text value `T`, the datum `x`, `Q = max 1 |x| / 10^places`
  have arith : ∀ (y δ : ℚ), |y - litVal n ip f ex| ≤ δ * |litVal n ip f ex| → 0 ≤ δ → δ ≤ 1 →
      |y - sval n m e| ≤ (51 / 100 * (1 + δ)) * (max 1 |sval n m e| / (10 : ℚ) ^ places) + δ * |sval n m e| := by
    intro y δ hy hδ hδ1
    have h1 : |y - sval n m e| ≤ |y - litVal n ip f ex| + |litVal n ip f ex - sval n m e| := by
      have : y - sval n m e = (y - litVal n ip f ex) + (litVal n ip f ex - sval n m e) := by ring
      rw [this]; exact abs_add_le _ _
    have h2 : δ * |litVal n ip f ex| ≤ δ * (|sval n m e| + |litVal n ip f ex - sval n m e|) :=
      mul_le_mul_of_nonneg_left hTX hδ
    have h3 : δ * |litVal n ip f ex - sval n m e| ≤ δ * (51 / 100 * (max 1 |sval n m e| / (10 : ℚ) ^ places)) :=
      mul_le_mul_of_nonneg_left hcl hδ
    generalize |litVal n ip f ex - sval n m e| = D at *
    generalize max 1 |sval n m e| / (10 : ℚ) ^ places = Q at *
    generalize |sval n m e| = X at *
    generalize |litVal n ip f ex| = T at *
    generalize |y - sval n m e| = G at *
    generalize |y - T| = G2 at *
    nlinarith
  have hTpos : 0 < |litVal n ip f ex| := by linarith
  rw [← hQ]
  rcases hres with ⟨h1, h2, hk, hv⟩ | ⟨bits, m', e', hb, hd, hm', hc⟩ | ⟨bits, m', e', hb, hd, hm', hc, _⟩
  · -- an integer literal: exactly the value of the text
    have hy := arith (litVal n ip f ex) 0 (by simp) (le_refl _) (by norm_num)
    have hapos : (0 : ℚ) < (Digits.decVal ip : ℚ) := by
      rw [hv] at hTpos
      have h0 : (0 : ℚ) ≤ (Digits.decVal ip : ℚ) := Nat.cast_nonneg _
      rcases lt_or_eq_of_le h0 with h | h
      · exact h
      · rw [← h] at hTpos; simp at hTpos
    refine ⟨litVal n ip f ex, ?_, ?_, hnn, ⟨_, hapos, hv⟩, by linarith, fun _ => by linarith⟩
    · rcases hk with ⟨hn, hp⟩ | ⟨hn, hp⟩
      · rw [hp, hv, hn]; simp [pnumQ]
      · rw [hp, hv, hn]; simp [pnumQ]
    · rcases hk with ⟨hn, hp⟩ | ⟨hn, hp⟩
      · simp only [numValue, hp, valQ, numQ]; rw [hv, hn]; simp
      · simp only [numValue, hp, valQ, numQ]; rw [hv, hn]; simp
  · -- a binary64 result, stored exactly (possibly narrowed)
    have hy := arith (sval n m' e') (1 / 10 ^ 13) hc (by norm_num) (by norm_num)
    refine ⟨sval n m' e', ?_, ?_, hnn, ⟨qv m' e', qv_pos hm' e', rfl⟩, ?_, fun _ => ?_⟩
    · rw [hb]; exact fpQ_fin hd
    · simp only [numValue, hb, valQ]; exact storeDouble_value bits n m' e' hd hm'
    · nlinarith
    · nlinarith
  · -- a binary32 result
    have hy := arith (sval n m' e') (1 / 10 ^ 6) hc (by norm_num) (by norm_num)
    refine ⟨sval n m' e', ?_, ?_, hnn, ⟨qv m' e', qv_pos hm' e', rfl⟩, ?_, fun hno => absurd hb (hno bits)⟩
    · rw [hb]; exact fpQ_fin hd
    · simp only [numValue, hb, valQ, numQ]; exact fpQ_fin hd
    · nlinarith

theorem big_num_13 : (10 : ℚ) ^ (300 : Int) ≤ (2 : ℚ) ^ (997 : Int) := by
  have : (10 ^ 300 : Nat) ≤ 2 ^ 997 := by decide +kernel
  have h : ((10 ^ 300 : Nat) : ℚ) ≤ ((2 ^ 997 : Nat) : ℚ) := by exact_mod_cast this
  rw [show (997 : Int) = ((997 : Nat) : Int) from rfl, show (300 : Int) = ((300 : Nat) : Int) from rfl,
    zpow_natCast, zpow_natCast]
  push_cast at h; exact h

theorem big_num_14 : (2 : ℚ) ^ (-997 : Int) ≤ (10 : ℚ) ^ (-300 : Int) := by
  have h := big_num_13
  rw [show (997 : Int) = ((997 : Nat) : Int) from rfl, show (300 : Int) = ((300 : Nat) : Int) from rfl,
    zpow_natCast, zpow_natCast] at h
  rw [show (-300 : Int) = -((300 : Nat) : Int) from rfl, show (-997 : Int) = -((997 : Nat) : Int) from rfl,
    zpow_neg, zpow_neg, zpow_natCast, zpow_natCast]
  exact inv_anti₀ (by positivity) h

/-- **A double through JSON.** For every finite binary64 datum `x` with `1e-300 ≤ |x| ≤ 1e300`: the text
    `t = serialize(x)` (9 decimal places) is read by `parseNumber` as a number of exact value `y`; the deserializer stores a number
    of that same value (`numBack`); `y` has the sign of `x`; and
        `|y − x| ≤ 1e-9·max(1,|x|) + 1e-6·|x|`.
    Unless `parseNumber` returns a binary32 pattern (it does so only for texts of at most seven significant digits, see
    `float_kind`), `|y − x| ≤ 1e-9·max(1,|x|)`. -/
theorem float_through_json (cfg : Cfg) (b : Nat) (n : Bool) (m : Nat) (e : Int) (h : decode b64 b = .fin n m e)
    (hlo : (10 : ℚ) ^ (-300 : Int) ≤ |sval n m e|) (hhi : |sval n m e| ≤ (10 : ℚ) ^ (300 : Int)) :
    ∃ y : ℚ, pnumQ (parseNumber cfg (printNum cfg (.f64 b))) = some y ∧
      valQ (numBack cfg (.f64 b)) = some y ∧
      (∃ a : ℚ, 0 < a ∧ y = (if n then -1 else 1) * a) ∧
      |y - sval n m e| ≤ 1 / 10 ^ 9 * max 1 |sval n m e| + 1 / 10 ^ 6 * |sval n m e| ∧
      ((∀ bits, parseNumber cfg (printNum cfg (.f64 b)) ≠ .f32 bits) →
        |y - sval n m e| ≤ 1 / 10 ^ 9 * max 1 |sval n m e|) := by
  rw [abs_sval] at hlo hhi
  have hm : m ≠ 0 := by
    rintro rfl
    have h0 : qv 0 e = 0 := by unfold qv; simp
    rw [h0] at hlo
    exact absurd (lt_of_lt_of_le (ten_zpow_pos (-300)) hlo) (lt_irrefl _)
  obtain ⟨y, h1, h2, hnn, h3, h4, h5⟩ := through_value cfg b n m e h hm 9 (by decide) (by decide)
    (le_trans big_num_14 hlo) (le_trans hhi big_num_13)
  refine ⟨y, h1, ?_, h3, h4, h5⟩
  have hp : printNum cfg (.f64 b) = writeFloat cfg b 9 := rfl
  simp only [numBack, hp, hnn, if_false]
  exact h2

/-- **A float through JSON.** For EVERY finite non-zero binary32 datum `x` (widened exactly to binary64 and printed with 6 decimal
    places): the text is read as a number of exact value `y` of the sign of `x`, stored with that value, and
        `|y − x| ≤ 1e-6·max(1,|x|) + 1e-6·|x|`;
    unless `parseNumber` returns a binary32 pattern, `|y − x| ≤ 1e-6·max(1,|x|)`. -/
theorem float32_through_json (cfg : Cfg) (b : Nat) (n : Bool) (m : Nat) (e : Int) (h : decode b32 b = .fin n m e) (hm : m ≠ 0) :
    ∃ y : ℚ, pnumQ (parseNumber cfg (printNum cfg (.f32 b))) = some y ∧
      valQ (numBack cfg (.f32 b)) = some y ∧
      (∃ a : ℚ, 0 < a ∧ y = (if n then -1 else 1) * a) ∧
      |y - sval n m e| ≤ 1 / 10 ^ 6 * max 1 |sval n m e| + 1 / 10 ^ 6 * |sval n m e| ∧
      ((∀ bits, parseNumber cfg (printNum cfg (.f32 b)) ≠ .f32 bits) →
        |y - sval n m e| ≤ 1 / 10 ^ 6 * max 1 |sval n m e|) := by
  obtain ⟨m', e', hd, hle, hmm⟩ := Conv.cvt_32_64_exact b n m e h
  have hq : qv m' e' = qv m e := by rw [hmm]; exact qv_scaled m e e' hle
  have hm' : m' ≠ 0 := by
    rw [hmm]; exact Nat.mul_ne_zero hm (Nat.pos_iff_ne_zero.mp (Nat.two_pow_pos _))
  have hs : sval n m' e' = sval n m e := by unfold sval; rw [hq]
  have hbot := fin_ge_bot b32 b n m e h hm
  have htop := fin_lt_top b32 b n m e h (by decide)
  rw [show emin b32 = -149 from by decide] at hbot
  rw [show (b32.emax : Int) - b32.bias = 128 from by decide] at htop
  have hlo : (2 : ℚ) ^ (-997 : Int) ≤ qv m' e' := by
    rw [hq]; exact le_trans (zpow_le_zpow_right₀ (by norm_num) (by norm_num)) hbot
  have hhi : qv m' e' ≤ (2 : ℚ) ^ (997 : Int) := by
    rw [hq]; exact le_trans htop.le (zpow_le_zpow_right₀ (by norm_num) (by norm_num))
  obtain ⟨y, h1, h2, hnn, h3, h4, h5⟩ := through_value cfg (cvt b32 b64 b) n m' e' hd hm' 6 (by decide) (by decide) hlo hhi
  rw [hs] at h4 h5
  refine ⟨y, h1, ?_, h3, h4, h5⟩
  have hp : printNum cfg (.f32 b) = writeFloat cfg (cvt b32 b64 b) 6 := rfl
  simp only [numBack, hp, hnn, if_false]
  exact h2

/-! ## 2. the kind of the value read back; integral values; zero -/

theorem parse_digits (cfg : Cfg) (I : Nat) (hI : I < 2 ^ 64) (n : Bool) (hI' : I ≤ 2 ^ 63) :
    parseNumber cfg ((if n then [0x2D] else []) ++ digits I) = (if n then PNum.sint (-(I : Int)) else PNum.uint I) := by
  cases n
  · simp only [Bool.false_eq_true, if_false, List.nil_append]
    exact int_roundtrip cfg I hI
  · simp only [if_true, List.singleton_append]
    have := sint_parse' cfg I 0 hI'
    rwa [List.replicate_zero, List.nil_append] at this

/-- THE KIND OF THE RESULT, generic in the number of places -/
theorem kind_core (cfg : Cfg) (b : Nat) (n : Bool) (m : Nat) (e : Int) (h : decode b64 b = .fin n m e) (hm : m ≠ 0)
    (places : Nat) (hp6 : 6 ≤ places) (hp9 : places ≤ 9)
    (hlo : (2 : ℚ) ^ (-997 : Int) ≤ qv m e) (hhi : qv m e ≤ (2 : ℚ) ^ (997 : Int)) :
    ∃ (ip f ex : List Byte), writeFloat cfg b places = (if n then [0x2D] else []) ++ ip ++ f ++ ex ∧
      AllDigits ip ∧ ip ≠ [] ∧ FracPart f ∧ ExpPart ex ∧
      ((f = [] ∧ ex = []) ↔ ((∃ k, parseNumber cfg (writeFloat cfg b places) = .uint k) ∨
                              (∃ i, parseNumber cfg (writeFloat cfg b places) = .sint i))) ∧
      (∀ bits, parseNumber cfg (writeFloat cfg b places) = .f32 bits → Digits.decVal (ip ++ f.tail) ≤ 8388607) := by
  obtain ⟨ip, f, ex, hw, ⟨I, hI, hipI⟩, hip, hne, hf, he, _, _, _, _, hres⟩ :=
    through_core cfg b n m e h hm places hp6 hp9 hlo hhi
  refine ⟨ip, f, ex, hw, hip, hne, hf, he, ⟨?_, ?_⟩, ?_⟩
  · rintro ⟨rfl, rfl⟩
    rw [hw, hipI]
    simp only [List.append_nil]
    rw [parse_digits cfg I (lt_trans hI (by decide)) n (le_trans hI.le (by decide))]
    cases n
    · exact Or.inl ⟨I, rfl⟩
    · exact Or.inr ⟨_, rfl⟩
  · intro hk
    rcases hres with ⟨h1, h2, _⟩ | ⟨bits, _, _, hb, _⟩ | ⟨bits, _, _, hb, _⟩
    · exact ⟨h1, h2⟩
    · rcases hk with ⟨k, hk⟩ | ⟨k, hk⟩ <;> · rw [hb] at hk; cases hk
    · rcases hk with ⟨k, hk⟩ | ⟨k, hk⟩ <;> · rw [hb] at hk; cases hk
  · intro bits hb
    rcases hres with ⟨_, _, hk, _⟩ | ⟨bits', _, _, hb', _⟩ | ⟨bits', _, _, hb', _, _, _, hd⟩
    · rcases hk with ⟨_, hk⟩ | ⟨_, hk⟩ <;> · rw [hb] at hk; cases hk
    · rw [hb] at hb'; cases hb'
    · exact hd

/-- **The kind of the value read back for a double.** The text of a finite binary64 datum, `1e-300 ≤ |x| ≤ 1e300`, is an RFC
    literal `-? ip f ex`; it is read back as an INTEGER (unsigned without sign, signed with a sign) exactly when it has neither
    fraction nor exponent; and it is read back as a binary32 only if its digits write a number `≤ 2^23 − 1 = 8388607`
    (at most seven significant digits) — otherwise as a binary64 (which the store narrows to binary32 only when that is exact). -/
theorem float_kind (cfg : Cfg) (b : Nat) (n : Bool) (m : Nat) (e : Int) (h : decode b64 b = .fin n m e)
    (hlo : (10 : ℚ) ^ (-300 : Int) ≤ |sval n m e|) (hhi : |sval n m e| ≤ (10 : ℚ) ^ (300 : Int)) :
    ∃ (ip f ex : List Byte), printNum cfg (.f64 b) = (if n then [0x2D] else []) ++ ip ++ f ++ ex ∧
      AllDigits ip ∧ ip ≠ [] ∧ FracPart f ∧ ExpPart ex ∧
      ((f = [] ∧ ex = []) ↔ ((∃ k, parseNumber cfg (printNum cfg (.f64 b)) = .uint k) ∨
                              (∃ i, parseNumber cfg (printNum cfg (.f64 b)) = .sint i))) ∧
      (∀ bits, parseNumber cfg (printNum cfg (.f64 b)) = .f32 bits → Digits.decVal (ip ++ f.tail) ≤ 8388607) := by
  rw [abs_sval] at hlo hhi
  have hm : m ≠ 0 := by
    rintro rfl
    have h0 : qv 0 e = 0 := by unfold qv; simp
    rw [h0] at hlo
    exact absurd (lt_of_lt_of_le (ten_zpow_pos (-300)) hlo) (lt_irrefl _)
  exact kind_core cfg b n m e h hm 9 (by decide) (by decide) (le_trans big_num_14 hlo) (le_trans hhi big_num_13)

/-- **Long texts keep the printing precision.** If the digits of the text write a number above `2^23 − 1 = 8388607` (in particular
    if the text has eight or more significant digits) the value read back is within `1e-9·max(1,|x|)` of the double `x` -/
theorem float_through_json_long (cfg : Cfg) (b : Nat) (n : Bool) (m : Nat) (e : Int) (h : decode b64 b = .fin n m e)
    (hlo : (10 : ℚ) ^ (-300 : Int) ≤ |sval n m e|) (hhi : |sval n m e| ≤ (10 : ℚ) ^ (300 : Int)) :
    ∃ (ip f ex : List Byte), printNum cfg (.f64 b) = (if n then [0x2D] else []) ++ ip ++ f ++ ex ∧
      AllDigits ip ∧ ip ≠ [] ∧ FracPart f ∧ ExpPart ex ∧
      (8388607 < Digits.decVal (ip ++ f.tail) →
        ∃ y : ℚ, valQ (numBack cfg (.f64 b)) = some y ∧ |y - sval n m e| ≤ 1 / 10 ^ 9 * max 1 |sval n m e|) := by
  obtain ⟨ip, f, ex, hw, hip, hne, hf, he, _, hshort⟩ := float_kind cfg b n m e h hlo hhi
  obtain ⟨y, _, h2, _, _, h5⟩ := float_through_json cfg b n m e h hlo hhi
  refine ⟨ip, f, ex, hw, hip, hne, hf, he, fun hlong => ⟨y, h2, h5 (fun bits hb => ?_)⟩⟩
  have := hshort bits hb
  omega

theorem digits_ne_null (n : Bool) (N : Nat) : (if n then [0x2D] else []) ++ digits N ≠ nullText := by
  have := lit_ne_null n [] [] (digits_spec N).1 (digits_spec N).2.2.1
  simpa using this

/-- **Integral values change kind.** A finite binary64 datum whose value is `±N` for an integer `1 ≤ N < 10^7` prints as the
    digits of `N` (no point, no exponent) and is read back as the INTEGER of that value: unsigned `N`, or signed `−N`.
    (From `1e7` on the text has an exponent and the value comes back as a float or double, see the examples.) -/
theorem integral_double_back (cfg : Cfg) (b : Nat) (n : Bool) (m : Nat) (e : Int) (h : decode b64 b = .fin n m e)
    (N : Nat) (hN1 : 1 ≤ N) (hN7 : N < 10 ^ 7) (hv : qv m e = (N : ℚ)) :
    printNum cfg (.f64 b) = (if n then [0x2D] else []) ++ digits N ∧
    parseNumber cfg (printNum cfg (.f64 b)) = (if n then PNum.sint (-(N : Int)) else PNum.uint N) ∧
    numBack cfg (.f64 b) = .num (if n then .sint (-(N : Int)) else .uint N) := by
  have hp : printNum cfg (.f64 b) = (if n then [0x2D] else []) ++ digits N :=
    writeFloat_integer cfg b n m e h N hN1 hN7 hv 9 (by decide) (by decide)
  have hN64 : N < 2 ^ 64 := lt_trans hN7 (by decide)
  have hN63 : N ≤ 2 ^ 63 := le_trans hN7.le (by decide)
  refine ⟨hp, by rw [hp]; exact parse_digits cfg N hN64 n hN63, ?_⟩
  simp only [numBack, hp, digits_ne_null, if_false, numValue, parse_digits cfg N hN64 n hN63]
  cases n <;> rfl

/-- the same for a stored binary32 -/
theorem integral_float_back (cfg : Cfg) (b : Nat) (n : Bool) (m : Nat) (e : Int) (h : decode b32 b = .fin n m e)
    (N : Nat) (hN1 : 1 ≤ N) (hN7 : N < 10 ^ 7) (hv : qv m e = (N : ℚ)) :
    printNum cfg (.f32 b) = (if n then [0x2D] else []) ++ digits N ∧
    parseNumber cfg (printNum cfg (.f32 b)) = (if n then PNum.sint (-(N : Int)) else PNum.uint N) ∧
    numBack cfg (.f32 b) = .num (if n then .sint (-(N : Int)) else .uint N) := by
  obtain ⟨m', e', hd, hle, hmm⟩ := Conv.cvt_32_64_exact b n m e h
  have hq : qv m' e' = qv m e := by rw [hmm]; exact qv_scaled m e e' hle
  have hp : printNum cfg (.f32 b) = (if n then [0x2D] else []) ++ digits N :=
    writeFloat_integer cfg (cvt b32 b64 b) n m' e' hd N hN1 hN7 (by rw [hq]; exact hv) 6 (by decide) (by decide)
  have hN64 : N < 2 ^ 64 := lt_trans hN7 (by decide)
  have hN63 : N ≤ 2 ^ 63 := le_trans hN7.le (by decide)
  refine ⟨hp, by rw [hp]; exact parse_digits cfg N hN64 n hN63, ?_⟩
  simp only [numBack, hp, digits_ne_null, if_false, numValue, parse_digits cfg N hN64 n hN63]
  cases n <;> rfl

/-- **Zero.** `+0` and `−0`, stored as double or float, print as `0` and come back as the unsigned integer 0 (the sign of a
    negative zero and the floating-point kind are lost) -/
theorem zero_back (cfg : Cfg) :
    numBack cfg (.f64 0) = .num (.uint 0) ∧ numBack cfg (.f64 (2 ^ 63)) = .num (.uint 0) ∧
    numBack cfg (.f32 0) = .num (.uint 0) ∧ numBack cfg (.f32 (2 ^ 31)) = .num (.uint 0) := by
  obtain ⟨p1, p2, p3, p4⟩ := print_zero cfg
  have hz : parseNumber cfg [0x30] = .uint 0 := by
    have := uint_parse cfg 0 0 (by decide)
    rwa [show List.replicate 0 (0x30 : UInt8) ++ JS.digits 0 = [0x30] from by decide +kernel] at this
  have hn : ([0x30] : List Byte) ≠ nullText := by decide
  refine ⟨?_, ?_, ?_, ?_⟩ <;> simp only [numBack, p1, p2, p3, p4, hn, if_false, numValue, hz]

/-! ## 3. documents -/

/-- a number node `n` and the number `r` read back for it: integers exactly (a non-negative signed integer comes back unsigned);
    a finite float as a number of exact value `y` of the same sign (zero iff zero) within the bound of `float_through_json`
    (binary64, 9 places) resp. `float32_through_json` (binary32, 6 places) of the exact value `x` of the node -/
def CloseNum : Num → Num → Prop
  | .uint k, r => r = .uint k
  | .sint i, r => r = (if 0 ≤ i then .uint i.toNat else .sint i)
  | .f64 b, r => ∃ x y : ℚ, fpQ b64 b = some x ∧ numQ r = some y ∧ (x = 0 ↔ y = 0) ∧ 0 ≤ x * y ∧
      |y - x| ≤ 1 / 10 ^ 9 * max 1 |x| + 1 / 10 ^ 6 * |x|
  | .f32 b, r => ∃ x y : ℚ, fpQ b32 b = some x ∧ numQ r = some y ∧ (x = 0 ↔ y = 0) ∧ 0 ≤ x * y ∧
      |y - x| ≤ 1 / 10 ^ 6 * max 1 |x| + 1 / 10 ^ 6 * |x|

/- documents equal up to the numbers: same structure, same order, same keys, same strings and booleans, numbers `CloseNum` -/
mutual
inductive CloseDoc : Val → Val → Prop
  | null : CloseDoc .null .null
  | bool (b : Bool) : CloseDoc (.bool b) (.bool b)
  | str (s : List Byte) : CloseDoc (.str s) (.str s)
  | num {n r : Num} : CloseNum n r → CloseDoc (.num n) (.num r)
  | arr {xs ys : List Val} : CloseE xs ys → CloseDoc (.arr xs) (.arr ys)
  | obj {ms ns : List (List Byte × Val)} : CloseM ms ns → CloseDoc (.obj ms) (.obj ns)
inductive CloseE : List Val → List Val → Prop
  | nil : CloseE [] []
  | cons {x y : Val} {xs ys : List Val} : CloseDoc x y → CloseE xs ys → CloseE (x :: xs) (y :: ys)
inductive CloseM : List (List Byte × Val) → List (List Byte × Val) → Prop
  | nil : CloseM [] []
  | cons (k : List Byte) {v w : Val} {ms ns : List (List Byte × Val)} : CloseDoc v w → CloseM ms ns →
      CloseM ((k, v) :: ms) ((k, w) :: ns)
end

/-- the floats of the document: `±0`, or finite non-zero with `1e-300 ≤ |x| ≤ 1e300` (every finite non-zero binary32 is) -/
def FloatRangeS : Val → Prop
  | .num (.f64 b) => b = 0 ∨ b = 2 ^ 63 ∨
      ∃ n m e, decode b64 b = .fin n m e ∧ (10 : ℚ) ^ (-300 : Int) ≤ |sval n m e| ∧ |sval n m e| ≤ (10 : ℚ) ^ (300 : Int)
  | .num (.f32 b) => b = 0 ∨ b = 2 ^ 31 ∨ ∃ n m e, decode b32 b = .fin n m e ∧ m ≠ 0
  | _ => True
def FloatsInRange (v : Val) : Prop := AllV FloatRangeS (fun _ => True) v

theorem valQ_some {v : Val} {y : ℚ} (h : valQ v = some y) : ∃ r, v = .num r ∧ numQ r = some y := by
  cases v with
  | num r => exact ⟨r, rfl, h⟩
  | _ => cases h

theorem sign_facts (n : Bool) (q a : ℚ) (hq : 0 < q) (ha : 0 < a) :
    ((if n then (-1 : ℚ) else 1) * q = 0 ↔ (if n then (-1 : ℚ) else 1) * a = 0) ∧
    0 ≤ (if n then (-1 : ℚ) else 1) * q * ((if n then (-1 : ℚ) else 1) * a) := by
  cases n
  · simp only [Bool.false_eq_true, if_false, one_mul]
    exact ⟨⟨fun h => absurd h hq.ne', fun h => absurd h ha.ne'⟩, by positivity⟩
  · simp only [if_true]
    refine ⟨⟨fun h => ?_, fun h => ?_⟩, by nlinarith⟩
    · exfalso; linarith
    · exfalso; linarith

/-- a number node within the hypotheses is read back as a number node, `CloseNum` to it -/
theorem closeNum_numBack (cfg : Cfg) (n : Num) (hi : IntOkS (.num n)) (hf : FloatRangeS (.num n)) :
    ∃ r, numBack cfg n = .num r ∧ CloseNum n r := by
  have z64 : fpQ b64 0 = some 0 := by
    rw [fpQ_fin (decode_zero b64 (by decide))]; simp [sval, qv]
  have z64' : fpQ b64 (2 ^ 63) = some 0 := by
    rw [fpQ_fin (show decode b64 (2 ^ 63) = .fin true 0 (-1074) from by decide +kernel)]; simp [sval, qv]
  have z32 : fpQ b32 0 = some 0 := by
    rw [fpQ_fin (decode_zero b32 (by decide))]; simp [sval, qv]
  have z32' : fpQ b32 (2 ^ 31) = some 0 := by
    rw [fpQ_fin (show decode b32 (2 ^ 31) = .fin true 0 (-149) from by decide +kernel)]; simp [sval, qv]
  obtain ⟨zb1, zb2, zb3, zb4⟩ := zero_back cfg
  cases n with
  | uint k =>
    refine ⟨.uint k, ?_, rfl⟩
    rw [(int_readable cfg (.uint k) ⟨trivial, trivial, hi, trivial⟩).2]; simp only [normJ]
  | sint i =>
    refine ⟨if 0 ≤ i then .uint i.toNat else .sint i, ?_, rfl⟩
    rw [(int_readable cfg (.sint i) ⟨trivial, trivial, hi, trivial⟩).2]; simp only [normJ]
    split <;> rfl
  | f64 b =>
    rcases hf with rfl | rfl | ⟨n, m, e, hd, hlo, hhi⟩
    · exact ⟨.uint 0, zb1, 0, 0, z64, by simp [numQ], Iff.rfl, by norm_num, by simp⟩
    · exact ⟨.uint 0, zb2, 0, 0, z64', by simp [numQ], Iff.rfl, by norm_num, by simp⟩
    · obtain ⟨y, _, hv, ⟨a, ha, hya⟩, hb, _⟩ := float_through_json cfg b n m e hd hlo hhi
      obtain ⟨r, hr, hq⟩ := valQ_some hv
      have hxpos : 0 < qv m e := by
        rw [abs_sval] at hlo; exact lt_of_lt_of_le (ten_zpow_pos _) hlo
      obtain ⟨s1, s2⟩ := sign_facts n (qv m e) a hxpos ha
      refine ⟨r, hr, sval n m e, y, fpQ_fin hd, hq, ?_, ?_, hb⟩
      · rw [hya]; exact s1
      · rw [hya]; exact s2
  | f32 b =>
    rcases hf with rfl | rfl | ⟨n, m, e, hd, hm⟩
    · exact ⟨.uint 0, zb3, 0, 0, z32, by simp [numQ], Iff.rfl, by norm_num, by simp⟩
    · exact ⟨.uint 0, zb4, 0, 0, z32', by simp [numQ], Iff.rfl, by norm_num, by simp⟩
    · obtain ⟨y, _, hv, ⟨a, ha, hya⟩, hb, _⟩ := float32_through_json cfg b n m e hd hm
      obtain ⟨r, hr, hq⟩ := valQ_some hv
      obtain ⟨s1, s2⟩ := sign_facts n (qv m e) a (qv_pos hm e) ha
      refine ⟨r, hr, sval n m e, y, fpQ_fin hd, hq, ?_, ?_, hb⟩
      · rw [hya]; exact s1
      · rw [hya]; exact s2

theorem readBackM_keys (cfg : Cfg) (ms : List (List Byte × Val)) : (readBackM cfg ms).map (·.1) = ms.map (·.1) := by
  induction ms with
  | nil => rfl
  | cons m r ih => obtain ⟨k, v⟩ := m; simp only [readBackM, List.map_cons, ih]

/-- the scalar hypotheses of the document theorem, together -/
def LeafOk (v : Val) : Prop := RawFreeS v ∧ IntOkS v ∧ FloatRangeS v

mutual
theorem closeDoc_readBack (cfg : Cfg) : ∀ v, AllV LeafOk (fun _ => True) v → NoDupKeys v → CloseDoc v (readBack cfg v)
  | .arr xs => by
    simp only [AllV, NoDupKeys, readBack]; intro h hn; exact .arr (closeE_readBack cfg xs h hn)
  | .obj ms => by
    simp only [AllV, NoDupKeys, readBack]; intro h hn
    rw [lastWins_nodup _ (by rw [readBackM_keys]; exact hn.1)]
    exact .obj (closeM_readBack cfg ms h hn.2)
  | .num n => by
    simp only [AllV, readBack]; intro h _
    obtain ⟨r, hr, hc⟩ := closeNum_numBack cfg n h.2.1 h.2.2
    rw [hr]; exact .num hc
  | .null => by simp only [readBack]; intro _ _; exact .null
  | .bool b => by simp only [readBack]; intro _ _; exact .bool b
  | .str s => by simp only [readBack]; intro _ _; exact .str s
  | .raw s => by simp only [AllV]; intro h _; exact absurd h.1 (by simp [RawFreeS])
theorem closeE_readBack (cfg : Cfg) : ∀ xs, AllE LeafOk (fun _ => True) xs → NoDupE xs → CloseE xs (readBackE cfg xs)
  | [] => fun _ _ => .nil
  | x :: r => by
    simp only [AllE, NoDupE, readBackE]; intro h hn
    exact .cons (closeDoc_readBack cfg x h.1 hn.1) (closeE_readBack cfg r h.2 hn.2)
theorem closeM_readBack (cfg : Cfg) : ∀ ms, AllM LeafOk (fun _ => True) ms → NoDupM ms → CloseM ms (readBackM cfg ms)
  | [] => fun _ _ => .nil
  | (k, v) :: r => by
    simp only [AllM, NoDupM, readBackM]; intro h hn
    exact .cons k (closeDoc_readBack cfg v h.2.1 hn.1) (closeM_readBack cfg r h.2.2 hn.2)
end

theorem finite_of_range (v : Val) (h : FloatRangeS v) : FiniteS v := by
  cases v with
  | num n =>
    cases n with
    | f64 b =>
      rcases h with rfl | rfl | ⟨n, m, e, hd, _⟩
      · exact ⟨by decide +kernel, by decide +kernel⟩
      · exact ⟨by decide +kernel, by decide +kernel⟩
      · exact not_nan_inf b n m e hd
    | f32 b =>
      rcases h with rfl | rfl | ⟨n, m, e, hd, _⟩
      · exact ⟨by decide +kernel, by decide +kernel⟩
      · exact ⟨by decide +kernel, by decide +kernel⟩
      · obtain ⟨m', e', hd', _⟩ := Conv.cvt_32_64_exact b n m e hd
        exact not_nan_inf _ n m' e' hd'
    | _ => trivial
  | _ => trivial

/-- **THE ROUND TRIP WITH FLOATS, AS VALUES.** For every document `v` without raw values and without repeated keys, whose integers
    are 64-bit, whose floats are `±0` or finite with `1e-300 ≤ |x| ≤ 1e300`, whose strings and keys fit the string buffer and
    whose nesting fits the limit: `deserializeJson(serializeJson(v))` succeeds, consumes the whole text, and yields a document
    `v'` with `CloseDoc v v'`: the same structure, order, keys, strings, booleans and integers (a non-negative signed integer
    comes back unsigned), and every floating-point leaf read back as a number (integer, float or double) whose exact value is
    within `1e-9·max(1,|x|) + 1e-6·|x|` (stored double) resp. `1e-6·max(1,|x|) + 1e-6·|x|` (stored float) of the leaf's. -/
theorem json_roundtrip_floats_close (cfg : Cfg) (L : Nat) (v : Val) (hcfg : cfg.decodeUnicode = true)
    (h2 : RawFree v) (h5 : NoDupKeys v) (h3 : IntsInRange v) (hf : FloatsInRange v) (h4 : StrsWithin cfg.maxStrLen v)
    (hd : depth v ≤ L) :
    ∃ v', JD.run cfg L (compact cfg v) = (.ok, v', (compact cfg v).length) ∧ CloseDoc v v' := by
  have hfin : FiniteFloats v := AllV_mono finite_of_range (fun _ h => h) v hf
  refine ⟨readBack cfg v, json_roundtrip_finite cfg L v hcfg hfin h2 h3 h4 hd, ?_⟩
  have a := AllV_and v (AllV_and v h2 h3) hf
  exact closeDoc_readBack cfg v (AllV_mono (fun v h => ⟨h.1.1, h.1.2, h.2⟩) (fun _ _ => trivial) v a) h5

/-! ## 4. non-vacuity, witnesses, and what happens outside the range -/

/-- what `parseNumeric` stores for a result of `parseNumber` -/
def valOfPNum : PNum → Val
  | .uint n => .num (.uint n)
  | .sint n => .num (.sint n)
  | .f32 b => .num (.f32 b)
  | .f64 b => .num (storeDouble b)
  | _ => .null

theorem numBack_of (cfg : Cfg) (n : Num) (T : List Byte) (r : PNum) (h1 : JS.printNum cfg n = T) (h2 : T ≠ nullText)
    (h3 : parseNumber cfg T = r) : numBack cfg n = valOfPNum r := by
  simp only [numBack, h1, h2, ↓reduceIte, numValue, h3]
  cases r <;> rfl

/-- the exact values of small data, for the examples -/
theorem qv_nonneg_exp (m k : Nat) : qv m (k : Int) = ((m * 2 ^ k : Nat) : ℚ) := by
  unfold qv; rw [zpow_natCast]; push_cast; rfl

theorem range_mid {x : ℚ} (h1 : 1 / 10 ^ 20 ≤ x) (h2 : x ≤ 10 ^ 20) :
    (10 : ℚ) ^ (-300 : Int) ≤ x ∧ x ≤ (10 : ℚ) ^ (300 : Int) := by
  constructor
  · calc (10 : ℚ) ^ (-300 : Int) ≤ (10 : ℚ) ^ (-20 : Int) := zpow_le_zpow_right₀ (by norm_num) (by norm_num)
      _ = 1 / 10 ^ 20 := by norm_num [zpow_neg]
      _ ≤ x := h1
  · calc x ≤ (10 : ℚ) ^ (20 : Int) := by simpa using h2
      _ ≤ (10 : ℚ) ^ (300 : Int) := zpow_le_zpow_right₀ (by norm_num) (by norm_num)

-- 0.1 as a double = 7205759403792794·2^-56 prints as "0.1" and is read back as the FLOAT 0.1f = 13421773·2^-27
example : printNum {} (.f64 4591870180066957722) = [0x30,0x2E,0x31] ∧ parseNumber {} [0x30,0x2E,0x31] = .f32 0x3DCCCCCD ∧
    decode b64 4591870180066957722 = .fin false 7205759403792794 (-56) ∧ decode b32 0x3DCCCCCD = .fin false 13421773 (-27) := by
  decide +kernel
example : numBack {} (.f64 4591870180066957722) = .num (.f32 0x3DCCCCCD) :=
  numBack_of {} _ [0x30,0x2E,0x31] (.f32 0x3DCCCCCD) (by decide +kernel) (by decide) (by decide +kernel)

/-- `float_through_json` on the double 0.1 -/
example : ∃ y : ℚ, pnumQ (parseNumber {} (printNum {} (.f64 4591870180066957722))) = some y ∧
    valQ (numBack {} (.f64 4591870180066957722)) = some y ∧
    |y - sval false 7205759403792794 (-56)| ≤
      1 / 10 ^ 9 * max 1 |sval false 7205759403792794 (-56)| + 1 / 10 ^ 6 * |sval false 7205759403792794 (-56)| := by
  have hv : qv 7205759403792794 (-56) = 7205759403792794 / 2 ^ 56 := by unfold qv; norm_num [zpow_neg]
  obtain ⟨r1, r2⟩ := range_mid (x := |sval false 7205759403792794 (-56)|) (by rw [abs_sval, hv]; norm_num)
    (by rw [abs_sval, hv]; norm_num)
  obtain ⟨y, h1, h2, _, h4, _⟩ := float_through_json {} 4591870180066957722 false 7205759403792794 (-56) (by decide +kernel) r1 r2
  exact ⟨y, h1, h2, h4⟩

/-- WITNESS 1 (the double 0.1): the value read back, 0.1f, is `1.49e-9` away from the double 0.1: more than `1e-9·max(1,|x|)`.
    The printing precision `1e-9·max(1,|x|)` ALONE is not a bound for the round trip of a double. -/
theorem double_tenth_witness :
    1 / 10 ^ 9 * max 1 |sval false 7205759403792794 (-56)| <
      |sval false 13421773 (-27) - sval false 7205759403792794 (-56)| ∧
    |sval false 13421773 (-27) - sval false 7205759403792794 (-56)| < 2 / 10 ^ 9 := by
  have h1 : sval false 7205759403792794 (-56) = 7205759403792794 / 2 ^ 56 := by unfold sval qv; norm_num [zpow_neg]
  have h2 : sval false 13421773 (-27) = 13421773 / 2 ^ 27 := by unfold sval qv; norm_num [zpow_neg]
  rw [h1, h2]
  have : max (1 : ℚ) |7205759403792794 / 2 ^ 56| = 1 := by
    apply max_eq_left; rw [abs_of_nonneg (by norm_num)]; norm_num
  rw [this]
  constructor <;> norm_num

/-- WITNESS 2 (the double nearest to 4.823015e37 = 5106565762627124·2^73): it prints as "4.823015e37" (seven significant digits),
    the parser takes the binary32 path and returns 9511722·2^102, which is `2.1e-7·|x|` away: the term `1e-6·|x|` of
    `float_through_json` cannot be lowered below `2e-7·|x|`. -/
theorem double_via_float_witness :
    printNum {} (.f64 5170735338356586036) = [0x34,0x2E,0x38,0x32,0x33,0x30,0x31,0x35,0x65,0x33,0x37] ∧
    parseNumber {} [0x34,0x2E,0x38,0x32,0x33,0x30,0x31,0x35,0x65,0x33,0x37] = .f32 2115052330 ∧
    decode b64 5170735338356586036 = .fin false 5106565762627124 73 ∧ decode b32 2115052330 = .fin false 9511722 102 ∧
    2 / 10 ^ 7 * |sval false 5106565762627124 73| < |sval false 9511722 102 - sval false 5106565762627124 73| := by
  refine ⟨by decide +kernel, by decide +kernel, by decide +kernel, by decide +kernel, ?_⟩
  unfold sval qv
  norm_num

-- 3.0 prints as "3" and is read back as the unsigned INTEGER 3; -3.0 as the signed integer -3 (general: `integral_double_back`)
example : numBack {} (.f64 0x4008000000000000) = .num (.uint 3) := by
  have hv : qv 6755399441055744 (-51) = ((3 : Nat) : ℚ) := by unfold qv; norm_num [zpow_neg]
  have := (integral_double_back {} 0x4008000000000000 false 6755399441055744 (-51) (by decide +kernel) 3 (by decide) (by decide) hv).2.2
  simpa using this
example : printNum {} (.f64 0xC008000000000000) = [0x2D,0x33] ∧ numBack {} (.f64 0xC008000000000000) = .num (.sint (-3)) := by
  have hv : qv 6755399441055744 (-51) = ((3 : Nat) : ℚ) := by unfold qv; norm_num [zpow_neg]
  obtain ⟨h1, _, h3⟩ := integral_double_back {} 0xC008000000000000 true 6755399441055744 (-51) (by decide +kernel) 3 (by decide) (by decide) hv
  rw [show JS.digits 3 = [0x33] from by decide +kernel] at h1
  exact ⟨by simpa using h1, by simpa using h3⟩
-- 3.0000000001 also prints as "3": the integer read back is within the printing precision, not exact
example : printNum {} (.f64 4613937818241298332) = [0x33] ∧ parseNumber {} [0x33] = .uint 3 := by decide +kernel
-- from 1e7 on an exponent is written: 1e7 comes back as the float 1e7 (exact), 9999999 as the integer
example : printNum {} (.f64 4711630319722168320) = [0x31,0x65,0x37] ∧ parseNumber {} [0x31,0x65,0x37] = .f32 1259902592 ∧
    decode b32 1259902592 = .fin false 10000000 0 := by decide +kernel
example : printNum {} (.f64 4711630319185297408) = [0x39,0x39,0x39,0x39,0x39,0x39,0x39] ∧
    parseNumber {} [0x39,0x39,0x39,0x39,0x39,0x39,0x39] = .uint 9999999 := by decide +kernel

-- 123456789.125 = 8285044871266304·2^-26 prints as "1.234567891e8" (ten significant digits) and is read back as the DOUBLE
-- 8285044869588583·2^-26 = 123456789.09999999…: `float_kind` (more than seven digits: never a binary32) and the 1e-9 clause
example : printNum {} (.f64 4728057454355546112) = [0x31,0x2E,0x32,0x33,0x34,0x35,0x36,0x37,0x38,0x39,0x31,0x65,0x38] ∧
    parseNumber {} [0x31,0x2E,0x32,0x33,0x34,0x35,0x36,0x37,0x38,0x39,0x31,0x65,0x38] = .f64 4728057454353868391 ∧
    storeDouble 4728057454353868391 = .f64 4728057454353868391 ∧
    decode b64 4728057454353868391 = .fin false 8285044869588583 (-26) := by decide +kernel
example : ∃ y : ℚ, valQ (numBack {} (.f64 4728057454355546112)) = some y ∧
    |y - sval false 8285044871266304 (-26)| ≤ 1 / 10 ^ 9 * max 1 |sval false 8285044871266304 (-26)| := by
  have hv : qv 8285044871266304 (-26) = 8285044871266304 / 2 ^ 26 := by unfold qv; norm_num [zpow_neg]
  obtain ⟨r1, r2⟩ := range_mid (x := |sval false 8285044871266304 (-26)|) (by rw [abs_sval, hv]; norm_num)
    (by rw [abs_sval, hv]; norm_num)
  obtain ⟨y, _, h2, _, _, h5⟩ := float_through_json {} 4728057454355546112 false 8285044871266304 (-26) (by decide +kernel) r1 r2
  refine ⟨y, h2, h5 ?_⟩
  intro bits hb
  rw [show printNum {} (.f64 4728057454355546112) = [0x31,0x2E,0x32,0x33,0x34,0x35,0x36,0x37,0x38,0x39,0x31,0x65,0x38] from by
    decide +kernel, show parseNumber {} [0x31,0x2E,0x32,0x33,0x34,0x35,0x36,0x37,0x38,0x39,0x31,0x65,0x38] = .f64 4728057454353868391 from by
    decide +kernel] at hb
  cases hb

/-- `float_kind` on 123456789.125: an RFC literal; not an integer literal, hence not read back as an integer -/
example : ¬ ∃ k, parseNumber {} (printNum {} (.f64 4728057454355546112)) = .uint k := by
  have hv : qv 8285044871266304 (-26) = 8285044871266304 / 2 ^ 26 := by unfold qv; norm_num [zpow_neg]
  obtain ⟨r1, r2⟩ := range_mid (x := |sval false 8285044871266304 (-26)|) (by rw [abs_sval, hv]; norm_num)
    (by rw [abs_sval, hv]; norm_num)
  obtain ⟨ip, f, ex, hw, hip, hne, hf, he, hk, _⟩ := float_kind {} 4728057454355546112 false 8285044871266304 (-26) (by decide +kernel) r1 r2
  intro hu
  obtain ⟨rfl, rfl⟩ := hk.mpr (Or.inl hu)
  -- the text would be all digits, but it contains a point
  rw [show printNum {} (.f64 4728057454355546112) = [0x31,0x2E,0x32,0x33,0x34,0x35,0x36,0x37,0x38,0x39,0x31,0x65,0x38] from by
    decide +kernel] at hw
  simp only [Bool.false_eq_true, if_false, List.nil_append, List.append_nil] at hw
  rw [← hw] at hip
  exact absurd (hip 0x2E (by decide)) (by decide)

-- the top of the range: the double nearest to 1e300 is slightly ABOVE 1e300; the one just below it, 6724873095247259·2^944,
-- satisfies the hypotheses; both print as "1e300" and are read back as the double nearest to 1e300
example : printNum {} (.f64 9094988921128908187) = [0x31,0x65,0x33,0x30,0x30] ∧
    parseNumber {} [0x31,0x65,0x33,0x30,0x30] = .f64 9094988921128908188 := by decide +kernel
example : ∃ y : ℚ, valQ (numBack {} (.f64 9094988921128908187)) = some y ∧
    |y - sval false 6724873095247259 944| ≤
      1 / 10 ^ 9 * max 1 |sval false 6724873095247259 944| + 1 / 10 ^ 6 * |sval false 6724873095247259 944| := by
  have hv : qv 6724873095247259 (944 : Int) = ((6724873095247259 * 2 ^ 944 : Nat) : ℚ) := qv_nonneg_exp 6724873095247259 944
  have hle : (6724873095247259 * 2 ^ 944 : Nat) ≤ 10 ^ 300 := by decide +kernel
  have hge : 1 ≤ (6724873095247259 * 2 ^ 944 : Nat) := by decide +kernel
  have r1 : (10 : ℚ) ^ (-300 : Int) ≤ |sval false 6724873095247259 944| := by
    rw [abs_sval, hv]
    calc (10 : ℚ) ^ (-300 : Int) ≤ 1 := zpow_le_one_of_nonpos₀ (by norm_num) (by norm_num)
      _ ≤ _ := by exact_mod_cast hge
  have r2 : |sval false 6724873095247259 944| ≤ (10 : ℚ) ^ (300 : Int) := by
    rw [abs_sval, hv, show (300 : Int) = ((300 : Nat) : Int) from rfl, zpow_natCast]
    exact_mod_cast hle
  obtain ⟨y, _, h2, _, h4, _⟩ := float_through_json {} 9094988921128908187 false 6724873095247259 944 (by decide +kernel) r1 r2
  exact ⟨y, h2, h4⟩

-- OUTSIDE THE RANGE, above: the largest finite double 1.7976931348623157e308 prints as "1.797693135e308" (rounded UP in the last
-- printed place), which the parser reads as +infinity; the store narrows it to the binary32 +infinity
example : printNum {} (.f64 0x7FEFFFFFFFFFFFFF) = [0x31,0x2E,0x37,0x39,0x37,0x36,0x39,0x33,0x31,0x33,0x35,0x65,0x33,0x30,0x38] ∧
    parseNumber {} [0x31,0x2E,0x37,0x39,0x37,0x36,0x39,0x33,0x31,0x33,0x35,0x65,0x33,0x30,0x38] = .f64 0x7FF0000000000000 ∧
    decode b64 0x7FF0000000000000 = .inf false ∧ storeDouble 0x7FF0000000000000 = .f32 0x7F800000 ∧
    decode b32 0x7F800000 = .inf false := by decide +kernel
example : numBack {} (.f64 0x7FEFFFFFFFFFFFFF) = .num (.f32 0x7F800000) := by
  have := numBack_of {} (.f64 0x7FEFFFFFFFFFFFFF) [0x31,0x2E,0x37,0x39,0x37,0x36,0x39,0x33,0x31,0x33,0x35,0x65,0x33,0x30,0x38]
    (.f64 0x7FF0000000000000) (by decide +kernel) (by decide) (by decide +kernel)
  rw [this]
  show Val.num (storeDouble 0x7FF0000000000000) = _
  rw [show storeDouble 0x7FF0000000000000 = .f32 0x7F800000 from by decide +kernel]
-- OUTSIDE THE RANGE, below: the smallest subnormal 4.94e-324 prints as "4.940656458e-324"; the parser's test on the decimal
-- exponent (-333 < -325) flushes it to the float zero
example : printNum {} (.f64 1) = [0x34,0x2E,0x39,0x34,0x30,0x36,0x35,0x36,0x34,0x35,0x38,0x65,0x2D,0x33,0x32,0x34] ∧
    parseNumber {} [0x34,0x2E,0x39,0x34,0x30,0x36,0x35,0x36,0x34,0x35,0x38,0x65,0x2D,0x33,0x32,0x34] = .f32 0 := by decide +kernel

-- 0.1f = 13421773·2^-27 prints as "0.1" and comes back identical; 2^24 = 16777216f prints as "1.677722e7" and comes back as
-- 16777220f (the float print has seven significant digits: binary32 values do not round-trip exactly either)
example : printNum {} (.f32 0x3DCCCCCD) = [0x30,0x2E,0x31] ∧ parseNumber {} [0x30,0x2E,0x31] = .f32 0x3DCCCCCD := by decide +kernel
example : printNum {} (.f32 0x4B800000) = [0x31,0x2E,0x36,0x37,0x37,0x37,0x32,0x32,0x65,0x37] ∧
    parseNumber {} [0x31,0x2E,0x36,0x37,0x37,0x37,0x32,0x32,0x65,0x37] = .f32 1266679810 ∧
    decode b32 0x4B800000 = .fin false 8388608 1 ∧ decode b32 1266679810 = .fin false 8388610 1 := by decide +kernel
/-- `float32_through_json` on 0.1f and on 2^24 -/
example : ∃ y : ℚ, valQ (numBack {} (.f32 0x3DCCCCCD)) = some y ∧
    |y - sval false 13421773 (-27)| ≤ 1 / 10 ^ 6 * max 1 |sval false 13421773 (-27)| + 1 / 10 ^ 6 * |sval false 13421773 (-27)| := by
  obtain ⟨y, _, h2, _, h4, _⟩ := float32_through_json {} 0x3DCCCCCD false 13421773 (-27) (by decide +kernel) (by decide)
  exact ⟨y, h2, h4⟩
example : ∃ y : ℚ, valQ (numBack {} (.f32 0x4B800000)) = some y ∧
    |y - sval false 8388608 1| ≤ 1 / 10 ^ 6 * max 1 |sval false 8388608 1| + 1 / 10 ^ 6 * |sval false 8388608 1| := by
  obtain ⟨y, _, h2, _, h4, _⟩ := float32_through_json {} 0x4B800000 false 8388608 1 (by decide +kernel) (by decide)
  exact ⟨y, h2, h4⟩

/-- `[0.1, {"e": 0.1f}, 3.0, 5]` with a double 0.1, a float 0.1f, a double 3.0 and a signed 5 -/
def sampleF : Val :=
  .arr [.num (.f64 4591870180066957722), .obj [([0x65], .num (.f32 0x3DCCCCCD))], .num (.f64 0x4008000000000000),
        .num (.sint 5)]

def sampleFText : List UInt8 :=
  [0x5B, 0x30,0x2E,0x31, 0x2C, 0x7B,0x22,0x65,0x22,0x3A,0x30,0x2E,0x31,0x7D, 0x2C, 0x33, 0x2C, 0x35, 0x5D]

theorem sampleF_text : compact {} sampleF = sampleFText := by decide +kernel

theorem sampleF_range : FloatsInRange sampleF := by
  have hv1 : qv 7205759403792794 (-56) = 7205759403792794 / 2 ^ 56 := by unfold qv; norm_num [zpow_neg]
  have hv3 : qv 6755399441055744 (-51) = 3 := by unfold qv; norm_num [zpow_neg]
  obtain ⟨a1, a2⟩ := range_mid (x := |sval false 7205759403792794 (-56)|) (by rw [abs_sval, hv1]; norm_num)
    (by rw [abs_sval, hv1]; norm_num)
  obtain ⟨b1, b2⟩ := range_mid (x := |sval false 6755399441055744 (-51)|) (by rw [abs_sval, hv3]; norm_num)
    (by rw [abs_sval, hv3]; norm_num)
  simp only [FloatsInRange, sampleF, AllV, AllE, AllM, FloatRangeS]
  exact ⟨Or.inr (Or.inr ⟨false, 7205759403792794, -56, by decide +kernel, a1, a2⟩),
    ⟨trivial, Or.inr (Or.inr ⟨false, 13421773, -27, by decide +kernel, by decide⟩), trivial⟩,
    Or.inr (Or.inr ⟨false, 6755399441055744, -51, by decide +kernel, b1, b2⟩), trivial, trivial⟩

/-- `json_roundtrip_floats_close` on the sample: the text `[0.1,{"e":0.1},3,5]` is read back as a document `CloseDoc` to it -/
example : ∃ v', JD.run {} 2 sampleFText = (.ok, v', 19) ∧ CloseDoc sampleF v' := by
  have h := json_roundtrip_floats_close {} 2 sampleF rfl
    (by simp [RawFree, sampleF, AllV, AllE, AllM, RawFreeS])
    (by simp [NoDupKeys, sampleF, NoDupE, NoDupM])
    (by simp [IntsInRange, sampleF, AllV, AllE, AllM, IntOkS])
    sampleF_range
    (by simp [StrsWithin, sampleF, AllV, AllE, AllM, StrOkS])
    (by simp [sampleF, depth, depthE, depthM])
  rw [sampleF_text] at h
  exact h

-- the same text evaluated directly by the kernel: the double 0.1 comes back as the FLOAT 0.1f, the double 3.0 as the unsigned
-- integer 3, the signed 5 as the unsigned 5
example : (match JD.run {} 2 sampleFText with
    | (.ok, .arr [.num (.f32 a), .obj [(k, .num (.f32 b))], .num (.uint c), .num (.uint d)], n) =>
        a == 0x3DCCCCCD && k == [0x65] && b == 0x3DCCCCCD && c == 3 && d == 5 && n == 19
    | _ => false) = true := by decide +kernel

end C07
