/- C08: `serializeMsgPack` emits exactly one conforming MessagePack object, and that object equals the document.

   Model side : `MD.ser : JD.Val → List UInt8`            (AJ/Model/MD.lean)
   Spec side  : `MSpec.decode`, `MSpec.decodeTop`          (AJ/Spec/MSpec.lean, written from the format specification)

   Main results
   * `C08.ser_decodes`     : for every raw-free document within the format's size limits, every continuation `rest`
                             and every fuel ≥ 2 * (number of bytes written), the specification decoder reads
                             `ser v ++ rest` as `(mvOf v, rest)`.
   * `C08.ser_decodeTop`   : `MSpec.decodeTop (MD.ser v) = some (mvOf v, [])` — one object, nothing trailing.
   * `C08.float_shortcut_sound`, `C08.double_narrowing_sound` : what the two float shortcuts of the serializer mean.
   * `C08.header_minimal`  : the headers are the shortest the format allows.
-/
import AJ.Lemmas.MsgPack
namespace C08
open JD MSpec MD MsgPack

/-! ## the MessagePack value a document denotes -/
mutual
/-- null ↦ nil, booleans, integers ↦ int, strings ↦ str, arrays ↦ array, objects ↦ map with str keys.
    Floats: the value the format receives is `MsgPack.f32MV` / `MsgPack.f64MV`, i.e. the bit-identical
    float32/float64 unless the serializer takes its integer (resp. float32) shortcut; the shortcuts are
    characterised by `float_shortcut_sound` and `double_narrowing_sound` below.
    (`.raw` is excluded by `RawFree`; its image here is irrelevant.) -/
def mvOf : Val → MV
  | .null => .nil
  | .bool b => .bool b
  | .num (.uint n) => .int n
  | .num (.sint v) => .int v
  | .num (.f32 b) => f32MV b
  | .num (.f64 b) => f64MV b
  | .str s => .str s
  | .raw s => .bin s
  | .arr xs => .arr (mvElems xs)
  | .obj ms => .map (mvMembers ms)
def mvElems : List Val → List MV
  | [] => []
  | x :: r => mvOf x :: mvElems r
def mvMembers : List (List UInt8 × Val) → List (MV × MV)
  | [] => []
  | (k, v) :: r => (.str k, mvOf v) :: mvMembers r
end

mutual
/-- no `.raw` node anywhere (raw nodes are copied verbatim by the serializer) -/
def RawFree : Val → Bool
  | .raw _ => false
  | .arr xs => RawFreeL xs
  | .obj ms => RawFreeM ms
  | _ => true
def RawFreeL : List Val → Bool
  | [] => true
  | x :: r => RawFree x && RawFreeL r
def RawFreeM : List (List UInt8 × Val) → Bool
  | [] => true
  | (_, v) :: r => RawFree v && RawFreeM r
end

mutual
/-- the size limits of the C++ types / of the format: 64-bit integers, 32/64-bit float patterns,
    string, key, array and object lengths below 2^32 -/
def WithinLimits : Val → Bool
  | .null => true
  | .bool _ => true
  | .num (.uint n) => decide (n < 2^64)
  | .num (.sint v) => decide (-2^63 ≤ v) && decide (v < 2^63)
  | .num (.f32 b) => decide (b < 2^32)
  | .num (.f64 b) => decide (b < 2^64)
  | .str s => decide (s.length < 2^32)
  | .raw s => decide (s.length < 2^32)
  | .arr xs => decide (xs.length < 2^32) && WithinLimitsL xs
  | .obj ms => decide (ms.length < 2^32) && WithinLimitsM ms
def WithinLimitsL : List Val → Bool
  | [] => true
  | x :: r => WithinLimits x && WithinLimitsL r
def WithinLimitsM : List (List UInt8 × Val) → Bool
  | [] => true
  | (k, v) :: r => decide (k.length < 2^32) && WithinLimits v && WithinLimitsM r
end

mutual
/-- fuel that `MSpec.decode` needs on `ser v` (exact: one unit per nesting level and per element) -/
def need : Val → Nat
  | .arr xs => 1 + needL xs
  | .obj ms => 1 + needM ms
  | _ => 1
def needL : List Val → Nat
  | [] => 1
  | x :: r => 1 + max (need x) (needL r)
def needM : List (List UInt8 × Val) → Nat
  | [] => 1
  | (_, v) :: r => 1 + max (need v) (needM r)
end

theorem need_pos (v : Val) : 1 ≤ need v := by
  cases v <;> simp [need]

/-! ## main induction (on the fuel; conjunction over the three mutually recursive routines) -/
theorem ser_decodes_aux : ∀ F : Nat,
    (∀ v, RawFree v = true → WithinLimits v = true → need v ≤ F →
        ∀ rest, decode F (ser v ++ rest) = some (mvOf v, rest)) ∧
    (∀ xs, RawFreeL xs = true → WithinLimitsL xs = true → needL xs ≤ F →
        ∀ rest acc, decodeArr F xs.length (serElems xs ++ rest) acc
          = some (.arr (acc.reverse ++ mvElems xs), rest)) ∧
    (∀ ms, RawFreeM ms = true → WithinLimitsM ms = true → needM ms ≤ F →
        ∀ rest acc, decodeMap F ms.length (serMembers ms ++ rest) acc
          = some (.map (acc.reverse ++ mvMembers ms), rest)) := by
  intro F
  induction F with
  | zero =>
    refine ⟨?_, ?_, ?_⟩
    · intro v _ _ h; have := need_pos v; omega
    · intro xs _ _ h; cases xs <;> simp [needL] at h
    · intro ms _ _ h
      cases ms with
      | nil => simp [needM] at h
      | cons p r => obtain ⟨k, v⟩ := p; simp [needM] at h
  | succ F ih =>
    obtain ⟨ihV, ihL, ihM⟩ := ih
    refine ⟨?_, ?_, ?_⟩
    · intro v hr hw hn rest
      cases v with
      | null => simp only [ser, mvOf, List.singleton_append]; exact decode_c0 F rest
      | bool b =>
        cases b
        · simp only [ser, mvOf, List.singleton_append]; exact decode_c2 F rest
        · simp only [ser, mvOf, List.singleton_append]; exact decode_c3 F rest
      | num n =>
        cases n with
        | uint n =>
          simp only [WithinLimits, decide_eq_true_eq] at hw
          simp only [ser, mvOf]; exact decode_encUInt F n hw rest
        | sint v =>
          simp only [WithinLimits, Bool.and_eq_true, decide_eq_true_eq] at hw
          simp only [ser, mvOf]; exact decode_encInt F v hw.1 hw.2 rest
        | f32 b =>
          simp only [WithinLimits, decide_eq_true_eq] at hw
          simp only [ser, mvOf]; exact decode_encF32 F b hw rest
        | f64 b =>
          simp only [WithinLimits, decide_eq_true_eq] at hw
          simp only [ser, mvOf]; exact decode_encF64 F b hw rest
      | str s =>
        simp only [WithinLimits, decide_eq_true_eq] at hw
        simp only [ser, mvOf]; exact decode_str F s hw rest
      | raw s => simp [RawFree] at hr
      | arr xs =>
        simp only [WithinLimits, Bool.and_eq_true, decide_eq_true_eq] at hw
        simp only [RawFree] at hr
        simp only [need] at hn
        simp only [ser, mvOf, List.append_assoc]
        rw [decode_arrHdr F _ hw.1, ihL xs hr hw.2 (by omega) rest []]
        simp
      | obj ms =>
        simp only [WithinLimits, Bool.and_eq_true, decide_eq_true_eq] at hw
        simp only [RawFree] at hr
        simp only [need] at hn
        simp only [ser, mvOf, List.append_assoc]
        rw [decode_mapHdr F _ hw.1, ihM ms hr hw.2 (by omega) rest []]
        simp
    · intro xs hr hw hn rest acc
      cases xs with
      | nil => simp [decodeArr, serElems, mvElems]
      | cons x r =>
        simp only [RawFreeL, Bool.and_eq_true] at hr
        simp only [WithinLimitsL, Bool.and_eq_true] at hw
        simp only [needL] at hn
        rw [decodeArr]
        simp only [List.length_cons, Nat.add_one_ne_zero, beq_iff_eq, if_false, serElems, List.append_assoc]
        rw [ihV x hr.1 hw.1 (by omega)]
        simp only [Option.bind_some, Nat.add_sub_cancel]
        rw [ihL r hr.2 hw.2 (by omega)]
        simp [mvElems]
    · intro ms hr hw hn rest acc
      cases ms with
      | nil => simp [decodeMap, serMembers, mvMembers]
      | cons p r =>
        obtain ⟨k, v⟩ := p
        simp only [RawFreeM, Bool.and_eq_true] at hr
        simp only [WithinLimitsM, Bool.and_eq_true, decide_eq_true_eq] at hw
        simp only [needM] at hn
        have hv := need_pos v
        obtain ⟨F', rfl⟩ : ∃ F', F = F' + 1 := ⟨F - 1, by omega⟩
        rw [decodeMap]
        simp only [List.length_cons, Nat.add_one_ne_zero, beq_iff_eq, if_false, serMembers, List.append_assoc]
        rw [← List.append_assoc, decode_str F' k hw.1.1]
        simp only [Option.bind_some]
        rw [ihV v hr.1 hw.1.2 (by omega)]
        simp only [Option.bind_some, Nat.add_sub_cancel]
        rw [ihM r hr.2 hw.2 (by omega)]
        simp [mvMembers]

/-- decoding succeeds with any fuel ≥ `need v` -/
theorem ser_decodes_need (v : Val) (hr : RawFree v = true) (hw : WithinLimits v = true)
    (rest : List UInt8) (fuel : Nat) (hf : need v ≤ fuel) :
    decode fuel (ser v ++ rest) = some (mvOf v, rest) :=
  (ser_decodes_aux fuel).1 v hr hw hf rest

/-! ## the fuel bound is linear in the output -/
theorem need_le_aux : ∀ F : Nat,
    (∀ v, need v ≤ F → RawFree v = true → need v ≤ 2 * (ser v).length ∧ 1 ≤ (ser v).length) ∧
    (∀ xs, needL xs ≤ F → RawFreeL xs = true → needL xs ≤ 2 * (serElems xs).length + 1) ∧
    (∀ ms, needM ms ≤ F → RawFreeM ms = true → needM ms ≤ 2 * (serMembers ms).length + 1) := by
  intro F
  induction F with
  | zero =>
    refine ⟨?_, ?_, ?_⟩
    · intro v h; have := need_pos v; omega
    · intro xs h; cases xs <;> simp [needL] at h
    · intro ms h
      cases ms with
      | nil => simp [needM] at h
      | cons p r => obtain ⟨k, v⟩ := p; simp [needM] at h
  | succ F ih =>
    obtain ⟨ihV, ihL, ihM⟩ := ih
    refine ⟨?_, ?_, ?_⟩
    · intro v hn hr
      cases v with
      | null => simp [need, ser]
      | bool b => simp [need, ser]
      | num n =>
        cases n with
        | uint n => have := encUInt_pos n; simp only [need, ser]; omega
        | sint v => have := encInt_pos v; simp only [need, ser]; omega
        | f32 b => have := encF32_pos b; simp only [need, ser]; omega
        | f64 b => have := encF64_pos b; simp only [need, ser]; omega
      | str s => have := strHdr_pos s.length; simp only [need, ser, List.length_append]; omega
      | raw s => simp [RawFree] at hr
      | arr xs =>
        simp only [RawFree] at hr
        simp only [need] at hn
        have h1 := ihL xs (by omega) hr
        have h2 := arrHdr_pos xs.length
        simp only [need, ser, List.length_append]; omega
      | obj ms =>
        simp only [RawFree] at hr
        simp only [need] at hn
        have h1 := ihM ms (by omega) hr
        have h2 := mapHdr_pos ms.length
        simp only [need, ser, List.length_append]; omega
    · intro xs hn hr
      cases xs with
      | nil => simp [needL, serElems]
      | cons x r =>
        simp only [RawFreeL, Bool.and_eq_true] at hr
        simp only [needL] at hn
        have h1 := ihV x (by omega) hr.1
        have h2 := ihL r (by omega) hr.2
        simp only [needL, serElems, List.length_append]; omega
    · intro ms hn hr
      cases ms with
      | nil => simp [needM, serMembers]
      | cons p r =>
        obtain ⟨k, v⟩ := p
        simp only [RawFreeM, Bool.and_eq_true] at hr
        simp only [needM] at hn
        have h1 := ihV v (by omega) hr.1
        have h2 := ihM r (by omega) hr.2
        simp only [needM, serMembers, List.length_append]; omega

theorem need_le_length (v : Val) (hr : RawFree v = true) : need v ≤ 2 * (ser v).length :=
  ((need_le_aux (need v)).1 v (Nat.le_refl _) hr).1

theorem ser_nonempty (v : Val) (hr : RawFree v = true) : 1 ≤ (ser v).length :=
  ((need_le_aux (need v)).1 v (Nat.le_refl _) hr).2

/-! ## C08 -/
/-- MAIN THEOREM. For a raw-free document within the limits, the specification decoder reads the serializer's
    output, followed by anything, as the document's value and leaves exactly the continuation. -/
theorem ser_decodes (v : Val) (hr : RawFree v = true) (hw : WithinLimits v = true)
    (rest : List UInt8) (fuel : Nat) (hf : 2 * (ser v).length ≤ fuel) :
    decode fuel (ser v ++ rest) = some (mvOf v, rest) :=
  ser_decodes_need v hr hw rest fuel (Nat.le_trans (need_le_length v hr) hf)

/-- exactly one object, nothing trailing -/
theorem ser_decodeTop (v : Val) (hr : RawFree v = true) (hw : WithinLimits v = true) :
    decodeTop (ser v) = some (mvOf v, []) := by
  have := ser_decodes v hr hw [] (2 * (ser v).length + 2) (by omega)
  rw [List.append_nil] at this
  exact this

/-! ## the float shortcuts -/
/-- When the serializer writes an integer `k` for a float32 bit pattern, the pattern is a finite value
    `(-1)^neg * m * 2^e` and `k` is exactly that number (stated without fractions: for `e < 0` the equation is
    scaled by `2^(-e)`), and `k` fits int64. The only thing lost is the sign of `-0.0` (`m = 0`, `neg = true`
    gives `k = 0`). -/
theorem float_shortcut_sound (bits : Nat) (k : Int) (hk : f32MV bits = .int k) :
    ∃ neg m e, SF.decode SF.b32 bits = .fin neg m e ∧
      (0 ≤ e → k = (if neg then -1 else 1) * ((m * 2^e.toNat : Nat) : Int)) ∧
      (e < 0 → k * ((2^(-e).toNat : Nat) : Int) = (if neg then -1 else 1) * (m : Int)) ∧
      -2^63 ≤ k ∧ k < 2^63 := by
  unfold f32MV at hk
  cases hd : SF.decode SF.b32 bits with
  | nan => rw [hd] at hk; cases hk
  | inf n => rw [hd] at hk; cases hk
  | fin neg m e =>
    rw [hd] at hk
    simp only [] at hk
    split at hk
    · rename_i hc
      simp only [Bool.and_eq_true, Bool.or_eq_true, decide_eq_true_eq, beq_iff_eq] at hc
      have hrange := shortcut_range bits neg m e hd hc.1.1 hc.1.2
      injection hk with hk
      rw [hk] at hrange
      refine ⟨neg, m, e, rfl, ?_, ?_, hrange.1, hrange.2⟩
      · intro he
        rw [← hk]; unfold magOf; rw [if_pos he]
        cases neg <;> simp
      · intro he
        have hdiv : m % 2^(-e).toNat = 0 := by
          rcases hc.2 with h | h
          · omega
          · exact h
        have hmul : m / 2^(-e).toNat * 2^(-e).toNat = m := Nat.div_mul_cancel (Nat.dvd_of_mod_eq_zero hdiv)
        have hmag : magOf m e = m / 2^(-e).toNat := by unfold magOf; rw [if_neg (by omega)]
        rw [← hk, hmag]
        generalize m / 2^(-e).toNat = q at hmul
        generalize 2^(-e).toNat = P at hmul
        subst hmul
        cases neg <;> simp [Int.natCast_mul, Int.neg_mul]
    · cases hk

/-- A float32 is written either as the bit-identical float32 or as an integer (then `float_shortcut_sound` applies). -/
theorem f32MV_cases (bits : Nat) : f32MV bits = .f32 bits ∨ ∃ k, f32MV bits = .int k := by
  unfold f32MV
  split
  · split
    · exact Or.inr ⟨_, rfl⟩
    · exact Or.inl rfl
  · exact Or.inl rfl

/-- A float64 is written bit-identically unless it narrows to float32, and it narrows only when it is not a NaN and
    converting to float32 and back gives the same bits, or both are zeros. -/
theorem double_narrowing_sound (bits : Nat) :
    f64MV bits = .f64 bits ∨
    (f64MV bits = f32MV (JD.cvt SF.b64 SF.b32 bits) ∧ SF.decode SF.b64 bits ≠ .nan ∧
      (JD.cvt SF.b32 SF.b64 (JD.cvt SF.b64 SF.b32 bits) = bits ∨
        ∃ n e n' e', SF.decode SF.b64 bits = .fin n 0 e ∧
          SF.decode SF.b32 (JD.cvt SF.b64 SF.b32 bits) = .fin n' 0 e')) := by
  unfold f64MV
  by_cases hn : narrows bits = true
  · rw [if_pos hn]
    exact Or.inr ⟨rfl, (narrows_spec bits hn).1, (narrows_spec bits hn).2⟩
  · rw [if_neg hn]; exact Or.inl rfl

/-- Narrowing loses nothing: when `encF64` hands the value to the float32 encoder, that float32 is the same number as
    the double (same sign, `m * 2^e = (m * 2^j) * 2^(e - j)`), or the same infinity, or both are zeros. -/
theorem double_narrowing_exact (bits : Nat) (hn : narrows bits = true) :
    (∃ neg m e, ∃ j : Nat, SF.decode SF.b32 (JD.cvt SF.b64 SF.b32 bits) = .fin neg m e ∧
        SF.decode SF.b64 bits = .fin neg (m * 2^j) (e - (j : Int))) ∨
    (∃ n, SF.decode SF.b32 (JD.cvt SF.b64 SF.b32 bits) = .inf n ∧ SF.decode SF.b64 bits = .inf n) ∨
    (∃ n e n' e', SF.decode SF.b64 bits = .fin n 0 e ∧
        SF.decode SF.b32 (JD.cvt SF.b64 SF.b32 bits) = .fin n' 0 e') := by
  obtain ⟨hnan, h | h⟩ := narrows_spec bits hn
  · cases hd : SF.decode SF.b32 (JD.cvt SF.b64 SF.b32 bits) with
    | nan =>
      exfalso; apply hnan
      have : JD.cvt SF.b32 SF.b64 (JD.cvt SF.b64 SF.b32 bits) = SF.nanBits SF.b64 := cvt_nan _ _ _ hd
      rw [← h, this]; exact decode64_nanBits
    | inf n =>
      right; left
      have : JD.cvt SF.b32 SF.b64 (JD.cvt SF.b64 SF.b32 bits) = SF.infBits SF.b64 n := cvt_inf _ _ _ n hd
      refine ⟨n, rfl, ?_⟩
      rw [← h, this]; exact decode64_infBits n
    | fin neg m e =>
      by_cases hm0 : m = 0
      · subst hm0
        right; right
        refine ⟨neg, -1074, neg, e, ?_, rfl⟩
        rw [← h]; exact widen_zero _ neg e hd
      · left
        refine ⟨neg, m, e, 53 - (Nat.log2 m + 1), rfl, ?_⟩
        rw [← h]; exact widen_exact _ neg m e hd hm0
  · exact Or.inr (Or.inr h)

/-! ## shortest headers -/
/-- The header (resp. the whole integer encoding) is the shortest one of its family that can hold the length
    (resp. the value): fix* below 32/16/≤127, 8-bit below 256 (strings only), 16-bit below 65536, 32-bit otherwise,
    64-bit only for integers above 2^32 - 1. -/
theorem header_minimal (n : Nat) :
    (strHdr n).length = (if n < 32 then 1 else if n < 256 then 2 else if n < 65536 then 3 else 5) ∧
    (arrHdr n).length = (if n < 16 then 1 else if n < 65536 then 3 else 5) ∧
    (mapHdr n).length = (if n < 16 then 1 else if n < 65536 then 3 else 5) ∧
    (encUInt n).length =
      (if n ≤ 127 then 1 else if n ≤ 255 then 2 else if n ≤ 65535 then 3 else if n ≤ 4294967295 then 5 else 9) :=
  ⟨strHdr_length n, arrHdr_length n, mapHdr_length n, encUInt_length n⟩

theorem header_minimal_int (v : Int) (h : v ≤ 0) :
    (encInt v).length =
      (if v ≥ -32 then 1 else if v ≥ -128 then 2 else if v ≥ -32768 then 3 else if v ≥ -2147483648 then 5 else 9) := by
  rw [encInt_length, if_neg (by omega)]

/-! ## non-vacuity -/
/-- a nested document: {"a": [0,1,…,15], "pi": 3.5f, "n": -300, "s": "hi", "d": 0.1, "t": true, "z": null} -/
def sample : Val :=
  .obj [ ([0x61], .arr ((List.range 16).map (fun i => .num (.uint i)))),
         ([0x70, 0x69], .num (.f32 0x40600000)),
         ([0x6E], .num (.sint (-300))),
         ([0x73], .str [0x68, 0x69]),
         ([0x64], .num (.f64 0x3FB999999999999A)),
         ([0x74], .bool true),
         ([0x7A], .arr [.null, .num (.f32 0x40000000), .num (.f64 0x4008000000000000)]) ]

example : RawFree sample = true ∧ WithinLimits sample = true := by decide +kernel

example : ser sample =
    [0x87, 0xA1, 0x61, 0xDC, 0x00, 0x10, 0,1,2,3,4,5,6,7,8,9,10,11,12,13,14,15,
     0xA2, 0x70, 0x69, 0xCA, 0x40, 0x60, 0x00, 0x00,
     0xA1, 0x6E, 0xD1, 0xFE, 0xD4,
     0xA1, 0x73, 0xA2, 0x68, 0x69,
     0xA1, 0x64, 0xCB, 0x3F, 0xB9, 0x99, 0x99, 0x99, 0x99, 0x99, 0x9A,
     0xA1, 0x74, 0xC3,
     0xA1, 0x7A, 0x93, 0xC0, 0x02, 0x03] := by decide +kernel

example : decodeTop (ser sample) = some (mvOf sample, []) :=
  ser_decodeTop sample (by decide +kernel) (by decide +kernel)

/-- `need` is exact on the sample: one unit of fuel less and the decoder gives up -/
example : need sample = 20 ∧ (decode (need sample - 1) (ser sample)).isNone = true := by decide +kernel

/-- the float 2.0f goes out as the integer 2, and it is the same number -/
example : f32MV 0x40000000 = .int 2 := by rfl
example : ser (.num (.f32 0x40000000)) = [0x02] := by decide +kernel
/-- the double 3.0 narrows to float32 and then to the integer 3; 0.1 stays a float64; -0.0f becomes integer 0 -/
example : f64MV 0x4008000000000000 = .int 3 := by rfl
example : f64MV 0x3FB999999999999A = .f64 0x3FB999999999999A := by rfl
example : ser (.num (.f64 0x4008000000000000)) = [0x03] := by decide +kernel
example : ser (.num (.f32 0x80000000)) = [0x00] := by decide +kernel

end C08
