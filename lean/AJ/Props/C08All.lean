/- Aggregate: C08 conformity theorems (C08.lean) and the bounded-buffer theorems for MessagePack output (SlotCor2.lean). -/
import AJ.Props.C08
import AJ.Props.SlotCor2
import AJ.Props.DocGen
