/- C07 / C09 / C16 (MessagePack side): `deserializeMsgPack (serializeMsgPack d)` accepts, consumes exactly the bytes of the
   object whatever follows, yields the normalised document `norm d`, and `norm d` serialises to the same bytes.
   Error cases: reserved code 0xC1, empty input, non-string key. -/
import AJ.Lemmas.MpRoundTrip
namespace C09
open JD hiding parseVariant run
open SF MD

/-! ## what comes back: `norm` mirrors the code paths of `MD.ser` followed by `MD.parseVariant` -/

/-- the float32 → integer shortcut taken by `MD.encF32` (`some k`: the value is written as the integer `k`) -/
def f32Int (bits : Nat) : Option Int :=
  match decode b32 bits with
  | .fin neg m e =>
    let inRange := ge b32 bits 0xDF000000 && le b32 bits 0x5EFFFFFF
    let isInt := e ≥ 0 || m % 2^((-e).toNat) == 0
    if inRange && isInt then
      let mag := if e ≥ 0 then m * 2^e.toNat else m / 2^((-e).toNat)
      some (if neg then -(mag : Int) else mag)
    else none
  | _ => none

/-- the "double is exactly a float" test of `MD.encF64` -/
def same64 (bits : Nat) : Bool :=
  match decode b64 bits with
  | .nan => false
  | _ => cvt b32 b64 (cvt b64 b32 bits) == bits ||
      (match decode b64 bits, decode b32 (cvt b64 b32 bits) with | .fin _ 0 _, .fin _ 0 _ => true | _, _ => false)

def normF32 (bits : Nat) : Num :=
  match f32Int bits with
  | some k => normInt k
  | none => .f32 bits

def normNum : Num → Num
  | .uint n => if n ≤ 0x7F then .sint n else .uint n
  | .sint v => normInt v
  | .f32 b => normF32 b
  | .f64 b => if same64 b then normF32 (cvt b64 b32 b) else storeDouble b

mutual
def norm : Val → Val
  | .null => .null
  | .bool b => .bool b
  | .num n => .num (normNum n)
  | .str s => .str s
  | .raw s => .raw s
  | .arr xs => .arr (normElems xs)
  | .obj ms => .obj (normMembers ms)
def normElems : List Val → List Val
  | [] => []
  | x :: r => norm x :: normElems r
def normMembers : List (List Byte × Val) → List (List Byte × Val)
  | [] => []
  | (k, v) :: r => (k, norm v) :: normMembers r
end

/-! ## hypotheses -/
mutual
def RawFree : Val → Prop
  | .raw _ => False
  | .arr xs => RawFreeElems xs
  | .obj ms => RawFreeMembers ms
  | _ => True
def RawFreeElems : List Val → Prop
  | [] => True
  | x :: r => RawFree x ∧ RawFreeElems r
def RawFreeMembers : List (List Byte × Val) → Prop
  | [] => True
  | (_, v) :: r => RawFree v ∧ RawFreeMembers r
end

/-- integers in the 64-bit ranges (signed: `-2^63 ≤ v`, and `v < 2^64` so that positive values written through the
    unsigned formats are covered), float bit patterns within their width -/
def NumOk : Num → Prop
  | .uint n => n < 2^64
  | .sint v => -2^63 ≤ v ∧ v < 2^64
  | .f32 b => b < 2^32
  | .f64 b => b < 2^64

mutual
def WithinLimits (env : Env) : Val → Prop
  | .num n => NumOk n
  | .str s => s.length ≤ env.maxStrLen ∧ s.length < 2^32
  | .arr xs => xs.length < 2^32 ∧ WithinLimitsElems env xs
  | .obj ms => ms.length < 2^32 ∧ WithinLimitsMembers env ms
  | _ => True
def WithinLimitsElems (env : Env) : List Val → Prop
  | [] => True
  | x :: r => WithinLimits env x ∧ WithinLimitsElems env r
def WithinLimitsMembers (env : Env) : List (List Byte × Val) → Prop
  | [] => True
  | (k, v) :: r => (k.length ≤ env.maxStrLen ∧ k.length < 2^32) ∧ WithinLimits env v ∧ WithinLimitsMembers env r
end

mutual
def depth : Val → Nat
  | .arr xs => 1 + depthElems xs
  | .obj ms => 1 + depthMembers ms
  | _ => 0
def depthElems : List Val → Nat
  | [] => 0
  | x :: r => max (depth x) (depthElems r)
def depthMembers : List (List Byte × Val) → Nat
  | [] => 0
  | (_, v) :: r => max (depth v) (depthMembers r)
end

/- fuel that suffices for `parseVariant` on `ser v` -/
mutual
def fuelNeed : Val → Nat
  | .arr xs => 1 + fuelElems xs
  | .obj ms => 1 + fuelMembers ms
  | _ => 1
def fuelElems : List Val → Nat
  | [] => 1
  | x :: r => 1 + max (fuelNeed x) (fuelElems r)
def fuelMembers : List (List Byte × Val) → Nat
  | [] => 1
  | (_, v) :: r => 1 + max (fuelNeed v) (fuelMembers r)
end

/-! ## the serializer's float paths in terms of `f32Int` / `same64` -/
theorem encF32_eq (bits : Nat) :
    encF32 bits = match f32Int bits with | some k => encInt k | none => 0xCA :: beN 4 bits := by
  unfold encF32 f32Int
  generalize decode b32 bits = d
  cases d with
  | nan => rfl
  | inf n => rfl
  | fin neg m e =>
    simp only
    split <;> simp [*]

theorem encF64_eq (bits : Nat) :
    encF64 bits = if same64 bits then encF32 (cvt b64 b32 bits) else 0xCB :: beN 8 bits := rfl

/-! ## numbers -/
section main
variable (env : Env)

/-- the two facts about the softfloat model that the float cases need -/
def FloatFacts : Prop :=
  (∀ b k, f32Int b = some k → -2^63 ≤ k ∧ k < 2^64) ∧ (∀ b, cvt b64 b32 b < 2^32)

theorem pv_encF32 (fuel limit : Nat) (rest : List Byte) (p : Nat) (b : Nat)
    (FR : ∀ b k, f32Int b = some k → -2^63 ≤ k ∧ k < 2^64) (hb : b < 2^32) :
    parseVariant env (fuel+1) limit .all true ⟨encF32 b ++ rest, p⟩
      = (.ok, .num (normF32 b), ⟨rest, p + (encF32 b).length⟩, true) := by
  rw [encF32_eq]
  unfold normF32
  cases hf : f32Int b with
  | none =>
    simp only
    rw [List.cons_append, pv_f32 env fuel limit rest p (beN 4 b) (beN_length _ _), beNat_beN4 b (by omega)]
    simp [beN_length]
  | some k =>
    simp only
    exact pv_encInt env fuel limit rest p k (FR b k hf).1 (FR b k hf).2

theorem pv_num (fuel limit : Nat) (rest : List Byte) (p : Nat) (n : Num) (h : NumOk n) (FF : FloatFacts) :
    parseVariant env (fuel+1) limit .all true ⟨ser (.num n) ++ rest, p⟩
      = (.ok, .num (normNum n), ⟨rest, p + (ser (.num n)).length⟩, true) := by
  cases n with
  | uint n =>
    simp only [ser, normNum]
    rw [pv_encUInt env fuel limit rest p n h]
    by_cases h7 : n ≤ 0x7F
    · rw [normInt_small n h7, if_pos h7]
    · rw [normInt_big n h7, if_neg h7]
  | sint v =>
    simp only [ser, normNum]
    exact pv_encInt env fuel limit rest p v h.1 h.2
  | f32 b =>
    simp only [ser, normNum]
    exact pv_encF32 env fuel limit rest p b FF.1 h
  | f64 b =>
    simp only [ser, normNum]
    rw [encF64_eq]
    by_cases hs : same64 b = true
    · rw [if_pos hs, if_pos hs]
      exact pv_encF32 env fuel limit rest p _ FF.1 (FF.2 b)
    · rw [if_neg hs, if_neg hs]
      rw [List.cons_append, pv_f64 env fuel limit rest p (beN 8 b) (beN_length _ _), beNat_beN8 b h]
      simp [beN_length]

/-! ## the mutual induction -/
theorem fuelNeed_pos (v : Val) : 1 ≤ fuelNeed v := by
  cases v <;> simp only [fuelNeed] <;> omega
theorem fuelElems_pos (xs : List Val) : 1 ≤ fuelElems xs := by
  cases xs <;> simp only [fuelElems] <;> omega
theorem fuelMembers_pos (ms : List (List Byte × Val)) : 1 ≤ fuelMembers ms := by
  cases ms with
  | nil => simp only [fuelMembers]; omega
  | cons km r => obtain ⟨k, v⟩ := km; simp only [fuelMembers]; omega

theorem main (FF : FloatFacts) : ∀ fuel : Nat,
    (∀ v limit rest p, RawFree v → WithinLimits env v → depth v ≤ limit → fuelNeed v ≤ fuel →
      parseVariant env fuel limit .all true ⟨ser v ++ rest, p⟩ = (.ok, norm v, ⟨rest, p + (ser v).length⟩, true)) ∧
    (∀ xs limit rest p acc, RawFreeElems xs → WithinLimitsElems env xs → depthElems xs ≤ limit → fuelElems xs ≤ fuel →
      readArray env fuel limit .all true xs.length ⟨serElems xs ++ rest, p⟩ acc
        = (.ok, acc.reverse ++ normElems xs, ⟨rest, p + (serElems xs).length⟩)) ∧
    (∀ ms limit rest p acc, RawFreeMembers ms → WithinLimitsMembers env ms → depthMembers ms ≤ limit → fuelMembers ms ≤ fuel →
      readObject env fuel limit .all true ms.length ⟨serMembers ms ++ rest, p⟩ acc
        = (.ok, acc ++ normMembers ms, ⟨rest, p + (serMembers ms).length⟩)) := by
  intro fuel
  induction fuel with
  | zero =>
    refine ⟨?_, ?_, ?_⟩
    · intro v _ _ _ _ _ _ hf; have := fuelNeed_pos v; omega
    · intro xs _ _ _ _ _ _ _ hf; have := fuelElems_pos xs; omega
    · intro ms _ _ _ _ _ _ _ hf; have := fuelMembers_pos ms; omega
  | succ fuel ih =>
    obtain ⟨ihV, ihE, ihM⟩ := ih
    refine ⟨?_, ?_, ?_⟩
    · intro v limit rest p hr hw hd hf
      cases v with
      | null =>
        simp only [ser, norm, List.cons_append, List.nil_append, List.length_singleton]
        exact pv_null env fuel limit rest p
      | bool b =>
        simp only [ser, norm, List.cons_append, List.nil_append, List.length_singleton]
        exact pv_bool env fuel limit rest p b
      | num n =>
        simp only [WithinLimits] at hw
        simp only [norm]
        exact pv_num env fuel limit rest p n hw FF
      | str s =>
        simp only [WithinLimits] at hw
        simp only [ser, norm]
        exact pv_str env fuel limit rest p s hw.1 hw.2
      | raw s => simp only [RawFree] at hr
      | arr xs =>
        simp only [depth] at hd
        simp only [fuelNeed] at hf
        simp only [WithinLimits] at hw
        simp only [RawFree] at hr
        obtain ⟨l, rfl⟩ : ∃ l, limit = l + 1 := ⟨limit - 1, by omega⟩
        simp only [ser, norm]
        rw [List.append_assoc, pv_arr env fuel l p xs.length _ hw.1,
          ihE xs l rest _ [] hr hw.2 (by omega) (by omega)]
        simp only [arrResult, List.reverse_nil, List.nil_append, List.length_append, Nat.add_assoc]
      | obj ms =>
        simp only [depth] at hd
        simp only [fuelNeed] at hf
        simp only [WithinLimits] at hw
        simp only [RawFree] at hr
        obtain ⟨l, rfl⟩ : ∃ l, limit = l + 1 := ⟨limit - 1, by omega⟩
        simp only [ser, norm]
        rw [List.append_assoc, pv_map env fuel l p ms.length _ hw.1,
          ihM ms l rest _ [] hr hw.2 (by omega) (by omega)]
        simp only [objResult, List.nil_append, List.length_append, Nat.add_assoc]
    · intro xs limit rest p acc hr hw hd hf
      cases xs with
      | nil =>
        simp only [serElems, normElems, List.length_nil, List.nil_append, List.append_nil, Nat.add_zero]
        exact ra_zero env fuel limit _ acc
      | cons x r =>
        simp only [RawFreeElems] at hr
        simp only [WithinLimitsElems] at hw
        simp only [depthElems] at hd
        simp only [fuelElems] at hf
        simp only [serElems, normElems, List.length_cons, List.append_assoc]
        have hx := ihV x limit (serElems r ++ rest) p hr.1 hw.1 (by omega) (by omega)
        rw [ra_succ env fuel limit r.length _ _ acc _ _ hx,
          ihE r limit rest _ (norm x :: acc) hr.2 hw.2 (by omega) (by omega)]
        simp only [List.reverse_cons, List.append_assoc, List.cons_append, List.nil_append, List.length_append,
          Nat.add_assoc]
    · intro ms limit rest p acc hr hw hd hf
      cases ms with
      | nil =>
        simp only [serMembers, normMembers, List.length_nil, List.nil_append, List.append_nil, Nat.add_zero]
        exact ro_zero env fuel limit _ acc
      | cons km r =>
        obtain ⟨k, v⟩ := km
        simp only [RawFreeMembers] at hr
        simp only [WithinLimitsMembers] at hw
        simp only [depthMembers] at hd
        simp only [fuelMembers] at hf
        simp only [serMembers, normMembers, List.length_cons]
        rw [show (strHdr k.length ++ k ++ ser v ++ serMembers r) ++ rest
            = (strHdr k.length ++ k) ++ (ser v ++ (serMembers r ++ rest)) by simp only [List.append_assoc]]
        have hv := ihV v limit (serMembers r ++ rest) (p + (strHdr k.length ++ k).length) hr.1 hw.2.1 (by omega) (by omega)
        rw [ro_succ env fuel limit p r.length k _ acc _ _ _ hw.1.1 hw.1.2 hv,
          ihM r limit rest _ (acc ++ [(k, norm v)]) hr.2 hw.2.2 (by omega) (by omega)]
        simp only [List.append_assoc, List.cons_append, List.nil_append, List.length_append, Nat.add_assoc]

end main

/-! ## lengths -/
theorem encUInt_pos (n : Nat) : 1 ≤ (encUInt n).length := by
  unfold encUInt; repeat' split
  all_goals simp
theorem encInt_pos (v : Int) : 1 ≤ (encInt v).length := by
  unfold encInt
  split
  · exact encUInt_pos _
  · repeat' split
    all_goals simp [beN_length]
theorem encF32_pos (b : Nat) : 1 ≤ (encF32 b).length := by
  rw [encF32_eq]; split
  · exact encInt_pos _
  · simp
theorem encF64_pos (b : Nat) : 1 ≤ (encF64 b).length := by
  rw [encF64_eq]; split
  · exact encF32_pos _
  · simp
theorem strHdr_pos (n : Nat) : 1 ≤ (strHdr n).length := by
  unfold strHdr; repeat' split
  all_goals simp
theorem arrHdr_pos (n : Nat) : 1 ≤ (arrHdr n).length := by
  unfold arrHdr; repeat' split
  all_goals simp
theorem mapHdr_pos (n : Nat) : 1 ≤ (mapHdr n).length := by
  unfold mapHdr; repeat' split
  all_goals simp

mutual
theorem fuelNeed_le : ∀ v, RawFree v → fuelNeed v ≤ 2 * (ser v).length
  | .null, _ => by simp [fuelNeed, ser]
  | .bool _, _ => by simp [fuelNeed, ser]
  | .num (.uint n), _ => by have := encUInt_pos n; simp only [fuelNeed, ser]; omega
  | .num (.sint n), _ => by have := encInt_pos n; simp only [fuelNeed, ser]; omega
  | .num (.f32 n), _ => by have := encF32_pos n; simp only [fuelNeed, ser]; omega
  | .num (.f64 n), _ => by have := encF64_pos n; simp only [fuelNeed, ser]; omega
  | .str s, _ => by have := strHdr_pos s.length; simp only [fuelNeed, ser, List.length_append]; omega
  | .raw s, h => by simp [RawFree] at h
  | .arr xs, h => by
    have := fuelElems_le xs (by simpa [RawFree] using h)
    have := arrHdr_pos xs.length
    simp only [fuelNeed, ser, List.length_append]; omega
  | .obj ms, h => by
    have := fuelMembers_le ms (by simpa [RawFree] using h)
    have := mapHdr_pos ms.length
    simp only [fuelNeed, ser, List.length_append]; omega
theorem fuelElems_le : ∀ xs, RawFreeElems xs → fuelElems xs ≤ 2 * (serElems xs).length + 1
  | [], _ => by simp [fuelElems, serElems]
  | x :: r, h => by
    have h' : RawFree x ∧ RawFreeElems r := by simpa [RawFreeElems] using h
    have h1 := fuelNeed_le x h'.1
    have h2 := fuelElems_le r h'.2
    have h3 := fuelNeed_pos x
    simp only [fuelElems, serElems, List.length_append]; omega
theorem fuelMembers_le : ∀ ms, RawFreeMembers ms → fuelMembers ms ≤ 2 * (serMembers ms).length + 1
  | [], _ => by simp [fuelMembers, serMembers]
  | (k, v) :: r, h => by
    have h' : RawFree v ∧ RawFreeMembers r := by simpa [RawFreeMembers] using h
    have h1 := fuelNeed_le v h'.1
    have h2 := fuelMembers_le r h'.2
    have h3 := fuelNeed_pos v
    simp only [fuelMembers, serMembers, List.length_append]; omega
end

/-- round trip, acceptance and exact consumption, given the two softfloat facts -/
theorem roundtrip_of (env : Env) (FF : FloatFacts) (L : Nat) (v : Val)
    (hr : RawFree v) (hw : WithinLimits env v) (hd : depth v ≤ L) (rest : List Byte) :
    MD.run env L .all (ser v ++ rest) = (.ok, norm v, (ser v).length) := by
  simp only [run]
  have hf := fuelNeed_le v hr
  rw [(main env FF (2 * (ser v ++ rest).length + 4)).1 v L rest 0 hr hw hd
    (by simp only [List.length_append]; omega)]
  simp

/-! ## second serialization -/
theorem ser_normInt (k : Int) : ser (.num (normInt k)) = encInt k := by
  unfold normInt
  split
  · simp only [ser]; unfold encInt; rw [if_pos (by omega)]
  · simp only [ser]

theorem encInt_natCast (n : Nat) : encInt (n : Int) = encUInt n := by
  unfold encInt
  split
  · simp
  · have : n = 0 := by omega
    subst this; decide

theorem storeDouble_of_not_same (b : Nat) (h : same64 b = false) : storeDouble b = .f64 b := by
  unfold storeDouble
  unfold same64 at h
  split
  · rfl
  · rename_i hnn
    split at h
    · rename_i hn; exact absurd hn hnn
    · simp only [Bool.or_eq_false_iff] at h
      obtain ⟨hA, hZ⟩ := h
      have hP : (decode b64 b == FP.fin false 0 (1 - 1023 - 52)) = false := by
        cases hp : (decode b64 b == FP.fin false 0 (1 - 1023 - 52)) with
        | false => rfl
        | true =>
          exfalso
          have hd : decode b64 b = FP.fin false 0 (1 - 1023 - 52) := by simpa using hp
          have hf : cvt b64 b32 b = 0 := by unfold cvt; rw [hd]; decide +kernel
          rw [hd, hf] at hZ
          revert hZ; decide +kernel
      simp only [hA, hP, Bool.false_or, Bool.false_eq_true, or_self, decide_false, reduceIte]
      split
      · rename_i h1 h2; rw [h1, h2] at hZ; simp at hZ
      · rfl

theorem ser_normF32 (b : Nat) : ser (.num (normF32 b)) = encF32 b := by
  unfold normF32
  cases hf : f32Int b with
  | none => simp only [ser]
  | some k => simp only []; rw [ser_normInt, encF32_eq, hf]

theorem ser_normNum (n : Num) : ser (.num (normNum n)) = ser (.num n) := by
  cases n with
  | uint n =>
    simp only [normNum]; split
    · simp only [ser]; exact encInt_natCast n
    · rfl
  | sint v => simp only [normNum]; rw [ser_normInt]; simp only [ser]
  | f32 b => simp only [normNum]; rw [ser_normF32]; simp only [ser]
  | f64 b =>
    simp only [normNum]
    by_cases hs : same64 b = true
    · rw [if_pos hs, ser_normF32]; simp only [ser]; rw [encF64_eq, if_pos hs]
    · rw [if_neg hs, storeDouble_of_not_same b (by simpa using hs)]


/-! ## the softfloat facts hold -/
theorem f32Int_range (b : Nat) (k : Int) (h : f32Int b = some k) : -2^63 ≤ k ∧ k < 2^64 := by
  unfold f32Int at h
  split at h
  · rename_i neg m e hd
    simp only at h
    split at h
    · rename_i hc
      injection h with hk
      simp only [Bool.and_eq_true, Bool.or_eq_true, decide_eq_true_eq] at hc
      obtain ⟨⟨hge, hle⟩, _⟩ := hc
      have hm : m < 2^24 := decode_b32_m_lt hd
      by_cases he : e ≥ 0
      · rw [if_pos he] at hk
        cases neg with
        | false =>
          have := le_fin_fin_pos b32 b 0x5EFFFFFF m 0xFFFFFF e 39 hd (by decide +kernel) hle
          have hb : m * 2^e.toNat ≤ 0xFFFFFF * 2^39 := by
            rcases Int.le_total e 39 with h39 | h39
            · apply pow_bound_lo _ _ _ _ (by omega)
              have e1 : (e - min 39 e).toNat = 0 := by omega
              have e2 : (39 - min 39 e).toNat = 39 - e.toNat := by omega
              rw [e1, e2, Nat.pow_zero, Nat.mul_one] at this
              exact this
            · apply pow_bound_hi _ _ _ _ (by omega)
              have e1 : (e - min 39 e).toNat = e.toNat - 39 := by omega
              have e2 : (39 - min 39 e).toNat = 0 := by omega
              rw [e1, e2, Nat.pow_zero, Nat.mul_one] at this
              exact this
          generalize m * 2^e.toNat = X at hk hb
          simp at hk
          omega
        | true =>
          have := le_fin_fin_neg b32 0xDF000000 b (2^23) m 40 e (by decide +kernel) hd hge
          have hb : m * 2^e.toNat ≤ 2^23 * 2^40 := by
            rcases Int.le_total e 40 with h40 | h40
            · apply pow_bound_lo _ _ _ _ (by omega)
              have e1 : (e - min e 40).toNat = 0 := by omega
              have e2 : (40 - min e 40).toNat = 40 - e.toNat := by omega
              rw [e1, e2, Nat.pow_zero, Nat.mul_one] at this
              exact this
            · apply pow_bound_hi _ _ _ _ (by omega)
              have e1 : (e - min e 40).toNat = e.toNat - 40 := by omega
              have e2 : (40 - min e 40).toNat = 0 := by omega
              rw [e1, e2, Nat.pow_zero, Nat.mul_one] at this
              exact this
          generalize m * 2^e.toNat = X at hk hb
          simp at hk
          omega
      · rw [if_neg he] at hk
        have : m / 2^(-e).toNat ≤ m := Nat.div_le_self _ _
        generalize m / 2^(-e).toNat = X at hk this
        cases neg <;> simp at hk <;> omega
    · cases h
  · cases h


theorem floatFacts : FloatFacts := ⟨f32Int_range, cvt_b32_lt⟩

/-! ## error cases (any filter, any nesting limit) -/

set_option maxRecDepth 8000 in
theorem pv_reserved (env : Env) (fuel limit : Nat) (flt : Flt) (hd : Bool) (rest : List Byte) (p : Nat) :
    parseVariant env (fuel+1) limit flt hd ⟨0xC1 :: rest, p⟩ = (.invalid, .null, ⟨rest, p+1⟩, true) := by
  rw [parseVariant]
  simp [R.read]

/-- the reserved code 0xC1 is rejected with InvalidInput after one byte -/
theorem reserved_code (env : Env) (L : Nat) (flt : Flt) (rest : List Byte) :
    MD.run env L flt (0xC1 :: rest) = (.invalid, .null, 1) := by
  simp only [run]
  rw [show 2 * (0xC1 :: rest).length + 4 = (2 * rest.length + 5) + 1 by simp only [List.length_cons]; omega,
    pv_reserved]
  rfl

/-- the empty input gives EmptyInput -/
theorem empty_input (env : Env) (L : Nat) (flt : Flt) : MD.run env L flt [] = (.empty, .null, 0) := by
  simp only [run]
  rw [show 2 * ([] : List Byte).length + 4 = 3 + 1 from rfl, parseVariant]
  simp [R.read]

set_option maxRecDepth 8000 in
/-- a one-member map whose key does not start with a str header (fixstr, str8, str16, str32) gives InvalidInput,
    two bytes consumed -/
theorem non_string_key (env : Env) (L : Nat) (flt : Flt) (c : Byte) (rest : List Byte)
    (h1 : ¬ (0xa0 ≤ c.toNat ∧ c.toNat ≤ 0xbf)) (h2 : ¬ (0xd9 ≤ c.toNat ∧ c.toNat ≤ 0xdb)) :
    (MD.run env (L+1) flt (0x81 :: c :: rest)).1 = .invalid ∧ (MD.run env (L+1) flt (0x81 :: c :: rest)).2.2 = 2 := by
  simp only [run]
  rw [show 2 * (0x81 :: c :: rest).length + 4 = (2 * rest.length + 6) + 1 + 1 by simp only [List.length_cons]; omega,
    parseVariant]
  simp only [R.read]
  generalize hc : (0x81 : UInt8).toNat = n
  have hn : n = 129 := by rw [← hc]; rfl
  generalize flt.allowObject = ao
  cond_simp
  have key : ∀ (b : Bool) (ms : List (List Byte × Val)),
      readObject env (2 * rest.length + 6 + 1) L flt b (n % 16) ⟨c :: rest, 0 + 1⟩ ms = (.invalid, ms, ⟨rest, 0 + 1 + 1⟩) := by
    intro b ms
    have e1 : n % 16 = 1 := by omega
    rw [e1, readObject]
    simp only [R.read]
    generalize c.toNat = m at *
    have f1 : (m / 32 == 5) = false := by apply bF; omega
    have f2 : (decide (217 ≤ m) && decide (m ≤ 219)) = false := by
      rcases Nat.lt_or_ge m 217 with h | h
      · rw [dF (show ¬ 217 ≤ m by omega)]; rfl
      · rw [dF (show ¬ m ≤ 219 by omega)]; simp
    have f3 : ((1 : Nat) == 0) = false := rfl
    simp only [f1, f2, f3, Bool.false_eq_true, reduceIte]
  cases ao <;> simp [key]


/-! ## MAIN: round trip (C07), acceptance (C09), exact consumption whatever follows (C16) -/
theorem roundtrip (env : Env) (L : Nat) (v : Val)
    (hr : RawFree v) (hw : WithinLimits env v) (hd : depth v ≤ L) (rest : List Byte) :
    MD.run env L .all (ser v ++ rest) = (.ok, norm v, (ser v).length) :=
  roundtrip_of env floatFacts L v hr hw hd rest

/-! ## second serialization is byte-identical; `norm` is idempotent -/
theorem normElems_length (xs : List Val) : (normElems xs).length = xs.length := by
  induction xs with
  | nil => rfl
  | cons x r ih => simp only [normElems, List.length_cons, ih]
theorem normMembers_length (ms : List (List Byte × Val)) : (normMembers ms).length = ms.length := by
  induction ms with
  | nil => rfl
  | cons km r ih => obtain ⟨k, v⟩ := km; simp only [normMembers, List.length_cons, ih]

mutual
theorem fixpoint : ∀ v : Val, ser (norm v) = ser v
  | .null => by simp only [norm]
  | .bool _ => by simp only [norm]
  | .num n => by simp only [norm]; exact ser_normNum n
  | .str _ => by simp only [norm]
  | .raw _ => by simp only [norm]
  | .arr xs => by simp only [norm, ser, normElems_length, fixpointElems xs]
  | .obj ms => by simp only [norm, ser, normMembers_length, fixpointMembers ms]
theorem fixpointElems : ∀ xs : List Val, serElems (normElems xs) = serElems xs
  | [] => by simp only [normElems]
  | x :: r => by simp only [normElems, serElems, fixpoint x, fixpointElems r]
theorem fixpointMembers : ∀ ms : List (List Byte × Val), serMembers (normMembers ms) = serMembers ms
  | [] => by simp only [normMembers]
  | (k, v) :: r => by simp only [normMembers, serMembers, fixpoint v, fixpointMembers r]
end

theorem normNum_normInt (k : Int) : normNum (normInt k) = normInt k := by
  unfold normInt
  split
  · simp only [normNum]; rw [if_neg (by omega)]
  · rename_i h; simp only [normNum]; unfold normInt; rw [if_neg h]

theorem normNum_normF32 (b : Nat) : normNum (normF32 b) = normF32 b := by
  unfold normF32
  cases hf : f32Int b with
  | none => simp only [normNum]; unfold normF32; rw [hf]
  | some k => exact normNum_normInt k

set_option linter.unusedSimpArgs false in
theorem normNum_idem (n : Num) : normNum (normNum n) = normNum n := by
  cases n with
  | uint n =>
    by_cases h : n ≤ 0x7F
    · have e : normNum (.uint n) = .sint n := by simp only [normNum]; rw [if_pos h]
      rw [e]; simp only [normNum]; exact normInt_small n h
    · have e : normNum (.uint n) = .uint n := by simp only [normNum]; rw [if_neg h]
      rw [e, e]
  | sint v => simp only [normNum]; exact normNum_normInt v
  | f32 b => simp only [normNum]; exact normNum_normF32 b
  | f64 b =>
    simp only [normNum]
    by_cases hs : same64 b = true
    · rw [if_pos hs]; exact normNum_normF32 _
    · rw [if_neg hs, storeDouble_of_not_same b (by simpa using hs)]
      simp only [normNum]
      rw [if_neg hs, storeDouble_of_not_same b (by simpa using hs)]

mutual
theorem norm_idem : ∀ v : Val, norm (norm v) = norm v
  | .null => by simp only [norm]
  | .bool _ => by simp only [norm]
  | .num n => by simp only [norm, normNum_idem]
  | .str _ => by simp only [norm]
  | .raw _ => by simp only [norm]
  | .arr xs => by simp only [norm, normElems_idem xs]
  | .obj ms => by simp only [norm, normMembers_idem ms]
theorem normElems_idem : ∀ xs : List Val, normElems (normElems xs) = normElems xs
  | [] => by simp only [normElems]
  | x :: r => by simp only [normElems, norm_idem x, normElems_idem r]
theorem normMembers_idem : ∀ ms : List (List Byte × Val), normMembers (normMembers ms) = normMembers ms
  | [] => by simp only [normMembers]
  | (k, v) :: r => by simp only [normMembers, norm_idem v, normMembers_idem r]
end

/-- deserialising, serialising again gives the same bytes (C07, second clause) -/
theorem reserialize (env : Env) (L : Nat) (v : Val)
    (hr : RawFree v) (hw : WithinLimits env v) (hd : depth v ≤ L) (rest : List Byte) :
    ser (MD.run env L .all (ser v ++ rest)).2.1 = ser v := by
  rw [roundtrip env L v hr hw hd rest]; exact fixpoint v

/-! ## "equal in value" -/
/-- exact value of an integer-typed number -/
def intVal : Num → Option Int
  | .uint n => some n
  | .sint v => some v
  | _ => none

/-- the binary32 pattern `bits` is finite and denotes exactly the integer `k`: `(-1)^neg * m * 2^e = k` -/
def F32IsInt (bits : Nat) (k : Int) : Prop :=
  ∃ neg m e, decode b32 bits = .fin neg m e ∧
    (if neg then -(m : Int) else (m : Int)) * 2^e.toNat = k * 2^(-e).toNat

/-- numbers equal in value: identical; or two integers with the same value; or a float32 whose exact value is that
    integer; a double counts through what `VariantData::setFloat(double)` stores for it (`storeDouble`) -/
inductive SameValue : Num → Num → Prop
  | refl (a : Num) : SameValue a a
  | ints (a b : Num) (k : Int) : intVal a = some k → intVal b = some k → SameValue a b
  | f32int (bits : Nat) (b : Num) (k : Int) : intVal b = some k → F32IsInt bits k → SameValue (.f32 bits) b
  | f64 (bits : Nat) (b : Num) : SameValue (storeDouble bits) b → SameValue (.f64 bits) b

theorem intVal_normInt (k : Int) : intVal (normInt k) = some k := by
  unfold normInt
  split
  · simp only [intVal]; congr 1; omega
  · rfl

theorem f32Int_exact (b : Nat) (k : Int) (h : f32Int b = some k) : F32IsInt b k := by
  unfold f32Int at h
  split at h
  · rename_i neg m e hd
    simp only at h
    split at h
    · rename_i hc
      injection h with hk
      simp only [Bool.and_eq_true, Bool.or_eq_true, decide_eq_true_eq, beq_iff_eq] at hc
      obtain ⟨_, hint⟩ := hc
      refine ⟨neg, m, e, hd, ?_⟩
      by_cases he : e ≥ 0
      · rw [if_pos he] at hk
        have e0 : (-e).toNat = 0 := by omega
        rw [e0, Int.pow_zero, Int.mul_one, ← hk]
        cases neg <;> simp [Int.neg_mul]
      · rw [if_neg he] at hk
        have e0 : e.toNat = 0 := by omega
        have hmod : m % 2^(-e).toNat = 0 := by
          rcases hint with h | h
          · exact absurd h he
          · exact h
        have hdm : m = m / 2^(-e).toNat * 2^(-e).toNat := (Nat.div_mul_cancel (Nat.dvd_of_mod_eq_zero hmod)).symm
        rw [e0, Int.pow_zero, Int.mul_one, ← hk]
        generalize m / 2^(-e).toNat = q at hdm
        cases neg
        · simp only [Bool.false_eq_true, reduceIte]; rw [hdm]; push_cast; rfl
        · simp only [reduceIte]; rw [hdm]; push_cast; rw [Int.neg_mul]
    · cases h
  · cases h

theorem sameValue_normF32 (b : Nat) : SameValue (.f32 b) (normF32 b) := by
  unfold normF32
  cases hf : f32Int b with
  | none => exact .refl _
  | some k => exact .f32int b _ k (intVal_normInt k) (f32Int_exact b k hf)

theorem storeDouble_of_same (b : Nat) (h : same64 b = true) : storeDouble b = .f32 (cvt b64 b32 b) := by
  unfold storeDouble
  unfold same64 at h
  split
  · rename_i hn; rw [hn] at h; simp at h
  · rename_i hnn
    split at h
    · cases h
    · simp only [Bool.or_eq_true] at h
      rcases h with hA | hZ
      · simp [hA]
      · split at hZ
        · rename_i h1 h2; simp only [h1, h2, ite_self]
        · cases hZ

/-- `norm` never changes the numeric value of a number -/
theorem normNum_value_preserving (n : Num) : SameValue n (normNum n) := by
  cases n with
  | uint n =>
    simp only [normNum]
    split
    · exact .ints _ _ n rfl rfl
    · exact .refl _
  | sint v => exact .ints _ _ v rfl (intVal_normInt v)
  | f32 b => exact sameValue_normF32 b
  | f64 b =>
    simp only [normNum]
    by_cases hs : same64 b = true
    · rw [if_pos hs]
      apply SameValue.f64
      rw [storeDouble_of_same b hs]
      exact sameValue_normF32 _
    · rw [if_neg hs]
      exact .f64 _ _ (.refl _)

/- documents equal in value: same shape, same strings / keys in the same order, numbers `SameValue` -/
mutual
def ValSame : Val → Val → Prop
  | .null, .null => True
  | .bool a, .bool b => a = b
  | .num a, .num b => SameValue a b
  | .str a, .str b => a = b
  | .raw a, .raw b => a = b
  | .arr xs, .arr ys => ElemsSame xs ys
  | .obj ms, .obj ns => MembersSame ms ns
  | _, _ => False
def ElemsSame : List Val → List Val → Prop
  | [], [] => True
  | x :: r, y :: s => ValSame x y ∧ ElemsSame r s
  | _, _ => False
def MembersSame : List (List Byte × Val) → List (List Byte × Val) → Prop
  | [], [] => True
  | (k, x) :: r, (k', y) :: s => k = k' ∧ ValSame x y ∧ MembersSame r s
  | _, _ => False
end

mutual
theorem norm_value_preserving : ∀ v : Val, ValSame v (norm v)
  | .null => by simp only [norm, ValSame]
  | .bool _ => by simp only [norm, ValSame]
  | .num n => by simp only [norm, ValSame]; exact normNum_value_preserving n
  | .str _ => by simp only [norm, ValSame]
  | .raw _ => by simp only [norm, ValSame]
  | .arr xs => by simp only [norm, ValSame]; exact normElems_value_preserving xs
  | .obj ms => by simp only [norm, ValSame]; exact normMembers_value_preserving ms
theorem normElems_value_preserving : ∀ xs : List Val, ElemsSame xs (normElems xs)
  | [] => by simp only [normElems, ElemsSame]
  | x :: r => by
    simp only [normElems, ElemsSame]
    exact ⟨norm_value_preserving x, normElems_value_preserving r⟩
theorem normMembers_value_preserving : ∀ ms : List (List Byte × Val), MembersSame ms (normMembers ms)
  | [] => by simp only [normMembers, MembersSame]
  | (k, v) :: r => by
    simp only [normMembers, MembersSame]
    exact ⟨trivial, norm_value_preserving v, normMembers_value_preserving r⟩
end


/-! ## non-vacuity -/
/-- `{"a":[5,-3,2.0f,1.5f,"hi",null,true,300,1.5,0.1],"b":{}}` -/
def exDoc : Val := .obj [([0x61], .arr [.num (.uint 5), .num (.sint (-3)), .num (.f32 0x40000000), .num (.f32 0x3FC00000),
  .str [0x68, 0x69], .null, .bool true, .num (.uint 300), .num (.f64 0x3FF8000000000000), .num (.f64 0x3FB999999999999A)]),
  ([0x62], .obj [])]
def exBytes : List Byte :=
  [0x82, 0xA1, 0x61, 0x9A, 0x05, 0xFD, 0x02, 0xCA, 0x3F, 0xC0, 0x00, 0x00, 0xA2, 0x68, 0x69, 0xC0, 0xC3, 0xCD, 0x01, 0x2C,
   0xCA, 0x3F, 0xC0, 0x00, 0x00, 0xCB, 0x3F, 0xB9, 0x99, 0x99, 0x99, 0x99, 0x99, 0x9A, 0xA1, 0x62, 0x80]

example : ser exDoc = exBytes := by decide +kernel

/-- `roundtrip` instantiated: trailing garbage `C1 FF` is not touched, 37 bytes consumed -/
example : MD.run ⟨65535⟩ 10 .all (exBytes ++ [0xC1, 0xFF]) = (.ok, norm exDoc, 37) := by
  have h := roundtrip ⟨65535⟩ 10 exDoc
    (by simp only [exDoc, RawFree, RawFreeElems, RawFreeMembers, and_self])
    (by simp only [exDoc, WithinLimits, WithinLimitsElems, WithinLimitsMembers, NumOk, List.length_cons,
          List.length_nil]; decide)
    (by simp only [exDoc, depth, depthElems, depthMembers]; decide)
    [0xC1, 0xFF]
  rw [show ser exDoc = exBytes by decide +kernel] at h
  exact h

/-- the same facts by direct evaluation of the model (independent of the theorem) -/
example : (MD.run ⟨65535⟩ 10 .all (exBytes ++ [0xC1, 0xFF])).1 = .ok
    ∧ (MD.run ⟨65535⟩ 10 .all (exBytes ++ [0xC1, 0xFF])).2.2 = 37
    ∧ ser (MD.run ⟨65535⟩ 10 .all (exBytes ++ [0xC1, 0xFF])).2.1 = exBytes := by decide +kernel

/-- `norm` is not the identity here (2.0f became the integer 2, the double 1.5 became a float), the bytes agree -/
example : ser (norm exDoc) = exBytes := by rw [fixpoint]; decide +kernel

example : MD.run ⟨65535⟩ 10 .all [0xC1, 0x00] = (.invalid, .null, 1) := reserved_code _ _ _ _
example : MD.run ⟨65535⟩ 0 (.doc none) [] = (.empty, .null, 0) := empty_input _ _ _
example : (MD.run ⟨65535⟩ 1 .all [0x81, 0x01, 0x02]).1 = .invalid ∧ (MD.run ⟨65535⟩ 1 .all [0x81, 0x01, 0x02]).2.2 = 2 :=
  non_string_key ⟨65535⟩ 0 .all 0x01 [0x02] (by decide) (by decide)
/-- a proper prefix (12 of 37 bytes) gives IncompleteInput (instance of the unproved general statement) -/
example : (MD.run ⟨65535⟩ 10 .all (exBytes.take 12)).1 = .incomplete := by decide +kernel

/-! ## proper prefixes (partial: null, bool, numbers) -/
theorem readBytes_short (l : List Byte) (p k : Nat) (h : l.length < k) :
    R.readBytes ⟨l, p⟩ k = (none, ⟨[], p + l.length⟩) := by
  simp only [R.readBytes]
  rw [if_neg (by omega)]

set_option maxRecDepth 8000 in
theorem pv_int_short (env : Env) (fuel limit : Nat) (p : Nat) (code : Byte) (c : Nat) (hc : code.toNat = c) (bs : List Byte)
    (h1 : 0xcc ≤ c) (h2 : c ≤ 0xd3) (hl : bs.length < 2^((c - 0xcc) % 4)) :
    parseVariant env (fuel+1) limit .all true ⟨code :: bs, p⟩ = (.incomplete, .null, ⟨[], p + 1 + bs.length⟩, true) := by
  rw [parseVariant]
  simp only [R.read]
  rw [hc, readBytes_short bs (p+1) _ hl]
  cond_simp

set_option maxRecDepth 8000 in
theorem pv_f32_short (env : Env) (fuel limit : Nat) (p : Nat) (bs : List Byte) (hl : bs.length < 4) :
    parseVariant env (fuel+1) limit .all true ⟨0xCA :: bs, p⟩ = (.incomplete, .null, ⟨[], p + 1 + bs.length⟩, true) := by
  rw [parseVariant]
  simp only [R.read]
  rw [readBytes_short bs (p+1) _ hl]
  simp [Flt.allowValue]

set_option maxRecDepth 8000 in
theorem pv_f64_short (env : Env) (fuel limit : Nat) (p : Nat) (bs : List Byte) (hl : bs.length < 8) :
    parseVariant env (fuel+1) limit .all true ⟨0xCB :: bs, p⟩ = (.incomplete, .null, ⟨[], p + 1 + bs.length⟩, true) := by
  rw [parseVariant]
  simp only [R.read]
  rw [readBytes_short bs (p+1) _ hl]
  simp [Flt.allowValue]

/-- shape of the encoding of a null / bool / number: one byte, or a type byte followed by a fixed-width payload -/
inductive ScalarEnc : List Byte → Prop
  | one (c : Byte) : ScalarEnc [c]
  | int (code : Byte) (bs : List Byte) : 0xcc ≤ code.toNat → code.toNat ≤ 0xd3 →
      bs.length = 2^((code.toNat - 0xcc) % 4) → ScalarEnc (code :: bs)
  | f32 (bs : List Byte) : bs.length = 4 → ScalarEnc (0xCA :: bs)
  | f64 (bs : List Byte) : bs.length = 8 → ScalarEnc (0xCB :: bs)

theorem scalarEnc_encUInt (n : Nat) : ScalarEnc (encUInt n) := by
  unfold encUInt
  repeat' split
  · exact .one _
  · exact .int 0xCC _ (by decide) (by decide) (by simp [beN_length])
  · exact .int 0xCD _ (by decide) (by decide) (by simp [beN_length])
  · exact .int 0xCE _ (by decide) (by decide) (by simp [beN_length])
  · exact .int 0xCF _ (by decide) (by decide) (by simp [beN_length])

theorem scalarEnc_encInt (v : Int) : ScalarEnc (encInt v) := by
  unfold encInt
  split
  · exact scalarEnc_encUInt _
  · repeat' split
    · rw [beN1_eq]; exact .one _
    · exact .int 0xD0 _ (by decide) (by decide) (by simp [beN_length])
    · exact .int 0xD1 _ (by decide) (by decide) (by simp [beN_length])
    · exact .int 0xD2 _ (by decide) (by decide) (by simp [beN_length])
    · exact .int 0xD3 _ (by decide) (by decide) (by simp [beN_length])

theorem scalarEnc_encF32 (b : Nat) : ScalarEnc (encF32 b) := by
  rw [encF32_eq]
  split
  · exact scalarEnc_encInt _
  · exact .f32 _ (beN_length _ _)

theorem scalarEnc_encF64 (b : Nat) : ScalarEnc (encF64 b) := by
  rw [encF64_eq]
  split
  · exact scalarEnc_encF32 _
  · exact .f64 _ (beN_length _ _)

def IsScalar : Val → Prop
  | .null => True
  | .bool _ => True
  | .num _ => True
  | _ => False

theorem scalarEnc_ser (v : Val) (h : IsScalar v) : ScalarEnc (ser v) := by
  cases v with
  | null => simp only [ser]; exact .one _
  | bool b => simp only [ser]; exact .one _
  | num n =>
    cases n with
    | uint n => simp only [ser]; exact scalarEnc_encUInt n
    | sint n => simp only [ser]; exact scalarEnc_encInt n
    | f32 n => simp only [ser]; exact scalarEnc_encF32 n
    | f64 n => simp only [ser]; exact scalarEnc_encF64 n
  | str s => cases h
  | raw s => cases h
  | arr xs => cases h
  | obj ms => cases h

theorem run_cons_fuel (env : Env) (L : Nat) (c : Byte) (q : List Byte) :
    MD.run env L .all (c :: q) =
      match parseVariant env ((2 * q.length + 5) + 1) L .all true ⟨c :: q, 0⟩ with
      | (e, v, r, found) => ((if found then e else .empty), v, r.pos) := by
  simp only [run]
  rw [show 2 * (c :: q).length + 4 = (2 * q.length + 5) + 1 by simp only [List.length_cons]; omega]

/-- C09, prefix clause, for null / bool / numbers: every non-empty proper prefix of the encoding gives IncompleteInput.
    PARTIAL: strings, arrays and objects are not covered. -/
theorem prefix_incomplete_partial (env : Env) (L : Nat) (v : Val) (hv : IsScalar v) (p : List Byte)
    (hp : p <+: ser v) (hne : p ≠ ser v) (h0 : p ≠ []) :
    (MD.run env L .all p).1 = .incomplete := by
  have hs := scalarEnc_ser v hv
  generalize ser v = s at *
  obtain ⟨t, rfl⟩ := hp
  have ht : t ≠ [] := by intro h; subst h; simp at hne
  cases p with
  | nil => exact absurd rfl h0
  | cons c q =>
    have hlen : q.length < (c :: q ++ t).length - 1 := by
      cases t with
      | nil => exact absurd rfl ht
      | cons a t' => simp only [List.length_cons, List.length_append]; omega
    rw [run_cons_fuel]
    generalize 2 * q.length + 5 = fuel
    rw [List.cons_append] at hs hlen
    generalize hqt : q ++ t = qt at hs hlen
    cases hs with
    | one c' => simp at hlen
    | int code bs h1 h2 h3 =>
      rw [pv_int_short env fuel L 0 c _ rfl q h1 h2 (by simp only [List.length_cons] at hlen; omega)]
      rfl
    | f32 bs h3 =>
      rw [pv_f32_short env fuel L 0 q (by simp only [List.length_cons] at hlen; omega)]
      rfl
    | f64 bs h3 =>
      rw [pv_f64_short env fuel L 0 q (by simp only [List.length_cons] at hlen; omega)]
      rfl


example : (MD.run ⟨65535⟩ 3 .all [0xCB, 0x3F, 0xB9, 0x99]).1 = .incomplete :=
  prefix_incomplete_partial ⟨65535⟩ 3 (.num (.f64 0x3FB999999999999A)) trivial [0xCB, 0x3F, 0xB9, 0x99]
    (by decide +kernel) (by decide +kernel) (by decide)

/-! ## corollaries in the wording of C09 / C16 -/
/-- C09: the serializer's output is accepted -/
theorem accepts (env : Env) (L : Nat) (v : Val) (hr : RawFree v) (hw : WithinLimits env v) (hd : depth v ≤ L) :
    (MD.run env L .all (ser v)).1 = .ok := by
  have := roundtrip env L v hr hw hd []
  rw [List.append_nil] at this
  rw [this]

/-- C16: exactly the bytes of the object are consumed, whatever follows -/
theorem consumes_exactly (env : Env) (L : Nat) (v : Val) (hr : RawFree v) (hw : WithinLimits env v) (hd : depth v ≤ L)
    (rest : List Byte) : (MD.run env L .all (ser v ++ rest)).2.2 = (ser v).length := by
  rw [roundtrip env L v hr hw hd rest]


/-! ## remarks on the hypotheses, by evaluation -/
/-- `non_string_key` needs a nesting limit ≥ 1: with limit 0 the map header already gives TooDeep -/
example : (MD.run ⟨65535⟩ 0 .all [0x81, 0x01]).1 = .tooDeep := by decide +kernel
/-- the float → integer shortcut drops the sign of zero: `-0.0f` is written as the integer 0 (equal in value) -/
example : ser (.num (.f32 0x80000000)) = [0x00] ∧ normNum (.f32 0x80000000) = .sint 0 := by decide +kernel
/-- a string longer than `maxStrLen` is refused with NoMemory (hence the bound in `WithinLimits`) -/
example : (MD.run ⟨2⟩ 10 .all (ser (.str [0x61, 0x62, 0x63]))).1 = .noMemory := by decide +kernel

end C09
