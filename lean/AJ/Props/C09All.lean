/- Aggregate: C09 decode/round-trip theorems (C09.lean) and prefix / invalid-input classification at any depth, any width, any filter (C09Prefix.lean). -/
import AJ.Props.C09
import AJ.Props.C09Prefix
import AJ.Props.C09Doc
import AJ.Props.SlotCor2
import AJ.Props.C09Gen
import AJ.Props.DocGen
import AJ.Props.C09Value
