/- C09 at slot level — THE SLOT-LEVEL MESSAGEPACK DESERIALIZER REFINES THE VALUE-LEVEL ONE.

   `MDD.run env limit d input` (AJ/Model/MDD.lean) is `deserializeMsgPack` writing into the slot-level document `DL.Doc`
   (slots with next pointers, head/tail collections, extension slots, reference-counted strings, the StringBuffer and its
   allocation pattern: `reserve(n)` of exactly `n` bytes, `save()`), validated against the C++ including allocation-failure
   schedules. `MD.run env limit .all input` (AJ/Model/MD.lean) is the value-level deserializer that the MessagePack
   theorems are about (C09 round trip and prefix classification, C11 projection, C15 depth, C16 sequences).

   Main theorem `C09.slot_level_refines`: for EVERY environment (no hypothesis on the string limit: the StringBuffer
   allocates exactly the announced size and `reserve` refuses a size beyond the limit exactly when the value-level reader
   does), every nesting limit, input and starting document (any content: it is cleared first; hypotheses: the geometry
   and the pool invariant), with `R := MDD.run …` and `R0 := MD.run … .all …`:
   * if no allocation failed (`R.2.1.overflowed = false`): same code, same number of bytes consumed, and the document
     left — for EVERY code, also the partial document left by an error — reads back as the abstract value;
   * unconditionally: either code and consumption are the abstract ones, or the code is `NoMemory` with the flag set.
   Sharper than for JSON (`C09.slot_level_core`): the overflow flag is set IF AND ONLY IF the answer is `NoMemory`
   (`C09.noMemory_iff_overflow`); the value-level `NoMemory` (a string / binary longer than the limit, refused without any
   allocator call) is answered `NoMemory` by the slot-level run too, with the flag set (`C09.abstract_noMemory`).
   Helper lemmas: AJ/Lemmas/MddSim*.lean (simulation by induction on the fuel over the three mutual routines, in the local
   specification `Pre`/`Post`/`Fr` of AJ/Lemmas/DocCopy.lean, reusing the document steps of AJ/Lemmas/JddSimDoc.lean). -/
import AJ.Lemmas.MddSimAll
import AJ.Props.C01Doc
import AJ.Props.C09Prefix
import AJ.Props.C15
import AJ.Props.C16
set_option linter.unusedSimpArgs false
set_option linter.unusedVariables false

namespace C09
open DL MDD
open JD (Byte Val Code Flt)
open MD (Env)

/-- the parse inside `MDD.run` -/
def mpsim_pv (env : Env) (limit : Nat) (d : Doc) (input : List Byte) : Code × MDD.S × Bool :=
  MDD.parseVariant env (2 * input.length + 4) limit .root { r := { unread := input }, d := d.clearAll }

/-- what `MDD.run` does after its parse -/
def mpsim_finish (rv : Code × MDD.S × Bool) : Code × Doc × Nat :=
  let (c, x, found) := rv
  let c := if found then c else .empty
  let d := match x.b with | some _ => { x.d with pl := x.d.pl.dealloc } | none => x.d
  let d := { d with pl := PL.shrink d.g d.pl }
  (c, d, x.r.pos)

theorem mpsim_run_eq (env : Env) (limit : Nat) (d : Doc) (input : List Byte) :
    MDD.run env limit d input = mpsim_finish (mpsim_pv env limit d input) := rfl

theorem mpsim_finish_proj (rv : Code × MDD.S × Bool) :
    ∃ dF : Doc,
      mpsim_finish rv = ((if rv.2.2 then rv.1 else .empty), dF, rv.2.1.r.pos) ∧
      dF.g = rv.2.1.d.g ∧ dF.cells = rv.2.1.d.cells ∧ dF.strings = rv.2.1.d.strings ∧ dF.root = rv.2.1.d.root ∧
      dF.overflowed = rv.2.1.d.overflowed ∧ dF.nextNode = rv.2.1.d.nextNode ∧
      (PL.Inv rv.2.1.d.g rv.2.1.d.pl →
        PL.Inv dF.g dF.pl ∧ ∀ y, PL.live dF.g dF.pl y ↔ PL.live rv.2.1.d.g rv.2.1.d.pl y) := by
  obtain ⟨c, x, f⟩ := rv
  simp only [mpsim_finish]
  cases x.b with
  | none =>
    refine ⟨_, rfl, rfl, rfl, rfl, rfl, rfl, rfl, fun hI => ?_⟩
    obtain ⟨a, b, _⟩ := PL.shrink_ok (g := x.d.g) hI
    exact ⟨a, b⟩
  | some cap =>
    refine ⟨_, rfl, rfl, rfl, rfl, rfl, rfl, rfl, fun hI => ?_⟩
    have hI' : PL.Inv x.d.g x.d.pl.dealloc := hI.congr rfl rfl rfl rfl
    obtain ⟨a, b, _⟩ := PL.shrink_ok (g := x.d.g) hI'
    exact ⟨a, fun y => (b y).trans (live_congr rfl rfl y)⟩

/-- `MDD.run` in terms of its parse: `EmptyInput` when nothing was found, the document left differs from the one the
    parse left in its allocator state only (buffer released, pools shrunk) -/
theorem mpsim_run_proj (env : Env) (limit : Nat) (d : Doc) (input : List Byte) :
    ∃ dF : Doc,
      MDD.run env limit d input =
        ((if (mpsim_pv env limit d input).2.2 then (mpsim_pv env limit d input).1 else .empty), dF,
          (mpsim_pv env limit d input).2.1.r.pos) ∧
      dF.g = (mpsim_pv env limit d input).2.1.d.g ∧ dF.cells = (mpsim_pv env limit d input).2.1.d.cells ∧
      dF.strings = (mpsim_pv env limit d input).2.1.d.strings ∧ dF.root = (mpsim_pv env limit d input).2.1.d.root ∧
      dF.overflowed = (mpsim_pv env limit d input).2.1.d.overflowed ∧
      dF.nextNode = (mpsim_pv env limit d input).2.1.d.nextNode ∧
      (PL.Inv (mpsim_pv env limit d input).2.1.d.g (mpsim_pv env limit d input).2.1.d.pl →
        PL.Inv dF.g dF.pl ∧ ∀ y, PL.live dF.g dF.pl y ↔
          PL.live (mpsim_pv env limit d input).2.1.d.g (mpsim_pv env limit d input).2.1.d.pl y) := by
  rw [mpsim_run_eq]
  exact mpsim_finish_proj _

/-- the two outcomes of a run: no allocation failed and everything agrees (and the answer is not `NoMemory`), or one
    failed and the answer is `NoMemory` -/
theorem slot_level_core (env : Env) (limit : Nat) (d : Doc) (input : List Byte) (gok : PL.GeoOK d.g)
    (hp : PL.Inv d.g d.pl) :
    ((MDD.run env limit d input).2.1.overflowed = false ∧
      (MDD.run env limit d input).1 = (MD.run env limit .all input).1 ∧
      (MDD.run env limit d input).1 ≠ .noMemory ∧
      (MDD.run env limit d input).2.2 = (MD.run env limit .all input).2.2 ∧
      (MDD.run env limit d input).2.1.toVal (MDD.run env limit d input).2.1.root = (MD.run env limit .all input).2.1 ∧
      WF (MDD.run env limit d input).2.1) ∨
    ((MDD.run env limit d input).2.1.overflowed = true ∧ (MDD.run env limit d input).1 = .noMemory) := by
  have pre0 := JDD.sim_clearAll_pre gok hp
  have hsim := (mpsim_all env (2 * input.length + 4)).1 limit .root
    { r := { unread := input }, d := d.clearAll } pre0 rfl (mpsim_BOK_none env)
  obtain ⟨dF, hrun, hg, hc, hs, hr, ho, hnn, hpl⟩ := mpsim_run_proj env limit d input
  rw [hrun]
  simp only [MD.run]
  unfold mpsim_pv at hg hc hs hr ho hnn hpl ⊢
  generalize MDD.parseVariant env (2 * input.length + 4) limit .root
    { r := { unread := input }, d := d.clearAll } = rv at *
  generalize MD.parseVariant env (2 * input.length + 4) limit .all true { unread := input } = rv0 at *
  obtain ⟨c, x, f⟩ := rv
  obtain ⟨c0, v0, r0, f0⟩ := rv0
  simp only at hsim hg hc hs hr ho hnn hpl ⊢
  obtain ⟨hsim, hf1, hf2⟩ := hsim
  simp only at hsim hf1 hf2
  rcases hsim with ⟨o2, e1, hne, e2, _, v, s, P, hval⟩ | ⟨o2, e⟩
  · simp only at o2 e1 hne e2 P hval
    subst e1 e2
    have hff := hf1 o2
    subst hff
    have htv : dF.toVal dF.root = v0 := by rw [JDD.sim_final_toVal P hg hc hs hr, hval]
    have hwf : WF dF := by
      have w0 : WFG d.clearAll .nil := by
        refine ⟨rfl, List.nodup_nil, fun i hi => (by cases hi), pre0.pool, fun i hi => (by cases hi), ?_⟩
        intro l hl e he
        rcases mem_holders.1 hl with h | ⟨j, hj, _⟩
        · subst h; cases he
        · cases hj
      have s0 : StrOK d.clearAll (d.clearAll.strRefs .nil) :=
        ⟨List.nodup_nil, fun n hn => (by cases hn), fun n hn => (by cases hn), fun r hr => (by cases hr)⟩
      obtain ⟨w1, s1, _⟩ := post_assemble w0 s0 (l := .root) trivial rfl P
      obtain ⟨hI, hlv⟩ := hpl P.fr.pool
      have hcell : ∀ j, dF.cell j = x.d.cell j := fun j => by simp only [Doc.cell, hc]
      obtain ⟨w2, s2, _⟩ := wfg_frame (d' := dF) w1 hg hr (fun j _ => hcell j)
        (fun l0 h0 e he => ⟨hcell e, (hlv e).2 (w1.ext l0 h0 e he).2.1⟩) hI
        (fun j hj => (hlv j).2 (w1.live j hj)) (StrOK_congr hs hnn s1) (fun n _ => strBytes_of_strings hs n)
      exact ⟨_, w2, s2⟩
    refine Or.inl ⟨by rw [ho]; exact o2, rfl, ?_, rfl, htv, hwf⟩
    cases f
    · intro h; cases h
    · exact hne
  · simp only at o2 e
    have hff := hf2 o2
    subst hff e
    exact Or.inr ⟨by rw [ho]; exact o2, rfl⟩

/-- **C09 at slot level: the slot-level MessagePack deserializer refines the value-level one.** For every environment,
    nesting limit, input and starting document: when no allocation failed, the code, the number of bytes consumed and
    the document left — complete or partial, for every code — are those of the value-level deserializer; in any case the
    code and the consumption are the value-level ones unless the answer is `NoMemory` with the overflow flag set. -/
theorem slot_level_refines (env : Env) (limit : Nat) (d : Doc) (input : List Byte) (gok : PL.GeoOK d.g)
    (hp : PL.Inv d.g d.pl) :
    ((MDD.run env limit d input).2.1.overflowed = false →
      (MDD.run env limit d input).1 = (MD.run env limit .all input).1 ∧
      (MDD.run env limit d input).2.2 = (MD.run env limit .all input).2.2 ∧
      (MDD.run env limit d input).2.1.toVal (MDD.run env limit d input).2.1.root = (MD.run env limit .all input).2.1) ∧
    (((MDD.run env limit d input).1 = (MD.run env limit .all input).1 ∧
        (MDD.run env limit d input).2.2 = (MD.run env limit .all input).2.2) ∨
      ((MDD.run env limit d input).1 = .noMemory ∧ (MDD.run env limit d input).2.1.overflowed = true)) := by
  rcases slot_level_core env limit d input gok hp with ⟨a, b, _, c, e, _⟩ | ⟨a, b⟩
  · exact ⟨fun _ => ⟨b, c, e⟩, Or.inl ⟨b, c⟩⟩
  · exact ⟨fun h => (by rw [a] at h; cases h), Or.inr ⟨b, a⟩⟩

/-- the overflow flag is set exactly when the answer is `NoMemory` -/
theorem noMemory_iff_overflow (env : Env) (limit : Nat) (d : Doc) (input : List Byte) (gok : PL.GeoOK d.g)
    (hp : PL.Inv d.g d.pl) :
    (MDD.run env limit d input).1 = .noMemory ↔ (MDD.run env limit d input).2.1.overflowed = true := by
  rcases slot_level_core env limit d input gok hp with ⟨a, _, b, _⟩ | ⟨a, b⟩
  · exact ⟨fun h => absurd h b, fun h => by rw [a] at h; cases h⟩
  · exact ⟨fun _ => a, fun _ => b⟩

/-- the value-level `NoMemory` (a string or binary value longer than the limit: no allocator call is made) is answered
    `NoMemory` by the slot-level run too, and the overflow flag is set -/
theorem abstract_noMemory (env : Env) (limit : Nat) (d : Doc) (input : List Byte) (gok : PL.GeoOK d.g)
    (hp : PL.Inv d.g d.pl) (h : (MD.run env limit .all input).1 = .noMemory) :
    (MDD.run env limit d input).1 = .noMemory ∧ (MDD.run env limit d input).2.1.overflowed = true := by
  rcases slot_level_core env limit d input gok hp with ⟨_, a, b, _⟩ | ⟨a, b⟩
  · exact absurd (by rw [a]; exact h) b
  · exact ⟨b, a⟩

/-- `Ok` is never answered after an allocation failure: an `Ok` run has the overflow flag clear -/
theorem ok_no_overflow (env : Env) (limit : Nat) (d : Doc) (input : List Byte) (gok : PL.GeoOK d.g)
    (hp : PL.Inv d.g d.pl) (hok : (MDD.run env limit d input).1 = .ok) :
    (MDD.run env limit d input).2.1.overflowed = false := by
  rcases slot_level_core env limit d input gok hp with ⟨a, _⟩ | ⟨_, b⟩
  · exact a
  · rw [b] at hok; cases hok

/-- without an allocation failure the document left is well-formed — for every code -/
theorem slot_level_wf (env : Env) (limit : Nat) (d : Doc) (input : List Byte) (gok : PL.GeoOK d.g)
    (hp : PL.Inv d.g d.pl) (hno : (MDD.run env limit d input).2.1.overflowed = false) :
    WF (MDD.run env limit d input).2.1 := by
  rcases slot_level_core env limit d input gok hp with ⟨_, _, _, _, _, w⟩ | ⟨a, _⟩
  · exact w
  · rw [a] at hno; cases hno

/-- an `Ok` run: the value-level run is `Ok` too, with the same consumption, and the document reads back as its value -/
theorem ok_refines (env : Env) (limit : Nat) (d : Doc) (input : List Byte) (gok : PL.GeoOK d.g)
    (hp : PL.Inv d.g d.pl) (hok : (MDD.run env limit d input).1 = .ok) :
    (MD.run env limit .all input).1 = .ok ∧ (MDD.run env limit d input).2.2 = (MD.run env limit .all input).2.2 ∧
    (MDD.run env limit d input).2.1.toVal (MDD.run env limit d input).2.1.root = (MD.run env limit .all input).2.1 := by
  obtain ⟨a, b, c⟩ := (slot_level_refines env limit d input gok hp).1 (ok_no_overflow env limit d input gok hp hok)
  exact ⟨by rw [← a]; exact hok, b, c⟩

/-- the geometry of the document is not changed by a run -/
theorem run_geo (env : Env) (limit : Nat) (d : Doc) (input : List Byte) (gok : PL.GeoOK d.g) (hp : PL.Inv d.g d.pl)
    (hno : (MDD.run env limit d input).2.1.overflowed = false) : (MDD.run env limit d input).2.1.g = d.g := by
  have pre0 := JDD.sim_clearAll_pre gok hp
  have hsim := (mpsim_all env (2 * input.length + 4)).1 limit .root
    { r := { unread := input }, d := d.clearAll } pre0 rfl (mpsim_BOK_none env)
  obtain ⟨dF, hrun, hg, _, _, _, ho, _, _⟩ := mpsim_run_proj env limit d input
  rw [hrun] at hno ⊢
  simp only at hno ⊢
  rw [hg]
  rw [ho] at hno
  unfold mpsim_pv at hno ⊢
  rcases hsim.1 with ⟨_, _, _, _, _, v, s, P, _⟩ | ⟨o2, _⟩
  · exact P.fr.g
  · simp only at o2; rw [o2] at hno; cases hno

/-- **C09 round trip, slot level.** The serializer's encoding of `v` (followed by anything) deserialized into ANY
    document with an allocator that does not fail: `Ok`, exactly the bytes of the encoding consumed, and the document
    left reads back as the value encoded (`norm v`: `v` up to the number representation chosen by the writer). -/
theorem roundtrip_slot_level (env : Env) (L : Nat) (v : Val) (hr : RawFree v) (hw : WithinLimits env v)
    (hd : depth v ≤ L) (rest : List Byte) (d : Doc) (gok : PL.GeoOK d.g) (hp : PL.Inv d.g d.pl)
    (hno : (MDD.run env L d (MD.ser v ++ rest)).2.1.overflowed = false) :
    (MDD.run env L d (MD.ser v ++ rest)).1 = .ok ∧ (MDD.run env L d (MD.ser v ++ rest)).2.2 = (MD.ser v).length ∧
    (MDD.run env L d (MD.ser v ++ rest)).2.1.toVal (MDD.run env L d (MD.ser v ++ rest)).2.1.root = norm v := by
  obtain ⟨a, b, c⟩ := (slot_level_refines env L d (MD.ser v ++ rest) gok hp).1 hno
  rw [a, b, c, roundtrip env L v hr hw hd rest]
  exact ⟨rfl, rfl, rfl⟩

/-- every legal encoding (`MD.Enc`: any width at every place, bin, ext, fixext, nested containers; followed by
    anything) deserialized into any document with an allocator that does not fail: `Ok`, exactly the bytes of the
    encoding consumed, and the document left reads back as the value the value-level deserializer yields -/
theorem enc_accepts_slot_level (env : Env) (L : Nat) {dd : Nat} {e : List Byte} (h : MD.Enc env dd e) (hd : dd ≤ L)
    (rest : List Byte) (d : Doc) (gok : PL.GeoOK d.g) (hp : PL.Inv d.g d.pl)
    (hno : (MDD.run env L d (e ++ rest)).2.1.overflowed = false) :
    (MDD.run env L d (e ++ rest)).1 = .ok ∧ (MDD.run env L d (e ++ rest)).2.2 = e.length ∧
    (MDD.run env L d (e ++ rest)).2.1.toVal (MDD.run env L d (e ++ rest)).2.1.root =
      (MD.run env L .all (e ++ rest)).2.1 := by
  obtain ⟨a, b, c⟩ := (slot_level_refines env L d (e ++ rest) gok hp).1 hno
  obtain ⟨h1, h2⟩ := enc_accepts env L .all h hd rest
  exact ⟨by rw [a, h1], by rw [b, h2], c⟩

/-- **C09 prefix classification, slot level**: with an allocator that does not fail, the encoding itself is accepted,
    the empty prefix is `EmptyInput`, every other proper prefix is `IncompleteInput`; the whole prefix is consumed -/
theorem prefix_classification_slot_level (env : Env) (L : Nat) (v : Val) (hr : RawFree v) (hw : WithinLimits env v)
    (hd : depth v ≤ L) (p : List Byte) (hpre : p <+: MD.ser v) (d : Doc) (gok : PL.GeoOK d.g) (hp : PL.Inv d.g d.pl)
    (hno : (MDD.run env L d p).2.1.overflowed = false) :
    (MDD.run env L d p).1 = (if p = MD.ser v then .ok else if p = [] then .empty else .incomplete) ∧
    (MDD.run env L d p).2.2 = p.length := by
  obtain ⟨a, b, _⟩ := (slot_level_refines env L d p gok hp).1 hno
  rw [a, b]
  exact prefix_classification env L v hr hw hd p hpre

/-- the same for every legal encoding -/
theorem enc_prefix_classification_slot_level (env : Env) (L : Nat) {dd : Nat} {e : List Byte} (h : MD.Enc env dd e)
    (hd : dd ≤ L) (p : List Byte) (hpre : p <+: e) (d : Doc) (gok : PL.GeoOK d.g) (hp : PL.Inv d.g d.pl)
    (hno : (MDD.run env L d p).2.1.overflowed = false) :
    (MDD.run env L d p).1 = (if p = e then .ok else if p = [] then .empty else .incomplete) ∧
    (MDD.run env L d p).2.2 = p.length := by
  obtain ⟨a, b, _⟩ := (slot_level_refines env L d p gok hp).1 hno
  rw [a, b]
  exact enc_prefix_classification env L .all h hd p hpre

/-- whatever the allocator does: a prefix of a legal encoding is never answered anything but the classification above
    or `NoMemory` (with the flag set) -/
theorem enc_prefix_classification_or_noMemory (env : Env) (L : Nat) {dd : Nat} {e : List Byte} (h : MD.Enc env dd e)
    (hd : dd ≤ L) (p : List Byte) (hpre : p <+: e) (d : Doc) (gok : PL.GeoOK d.g) (hp : PL.Inv d.g d.pl) :
    ((MDD.run env L d p).1 = (if p = e then .ok else if p = [] then .empty else .incomplete) ∧
      (MDD.run env L d p).2.2 = p.length) ∨
    ((MDD.run env L d p).1 = .noMemory ∧ (MDD.run env L d p).2.1.overflowed = true) := by
  rcases (slot_level_refines env L d p gok hp).2 with ⟨a, b⟩ | h2
  · left
    rw [a, b]
    exact enc_prefix_classification env L .all h hd p hpre
  · exact Or.inr h2

end C09

namespace C15
open DL MDD
open JD (Byte Val Code Flt)

/-- **C15, slot level, MessagePack.** A document obtained with `Ok` has nesting depth at most the nesting limit (whatever
    the allocator does: `Ok` is not answered after a failure). -/
theorem msgpack_ok_depth_slot_level (env : MD.Env) (L : Nat) (input : List Byte) (d : Doc)
    (gok : PL.GeoOK d.g) (hp : PL.Inv d.g d.pl) (hok : (MDD.run env L d input).1 = .ok) :
    C15.depth ((MDD.run env L d input).2.1.toVal (MDD.run env L d input).2.1.root) ≤ L := by
  obtain ⟨a, _, c⟩ := C09.ok_refines env L d input gok hp hok
  rw [c]
  exact msgpack_ok_depth env L .all input a

end C15

namespace C16
open DL MDD
open JD (Byte Val Code Flt)

/-- **C16, slot level, MessagePack.** Two back-to-back objects read by successive calls INTO THE SAME DOCUMENT (the second
    call starts from the document the first one left: it is cleared and reused): with an allocator that does not fail
    both calls answer `Ok`, the documents read back as the two values, and together the two encodings are consumed. -/
theorem msgpack_sequence_slot_level (env : MD.Env) (L : Nat) (v w : Val)
    (hv : C09.RawFree v ∧ C09.WithinLimits env v ∧ C09.depth v ≤ L)
    (hw : C09.RawFree w ∧ C09.WithinLimits env w ∧ C09.depth w ≤ L) (rest : List Byte) (d : Doc)
    (gok : PL.GeoOK d.g) (hp : PL.Inv d.g d.pl)
    (hno1 : (MDD.run env L d (MD.ser v ++ (MD.ser w ++ rest))).2.1.overflowed = false)
    (hno2 : (MDD.run env L (MDD.run env L d (MD.ser v ++ (MD.ser w ++ rest))).2.1
      ((MD.ser v ++ (MD.ser w ++ rest)).drop (MDD.run env L d (MD.ser v ++ (MD.ser w ++ rest))).2.2)).2.1.overflowed = false) :
    let input := MD.ser v ++ (MD.ser w ++ rest)
    let r1 := MDD.run env L d input
    let r2 := MDD.run env L r1.2.1 (input.drop r1.2.2)
    r1.1 = .ok ∧ r1.2.1.toVal r1.2.1.root = C09.norm v ∧ r2.1 = .ok ∧ r2.2.1.toVal r2.2.1.root = C09.norm w ∧
      r1.2.2 + r2.2.2 = (MD.ser v).length + (MD.ser w).length := by
  intro input r1 r2
  obtain ⟨a1, a2, a3⟩ := C09.roundtrip_slot_level env L v hv.1 hv.2.1 hv.2.2 (MD.ser w ++ rest) d gok hp hno1
  have hg : r1.2.1.g = d.g := C09.run_geo env L d input gok hp hno1
  obtain ⟨F, wf, _⟩ := C09.slot_level_wf env L d input gok hp hno1
  have gok1 : PL.GeoOK r1.2.1.g := by rw [hg]; exact gok
  have hdrop : input.drop r1.2.2 = MD.ser w ++ rest := by
    show (MD.ser v ++ (MD.ser w ++ rest)).drop (MDD.run env L d (MD.ser v ++ (MD.ser w ++ rest))).2.2 = _
    rw [a2]; simp
  have hno2' : (MDD.run env L r1.2.1 (MD.ser w ++ rest)).2.1.overflowed = false := by
    have : (MDD.run env L r1.2.1 (input.drop r1.2.2)).2.1.overflowed = false := hno2
    rw [hdrop] at this; exact this
  obtain ⟨b1, b2, b3⟩ := C09.roundtrip_slot_level env L w hw.1 hw.2.1 hw.2.2 rest r1.2.1 gok1 wf.pool hno2'
  have hr2 : r2 = MDD.run env L r1.2.1 (MD.ser w ++ rest) := by
    show MDD.run env L r1.2.1 (input.drop r1.2.2) = _
    rw [hdrop]
  rw [hr2]
  exact ⟨a1, a3, b1, b3, by rw [a2, b2]⟩

end C16

/-! ## Non-vacuity: geometry ⟨4, 1, 1⟩ (4 slots per pool, 1 inline pool, 1-byte slot ids), default environment

   The hypotheses of `C09.slot_level_refines` are discharged for the fresh document `C01.ExDoc.dz`; the overflow flag of
   the slot-level run is evaluated in the kernel where the run touches slot 0 only (`Std.HashMap` lookups with another key
   do not evaluate in the kernel); the value-level run is evaluated in the kernel; the theorem then gives the code, the
   consumption and the abstract value of the slot-level document. For runs that touch two or more slots the facts are
   derived from `C09.slot_level_core` instead. -/
namespace C09.ExDoc
open DL MDD C01.ExDoc
open JD (Byte Val Code)

/-- `[1]` : fixarray of one positive fixint -/
def arr1 : List Byte := [0x91, 0x01]
/-- `"hi"` : fixstr -/
def hi : List Byte := [0xa2, 0x68, 0x69]
/-- `{"a":1,"a":2}` : a repeated key — MessagePack members are appended without lookup, both are kept -/
def dup : List Byte := [0x82, 0xa1, 0x61, 0x01, 0xa1, 0x61, 0x02]
/-- fixarray of one element, element missing: an error leaves the partial document -/
def arrOpen : List Byte := [0x91]
/-- fixarray of two elements, the second missing -/
def arrOpen2 : List Byte := [0x92, 0x01]
/-- bin 8 with one byte of payload: stored as a raw node holding header and payload -/
def bin1 : List Byte := [0xc4, 0x01, 0xff]

set_option maxRecDepth 100000 in
theorem ov_arr1 : (MDD.run {} 10 dz arr1).2.1.overflowed = false := by decide +kernel
set_option maxRecDepth 100000 in
theorem ov_hi : (MDD.run {} 10 dz hi).2.1.overflowed = false := by decide +kernel
set_option maxRecDepth 100000 in
theorem ov_arrOpen : (MDD.run {} 10 dz arrOpen).2.1.overflowed = false := by decide +kernel
set_option maxRecDepth 100000 in
theorem ov_bin1 : (MDD.run {} 10 dz bin1).2.1.overflowed = false := by decide +kernel

/-- `91 01` into a fresh document: `Ok`, 2 bytes consumed, and the slot-level document (an array whose chain holds one slot
    with the integer) reads back as `[1]` -/
example : (MDD.run {} 10 dz arr1).1 = .ok ∧ (MDD.run {} 10 dz arr1).2.2 = 2 ∧
    (MDD.run {} 10 dz arr1).2.1.toVal (MDD.run {} 10 dz arr1).2.1.root = .arr [.num (.sint 1)] := by
  obtain ⟨a, b, c⟩ := (slot_level_refines {} 10 dz arr1 gok hp).1 ov_arr1
  rw [a, b, c]
  exact ⟨by decide +kernel, by decide +kernel, valEq_sound _ _ (by decide +kernel)⟩

/-- `a2 68 69`: the string went through the StringBuffer model (`reserve`, `save`) and the string table -/
example : (MDD.run {} 10 dz hi).1 = .ok ∧ (MDD.run {} 10 dz hi).2.2 = 3 ∧
    (MDD.run {} 10 dz hi).2.1.toVal (MDD.run {} 10 dz hi).2.1.root = .str [0x68, 0x69] := by
  obtain ⟨a, b, c⟩ := (slot_level_refines {} 10 dz hi gok hp).1 ov_hi
  rw [a, b, c]
  exact ⟨by decide +kernel, by decide +kernel, valEq_sound _ _ (by decide +kernel)⟩

/-- `c4 01 ff`: a binary value is kept as a raw node: header byte, size byte and payload -/
example : (MDD.run {} 10 dz bin1).1 = .ok ∧ (MDD.run {} 10 dz bin1).2.2 = 3 ∧
    (MDD.run {} 10 dz bin1).2.1.toVal (MDD.run {} 10 dz bin1).2.1.root = .raw [0xc4, 0x01, 0xff] := by
  obtain ⟨a, b, c⟩ := (slot_level_refines {} 10 dz bin1 gok hp).1 ov_bin1
  rw [a, b, c]
  exact ⟨by decide +kernel, by decide +kernel, valEq_sound _ _ (by decide +kernel)⟩

/-- `91` : `IncompleteInput`, and the PARTIAL document `[null]` (the element slot was appended before its value was
    looked for) is the same on both sides -/
example : (MDD.run {} 10 dz arrOpen).1 = .incomplete ∧
    (MDD.run {} 10 dz arrOpen).2.1.toVal (MDD.run {} 10 dz arrOpen).2.1.root = .arr [.null] := by
  obtain ⟨a, _, c⟩ := (slot_level_refines {} 10 dz arrOpen gok hp).1 ov_arrOpen
  rw [a, c]
  exact ⟨by decide +kernel, valEq_sound _ _ (by decide +kernel)⟩

/-- the round-trip corollary on the serializer's encoding of `[1]` -/
example : (MDD.run {} 10 dz (MD.ser (.arr [.num (.uint 1)]) ++ [])).1 = .ok ∧
    (MDD.run {} 10 dz (MD.ser (.arr [.num (.uint 1)]) ++ [])).2.1.toVal
      (MDD.run {} 10 dz (MD.ser (.arr [.num (.uint 1)]) ++ [])).2.1.root = norm (.arr [.num (.uint 1)]) := by
  have hs : MD.ser (.arr [.num (.uint 1)]) ++ [] = arr1 := by decide +kernel
  obtain ⟨a, _, c⟩ := roundtrip_slot_level {} 10 (.arr [.num (.uint 1)])
    (by simp [RawFree, RawFreeElems]) (by simp [WithinLimits, WithinLimitsElems, NumOk]) (by decide) [] dz gok hp
    (by rw [hs]; exact ov_arr1)
  exact ⟨a, c⟩

/-- `82 a1 61 01 a1 61 02` (four slots: the run does not evaluate in the kernel). The value-level run answers `Ok` with BOTH
    members `"a": 1, "a": 2` after 7 bytes; hence the slot-level run either answers `Ok` after 7 bytes, leaving a document
    that reads back as `{"a":1,"a":2}`, or it answers `NoMemory` with the overflow flag set (evaluating the model, `#eval`,
    shows the first: the allocator of `dz` never fails). -/
example :
    ((MDD.run {} 10 dz dup).1 = .ok ∧ (MDD.run {} 10 dz dup).2.2 = 7 ∧
      (MDD.run {} 10 dz dup).2.1.toVal (MDD.run {} 10 dz dup).2.1.root =
        .obj [([0x61], .num (.sint 1)), ([0x61], .num (.sint 2))]) ∨
    ((MDD.run {} 10 dz dup).1 = .noMemory ∧ (MDD.run {} 10 dz dup).2.1.overflowed = true) := by
  have h0 : (MD.run {} 10 .all dup).1 = .ok ∧ (MD.run {} 10 .all dup).2.2 = 7 ∧
      (MD.run {} 10 .all dup).2.1 = .obj [([0x61], .num (.sint 1)), ([0x61], .num (.sint 2))] :=
    ⟨by decide +kernel, by decide +kernel, valEq_sound _ _ (by decide +kernel)⟩
  rcases slot_level_core {} 10 dz dup gok hp with ⟨_, a, _, b, c, _⟩ | ⟨a, b⟩
  · exact Or.inl ⟨by rw [a]; exact h0.1, by rw [b]; exact h0.2.1, by rw [c]; exact h0.2.2⟩
  · exact Or.inr ⟨b, a⟩

/-- `92 01` (two slots): `IncompleteInput` after 2 bytes with the partial document `[1, null]`, or `NoMemory` -/
example :
    ((MDD.run {} 10 dz arrOpen2).1 = .incomplete ∧ (MDD.run {} 10 dz arrOpen2).2.2 = 2 ∧
      (MDD.run {} 10 dz arrOpen2).2.1.toVal (MDD.run {} 10 dz arrOpen2).2.1.root = .arr [.num (.sint 1), .null]) ∨
    ((MDD.run {} 10 dz arrOpen2).1 = .noMemory ∧ (MDD.run {} 10 dz arrOpen2).2.1.overflowed = true) := by
  have h0 : (MD.run {} 10 .all arrOpen2).1 = .incomplete ∧ (MD.run {} 10 .all arrOpen2).2.2 = 2 ∧
      (MD.run {} 10 .all arrOpen2).2.1 = .arr [.num (.sint 1), .null] :=
    ⟨by decide +kernel, by decide +kernel, valEq_sound _ _ (by decide +kernel)⟩
  rcases slot_level_core {} 10 dz arrOpen2 gok hp with ⟨_, a, _, b, c, _⟩ | ⟨a, b⟩
  · exact Or.inl ⟨by rw [a]; exact h0.1, by rw [b]; exact h0.2.1, by rw [c]; exact h0.2.2⟩
  · exact Or.inr ⟨b, a⟩

/-- an allocator that fails at its first call (`C01.ExDoc.dzf`): `NoMemory`, overflow flag set, as the unconditional clause
    allows, while the value-level run answers `Ok` -/
example : (MDD.run {} 10 dzf hi).1 = .noMemory ∧ (MDD.run {} 10 dzf hi).2.1.overflowed = true ∧
    (MD.run {} 10 .all hi).1 = .ok := by decide +kernel

/-- after an allocation failure the consumption differs too (the slot-level run stops at the failed `addElement`, after the
    header: 1 byte; the value-level run consumes the 2 bytes): the unconditional clause is a disjunction -/
example : (MDD.run {} 10 dzf arr1).1 = .noMemory ∧ (MDD.run {} 10 dzf arr1).2.2 = 1 ∧
    (MD.run {} 10 .all arr1).1 = .ok ∧ (MD.run {} 10 .all arr1).2.2 = 2 := by decide +kernel

/-- a string longer than the limit: BOTH sides answer `NoMemory` after the header byte; the slot-level run sets the
    overflow flag although no allocator call was made (`calls = 0`) — the first clause of the theorem is about runs with
    the flag clear, this run falls under `C09.abstract_noMemory` -/
example : (MD.run ⟨1⟩ 10 .all hi).1 = .noMemory ∧ (MDD.run ⟨1⟩ 10 dz hi).1 = .noMemory ∧
    (MDD.run ⟨1⟩ 10 dz hi).2.1.overflowed = true ∧ (MDD.run ⟨1⟩ 10 dz hi).2.1.pl.calls = 0 ∧
    (MDD.run ⟨1⟩ 10 dz hi).2.2 = (MD.run ⟨1⟩ 10 .all hi).2.2 := by decide +kernel

/-- no hypothesis on the string limit is needed (contrast with `C01.slot_level_refines`, which needs `31 ≤ maxStrLen`: the
    JSON StringBuilder starts with 31 bytes): with a limit of 3 bytes the 4-byte string `a4 61 62 63 64` is refused by both
    deserializers, the 3-byte string `a3 61 62 63` is accepted by both -/
example : (MD.run ⟨3⟩ 10 .all [0xa4, 0x61, 0x62, 0x63, 0x64]).1 = .noMemory ∧
    (MDD.run ⟨3⟩ 10 dz [0xa4, 0x61, 0x62, 0x63, 0x64]).1 = .noMemory ∧
    (MD.run ⟨3⟩ 10 .all [0xa3, 0x61, 0x62, 0x63]).1 = .ok ∧ (MDD.run ⟨3⟩ 10 dz [0xa3, 0x61, 0x62, 0x63]).1 = .ok ∧
    (MDD.run ⟨3⟩ 10 dz [0xa3, 0x61, 0x62, 0x63]).2.1.overflowed = false := by decide +kernel

/-- `C15.msgpack_ok_depth_slot_level` on `91 01` with limit 1 -/
example : C15.depth ((MDD.run {} 1 dz arr1).2.1.toVal (MDD.run {} 1 dz arr1).2.1.root) ≤ 1 :=
  C15.msgpack_ok_depth_slot_level {} 1 arr1 dz gok hp (by decide +kernel)

end C09.ExDoc
