/- The dispatch of the MessagePack deserializer model on the first byte is EXACTLY that of the library: `lean/AJ/Gen/Tables.lean` is regenerated on
   every run by calling `deserializeMsgPack` (compiled from /repo) on each of the 256 first bytes followed by two fixed nine-byte tails, recording the
   result code, the number of bytes consumed and the re-serialization of the document left; the theorems below evaluate the model on the same 512
   inputs in the kernel. A change of a header test, a width, a size computation or a shortcut in the source changes a row of the generated table and
   breaks the theorem (translator tie; no sampling). -/
import AJ.Model.MD
open JD MD

namespace C09

def codeNo : Code → Nat
  | .ok => 0 | .empty => 1 | .incomplete => 2 | .invalid => 3 | .noMemory => 4 | .tooDeep => 5 | .fuel => 9

/-- what the model answers on a first byte and a tail -/
def firstByteRow (tail : List Byte) (b : Nat) : Nat × Nat × Nat × List Nat :=
  let r := MD.run {} 10 .all (UInt8.ofNat b :: tail)
  (b, codeNo r.1, r.2.2, (MD.ser r.2.1).map (·.toNat))

def zeroTail : List Byte := List.replicate 9 0
def countTail : List Byte := [1, 2, 3, 4, 5, 6, 7, 8, 9]

/-- **first byte, zero tail**: code, consumption and document of the model are those of the compiled library, for all 256 first bytes -/
theorem first_byte_dispatch_is_source_zero : (List.range 256).map (firstByteRow zeroTail) = Gen.mpfirst_zero := by decide +kernel

/-- **first byte, counting tail** (non-zero lengths and counts: strings, binaries, extensions read their payload, containers ask for elements) -/
theorem first_byte_dispatch_is_source_count : (List.range 256).map (firstByteRow countTail) = Gen.mpfirst_count := by decide +kernel

end C09
