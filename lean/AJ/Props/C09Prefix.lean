/- C09, prefix clause and error classification of the MessagePack deserializer model:
   every proper prefix of an accepted object gives IncompleteInput (EmptyInput for the empty prefix), for every filter;
   a prefix that reaches beyond the first object of a sequence still yields that object;
   the reserved code 0xC1 where a value is expected and a non-string byte where a key is expected give InvalidInput at any depth. -/
import AJ.Lemmas.MpPrefix
import AJ.Props.C09
namespace C09
open JD hiding parseVariant run
open SF MD

/-! ## the general statement: what truncating the input can do to a run -/

/-- For ANY input `q ++ t`, any filter, any nesting limit: the run on the truncated input `q` either is the run on the whole
    input (same code, same document, same number of bytes consumed: the bytes of `t` were never looked at),
    or it stops with IncompleteInput having consumed all of `q`, and then the run on the whole input consumes more than `q`
    (EmptyInput when `q` is empty). -/
theorem run_prefix_dichotomy (env : Env) (L : Nat) (flt : Flt) (q t : List Byte) :
    MD.run env L flt q = MD.run env L flt (q ++ t) ∨
    ((MD.run env L flt q).1 = .incomplete ∧ (MD.run env L flt q).2.2 = q.length ∧
      q.length < (MD.run env L flt (q ++ t)).2.2) ∨
    (q = [] ∧ MD.run env L flt q = (.empty, .null, 0)) := by
  by_cases ht : t = []
  · subst ht; rw [List.append_nil]; exact Or.inl rfl
  cases q with
  | nil => exact Or.inr (Or.inr ⟨rfl, empty_input env L flt⟩)
  | cons c l =>
    have hs := (sim_mutual env t ht (2 * t.length) (2 * (c :: l).length + 4)).1 L flt true ⟨c :: l, 0⟩
      ⟨(c :: l) ++ t, 0⟩ ⟨rfl, rfl⟩
    have hf : 2 * (c :: l).length + 4 + 2 * t.length = 2 * ((c :: l) ++ t).length + 4 := by
      simp only [List.length_append]; omega
    rw [hf] at hs
    have hfacts := run_facts env L flt (c :: l)
    have hfactsb := (run_facts env L flt ((c :: l) ++ t)).1.1
    have hfound := pv_found_cons env (2 * (c :: l).length + 4) L flt true c l 0
    rw [run_proj, run_proj]
    generalize parseVariant env (2 * (c :: l).length + 4) L flt true ⟨c :: l, 0⟩ = xa at hs hfacts hfound ⊢
    generalize parseVariant env (2 * ((c :: l) ++ t).length + 4) L flt true ⟨(c :: l) ++ t, 0⟩ = xb at hs hfactsb ⊢
    obtain ⟨ea, va, ra, ba⟩ := xa
    obtain ⟨eb, vb, rb, bb⟩ := xb
    simp only at hfound
    subst hfound
    rcases hs with ⟨h1, h2, h3, h4⟩ | ⟨h1, h2, h3⟩ | h1
    · left
      simp only at h1 h2 h3 h4
      subst h1; subst h2; subst h4
      simp only [h3.2]
    · right; left
      simp only at h1 h2 h3 hfactsb
      subst h1
      have := hfacts.1.1
      simp only [h2, List.length_nil, Nat.add_zero] at this
      refine ⟨rfl, this, ?_⟩
      simp only [List.length_append] at hfactsb
      show (c :: l).length < rb.pos
      omega
    · exfalso
      exact hfacts.2.2 (by omega) h1

/-- a run that ended with anything but IncompleteInput / EmptyInput is not changed by appending bytes to the input -/
theorem extension_stable (env : Env) (L : Nat) (flt : Flt) (q t : List Byte)
    (h1 : (MD.run env L flt q).1 ≠ .incomplete) (h2 : (MD.run env L flt q).1 ≠ .empty) :
    MD.run env L flt (q ++ t) = MD.run env L flt q := by
  rcases run_prefix_dichotomy env L flt q t with h | ⟨h, _⟩ | ⟨_, h⟩
  · exact h.symm
  · exact absurd h h1
  · rw [h] at h2; exact absurd rfl h2

/-- if the run on the whole input consumed more bytes than the truncated input has, the truncated run is IncompleteInput
    (any code on the whole input, any filter) -/
theorem incomplete_of_consumed_beyond (env : Env) (L : Nat) (flt : Flt) (q t : List Byte) (hq : q ≠ [])
    (h : q.length < (MD.run env L flt (q ++ t)).2.2) :
    (MD.run env L flt q).1 = .incomplete ∧ (MD.run env L flt q).2.2 = q.length := by
  rcases run_prefix_dichotomy env L flt q t with h' | h' | ⟨h', _⟩
  · have := run_pos_le env L flt q
    rw [h'] at this
    omega
  · exact ⟨h'.1, h'.2.1⟩
  · exact absurd h' hq

/-- a non-empty input is never consumed for less than one byte -/
theorem run_consumed_pos (env : Env) (L : Nat) (flt : Flt) (inp : List Byte) (h : inp ≠ []) :
    1 ≤ (MD.run env L flt inp).2.2 := by
  cases inp with
  | nil => exact absurd rfl h
  | cons c l =>
    have hq := (run_facts env L flt (c :: l)).1.1
    rw [run_proj]
    have e : 2 * (c :: l).length + 4 = (2 * l.length + 5) + 1 := by simp only [List.length_cons]; omega
    rw [e] at hq ⊢
    rw [pv_succ] at hq ⊢
    have hle := pvAfter_le (env := env) (ra_unread_le env (2 * l.length + 5)) (ro_unread_le env (2 * l.length + 5))
      L flt true c ⟨l, 0 + 1⟩
    simp only [read_cons] at hq ⊢
    generalize pvAfter env (readArray env (2 * l.length + 5)) (readObject env (2 * l.length + 5)) L flt true c
      ⟨l, 0 + 1⟩ = x at hq hle ⊢
    simp only [List.length_cons] at hq hle
    omega

/-- THE RESULT OF A RUN DEPENDS ONLY ON THE BYTES IT CONSUMES. For any input, any prefix `p` of it, any filter:
    if the run on the input consumed no more than `p`, the run on `p` is the same (code, document, bytes consumed);
    otherwise the run on `p` is IncompleteInput (EmptyInput for the empty prefix) with all of `p` consumed. -/
theorem run_prefix_by_consumed (env : Env) (L : Nat) (flt : Flt) (inp p : List Byte) (hp : p <+: inp) :
    ((MD.run env L flt inp).2.2 ≤ p.length → MD.run env L flt p = MD.run env L flt inp) ∧
    (p.length < (MD.run env L flt inp).2.2 →
      (MD.run env L flt p).1 = (if p = [] then .empty else .incomplete) ∧ (MD.run env L flt p).2.2 = p.length) := by
  obtain ⟨t, rfl⟩ := hp
  refine ⟨fun hle => ?_, fun hlt => ?_⟩
  · rcases run_prefix_dichotomy env L flt p t with h | ⟨_, _, h⟩ | ⟨h, _⟩
    · exact h
    · omega
    · subst h
      by_cases ht : t = []
      · subst ht; rfl
      · have := run_consumed_pos env L flt ([] ++ t) (by simpa using ht)
        simp only [List.length_nil] at hle
        omega
  · by_cases h0 : p = []
    · subst h0; rw [if_pos rfl, empty_input]; exact ⟨rfl, rfl⟩
    · rw [if_neg h0]; exact incomplete_of_consumed_beyond env L flt p t h0 hlt

/-- C09, prefix clause, semantic form, EVERY filter and EVERY encoding (any legal width, bin, ext, nested containers):
    if the deserializer consumes the whole of `e` (in particular: accepts `e` as exactly one object), then every non-empty
    proper prefix of `e` gives IncompleteInput and the empty prefix gives EmptyInput. -/
theorem prefix_classification_of_consumed (env : Env) (L : Nat) (flt : Flt) (e : List Byte)
    (hc : (MD.run env L flt e).2.2 = e.length) (p : List Byte) (hp : p <+: e) (hne : p ≠ e) :
    (MD.run env L flt p).1 = (if p = [] then .empty else .incomplete) ∧ (MD.run env L flt p).2.2 = p.length := by
  obtain ⟨t, rfl⟩ := hp
  by_cases h0 : p = []
  · subst h0
    rw [if_pos rfl, empty_input]
    exact ⟨rfl, rfl⟩
  · rw [if_neg h0]
    have ht : t ≠ [] := by intro h; subst h; simp at hne
    have hlen : 0 < t.length := List.length_pos_iff.mpr ht
    exact incomplete_of_consumed_beyond env L flt p t h0 (by rw [hc, List.length_append]; omega)

/-! ## C09, prefix clause, for the serializer's encodings (hypotheses of `C09.accepts`), filter `.all` -/

/-- every non-empty proper prefix of the encoding of a document (strings, arrays, maps, nested, ...) gives IncompleteInput -/
theorem prefix_incomplete (env : Env) (L : Nat) (v : Val) (hr : RawFree v) (hw : WithinLimits env v) (hd : depth v ≤ L)
    (p : List Byte) (hp : p <+: ser v) (hne : p ≠ ser v) (h0 : p ≠ []) :
    (MD.run env L .all p).1 = .incomplete := by
  have hc : (MD.run env L .all (ser v)).2.2 = (ser v).length := by
    have := consumes_exactly env L v hr hw hd []
    rw [List.append_nil] at this
    exact this
  have := (prefix_classification_of_consumed env L .all (ser v) hc p hp hne).1
  rw [if_neg h0] at this
  exact this

/-- the whole classification: the encoding itself is accepted, the empty prefix is EmptyInput, every other proper prefix is
    IncompleteInput; a prefix run always consumes the whole prefix -/
theorem prefix_classification (env : Env) (L : Nat) (v : Val) (hr : RawFree v) (hw : WithinLimits env v) (hd : depth v ≤ L)
    (p : List Byte) (hp : p <+: ser v) :
    (MD.run env L .all p).1 = (if p = ser v then .ok else if p = [] then .empty else .incomplete) ∧
    (MD.run env L .all p).2.2 = p.length := by
  have hrt := roundtrip env L v hr hw hd []
  rw [List.append_nil] at hrt
  by_cases he : p = ser v
  · subst he
    rw [if_pos rfl, hrt]
    exact ⟨rfl, rfl⟩
  · rw [if_neg he]
    exact prefix_classification_of_consumed env L .all (ser v) (by rw [hrt]) p hp he

/-! ## every filter -/

/-- A filter changes neither the error code nor the number of bytes consumed, on ANY input, unless the unfiltered run ends with
    NoMemory (a filtered-out string is skipped without the `maxStrLen` check). On a truncated input `R.skipBytes` fails exactly
    when `R.readBytes` does, so skipping does not hide a truncation. -/
theorem filter_code_consumed (env : Env) (L : Nat) (flt : Flt) (inp : List Byte)
    (h : (MD.run env L .all inp).1 ≠ .noMemory) :
    (MD.run env L flt inp).1 = (MD.run env L .all inp).1 ∧ (MD.run env L flt inp).2.2 = (MD.run env L .all inp).2.2 := by
  cases inp with
  | nil => rw [empty_input, empty_input]; exact ⟨rfl, rfl⟩
  | cons c l =>
    have hfi := (fi_mutual env (2 * (c :: l).length + 4)).1 L flt true ⟨c :: l, 0⟩
    have hfa := pv_found_cons env (2 * (c :: l).length + 4) L flt true c l 0
    have hfb := pv_found_cons env (2 * (c :: l).length + 4) L .all true c l 0
    rw [run_proj] at h
    rw [run_proj, run_proj]
    generalize parseVariant env (2 * (c :: l).length + 4) L flt true ⟨c :: l, 0⟩ = xa at hfi hfa ⊢
    generalize parseVariant env (2 * (c :: l).length + 4) L .all true ⟨c :: l, 0⟩ = xb at hfi hfb h ⊢
    obtain ⟨ea, va, ra, ba⟩ := xa
    obtain ⟨eb, vb, rb, bb⟩ := xb
    simp only at hfa hfb
    subst hfa; subst hfb
    simp only [reduceIte] at h ⊢
    rcases hfi with h' | h'
    · exact absurd h' h
    · simp only [CRv, Prod.mk.injEq] at h'
      exact ⟨h'.1, by rw [h'.2.1]⟩

/-- the serializer's output is accepted under every filter, exactly its bytes are consumed, whatever follows -/
theorem accepts_any_filter (env : Env) (L : Nat) (flt : Flt) (v : Val) (hr : RawFree v) (hw : WithinLimits env v)
    (hd : depth v ≤ L) (rest : List Byte) :
    (MD.run env L flt (ser v ++ rest)).1 = .ok ∧ (MD.run env L flt (ser v ++ rest)).2.2 = (ser v).length := by
  have hrt := roundtrip env L v hr hw hd rest
  have := filter_code_consumed env L flt (ser v ++ rest) (by rw [hrt]; exact fun h => Code.noConfusion h)
  rw [hrt] at this
  exact this

/-- C09, prefix clause, every filter: the encoding is accepted, the empty prefix is EmptyInput, every other proper prefix is
    IncompleteInput -/
theorem prefix_classification_any_filter (env : Env) (L : Nat) (flt : Flt) (v : Val) (hr : RawFree v)
    (hw : WithinLimits env v) (hd : depth v ≤ L) (p : List Byte) (hp : p <+: ser v) :
    (MD.run env L flt p).1 = (if p = ser v then .ok else if p = [] then .empty else .incomplete) ∧
    (MD.run env L flt p).2.2 = p.length := by
  have hacc := accepts_any_filter env L flt v hr hw hd []
  rw [List.append_nil] at hacc
  by_cases he : p = ser v
  · subst he
    rw [if_pos rfl]
    exact hacc
  · rw [if_neg he]
    exact prefix_classification_of_consumed env L flt (ser v) hacc.2 p hp he

theorem prefix_incomplete_any_filter (env : Env) (L : Nat) (flt : Flt) (v : Val) (hr : RawFree v)
    (hw : WithinLimits env v) (hd : depth v ≤ L) (p : List Byte) (hp : p <+: ser v) (hne : p ≠ ser v) (h0 : p ≠ []) :
    (MD.run env L flt p).1 = .incomplete := by
  have := (prefix_classification_any_filter env L flt v hr hw hd p hp).1
  rw [if_neg hne, if_neg h0] at this
  exact this

/-! ## every legal encoding (`MD.Enc`: any width at every place, bin, ext, fixext, nested containers), every filter -/

/-- acceptance: Ok and exactly the bytes of the object consumed, whatever follows, under every filter -/
theorem enc_accepts (env : Env) (L : Nat) (flt : Flt) {d : Nat} {e : List Byte} (h : Enc env d e) (hd : d ≤ L)
    (rest : List Byte) :
    (MD.run env L flt (e ++ rest)).1 = .ok ∧ (MD.run env L flt (e ++ rest)).2.2 = e.length := by
  obtain ⟨v, hv⟩ := enc_accept h (2 * (e ++ rest).length + 4) L rest 0 hd (by simp only [List.length_append]; omega)
  have hall : (MD.run env L .all (e ++ rest)).1 = .ok ∧ (MD.run env L .all (e ++ rest)).2.2 = e.length := by
    simp only [run]
    rw [hv]
    exact ⟨rfl, by simp⟩
  have := filter_code_consumed env L flt (e ++ rest) (by rw [hall.1]; exact fun h => Code.noConfusion h)
  rw [this.1, this.2]
  exact hall

/-- C09, prefix clause, for every well-formed encoding and every filter -/
theorem enc_prefix_classification (env : Env) (L : Nat) (flt : Flt) {d : Nat} {e : List Byte} (h : Enc env d e)
    (hd : d ≤ L) (p : List Byte) (hp : p <+: e) :
    (MD.run env L flt p).1 = (if p = e then .ok else if p = [] then .empty else .incomplete) ∧
    (MD.run env L flt p).2.2 = p.length := by
  have hacc := enc_accepts env L flt h hd []
  rw [List.append_nil] at hacc
  by_cases he : p = e
  · subst he
    rw [if_pos rfl]
    exact hacc
  · rw [if_neg he]
    exact prefix_classification_of_consumed env L flt e hacc.2 p hp he

theorem enc_prefix_incomplete (env : Env) (L : Nat) (flt : Flt) {d : Nat} {e : List Byte} (h : Enc env d e)
    (hd : d ≤ L) (p : List Byte) (hp : p <+: e) (hne : p ≠ e) (h0 : p ≠ []) :
    (MD.run env L flt p).1 = .incomplete := by
  have := (enc_prefix_classification env L flt h hd p hp).1
  rw [if_neg hne, if_neg h0] at this
  exact this

/-! ## the serializer's output is a well-formed encoding in the sense of `MD.Enc` -/

theorem _root_.MD.Enc.mono {env : Env} {d : Nat} {e : List Byte} (h : Enc env d e) : ∀ d', d ≤ d' → Enc env d' e := by
  induction h with
  | leaf hl => intro d' _; exact .leaf hl
  | @arr d hdr es hh _ ih =>
    intro d' hd
    obtain ⟨d'', rfl⟩ : ∃ d'', d' = d'' + 1 := ⟨d' - 1, by omega⟩
    exact .arr hdr es hh (fun e he => ih e he d'' (by omega))
  | @map d hdr kvs hh hk _ ih =>
    intro d' hd
    obtain ⟨d'', rfl⟩ : ∃ d'', d' = d'' + 1 := ⟨d' - 1, by omega⟩
    exact .map hdr kvs hh hk (fun kv he => ih kv he d'' (by omega))

theorem leafEnc_encUInt (env : Env) (n : Nat) (h : n < 2^64) : LeafEnc env (encUInt n) := by
  unfold encUInt
  split
  · exact .posfix _ (by rw [ofNat_toNat n (by omega)]; omega)
  · split
    · exact .int 0xCC _ (by decide) (by decide) (by simp [beN_length])
    · split
      · exact .int 0xCD _ (by decide) (by decide) (by simp [beN_length])
      · split
        · exact .int 0xCE _ (by decide) (by decide) (by simp [beN_length])
        · exact .int 0xCF _ (by decide) (by decide) (by simp [beN_length])

theorem leafEnc_encInt (env : Env) (v : Int) (h1 : -2^63 ≤ v) (h2 : v < 2^64) : LeafEnc env (encInt v) := by
  unfold encInt
  split
  · exact leafEnc_encUInt env _ (by omega)
  · split
    · rw [beN1_eq]
      have hc := ofNat_toNat ((v + 256).toNat % 256) (by omega)
      by_cases h0 : v = 0
      · exact .posfix _ (by rw [hc]; omega)
      · exact .negfix _ (by rw [hc]; omega)
    · split
      · exact .int 0xD0 _ (by decide) (by decide) (by simp [beN_length])
      · split
        · exact .int 0xD1 _ (by decide) (by decide) (by simp [beN_length])
        · split
          · exact .int 0xD2 _ (by decide) (by decide) (by simp [beN_length])
          · exact .int 0xD3 _ (by decide) (by decide) (by simp [beN_length])

theorem leafEnc_encF32 (env : Env) (b : Nat) : LeafEnc env (encF32 b) := by
  rw [encF32_eq]
  cases hf : f32Int b with
  | none => exact .f32 _ (beN_length _ _)
  | some k => exact leafEnc_encInt env k (f32Int_range b k hf).1 (f32Int_range b k hf).2

theorem leafEnc_encF64 (env : Env) (b : Nat) : LeafEnc env (encF64 b) := by
  rw [encF64_eq]
  split
  · exact leafEnc_encF32 env _
  · exact .f64 _ (beN_length _ _)

theorem leafEnc_str (env : Env) (s : List Byte) (hm : s.length ≤ env.maxStrLen) (h32 : s.length < 2^32) :
    LeafEnc env (strHdr s.length ++ s) := by
  unfold strHdr
  split
  · exact .fixstr _ s (by rw [ofNat_toNat _ (by omega)]) (by omega) hm
  · split
    · exact .str8 _ s (beN_length _ _) (beNat_beN1 _ (by omega)) hm
    · split
      · exact .str16 _ s (beN_length _ _) (beNat_beN2 _ (by omega)) hm
      · exact .str32 _ s (beN_length _ _) (beNat_beN4 _ (by omega)) hm

theorem keyEnc_str (env : Env) (k : List Byte) (hm : k.length ≤ env.maxStrLen) (h32 : k.length < 2^32) :
    KeyEnc env (strHdr k.length ++ k) := by
  unfold strHdr
  split
  · exact .fix _ k (by rw [ofNat_toNat _ (by omega)]) (by omega) hm
  · split
    · exact .sized 0xD9 0 _ k (by decide) (by decide) (beN_length _ _) (beNat_beN1 _ (by omega)) hm
    · split
      · exact .sized 0xDA 1 _ k (by decide) (by decide) (beN_length _ _) (beNat_beN2 _ (by omega)) hm
      · exact .sized 0xDB 2 _ k (by decide) (by decide) (beN_length _ _) (beNat_beN4 _ (by omega)) hm

theorem arrHdr_ok (n : Nat) (h : n < 2^32) : ArrHdr (arrHdr n) n := by
  unfold arrHdr
  split
  · exact .fix _ n (by rw [ofNat_toNat _ (by omega)]) (by omega)
  · split
    · exact .a16 _ n (beN_length _ _) (beNat_beN2 _ (by omega))
    · exact .a32 _ n (beN_length _ _) (beNat_beN4 _ (by omega))

theorem mapHdr_ok (n : Nat) (h : n < 2^32) : MapHdr (mapHdr n) n := by
  unfold mapHdr
  split
  · exact .fix _ n (by rw [ofNat_toNat _ (by omega)]) (by omega)
  · split
    · exact .m16 _ n (beN_length _ _) (beNat_beN2 _ (by omega))
    · exact .m32 _ n (beN_length _ _) (beNat_beN4 _ (by omega))

theorem serElems_flatten : ∀ xs : List Val, serElems xs = (xs.map ser).flatten
  | [] => rfl
  | x :: r => by simp only [serElems, List.map_cons, List.flatten_cons, serElems_flatten r]

theorem serMembers_flatten : ∀ ms : List (List Byte × Val),
    serMembers ms = ((ms.map (fun kv => (strHdr kv.1.length ++ kv.1, ser kv.2))).map (fun kv => kv.1 ++ kv.2)).flatten
  | [] => rfl
  | (k, v) :: r => by
    simp only [serMembers, List.map_cons, List.flatten_cons, serMembers_flatten r, List.append_assoc]

mutual
theorem ser_enc (env : Env) : ∀ v, RawFree v → WithinLimits env v → Enc env (depth v) (ser v)
  | .null, _, _ => .leaf .nil
  | .bool b, _, _ => by simp only [ser]; exact .leaf (.bool b)
  | .num (.uint n), _, hw => by simp only [ser]; exact .leaf (leafEnc_encUInt env n hw)
  | .num (.sint n), _, hw => by simp only [ser]; exact .leaf (leafEnc_encInt env n hw.1 hw.2)
  | .num (.f32 n), _, _ => by simp only [ser]; exact .leaf (leafEnc_encF32 env n)
  | .num (.f64 n), _, _ => by simp only [ser]; exact .leaf (leafEnc_encF64 env n)
  | .str s, _, hw => by
    simp only [WithinLimits] at hw
    simp only [ser]; exact .leaf (leafEnc_str env s hw.1 hw.2)
  | .raw s, hr, _ => by simp [RawFree] at hr
  | .arr xs, hr, hw => by
    simp only [RawFree] at hr
    simp only [WithinLimits] at hw
    simp only [ser, depth, serElems_flatten, Nat.add_comm 1]
    refine .arr _ _ (by rw [List.length_map]; exact arrHdr_ok _ hw.1) (fun e he => ?_)
    obtain ⟨x, hx, rfl⟩ := List.mem_map.mp he
    exact ser_enc_elems env xs hr hw.2 x hx
  | .obj ms, hr, hw => by
    simp only [RawFree] at hr
    simp only [WithinLimits] at hw
    simp only [ser, depth, serMembers_flatten, Nat.add_comm 1]
    refine .map _ _ (by rw [List.length_map]; exact mapHdr_ok _ hw.1) (fun kv he => ?_) (fun kv he => ?_)
    · obtain ⟨m, hm, rfl⟩ := List.mem_map.mp he
      exact (ser_enc_members env ms hr hw.2 m hm).1
    · obtain ⟨m, hm, rfl⟩ := List.mem_map.mp he
      exact (ser_enc_members env ms hr hw.2 m hm).2
theorem ser_enc_elems (env : Env) : ∀ xs, RawFreeElems xs → WithinLimitsElems env xs →
    ∀ x ∈ xs, Enc env (depthElems xs) (ser x)
  | [], _, _ => fun _ h => by simp at h
  | y :: r, hr, hw => fun x hx => by
    simp only [RawFreeElems] at hr
    simp only [WithinLimitsElems] at hw
    simp only [depthElems]
    rcases List.mem_cons.mp hx with h | hx
    · rw [h]; exact (ser_enc env y hr.1 hw.1).mono _ (by omega)
    · exact (ser_enc_elems env r hr.2 hw.2 x hx).mono _ (by omega)
theorem ser_enc_members (env : Env) : ∀ ms, RawFreeMembers ms → WithinLimitsMembers env ms →
    ∀ m ∈ ms, KeyEnc env (strHdr m.1.length ++ m.1) ∧ Enc env (depthMembers ms) (ser m.2)
  | [], _, _ => fun _ h => by simp at h
  | (k, v) :: r, hr, hw => fun m hm => by
    simp only [RawFreeMembers] at hr
    simp only [WithinLimitsMembers] at hw
    simp only [depthMembers]
    rcases List.mem_cons.mp hm with h | hm
    · rw [h]; exact ⟨keyEnc_str env k hw.1.1 hw.1.2, (ser_enc env v hr.1 hw.2.1).mono _ (by omega)⟩
    · have := ser_enc_members env r hr.2 hw.2.2 m hm
      exact ⟨this.1, this.2.mono _ (by omega)⟩
end

/-! ## a prefix that ends inside the second object of a sequence -/

/-- back-to-back objects `ser v ++ e2`: a prefix `p` that contains the whole first object (and ends anywhere in `e2`, `e2`
    arbitrary bytes) yields Ok, the first document, exactly `(ser v).length` bytes consumed -/
theorem single_prefix_of_sequence (env : Env) (L : Nat) (v : Val) (hr : RawFree v) (hw : WithinLimits env v)
    (hd : depth v ≤ L) (e2 p : List Byte) (hp : p <+: ser v ++ e2) (hlen : (ser v).length ≤ p.length) :
    MD.run env L .all p = (.ok, norm v, (ser v).length) := by
  have h1 : ser v <+: ser v ++ e2 := List.prefix_append _ _
  obtain ⟨q, rfl⟩ := List.prefix_of_prefix_length_le h1 hp hlen
  exact roundtrip env L v hr hw hd q

/-- the same for any first object in any legal encoding and any filter: once the run on `e1` ended with a code other than
    IncompleteInput / EmptyInput (Ok in particular), every input that starts with `e1` gives the same code, the same document
    and the same number of consumed bytes -/
theorem single_prefix_of_sequence_any (env : Env) (L : Nat) (flt : Flt) (e1 e2 p : List Byte)
    (h1 : (MD.run env L flt e1).1 ≠ .incomplete) (h2 : (MD.run env L flt e1).1 ≠ .empty)
    (hp : p <+: e1 ++ e2) (hlen : e1.length ≤ p.length) :
    MD.run env L flt p = MD.run env L flt e1 := by
  obtain ⟨q, rfl⟩ := List.prefix_of_prefix_length_le (List.prefix_append e1 e2) hp hlen
  exact extension_stable env L flt e1 q h1 h2

/-! ## errors at any depth: helpers -/
section positions
variable (env : Env)

theorem ser_pos (x : Val) (hr : RawFree x) : 1 ≤ (ser x).length := by
  have := fuelNeed_pos x
  have := fuelNeed_le x hr
  omega

theorem serElems_length_ge : ∀ xs, RawFreeElems xs → xs.length ≤ (serElems xs).length
  | [], _ => by simp
  | x :: r, h => by
    simp only [RawFreeElems] at h
    have := ser_pos x h.1
    have := serElems_length_ge r h.2
    simp only [serElems, List.length_cons, List.length_append]; omega

theorem serMembers_length_ge : ∀ ms, RawFreeMembers ms → ms.length ≤ (serMembers ms).length
  | [], _ => by simp
  | (k, v) :: r, h => by
    simp only [RawFreeMembers] at h
    have := ser_pos v h.1
    have := serMembers_length_ge r h.2
    simp only [serMembers, List.length_cons, List.length_append]; omega

/-- `readArray` over the complete elements `xs`, something else following -/
theorem ra_prefix (l : Nat) (tail : List Byte) : ∀ (xs : List Val) (g n q : Nat) (acc : List Val),
    RawFreeElems xs → WithinLimitsElems env xs → depthElems xs ≤ l → 2 * (serElems xs).length + 1 ≤ g → xs.length ≤ n →
    readArray env g l .all true n ⟨serElems xs ++ tail, q⟩ acc
      = readArray env (g - xs.length) l .all true (n - xs.length) ⟨tail, q + (serElems xs).length⟩
          ((normElems xs).reverse ++ acc) := by
  intro xs
  induction xs with
  | nil => intro g n q acc _ _ _ _ _; simp [serElems, normElems]
  | cons x r ih =>
    intro g n q acc hr hw hd hg hn
    simp only [RawFreeElems] at hr
    simp only [WithinLimitsElems] at hw
    simp only [depthElems] at hd
    simp only [serElems, List.length_cons, List.length_append] at hg hn
    obtain ⟨g', rfl⟩ : ∃ g', g = g' + 1 := ⟨g - 1, by omega⟩
    obtain ⟨n', rfl⟩ : ∃ n', n = n' + 1 := ⟨n - 1, by omega⟩
    have hx1 := ser_pos x hr.1
    have hx := (main env floatFacts g').1 x l (serElems r ++ tail) q hr.1 hw.1 (by omega)
      (by have := fuelNeed_le x hr.1; omega)
    simp only [serElems, List.append_assoc]
    rw [ra_succ env g' l n' _ _ acc _ _ hx, ih g' n' _ (norm x :: acc) hr.2 hw.2 (by omega) (by omega) (by omega)]
    simp only [normElems, List.length_cons, List.length_append, List.reverse_cons, List.append_assoc, List.cons_append,
      List.nil_append, Nat.add_sub_add_right, Nat.add_assoc]

/-- `readObject` over the complete members `ms`, something else following -/
theorem ro_prefix (l : Nat) (tail : List Byte) : ∀ (ms : List (List Byte × Val)) (g n q : Nat) (acc : List (List Byte × Val)),
    RawFreeMembers ms → WithinLimitsMembers env ms → depthMembers ms ≤ l → 2 * (serMembers ms).length + 1 ≤ g →
    ms.length ≤ n →
    readObject env g l .all true n ⟨serMembers ms ++ tail, q⟩ acc
      = readObject env (g - ms.length) l .all true (n - ms.length) ⟨tail, q + (serMembers ms).length⟩
          (acc ++ normMembers ms) := by
  intro ms
  induction ms with
  | nil => intro g n q acc _ _ _ _ _; simp [serMembers, normMembers]
  | cons km r ih =>
    obtain ⟨k, v⟩ := km
    intro g n q acc hr hw hd hg hn
    simp only [RawFreeMembers] at hr
    simp only [WithinLimitsMembers] at hw
    simp only [depthMembers] at hd
    simp only [serMembers, List.length_cons, List.length_append] at hg hn
    obtain ⟨g', rfl⟩ : ∃ g', g = g' + 1 := ⟨g - 1, by omega⟩
    obtain ⟨n', rfl⟩ : ∃ n', n = n' + 1 := ⟨n - 1, by omega⟩
    have hx1 := ser_pos v hr.1
    have hv := (main env floatFacts g').1 v l (serMembers r ++ tail) (q + (strHdr k.length ++ k).length) hr.1 hw.2.1
      (by omega) (by have := fuelNeed_le v hr.1; omega)
    simp only [serMembers]
    rw [show (strHdr k.length ++ k ++ ser v ++ serMembers r) ++ tail
        = (strHdr k.length ++ k) ++ (ser v ++ (serMembers r ++ tail)) by simp only [List.append_assoc]]
    rw [ro_succ env g' l q n' k _ acc _ _ _ hw.1.1 hw.1.2 hv,
      ih g' n' _ (acc ++ [(k, norm v)]) hr.2 hw.2.2 (by omega) (by omega) (by omega)]
    simp only [normMembers, List.length_cons, List.length_append, List.append_assoc, List.cons_append,
      List.nil_append, Nat.add_sub_add_right, Nat.add_assoc]

end positions

/-! ## errors at any depth: positions in a document -/

/-- at this point the value parser stops with code `e` after `k` more bytes: for every fuel `≥ f0`, at nesting limit `lim`,
    wherever the reader stands -/
def Fails (env : Env) (lim f0 : Nat) (tail : List Byte) (e : Code) (k : Nat) : Prop :=
  ∀ f, f0 ≤ f → ∀ q, ∃ v r', parseVariant env f lim .all true ⟨tail, q⟩ = (e, v, r', true) ∧ r'.pos = q + k

/-- `ValuePos env L d pre`: `pre` is the beginning of a document as written by the serializer, cut at a point where the next
    byte starts a VALUE (top level, array element, or map value just after its key); `d` containers are open there.
    Everything before is well-formed and within the limits of `MD.run env L`. -/
inductive ValuePos (env : Env) (L : Nat) : Nat → List Byte → Prop
  | top : ValuePos env L 0 []
  | elem {d : Nat} {pre : List Byte} (n : Nat) (xs : List Val) : ValuePos env L d pre → d < L → n < 2^32 → xs.length < n →
      RawFreeElems xs → WithinLimitsElems env xs → depthElems xs + (d + 1) ≤ L →
      ValuePos env L (d + 1) (pre ++ arrHdr n ++ serElems xs)
  | member {d : Nat} {pre : List Byte} (n : Nat) (ms : List (List Byte × Val)) (k : List Byte) : ValuePos env L d pre →
      d < L → n < 2^32 → ms.length < n →
      RawFreeMembers ms → WithinLimitsMembers env ms → depthMembers ms + (d + 1) ≤ L →
      k.length ≤ env.maxStrLen → k.length < 2^32 →
      ValuePos env L (d + 1) (pre ++ mapHdr n ++ serMembers ms ++ (strHdr k.length ++ k))

/-- `KeyPos env L pre`: the same, cut at a point where the next byte starts a map KEY (at any depth) -/
inductive KeyPos (env : Env) (L : Nat) : List Byte → Prop
  | mk {d : Nat} {pre : List Byte} (n : Nat) (ms : List (List Byte × Val)) : ValuePos env L d pre →
      d < L → n < 2^32 → ms.length < n →
      RawFreeMembers ms → WithinLimitsMembers env ms → depthMembers ms + (d + 1) ≤ L →
      KeyPos env L (pre ++ mapHdr n ++ serMembers ms)

theorem ra_fail (env : Env) (l f0 : Nat) (tail : List Byte) (e : Code) (k : Nat) (he : e ≠ .ok)
    (hF : Fails env l f0 tail e k) (g n q : Nat) (acc : List Val) (hn : n ≠ 0) (hg : f0 + 1 ≤ g) :
    ∃ vs r', readArray env g l .all true n ⟨tail, q⟩ acc = (e, vs, r') ∧ r'.pos = q + k := by
  obtain ⟨g', rfl⟩ : ∃ g', g = g' + 1 := ⟨g - 1, by omega⟩
  obtain ⟨v, r', h1, h2⟩ := hF g' (by omega) q
  rw [ra_succ_eq, if_neg (by simp [hn])]
  simp only [show (true && Flt.all.allow) = true from rfl]
  rw [h1]
  cases e
  · exact absurd rfl he
  all_goals exact ⟨_, _, rfl, h2⟩

theorem roVal_fail (env : Env) (l f0 : Nat) (tail : List Byte) (e : Code) (k : Nat) (he : e ≠ .ok)
    (hF : Fails env l f0 tail e k) (g n q : Nat) (acc : List (List Byte × Val)) (key : List Byte) (hg : f0 ≤ g) :
    ∃ ms r', roVal (parseVariant env g) (readObject env g) l .all true n acc key ⟨tail, q⟩ = (e, ms, r')
      ∧ r'.pos = q + k := by
  obtain ⟨v, r', h1, h2⟩ := hF g hg q
  simp only [roVal, show Flt.all.subKey key = Flt.all from rfl, show (true && Flt.all.allow) = true from rfl]
  rw [h1]
  cases e
  · exact absurd rfl he
  all_goals exact ⟨_, _, rfl, h2⟩

/-- an error at a value position comes out of the whole run with the same code, at the same byte -/
theorem propagate (env : Env) (L : Nat) {d : Nat} {pre : List Byte} (hp : ValuePos env L d pre) :
    ∀ (tail : List Byte) (e : Code) (k f0 : Nat), e ≠ .ok → Fails env (L - d) f0 tail e k →
      Fails env L (2 * pre.length + f0) (pre ++ tail) e (pre.length + k) := by
  induction hp with
  | top =>
    intro tail e k f0 _ hF
    simpa using hF
  | @elem d pre n xs _ hdL hn32 hlen hr hw hdep ih =>
    intro tail e k f0 he hF
    have e1 : (pre ++ arrHdr n ++ serElems xs) ++ tail = pre ++ (arrHdr n ++ (serElems xs ++ tail)) := by
      simp only [List.append_assoc]
    have e2 : 2 * (pre ++ arrHdr n ++ serElems xs).length + f0
        = 2 * pre.length + (2 * ((arrHdr n).length + (serElems xs).length) + f0) := by
      simp only [List.length_append]; omega
    have e3 : (pre ++ arrHdr n ++ serElems xs).length + k
        = pre.length + ((arrHdr n).length + (serElems xs).length + k) := by
      simp only [List.length_append]; omega
    rw [e1, e2, e3]
    refine ih _ e _ _ he ?_
    obtain ⟨l, hl1, hl2⟩ : ∃ l, L - d = l + 1 ∧ L - (d + 1) = l := ⟨L - (d + 1), by omega, rfl⟩
    rw [hl2] at hF
    rw [hl1]
    intro f hf q
    have hh := arrHdr_pos n
    have hge := serElems_length_ge xs hr
    obtain ⟨f1, rfl⟩ : ∃ f1, f = f1 + 1 := ⟨f - 1, by omega⟩
    rw [pv_arr env f1 l q n _ hn32, ra_prefix env l tail xs f1 n _ [] hr hw (by omega) (by omega) (by omega)]
    obtain ⟨vs, r', h1, h2⟩ := ra_fail env l f0 tail e k he hF (f1 - xs.length) (n - xs.length)
      (q + (arrHdr n).length + (serElems xs).length) ((normElems xs).reverse ++ []) (by omega) (by omega)
    rw [h1]
    exact ⟨_, _, rfl, by show r'.pos = _; omega⟩
  | @member d pre n ms key _ hdL hn32 hlen hr hw hdep hk1 hk2 ih =>
    intro tail e k f0 he hF
    have e1 : (pre ++ mapHdr n ++ serMembers ms ++ (strHdr key.length ++ key)) ++ tail
        = pre ++ (mapHdr n ++ (serMembers ms ++ ((strHdr key.length ++ key) ++ tail))) := by
      simp only [List.append_assoc]
    have e2 : 2 * (pre ++ mapHdr n ++ serMembers ms ++ (strHdr key.length ++ key)).length + f0
        = 2 * pre.length
          + (2 * ((mapHdr n).length + (serMembers ms).length + (strHdr key.length ++ key).length) + f0) := by
      simp only [List.length_append]; omega
    have e3 : (pre ++ mapHdr n ++ serMembers ms ++ (strHdr key.length ++ key)).length + k
        = pre.length + ((mapHdr n).length + (serMembers ms).length + (strHdr key.length ++ key).length + k) := by
      simp only [List.length_append]; omega
    rw [e1, e2, e3]
    refine ih _ e _ _ he ?_
    obtain ⟨l, hl1, hl2⟩ : ∃ l, L - d = l + 1 ∧ L - (d + 1) = l := ⟨L - (d + 1), by omega, rfl⟩
    rw [hl2] at hF
    rw [hl1]
    intro f hf q
    have hh := mapHdr_pos n
    have hge := serMembers_length_ge ms hr
    obtain ⟨f1, rfl⟩ : ∃ f1, f = f1 + 1 := ⟨f - 1, by omega⟩
    rw [pv_map env f1 l q n _ hn32,
      ro_prefix env l _ ms f1 n _ [] hr hw (by omega) (by omega) (by omega)]
    obtain ⟨g, hg⟩ : ∃ g, f1 - ms.length = g + 1 := ⟨f1 - ms.length - 1, by omega⟩
    obtain ⟨m, hm⟩ : ∃ m, n - ms.length = m + 1 := ⟨n - ms.length - 1, by omega⟩
    rw [hg, hm, ro_key env g l _ m key tail _ hk1 hk2]
    obtain ⟨ms', r', h1, h2⟩ := roVal_fail env l f0 tail e k he hF g (m + 1)
      (q + (mapHdr n).length + (serMembers ms).length + (strHdr key.length ++ key).length) ([] ++ normMembers ms) key
      (by omega)
    rw [h1]
    exact ⟨_, _, rfl, by show r'.pos = _; omega⟩

theorem fails_reserved (env : Env) (lim : Nat) (rest : List Byte) : Fails env lim 1 (0xC1 :: rest) .invalid 1 := by
  intro f hf q
  obtain ⟨f', rfl⟩ : ∃ f', f = f' + 1 := ⟨f - 1, by omega⟩
  exact ⟨_, _, pv_reserved env f' lim .all true rest q, rfl⟩

theorem run_of_fails (env : Env) (L f0 : Nat) (inp : List Byte) (e : Code) (k : Nat) (h : Fails env L f0 inp e k)
    (hf : f0 ≤ 2 * inp.length + 4) : (MD.run env L .all inp).1 = e ∧ (MD.run env L .all inp).2.2 = k := by
  obtain ⟨v, r', h1, h2⟩ := h (2 * inp.length + 4) hf 0
  simp only [run]
  rw [h1]
  exact ⟨rfl, by simpa using h2⟩

/-- a map whose members `ms` are complete and whose next key starts with a byte that is not a str header -/
theorem fails_bad_key (env : Env) (l n : Nat) (ms : List (List Byte × Val)) (c : Byte) (rest : List Byte)
    (hn32 : n < 2^32) (hlen : ms.length < n) (hr : RawFreeMembers ms) (hw : WithinLimitsMembers env ms)
    (hdep : depthMembers ms ≤ l)
    (h1 : ¬ (0xa0 ≤ c.toNat ∧ c.toNat ≤ 0xbf)) (h2 : ¬ (0xd9 ≤ c.toNat ∧ c.toNat ≤ 0xdb)) :
    Fails env (l + 1) (2 * ((mapHdr n).length + (serMembers ms).length) + 1)
      (mapHdr n ++ (serMembers ms ++ c :: rest)) .invalid ((mapHdr n).length + (serMembers ms).length + 1) := by
  intro f hf q
  have hh := mapHdr_pos n
  have hge := serMembers_length_ge ms hr
  obtain ⟨f1, rfl⟩ : ∃ f1, f = f1 + 1 := ⟨f - 1, by omega⟩
  rw [pv_map env f1 l q n _ hn32, ro_prefix env l _ ms f1 n _ [] hr hw hdep (by omega) (by omega)]
  obtain ⟨g, hg⟩ : ∃ g, f1 - ms.length = g + 1 := ⟨f1 - ms.length - 1, by omega⟩
  obtain ⟨m, hm⟩ : ∃ m, n - ms.length = m + 1 := ⟨n - ms.length - 1, by omega⟩
  rw [hg, hm, ro_bad_key env g l .all true m c rest _ _ h1 h2]
  exact ⟨_, _, rfl, by simp only; omega⟩

/-! ## C09, InvalidInput clause, at any depth -/

/-- the reserved code 0xC1 where a value is expected (top level, array element, map value; any depth), everything before being
    well-formed: InvalidInput, consumed up to and including the 0xC1 byte; every filter -/
theorem reserved_code_at (env : Env) (L : Nat) (flt : Flt) {d : Nat} {pre : List Byte} (hp : ValuePos env L d pre)
    (rest : List Byte) :
    (MD.run env L flt (pre ++ 0xC1 :: rest)).1 = .invalid ∧ (MD.run env L flt (pre ++ 0xC1 :: rest)).2.2 = pre.length + 1 := by
  have hF := propagate env L hp (0xC1 :: rest) .invalid 1 1 (fun h => Code.noConfusion h) (fails_reserved env _ rest)
  have hall := run_of_fails env L _ _ _ _ hF (by simp only [List.length_append, List.length_cons]; omega)
  have hflt := filter_code_consumed env L flt (pre ++ 0xC1 :: rest) (by rw [hall.1]; exact fun h => Code.noConfusion h)
  rw [hflt.1, hflt.2]
  exact hall

/-- a byte that does not start a str (fixstr, str 8/16/32) where a map key is expected (any depth), everything before being
    well-formed: InvalidInput, consumed up to and including that byte; every filter -/
theorem non_string_key_at (env : Env) (L : Nat) (flt : Flt) {pre : List Byte} (hp : KeyPos env L pre)
    (c : Byte) (rest : List Byte)
    (h1 : ¬ (0xa0 ≤ c.toNat ∧ c.toNat ≤ 0xbf)) (h2 : ¬ (0xd9 ≤ c.toNat ∧ c.toNat ≤ 0xdb)) :
    (MD.run env L flt (pre ++ c :: rest)).1 = .invalid ∧ (MD.run env L flt (pre ++ c :: rest)).2.2 = pre.length + 1 := by
  cases hp with
  | @mk d pre n ms hv hdL hn32 hlen hr hw hdep =>
    obtain ⟨l, hl1, hl2⟩ : ∃ l, L - d = l + 1 ∧ L - (d + 1) = l := ⟨L - (d + 1), by omega, rfl⟩
    have hB := fails_bad_key env l n ms c rest hn32 hlen hr hw (by omega) h1 h2
    rw [← hl1] at hB
    have hF := propagate env L hv _ .invalid _ _ (fun h => Code.noConfusion h) hB
    have e1 : pre ++ (mapHdr n ++ (serMembers ms ++ c :: rest)) = (pre ++ mapHdr n ++ serMembers ms) ++ c :: rest := by
      simp only [List.append_assoc]
    rw [e1] at hF
    have hall := run_of_fails env L _ _ _ _ hF (by simp only [List.length_append, List.length_cons]; omega)
    have hflt := filter_code_consumed env L flt _ (by rw [hall.1]; exact fun h => Code.noConfusion h)
    rw [hflt.1, hflt.2]
    exact ⟨hall.1, by rw [hall.2]; simp only [List.length_append]; omega⟩

/-- C09, InvalidInput clause -/
theorem invalid_classification (env : Env) (L : Nat) (flt : Flt) :
    (∀ (d : Nat) (pre rest : List Byte), ValuePos env L d pre →
      (MD.run env L flt (pre ++ 0xC1 :: rest)).1 = .invalid ∧
      (MD.run env L flt (pre ++ 0xC1 :: rest)).2.2 = pre.length + 1) ∧
    (∀ (pre : List Byte) (c : Byte) (rest : List Byte), KeyPos env L pre →
      ¬ (0xa0 ≤ c.toNat ∧ c.toNat ≤ 0xbf) → ¬ (0xd9 ≤ c.toNat ∧ c.toNat ≤ 0xdb) →
      (MD.run env L flt (pre ++ c :: rest)).1 = .invalid ∧ (MD.run env L flt (pre ++ c :: rest)).2.2 = pre.length + 1) :=
  ⟨fun _ _ rest hp => reserved_code_at env L flt hp rest, fun _ c rest hp h1 h2 => non_string_key_at env L flt hp c rest h1 h2⟩

/-! ## the same for positions in any well-formed encoding (any legal width before the position) -/

/-- `ValuePosE env L d pre`: `pre` is the beginning of a well-formed MessagePack document (`MD.Enc`: any legal width), cut at a
    point where the next byte starts a VALUE; `d` containers are open there -/
inductive ValuePosE (env : Env) (L : Nat) : Nat → List Byte → Prop
  | top : ValuePosE env L 0 []
  | elem {d : Nat} {pre : List Byte} (hdr : List Byte) (n : Nat) (es : List (List Byte)) : ValuePosE env L d pre →
      d < L → ArrHdr hdr n → es.length < n → (∀ e ∈ es, Enc env (L - (d + 1)) e) →
      ValuePosE env L (d + 1) (pre ++ hdr ++ es.flatten)
  | member {d : Nat} {pre : List Byte} (hdr : List Byte) (n : Nat) (kvs : List (List Byte × List Byte)) (kb : List Byte) :
      ValuePosE env L d pre → d < L → MapHdr hdr n → kvs.length < n →
      (∀ kv ∈ kvs, KeyEnc env kv.1) → (∀ kv ∈ kvs, Enc env (L - (d + 1)) kv.2) → KeyEnc env kb →
      ValuePosE env L (d + 1) (pre ++ hdr ++ (kvs.map (fun kv => kv.1 ++ kv.2)).flatten ++ kb)

/-- the same, cut where the next byte starts a map KEY -/
inductive KeyPosE (env : Env) (L : Nat) : List Byte → Prop
  | mk {d : Nat} {pre : List Byte} (hdr : List Byte) (n : Nat) (kvs : List (List Byte × List Byte)) :
      ValuePosE env L d pre → d < L → MapHdr hdr n → kvs.length < n →
      (∀ kv ∈ kvs, KeyEnc env kv.1) → (∀ kv ∈ kvs, Enc env (L - (d + 1)) kv.2) →
      KeyPosE env L (pre ++ hdr ++ (kvs.map (fun kv => kv.1 ++ kv.2)).flatten)

theorem members_flatten_ge {env : Env} {dd : Nat} (kvs : List (List Byte × List Byte))
    (hv : ∀ kv ∈ kvs, Enc env dd kv.2) : kvs.length ≤ (kvs.map (fun kv => kv.1 ++ kv.2)).flatten.length := by
  have := flatten_length_ge (kvs.map (fun kv => kv.1 ++ kv.2)) (by
    intro e he
    obtain ⟨kv, hkv, rfl⟩ := List.mem_map.mp he
    have := enc_nonempty (hv kv hkv)
    simp only [List.length_append]; omega)
  rw [List.length_map] at this
  exact this

theorem propagateE (env : Env) (L : Nat) {d : Nat} {pre : List Byte} (hp : ValuePosE env L d pre) :
    ∀ (tail : List Byte) (e : Code) (k f0 : Nat), e ≠ .ok → Fails env (L - d) f0 tail e k →
      Fails env L (2 * pre.length + f0) (pre ++ tail) e (pre.length + k) := by
  induction hp with
  | top =>
    intro tail e k f0 _ hF
    simpa using hF
  | @elem d pre hdr n es _ hdL hh hlen hes ih =>
    intro tail e k f0 he hF
    have e1 : (pre ++ hdr ++ es.flatten) ++ tail = pre ++ (hdr ++ (es.flatten ++ tail)) := by
      simp only [List.append_assoc]
    have e2 : 2 * (pre ++ hdr ++ es.flatten).length + f0
        = 2 * pre.length + (2 * (hdr.length + es.flatten.length) + f0) := by
      simp only [List.length_append]; omega
    have e3 : (pre ++ hdr ++ es.flatten).length + k = pre.length + (hdr.length + es.flatten.length + k) := by
      simp only [List.length_append]; omega
    rw [e1, e2, e3]
    refine ih _ e _ _ he ?_
    obtain ⟨l, hl1, hl2⟩ : ∃ l, L - d = l + 1 ∧ L - (d + 1) = l := ⟨L - (d + 1), by omega, rfl⟩
    rw [hl2] at hF hes
    rw [hl1]
    intro f hf q
    have hh1 := arrHdr_nonempty hh
    have hge := flatten_length_ge es (fun e he => enc_nonempty (hes e he))
    obtain ⟨f1, rfl⟩ : ∃ f1, f = f1 + 1 := ⟨f - 1, by omega⟩
    obtain ⟨acc', hacc⟩ := ra_prefix_enc env l l (Nat.le_refl _) tail es
      (fun e he => ⟨enc_nonempty (hes e he), enc_accept (hes e he)⟩) f1 n (q + hdr.length) [] (by omega) (by omega)
    rw [arrHdr_accept hh, hacc]
    obtain ⟨vs, r', h1, h2⟩ := ra_fail env l f0 tail e k he hF (f1 - es.length) (n - es.length)
      (q + hdr.length + es.flatten.length) acc' (by omega) (by omega)
    rw [h1]
    exact ⟨_, _, rfl, by show r'.pos = _; omega⟩
  | @member d pre hdr n kvs kb _ hdL hh hlen hks hes hkb ih =>
    intro tail e k f0 he hF
    have e1 : (pre ++ hdr ++ (kvs.map (fun kv => kv.1 ++ kv.2)).flatten ++ kb) ++ tail
        = pre ++ (hdr ++ ((kvs.map (fun kv => kv.1 ++ kv.2)).flatten ++ (kb ++ tail))) := by
      simp only [List.append_assoc]
    have e2 : 2 * (pre ++ hdr ++ (kvs.map (fun kv => kv.1 ++ kv.2)).flatten ++ kb).length + f0
        = 2 * pre.length
          + (2 * (hdr.length + (kvs.map (fun kv => kv.1 ++ kv.2)).flatten.length + kb.length) + f0) := by
      simp only [List.length_append]; omega
    have e3 : (pre ++ hdr ++ (kvs.map (fun kv => kv.1 ++ kv.2)).flatten ++ kb).length + k
        = pre.length + (hdr.length + (kvs.map (fun kv => kv.1 ++ kv.2)).flatten.length + kb.length + k) := by
      simp only [List.length_append]; omega
    rw [e1, e2, e3]
    refine ih _ e _ _ he ?_
    obtain ⟨l, hl1, hl2⟩ : ∃ l, L - d = l + 1 ∧ L - (d + 1) = l := ⟨L - (d + 1), by omega, rfl⟩
    rw [hl2] at hF hes
    rw [hl1]
    intro f hf q
    have hh1 := mapHdr_nonempty hh
    have hge := members_flatten_ge kvs hes
    obtain ⟨f1, rfl⟩ : ∃ f1, f = f1 + 1 := ⟨f - 1, by omega⟩
    obtain ⟨acc', hacc⟩ := ro_prefix_enc env l l (Nat.le_refl _) (kb ++ tail) kvs hks
      (fun kv he => ⟨enc_nonempty (hes kv he), enc_accept (hes kv he)⟩) f1 n (q + hdr.length) [] (by omega) (by omega)
    rw [mapHdr_accept hh, hacc]
    obtain ⟨g, hg⟩ : ∃ g, f1 - kvs.length = g + 1 := ⟨f1 - kvs.length - 1, by omega⟩
    obtain ⟨m, hm⟩ : ∃ m, n - kvs.length = m + 1 := ⟨n - kvs.length - 1, by omega⟩
    obtain ⟨key, hkey⟩ := ro_key_enc hkb g l (q + hdr.length + (kvs.map (fun kv => kv.1 ++ kv.2)).flatten.length) m tail acc'
    rw [hg, hm, hkey]
    obtain ⟨ms', r', h1, h2⟩ := roVal_fail env l f0 tail e k he hF g (m + 1)
      (q + hdr.length + (kvs.map (fun kv => kv.1 ++ kv.2)).flatten.length + kb.length) acc' key (by omega)
    rw [h1]
    exact ⟨_, _, rfl, by show r'.pos = _; omega⟩

theorem fails_bad_key_enc (env : Env) (l : Nat) (hdr : List Byte) (n : Nat) (kvs : List (List Byte × List Byte))
    (c : Byte) (rest : List Byte) (hh : MapHdr hdr n) (hlen : kvs.length < n)
    (hks : ∀ kv ∈ kvs, KeyEnc env kv.1) (hes : ∀ kv ∈ kvs, Enc env l kv.2)
    (h1 : ¬ (0xa0 ≤ c.toNat ∧ c.toNat ≤ 0xbf)) (h2 : ¬ (0xd9 ≤ c.toNat ∧ c.toNat ≤ 0xdb)) :
    Fails env (l + 1) (2 * (hdr.length + (kvs.map (fun kv => kv.1 ++ kv.2)).flatten.length) + 1)
      (hdr ++ ((kvs.map (fun kv => kv.1 ++ kv.2)).flatten ++ c :: rest)) .invalid
      (hdr.length + (kvs.map (fun kv => kv.1 ++ kv.2)).flatten.length + 1) := by
  intro f hf q
  have hh1 := mapHdr_nonempty hh
  have hge := members_flatten_ge kvs hes
  obtain ⟨f1, rfl⟩ : ∃ f1, f = f1 + 1 := ⟨f - 1, by omega⟩
  obtain ⟨acc', hacc⟩ := ro_prefix_enc env l l (Nat.le_refl _) (c :: rest) kvs hks
    (fun kv he => ⟨enc_nonempty (hes kv he), enc_accept (hes kv he)⟩) f1 n (q + hdr.length) [] (by omega) (by omega)
  rw [mapHdr_accept hh, hacc]
  obtain ⟨g, hg⟩ : ∃ g, f1 - kvs.length = g + 1 := ⟨f1 - kvs.length - 1, by omega⟩
  obtain ⟨m, hm⟩ : ∃ m, n - kvs.length = m + 1 := ⟨n - kvs.length - 1, by omega⟩
  rw [hg, hm, ro_bad_key env g l .all true m c rest _ _ h1 h2]
  exact ⟨_, _, rfl, by simp only; omega⟩

/-- 0xC1 where a value is expected, after any well-formed beginning in any legal width: InvalidInput; every filter -/
theorem reserved_code_at_enc (env : Env) (L : Nat) (flt : Flt) {d : Nat} {pre : List Byte} (hp : ValuePosE env L d pre)
    (rest : List Byte) :
    (MD.run env L flt (pre ++ 0xC1 :: rest)).1 = .invalid ∧ (MD.run env L flt (pre ++ 0xC1 :: rest)).2.2 = pre.length + 1 := by
  have hF := propagateE env L hp (0xC1 :: rest) .invalid 1 1 (fun h => Code.noConfusion h) (fails_reserved env _ rest)
  have hall := run_of_fails env L _ _ _ _ hF (by simp only [List.length_append, List.length_cons]; omega)
  have hflt := filter_code_consumed env L flt (pre ++ 0xC1 :: rest) (by rw [hall.1]; exact fun h => Code.noConfusion h)
  rw [hflt.1, hflt.2]
  exact hall

/-- a non-str byte where a key is expected, after any well-formed beginning in any legal width: InvalidInput; every filter -/
theorem non_string_key_at_enc (env : Env) (L : Nat) (flt : Flt) {pre : List Byte} (hp : KeyPosE env L pre)
    (c : Byte) (rest : List Byte)
    (h1 : ¬ (0xa0 ≤ c.toNat ∧ c.toNat ≤ 0xbf)) (h2 : ¬ (0xd9 ≤ c.toNat ∧ c.toNat ≤ 0xdb)) :
    (MD.run env L flt (pre ++ c :: rest)).1 = .invalid ∧ (MD.run env L flt (pre ++ c :: rest)).2.2 = pre.length + 1 := by
  cases hp with
  | @mk d pre hdr n kvs hv hdL hh hlen hks hes =>
    obtain ⟨l, hl1, hl2⟩ : ∃ l, L - d = l + 1 ∧ L - (d + 1) = l := ⟨L - (d + 1), by omega, rfl⟩
    rw [hl2] at hes
    have hB := fails_bad_key_enc env l hdr n kvs c rest hh hlen hks hes h1 h2
    rw [← hl1] at hB
    have hF := propagateE env L hv _ .invalid _ _ (fun h => Code.noConfusion h) hB
    have e1 : pre ++ (hdr ++ ((kvs.map (fun kv => kv.1 ++ kv.2)).flatten ++ c :: rest))
        = (pre ++ hdr ++ (kvs.map (fun kv => kv.1 ++ kv.2)).flatten) ++ c :: rest := by
      simp only [List.append_assoc]
    rw [e1] at hF
    have hall := run_of_fails env L _ _ _ _ hF (by simp only [List.length_append, List.length_cons]; omega)
    have hflt := filter_code_consumed env L flt _ (by rw [hall.1]; exact fun h => Code.noConfusion h)
    rw [hflt.1, hflt.2]
    exact ⟨hall.1, by rw [hall.2]; simp only [List.length_append]; omega⟩

/-- the positions after a beginning written by the serializer are positions in this sense -/
theorem ValuePos.toE {env : Env} {L d : Nat} {pre : List Byte} (h : ValuePos env L d pre) : ValuePosE env L d pre := by
  induction h with
  | top => exact .top
  | @elem d pre n xs _ hdL hn32 hlen hr hw hdep ih =>
    rw [serElems_flatten]
    refine .elem (arrHdr n) n (xs.map ser) ih hdL (arrHdr_ok n hn32) (by rw [List.length_map]; exact hlen) ?_
    intro e he
    obtain ⟨x, hx, rfl⟩ := List.mem_map.mp he
    exact (ser_enc_elems env xs hr hw x hx).mono _ (by omega)
  | @member d pre n ms k _ hdL hn32 hlen hr hw hdep hk1 hk2 ih =>
    rw [serMembers_flatten]
    refine .member (mapHdr n) n _ _ ih hdL (mapHdr_ok n hn32) (by rw [List.length_map]; exact hlen) ?_ ?_
      (keyEnc_str env k hk1 hk2)
    · intro kv he
      obtain ⟨m, hm, rfl⟩ := List.mem_map.mp he
      exact (ser_enc_members env ms hr hw m hm).1
    · intro kv he
      obtain ⟨m, hm, rfl⟩ := List.mem_map.mp he
      exact ((ser_enc_members env ms hr hw m hm).2).mono _ (by omega)

/-- C09, InvalidInput clause, after any well-formed beginning (any legal width) -/
theorem invalid_classification_enc (env : Env) (L : Nat) (flt : Flt) :
    (∀ (d : Nat) (pre rest : List Byte), ValuePosE env L d pre →
      (MD.run env L flt (pre ++ 0xC1 :: rest)).1 = .invalid ∧
      (MD.run env L flt (pre ++ 0xC1 :: rest)).2.2 = pre.length + 1) ∧
    (∀ (pre : List Byte) (c : Byte) (rest : List Byte), KeyPosE env L pre →
      ¬ (0xa0 ≤ c.toNat ∧ c.toNat ≤ 0xbf) → ¬ (0xd9 ≤ c.toNat ∧ c.toNat ≤ 0xdb) →
      (MD.run env L flt (pre ++ c :: rest)).1 = .invalid ∧ (MD.run env L flt (pre ++ c :: rest)).2.2 = pre.length + 1) :=
  ⟨fun _ _ rest hp => reserved_code_at_enc env L flt hp rest,
   fun _ c rest hp h1 h2 => non_string_key_at_enc env L flt hp c rest h1 h2⟩

/-! ## non-vacuity -/
section examples

/-- all the prefixes of a list, shortest first -/
def prefixesOf (l : List Byte) : List (List Byte) := (List.range (l.length + 1)).map (fun n => l.take n)
theorem mem_prefixes {p l : List Byte} (h : p <+: l) : p ∈ prefixesOf l := by
  simp only [prefixesOf, List.mem_map, List.mem_range]
  exact ⟨p.length, by have := h.length_le; omega, (List.prefix_iff_eq_take.mp h).symm⟩

/-- `{"a":[1,{"b":"hi"}],"c":null}` -/
def nestDoc : Val := .obj [([0x61], .arr [.num (.uint 1), .obj [([0x62], .str [0x68, 0x69])]]), ([0x63], .null)]
def nestBytes : List Byte := [0x82, 0xA1, 0x61, 0x92, 0x01, 0x81, 0xA1, 0x62, 0xA2, 0x68, 0x69, 0xA1, 0x63, 0xC0]
theorem nest_ser : ser nestDoc = nestBytes := by decide +kernel
theorem nest_rawFree : RawFree nestDoc := by
  simp only [nestDoc, RawFree, RawFreeElems, RawFreeMembers, and_self]
theorem nest_within : WithinLimits ⟨65535⟩ nestDoc := by
  simp only [nestDoc, WithinLimits, WithinLimitsElems, WithinLimitsMembers, NumOk, List.length_cons, List.length_nil]
  decide
theorem nest_depth : depth nestDoc ≤ 3 := by
  simp only [nestDoc, depth, depthElems, depthMembers]; decide

/-- `prefix_classification` instantiated on a prefix that ends inside the inner map (7 of 14 bytes) -/
example : (MD.run ⟨65535⟩ 3 .all [0x82, 0xA1, 0x61, 0x92, 0x01, 0x81, 0xA1]).1 = .incomplete :=
  prefix_incomplete ⟨65535⟩ 3 nestDoc nest_rawFree nest_within nest_depth _
    (by rw [nest_ser]; decide +kernel) (by rw [nest_ser]; decide +kernel) (by decide)

/-- each of the 15 prefixes of the nested document, by evaluation of the model in the kernel (independent of the theorems):
    EmptyInput, 13 × IncompleteInput, Ok; the whole prefix is consumed every time -/
example : ∀ p ∈ prefixesOf nestBytes,
    (MD.run ⟨65535⟩ 3 .all p).1 = (if p = nestBytes then .ok else if p = [] then .empty else .incomplete)
    ∧ (MD.run ⟨65535⟩ 3 .all p).2.2 = p.length := by decide +kernel

/-- the same under a filter that keeps only member "c" (the array under "a" is skipped, not read) -/
def keepC : Flt := .doc (some (.obj [([0x63], .bool true)]))
example : (MD.run ⟨65535⟩ 3 keepC [0x82, 0xA1, 0x61, 0x92, 0x01, 0x81, 0xA1, 0x62, 0xA2, 0x68]).1 = .incomplete :=
  prefix_incomplete_any_filter ⟨65535⟩ 3 keepC nestDoc nest_rawFree nest_within nest_depth _
    (by rw [nest_ser]; decide +kernel) (by rw [nest_ser]; decide +kernel) (by decide)
example : ∀ p ∈ prefixesOf nestBytes,
    (MD.run ⟨65535⟩ 3 keepC p).1 = (if p = nestBytes then .ok else if p = [] then .empty else .incomplete)
    ∧ (MD.run ⟨65535⟩ 3 keepC p).2.2 = p.length := by decide +kernel

/-- encodings the serializer never writes (the semantic theorem covers them): a str16 of 3 bytes, a bin8, a fixext2, an ext8,
    and an array16 holding a map16 with a str8 key, a uint16 and a bin8 -/
def str16Bytes : List Byte := [0xDA, 0x00, 0x03, 0x61, 0x62, 0x63]
def bin8Bytes : List Byte := [0xC4, 0x02, 0x01, 0x02]
def fixext2Bytes : List Byte := [0xD5, 0x07, 0xAA, 0xBB]
def ext8Bytes : List Byte := [0xC7, 0x03, 0x05, 0x01, 0x02, 0x03]
def wideBytes : List Byte :=
  [0xDC, 0x00, 0x02, 0xDE, 0x00, 0x01, 0xD9, 0x01, 0x6B, 0xCD, 0x00, 0x05, 0xC4, 0x01, 0xFF]

example : (MD.run ⟨65535⟩ 3 .all [0xDA, 0x00, 0x03, 0x61]).1 = .incomplete :=
  (prefix_classification_of_consumed ⟨65535⟩ 3 .all str16Bytes (by decide +kernel) [0xDA, 0x00, 0x03, 0x61]
    (by decide +kernel) (by decide +kernel)).1
example : (MD.run ⟨65535⟩ 3 .all [0xC4, 0x02, 0x01]).1 = .incomplete :=
  (prefix_classification_of_consumed ⟨65535⟩ 3 .all bin8Bytes (by decide +kernel) [0xC4, 0x02, 0x01]
    (by decide +kernel) (by decide +kernel)).1
example : (MD.run ⟨65535⟩ 3 .all [0xD5, 0x07]).1 = .incomplete :=
  (prefix_classification_of_consumed ⟨65535⟩ 3 .all fixext2Bytes (by decide +kernel) [0xD5, 0x07]
    (by decide +kernel) (by decide +kernel)).1
example : (MD.run ⟨65535⟩ 3 .all [0xC7, 0x03, 0x05, 0x01]).1 = .incomplete :=
  (prefix_classification_of_consumed ⟨65535⟩ 3 .all ext8Bytes (by decide +kernel) [0xC7, 0x03, 0x05, 0x01]
    (by decide +kernel) (by decide +kernel)).1
example : (MD.run ⟨65535⟩ 3 (.doc none) [0xDC, 0x00, 0x02, 0xDE, 0x00, 0x01, 0xD9, 0x01]).1 = .incomplete :=
  (prefix_classification_of_consumed ⟨65535⟩ 3 (.doc none) wideBytes (by decide +kernel) _
    (by decide +kernel) (by decide +kernel)).1

/-- the five are well-formed encodings in the sense of `MD.Enc` -/
theorem str16_enc : Enc ⟨65535⟩ 0 str16Bytes :=
  .leaf (.str16 [0x00, 0x03] [0x61, 0x62, 0x63] rfl (by decide +kernel) (by decide))
theorem bin8_enc : Enc ⟨65535⟩ 0 bin8Bytes :=
  .leaf (.bin 0xC4 0 [0x02] [0x01, 0x02] (by decide) (by decide) rfl (by decide +kernel) (by decide))
theorem fixext2_enc : Enc ⟨65535⟩ 0 fixext2Bytes :=
  .leaf (.fixext 0xD5 1 [0x07, 0xAA, 0xBB] (by decide) (by decide) rfl (by decide))
theorem ext8_enc : Enc ⟨65535⟩ 0 ext8Bytes :=
  .leaf (.ext 0xC7 0 [0x03] [0x05, 0x01, 0x02, 0x03] (by decide) (by decide) rfl (by decide +kernel) (by decide))
theorem wide_enc : Enc ⟨65535⟩ 2 wideBytes := by
  have hmap : Enc ⟨65535⟩ 1 [0xDE, 0x00, 0x01, 0xD9, 0x01, 0x6B, 0xCD, 0x00, 0x05] :=
    Enc.map (d := 0) [0xDE, 0x00, 0x01] [([0xD9, 0x01, 0x6B], [0xCD, 0x00, 0x05])]
      (.m16 [0x00, 0x01] 1 rfl (by decide +kernel))
      (fun kv hkv => by
        simp only [List.mem_cons, List.mem_nil_iff, or_false] at hkv
        subst hkv
        exact KeyEnc.sized 0xD9 0 [0x01] [0x6B] (by decide) (by decide) rfl (by decide +kernel) (by decide))
      (fun kv hkv => by
        simp only [List.mem_cons, List.mem_nil_iff, or_false] at hkv
        subst hkv
        exact .leaf (.int 0xCD [0x00, 0x05] (by decide) (by decide) (by decide)))
  have hbin : Enc ⟨65535⟩ 1 [0xC4, 0x01, 0xFF] :=
    .leaf (.bin 0xC4 0 [0x01] [0xFF] (by decide) (by decide) rfl (by decide +kernel) (by decide))
  exact Enc.arr (d := 1) [0xDC, 0x00, 0x02]
    [[0xDE, 0x00, 0x01, 0xD9, 0x01, 0x6B, 0xCD, 0x00, 0x05], [0xC4, 0x01, 0xFF]]
    (.a16 [0x00, 0x02] 2 rfl (by decide +kernel))
    (fun e he => by
      simp only [List.mem_cons, List.mem_nil_iff, or_false] at he
      rcases he with rfl | rfl
      · exact hmap
      · exact hbin)

/-- `enc_prefix_classification` instantiated: the nested any-width document cut inside the str8 key, under a filter -/
example : (MD.run ⟨65535⟩ 3 keepC [0xDC, 0x00, 0x02, 0xDE, 0x00, 0x01, 0xD9, 0x01]).1 = .incomplete :=
  enc_prefix_incomplete ⟨65535⟩ 3 keepC wide_enc (by decide) _ (by decide +kernel) (by decide +kernel) (by decide)
example : (MD.run ⟨65535⟩ 3 .all (ext8Bytes ++ [0xC1])).1 = .ok ∧ (MD.run ⟨65535⟩ 3 .all (ext8Bytes ++ [0xC1])).2.2 = 6 :=
  enc_accepts ⟨65535⟩ 3 .all ext8_enc (by decide) [0xC1]

/-- all prefixes of these five, by evaluation -/
example : ∀ e ∈ [str16Bytes, bin8Bytes, fixext2Bytes, ext8Bytes, wideBytes], ∀ p ∈ prefixesOf e,
    (MD.run ⟨65535⟩ 3 .all p).1 = (if p = e then .ok else if p = [] then .empty else .incomplete)
    ∧ (MD.run ⟨65535⟩ 3 .all p).2.2 = p.length := by decide +kernel

/-- two objects back to back, cut inside the second: the first one comes out, 14 bytes consumed -/
example : MD.run ⟨65535⟩ 3 .all (nestBytes ++ [0x82, 0xA1, 0x61]) = (.ok, norm nestDoc, 14) := by
  have h := single_prefix_of_sequence ⟨65535⟩ 3 nestDoc nest_rawFree nest_within nest_depth nestBytes
    (nestBytes ++ [0x82, 0xA1, 0x61]) (by rw [nest_ser]; decide +kernel) (by rw [nest_ser]; decide)
  rw [nest_ser] at h
  exact h
example : (MD.run ⟨65535⟩ 3 .all (nestBytes ++ [0x82, 0xA1, 0x61])).1 = .ok
    ∧ (MD.run ⟨65535⟩ 3 .all (nestBytes ++ [0x82, 0xA1, 0x61])).2.2 = 14 := by decide +kernel
/-- `run_prefix_by_consumed` on an input that is rejected: `[1, <reserved>, ...]` is InvalidInput after 3 bytes; every prefix of
    at least 3 bytes gives that very result, the shorter ones IncompleteInput / EmptyInput -/
example : MD.run ⟨65535⟩ 3 .all [0x93, 0x01, 0xC1, 0x05] = MD.run ⟨65535⟩ 3 .all [0x93, 0x01, 0xC1, 0x05, 0x06, 0x07] :=
  (run_prefix_by_consumed ⟨65535⟩ 3 .all [0x93, 0x01, 0xC1, 0x05, 0x06, 0x07] [0x93, 0x01, 0xC1, 0x05]
    (by decide +kernel)).1 (by decide +kernel)
example : (MD.run ⟨65535⟩ 3 .all [0x93, 0x01]).1 = .incomplete :=
  ((run_prefix_by_consumed ⟨65535⟩ 3 .all [0x93, 0x01, 0xC1, 0x05, 0x06, 0x07] [0x93, 0x01]
    (by decide +kernel)).2 (by decide +kernel)).1
example : ∀ p ∈ prefixesOf [0x93, 0x01, 0xC1, 0x05, 0x06, 0x07],
    (MD.run ⟨65535⟩ 3 .all p).1 = (if 3 ≤ p.length then .invalid else if p = [] then .empty else .incomplete)
    ∧ (MD.run ⟨65535⟩ 3 .all p).2.2 = min 3 p.length := by decide +kernel

/-- any encoding, any filter: a bin8 followed by the beginning of something else -/
example : MD.run ⟨65535⟩ 3 keepC (bin8Bytes ++ [0xDC, 0x00]) = MD.run ⟨65535⟩ 3 keepC bin8Bytes :=
  extension_stable ⟨65535⟩ 3 keepC bin8Bytes [0xDC, 0x00] (by decide +kernel) (by decide +kernel)

/-- positions inside `{"a":[1,{"b": ...`: after the key "a" (depth 1), after the element 1 (depth 2), after the key "b" (depth 3) -/
theorem pos1 : ValuePos ⟨65535⟩ 3 1 [0x82, 0xA1, 0x61] := by
  have h := ValuePos.member (env := ⟨65535⟩) (L := 3) 2 [] [0x61] .top (by decide) (by decide) (by decide)
    (by simp only [RawFreeMembers]) (by simp only [WithinLimitsMembers]) (by simp only [depthMembers]; decide)
    (by decide) (by decide)
  rw [show [] ++ mapHdr 2 ++ serMembers [] ++ (strHdr [(0x61 : Byte)].length ++ [0x61]) = [0x82, 0xA1, 0x61]
    by decide +kernel] at h
  exact h
theorem pos2 : ValuePos ⟨65535⟩ 3 2 [0x82, 0xA1, 0x61, 0x92, 0x01] := by
  have h := ValuePos.elem (env := ⟨65535⟩) (L := 3) 2 [.num (.uint 1)] pos1 (by decide) (by decide) (by decide)
    (by simp only [RawFreeElems, RawFree, and_self])
    (by simp only [WithinLimitsElems, WithinLimits, NumOk]; decide) (by simp only [depthElems, depth]; decide)
  rw [show [0x82, 0xA1, 0x61] ++ arrHdr 2 ++ serElems [.num (.uint 1)] = [0x82, 0xA1, 0x61, 0x92, 0x01]
    by decide +kernel] at h
  exact h
theorem pos3 : ValuePos ⟨65535⟩ 3 3 [0x82, 0xA1, 0x61, 0x92, 0x01, 0x81, 0xA1, 0x62] := by
  have h := ValuePos.member (env := ⟨65535⟩) (L := 3) 1 [] [0x62] pos2 (by decide) (by decide) (by decide)
    (by simp only [RawFreeMembers]) (by simp only [WithinLimitsMembers]) (by simp only [depthMembers]; decide)
    (by decide) (by decide)
  rw [show [0x82, 0xA1, 0x61, 0x92, 0x01] ++ mapHdr 1 ++ serMembers [] ++ (strHdr [(0x62 : Byte)].length ++ [0x62])
      = [0x82, 0xA1, 0x61, 0x92, 0x01, 0x81, 0xA1, 0x62] by decide +kernel] at h
  exact h
theorem keyPos2 : KeyPos ⟨65535⟩ 3 [0x82, 0xA1, 0x61, 0x92, 0x01, 0x81] := by
  have h := KeyPos.mk (env := ⟨65535⟩) (L := 3) 1 [] pos2 (by decide) (by decide) (by decide)
    (by simp only [RawFreeMembers]) (by simp only [WithinLimitsMembers]) (by simp only [depthMembers]; decide)
  rw [show [0x82, 0xA1, 0x61, 0x92, 0x01] ++ mapHdr 1 ++ serMembers [] = [0x82, 0xA1, 0x61, 0x92, 0x01, 0x81]
    by decide +kernel] at h
  exact h

/-- 0xC1 as the value of "b", three containers deep: InvalidInput at byte 9, with and without a filter -/
example : (MD.run ⟨65535⟩ 3 .all [0x82, 0xA1, 0x61, 0x92, 0x01, 0x81, 0xA1, 0x62, 0xC1, 0x68, 0x69]).1 = .invalid
    ∧ (MD.run ⟨65535⟩ 3 .all [0x82, 0xA1, 0x61, 0x92, 0x01, 0x81, 0xA1, 0x62, 0xC1, 0x68, 0x69]).2.2 = 9 :=
  reserved_code_at ⟨65535⟩ 3 .all pos3 [0x68, 0x69]
example : (MD.run ⟨65535⟩ 3 keepC [0x82, 0xA1, 0x61, 0x92, 0x01, 0x81, 0xA1, 0x62, 0xC1]).1 = .invalid :=
  (reserved_code_at ⟨65535⟩ 3 keepC pos3 []).1
/-- 0xC1 as the second array element -/
example : (MD.run ⟨65535⟩ 3 .all [0x82, 0xA1, 0x61, 0x92, 0x01, 0xC1]).1 = .invalid :=
  (reserved_code_at ⟨65535⟩ 3 .all pos2 []).1
/-- an integer (0x05), nil (0xC0), an array header (0x91), a bin8 header (0xC4) as the key of the inner map -/
example : ∀ c ∈ [(0x05 : Byte), 0xC0, 0x91, 0xC4],
    (MD.run ⟨65535⟩ 3 .all ([0x82, 0xA1, 0x61, 0x92, 0x01, 0x81] ++ c :: [0xA2, 0x68, 0x69])).1 = .invalid
    ∧ (MD.run ⟨65535⟩ 3 .all ([0x82, 0xA1, 0x61, 0x92, 0x01, 0x81] ++ c :: [0xA2, 0x68, 0x69])).2.2 = 7 := by
  intro c hc
  refine non_string_key_at ⟨65535⟩ 3 .all keyPos2 c [0xA2, 0x68, 0x69] ?_ ?_
  all_goals (simp only [List.mem_cons, List.mem_nil_iff, or_false] at hc; rcases hc with rfl | rfl | rfl | rfl <;> decide)
/-- the same four by evaluation -/
example : ∀ c ∈ [(0x05 : Byte), 0xC0, 0x91, 0xC4],
    (MD.run ⟨65535⟩ 3 .all ([0x82, 0xA1, 0x61, 0x92, 0x01, 0x81] ++ c :: [0xA2, 0x68, 0x69])).1 = .invalid
    ∧ (MD.run ⟨65535⟩ 3 .all ([0x82, 0xA1, 0x61, 0x92, 0x01, 0x81] ++ c :: [0xA2, 0x68, 0x69])).2.2 = 7 := by
  decide +kernel

/-- positions in the any-width document `wideBytes`: inside the array16 (depth 1), after the str8 key of the map16 (depth 2) -/
theorem posE1 : ValuePosE ⟨65535⟩ 3 1 [0xDC, 0x00, 0x02] :=
  ValuePosE.elem (env := ⟨65535⟩) (L := 3) [0xDC, 0x00, 0x02] 2 [] .top (by decide)
    (.a16 [0x00, 0x02] 2 rfl (by decide +kernel)) (by decide) (fun e he => by simp at he)
theorem posE2 : ValuePosE ⟨65535⟩ 3 2 [0xDC, 0x00, 0x02, 0xDE, 0x00, 0x01, 0xD9, 0x01, 0x6B] :=
  ValuePosE.member (env := ⟨65535⟩) (L := 3) [0xDE, 0x00, 0x01] 1 [] [0xD9, 0x01, 0x6B] posE1 (by decide)
    (.m16 [0x00, 0x01] 1 rfl (by decide +kernel)) (by decide) (fun kv h => by simp at h) (fun kv h => by simp at h)
    (KeyEnc.sized 0xD9 0 [0x01] [0x6B] (by decide) (by decide) rfl (by decide +kernel) (by decide))
theorem keyPosE1 : KeyPosE ⟨65535⟩ 3 [0xDC, 0x00, 0x02, 0xDE, 0x00, 0x01] :=
  KeyPosE.mk (env := ⟨65535⟩) (L := 3) [0xDE, 0x00, 0x01] 1 [] posE1 (by decide)
    (.m16 [0x00, 0x01] 1 rfl (by decide +kernel)) (by decide) (fun kv h => by simp at h) (fun kv h => by simp at h)
example : (MD.run ⟨65535⟩ 3 .all [0xDC, 0x00, 0x02, 0xDE, 0x00, 0x01, 0xD9, 0x01, 0x6B, 0xC1, 0x00]).1 = .invalid
    ∧ (MD.run ⟨65535⟩ 3 .all [0xDC, 0x00, 0x02, 0xDE, 0x00, 0x01, 0xD9, 0x01, 0x6B, 0xC1, 0x00]).2.2 = 10 :=
  reserved_code_at_enc ⟨65535⟩ 3 .all posE2 [0x00]
example : (MD.run ⟨65535⟩ 3 keepC [0xDC, 0x00, 0x02, 0xDE, 0x00, 0x01, 0xC4, 0x01, 0xFF]).1 = .invalid
    ∧ (MD.run ⟨65535⟩ 3 keepC [0xDC, 0x00, 0x02, 0xDE, 0x00, 0x01, 0xC4, 0x01, 0xFF]).2.2 = 7 :=
  non_string_key_at_enc ⟨65535⟩ 3 keepC keyPosE1 0xC4 [0x01, 0xFF] (by decide) (by decide)
example : (MD.run ⟨65535⟩ 3 .all [0xDC, 0x00, 0x02, 0xDE, 0x00, 0x01, 0xD9, 0x01, 0x6B, 0xC1, 0x00]).1 = .invalid
    ∧ (MD.run ⟨65535⟩ 3 keepC [0xDC, 0x00, 0x02, 0xDE, 0x00, 0x01, 0xC4, 0x01, 0xFF]).2.2 = 7 := by decide +kernel

/-! remarks on the hypotheses, by evaluation -/
/-- `filter_code_consumed` needs "not NoMemory": a string longer than `maxStrLen` is refused by `.all`, skipped under a filter -/
example : (MD.run ⟨2⟩ 3 .all [0xA3, 0x61, 0x62, 0x63]).1 = .noMemory ∧ (MD.run ⟨2⟩ 3 (.doc none) [0xA3, 0x61, 0x62, 0x63]).1 = .ok := by
  decide +kernel
/-- a position deeper than the nesting limit is not a `ValuePos`: the container header already gives TooDeep -/
example : (MD.run ⟨65535⟩ 2 .all [0x82, 0xA1, 0x61, 0x92, 0x01, 0x81, 0xA1, 0x62, 0xC1]).1 = .tooDeep := by decide +kernel

end examples

end C09
