/- C09 — the VALUE of every legal MessagePack encoding, non-minimal widths included.

   `C09.enc_accepts` (Props/C09Prefix.lean) proves that every encoding of the syntactic predicate `MD.Enc env d e` (any legal
   width at every place: fix/8/16/32 lengths and counts, bin, ext, fixext, nested arrays and maps, within the limits) is accepted
   with exact consumption; the value stayed behind an existential. Here:

   * `MD.EncVal env d e v` (Lemmas/MpEncValue.lean) mirrors `MD.Enc` constructor by constructor and carries the value `v`
     (leaf cases compute it from the header / payload bytes); `enc_value_unique`: `Enc env d e → ∃! v, EncVal env d e v`.
   * `enc_value` : `EncVal env d e v → d ≤ L → MD.run env L .all (e ++ rest) = (.ok, v, e.length)`;
     `enc_value_filtered` : under any filter the result is `Spec.Filter.project flt v`.
   * `enc_decodeTop` : the independent decoder written from the format specification (`MSpec.decodeTop`) reads `e` as exactly one
     object `mv` with nothing left, and `v` denotes `mv` (`MD.Den`: integers by value, floats bit-exact, strings, raw nodes
     whose bytes decode to that bin / ext, arrays, maps in order). `enc_decodeTop_value`: for raw-free `v`,
     `canon v = valOfMV mv`: up to the signedness tag of non-negative integers, `v` is a function of `mv`.
   * `width_irrelevant` : two legal encodings that the specification decoder reads as the same object give documents that
     compare equal (`Cmp.compare … = .equal`, `C18.vEq`), provided the first holds no raw node, no NaN, no repeated key.
     `raw_width_matters`: for bin the hypothesis is needed (bin8 and bin16 of the same payload: same object, unequal documents). -/
import AJ.Lemmas.MpEncSpec
import AJ.Props.C09Prefix
import AJ.Props.C11Mp
import AJ.Props.C18
namespace C09
open JD hiding parseVariant run
open MD CrossFormat

/-! ## 1. existence and uniqueness of the value -/

/-- every legal encoding has exactly one value -/
theorem enc_value_unique {env : Env} {d : Nat} {e : List Byte} (h : Enc env d e) :
    ∃ v, EncVal env d e v ∧ ∀ v', EncVal env d e v' → v' = v := by
  obtain ⟨v, hv⟩ := h.hasVal
  exact ⟨v, hv, fun v' hv' => encVal_unique hv' hv⟩

/-- an encoding with a value is a legal encoding -/
theorem encVal_enc {env : Env} {d : Nat} {e : List Byte} {v : Val} (h : EncVal env d e v) : Enc env d e := h.enc

/-! ## 2. the deserializer computes exactly that value -/

/-- **C09, value clause.** For every legal encoding `e` (any width at every place) with value `v`, nesting at most `L`:
    the deserializer model, on `e` followed by anything, answers Ok with exactly `v` and consumes exactly `e`. -/
theorem enc_value (env : Env) (L : Nat) {d : Nat} {e : List Byte} {v : Val} (h : EncVal env d e v) (hd : d ≤ L)
    (rest : List Byte) :
    MD.run env L .all (e ++ rest) = (.ok, v, e.length) := by
  have hv := enc_val h (2 * (e ++ rest).length + 4) L rest 0 hd (by simp only [List.length_append]; omega)
  simp only [run]
  rw [hv]
  simp

/-- the same under any filter: the stored document is the projection of `v` by the filter -/
theorem enc_value_filtered (env : Env) (L : Nat) (flt : Flt) {d : Nat} {e : List Byte} {v : Val} (h : EncVal env d e v)
    (hd : d ≤ L) (rest : List Byte) :
    MD.run env L flt (e ++ rest) = (.ok, Spec.Filter.project flt v, e.length) := by
  have h0 := enc_value env L h hd rest
  have := C11.msgpack_projection_all_inputs env L flt (e ++ rest) (by rw [h0])
  rw [this, h0]

/-- the existential of `enc_accepts` removed: the value of the run is THE value of the encoding -/
theorem enc_run_value (env : Env) (L : Nat) (flt : Flt) {d : Nat} {e : List Byte} (h : Enc env d e) (hd : d ≤ L)
    (rest : List Byte) :
    ∃ v, EncVal env d e v ∧ MD.run env L .all (e ++ rest) = (.ok, v, e.length) ∧
      MD.run env L flt (e ++ rest) = (.ok, Spec.Filter.project flt v, e.length) := by
  obtain ⟨v, hv⟩ := h.hasVal
  exact ⟨v, hv, enc_value env L hv hd rest, enc_value_filtered env L flt hv hd rest⟩

/-! ## 3. agreement with the decoder written from the specification -/

/-- the specification decoder reads every legal encoding (bin / ext / fixext included) as exactly one object, nothing
    trailing, and the value the library stores denotes that object -/
theorem enc_decodeTop {env : Env} {d : Nat} {e : List Byte} {v : Val} (h : EncVal env d e v) :
    ∃ mv, MSpec.decodeTop e = some (mv, []) ∧ Den mv v := by
  obtain ⟨mv, hden, hdec⟩ := enc_spec h
  refine ⟨mv, ?_, hden⟩
  have := hdec (2 * e.length + 2) [] (by omega)
  rw [List.append_nil] at this
  exact this

/-- followed by anything: the specification decoder stops exactly where the library does -/
theorem enc_decode_rest {env : Env} {d : Nat} {e : List Byte} {v : Val} (h : EncVal env d e v) (rest : List Byte) :
    ∃ mv, MSpec.decodeTop (e ++ rest) = some (mv, rest) ∧ Den mv v := by
  obtain ⟨mv, hden, hdec⟩ := enc_spec h
  exact ⟨mv, hdec (2 * (e ++ rest).length + 2) rest (by simp only [List.length_append]; omega), hden⟩

/-- without bin / ext: the stored value, up to the signedness tag of non-negative integers (`canon`), is the function
    `valOfMV` of the object the specification decoder returns -/
theorem enc_decodeTop_value {env : Env} {d : Nat} {e : List Byte} {v : Val} (h : EncVal env d e v) (hr : RawFree v) :
    ∃ mv, MSpec.decodeTop e = some (mv, []) ∧ canon v = valOfMV mv := by
  obtain ⟨mv, h1, h2⟩ := enc_decodeTop h
  exact ⟨mv, h1, den_canon mv v h2 hr⟩

/-- **the width is irrelevant.** Two legal encodings (any widths) that the specification decoder reads as the same object
    give two documents with the same canonical form, and these compare equal — `Cmp.compare` both ways, i.e. `==` of two
    variants — provided the first document holds no raw node (no bin / ext), no NaN and no object with a repeated key. -/
theorem width_irrelevant {env : Env} {d1 d2 : Nat} {e1 e2 : List Byte} {v1 v2 : Val} (h1 : EncVal env d1 e1 v1)
    (h2 : EncVal env d2 e2 v2) (hs : MSpec.decodeTop e1 = MSpec.decodeTop e2) (hr : RawFree v1) (hn : NoNaN v1)
    (hd : Cmp.NoDupKeys v1) :
    canon v1 = canon v2 ∧ Cmp.compare v1 v2 = .equal ∧ Cmp.compare v2 v1 = .equal ∧
      C18.vEq v1 v2 = true ∧ C18.vEq v2 v1 = true := by
  obtain ⟨mv1, a1, b1⟩ := enc_decodeTop h1
  obtain ⟨mv2, a2, b2⟩ := enc_decodeTop h2
  rw [a1, a2] at hs
  simp only [Option.some.injEq, Prod.mk.injEq, and_true] at hs
  subst hs
  have hr2 := den_rawFree mv1 v1 v2 b1 b2 hr
  have hc : canon v1 = canon v2 := (den_canon mv1 v1 b1 hr).trans (den_canon mv1 v2 b2 hr2).symm
  obtain ⟨c1, c2⟩ := canon_eq_eqBoth v1 v2 hc hn hd
  refine ⟨hc, c1, c2, ?_, ?_⟩
  · simp only [C18.vEq, Cmp.variantOps, Cmp.opsRev, List.getD_cons_zero, c2]; rfl
  · simp only [C18.vEq, Cmp.variantOps, Cmp.opsRev, List.getD_cons_zero, c1]; rfl

/-- the same about the two runs of the deserializer -/
theorem width_irrelevant_run (env : Env) (L : Nat) {d1 d2 : Nat} {e1 e2 : List Byte} {v1 v2 : Val}
    (h1 : EncVal env d1 e1 v1) (h2 : EncVal env d2 e2 v2) (hd1 : d1 ≤ L) (hd2 : d2 ≤ L)
    (hs : MSpec.decodeTop e1 = MSpec.decodeTop e2) (hr : RawFree v1) (hn : NoNaN v1) (hd : Cmp.NoDupKeys v1)
    (rest1 rest2 : List Byte) :
    (MD.run env L .all (e1 ++ rest1)).1 = .ok ∧ (MD.run env L .all (e2 ++ rest2)).1 = .ok ∧
    C18.vEq (MD.run env L .all (e1 ++ rest1)).2.1 (MD.run env L .all (e2 ++ rest2)).2.1 = true := by
  rw [enc_value env L h1 hd1, enc_value env L h2 hd2]
  exact ⟨rfl, rfl, (width_irrelevant h1 h2 hs hr hn hd).2.2.2.1⟩

/-! ## 4. non-vacuity -/
section examples
set_option maxRecDepth 20000

abbrev E : Env := ⟨65535⟩

/-- the integer 1 in its seven legal encodings -/
theorem one_fix : EncVal E 0 [0x01] (.num (.sint 1)) := .leaf (.posfix 0x01 (by decide))
theorem one_u8 : EncVal E 0 [0xCC, 0x01] (.num (.uint 1)) := .leaf (.uint 0xCC [0x01] (by decide) (by decide) rfl)
theorem one_u16 : EncVal E 0 [0xCD, 0x00, 0x01] (.num (.uint 1)) :=
  .leaf (.uint 0xCD [0x00, 0x01] (by decide) (by decide) rfl)
theorem one_u32 : EncVal E 0 [0xCE, 0x00, 0x00, 0x00, 0x01] (.num (.uint 1)) :=
  .leaf (.uint 0xCE [0x00, 0x00, 0x00, 0x01] (by decide) (by decide) rfl)
theorem one_u64 : EncVal E 0 [0xCF, 0x00, 0x00, 0x00, 0x00, 0x00, 0x00, 0x00, 0x01] (.num (.uint 1)) :=
  .leaf (.uint 0xCF [0x00, 0x00, 0x00, 0x00, 0x00, 0x00, 0x00, 0x01] (by decide) (by decide) rfl)
theorem one_i8 : EncVal E 0 [0xD0, 0x01] (.num (.sint 1)) := .leaf (.sint 0xD0 [0x01] (by decide) (by decide) rfl)
theorem one_i16 : EncVal E 0 [0xD1, 0x00, 0x01] (.num (.sint 1)) :=
  .leaf (.sint 0xD1 [0x00, 0x01] (by decide) (by decide) rfl)
/-- a negative one: `d1 ff fe` is -2, like the negative fixint `fe` -/
theorem minus2_i16 : EncVal E 0 [0xD1, 0xFF, 0xFE] (.num (.sint (-2))) :=
  .leaf (.sint 0xD1 [0xFF, 0xFE] (by decide) (by decide) rfl)
theorem minus2_fix : EncVal E 0 [0xFE] (.num (.sint (-2))) := .leaf (.negfix 0xFE (by decide))

/-- `enc_value` instantiated: the values, with trailing bytes left alone -/
example : MD.run E 0 .all ([0x01] ++ [0xC1]) = (.ok, .num (.sint 1), 1) := enc_value E 0 one_fix (by decide) _
example : MD.run E 0 .all ([0xCC, 0x01] ++ [0xC1]) = (.ok, .num (.uint 1), 2) := enc_value E 0 one_u8 (by decide) _
example : MD.run E 0 .all ([0xCD, 0x00, 0x01] ++ [0xC1]) = (.ok, .num (.uint 1), 3) :=
  enc_value E 0 one_u16 (by decide) _
example : MD.run E 0 .all ([0xCE, 0x00, 0x00, 0x00, 0x01] ++ []) = (.ok, .num (.uint 1), 5) :=
  enc_value E 0 one_u32 (by decide) _
example : MD.run E 0 .all ([0xCF, 0x00, 0x00, 0x00, 0x00, 0x00, 0x00, 0x00, 0x01] ++ []) = (.ok, .num (.uint 1), 9) :=
  enc_value E 0 one_u64 (by decide) _
example : MD.run E 0 .all ([0xD0, 0x01] ++ []) = (.ok, .num (.sint 1), 2) := enc_value E 0 one_i8 (by decide) _
example : MD.run E 0 .all ([0xD1, 0x00, 0x01] ++ []) = (.ok, .num (.sint 1), 3) := enc_value E 0 one_i16 (by decide) _
example : MD.run E 0 .all ([0xD1, 0xFF, 0xFE] ++ []) = (.ok, .num (.sint (-2)), 3) :=
  enc_value E 0 minus2_i16 (by decide) _

/-- the same seven by evaluation of the model in the kernel (independent of the theorems) -/
example : MD.run E 0 .all [0x01, 0xC1] = (.ok, .num (.sint 1), 1) ∧
    MD.run E 0 .all [0xCC, 0x01, 0xC1] = (.ok, .num (.uint 1), 2) ∧
    MD.run E 0 .all [0xCD, 0x00, 0x01, 0xC1] = (.ok, .num (.uint 1), 3) ∧
    MD.run E 0 .all [0xCE, 0x00, 0x00, 0x00, 0x01] = (.ok, .num (.uint 1), 5) ∧
    MD.run E 0 .all [0xCF, 0x00, 0x00, 0x00, 0x00, 0x00, 0x00, 0x00, 0x01] = (.ok, .num (.uint 1), 9) ∧
    MD.run E 0 .all [0xD0, 0x01] = (.ok, .num (.sint 1), 2) ∧
    MD.run E 0 .all [0xD1, 0x00, 0x01] = (.ok, .num (.sint 1), 3) :=
  ⟨result_eq (by decide +kernel), result_eq (by decide +kernel), result_eq (by decide +kernel),
   result_eq (by decide +kernel), result_eq (by decide +kernel), result_eq (by decide +kernel),
   result_eq (by decide +kernel)⟩

/-- the specification decoder reads all seven as the integer 1 -/
example : ∀ e ∈ [[0x01], [0xCC, 0x01], [0xCD, 0x00, 0x01], [0xCE, 0x00, 0x00, 0x00, 0x01],
    [0xCF, 0x00, 0x00, 0x00, 0x00, 0x00, 0x00, 0x00, 0x01], [0xD0, 0x01], [0xD1, 0x00, 0x01]],
    MSpec.decodeTop e = MSpec.decodeTop [0x01] := by
  intro e he
  simp only [List.mem_cons, List.mem_nil_iff, or_false] at he
  rcases he with rfl | rfl | rfl | rfl | rfl | rfl | rfl <;> rfl

theorem noNaN_int (n : Num) (h : NoNaNNum n) : NoNaN (.num n) := by simp only [NoNaN]; exact h

/-- `width_irrelevant` instantiated: the fixint (stored signed) against uint16 (stored unsigned), and int16 against uint64 -/
example : C18.vEq (.num (.sint 1)) (.num (.uint 1)) = true ∧ C18.vEq (.num (.uint 1)) (.num (.sint 1)) = true :=
  (width_irrelevant one_fix one_u16 rfl (by simp only [RawFree]) (noNaN_int _ trivial)
    (by simp only [Cmp.NoDupKeys])).2.2.2
example : Cmp.compare (.num (.sint 1)) (.num (.uint 1)) = .equal :=
  (width_irrelevant one_i16 one_u64 rfl (by simp only [RawFree]) (noNaN_int _ trivial)
    (by simp only [Cmp.NoDupKeys])).2.1
example : C18.vEq (.num (.sint (-2))) (.num (.sint (-2))) = true :=
  (width_irrelevant minus2_fix minus2_i16 rfl (by simp only [RawFree]) (noNaN_int _ trivial)
    (by simp only [Cmp.NoDupKeys])).2.2.2.1

/-- the string "a" as fixstr / str8 / str16 / str32: one value -/
theorem a_fix : EncVal E 0 [0xA1, 0x61] (.str [0x61]) := .leaf (.fixstr 0xA1 [0x61] (by decide) (by decide) (by decide))
theorem a_s8 : EncVal E 0 [0xD9, 0x01, 0x61] (.str [0x61]) :=
  .leaf (.str8 [0x01] [0x61] rfl (by decide +kernel) (by decide))
theorem a_s16 : EncVal E 0 [0xDA, 0x00, 0x01, 0x61] (.str [0x61]) :=
  .leaf (.str16 [0x00, 0x01] [0x61] rfl (by decide +kernel) (by decide))
theorem a_s32 : EncVal E 0 [0xDB, 0x00, 0x00, 0x00, 0x01, 0x61] (.str [0x61]) :=
  .leaf (.str32 [0x00, 0x00, 0x00, 0x01] [0x61] rfl (by decide +kernel) (by decide))

example : MD.run E 0 .all ([0xDB, 0x00, 0x00, 0x00, 0x01, 0x61] ++ [0xFF]) = (.ok, .str [0x61], 6) :=
  enc_value E 0 a_s32 (by decide) _
example : MD.run E 0 .all [0xA1, 0x61] = (.ok, .str [0x61], 2) ∧ MD.run E 0 .all [0xD9, 0x01, 0x61] = (.ok, .str [0x61], 3) ∧
    MD.run E 0 .all [0xDA, 0x00, 0x01, 0x61] = (.ok, .str [0x61], 4) ∧
    MD.run E 0 .all [0xDB, 0x00, 0x00, 0x00, 0x01, 0x61, 0xFF] = (.ok, .str [0x61], 6) :=
  ⟨result_eq (by decide +kernel), result_eq (by decide +kernel), result_eq (by decide +kernel),
   result_eq (by decide +kernel)⟩
example : C18.vEq (.str [0x61]) (.str [0x61]) = true :=
  (width_irrelevant a_fix a_s16 rfl (by simp only [RawFree]) (by simp only [NoNaN]) (by simp only [Cmp.NoDupKeys])).2.2.2.1

/-- a one-element array as fixarray / array16 / array32, the element in three different widths -/
theorem arr1_fix : EncVal E 1 [0x91, 0x01] (.arr [.num (.sint 1)]) :=
  EncVal.arr (d := 0) [0x91] [([0x01], .num (.sint 1))] (.fix 0x91 1 (by decide) (by decide))
    (fun ev h => by
      simp only [List.mem_cons, List.mem_nil_iff, or_false] at h
      subst h; exact one_fix)
theorem arr1_a16 : EncVal E 1 [0xDC, 0x00, 0x01, 0xCD, 0x00, 0x01] (.arr [.num (.uint 1)]) :=
  EncVal.arr (d := 0) [0xDC, 0x00, 0x01] [([0xCD, 0x00, 0x01], .num (.uint 1))] (.a16 [0x00, 0x01] 1 rfl (by decide +kernel))
    (fun ev h => by
      simp only [List.mem_cons, List.mem_nil_iff, or_false] at h
      subst h; exact one_u16)
theorem arr1_a32 : EncVal E 1 [0xDD, 0x00, 0x00, 0x00, 0x01, 0xD0, 0x01] (.arr [.num (.sint 1)]) :=
  EncVal.arr (d := 0) [0xDD, 0x00, 0x00, 0x00, 0x01] [([0xD0, 0x01], .num (.sint 1))]
    (.a32 [0x00, 0x00, 0x00, 0x01] 1 rfl (by decide +kernel))
    (fun ev h => by
      simp only [List.mem_cons, List.mem_nil_iff, or_false] at h
      subst h; exact one_i8)

example : MD.run E 1 .all ([0xDC, 0x00, 0x01, 0xCD, 0x00, 0x01] ++ [0xC1]) = (.ok, .arr [.num (.uint 1)], 6) :=
  enc_value E 1 arr1_a16 (by decide) _
example : MD.run E 1 .all [0x91, 0x01] = (.ok, .arr [.num (.sint 1)], 2) ∧
    MD.run E 1 .all [0xDC, 0x00, 0x01, 0xCD, 0x00, 0x01, 0xC1] = (.ok, .arr [.num (.uint 1)], 6) ∧
    MD.run E 1 .all [0xDD, 0x00, 0x00, 0x00, 0x01, 0xD0, 0x01] = (.ok, .arr [.num (.sint 1)], 7) :=
  ⟨result_eq (by decide +kernel), result_eq (by decide +kernel), result_eq (by decide +kernel)⟩
/-- the nesting limit counts: with `L = 0` the theorem does not apply, and indeed the array is refused -/
example : (MD.run E 0 .all [0x91, 0x01]).1 = .tooDeep := by decide +kernel

theorem arr1_noNaN : NoNaN (.arr [.num (.sint 1)]) := by simp only [NoNaN, NoNaNL, NoNaNNum, and_self]
theorem arr1_noDup : Cmp.NoDupKeys (.arr [.num (.sint 1)]) := by
  simp only [Cmp.NoDupKeys, Cmp.NoDupKeys.ndL, and_self]
theorem arr1_rawFree : RawFree (.arr [.num (.sint 1)]) := by simp only [RawFree, RawFreeElems, and_self]

/-- fixarray[fixint] == array16[uint16] == array32[int8] -/
example : C18.vEq (.arr [.num (.sint 1)]) (.arr [.num (.uint 1)]) = true ∧
    C18.vEq (.arr [.num (.uint 1)]) (.arr [.num (.sint 1)]) = true :=
  (width_irrelevant arr1_fix arr1_a16 rfl arr1_rawFree arr1_noNaN arr1_noDup).2.2.2
example : C18.vEq (.arr [.num (.sint 1)]) (.arr [.num (.sint 1)]) = true :=
  (width_irrelevant arr1_fix arr1_a32 rfl arr1_rawFree arr1_noNaN arr1_noDup).2.2.2.1

/-- a map16 with a str8 key, under a filter that keeps the key: `enc_value_filtered` -/
theorem map1_m16 : EncVal E 1 [0xDE, 0x00, 0x01, 0xD9, 0x01, 0x6B, 0xCD, 0x00, 0x05] (.obj [([0x6B], .num (.uint 5))]) :=
  EncVal.map (d := 0) [0xDE, 0x00, 0x01] [([0xD9, 0x01, 0x6B], [0x6B], [0xCD, 0x00, 0x05], .num (.uint 5))]
    (.m16 [0x00, 0x01] 1 rfl (by decide +kernel))
    (fun m h => by
      simp only [List.mem_cons, List.mem_nil_iff, or_false] at h
      subst h
      exact KeyVal.sized 0xD9 0 [0x01] [0x6B] (by decide) (by decide) rfl (by decide +kernel) (by decide))
    (fun m h => by
      simp only [List.mem_cons, List.mem_nil_iff, or_false] at h
      subst h
      exact .leaf (.uint 0xCD [0x00, 0x05] (by decide) (by decide) rfl))
example : MD.run E 1 .all ([0xDE, 0x00, 0x01, 0xD9, 0x01, 0x6B, 0xCD, 0x00, 0x05] ++ []) =
    (.ok, .obj [([0x6B], .num (.uint 5))], 9) := enc_value E 1 map1_m16 (by decide) _
example : MD.run E 1 (.doc (some (.obj [([0x6B], .bool true)]))) ([0xDE, 0x00, 0x01, 0xD9, 0x01, 0x6B, 0xCD, 0x00, 0x05] ++ []) =
    (.ok, Spec.Filter.project (.doc (some (.obj [([0x6B], .bool true)]))) (.obj [([0x6B], .num (.uint 5))]), 9) :=
  enc_value_filtered E 1 _ map1_m16 (by decide) _

/-- float64 `1.5` (`cb 3ff8000000000000`): the library stores the float32 `3fc00000` (`storeDouble`), exactly the value of the
    float32 encoding `ca 3fc00000`; the specification objects differ (`f64` / `f32`), so this pair is outside
    `width_irrelevant`, but `enc_value` gives both values and they are identical -/
theorem f64_15 : EncVal E 0 [0xCB, 0x3F, 0xF8, 0x00, 0x00, 0x00, 0x00, 0x00, 0x00] (.num (.f32 0x3FC00000)) := by
  have h := EncVal.leaf (env := E) (d := 0) (LeafVal.f64 [0x3F, 0xF8, 0x00, 0x00, 0x00, 0x00, 0x00, 0x00] rfl)
  rw [show storeDouble (beNat [0x3F, 0xF8, 0x00, 0x00, 0x00, 0x00, 0x00, 0x00]) = .f32 0x3FC00000 by decide +kernel] at h
  exact h
theorem f32_15 : EncVal E 0 [0xCA, 0x3F, 0xC0, 0x00, 0x00] (.num (.f32 0x3FC00000)) := by
  have h := EncVal.leaf (env := E) (d := 0) (LeafVal.f32 [0x3F, 0xC0, 0x00, 0x00] rfl)
  rw [show beNat [0x3F, 0xC0, 0x00, 0x00] = 0x3FC00000 by decide +kernel] at h
  exact h
example : MD.run E 0 .all ([0xCB, 0x3F, 0xF8, 0x00, 0x00, 0x00, 0x00, 0x00, 0x00] ++ []) = (.ok, .num (.f32 0x3FC00000), 9) ∧
    MD.run E 0 .all ([0xCA, 0x3F, 0xC0, 0x00, 0x00] ++ []) = (.ok, .num (.f32 0x3FC00000), 5) :=
  ⟨enc_value E 0 f64_15 (by decide) _, enc_value E 0 f32_15 (by decide) _⟩

/-- bin8 / bin16 of the same payload: the raw node keeps the encoding verbatim -/
theorem bin_b8 : EncVal E 0 [0xC4, 0x01, 0xAA] (.raw [0xC4, 0x01, 0xAA]) :=
  .leaf (.bin 0xC4 0 [0x01] [0xAA] (by decide) (by decide) rfl (by decide +kernel) (by decide))
theorem bin_b16 : EncVal E 0 [0xC5, 0x00, 0x01, 0xAA] (.raw [0xC5, 0x00, 0x01, 0xAA]) :=
  .leaf (.bin 0xC5 1 [0x00, 0x01] [0xAA] (by decide) (by decide) rfl (by decide +kernel) (by decide))

/-- **the raw-free hypothesis of `width_irrelevant` is needed**: bin8 `c4 01 aa` and bin16 `c5 00 01 aa` are both legal, the
    specification decoder reads both as the same object `bin [aa]`, the library stores two different raw nodes
    (`enc_value`), and these do NOT compare equal -/
theorem raw_width_matters :
    MSpec.decodeTop [0xC4, 0x01, 0xAA] = MSpec.decodeTop [0xC5, 0x00, 0x01, 0xAA] ∧
    MD.run E 0 .all [0xC4, 0x01, 0xAA] = (.ok, .raw [0xC4, 0x01, 0xAA], 3) ∧
    MD.run E 0 .all [0xC5, 0x00, 0x01, 0xAA] = (.ok, .raw [0xC5, 0x00, 0x01, 0xAA], 4) ∧
    Cmp.compare (.raw [0xC4, 0x01, 0xAA]) (.raw [0xC5, 0x00, 0x01, 0xAA]) ≠ .equal ∧
    C18.vEq (.raw [0xC4, 0x01, 0xAA]) (.raw [0xC5, 0x00, 0x01, 0xAA]) = false := by
  have hc : Cmp.compare (.raw [0xC4, 0x01, 0xAA]) (.raw [0xC5, 0x00, 0x01, 0xAA]) = .less := by
    rw [Cmp.compare_raw]; decide +kernel
  have hc' : Cmp.compare (.raw [0xC5, 0x00, 0x01, 0xAA]) (.raw [0xC4, 0x01, 0xAA]) = .greater := by
    rw [Cmp.compare_raw]; decide +kernel
  refine ⟨rfl, ?_, ?_, (by rw [hc]; exact fun h => Cmp.CR.noConfusion h), ?_⟩
  · have := enc_value E 0 bin_b8 (by decide) []
    rw [List.append_nil] at this; exact this
  · have := enc_value E 0 bin_b16 (by decide) []
    rw [List.append_nil] at this; exact this
  · simp only [C18.vEq, Cmp.variantOps, Cmp.opsRev, List.getD_cons_zero, hc']; rfl

end examples
end C09
