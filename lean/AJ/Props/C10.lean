/- C10 — deserializeJson accepts exactly the documented dialect and classifies the rest.
   This file: the token-level facts the classification rests on, for every byte (not samples): which bytes `\u` accepts as hex
   digits, which escape letters exist, which literals become integers. The whole-parser statement (accepts iff in the dialect) is
   tied by the bounded-exhaustive correspondence + the independent recognizer tools/dialect.py; see DESIGN.md. -/
import AJ.Props.C12
import AJ.Spec.Unicode
import AJ.Lemmas.Bits
namespace C10
open JD

/-- `\u` accepts a byte as a hexadecimal digit iff it is one of 0-9 A-F a-f ("bad hex" is rejected): for every byte -/
theorem hex_digit_iff (c : UInt8) : decodeHex c ≤ 0x0F ↔ (Spec.hexVal c).isSome = true := by
  have key : ∀ c : UInt8, (decide (decodeHex c ≤ 0x0F) == (Spec.hexVal c).isSome) = true := by
    apply Bits.all_bytes; decide +kernel
  have := key c
  rw [beq_iff_eq] at this
  constructor
  · intro h; rw [← this]; exact decide_eq_true h
  · intro h; rw [← this] at h; exact of_decide_eq_true h

/-- the escape letters are exactly `" ' / \ b f n r t` (plus `u`, handled separately): every other byte after a backslash is InvalidInput -/
theorem escape_letters (c : UInt8) :
    unescapeChar c ≠ 0 ↔ c ∈ [0x22, 0x27, 0x2F, 0x5C, 0x62, 0x66, 0x6E, 0x72, 0x74] := by
  have key : ∀ c : UInt8, (decide (unescapeChar c ≠ 0) == [0x22, 0x27, 0x2F, 0x5C, 0x62, 0x66, 0x6E, 0x72, 0x74].contains c) = true := by
    apply Bits.all_bytes; decide +kernel
  have := key c
  rw [beq_iff_eq] at this
  constructor
  · intro h
    have hd : decide (unescapeChar c ≠ 0) = true := decide_eq_true h
    rw [hd] at this
    exact List.contains_iff_mem.mp this.symm
  · intro h
    have hc := List.contains_iff_mem.mpr h
    rw [hc] at this
    exact of_decide_eq_true this

/-- a literal becomes an unsigned integer exactly when it is an optional `+` followed by digits with value below 2^64 -/
theorem uint_literal_iff (cfg : Cfg) (s : List UInt8) (m : Nat) :
    parseNumber cfg s = .uint m ↔
      ∃ ds, (s = ds ∨ s = 0x2B :: ds) ∧ ds ≠ [] ∧ Digits.AllDigits ds ∧ Digits.decVal ds = m ∧ m < 2 ^ 64 :=
  C12.uint_parse_iff cfg s m

example : decodeHex 0x3A > 0x0F := by decide +kernel        -- ':' is not a hex digit
example : unescapeChar 0x78 = 0 := by decide +kernel         -- \x is not an escape
end C10
