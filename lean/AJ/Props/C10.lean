/- C10 — deserializeJson accepts exactly the documented dialect and classifies the rest.
   * token-level facts, for every byte: `hex_digit_iff`, `escape_letters`, `uint_literal_iff`;
   * the dialect as a relational grammar: AJ/Spec/Dialect.lean (`Spec.Dialect.Value`, `DWs`, `Doc`);
   * `sound` (Ok ⇒ the input is a text of the dialect and the value is the one the dialect assigns), `complete` /
     `complete_doc` (the converse), `ok_iff_dialect` (both), for EVERY configuration, nesting limit and input;
   * `unclosed_never_ok`, `unclosed_refused`: an input whose top-level array / object / string is not closed is never accepted;
   * classification: `empty_iff`, `disabled_comments`, `disabled_nan`, `disabled_inf`, `disabled_options`
     (TooDeep is AJ/Props/C15.lean, termination and the list of codes AJ/Props/C03.lean);
   * `Examples`: non-vacuity and kernel-checked facts about corners of the dialect.
   Helper lemmas: AJ/Lemmas/DialectSound*.lean (soundness), DialectWs / DialectComplete*.lean (completeness),
   DialectFound / DialectClass.lean (classification), DialectUnique.lean (leading white space is unique). -/
import AJ.Props.C12
import AJ.Spec.Unicode
import AJ.Lemmas.Bits
import AJ.Spec.Dialect
import AJ.Lemmas.DialectSound2
import AJ.Lemmas.DialectClass
import AJ.Lemmas.DialectComplete2
import AJ.Lemmas.DialectUnique
set_option linter.unusedSimpArgs false
namespace C10
open JD

/-- `\u` accepts a byte as a hexadecimal digit iff it is one of 0-9 A-F a-f ("bad hex" is rejected): for every byte -/
theorem hex_digit_iff (c : UInt8) : decodeHex c ≤ 0x0F ↔ (Spec.hexVal c).isSome = true := by
  have key : ∀ c : UInt8, (decide (decodeHex c ≤ 0x0F) == (Spec.hexVal c).isSome) = true := by
    apply Bits.all_bytes; decide +kernel
  have := key c
  rw [beq_iff_eq] at this
  constructor
  · intro h; rw [← this]; exact decide_eq_true h
  · intro h; rw [← this] at h; exact of_decide_eq_true h

/-- the escape letters are exactly `" ' / \ b f n r t` (plus `u`, handled separately): every other byte after a backslash is InvalidInput -/
theorem escape_letters (c : UInt8) :
    unescapeChar c ≠ 0 ↔ c ∈ [0x22, 0x27, 0x2F, 0x5C, 0x62, 0x66, 0x6E, 0x72, 0x74] := by
  have key : ∀ c : UInt8, (decide (unescapeChar c ≠ 0) == [0x22, 0x27, 0x2F, 0x5C, 0x62, 0x66, 0x6E, 0x72, 0x74].contains c) = true := by
    apply Bits.all_bytes; decide +kernel
  have := key c
  rw [beq_iff_eq] at this
  constructor
  · intro h
    have hd : decide (unescapeChar c ≠ 0) = true := decide_eq_true h
    rw [hd] at this
    exact List.contains_iff_mem.mp this.symm
  · intro h
    have hc := List.contains_iff_mem.mpr h
    rw [hc] at this
    exact of_decide_eq_true this

/-- a literal becomes an unsigned integer exactly when it is an optional `+` followed by digits with value below 2^64 -/
theorem uint_literal_iff (cfg : Cfg) (s : List UInt8) (m : Nat) :
    parseNumber cfg s = .uint m ↔
      ∃ ds, (s = ds ∨ s = 0x2B :: ds) ∧ ds ≠ [] ∧ Digits.AllDigits ds ∧ Digits.decVal ds = m ∧ m < 2 ^ 64 :=
  C12.uint_parse_iff cfg s m

example : decodeHex 0x3A > 0x0F := by decide +kernel        -- ':' is not a hex digit
example : unescapeChar 0x78 = 0 := by decide +kernel         -- \x is not an escape

/-! ## Soundness: `Ok` only on texts of the dialect, with the value the dialect assigns

`Spec.Dialect` (AJ/Spec/Dialect.lean) is the dialect as a relational grammar. `Doc cfg L t v` says: `t` is dialect
white space (with comments only when `cfg.comments`), then a value text denoting `v` within the limits, then a trailer
(arbitrary, except after a number: white space, NUL or the end). No hypothesis on `cfg`, `L` or `t`. -/
open Spec.Dialect in
/-- **C10 (soundness).** Whenever the deserializer answers `Ok`, the input is a text of the documented dialect and the
    document it produced is the one the dialect assigns to that text. Every input outside the dialect is therefore
    answered with an error code. -/
theorem sound (cfg : Cfg) (L : Nat) (t : List UInt8) (h : (JD.run cfg L t).1 = .ok) :
    ∃ w body rest, t = w ++ body ++ rest ∧ DWs cfg w ∧ Value cfg L body (JD.run cfg L t).2.1 ∧
      (isNumberVal (JD.run cfg L t).2.1 = true → rest.headD 0 = 0 ∨ isWs (rest.headD 0) = true) :=
  run_sound cfg L t h

open Spec.Dialect in
/-- the contrapositive: a text that is not in the dialect is refused -/
theorem not_dialect_refused (cfg : Cfg) (L : Nat) (t : List UInt8) (h : ¬ ∃ v, Doc cfg L t v) :
    (JD.run cfg L t).1 ≠ .ok := fun hok => h ⟨_, run_sound cfg L t hok⟩

open Spec.Dialect in
/-- a container or string value ends with its closing delimiter -/
theorem value_closed {cfg : Cfg} {L : Nat} {body : List UInt8} {v : Val} (h : Value cfg L body v) :
    ∃ c mid, body = c :: mid ∧ (c = 0x5B → ∃ m, mid = m ++ [0x5D]) ∧ (c = 0x7B → ∃ m, mid = m ++ [0x7D]) ∧
      (IsQuote c → ∃ m, mid = m ++ [c]) := by
  cases h with
  | null => exact ⟨_, _, rfl, (fun h => absurd h (by decide)), (fun h => absurd h (by decide)), by intro h; rcases h with h | h <;> cases h⟩
  | «true» => exact ⟨_, _, rfl, (fun h => absurd h (by decide)), (fun h => absurd h (by decide)), by intro h; rcases h with h | h <;> cases h⟩
  | «false» => exact ⟨_, _, rfl, (fun h => absurd h (by decide)), (fun h => absurd h (by decide)), by intro h; rcases h with h | h <;> cases h⟩
  | num _ _ _ hn =>
    obtain ⟨_, hch, _, hden⟩ := hn
    cases body with
    | nil =>
      have : parseNumber cfg [] = .invalid := by
        simp only [parseNumber, List.headD_nil]
        have e1 : ((0 : UInt8) == 0x6E || (0 : UInt8) == 0x4E) = false := by decide
        have e2 : ((0 : UInt8) == 0x69 || (0 : UInt8) == 0x49) = false := by decide
        have e3 : (!(isDigit 0) && (0 : UInt8) != 0x2E) = true := by decide
        simp only [e1, e2, e3, Bool.and_false, Bool.false_eq_true, ↓reduceIte]
      simp only [numDen, this] at hden
      cases hden
    | cons c l =>
      have hc := hch c (List.mem_cons_self ..)
      have key : ∀ b : Bool, ∀ c : UInt8, (!((decide (0x30 ≤ c) && decide (c ≤ 0x39)) || c == 0x2B || c == 0x2D || c == 0x2E ||
          (if b then (decide (0x41 ≤ c) && decide (c ≤ 0x5A)) || (decide (0x61 ≤ c) && decide (c ≤ 0x7A)) else c == 0x65 || c == 0x45)) ||
          (c != 0x5B && c != 0x7B && c != 0x22 && c != 0x27)) = true := by
        intro b; cases b <;> (apply Bits.all_bytes; decide +kernel)
      have hk := key (cfg.nan || cfg.inf) c
      unfold inNumber at hc
      rw [hc] at hk
      simp only [Bool.not_true, Bool.false_or, Bool.and_eq_true, bne_iff_ne, ne_eq] at hk
      obtain ⟨⟨⟨a1, a2⟩, a3⟩, a4⟩ := hk
      exact ⟨c, l, rfl, fun h => absurd h a1, fun h => absurd h a2, fun h => by rcases h with h | h; exact absurd h a3; exact absurd h a4⟩
  | str _ q b s hq _ _ =>
    refine ⟨q, b ++ [q], by simp, ?_, ?_, fun _ => ⟨b, rfl⟩⟩
    · intro h; rcases hq with rfl | rfl <;> cases h
    · intro h; rcases hq with rfl | rfl <;> cases h
  | arrEmpty _ w _ =>
    exact ⟨0x5B, w ++ [0x5D], by simp, fun _ => ⟨w, rfl⟩, (fun h => absurd h (by decide)), by intro h; rcases h with h | h <;> cases h⟩
  | arr _ b _ _ =>
    exact ⟨0x5B, b ++ [0x5D], by simp, fun _ => ⟨b, rfl⟩, (fun h => absurd h (by decide)), by intro h; rcases h with h | h <;> cases h⟩
  | objEmpty _ w _ =>
    exact ⟨0x7B, w ++ [0x7D], by simp, (fun h => absurd h (by decide)), fun _ => ⟨w, rfl⟩, by intro h; rcases h with h | h <;> cases h⟩
  | obj _ b _ _ =>
    exact ⟨0x7B, b ++ [0x7D], by simp, (fun h => absurd h (by decide)), fun _ => ⟨b, rfl⟩, by intro h; rcases h with h | h <;> cases h⟩

open Spec.Dialect in
/-- **C10 (unclosed input is never accepted).** If the answer is `Ok`, the input is white space followed by a value
    text `body` that is complete: when `body` starts with `[`, `{` or a quote, the matching `]`, `}` or quote closes it
    INSIDE the input (what follows `body` is the ignored trailer). -/
theorem unclosed_never_ok (cfg : Cfg) (L : Nat) (t : List UInt8) (h : (JD.run cfg L t).1 = .ok) :
    ∃ w c mid rest, t = w ++ (c :: mid) ++ rest ∧ DWs cfg w ∧
      (c = 0x5B → ∃ m, mid = m ++ [0x5D]) ∧ (c = 0x7B → ∃ m, mid = m ++ [0x7D]) ∧ (IsQuote c → ∃ m, mid = m ++ [c]) := by
  obtain ⟨w, body, rest, ht, hw, hv, _⟩ := run_sound cfg L t h
  obtain ⟨c, mid, rfl, h1, h2, h3⟩ := value_closed hv
  exact ⟨w, c, mid, rest, ht, hw, h1, h2, h3⟩

/-- the byte that closes what `c` opens: `]` for `[`, `}` for `{`, the same quote for a quote -/
def closer (c : UInt8) : UInt8 := if c = 0x5B then 0x5D else if c = 0x7B then 0x7D else c

open Spec.Dialect in
/-- **C10 (unclosed input is never accepted), in terms of the input alone.** An input made of white space, then `[`, `{`
    or a quote, in which the closing `]`, `}` or quote does not occur any more, is never answered with `Ok` — whatever
    the configuration and the nesting limit. -/
theorem unclosed_refused (cfg : Cfg) (L : Nat) (w r : List UInt8) (c : UInt8) (hw : DWs cfg w)
    (hc : c = 0x5B ∨ c = 0x7B ∨ IsQuote c) (hun : closer c ∉ r) : (JD.run cfg L (w ++ c :: r)).1 ≠ .ok := by
  intro hok
  obtain ⟨w', body, rest, ht, hw', hv, _⟩ := run_sound cfg L _ hok
  obtain ⟨c', cs, rfl, tok, _, _⟩ := value_head_d hv
  obtain ⟨c'', mid, hb, h1, h2, h3⟩ := value_closed hv
  obtain ⟨rfl, rfl⟩ := List.cons.inj hb
  have nows : ∀ x : UInt8, Tok x → NoWs x := by
    intro x hx
    refine ⟨fun hws => ?_, hx.2.2⟩
    have := (ws_byte hws).2
    rw [hx.2.1] at this
    cases this
  have hcNoWs : NoWs c := by
    rcases hc with rfl | rfl | rfl | rfl <;> exact nows _ (by decide)
  have ht' : w ++ c :: r = w' ++ c' :: (cs ++ rest) := by rw [ht]; simp
  obtain ⟨_, rfl, rfl⟩ := dws_prefix_unique hw hw' hcNoWs (nows _ tok) ht'
  apply hun
  rcases hc with rfl | rfl | hq
  · obtain ⟨m, rfl⟩ := h1 rfl; simp [closer]
  · obtain ⟨m, rfl⟩ := h2 rfl; simp [closer]
  · obtain ⟨m, rfl⟩ := h3 hq
    have : closer c = c := by
      rcases hq with rfl | rfl <;> rfl
    rw [this]; simp

/-! ## Completeness: every text of the dialect is accepted, with the value the dialect assigns -/

open Spec.Dialect in
/-- **C10 (completeness of the value parser).** Same conclusion as `C01.value_complete`, for the whole dialect and for
    every configuration: from an unloaded latch standing on `w ++ t ++ rest` (`w` dialect white space, `t` a value text
    of the dialect denoting `v`), `parseVariant` with fuel `≥ |w| + |t| + 1` returns `Ok` and exactly `v`, having consumed
    exactly `w ++ t` (after a number the following byte is latched). Side condition as in C01: after a number token the
    next byte must not be a number byte. Covers single-quoted strings and `\'`, raw control characters, unquoted keys,
    comments (when enabled), the lenient numbers `+1 .5 1. 1e 01`, `NaN` / `Infinity` (when enabled). -/
theorem complete (cfg : Cfg) {L : Nat} {t : List UInt8} {v : Val}
    (h : Value cfg L t v) (fuel : Nat) (w rest : List UInt8) (s : St)
    (hw : DWs cfg w) (h1 : s.l.loaded = false) (h2 : s.l.unread = w ++ t ++ rest)
    (hfuel : w.length + t.length + 1 ≤ fuel) (hd : isNumberVal v = true → Delim cfg rest) :
    ∃ s', parseVariant cfg fuel L s = (.ok, v, s') ∧ s'.found = true ∧
      (if isNumberVal v then
         s'.l.loaded = true ∧ s'.l.cur = rest.headD 0 ∧ s'.l.unread = rest.tail ∧
         s'.l.pos = s.l.pos + w.length + t.length + min 1 rest.length
       else s'.l.loaded = false ∧ s'.l.unread = rest ∧ s'.l.pos = s.l.pos + w.length + t.length) := by
  have hs : At s (w ++ (t ++ rest)) s.l.pos s.found := ⟨h1, by rw [h2, List.append_assoc], rfl, rfl⟩
  obtain ⟨s', hp, hpost⟩ := dcomplete_value h fuel w rest s s.l.pos s.found hw hs.pos hfuel hd
  refine ⟨s', hp, ?_⟩
  unfold Post at hpost
  split at hpost
  · rename_i hn
    obtain ⟨f1, f2, f3, f4, f5⟩ := hpost.fields
    exact ⟨f5, by simp only [hn, ↓reduceIte]; exact ⟨f1, f2, f3, f4⟩⟩
  · rename_i hn
    exact ⟨hpost.2.2.2, by simp only [hn, ↓reduceIte]; exact ⟨hpost.1, hpost.2.1, hpost.2.2.1⟩⟩

open Spec.Dialect in
/-- **C10 (completeness).** A text of the dialect (white space, value, trailer) is answered with `Ok` and the document
    the dialect assigns. -/
theorem complete_doc (cfg : Cfg) {L : Nat} {t : List UInt8} {v : Val} (h : Doc cfg L t v) :
    (JD.run cfg L t).1 = .ok ∧ (JD.run cfg L t).2.1 = v := by
  obtain ⟨w, body, rest, rfl, hw, hv, htr⟩ := h
  have hrun : JD.run cfg L (w ++ body ++ rest) =
      (match parseVariant cfg (2 * (w ++ body ++ rest).length + 4) L { l := { unread := w ++ body ++ rest } } with
       | (.ok, v, s) =>
         if s.l.cur != 0 && !isWs s.l.cur && isNumberVal v then (.invalid, v, s.l.pos) else (.ok, v, s.l.pos)
       | (e, v, s) => (e, v, s.l.pos)) := rfl
  have hd : isNumberVal v = true → Delim cfg rest := by
    intro hn c r hr
    have := htr hn
    rw [hr] at this
    rcases this with h0 | hws
    · have : c = 0 := h0
      subst this; exact inNumber_zero cfg
    · exact (sep_facts cfg c (Or.inl hws)).1
  obtain ⟨s', hp, _, hpost⟩ := complete cfg hv (2 * (w ++ body ++ rest).length + 4) w rest
    { l := { unread := w ++ body ++ rest } } hw rfl rfl (by simp; omega) hd
  rw [hrun, hp]
  cases hn : isNumberVal v with
  | false => simp only [hn, Bool.and_false, Bool.false_eq_true, ↓reduceIte, and_self]
  | true =>
    rw [hn] at hpost
    simp only [↓reduceIte] at hpost
    have hc : (s'.l.cur != 0 && !isWs s'.l.cur) = false := by
      rw [hpost.2.1]
      rcases htr hn with h0 | hws
      · rw [h0]; rfl
      · rw [hws]; simp
    simp only [hc, hn, Bool.false_and, Bool.false_eq_true, ↓reduceIte, and_self]

open Spec.Dialect in
/-- **C10 (the dialect is exactly what is accepted).** `Ok` with the document `v` if and only if the input is a text of
    the dialect denoting `v`: for every configuration, nesting limit and input. -/
theorem ok_iff_dialect (cfg : Cfg) (L : Nat) (t : List UInt8) (v : Val) :
    ((JD.run cfg L t).1 = .ok ∧ (JD.run cfg L t).2.1 = v) ↔ Doc cfg L t v := by
  constructor
  · rintro ⟨h1, rfl⟩; exact run_sound cfg L t h1
  · exact complete_doc cfg

open Spec.Dialect in
/-- acceptance alone -/
theorem accepts_iff (cfg : Cfg) (L : Nat) (t : List UInt8) : (JD.run cfg L t).1 = .ok ↔ ∃ v, Doc cfg L t v :=
  ⟨fun h => ⟨_, run_sound cfg L t h⟩, fun ⟨_, h⟩ => (complete_doc cfg h).1⟩

/-! ## Classification -/

open Spec.Dialect in
/-- **C10 (EmptyInput).** The answer is `EmptyInput` exactly when the text — the input up to its first NUL, all of it
    if there is none — consists of white space only (RFC white space; with `cfg.comments` also complete comments). -/
theorem empty_iff (cfg : Cfg) (L : Nat) (t : List UInt8) :
    (JD.run cfg L t).1 = .empty ↔ DWs cfg (t.takeWhile (· != 0)) :=
  run_empty_iff cfg L t

open Spec.Dialect in
/-- **C10 (comments disabled).** Without `cfg.comments` a `/` where a value is expected is `InvalidInput`, whatever
    follows it. -/
theorem disabled_comments (cfg : Cfg) (hc : cfg.comments = false) (L : Nat) (w rest : List UInt8) (hw : DWs cfg w) :
    (JD.run cfg L (w ++ 0x2F :: rest)).1 = .invalid := by
  refine run_badStart cfg L w rest 0x2F hw (by decide) (by decide) (by rw [hc]; rfl) (by decide) ?_
  refine ⟨by decide, by decide, by decide, by decide, ?_, ?_⟩
  · cases cfg.nan <;> rfl
  · cases cfg.inf <;> rfl

open Spec.Dialect in
/-- **C10 (NaN disabled).** Without `cfg.nan` a value that starts with `N` — in particular `NaN` — is `InvalidInput`. -/
theorem disabled_nan (cfg : Cfg) (hn : cfg.nan = false) (L : Nat) (w rest : List UInt8) (hw : DWs cfg w) :
    (JD.run cfg L (w ++ 0x4E :: rest)).1 = .invalid := by
  refine run_badStart cfg L w rest 0x4E hw (by decide) (by decide) (by cases cfg.comments <;> rfl) (by decide) ?_
  refine ⟨by decide, by decide, by decide, by decide, ?_, ?_⟩
  · rw [hn]; rfl
  · cases cfg.inf <;> rfl

open Spec.Dialect in
/-- **C10 (Infinity disabled).** Without `cfg.inf` a value that starts with `I` — in particular `Infinity` — is
    `InvalidInput`. -/
theorem disabled_inf (cfg : Cfg) (hi : cfg.inf = false) (L : Nat) (w rest : List UInt8) (hw : DWs cfg w) :
    (JD.run cfg L (w ++ 0x49 :: rest)).1 = .invalid := by
  refine run_badStart cfg L w rest 0x49 hw (by decide) (by decide) (by cases cfg.comments <;> rfl) (by decide) ?_
  refine ⟨by decide, by decide, by decide, by decide, ?_, ?_⟩
  · cases cfg.nan <;> rfl
  · rw [hi]; rfl

open Spec.Dialect in
/-- the three texts of the property statement, with the default configuration (all options off) -/
theorem disabled_options (L : Nat) (rest : List UInt8) :
    (JD.run {} L (0x2F :: rest)).1 = .invalid ∧                                   -- `/…`
    (JD.run {} L ([0x4E, 0x61, 0x4E] ++ rest)).1 = .invalid ∧                     -- `NaN…`
    (JD.run {} L ([0x49, 0x6E, 0x66, 0x69, 0x6E, 0x69, 0x74, 0x79] ++ rest)).1 = .invalid :=   -- `Infinity…`
  ⟨disabled_comments {} rfl L [] rest DWs.nil, disabled_nan {} rfl L [] _ DWs.nil, disabled_inf {} rfl L [] _ DWs.nil⟩

/-! ## Non-vacuity -/
namespace Examples
open Spec.Dialect

/-- comments, NaN and Infinity enabled -/
def cfgD : Cfg := { comments := true, nan := true, inf := true }

/-- the text `/*c*/ {a:'x\'',"b":[+1,.5,NaN,-Infinity]}//x` -/
def dialectText : List UInt8 :=
  [0x2F, 0x2A, 0x63, 0x2A, 0x2F, 0x20, 0x7B, 0x61, 0x3A, 0x27, 0x78, 0x5C, 0x27, 0x27, 0x2C, 0x22, 0x62, 0x22, 0x3A, 0x5B,
   0x2B, 0x31, 0x2C, 0x2E, 0x35, 0x2C, 0x4E, 0x61, 0x4E, 0x2C, 0x2D, 0x49, 0x6E, 0x66, 0x69, 0x6E, 0x69, 0x74, 0x79, 0x5D,
   0x7D, 0x2F, 0x2F, 0x78]

theorem dialectText_ok : (JD.run cfgD 10 dialectText).1 = .ok := by decide +kernel

/-- `sound` on a text that uses every extension: it is in the dialect -/
example : ∃ w body rest, dialectText = w ++ body ++ rest ∧ DWs cfgD w ∧
    Value cfgD 10 body (JD.run cfgD 10 dialectText).2.1 ∧
    (isNumberVal (JD.run cfgD 10 dialectText).2.1 = true → rest.headD 0 = 0 ∨ isWs (rest.headD 0) = true) :=
  sound cfgD 10 dialectText dialectText_ok

/-- the same text is refused by the default configuration (the comment) -/
example : (JD.run {} 10 dialectText).1 = .invalid := disabled_comments {} rfl 10 [] _ DWs.nil

/-- `unclosed_refused` on `  [1,[2,3` (no `]` at all) -/
example : (JD.run {} 10 ([0x20, 0x20] ++ 0x5B :: [0x31, 0x2C, 0x5B, 0x32, 0x2C, 0x33])).1 ≠ .ok :=
  unclosed_refused {} 10 [0x20, 0x20] _ 0x5B (DWs.ws _ _ (Or.inl rfl) (DWs.ws _ _ (Or.inl rfl) DWs.nil)) (Or.inl rfl)
    (by decide)

/-- unclosed array / object / string: never `Ok` (here: `IncompleteInput`), consistent with `unclosed_never_ok` -/
example : (JD.run {} 10 [0x5B, 0x31, 0x2C, 0x32]).1 = .incomplete := by decide +kernel          -- `[1,2`
example : (JD.run {} 10 [0x7B, 0x22, 0x61, 0x22, 0x3A, 0x31]).1 = .incomplete := by decide +kernel  -- `{"a":1`
example : (JD.run {} 10 [0x27, 0x61, 0x62]).1 = .incomplete := by decide +kernel                -- `'ab`

/-- white space and a complete comment only: `EmptyInput`, by `empty_iff` -/
example : (JD.run cfgD 10 [0x20, 0x2F, 0x2A, 0x2A, 0x2F, 0x0A]).1 = .empty :=
  (empty_iff cfgD 10 _).mpr (by
    show DWs cfgD [0x20, 0x2F, 0x2A, 0x2A, 0x2F, 0x0A]
    exact DWs.ws _ _ (Or.inl rfl) (DWs.block [0x2A, 0x2F] [0x0A] rfl
      (Block.step false 0x2A [0x2F] (by decide) (by decide) Block.close) (DWs.ws _ _ (Or.inr (Or.inr (Or.inl rfl))) DWs.nil)))

/-- `/*/` is not a complete comment: not white space, hence not `EmptyInput` (it is `IncompleteInput`) -/
example : (JD.run cfgD 10 [0x2F, 0x2A, 0x2F]).1 = .incomplete := by decide +kernel

/-! ### completeness: explicit derivations -/

theorem numTok_of {cfg : Cfg} {lit : List UInt8} {n : PNum} {v : Val} (hp : parseNumber cfg lit = n)
    (hv : (match n with
      | .uint n => some (.num (.uint n)) | .sint n => some (.num (.sint n)) | .f32 b => some (.num (.f32 b))
      | .f64 b => some (.num (storeDouble b)) | .invalid => none | .fault => none) = some v)
    (h1 : lit.length ≤ 63) (h2 : ∀ c ∈ lit, inNumber cfg c = true) (h3 : lit.head? ≠ some 0x6E) : NumTok cfg lit v := by
  refine ⟨h1, h2, h3, ?_⟩
  unfold numDen
  rw [hp]
  cases n <;> exact hv

/-- the lenient spellings `+1`, `.5`, `1.`, `1e`, `01` (and even `.`) are number tokens of the dialect, with every
    configuration flag off; `-` alone is not -/
theorem lenient_numbers :
    NumTok {} [0x2B, 0x31] (.num (.uint 1)) ∧ NumTok {} [0x2E, 0x35] (.num (.f32 0x3F000000)) ∧
    NumTok {} [0x31, 0x2E] (.num (.f32 0x3F800000)) ∧ NumTok {} [0x31, 0x65] (.num (.f32 0x3F800000)) ∧
    NumTok {} [0x30, 0x31] (.num (.uint 1)) ∧ NumTok {} [0x2E] (.num (.f32 0)) ∧ (∀ v, ¬ NumTok {} [0x2D] v) := by
  refine ⟨?_, ?_, ?_, ?_, ?_, ?_, ?_⟩
  · exact numTok_of (n := .uint 1) (by decide +kernel) rfl (by decide) (by decide) (by decide)
  · exact numTok_of (n := .f32 0x3F000000) (by decide +kernel) rfl (by decide) (by decide) (by decide)
  · exact numTok_of (n := .f32 0x3F800000) (by decide +kernel) rfl (by decide) (by decide) (by decide)
  · exact numTok_of (n := .f32 0x3F800000) (by decide +kernel) rfl (by decide) (by decide) (by decide)
  · exact numTok_of (n := .uint 1) (by decide +kernel) rfl (by decide) (by decide) (by decide)
  · exact numTok_of (n := .f32 0) (by decide +kernel) rfl (by decide) (by decide) (by decide)
  · intro v h
    have hp : parseNumber {} [0x2D] = .invalid := by decide +kernel
    have := h.2.2.2
    simp only [numDen, hp] at this
    cases this

/-- the text `/**/{a:'x\'"',"n":[+1,.5]}` followed by arbitrary bytes, with comments enabled -/
def objText : List UInt8 :=
  [0x2F, 0x2A, 0x2A, 0x2F, 0x7B, 0x61, 0x3A, 0x27, 0x78, 0x5C, 0x27, 0x22, 0x27, 0x2C, 0x22, 0x6E, 0x22, 0x3A, 0x5B, 0x2B, 0x31,
   0x2C, 0x2E, 0x35, 0x5D, 0x7D]

def cfgC : Cfg := { comments := true }

theorem objValue : Value cfgC 2 (objText.drop 4)
    (.obj [([0x61], .str [0x78, 0x27, 0x22]), ([0x6E], .arr [.num (.uint 1), .num (.f32 0x3F000000)])]) := by
  have n1 : NumTok cfgC [0x2B, 0x31] (.num (.uint 1)) :=
    numTok_of (n := .uint 1) (by decide +kernel) rfl (by decide) (by decide) (by decide)
  have n2 : NumTok cfgC [0x2E, 0x35] (.num (.f32 0x3F000000)) :=
    numTok_of (n := .f32 0x3F000000) (by decide +kernel) rfl (by decide) (by decide) (by decide)
  have harr : Value cfgC 1 [0x5B, 0x2B, 0x31, 0x2C, 0x2E, 0x35, 0x5D] (.arr [.num (.uint 1), .num (.f32 0x3F000000)]) :=
    Value.arr 0 [0x2B, 0x31, 0x2C, 0x2E, 0x35] _
      (Elements.cons 0 [] [0x2B, 0x31] _ [] [0x2E, 0x35] _ DWs.nil (Value.num 0 _ _ n1) DWs.nil
        (Elements.one 0 [] [0x2E, 0x35] _ [] DWs.nil (Value.num 0 _ _ n2) DWs.nil))
  have hstr : Value cfgC 1 [0x27, 0x78, 0x5C, 0x27, 0x22, 0x27] (.str [0x78, 0x27, 0x22]) :=
    Value.str 1 0x27 [0x78, 0x5C, 0x27, 0x22] _ (Or.inr rfl) (by decide +kernel) (by decide)
  exact Value.obj 1 [0x61, 0x3A, 0x27, 0x78, 0x5C, 0x27, 0x22, 0x27, 0x2C, 0x22, 0x6E, 0x22, 0x3A, 0x5B, 0x2B, 0x31, 0x2C, 0x2E, 0x35, 0x5D]
    [([0x61], .str [0x78, 0x27, 0x22]), ([0x6E], .arr [.num (.uint 1), .num (.f32 0x3F000000)])]
    (Members.cons 1 [] [0x61] [0x61] [] [] [0x27, 0x78, 0x5C, 0x27, 0x22, 0x27] _ []
      [0x22, 0x6E, 0x22, 0x3A, 0x5B, 0x2B, 0x31, 0x2C, 0x2E, 0x35, 0x5D] _
      DWs.nil (Key.bare [0x61] (by decide) (by decide) (by decide)) DWs.nil DWs.nil hstr DWs.nil
      (Members.one 1 [] [0x22, 0x6E, 0x22] [0x6E] [] [] [0x5B, 0x2B, 0x31, 0x2C, 0x2E, 0x35, 0x5D] _ []
        DWs.nil (Key.quoted 0x22 [0x6E] [0x6E] (Or.inl rfl) (by decide +kernel) (by decide)) DWs.nil DWs.nil harr DWs.nil))

/-- `complete_doc` on that text followed by ANY bytes: accepted, with the value the dialect assigns -/
example (rest : List UInt8) :
    (JD.run cfgC 2 (objText ++ rest)).1 = .ok ∧
    (JD.run cfgC 2 (objText ++ rest)).2.1 =
      .obj [([0x61], .str [0x78, 0x27, 0x22]), ([0x6E], .arr [.num (.uint 1), .num (.f32 0x3F000000)])] :=
  complete_doc cfgC ⟨[0x2F, 0x2A, 0x2A, 0x2F], objText.drop 4, rest, rfl,
    DWs.block [0x2A, 0x2F] [] rfl (Block.step false 0x2A [0x2F] (by decide) (by decide) Block.close) DWs.nil,
    objValue, fun h => by cases h⟩

-- the same text evaluated directly (independent of the theorems)
example : (JD.run cfgC 2 objText).1 = .ok ∧ (JD.run cfgC 2 objText).2.2 = 26 := by decide +kernel

/-! ### what the model does that the documentation does not say (kernel-checked) -/

/-- without `decodeUnicode`, `\u` is copied and the four "digits" are not checked: `"\uZ"` is accepted -/
example : (JD.run { decodeUnicode := false } 3 [0x22, 0x5C, 0x75, 0x5A, 0x22]).1 = .ok := by decide +kernel
/-- with `decodeUnicode`, bad hex digits are refused -/
example : (JD.run {} 3 [0x22, 0x5C, 0x75, 0x5A, 0x30, 0x30, 0x30, 0x22]).1 = .invalid := by decide +kernel
/-- a lone low surrogate `\uDC00` is accepted and decoded as U+10000 (F0 90 80 80) -/
example : decodeBody {} 0x22 0 [0x5C, 0x75, 0x44, 0x43, 0x30, 0x30] = some [0xF0, 0x90, 0x80, 0x80] := by decide +kernel
/-- a surrogate pair `\uD83D\uDE00` is U+1F600 -/
example : decodeBody {} 0x22 0 [0x5C, 0x75, 0x44, 0x38, 0x33, 0x44, 0x5C, 0x75, 0x44, 0x45, 0x30, 0x30] =
    some [0xF0, 0x9F, 0x98, 0x80] := by decide +kernel
/-- a top-level number must be followed by white space, NUL or the end: `1]` is refused, `1 ]` accepted -/
example : (JD.run {} 3 [0x31, 0x5D]).1 = .invalid ∧ (JD.run {} 3 [0x31, 0x20, 0x5D]).1 = .ok := by decide +kernel

end Examples
end C10
