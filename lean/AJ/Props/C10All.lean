/- Aggregate: C10 acceptance (C10.lean) and classification of refused texts (C10Class.lean). -/
import AJ.Props.C10
import AJ.Props.C10Class
import AJ.Props.C01Doc
import AJ.Props.C10Gen
import AJ.Props.C10Gen2
